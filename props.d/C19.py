PROPS["C19"] = {
    "title": "Untrusted input never panics or leaves partial state (documented cases aside)",
    "level": "exploration",
    "technique": ("property-based testing (rapid) over a table of every byte-taking entry point: hostile lengths/contents, "
                  "recover() + error/boolean result + receiver-state oracle derived from the doc comments and the reference decoders; "
                  "exhaustive length sweep per argument"),
    "level_text": ("Generated-input search: for each row of the entry-point table (decoders, Set*, verification entry points single/batch/"
                   "expanded/cached, sr25519, ECVRF, X25519, expanders, transcripts, recoding widths, multiscalar length mismatch) inputs of "
                   "hostile length and content (nil vs empty, boundary scalars, non-canonical/off-curve point strings, mutated valid inputs) "
                   "must produce no panic other than the documented ones, signal malformed input through error/bool exactly when the reference "
                   "predicate says the input is malformed, and leave the receiver in the documented state. All lengths 0..2n+2 are swept "
                   "exhaustively per argument. Does not prove absence for contents. The expanded-key row also verifies through the zero value of ExpandedPublicKey under every option set."),
    "level_note": ("Trusted: verifref decoders (validated against RFC vectors), the expectation table in DESIGN.md appendix A (derived from doc "
                   "comments). Private-key/seed arguments and nil pointers are programming errors, not untrusted bytes, and are not in the table."),
    "rule": ("case = (table row, up to three byte arguments with length from {0,1,n-1,n,n+1,2n,uniform} and content from {hostile point strings, "
             "boundary scalars, zeros, ones, embedded point/scalar, uniform, mutated well-formed input}, nil-vs-empty flags, option selector); "
             "non-trivial = some argument has a non-nominal length or non-uniform content class; distinct = FNV-64 of the serialised case; "
             "plus the exhaustive (row, argument, length 0..2n+2, fill) sweep"),
    "assumptions": ["documented panics are exactly those listed in DESIGN.md appendix A"],
    "units": [{
        "pkg": "internal/zzc19", "configs": {"quick": ["default", "force32bit"], "thorough": ALL4 + ["386"]},
        "tests": {
            "TestC19Untrusted": T(120000, 2000000),
            "TestC19LengthSweep": LIST(),
            "FuzzC19Untrusted": FUZZ(180, configs=["default"]),
        },
    }],
}
