def _c20_post(ctx):
    """Measured from this run's stats files: the enumeration tests (everything except the supplementary
    randomised TestC20LookupRandom) each marked their finite domain as completely enumerated."""
    import glob, json, os
    if ctx.get("replay"):
        return [], [], {}
    dirs = ctx["dirs"]
    per = {}
    for f in glob.glob(os.path.join(dirs["stats"], "*.json")):
        with open(f) as fh:
            s = json.load(fh)
        d = per.setdefault(s["test"], {"exhaustive": True, "cases": 0, "configs": set()})
        d["exhaustive"] = d["exhaustive"] and bool(s.get("exhaustive"))
        d["cases"] += s.get("cases", 0)
        d["configs"].add(s.get("config", ""))
    enum = {k: v for k, v in per.items() if k != "TestC20LookupRandom"}
    expected = {"TestC20CurveConstants", "TestC20Torsion", "TestC20FixedBaseTable", "TestC20OddMultiples",
                "TestC20VectorTables", "TestC20AfterUse", "TestC20AfterUseTorsion", "TestC20AfterUseVector", "TestC20LookupAll", "TestC20ScalarConstants", "TestC20FieldConstants",
                "TestC20ElligatorConstants", "TestC20LatticeConstants", "TestC20X25519Basepoint"}
    errs = []
    missing = sorted(expected - set(enum))
    if missing:
        errs.append("C20: enumeration tests without statistics: %s" % ", ".join(missing))
    extra = {"enumerated_entries": {k: {"cases": v["cases"], "configs": sorted(v["configs"])} for k, v in sorted(enum.items())}}
    if not missing and all(v["exhaustive"] and v["cases"] > 0 for v in enum.values()):
        extra["exhaustive"] = True
        extra["explanation"] = ("every constant and every table entry of the finite domain was enumerated in each configuration "
                                "(tests listed under enumerated_entries, all marked exhaustive by the harness); "
                                "TestC20LookupRandom is an additional randomised read-back through the Lookup methods and is "
                                "not part of the exhaustive claim")
    return [], errs, extra


PROPS["C20"] = {
    "title": "Precomputed constants and tables equal their definitions in every backend",
    "level": "exploration",
    "technique": ("exhaustive enumeration of every embedded constant and table entry (finite domain) in in-package harness files, "
                  "raw limbs converted by the radix formula and compared with math/big definitions computed from first principles; "
                  "plus a rapid-driven read-back of the tables through their Lookup methods"),
    "level_text": ("Complete enumeration of a finite domain: all 256 fixed-base entries (packed bytes, unpacked limbs, generated AVX2 form), "
                   "both 64-entry odd-multiple tables of B and [2^128]B in the same three encodings, the eight torsion points, and every "
                   "field/scalar/lattice/Elligator constant, in the 64-bit, 32-bit and vector encodings (default, purego, force32bit builds). "
                   "Each value is read as raw limbs and compared with an independent big-integer definition; square-root constants are "
                   "computed (never transcribed) and the sign is asserted where a convention fixes it. Within the stated trust base this "
                   "decides the property for the built configurations; it says nothing about other architectures' compilers."),
    "level_note": ("Trusted: math/big, verifref (validated against RFC 9496 section 4.1 constants, RFC 9496 A.1/A.3 vectors, RFC 9380 "
                   "sqrt(-486664), and an independent affine doubling chain for the table definitions), reflect for reading unexported limbs. "
                   "The sign of V_FACTOR is immaterial by construction and not constrained. Function-local literals of the 32-bit field "
                   "backend (16p limbs, masks) are not addressable and are left to C04. The vector tables exist only when the CPU has AVX2."),
    "rule": ("explicit finite case lists, one case = one named constant or one table entry (table, i, j) in one encoding "
             "(packed bytes / unpacked limbs of the build's radix / AVX2 lanes), plus every (table, i, digit) through Lookup; "
             "non-trivial = every case except 0/1 literals, size constants and zero digits; distinct = FNV-64 of the serialised case; "
             "TestC20LookupRandom draws (table, i, digit) uniformly with rapid"),
    "assumptions": ["math/big is correct",
                    "verifref definitions (self-tested against RFC 9496 / RFC 9380 published values and an independent affine chain)",
                    "reflect reads unexported array fields faithfully (cross-checked against UnsafeInner / direct access on every read where available)"],
    "post": _c20_post,
    "units": [
        # noavx2: the amd64 build on a CPU without AVX2 takes its own branch of the start-up code
        # (edwards_vector_amd64.go:init), so the tables it leaves behind are enumerated separately
        {"pkg": "curve", "configs": ["default", "noavx2", "purego", "force32bit", "386", "386x64"],
         "tests": {
             "TestC20CurveConstants": LIST(),
             "TestC20Torsion": LIST(),
             "TestC20AfterUse": LIST(), "TestC20AfterUseTorsion": LIST(),
             "TestC20FixedBaseTable": LIST(),
             "TestC20OddMultiples": LIST(),
             "TestC20VectorTables": LIST(configs=["default"]),
             "TestC20AfterUseVector": LIST(configs=["default"]),
             "TestC20LookupAll": LIST(),
             "TestC20LookupRandom": T(3000, 100000),
         }},
        {"pkg": "curve/scalar", "configs": ["default", "purego", "force32bit", "386", "386x64"],
         "tests": {"TestC20ScalarConstants": LIST()}},
        {"pkg": "internal/field", "configs": ["default", "purego", "force32bit", "386", "386x64"],
         "tests": {"TestC20FieldConstants": LIST()}},
        {"pkg": "internal/elligator", "configs": ["default", "purego", "force32bit", "386", "386x64"],
         "tests": {"TestC20ElligatorConstants": LIST()}},
        {"pkg": "internal/lattice", "configs": ["default", "purego", "force32bit", "386", "386x64"],
         "tests": {"TestC20LatticeConstants": LIST()}},
        {"pkg": "primitives/x25519", "configs": ["default", "purego", "force32bit", "386", "386x64"],
         "tests": {"TestC20X25519Basepoint": LIST()}},
    ],
}
