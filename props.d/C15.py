PROPS["C15"] = {
    "title": "ECVRF proofs are complete, unique and specification-exact",
    "level": "exploration",
    "technique": ("property-based testing (rapid) against an independent math/big transcription of RFC 9381 section 5 "
                  "(ECVRF-EDWARDS25519-SHA512-ELL2, plus the draft-10 challenge) built on the RFC 9380 reference; an adversarial "
                  "prover that knows the secret scalar constructs torsion-shifted proofs that verify; exhaustive lists for encodings"),
    "level_text": ("Generated-input search: Prove/Prove_v10 and the added-randomness provers (entropy from generated readers with short "
                   "reads and truncated streams) are compared byte-for-byte with the reference for generated keys and inputs; Verify returns "
                   "(true, proof_to_hash) on them and false for another key, another input and the other challenge format; Verify and ProofToHash "
                   "are compared with the reference verdict on hostile public keys (non-canonical, small-order, mixed-order, off-curve, wrong length) "
                   "and proofs (bit flips, s+kL, s at the order boundary, non-canonical/small-order/shifted Gamma, wrong length); adversarially "
                   "constructed proofs with Gamma' = xH + T and/or key Y + T that satisfy the verification equations must verify and give the one "
                   "beta, and the same construction under small-order keys (a forgery needing no secret) must be rejected. Does not prove absence."),
    "level_note": ("Trusted: math/big, crypto/sha512, the reference (replays RFC 9381 B.3 / draft-10 vectors and, through h2c, the RFC 9380 vectors). "
                   "Private keys are seed || reference public key; private keys whose two halves disagree are outside the documented domain and not generated. "
                   "'Verification fails' for random neighbours is asserted modulo the reference agreeing (2^-128 accidents excluded by construction)."),
    "rule": ("rapid-generated (seed, alpha, entropy stream, format) and (public-key class, proof class) tuples, and adversarial (key torsion, Gamma torsion, "
             "nonce) tuples, each compared with the RFC 9381 reference; non-trivial = adversarial or rejected class, or added randomness, or the draft-10 "
             "format; distinct = FNV-64 of the serialised case"),
    "assumptions": ["math/big and crypto/sha512 are correct", "verifref ecvrf/h2c transcriptions are faithful (checked against RFC 9381 B.3 and RFC 9380 vectors)"],
    "units": [
        {
            "pkg": "primitives/ed25519/extra/ecvrf", "configs": ALL4,
            "tests": {
                "TestC15ProveVerify": T(1200, 50000),
                "TestC15VerifyRejects": T(1500, 60000),
                "TestC15Uniqueness": T(500, 20000),
                "TestC15RFCInputs": LIST(),
                "TestC15EncodingList": LIST(),
                "TestC15TorsionList": LIST(),
            },
        },
    ],
}
