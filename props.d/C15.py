PROPS["C15"] = {
    "title": "ECVRF proofs are complete, unique and specification-exact",
    "level": "exploration",
    "technique": ("property-based testing (rapid) against an independent math/big transcription of RFC 9381 section 5 "
                  "(ECVRF-EDWARDS25519-SHA512-ELL2, plus the draft-10 challenge) built on the RFC 9380 reference; an adversarial "
                  "prover that knows the secret scalar constructs torsion-shifted proofs that verify; exhaustive lists for encodings"),
    "level_text": ("Generated-input search: Prove/Prove_v10 are compared byte-for-byte with the reference for generated keys and inputs; the "
                   "added-randomness provers (entropy from generated readers with short reads; truncated streams must give an error) must emit proofs "
                   "that the reference verifier accepts, with Gamma = xH, varying with the entropy and with the same beta; Verify returns "
                   "(true, proof_to_hash) on all of them and false for another key, another input and the other challenge format; Verify and ProofToHash "
                   "are compared with the reference verdict on hostile public keys (non-canonical, small-order, mixed-order, off-curve, wrong length) "
                   "and proofs (bit flips, s+kL, s at the order boundary, non-canonical/small-order/shifted Gamma, wrong length); adversarially "
                   "constructed proofs with Gamma' = xH + T and/or key Y + T that satisfy the verification equations must verify and give the one "
                   "beta, and the same construction under small-order keys (a forgery needing no secret) must be rejected. Does not prove absence."),
    "level_note": ("Trusted: math/big, crypto/sha512, the reference (replays RFC 9381 B.3 / draft-10 vectors and, through h2c, the RFC 9380 vectors). "
                   "Private keys are seed || reference public key; private keys whose two halves disagree are outside the documented domain and not generated. "
                   "The thorough tier adds a 60 s native-fuzz campaign over (pk, pi, alpha, format) whose executions are not counted in the evidence numbers. "
                   "The exact way added entropy enters the nonce is undocumented and therefore only recorded as a class. "
                   "'Verification fails' for random neighbours is asserted modulo the reference agreeing (2^-128 accidents excluded by construction)."),
    "rule": ("rapid-generated (seed, alpha, entropy stream, format) and (public-key class, proof class) tuples, and adversarial (key torsion, Gamma torsion, "
             "nonce) tuples, each compared with the RFC 9381 reference; non-trivial = adversarial or rejected class, or added randomness, or the draft-10 "
             "format; distinct = FNV-64 of the serialised case"),
    "assumptions": ["math/big and crypto/sha512 are correct", "verifref ecvrf/h2c transcriptions are faithful (checked against RFC 9381 B.3 and RFC 9380 vectors)"],
    "units": [
        {
            "pkg": "primitives/ed25519/extra/ecvrf", "configs": ALL4T,
            "tests": {
                "TestC15ProveVerify": T(600, 20000, shards={"quick": 4, "thorough": 16}),
                "TestC15VerifyRejects": T(1000, 28000, shards={"quick": 4, "thorough": 16}),
                "TestC15Uniqueness": T(240, 8000, shards={"quick": 4, "thorough": 16}),
                "TestC15WireBuffer": T(400, 12000, shards={"quick": 4, "thorough": 16}),
                "TestC15RFCInputs": LIST(),
                "TestC15NilEntropy": LIST(),
                "TestC15ProveWireBuffer": T(200, 6000, shards={"quick": 2, "thorough": 8}),
                **{"TestC15BitSweep%d" % i: LIST(configs=["default"]) for i in range(8)},
                "TestC15EncodingList": LIST(),
                "TestC15TorsionList": LIST(),
                # thorough only: Go native fuzzing (mutation from honest / adversarial / hostile seeds, reference inside the
                # target); hitting the time budget is a pass, its executions are not counted in the evidence numbers
                "FuzzC15Verify": FUZZ(90, configs=["default"]),
            },
        },
    ],
}
