PROPS["C07"] = {
    "title": "X25519 is the RFC 7748 function on every input and rejects low-order results",
    "level": "exploration",
    "technique": ("property-based differential testing (rapid) against a literal math/big transcription of RFC 7748 section 5 "
                  "(validated on the RFC and Wycheproof vectors and against an affine curve+twist group-law model), with crypto/ecdh and "
                  "x/crypto/curve25519 as two further oracles; exhaustive lists for low-order / non-canonical u and for lengths"),
    "level_text": ("Generated-input search plus exhaustive enumeration of the finite special classes: ScalarMult / X25519 / "
                   "PrivateKey.DiffieHellman are compared with three mutually-checked oracles on scalars covering every combination "
                   "of the five clamped bits and on u from low-order strings, [p, 2^255), bit-255 variants, curve points (prime, mixed, "
                   "torsion), constructed twist points, boundary catalogue and uniform strings; X25519 must err exactly when the "
                   "reference output is all zero or a length is not 32 (all length pairs 0..70 enumerated). ScalarBaseMult, "
                   "X25519(.., Basepoint) (fixed-base path), X25519(.., copy of 9) and Public() must equal the reference on u = 9 and "
                   "the Edwards reference [k]B mapped by (1+y)/(1-y). DH symmetry incl. GenerateKey with generated entropy streams. "
                   "Ed25519->X25519 conversion is checked on seeds (stdlib- and library-generated keys) and on arbitrary/undecodable/"
                   "wrong-length public-key strings. At curve level MontgomeryPoint.Mul is compared with the unclamped RFC ladder "
                   "(and, for curve points, with Edwards scalar multiplication) on odd/even/multiple-of-L scalars, Equal with "
                   "comparison mod p, and MulBasepoint+SetEdwards with the ladder on 9 (identity -> 0). Does not prove absence. Also: the exported, writable x25519.Basepoint slice overwritten in place and passed to X25519 (must be refused or computed on the bytes given, never silently the result for u=9); configuration 386x64 (64-bit limbs on 32-bit words)."),
    "level_note": ("Trusted: math/big, verifref.X25519 (RFC 7748 and Wycheproof vectors, crypto/ecdh, affine group-law model), "
                   "crypto/ecdh, x/crypto/curve25519, crypto/ed25519 + crypto/sha512 for the key-conversion oracle. The exact "
                   "private key GenerateKey derives from its entropy is not documented and not asserted (only pair consistency)."),
    "rule": ("rapid-generated (scalar, u): scalars from the boundary catalogue or uniform with the clamping-sensitive bits "
             "0,1,2,254,255 overridden by a drawn combination in half of the cases; u from low-order strings, [p,2^255), "
             "u([a]B+T_j), Elligator-constructed twist points, small / p-small values, catalogue, uniform, each with bit 255 "
             "flipped in a quarter of the cases; non-trivial = u is low-order, on the twist, non-canonical or has bit 255 set, or "
             "clamping changes the scalar (for MontgomeryPoint.Mul also: the point has a torsion component); Ed public-key strings: "
             "non-canonical, undecodable, small-order or wrong length; distinct = FNV-64 of the serialised case"),
    "assumptions": ["math/big is correct", "RFC 7748 section 5 pseudo-code transcribed faithfully (checked on the RFC's vectors incl. 1 and 1000 iterations)",
                    "crypto/ecdh, x/crypto/curve25519, crypto/ed25519 are independent of the code under test"],
    "units": [
        {
            "pkg": "primitives/x25519", "configs": ALL4Q,
            "tests": {
                "TestC07ScalarMult": T(2000, 100000),
                "FuzzC07ScalarMult": FUZZ(60, configs=["default"]), "FuzzC07EdPublicAny": FUZZ(60, configs=["default"]),
                "TestC07SpecialList": LIST(),
                "TestC07Base": T(500, 20000),
                "TestC07Lengths": LIST(),
                "TestC07BasepointWritten": T(400, 12000),
                "TestC07NilEntropy": LIST(),
                "TestC07DH": T(200, 8000),
                "TestC07EdConvert": T(500, 20000),
                "TestC07EdPublicAny": T(2000, 100000),
            },
        },
        {
            "pkg": "curve", "configs": ALL4Q,
            "tests": {
                "TestC07MontMul": T(1500, 60000),
                "TestC07MontEqual": T(3000, 200000),
                "TestC07FixedBase": T(400, 15000),
                "TestC07SetEdwards": T(1500, 60000),
            },
        },
    ],
}
