PROPS["C08"] = {
    "title": "Secret-dependent operations run in constant time at the source level",
    "level": "exploration",
    "engine": "rapid + tools/ctinstr (source instrumenter)",
    "technique": ("two-run non-interference testing: property-based generation of (operation, public input, secret pair); the "
                  "instrumented build records every basic block, short-circuit operand, non-constant index/slice bound and "
                  "variable-time compare position; traces of the two secrets must be identical"),
    "level_text": ("Generated-input search over pairs of secrets (adversarial pairs: 0 vs dense, radix-16 digits all -8 vs all 7, "
                   "single-bit and top/low-byte differences, uniform) for every operation that is documented constant time, on an "
                   "instrumented copy of the current tree: equal traces are required, the first diverging probe (file:line) is "
                   "reported. Decides source-level control flow and memory indices of Go code in all three Go backends; does not "
                   "see below the source level. Cannot prove absence over all pairs."),
    "level_note": ("Trusted: the instrumenter (tools/ctinstr: textual probe insertion, validated by running the repo's own test suite on "
                   "the instrumented copy), rapid. Verification/decoding/*Vartime routines are out of scope by the statement and "
                   "are never given secrets. Assembly routines are opaque at this layer (purego build traces their Go equivalents)."),
    "rule": ("case = (operation from a registry of ~40 constant-time entry points, public parameters, two secrets of equal length "
             "drawn from an adversarial pair catalogue); oracle = equality of the 128-bit digests of the two probe traces; "
             "non-trivial = the two secrets differ in at least one bit; distinct = FNV-64 of the serialised case"),
    "assumptions": ["source-level instrumentation preserves semantics (repo test-suite passes on the instrumented copy)",
                    "constant-time at the source level only: compiler and micro-architecture are out of scope"],
    "units": [{
        "pkg": "curve", "configs": ["default"],
        "tests": {"TestC08GuardPages": LIST(), "TestC08GuardPagesOracleSelfTest": LIST()},
    }, {
        "pkg": "internal/zzcttest", "ct": True, "configs": {"quick": ["default", "purego", "force32bit"], "thorough": ["default", "noavx2", "purego", "force32bit"]},
        "tests": {
            "TestC08SourceTrace": T(12000, 600000),
        },
    }],
}
