def _c08_callgrind(ctx):
    """C08 layer 3: self instruction counts of the leaf assembly routines under valgrind/callgrind must not depend
    on the secret.  Generated secrets (adversarial catalogue + uniform, from VERIF_SEED) are executed by the worker
    test of harness/internal/zzc08 in one process per (operation, configuration); callgrind dumps one profile per item
    (--dump-before on the region marker) and every item's per-symbol counts must equal those of the first item."""
    import os, sys, json, random, subprocess, time, hashlib, glob, concurrent.futures
    sys.path.insert(0, os.path.join(ctx["verif"], "tools"))
    import cgparse
    viols, errs = [], []
    ops = {  # op -> (public length, secret length)
        "ed25519.Sign": (40, 32), "x25519.ScalarMult": (32, 32), "x25519.ScalarBaseMult": (0, 32),
        "curve.EdwardsPoint.Mul": (8, 32), "curve.EdwardsPoint.MulBasepoint": (0, 32),
        "curve.EdwardsPoint.MultiscalarMul": (0, 64), "merlin.witness": (20, 48),
    }
    configs = {"default": "asyncpreemptoff=1", "noavx2": "asyncpreemptoff=1,cpu.avx2=off"}
    binp = ctx["bin_path"]("internal/zzc08", "default")
    if not os.path.exists(binp):
        return [], ["C08 callgrind layer: worker binary missing"], {}
    outroot = os.path.join(ctx["dirs"]["logs"], "callgrind")
    os.makedirs(outroot, exist_ok=True)

    def secrets(rng, n, k):
        cat = [bytes(n), b"\xff" * n, b"\x88" * n, b"\x77" * n, b"\x08" * n, bytes([1]) + bytes(n - 1), b"\x80" * n, b"\x7f" * n]
        out = cat[:min(k, len(cat))]
        while len(out) < k:
            out.append(bytes(rng.getrandbits(8) for _ in range(n)))
        return out

    def run(op, cfg, pub, secs, tag):
        prefix = os.path.join(outroot, "%s.%s.%s" % (op.replace("/", "_"), cfg, tag), "out")
        os.makedirs(os.path.dirname(prefix), exist_ok=True)
        env = dict(os.environ, GODEBUG=configs[cfg], GOGC="off", GOMAXPROCS="1", C08_OP=op,
                   C08_ITEMS=",".join("%s:%s" % (pub.hex() or "00", s.hex()) for s in secs))
        cmd = ["valgrind", "--tool=callgrind", "--callgrind-out-file=" + prefix, "--dump-before=*c08AsmMark*",
               binp, "-test.run", "^TestC08AsmWorker$", "-test.timeout", "0"]
        try:
            p = subprocess.run(cmd, env=env, cwd=os.path.dirname(prefix), stdout=subprocess.PIPE, stderr=subprocess.STDOUT,
                               text=True, errors="replace", timeout=1800)
        except (OSError, subprocess.TimeoutExpired) as e:
            return op, cfg, pub, secs, None, "valgrind could not run: %r" % (e,)
        if p.returncode != 0 or "PASS" not in p.stdout:
            return op, cfg, pub, secs, None, "worker under valgrind failed (rc=%s): %s" % (p.returncode, p.stdout[-400:])
        parts = cgparse.parse_parts(prefix)
        # parts[0] = start-up + warm-up; parts[1..k] = items; last = tail
        if len(parts) < len(secs) + 1:
            return op, cfg, pub, secs, None, "expected %d profile parts, got %d" % (len(secs) + 2, len(parts))
        return op, cfg, pub, secs, parts[1:1 + len(secs)], None

    rng = random.Random(ctx["seed"] * 1000003 + 8)
    tasks = []
    if ctx["replay"]:
        rf = json.load(open(ctx["replay"]))
        if rf.get("test") != "C08AsmCounts":
            return [], [], {}
        c = rf["case"]
        tasks.append((c["op"], c["config"], bytes.fromhex(c["pub"]), [bytes.fromhex(c["s1"]), bytes.fromhex(c["s2"])], "replay"))
    else:
        k = 8 if ctx["tier"] == "quick" else 64
        rounds = 1 if ctx["tier"] == "quick" else 4
        for op, (pl, sl) in sorted(ops.items()):
            for cfg in sorted(configs):
                for rd in range(rounds):
                    pub = bytes(rng.getrandbits(8) for _ in range(pl))
                    tasks.append((op, cfg, pub, secrets(rng, sl, k), "r%d" % rd))
    items = skipped = 0
    symbols = set()
    samples = []
    distinct = set()
    with concurrent.futures.ThreadPoolExecutor(max_workers=ctx["jobs"]) as ex:
        for op, cfg, pub, secs, parts, err in ex.map(lambda t: run(*t), tasks):
            if err:
                errs.append("C08 callgrind %s[%s]: %s" % (op, cfg, err))
                continue
            base = parts[0]
            if not base:
                errs.append("C08 callgrind %s[%s]: no assembly symbols observed" % (op, cfg))
                continue
            symbols.update(base)
            # callgrind's shadow call stack is occasionally confused by Go's stack switching; it then reports a
            # function under a second context name (fn'2) and misattributes a few instructions.  Such profile parts are
            # measurement noise: they are skipped (counted), never judged.
            clean = [(s, prt) for s, prt in zip(secs, parts) if prt and not any("'" in k_ for k_ in prt)]
            skipped += len(secs) - len(clean)
            if len(clean) < 2:
                errs.append("C08 callgrind %s[%s]: fewer than two clean profile parts" % (op, cfg))
                continue
            base = clean[0][1]
            secs = [c_[0] for c_ in clean]
            parts = [c_[1] for c_ in clean]
            for i, (s, prt) in enumerate(zip(secs, parts)):
                items += 1
                distinct.add(hashlib.sha256(op.encode() + cfg.encode() + pub + s).hexdigest()[:16])
                if len(samples) < 6 and i in (1, 2):
                    samples.append({"test": "C08AsmCounts", "op": op, "config": cfg, "pub": pub.hex(), "secret": s.hex(),
                                    "asm_self_instruction_counts": {k_.split("/")[-1]: v for k_, v in sorted(prt.items())}})
                if prt != base:
                    diffs = {k_: (base.get(k_), prt.get(k_)) for k_ in set(base) | set(prt) if base.get(k_) != prt.get(k_)}
                    case = {"op": op, "config": cfg, "pub": pub.hex(), "s1": secs[0].hex(), "s2": s.hex()}
                    rp = os.path.join(ctx["dirs"]["replays"], "C08AsmCounts.%s.%s.json" % (op.replace("/", "_"), cfg))
                    sym = sorted(diffs)[0].split("/")[-1]
                    json.dump({"test": "C08AsmCounts", "config": cfg, "signature": "ct:asm-instruction-count:" + sym,
                               "detail": "self instruction counts differ between the two secrets: %r" % (diffs,), "case": case},
                              open(rp, "w"), indent=1)
                    viols.append(("C08AsmCounts", "ct:asm-instruction-count:" + sym, ctx["replay"] or rp, cfg))
                    break
    if not ctx["replay"] and items:
        # feed the shared statistics so the evidence totals include this layer
        st = {"test": "C08AsmCounts(callgrind)", "config": "default+noavx2", "evals": items, "cases": items, "nontrivial_cases": items,
              "distinct_hashes": [int(h_, 16) for h_ in sorted(distinct)], "distinct_capped": False,
              "classes": {"asm-symbol:" + s.split("/")[-1]: 1 for s in sorted(symbols)}, "samples": samples, "known": {},
              "exhaustive": False, "extra": {}}
        json.dump(st, open(os.path.join(ctx["dirs"]["stats"], "C08AsmCounts.%d.json" % os.getpid()), "w"))
    return viols, errs, {"callgrind_items": items, "callgrind_items_skipped_as_noise": skipped, "callgrind_asm_symbols_judged": sorted(s.split("/")[-1] for s in symbols)}


def _c08_memtrace(ctx):
    """C08 layer 2b: load-address sets of the constant-time table lookups under valgrind/lackey (--trace-mem=yes).
    The worker (harness/curve/c08_memtrace_test.go) looks digit d up in its own copy of the table; the (offset, size) pairs of
    the loads that fall into a copy, IN ORDER, must be the same sequence for all 17 digits and must touch every entry."""
    import os, re, json, subprocess, tempfile
    viols, errs, cov = [], [], {}
    if ctx["replay"]:
        rf = json.load(open(ctx["replay"]))
        if rf.get("test") != "C08MemTrace":
            return [], [], {}
    judged = {}
    for cfg, godebug in (("default", "asyncpreemptoff=1"), ("purego", "asyncpreemptoff=1")):
        binp = ctx["bin_path"]("curve", cfg)
        if not os.path.exists(binp):
            errs.append("C08 memtrace[%s]: worker binary missing" % cfg)
            continue
        outdir = os.path.join(ctx["dirs"]["logs"], "memtrace-" + cfg)
        os.makedirs(outdir, exist_ok=True)
        trace = os.path.join(outdir, "trace.txt")
        env = dict(os.environ, GODEBUG=godebug, GOGC="off", GOMAXPROCS="1", C08_MEM="1")
        cmd = ["valgrind", "--tool=lackey", "--trace-mem=yes", "--log-file=" + trace, binp, "-test.run", "^TestC08MemWorker$", "-test.v", "-test.timeout", "0"]
        try:
            p = subprocess.run(cmd, env=env, cwd=outdir, stdout=subprocess.PIPE, stderr=subprocess.STDOUT, text=True, errors="replace", timeout=1800)
        except (OSError, subprocess.TimeoutExpired) as e:
            errs.append("C08 memtrace[%s]: valgrind could not run: %r" % (cfg, e))
            continue
        if p.returncode != 0 or "C08MEM-DONE" not in p.stdout:
            errs.append("C08 memtrace[%s]: worker under valgrind failed (rc=%s): %s" % (cfg, p.returncode, p.stdout[-300:]))
            continue
        slots = []  # (routine, digit, base, size)
        for m in re.finditer(r"^C08MEM (\S+) (-?\d+) ([0-9a-f]+) (\d+)$", p.stdout, re.M):
            slots.append((m.group(1), int(m.group(2)), int(m.group(3), 16), int(m.group(4))))
        if not slots:
            errs.append("C08 memtrace[%s]: worker announced no tables" % cfg)
            continue
        lo, hi = min(b for _, _, b, _ in slots), max(b + sz for _, _, b, sz in slots)
        slots.sort(key=lambda x: x[2])
        import bisect
        bases = [b for _, _, b, _ in slots]
        loads = {(r_, d): [] for r_, d, _, _ in slots}
        with open(trace, errors="replace") as fh:
            for ln in fh:
                if len(ln) < 4 or ln[1] not in "LM" or ln[0] != " ":
                    continue
                try:
                    a, sz = ln[3:].split(",")
                    a = int(a, 16)
                    sz = int(sz)
                except ValueError:
                    continue
                if a < lo or a >= hi:
                    continue
                i = bisect.bisect_right(bases, a) - 1
                if i < 0:
                    continue
                r_, d, b, tsz = slots[i]
                if a < b + tsz:
                    loads[(r_, d)].append((a - b, sz))
        try:
            os.remove(trace)
        except OSError:
            pass
        for routine in sorted({r_ for r_, _, _, _ in slots}):
            tsz = [sz for r_, _, _, sz in slots if r_ == routine][0]
            sets = {d: loads[(routine, d)] for r_, d, _, _ in slots if r_ == routine}
            base = sets[0]
            covered = set()
            for o, sz in base:
                covered.update(range(o, min(o + sz, tsz)))
            entry = tsz // 8
            touched = {o // entry for o in covered}
            judged["%s[%s]" % (routine, cfg)] = {"digits": len(sets), "loads_per_lookup": len(base), "bytes_read": len(covered), "table_bytes": tsz}
            bad = None
            if len(touched) != 8:
                bad = ("ct:lookup-skips-table-entries:" + routine, "digit 0 reads entries %s only" % sorted(touched), 0)
            for d in sorted(sets):
                if sets[d] != base and bad is None:
                    k = next((i for i, (x, y) in enumerate(zip(sets[d], base)) if x != y), min(len(sets[d]), len(base)))
                    bad = ("ct:digit-dependent-load-addresses:" + routine, "the sequences of loads (offset, size) from the table differ between digit %d (%d loads) and digit 0 (%d loads), first at load #%d: %r vs %r"
                           % (d, len(sets[d]), len(base), k, sets[d][k:k + 3], base[k:k + 3]), d)
            if bad:
                rp = os.path.join(ctx["dirs"]["replays"], "C08MemTrace.%s.%s.json" % (routine.replace("/", "_"), cfg))
                json.dump({"test": "C08MemTrace", "config": cfg, "signature": bad[0], "detail": bad[1], "case": {"routine": routine, "digit": bad[2], "config": cfg}}, open(rp, "w"), indent=1)
                viols.append(("C08MemTrace", bad[0], ctx["replay"] or rp, cfg))
    if judged and not ctx["replay"]:
        st = {"test": "C08MemTrace(lackey)", "config": "default+purego", "evals": sum(v["digits"] for v in judged.values()), "cases": sum(v["digits"] for v in judged.values()),
              "nontrivial_cases": sum(v["digits"] for v in judged.values()), "distinct_hashes": list(range(1, 1 + sum(v["digits"] for v in judged.values()))), "distinct_capped": False,
              "classes": {"lookup:" + k: v["digits"] for k, v in judged.items()}, "samples": [], "known": {}, "exhaustive": True, "extra": {}}
        json.dump(st, open(os.path.join(ctx["dirs"]["stats"], "C08MemTrace.%d.json" % os.getpid()), "w"))
    cov["memtrace_lookups_judged"] = judged
    return viols, errs, cov


def _c08_post(ctx):
    v1, e1, c1 = _c08_callgrind(ctx)
    v2, e2, c2 = _c08_memtrace(ctx)
    c1.update(c2)
    return v1 + v2, e1 + e2, c1


PROPS["C08"] = {
    "title": "Secret-dependent operations run in constant time at the source level",
    "level": "exploration",
    "engine": "rapid + tools/ctinstr (source instrumenter) + guard pages + valgrind/lackey memory trace + valgrind/callgrind",
    "post": _c08_post,
    "technique": ("two-run non-interference testing: property-based generation of (operation, public input, secret pair); the "
                  "instrumented build records every basic block, short-circuit operand, non-constant index/slice bound and "
                  "variable-time compare position and the traces of the two secrets must be identical; exhaustive guard-page "
                  "placement for the assembly table lookups; ordered load sequences of all constant-time table lookups under valgrind/lackey, "
                  "enumerated over all 17 digits; callgrind instruction counts of the assembly leaves across generated secrets"),
    "level_text": ("Generated-input search over pairs of secrets (adversarial pairs: 0 vs dense, radix-16 digits all -8 vs all 7, "
                   "single-bit and top/low-byte differences, uniform; structured pairs for secret keys: scalars at the edge of the canonical range, "
                   "two keys that agree in the scalar only / the nonce only / entirely / nowhere) for every operation that is documented constant time, on an "
                   "instrumented copy of the current tree: equal traces are required, the first diverging probe (file:line) is "
                   "reported. Decides source-level control flow and memory indices of Go code in all three Go backends; the assembly "
                   "lookups are decided by an exhaustive (routine, split, mirror, digit) guard-page enumeration of their memory access set and, "
                   "for all three lookup table types in the assembly and the portable build, by equality of the ordered (offset, size) load "
                   "sequence into the table over all 17 digits under valgrind's memory tracer, "
                   "and all assembly leaves by equality of callgrind self instruction counts across generated secrets. Does not see "
                   "below the instruction level. Cannot prove absence over all pairs."),
    "level_note": ("Trusted: the instrumenter (tools/ctinstr: textual probe insertion, validated by running the repo's own test suite on "
                   "the instrumented copy), rapid, valgrind. Verification/decoding/*Vartime routines are out of scope by the statement and "
                   "are never given secrets."),
    "rule": ("L1: case = (operation from a registry of ~40 constant-time entry points, public parameters, two secrets of equal length "
             "drawn from an adversarial pair catalogue); oracle = equality of the 128-bit digests of the two probe traces; "
             "non-trivial = the two secrets differ in at least one bit; distinct = FNV-64 of the serialised case. "
             "L2: exhaustive (lookup routine, split k=1..7, mirror, digit 0..8): the lookup must fault on the protected part for every digit. "
             "L3: (operation, public input, secret) items under callgrind; every item's per-assembly-symbol self instruction counts must equal "
             "those of the first item of its group; distinct = SHA-256 of (op, config, pub, secret)"),
    "assumptions": ["source-level instrumentation preserves semantics (repo test-suite passes on the instrumented copy)",
                    "constant-time at the source / instruction-count level only: micro-architecture is out of scope"],
    "units": [{
        "pkg": "curve", "configs": ["default", "purego"],
        "tests": {"TestC08GuardPages": LIST(configs=["default"]), "TestC08GuardPagesOracleSelfTest": LIST(configs=["default"]),
                  "TestC08MemWorker": LIST()},  # skips unless run under the memory tracer by the post step
    }, {
        "pkg": "internal/zzc08", "configs": ["default"], "always_build": True,
        "tests": {"TestC08AsmWorker": LIST()},
    }, {
        "pkg": "internal/zzcttest", "ct": True, "configs": {"quick": ["default", "purego", "force32bit"], "thorough": ["default", "noavx2", "purego", "force32bit"]},
        "tests": {
            "TestC08SourceTrace": T(12000, 600000),
        },
    }],
}
