PROPS["C11"] = {
    "title": "Ristretto255 is a canonical prime-order group encoding (RFC 9496)",
    "level": "exploration",
    "technique": ("property-based testing (rapid) against a math/big transcription of RFC 9496 DECODE/ENCODE/EQUALS/MAP (validated on the "
                  "RFC vectors) cross-checked per case with a second, purely mathematical decoder; decoder strings constructed to fail each RFC "
                  "step separately; in-package injection of all four coset representatives in arbitrary projective scaling; exhaustive lists "
                  "for the finite special classes"),
    "level_text": ("Generated-input search plus exhaustive enumeration of the finite special classes. Every 32-byte string is classified by two "
                   "independent reference decoders (which must agree) and SetCompressed / RistrettoPoint.UnmarshalBinary / "
                   "CompressedRistretto.UnmarshalBinary must accept exactly the accepted ones, re-encode them to the same bytes, hold a "
                   "well-formed representative of the right coset, and leave the identity on error; strings come from classes built to fail "
                   "exactly one RFC step (s >= p incl. all 19 s+p and bit 255, negative s = p-s, non-square, t negative via |1/s| and via search, "
                   "y = 0), the RFC bad-encoding list, mutations, catalogue and uniform strings; wrong lengths 0..130 (+ long) must error. "
                   "Elements [a]B are loaded in-package as [a]B+T for the four T in E[4], as (lx:ly:l:lxy) for arbitrary non-zero l (reference-"
                   "scaled, library-scaled, or through Add): all must encode to the reference bytes and compare Equal = 1 pairwise and with the "
                   "decoder's output; a second point (same element written differently, negation, neighbours, independent, or shifted by an "
                   "order-8 point) must compare and encode equal iff it is the same element. SetUniformBytes / SetRandom / the in-package "
                   "Elligator map are compared with RFC MAP on 64-byte strings incl. halves >= p and bit 255. Add/Sub/Neg/Mul/MulBasepoint (stock "
                   "and custom table)/double-base/triple-base/multiscalar (ct, vartime, expanded; also 64..200 terms)/Sum/ConditionalSelect/Set/"
                   "expanded points are compared with affine reference arithmetic on the Edwards representatives through RFC ENCODE. "
                   "Does not prove absence. String classes include byte-wise comparison probes against p walked to valid encodings; CompressedRistretto.UnmarshalBinary is repeated on a receiver that already holds the input."),
    "level_note": ("Trusted: math/big, verifref (RFC 9496 vectors reproduced in its self-test), rapid. Not asserted: SetCompressed's receiver "
                   "after an error (undocumented; UnmarshalBinary's is: identity); the bytes produced for curve points outside 2E (they "
                   "represent no element; only Equal = 0 and 'differs from the element's encoding' are required); Sum with the receiver among "
                   "the values; triple-base scalars are canonical (reduction of its inputs is C16's subject). The thorough tier adds a 60 s native-fuzz "
                   "campaign (no coverage guidance) over the decoder / wrong-length checks; its executions are not counted in the evidence numbers."),
    "rule": ("rapid-generated cases: 32-byte decoder strings from 18 classes (valid [a]B / Elligator images / search, p-s, bit 255, s+p, |1/s|, "
             "non-square and t-negative by deterministic search from a drawn start, RFC bad list, bit mutations, small and p-small, boundary "
             "catalogue, uniform even, uniform), other lengths; elements [a]B (a = 0, tiny, small, L-tiny, catalogue, uniform) in 4 coset "
             "representatives x scaling factor (1, small, p-small, 2^k, +-sqrt(-1), uniform) x 3 construction routes, paired with a related "
             "point; 64-byte map inputs with halves canonical / >= p / bit 255 / related; operand tuples with 255-bit (unreduced) scalars and "
             "0..8 (and 64..200) multiscalar terms. Non-trivial = decoder string rejected by the reference or of wrong length; element given "
             "through a representative with T != O or scaling != 1 (every coset case); map input with a non-canonical half or related halves; "
             "distinct = FNV-64 of the serialised case"),
    "assumptions": ["math/big is correct", "verifref's RFC 9496 transcription is correct (reproduces all RFC 9496 appendix A vectors)"],
    "units": [{
        "pkg": "curve", "configs": ALL4Q,
        "tests": {
            "TestC11Decode": T(8000, 500000),
            "TestC11MarshalOwnership": T(1500, 40000),
            "TestC11DecodeList": LIST(),
            "TestC11Lengths": LIST(),
            "TestC11AnyLen": T(2000, 100000),
            "TestC11Coset": T(2000, 100000, shards={"quick": 8, "thorough": 16}),
            "TestC11CosetList": LIST(),
            "TestC11Uniform": T(4000, 200000),
            "TestC11UniformList": LIST(),
            "TestC11Ops": T(600, 20000, shards={"quick": 8, "thorough": 16}),
            "TestC11ManyTerms": T(24, 1000, shards={"quick": 2, "thorough": 8}),
            "TestC11Constants": LIST(),
            "TestC11NilEntropy": LIST(),
            # thorough only: Go native fuzzing (coverage-instrumented variant of the binary, driver kind FUZZ)
            # over the same pure decoder / wrong-length checks; hitting the time budget is a pass
            "FuzzC11Decode": FUZZ(90, configs=["default"]),
        },
    }],
}
