def _c02_pre(tier, seed, dirs, goenv):
    # The in-tree tests of primitives/ed25519 open ./testdata/*.gz in package-level initialisers, so the test
    # binary needs that directory in its (scratch) working directory.  Read-only symlink; nothing is written there.
    import os
    src = os.path.join(os.environ.get("VERIF_REPO", "/repo"), "primitives", "ed25519", "testdata")
    dst = os.path.join(dirs["cwd"], "testdata")
    try:
        if not os.path.lexists(dst):
            os.symlink(src, dst)
    except OSError as e:
        return 2, "cannot link testdata: %s" % e
    return 0, ""


# The reference side allocates many short-lived big.Ints and every test is single-threaded: a single P and a lazy GC
# cut the CPU time per case by more than half (measured), which matters on a shared machine.
_C02_ENV = {"GOMAXPROCS": "1", "GOGC": "800"}

PROPS["C02"] = {
    "title": "Ed25519 key generation and signing are RFC 8032-exact and always verifiable",
    "level": "exploration",
    "technique": ("property-based testing (rapid): differential against two independent oracles (math/big RFC 8032 reference, Go crypto/ed25519), "
                  "metamorphic single-bit-change rejection, batch/single agreement, error-path enumeration; all four arithmetic backends"),
    "level_text": ("Generated-input search: for generated seeds (uniform, patterned, and searched for extreme clamped scalars / nonces), messages of "
                   "0..2000 bytes placed on SHA-512 block edges of the strings actually hashed, contexts of 0/1/17/255 (valid) and 256+ (invalid) bytes and "
                   "the full Options product, key derivation and deterministic signing are compared byte for byte with both oracles; every produced "
                   "signature (deterministic, added-randomness, self-verified) is checked for canonical R, S<L, acceptance under nil/4 presets/custom flags "
                   "singly, by crypto/ed25519, by the reference verifiers, and inside BatchVerifier batches with other (honest and corrupted) entries; "
                   "single-bit changes of message/key/context/signature must be rejected under every preset; added randomness must equal the reference "
                   "evaluation of the construction, depend on the entropy and never reuse the deterministic nonce; every invalid combination must give "
                   "(nil, err). Does not prove absence."),
    "level_note": ("Trusted: math/big, crypto/sha512, crypto/ed25519, verifref (self-tested against RFC 8032 vectors), rapid. Metamorphic rejection is "
                   "asserted for honest keys only and holds except with probability ~2^-125 per case. VerifyBatchOnly is asserted to return false when a "
                   "cofactor-less (StdLib) entry is present, as documented in batch_verify.go."),
    "rule": ("rapid-generated (seed, variant, context, message, Options, entropy streams, bit positions, other batch entries); seeds: uniform, patterns, "
             "best-of-64..1024 search for extreme clamped scalar (max/min, mod L max/min, radix-16 carry chains), messages optionally searched (2^9) for "
             "min/max nonce; non-trivial = non-empty context or ph or AddedRandomness or SelfVerify or first hash spanning >1 SHA-512 block or an "
             "error-class case (TestC02Invalid) or a non-uniform seed / short-read / failing entropy source (TestC02KeyGen); "
             "distinct = FNV-64 of the serialised case"),
    "assumptions": ["math/big, crypto/sha512 and crypto/ed25519 (Go 1.23) are correct", "verifref Ed25519 reference reproduces RFC 8032 section 7 vectors (self-test)",
                    "SHA-512 behaves as a random function for the metamorphic (negative) assertions"],
    "pre": _c02_pre,
    "units": [{
        "pkg": "primitives/ed25519", "configs": ALL4T,
        "tests": {
            "TestC02Sign": T(3200, 48000, shards={"quick": 8, "thorough": 16}, env=_C02_ENV),
            "TestC02Invalid": T(12000, 200000, env=_C02_ENV),
            "TestC02KeyGen": T(3200, 32000, shards={"quick": 2, "thorough": 8}, env=_C02_ENV),
            "TestC02NilEntropy": LIST(),
            "TestC02Forms": LIST(),
        },
    }],
}
