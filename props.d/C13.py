PROPS["C13"] = {
    "title": "Merlin/STROBE transcripts follow the spec for every operation history",
    "level": "exploration",
    "technique": ("property-based testing (rapid): generated operation histories over a tree of transcripts / RNG builders / RNGs "
                  "executed in lock-step against an independent reference (Merlin v1.0 over byte-at-a-time STROBE-128 over a textbook "
                  "Keccak-f[1600]); metamorphic determinism and injectivity checks; exhaustive single-bit states for the permutation"),
    "level_text": ("Generated-input search: every byte string produced by ExtractBytes and by the transcript RNG along generated "
                   "histories (appends, extractions, clones, BuildRng, witness re-keying, finalisation, reads; label/data lengths aimed "
                   "at the 166-byte rate boundary, zero lengths, lengths >= 65536) equals the reference model's; clones evolve "
                   "independently (every live branch is read once more at the end); interleaved twin executions are identical; "
                   "structurally different histories give different 32-byte challenges; the Keccak permutation (amd64 assembly in "
                   "default/force32bit, Go in purego) equals the textbook permutation on raw 200-byte states. Does not prove absence."),
    "level_note": ("Trusted: verifref keccak/strobe/merlin (validated against x/crypto/sha3, the StrobeGo vector and the Merlin upstream "
                   "vectors), rapid. Using a TranscriptRngBuilder after Finalize is documented invalid and not generated; lengths "
                   "> 2^32-1 (documented panic) are not reachable in memory and not generated; nil entropy reader (crypto/rand) not generated."),
    "rule": ("rapid-generated []Op histories over a forest of transcripts (ops name the branch index; Clone/BuildRng create branches), "
             "label/data/output lengths from {0,1,2,3,160..170,328..336} (50%), small, uniform <= 700, aimed so that a rate boundary falls "
             "between/after the framing bytes, inside/after the length prefix or at the data end (35%), rarely >= 65536; "
             "non-trivial = some operation's bytes straddle or end exactly on a rate-block boundary (decided by the reference model's "
             "event counters), or the history contains a clone or an RNG; for the raw-permutation tests non-trivial = state is not all-zero; "
             "distinct = FNV-64 of the serialised case"),
    "assumptions": ["verifref Keccak-f[1600]/STROBE/Merlin are correct (self-tested against x/crypto/sha3 and published vectors)",
                    "x/crypto/sha3 is correct"],
    # default and purego are the two Keccak-f[1600] implementations (amd64 assembly / Go); force32bit does not change
    # any code of these two packages and only gets a smaller share "for completeness".
    "units": [
        {
            "pkg": "internal/strobe", "configs": ["default", "purego"],
            "tests": {
                "TestC13StrobeOps": T(60000, 1000000),
                "TestC13ParStrobeOps": T(2000, 60000), "TestC13ParKeccak": T(2000, 60000),
                "TestC13Keccak": T(60000, 2000000),
                "TestC13KeccakBits": LIST(),
            },
        },
        {
            "pkg": "primitives/merlin", "configs": ["default", "purego"],
            "tests": {
                "TestC13History": T(90000, 2000000),
                "FuzzC13History": FUZZ(90, configs=["default"]),
                "TestC13Twin": T(12000, 150000),
                "TestC13Injective": T(60000, 600000),
                "TestC13NilEntropy": LIST(),
                "TestC13Len32": LIST(),
            },
        },
        {
            "pkg": "internal/strobe", "configs": ["force32bit", "386"],
            "tests": {
                "TestC13StrobeOps": T(12000, 100000),
                "TestC13ParStrobeOps": T(600, 10000), "TestC13ParKeccak": T(600, 10000),
                "TestC13Keccak": T(12000, 200000),
                "TestC13KeccakBits": LIST(),
            },
        },
        {
            "pkg": "primitives/merlin", "configs": ["force32bit", "386"],
            "tests": {
                "TestC13History": T(18000, 200000),
                "TestC13Twin": T(3000, 20000),
                "TestC13Injective": T(12000, 60000),
            },
        },
    ],
}
