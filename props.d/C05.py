PROPS["C05"] = {
    "title": "Scalar arithmetic is exact modulo the group order on every 255-bit input",
    "level": "exploration",
    "technique": "property-based testing (rapid) against a math/big reference model, boundary-catalogue generators, both limb backends",
    "level_text": ("Generated-input search: every scalar operation and canonicity predicate is compared with integer arithmetic mod L "
                   "on catalogue-driven and uniform operands (incl. unreduced 255-bit values, 256/512-bit decoder strings, L-prefix strings "
                   "that walk every word of the minimality test), on the 52-bit and 29-bit limb backends. Does not prove absence."),
    "level_note": "Trusted: math/big, the reference constant L (self-tested), rapid. Invert/BatchInvert of 0 mod L is documented undefined and excluded.",
    "rule": ("rapid-generated operands from a boundary catalogue (kL+e, 2^k+-e, 2^k-1, nibble patterns, limb-aligned "
             "all-ones, word seams, L-prefix strings, uniform reduced/unreduced) compared with math/big mod L; "
             "non-trivial = some operand is >= L or comes from a boundary class (not plain uniform-reduced/tiny), or a "
             "non-canonical/wrong-length decoder input; distinct = FNV-64 of the serialised case"),
    "assumptions": ["math/big is correct", "verifref.L transcribed from RFC 8032 (checked by verifref self-test)"],
    "units": [{
        "pkg": "curve/scalar", "configs": {"quick": ["default", "force32bit", "386", "386x64"], "thorough": ["default", "purego", "force32bit", "386", "386x64"]},
        "tests": {
            "TestC05Arith": T(160000, 4000000),
            "TestC05Decode": T(160000, 4000000),
            "FuzzC05Decode": FUZZ(60, configs=["default"]),
            "TestC05Wide": T(120000, 3000000),
            "TestC05Slices": T(24000, 400000),
            "TestC05ParSlices": T(600, 20000), "TestC05ParArith": T(2000, 100000),
            "TestC05Unpacked": T(80000, 2000000),
            "TestC05Lengths": LIST(),
            "TestC05NilEntropy": LIST(),
        },
    }],
}
