PROPS["C12"] = {
    "title": "sr25519: complete, mutation-rejecting, schnorrkel-exact, canonical encodings",
    "level": "exploration",
    "technique": ("property-based testing (rapid) against an independent schnorrkel reference (verifref.Sr*: math/big scalars and affine "
                  "Edwards arithmetic, RFC 9496 reference encoding, reference Merlin over byte-at-a-time STROBE over textbook Keccak), "
                  "metamorphic alteration of honest triples, model-based batch histories, decoder strings built per rejection reason, "
                  "exhaustive lists for the finite special classes; in-package observers for the unexported receiver state"),
    "level_text": ("Generated-input search plus exhaustive enumeration of finite special classes. Sign: for keys obtained through ExpandUniform, "
                   "ExpandEd25519, SecretKey.UnmarshalBinary (incl. scalar 0, L-e) and NewSecretKeyFromEd25519Bytes, contexts/messages with "
                   "STROBE-rate edge lengths and all eight transcript sources (bytes, SHA-256, SHA-512/256, SHA-512, BLAKE2b-256/512, SHAKE128/256), "
                   "the secret-key bytes, public-key bytes, signature bytes (same 32 entropy bytes, delivered in short reads, reader exhausted "
                   "after 32) and the verification challenge scalar must equal the reference; the signature must verify with the objects at hand, "
                   "after re-decoding, on transcripts derived from a shared and from a fresh SigningContext, and in a batch. Up to four alterations per "
                   "case (context/message bit flip, append, truncate, byte moved across the context/message frame, other source, prehash replayed as "
                   "bytes, other key, -A, A+[n]B, any signature bit, unmarked, s+L, s+n, R+[n]B, undecodable R, undecodable R with s forged for "
                   "R = identity) must be decided exactly as the reference decides them (reject, except where the alteration is vacuous, e.g. under the "
                   "zero key whose signatures are message-independent) and the batch of the honest entry plus all alterations must return exactly "
                   "the per-entry verdicts. SigBits: all 512 single-bit flips of four fixed honest signatures (one per key kind) are rejected. "
                   "Batch: histories over {Add (x1..200), add cancelling pair, Reset, Verify, VerifyBatchOnly} with both constructors over a "
                   "reference-signed pool (honest, altered, zero-value Signature/PublicKey, objects left behind by a failed UnmarshalBinary, "
                   "cancelling pairs s+d/s-d): single Verify must equal the reference verdict, Verify == (n>0 and AND expected, expected), "
                   "VerifyBatchOnly == n>0 and AND expected, (false, empty) on the empty batch, entry count tracks the model. Decode: for the six "
                   "decoders accept <=> reference predicate (length; marker bit and s < L; valid canonical ristretto255 string, cross-checked by two "
                   "reference decoders; key < L; ENCODE(key*B) == public half; clamped Ed25519 scalar), Marshal(Unmarshal(b)) == b, accepted "
                   "objects behave like the reference (public key, signing, verification incl. undecodable R => false), a failed decode leaves "
                   "Signature/PublicKey/KeyPair reset (fields inspected in-package, and through Marshal/Verify) and SecretKey/MiniSecretKey "
                   "unchanged, inputs are not modified; the list test sweeps every length 0..130 with three fills for every decoder, the "
                   "neighbourhood of L, 2L and 2^252..2^255 in every scalar slot marked and unmarked, and the in-tree vectors. Does not prove absence."),
    "level_note": ("Trusted: math/big, stdlib/x-crypto hash functions (prehash side), verifref (its self-test verifies the in-tree go-schnorrkel "
                   "signature vector, reproduces the in-tree ExpandUniform/ExpandEd25519 key pairs and the from_ed25519_bytes example, and checks the "
                   "fixed-base fast path against plain double-and-add; the harness re-checks the fast path against the plain reference on ~4% of "
                   "sign cases), rapid. Rejection of altered triples is decided by the reference, so it holds up to a ~2^-250 accidental validity; a "
                   "false batch accept needs a ~2^-128 event over the delinearisation scalars. NewSecretKeyFromEd25519Bytes rejecting unclamped "
                   "scalars is asserted from its comment and in-tree test (schnorrkel itself does not check). Not asserted: behaviour with a nil "
                   "or failing entropy reader, Equal on zero-value secret keys, the state of a batch entry when the caller mutates objects after Add. "
                   "DESIGN mutant `digest[31] &= 63 -> 127` is an equivalent mutant (`|= 64` follows); `&= 31` and dropping `|= 64` were used instead. "
                   "No native-fuzz campaign: the driver has no fuzz job type; the decoder strings are constructed per rejection reason instead."),
    "rule": ("rapid-generated cases. Sign: key kind (uniform 40% / ed25519 30% / raw scalar incl. 0, L-e, tiny / clamped Ed25519 bytes) x mini or "
             "nonce fill (zeros, 0xff, uniform) x context and message of edge-heavy length (0..400 / 0..500, STROBE rate 166 and hash block edges) x "
             "8 sources x entropy (zeros, 0xff, uniform; read chunk 1/7/31/32/unlimited) x 0..4 alterations of 19 kinds. Batch: pool of 1..3 honest + "
             "0..3 altered/zero/failed-decode entries + optional cancelling pair, 1..10 operations with repetition counts steered to 1, 2, 16, 32, 64, "
             "93..97, 128, 200, always ending with VerifyBatchOnly and Verify. Decode: decoder x (other length | R string from the RFC 9496 class "
             "generator or uniform, scalar string from {L+e, s+L, L-prefix words, reduced catalogue, 256-bit catalogue}, marker set/cleared/as drawn | "
             "ristretto string classes | key pair with own / negated / neighbouring / sign-flipped-s / bit-flipped / other-key / arbitrary public half | "
             "clamp violations per bit). Non-trivial = non-default expansion or transcript source or at least one alteration (Sign); a batch that "
             "contained an invalid entry, was reused after Reset, or was empty (Batch); a rejected decoder input or an accepted signature with "
             "undecodable R (Decode); every list case that is rejected. distinct = FNV-64 of the serialised case"),
    "assumptions": ["math/big is correct", "SHA-2/BLAKE2b/SHAKE of the Go libraries are correct (used for prehashes on the oracle side)",
                    "verifref schnorrkel/Merlin/STROBE/Keccak/ristretto255 references are correct (validated on the in-tree schnorrkel, Merlin, "
                    "STROBE and RFC 9496 vectors and against x/crypto/sha3)",
                    "Merlin behaves as a random oracle for the constructed inputs (no accidental validity of altered triples)"],
    "units": [{
        "pkg": "primitives/sr25519", "configs": ALL4T,
        "tests": {
            "TestC12Sign": T(2400, 30000, shards={"quick": 6, "thorough": 16}),
            "TestC12SigBits": LIST(),
            "TestC12Batch": T(800, 12000, shards={"quick": 4, "thorough": 16}),
            "TestC12Decode": T(8000, 160000),
            "FuzzC12Decode": FUZZ(90, configs=["default"]),
            "TestC12DecodeList": LIST(),
            "TestC12KeyGen": T(3000, 60000),
            "TestC12NilEntropy": LIST(),
        },
    }],
}
