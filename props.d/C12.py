PROPS["C12"] = {
    "title": "sr25519: complete, mutation-rejecting, schnorrkel-exact, canonical encodings",
    "level": "exploration",
    "technique": "property-based testing (rapid) against an independent schnorrkel reference (math/big + reference Merlin/STROBE/Keccak + RFC 9496 reference)",
    "level_text": "placeholder",
    "level_note": "placeholder",
    "rule": "placeholder",
    "assumptions": [],
    "units": [{
        "pkg": "primitives/sr25519", "configs": ALL4,
        "tests": {
            "TestC12Sign": T(1600, 60000, shards={"quick": 8, "thorough": 16}),
            "TestC12SigBits": LIST(),
            "TestC12Batch": T(480, 24000, shards={"quick": 6, "thorough": 16}),
            "TestC12Decode": T(4000, 200000),
            "TestC12DecodeList": LIST(),
        },
    }],
}
