# The math/big reference allocates heavily; a laxer GC target cuts a quarter of the CPU time (heap stays < 100 MB).
_C01_ENV = {"GOGC": "600"}

PROPS["C01"] = {
    "title": "Ed25519 verification decides exactly the configured specification predicate",
    "level": "exploration",
    "technique": ("property-based testing (rapid) against a math/big reference predicate; inputs built by construction "
                  "(the harness signs with reference arithmetic for keys/nonces with torsion and non-canonical encodings); "
                  "differential against crypto/ed25519 and two separately written specification verifiers; "
                  "exhaustive enumeration of the small-order / non-canonical encoding matrix"),
    "level_text": ("Generated-input search plus one enumerated finite sub-domain: every generated (variant, context, key, message, signature) "
                   "is evaluated under all 32 VerifyOptions combinations (24 legal compared with the statement's predicate, 8 illegal must panic), "
                   "the four presets, Options.Verify == nil, plain Verify, and the expanded-key API, on all four arithmetic backends. "
                   "Does not prove absence of a deviating input outside the explored set."),
    "level_note": ("Trusted: math/big, crypto/sha512, the verifref Edwards/EdDSA reference (validated against RFC 8032 vectors and crypto/ed25519), rapid. "
                   "The three references (flag predicate, RFC 8032/FIPS 186-5 verifier, ZIP-215 verifier) and crypto/ed25519 are cross-checked on every case; "
                   "a disagreement between them is reported as a harness error, never as a violation."),
    "rule": ("cases are constructed as A=[a]B+T_j, R=[r]B+T_i, S=r+k*a (k over the bytes as sent), each in any existing encoding, then optionally "
             "S-manipulated (S+mL, constants around L/2^252/2^253/2^256, high bits), forged (one bit of message/context/key/R/S, lengths, other key), "
             "verified under another variant, or length-changed; plus undecodable/unknown-dlog keys and random signatures. "
             "non-trivial = documented-panic case, or accepted under at least one legal flag set, or key/signature class other than plain honest/uniform, "
             "or any S manipulation / forgery / cross-variant / length change; distinct = FNV-64 of the serialised case. "
             "evaluations = individual library decisions compared with the oracle (about 80 per case)"),
    "assumptions": ["math/big and crypto/sha512 are correct",
                    "verifref curve constants are computed from their definitions and self-tested against RFC 8032 vectors",
                    "Go's crypto/ed25519 (1.23) defines the StdLib behaviour"],
    "units": [{
        "pkg": "primitives/ed25519", "configs": ALL4T,
        "tests": {
            "TestC01Verify": T(4000, 100000, env=_C01_ENV, shards={"quick": 8}),
            "FuzzC01Verify": FUZZ(120, configs=["default"], env=_C01_ENV),
            "TestC01Panics": T(300, 5000, env=_C01_ENV),
            "TestC01SmallOrderMatrix0": LIST(env=_C01_ENV),
            "TestC01SmallOrderMatrix1": LIST(env=_C01_ENV),
            "TestC01SmallOrderMatrix2": LIST(env=_C01_ENV),
            "TestC01SmallOrderMatrix3": LIST(env=_C01_ENV),
        },
    }],
}
