PROPS["C04"] = {
    "title": "Field arithmetic is exact modulo 2^255-19 for every representable input",
    "level": "exploration",
    "technique": ("property-based testing (rapid) against a math/big reference: raw-limb inputs anywhere in the documented headroom, "
                  "reachable representations from generated op programs under a bound-tracking interpreter, byte strings for the "
                  "decoders; in-package on all four backends (amd64 assembly and portable 64-bit side by side, 32-bit, AVX2 lanes)"),
    "level_text": ("Generated-input search. Every field operation (Add Sub Neg Mul Square Square2 Pow2k Mul121666 Invert BatchInvert "
                   "SqrtRatioI InvSqrt ConditionalSelect/Swap/Assign/Negate Set One MinusOne Zero SetBytes SetBytesWide ToBytes Equal "
                   "IsZero IsNegative) is executed on limb vectors built from a boundary catalogue that reaches the top of the "
                   "documented headroom (2^54-1 per 51-bit limb; 2^27.752 / 2^26.752 per 26/25-bit limb) and on representations the "
                   "library produces itself (op programs whose per-register limb bounds are tracked from the documented "
                   "post-conditions, an operation being applied only when its documented precondition holds); the value of each "
                   "result, read back limb by limb with the radix formula, must equal the math/big result mod p, the documented "
                   "output bounds must hold, operands must be unchanged. feMul/feMulGeneric and fePow2k/fePow2kGeneric run side by "
                   "side on amd64; -tags purego and -tags force32bit run the same checks on the portable and 32-bit code; the AVX2 "
                   "lanes are driven through newFieldElement2625x4/Split and through the library's own point compositions. A silent "
                   "word wrap shows up as a wrong value. Does not prove absence of overflow for all inputs. Configuration 386x64 (GOARCH=386 with the force64bit tag) runs the portable 64-bit limb code on a target with 32-bit int/uint."),
    "level_note": ("Trusted: math/big, verifref field model (self-tested: SqrtRatioM1 is cross-checked in every case against a second, "
                   "purely mathematical statement of the contract), rapid. Limbs beyond the documented headroom are never generated "
                   "(ToBytes-based observers excepted: reduce() documents the whole 64-bit range). The vector code documents no lane "
                   "bounds: lanes are only fed from serial elements in the weakly-reduced range of EdwardsPoint coordinates, from lane "
                   "outputs, or through the library's own compositions on valid curve points. Without AVX2 the lane tests decide "
                   "nothing and say so (extra.avx2)."),
    "rule": ("cases = limb vectors / op programs / byte strings drawn by rapid from catalogue-driven generators (per-limb: 0, 2^w+-e, 2^(w+k)+-e, "
             "top of headroom, limbs of k*p, reduce carry-in bounds, single bits, 32-bit seams, uniform below any bit-length; per-element: all-max, "
             "one-hot, special values (0, +-small, +-sqrt(-1), (p-1)/2, 2^k, squares and i*squares, d) re-represented with non-canonical limbs, "
             "k*p+e); non-trivial = some input limb carries excess bits (>= 2^52 on the 64-bit backends, above its nominal 26/25-bit width on the "
             "32-bit backend, >= 2^51 or zero for lane inputs), or the radix value is >= p, or a zero / non-residue reaches Invert, BatchInvert or "
             "SqrtRatioI, or a decoder input is >= p, has bit 255 set, is 512-bit non-uniform or has a wrong length; distinct = FNV-64 of the serialised case"),
    "assumptions": ["math/big is correct", "verifref.P = 2^255-19 and the RFC 9496 sqrt_ratio_m1 transcription (self-tested, cross-checked per case)",
                    "the documented limb headroom in field_u64.go / field_u32.go is the contract (inputs beyond it are out of scope)"],
    "units": [{
        "pkg": "internal/field", "configs": ["default", "purego", "force32bit", "386", "386x64"],
        "tests": {
            "TestC04Raw": T(32000, 1000000),
            "TestC04Encode": T(24000, 500000),
            "TestC04Sqrt": T(8000, 150000),
            "TestC04Prog": T(24000, 600000),
            "TestC04ParSqrt": T(600, 20000), "TestC04ParProg": T(1000, 60000),
            "TestC04Bytes": T(24000, 500000),
            "TestC04Consts": LIST(),
        },
    }, {
        "pkg": "curve", "configs": ["default"],
        "tests": {
            "TestC04LaneOps": T(20000, 500000),
            "TestC04LanePoints": T(5000, 100000),
        },
    }],
}
