PROPS["C04"] = {
    "title": "Field arithmetic is exact modulo 2^255-19 for every representable input",
    "level": "exploration",
    "technique": "property-based testing (rapid) of raw-limb, reachable-representation and byte-string inputs against a math/big reference, per limb backend",
    "level_text": "placeholder",
    "level_note": "placeholder",
    "rule": "placeholder",
    "assumptions": ["math/big is correct"],
    "units": [{
        "pkg": "internal/field", "configs": ["default", "purego", "force32bit"],
        "tests": {
            "TestC04Raw": T(20000, 2000000),
            "TestC04Encode": T(20000, 2000000),
            "TestC04Sqrt": T(4000, 400000),
            "TestC04Prog": T(8000, 800000),
            "TestC04Bytes": T(20000, 2000000),
            "TestC04Consts": LIST(),
        },
    }],
}
