PROPS["C16"] = {
    "title": "Short-vector reduction and the delta-scaled verification equation are sound",
    "level": "exploration",
    "technique": ("property-based testing (rapid): continued-fraction-engineered and short-vector-engineered scalars against integer "
                  "invariants in math/big; the 512/384/128-bit two's complement helpers against math/big; by-construction points "
                  "([a]B+T_j, reference-encoded) for the triple-base equation on generic, vector and Ristretto paths"),
    "level_text": ("Generated-input search. (1) For every generated 255-bit k (reduced and unreduced) FindShortVector must return within a watchdog, "
                   "with (d0,d1) != 0, d0 = d1*k mod L, d1 invertible, d0^2+d1^2 < 2^254 (hence inside signed 128 bits), and sign/abs/ToScalar "
                   "consistent with the integers. (2) int512/int384/Int128 operations equal math/big modulo 2^512/2^384/2^128 for all shift amounts. "
                   "(3) For generated (a, b, A, C) with torsion-laden A and C the result of TripleScalarMulBasepointVartime / ExpandedTriple... "
                   "(dispatching, explicit generic, explicit vector, Ristretto wrappers) is small-order / identity exactly when the equation was "
                   "constructed true. Does not prove absence; termination is observed, not proved."),
    "level_note": ("Trusted: math/big, verifref curve arithmetic (self-tested against RFC 8032 constants), rapid. The library decoder is used to load "
                   "reference-encoded points; the library encoder to hand results to the reference predicate."),
    "rule": ("k from: fixed points (0,1,2,L-1,L,L+1,L/2,2^255-1,.., the roots of k^2=-1 and k^2+k+1=0 mod L: orthogonal/hexagonal lattices), floor(L*a/q)+e for q of 1..127 bits, sqrt(L)*m+e, convergents with one repeated partial "
             "quotient (L/phi ..), convergents with small quotients then one huge quotient at a chosen depth, k = d0/d1 mod L for prescribed short "
             "vectors up to the 2^127 edge with both signs, 2^i+-1, uniform of uniform bit length, L-x, L/2+-x, the shared scalar catalogue, "
             "and k+mL lifts; equations: A=[alpha]B+T_i, C=[a*alpha+b+delta]B+T_j with delta in {0, mL} (true) or tiny/2^i/L+-e/uniform (false); "
             "one case in six uses (a,b) engineered so that |delta|*b mod L has an extreme 128-bit split (x*2^128, 2^128-1, 2^127, 0, 1, L-1). "
             "non-trivial = k structured (not plain uniform) or unreduced, or d0/d1 negative, or A/C carrying torsion; primitive-operation cases all count; "
             "distinct = FNV-64 of the serialised case"),
    "assumptions": ["math/big is correct", "verifref curve arithmetic is correct (validated against RFC 8032 constants and the affine addition law)",
                    "non-termination is detected by a budget of 30 seconds of CPU time (getrusage, not wall clock) on a microsecond-scale function; the case is then reported without shrinking"],
    "units": [
        {"pkg": "internal/lattice", "configs": {"quick": ["default", "force32bit", "386"], "thorough": ["default", "purego", "force32bit", "386"]},
         "tests": {
             "TestC16ShortVector": T(300000, 10000000),
             "TestC16ParShortVector": T(8000, 600000),
             "TestC16BigInt": T(40000, 1000000),
             "TestC16Int128": T(40000, 1000000),
             "TestC16Int128FromScalar": T(10000, 200000),
             "TestC16Constants": LIST(),
         }},
        {"pkg": "curve", "configs": {"quick": ["default", "purego", "force32bit", "386x64"], "thorough": ["default", "noavx2", "purego", "force32bit", "386", "386x64"]},
         "tests": {
             "TestC16Equation": T(6000, 60000, shards={"quick": 8, "thorough": 16}),
         }},
    ],
}
