PROPS["C17"] = {
    "title": "Scalar digit recodings preserve the value within their digit bounds",
    "level": "exploration",
    "technique": ("property-based testing (rapid) against exact math/big reconstruction and textbook reference recodings; "
                  "window-structured carry-chain generators; exhaustive enumeration of a 12-bit sub-domain at the word seams and of the width parameter"),
    "level_text": ("Generated-input search: for every generated 255-bit scalar the bit decomposition, the width-w NAF for every w in 2..8, "
                   "the signed radix-16 form and the signed radix-2^w form for w = 6, 7, 8 are reconstructed as exact integers (not mod L) "
                   "and every digit is compared with its documented range, spacing, size hint and terminal-carry position, and with a "
                   "big-integer textbook recoding. Plus complete enumeration of all 12-bit values at nine bit offsets and of all width arguments 0..130. "
                   "Does not prove absence for the full 2^255 domain."),
    "level_note": "Trusted: math/big, the textbook recodings in verifref (validated against the published width-5 NAF vector), rapid.",
    "rule": ("rapid-generated 255-bit values: shared boundary catalogue (kL+e, 2^k+-e, 2^k-1, nibble patterns, word seams, limbs, uniform reduced/unreduced) "
             "plus values built from w-bit windows that start/sustain/stop carry chains (2^(w-1)-1, 2^(w-1), 2^(w-1)+1, 2^w-1) for w = 2..8 at arbitrary alignment, "
             "nibble chains under a top byte 0x7f/0x78/.., 2^255-2^j-e, and random runs of ones and zeros; each value goes through all widths. "
             "non-trivial = value >= 2^252 or drawn from a carry-chain / seam / pattern class (i.e. not plain uniform-reduced, tiny, sparse); "
             "distinct = FNV-64 of the serialised case"),
    "assumptions": ["math/big is correct", "the width-w NAF and the centred radix-2^w representation of an integer are unique (textbook)"],
    "units": [{
        "pkg": "curve/scalar", "configs": {"quick": ["default", "force32bit", "386", "386x64"], "thorough": ["default", "purego", "force32bit", "386", "386x64"]},
        "tests": {
            "TestC17NAF": T(120000, 4000000),
            "TestC17Radix16": T(100000, 3000000),
            "TestC17Radix2w": T(100000, 3000000),
            "TestC17Bits": T(40000, 1000000),
            "TestC17Small": LIST(),
            "TestC17Widths": LIST(),
        },
    }],
}
