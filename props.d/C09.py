PROPS["C09"] = {
    "title": "Batch, expanded-key and cached verification agree with single verification",
    "level": "exploration",
    "technique": ("property-based testing (rapid) of operation histories against a sequential model whose per-entry oracle is "
                  "single-signature verification (itself compared with the math/big reference predicate on sampled steps); "
                  "hand-signed pools with torsion-laden / small-order / non-canonical keys and nonces; in-package structural "
                  "invariants of the LRU cache against the sequential model verifref.LRU; thorough tier adds native coverage-guided fuzzing "
                  "of the same generators/oracles (rapid.MakeFuzz)"),
    "level_text": ("Generated-history search. Batch: histories over {Add, AddWithOptions, AddExpanded, AddExpandedWithOptions (incl. nil key), "
                   "ForceNoPublicKeyExpansion, Reset, Verify, VerifyBatchOnly} with batch sizes steered to 0, 1, 2, 93/94/95/96 (key-expansion and "
                   "Straus/Pippenger limits), 249/250/251 and 399/400/401+ (Pippenger window changes), repeated verification without Reset and reuse "
                   "after Reset; after every Verify (ok, valid) must equal (n>0 and AND expected_i, expected) with expected_i := single "
                   "VerifyWithOptions/Verify (documented panic => false), after every VerifyBatchOnly the result must equal n>0 and no cofactorless "
                   "entry and AND expected_i. Expanded keys: shared ExpandedPublicKey objects reused across option sets must decide (and panic) "
                   "exactly like plain verification; NewExpandedPublicKey succeeds iff the reference decoder accepts. Cache: histories over "
                   "{Verify, VerifyWithOptions, Add, AddWithOptions, AddPublicKey, direct Get/Put} with capacity 1..4 over 6 keys; decisions equal plain "
                   "verification and after every step the store/list/recency invariants hold against verifref.LRU. Randomizers (internal/scalar128): "
                   "every coefficient of the linear combination is in [1, 2^128], 256 consecutive ones are distinct with no stuck bit, they depend on "
                   "the entropy, and a source that dries up is an error. Does not prove absence. Histories also contain a valid entry replayed under another (undecodable / wrong-length / foreign) key once or twice in a row, and callers that keep ONE Options object (fields overwritten before every Add). A cache constructor that returns another implementation of the Cache interface is judged as a black box."),
    "level_note": ("Trusted: math/big, verifref (self-tested against RFC 8032 vectors and crypto/ed25519), rapid. The per-entry oracle of the batch/cache "
                   "histories is the library's own single verification (the property is an agreement property); it is tied to the independent reference "
                   "on the first step of every expanded-key case and by C01. A false batch accept needs a ~2^-125 event over the ChaCha-derived "
                   "coefficients; entropy readers always deliver (a failing reader is a documented panic). The state of caller buffers mutated after Add "
                   "and nil *Options (documented panic) are outside the asserted domain."),
    "rule": ("rapid-generated cases: a hand-signed pool (keys: honest, mixed-order, small-order, non-canonical spelling, undecodable, wrong length; "
             "entries: honest, torsion-perturbed R, small-order / non-canonically spelled R, cofactorless-valid incl. R ground against the torsion of A, "
             "S+L, cancelling +d/-d groups, forged, wrong-length signatures, wrong key, cross-variant, illegal options) and an operation history over it; "
             "non-trivial = the history contains an entry that is invalid, cofactorless or torsion-laden, or reuses the verifier after Reset, or "
             "verifies repeatedly, or reaches a size threshold (>= 93 entries); for the expanded-key test a step that is rejected or uses a "
             "non-honest key / torsion R; for the cache test a history with at least one eviction; distinct = FNV-64 of the serialised case"),
    "assumptions": ["math/big is correct", "verifref EdDSA reference reproduces RFC 8032 vectors and crypto/ed25519 (self-test)",
                    "SHA-512 behaves as a random function for the constructed inputs (no accidental validity of forged entries)"],
    "units": [
        {
            "pkg": "primitives/ed25519", "configs": ALL4T,
            "tests": {
                "TestC09Batch": T(1600, 50000, shards={"quick": 8, "thorough": 16}),
                "TestC09Expanded": T(1200, 30000, shards={"quick": 4, "thorough": 16}),
                "TestC09BatchSizes": LIST(),
                "FuzzC09Batch": FUZZ(90, configs=["default"], workers=4),
            },
        },
        {
            # the coefficients of the random linear combination themselves (range, distinctness, no stuck bits, dependence on the entropy)
            "pkg": "internal/scalar128", "configs": ["default", "purego"],
            "tests": {"TestC09Randomizers": T(600, 20000)},
        },
        {
            "pkg": "primitives/ed25519/extra/cache", "configs": ALL4T,
            "tests": {
                "TestC09Cache": T(1600, 40000, shards={"quick": 4, "thorough": 16}),
                "FuzzC09Cache": FUZZ(90, configs=["default"], workers=4),
            },
        },
    ],
}
