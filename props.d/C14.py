PROPS["C14"] = {
    "title": "Hash-to-curve suites implement RFC 9380 for every input",
    "level": "exploration",
    "technique": ("property-based testing (rapid) against an independent math/big transcription of RFC 9380 "
                  "(naive expand_message_xmd/xof, hash_to_field, generic Elligator 2 of 6.7.1, rational map D.1, clear_cofactor) "
                  "and RFC 9496 MAP; exhaustive lists for the abort thresholds and the map's special inputs"),
    "level_text": ("Generated-input search: message expansion is compared byte-for-byte with the reference for 15 hash functions "
                   "(digest sizes 16..64 bytes, four block sizes), SHAKE128/256 and cSHAKE instances in fresh and written-to (an instance that was already read from makes x/crypto's Clone panic: a caller-side object state, not generated) "
                   "caller states, DST lengths on both sides of 255, output lengths around every multiple of the digest size and the "
                   "ell>255 / 65535 / 0 thresholds; all eight suite functions are compared with the reference point (canonical encoding) "
                   "and every returned Edwards point is multiplied by L in reference arithmetic; the steps after expansion are driven "
                   "in-package on hostile uniform bytes (multiples of p up to 2^384) and internal/elligator directly on field elements "
                   "(0, +-1, sqrt(-1), non-canonical aliases, inputs sent to 4-torsion). Does not prove absence. One further binary (overlay package internal/zzc14link) links nothing but the package under test and runs the fixed SHA-512 suites against RFC 9380 J.5 vectors, so that the package's own import set is observed."),
    "level_note": ("Trusted: math/big, Go stdlib and x/crypto hash primitives, the reference (replays the RFC 9380 JSON vectors incl. "
                   "u, Q0/Q1, DST_prime, msg_prime). k = 128 for the oversize-DST XOF rule, as the package documents. "
                   "Unknown/unlinked crypto.Hash values panic in the standard library and are not generated."),
    "rule": ("rapid-generated (hash|XOF state, DST, message, length) tuples and field inputs compared with the reference; "
             "non-trivial = DST longer than 255 bytes, or length not a multiple of the digest size/sponge rate, or an abort/refusal "
             "case, or a hash other than SHA-512, or a used XOF instance, or a ristretto255 suite, or a map input from a special class "
             "(0, +-1, sqrt(-1), non-canonical alias, boundary catalogue, k*p+e wide value); distinct = FNV-64 of the serialised case"),
    "assumptions": ["math/big is correct", "stdlib/x-crypto hash functions are correct",
                    "verifref h2c transcription is faithful (checked against the RFC 9380 vectors shipped in /repo/primitives/h2c/testdata)"],
    "units": [
        {
            "pkg": "primitives/h2c", "configs": ALL4Q,
            "tests": {
                "TestC14ExpandXMD": T(12000, 400000),
                "FuzzC14ExpandXMD": FUZZ(60, configs=["default"]),
                "TestC14ExpandXOF": T(6000, 200000),
                "TestC14Suites": T(3200, 100000, shards={"quick": 4, "thorough": 16}),
                "TestC14UniformToPoint": T(1200, 40000, shards={"quick": 4, "thorough": 16}),
                "TestC14AbortBoundaries": LIST(),
                "TestC14RFCInputs": LIST(),
            },
        },
        {   # a binary that links nothing but the package itself (no hash registered by a neighbour): plain Go test
            "pkg": "internal/zzc14link", "configs": ["default"],
            "tests": {"TestC14LinkAlone": LIST()},
        },
        {
            "pkg": "internal/elligator", "configs": ALL4Q,
            "tests": {
                "TestC14Map": T(6000, 200000, shards={"quick": 4, "thorough": 16}),
                "TestC14ParMap": T(300, 10000),
                "TestC14SetEdwardsFromXY": T(3000, 60000),
                "TestC14MapSpecial": LIST(),
            },
        },
    ],
}
