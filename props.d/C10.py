PROPS["C10"] = {
    "title": "Edwards point decoding, encoding and subgroup predicates are exact",
    "level": "exploration",
    "technique": ("property-based testing (rapid) against a math/big affine reference (independent square root, "
                  "from-scratch E[8]), exhaustive lists for the finite special classes, in-package projective rescaling"),
    "level_text": ("Generated-input search plus exhaustive enumeration of the finite special classes: every 32-byte decoder input is "
                   "classified by an independent reference decoder (accept iff masked y mod p is on the curve; requested sign; canonical "
                   "re-encoding; canonicity predicate computed on the bytes); all 38 y>=p strings, 16 torsion spellings, x=0 sign cases, "
                   "the recomputed non-canonical list, y within 64 of 0 and p, and every step of the succeed-fast canonicity loop are enumerated; "
                   "wrong lengths 0..70 (+ long) must error and leave the identity. Points [a]B+T_j are loaded in-package as "
                   "(lx:ly:l:lxy) for arbitrary non-zero l (and through Add/Sub round trips) and Equal/IsIdentity/IsSmallOrder/"
                   "IsTorsionFree/MarshalBinary/SetEdwards are compared with index arithmetic and affine reference values; all 64 "
                   "pairs of E[8] are enumerated. SetMontgomery is compared with the reference birational map for curve, twist, u=-1, "
                   "u>=p and bit-255 inputs and both signs. Does not prove absence. String classes include byte-wise comparison probes against p (agree above one byte index, differ at it), strings that keep only the ends of a special encoding, and every Compressed*.UnmarshalBinary repeated on a receiver that already holds the input."),
    "level_note": ("Trusted: math/big, verifref (self-tested against RFC 8032 constants), rapid. `sign` values other than 0/1 for "
                   "SetMontgomery are outside the documented domain. SetCompressedY's receiver state after an error is not documented "
                   "and not asserted (UnmarshalBinary's is: identity)."),
    "rule": ("rapid-generated 32-byte strings from decoder-relevant classes (canonical encodings of [a]B+T_j, the non-canonical list, "
             "y>=p, small y, p-small, torsion spellings, single-bit mutations of valid encodings, boundary catalogue, uniform; sign-bit "
             "flips), arbitrary-length byte strings, points [a]B+T_j in 6 projective representations with catalogue/uniform scaling "
             "factors paired with a related point (same / negated / +torsion / same-x / +L / independent), Montgomery u strings "
             "(curve, twist, -1, >=p, bit 255) x sign; non-trivial = string is non-canonical, off-curve, of wrong length, or a "
             "small-order point; point has a torsion component or Z != 1; u is off-curve / non-canonical / has bit 255 / maps to a small-order point; "
             "distinct = FNV-64 of the serialised case"),
    "assumptions": ["math/big is correct", "verifref field/curve constants are computed from their definitions and self-tested"],
    "units": [{
        "pkg": "curve", "configs": ALL4Q,
        "tests": {
            "TestC10Decode": T(20000, 1000000),
            "TestC10Ownership": T(1500, 40000),
            "FuzzC10Decode": FUZZ(90, configs=["default"]), "FuzzC10AnyLen": FUZZ(60, configs=["default"]),
            "TestC10DecodeList": LIST(),
            "TestC10Lengths": LIST(),
            "TestC10Identity": LIST(),
            "TestC10AnyLen": T(6000, 200000),
            "TestC10Points": T(6000, 200000),
            "TestC10TorsionList": LIST(),
            "TestC10Montgomery": T(12000, 500000),
        },
    }],
}
