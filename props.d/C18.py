PROPS["C18"] = {
    "title": "Concurrent use is race-free and the LRU key cache is linearizable",
    "level": "exploration",
    "technique": ("property-based testing (rapid) of generated concurrent workloads and call histories, each executed in an isolated "
                  "child process built with the Go race detector; linearizability of recorded Get/Put histories checked with porcupine "
                  "against a sequential LRU model (every 'illegal' verdict confirmed by an independent brute-force checker); "
                  "sequential-vs-concurrent result equality; in-package structural invariants after quiescence"),
    "level_text": ("Schedule exploration, not schedule enumeration: generated programs (2-16 goroutines over the public API and shared "
                   "objects; 2-4 goroutines x 3-8 Get/Put calls on one lruCache with capacity 1-3 and more keys than capacity) are run "
                   "repeatedly under generated yield points and GOMAXPROCS in {1,2,4,16} with -race. A case fails on a race report, a "
                   "runtime fatal error naming a synchronisation defect (concurrent map access, deadlock, mutex misuse), a worker panic, "
                   "a result that differs from the same call made sequentially, a history that no sequential LRU execution explains, "
                   "a Get that returns another key's expanded key, or a broken index/recency-list invariant. The measured overlap "
                   "(logical-clock stamps) and eviction counts are reported as classes so that a vacuous run is visible. "
                   "The workload also runs the verification equation with scalars of every size class, ECVRF proving/verifying and hash-to-curve with "
                   "a shared DST longer than 255 bytes; goroutines pass the SAME read-only input buffers; a call that never returns under "
                   "concurrency is a violation decided by a budget of CPU time (not wall clock). "
                   "A race that needs a window the perturbation never opens is missed. Does not prove absence. The workload includes key generation through the documented default entropy source (rand == nil) from many goroutines, judged by a verdict on the generated pair."),
    "level_note": ("Trusted: the Go race detector and runtime, porcupine v1.3.0 (cross-checked by a brute-force checker on every negative "
                   "verdict and on 1,500 random histories per run), the 40-line sequential LRU model (cross-checked against verifref.LRU). "
                   "Expected values of the workload are the library's own sequential results (the property is 'equals some sequential "
                   "execution'; functional correctness is C01-C17); the sequential results themselves are tied to crypto/ed25519 and the reference "
                   "(signatures, keys, proofs made outside the library) so that state corrupted for good by a racy start-up is not invisible. The LRU "
                   "model accepts both value policies of Put on a resident key. No timing thresholds are used as oracles; a child whose goroutines are still running after 300 "
                   "CPU-seconds on one repetition (they take milliseconds) is reported as 'no return under concurrency'; a child that is merely blocked "
                   "falls to the Go runtime's deadlock detector or, failing that, to a 30-minute limit that is a harness error, not a violation."),
    "rule": ("(a) workload = N in 2..16 goroutines x generated []Op over {sign, verify (all presets, pure/ctx/ph), batch verify, NewKeyFromSeed, "
             "X25519, ScalarBaseMult, MulBasepoint on ED25519_BASEPOINT_TABLE, verify with shared ExpandedPublicKeys, shared cache.Verifier "
             "(capacity 1..3, 6 valid + 2 hostile keys), sr25519 sign/verify through a shared SigningContext, hash-to-curve, Merlin on clones of a "
             "shared transcript}; three generator shapes (mixed / cache-storm / sign-storm), yield points, GOMAXPROCS, cold-vs-warm start and "
             "free-running-vs-lock-step rounds are part of the case; inputs are built with the standard library's crypto/ed25519 and verifref; "
             "each case is repeated (op budget / case size, 3..30 times with -race, 10..300 without); evaluations = results compared with the "
             "sequential ones; non-trivial = at least two goroutines touch the same shared instance (expanded key, cache verifier, signing "
             "context, base transcript, explicit basepoint-table op, x25519.Basepoint). "
             "(b) history = capacity, key universe, prefill, 2..4 goroutines x 3..8 Get/Put with one fresh value pointer per Put, optional "
             "lock-step rounds; each case is repeated 150 times (600 times without race instrumentation) in the child (evaluations = histories "
             "checked + quiescent invariant checks); non-trivial = some repetition had >= 1 eviction along the linearization found and >= 1 pair "
             "of calls of different goroutines with intersecting [call,return] stamps; distinct = FNV-64 of the serialised case"),
    "assumptions": ["the Go race detector reports every data race it observes in an executed interleaving (no false positives)",
                    "porcupine and the brute-force checker are not wrong in the same way",
                    "the library's sequential results are the reference for the concurrent ones (their correctness is C01-C17)"],
    "units": [{
        # "race"/"race-noavx2"/"race-purego": built with -race (the race detector is an oracle); "race-noavx2" is the race
        # binary with GODEBUG=cpu.avx2=off (serial point code: its scratch state differs from the vector path); "race-purego"
        # additionally swaps in the Go Keccak and the generic table lookups; "default"/"noavx2": the same tests without
        # instrumentation (~10x more repetitions per case at real-world timing; oracles: results, histories, invariants,
        # runtime fatal errors).
        "pkg": "primitives/ed25519/extra/cache", "configs": {"quick": ["race", "default"], "thorough": ["race", "default", "noavx2"]},
        "tests": {
            "TestC18ModelSelf": LIST(configs=["race"]),
            "TestC18History": T(400, 8000, shards={"quick": 8, "thorough": 16}, shrinktime="15s"),
            "TestC18Workload": T(400, 8000, shards={"quick": 8, "thorough": 16}, shrinktime="15s"),
        },
    }, {
        # the backend-specific configurations only matter to the workload (the LRU code is backend independent)
        "pkg": "primitives/ed25519/extra/cache", "configs": {"quick": ["race-noavx2", "race-purego"], "thorough": ["race-noavx2", "race-purego"]},
        "tests": {
            "TestC18Workload": T(240, 6000, shards={"quick": 8, "thorough": 16}, shrinktime="15s"),
        },
    }],
}
