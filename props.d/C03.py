PROPS["C03"] = {
    "title": "Group law and every scalar-multiplication routine give the true group result",
    "level": "exploration",
    "technique": "property-based testing (rapid) against an independent math/big affine reference; points and sums known by construction",
    "level_text": "tbd",
    "level_note": "tbd",
    "rule": "tbd",
    "assumptions": ["math/big is correct"],
    "units": [{
        "pkg": "curve", "configs": {"quick": ALL4, "thorough": ALL4},
        "tests": {
            "TestC03GroupLaw": T(400, 4000),
            "TestC03ScalarMul": T(400, 4000),
            "TestC03MSMSmall": T(400, 4000),
            "TestC03MSMLarge": T(16, 100),
        },
    }],
}
