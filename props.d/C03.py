_C03_B3 = ["default", "purego", "force32bit"]

def _c03(q, t, qs, ts):
    return T(q, t, shards={"quick": qs, "thorough": ts})

PROPS["C03"] = {
    "title": "Group law and every scalar-multiplication routine give the true group result",
    "level": "exploration",
    "technique": ("property-based testing (rapid) against an independent math/big affine reference; operands and sums "
                  "known by construction ([a]B+T_j decomposition), explicit calls of every serial/AVX2 implementation, "
                  "Straus and Pippenger at every length and window"),
    "level_text": ("Generated-input search: canonical encodings of the results of Add/Sub/Neg/Sum/MulByCofactor/doubling, Mul, "
                   "MulBasepoint (stock and freshly built tables), double-base, constant-time and variable-time multiscalar "
                   "multiplication (Straus, Pippenger w=6/7/8, expanded/precomputed variants) and of the Ristretto wrappers are "
                   "compared with a math/big affine computation of sum [s_i]P_i, for points [a]B+T_j (identity, torsion, mixed "
                   "order, arbitrary Z) and all classes of 255-bit scalars (unreduced, kL+e, 2^255-1, window patterns), with term "
                   "counts 0,1,2,3,8,20,<=64 and 189..192, 499..501, 799..801, on all four arithmetic backends, both through the "
                   "public API and by calling each Generic/Vector implementation directly. Does not prove absence. When a term is the base point in decoded form, the operand handed to the library is the exported ED25519_BASEPOINT_POINT object itself."),
    "level_note": ("Trusted: math/big, verifref Edwards/ristretto model (validated against RFC 8032/9496 vectors), the elementary identity "
                   "[s]([a]B+T_j) = [s*a mod L]B + T_{s*j mod 8} (cross-checked at run time against term-by-term affine sums on a sample "
                   "of cases; a disagreement aborts with exit 2). Zero-value points are documented invalid and never used; "
                   "TripleScalarMulBasepointVartime belongs to C16."),
    "rule": ("rapid-generated cases; points by construction [a]B+T_j (classes identity/torsion/mixed-order/prime-order, small and "
             "full-size a, negated, duplicated, re-represented with non-trivial Z), scalars from the 255-bit boundary catalogue plus "
             "repeating w-bit window patterns; non-trivial = some scalar is >= L or from a boundary class, or some operand is the "
             "identity / a torsion point / of mixed order / stored with Z != 1, or the term count is 0 or at a threshold "
             "(189..192, 499..501, 799..801); distinct = FNV-64 of the serialised case"),
    "assumptions": ["math/big is correct", "verifref curve constants and formulas (self-tested against published vectors)"],
    "units": [
        {   # three arithmetic backends; the in-package tests call Generic and (on AVX2) Vector explicitly
            "pkg": "curve", "configs": {"quick": _C03_B3 + ["386", "386x64"], "thorough": _C03_B3 + ["386", "386x64"]},
            "tests": {
                "TestC03GroupLaw":      _c03(1600, 24000, 1, 8),
                "TestC03ScalarMul":     _c03(800, 12000, 2, 16),
                "TestC03MSMSmall":      _c03(1000, 14000, 2, 16),
                "TestC03MSMLarge":      _c03(40, 600, 1, 8),
                "TestC03Ristretto":     _c03(300, 5000, 2, 16),
                "TestC03ImplModels":    _c03(800, 12000, 1, 8),
                "TestC03ImplScalarMul": _c03(600, 10000, 2, 16),
                "TestC03ImplMSMSmall":  _c03(400, 6000, 4, 16),
                "TestC03ParImplScalarMul": _c03(60, 1500, 1, 8), "TestC03ParImplMSMSmall": _c03(40, 1000, 1, 8),
                "TestC03ImplMSMLarge":  _c03(40, 500, 2, 16),
                "TestC03ImplRistretto": _c03(400, 6000, 1, 8),
            },
        },
        {   # same binary with AVX2 masked: the public API now dispatches to the serial code on the assembly field
            # backend (and keeps the packed serial basepoint table); the explicit in-package calls would repeat "default"
            "pkg": "curve", "configs": ["noavx2"],
            "tests": {
                "TestC03GroupLaw":      _c03(800, 12000, 1, 8),
                "TestC03ScalarMul":     _c03(500, 6000, 1, 8),
                "TestC03MSMSmall":      _c03(500, 7000, 1, 8),
                "TestC03MSMLarge":      _c03(30, 300, 1, 8),
                "TestC03Ristretto":     _c03(200, 2500, 1, 8),
            },
        },
    ],
}
