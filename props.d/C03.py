PROPS["C03"] = {
    "title": "Group law and every scalar-multiplication routine give the true group result",
    "level": "exploration",
    "technique": "property-based testing (rapid) against an independent math/big affine reference; points and sums known by construction",
    "level_text": "tbd",
    "level_note": "tbd",
    "rule": "tbd",
    "assumptions": ["math/big is correct"],
    "units": [{
        "pkg": "curve", "configs": {"quick": ALL4, "thorough": ALL4},
        "tests": {
            "TestC03GroupLaw": T(400, 4000),
            "TestC03ScalarMul": T(400, 4000),
            "TestC03MSMSmall": T(400, 4000),
            "TestC03MSMLarge": T(16, 100),
            "TestC03Ristretto": T(200, 2000),
            "TestC03ImplModels": T(200, 2000),
            "TestC03ImplScalarMul": T(200, 2000),
            "TestC03ImplMSMSmall": T(200, 2000),
            "TestC03ImplMSMLarge": T(16, 100),
            "TestC03ImplRistretto": T(200, 2000),
        },
    }],
}
