PROPS["C06"] = {
    "title": "All arithmetic backends are observationally identical",
    "level": "exploration",
    "technique": "cross-configuration differential testing (rapid-generated workload, same seed in four build/CPU configurations)",
    "level_text": "smoke",
    "level_note": "smoke",
    "rule": "smoke",
    "assumptions": [],
    "units": [
        {"pkg": "curve/scalar", "configs": ALL4, "tests": {"TestC06Scalar": T(6000, 300000, kind="diff")}},
        {"pkg": "internal/field", "configs": ALL4, "tests": {"TestC06Field": T(6000, 300000, kind="diff")}},
        {"pkg": "internal/strobe", "configs": ALL4, "tests": {"TestC06Strobe": T(3000, 150000, kind="diff")}},
        {"pkg": "curve", "configs": ALL4, "tests": {
            "TestC06Edwards": T(4000, 200000, kind="diff"),
            "TestC06Ristretto": T(3000, 150000, kind="diff"),
            "TestC06Multiscalar": T(1600, 60000, kind="diff"),
        }},
    ],
}
