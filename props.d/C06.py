PROPS["C06"] = {
    "title": "All arithmetic backends are observationally identical",
    "level": "exploration",
    "technique": "cross-configuration differential testing (rapid-generated workload, same seed in four build/CPU configurations)",
    "level_text": "smoke",
    "level_note": "smoke",
    "rule": "smoke",
    "assumptions": [],
    "units": [{
        "pkg": "curve/scalar", "configs": ALL4,
        "tests": {
            "TestC06Smoke": T(3000, 30000, kind="diff"),
        },
    }],
}
