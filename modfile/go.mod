module github.com/oasisprotocol/curve25519-voi

go 1.23

toolchain go1.23.5

require (
	github.com/anishathalye/porcupine v1.3.0
	golang.org/x/crypto v0.0.0-20220321153916-2c7772ba3064
	golang.org/x/sys v0.0.0-20220325203850-36772127a21f
	pgregory.net/rapid v1.3.0
	verifh v0.0.0
	verifref v0.0.0
)

replace verifref => /verif/ref

replace verifh => /verif/hlib
