// Package zzct is the trace sink of the C08 source-level instrumentation.
// It exists only in the instrumented scratch copy of the repository.
package zzct

import "reflect"

// Event kinds folded into the trace: block id, short-circuit operand id,
// (index id, value), (vartime compare id, position of first difference).
type Event struct {
	ID  uint32
	Val int64
	Has bool
}

var (
	on      bool
	h1, h2  uint64
	n       uint64
	record  bool
	events  []Event
	maxKeep = 4000000
)

func mix(id uint32, v uint64) {
	n++
	h1 = (h1 ^ uint64(id) ^ (v << 32) ^ (v >> 32)) * 0x100000001b3
	h2 = (h2+uint64(id)+0x9e3779b97f4a7c15)*0xff51afd7ed558ccd ^ (h2 >> 29) ^ v*0xc4ceb9fe1a85ec53
}

// B marks the start of a basic block.
func B(id uint32) {
	if !on {
		return
	}
	mix(id, 0)
	if record && len(events) < maxKeep {
		events = append(events, Event{ID: id})
	}
}

// E marks the evaluation of the right operand of && or ||.
func E(id uint32, b bool) bool {
	if on {
		mix(id, 0)
		if record && len(events) < maxKeep {
			events = append(events, Event{ID: id})
		}
	}
	return b
}

// I reports an index / slice bound value.
func I[T any](id uint32, v T) T {
	if on {
		var iv int64
		ok := true
		switch x := any(v).(type) {
		case int:
			iv = int64(x)
		case int8:
			iv = int64(x)
		case int16:
			iv = int64(x)
		case int32:
			iv = int64(x)
		case int64:
			iv = x
		case uint:
			iv = int64(x)
		case uint8:
			iv = int64(x)
		case uint16:
			iv = int64(x)
		case uint32:
			iv = int64(x)
		case uint64:
			iv = int64(x)
		case uintptr:
			iv = int64(x)
		default:
			// a DEFINED integer type (type flags uint8, type digit int8, ...) does not
			// match the predeclared types above but indexes memory all the same
			switch rv := reflect.ValueOf(v); rv.Kind() {
			case reflect.Int, reflect.Int8, reflect.Int16, reflect.Int32, reflect.Int64:
				iv = rv.Int()
			case reflect.Uint, reflect.Uint8, reflect.Uint16, reflect.Uint32, reflect.Uint64, reflect.Uintptr:
				iv = int64(rv.Uint())
			default:
				ok = false // map key of non-integer type: not a memory index
			}
		}
		if ok {
			mix(id, uint64(iv)+1)
			if record && len(events) < maxKeep {
				events = append(events, Event{ID: id, Val: iv, Has: true})
			}
		}
	}
	return v
}

// V2 models the leak of a variable-time byte comparison: its running time
// depends on the position of the first differing byte.
func V2(id uint32, a, b []byte) ([]byte, []byte) {
	if on {
		k := 0
		for k < len(a) && k < len(b) && a[k] == b[k] {
			k++
		}
		mix(id, uint64(k)+1)
		if record && len(events) < maxKeep {
			events = append(events, Event{ID: id, Val: int64(k), Has: true})
		}
	}
	return a, b
}

// Start begins a trace; rec=true also keeps the event list.
func Start(rec bool) {
	h1, h2, n = 0xcbf29ce484222325, 0x84222325cbf29ce4, 0
	record = rec
	events = events[:0]
	on = true
}

// Stop ends the trace and returns its digest and length.
func Stop() (uint64, uint64, uint64) {
	on = false
	return h1, h2, n
}

// Events returns a copy of the recorded events of the last trace.
func Events() []Event { return append([]Event(nil), events...) }
