// Package zzcth is the two-run (non-interference) test framework of C08.  It
// lives only in the instrumented scratch copy.
package zzcth

import (
	"encoding/json"
	"fmt"
	"os"
	"path/filepath"
	"sort"
	"strings"
	"sync"
	"testing"

	"github.com/oasisprotocol/curve25519-voi/internal/zzct"
	"pgregory.net/rapid"
	h "verifh"
)

// Op prepares one operation from its public parameters and one secret, and
// returns the closure whose execution is traced.  Preparation (untraced) may
// only do things that are allowed to depend on the secret in variable time
// by documentation (there are none today) or that are public.
type Op struct {
	SecretLen int
	PubLen    int
	Prep      func(pub, sec []byte) func()
	// Fix optionally normalises a drawn secret into the operation's domain
	// (e.g. clear bit 255, make non-zero).
	Fix func(sec []byte)
	// Pair optionally draws a STRUCTURED pair of secrets for operations whose
	// interesting secrets are not byte patterns (values at the edge of the
	// canonical range, two keys that agree in one half and differ in the
	// other, ...).  Used for two thirds of the cases of such an operation; the
	// generic byte-pattern pairs (+Fix) make up the rest.
	Pair func(t *rapid.T) (s1, s2 []byte, label string)
}

type Case struct {
	Op   string `json:"op"`
	Pub  h.Hex  `json:"pub"`
	S1   h.Hex  `json:"s1"`
	S2   h.Hex  `json:"s2"`
	Pair string `json:"pair"`
}

type probe struct {
	ID   int    `json:"id"`
	Kind string `json:"kind"`
	Pos  string `json:"pos"`
	Func string `json:"func"`
}

var (
	probesOnce sync.Once
	probes     map[uint32]probe
)

func probeInfo(id uint32) string {
	probesOnce.Do(func() {
		probes = map[uint32]probe{}
		root := os.Getenv("VERIF_CT_ROOT")
		b, err := os.ReadFile(filepath.Join(root, "zzct_ids.json"))
		if err != nil {
			return
		}
		var ps []probe
		if json.Unmarshal(b, &ps) == nil {
			for _, p := range ps {
				probes[uint32(p.ID)] = p
			}
		}
	})
	if p, ok := probes[id]; ok {
		return fmt.Sprintf("%s %s in %s", p.Kind, p.Pos, p.Func)
	}
	return fmt.Sprintf("probe#%d", id)
}

func secretPair(t *rapid.T, n int) ([]byte, []byte, string) {
	fill := func(b byte) []byte {
		o := make([]byte, n)
		for i := range o {
			o[i] = b
		}
		return o
	}
	k := rapid.IntRange(0, 11).Draw(t, "pair")
	switch k {
	case 0:
		return fill(0), h.UniformBytes(t, n, "s2"), "zero/uniform"
	case 1:
		return fill(0), fill(0xff), "zero/ones"
	case 2:
		return fill(0x88), fill(0x77), "0x88/0x77" // radix-16 digits all -8 vs all 7
	case 3:
		return fill(0x08), fill(0xf8), "0x08/0xf8"
	case 4:
		a := fill(0)
		a[0] = 1
		return a, fill(0xff), "one/ones"
	case 5:
		a := h.UniformBytes(t, n, "s1")
		b := append([]byte(nil), a...)
		bit := rapid.IntRange(0, 8*n-1).Draw(t, "bit")
		b[bit/8] ^= 1 << uint(bit%8)
		return a, b, "one-bit"
	case 6:
		a := h.UniformBytes(t, n, "s1")
		b := append([]byte(nil), a...)
		// differ only in the last byte (top bits / sign / clamping region)
		b[n-1] ^= byte(rapid.IntRange(1, 255).Draw(t, "x"))
		return a, b, "top-byte"
	case 7:
		a := h.UniformBytes(t, n, "s1")
		b := append([]byte(nil), a...)
		b[0] ^= byte(rapid.IntRange(1, 255).Draw(t, "x"))
		return a, b, "low-byte"
	case 8:
		return fill(0), fill(0x01), "zero/0x01.."
	case 9:
		return h.UniformBytes(t, n, "s1"), fill(0xff), "uniform/ones"
	default:
		return h.UniformBytes(t, n, "s1"), h.UniformBytes(t, n, "s2"), "uniform/uniform"
	}
}

// Gen draws an operation, public parameters and two secrets.
func Gen(ops map[string]Op) func(*rapid.T) Case {
	names := make([]string, 0, len(ops))
	for k := range ops {
		names = append(names, k)
	}
	sort.Strings(names)
	return func(t *rapid.T) Case {
		name := rapid.SampledFrom(names).Draw(t, "op")
		op := ops[name]
		var pub []byte
		switch rapid.IntRange(0, 3).Draw(t, "pubkind") {
		case 0:
			pub = make([]byte, op.PubLen)
		default:
			pub = h.UniformBytes(t, op.PubLen, "pub")
		}
		var (
			s1, s2 []byte
			pair   string
		)
		if op.Pair != nil && rapid.IntRange(0, 2).Draw(t, "structured") != 0 {
			s1, s2, pair = op.Pair(t)
			pair = "structured:" + pair
			if len(s1) != op.SecretLen || len(s2) != op.SecretLen {
				panic("zzcth: Pair returned a secret of the wrong length for " + name)
			}
		} else {
			s1, s2, pair = secretPair(t, op.SecretLen)
		}
		if rapid.Bool().Draw(t, "swap") {
			s1, s2 = s2, s1
		}
		if op.Fix != nil && !strings.HasPrefix(pair, "structured:") {
			// structured pairs are already in the domain (Fix would flatten their edge values)
			op.Fix(s1)
			op.Fix(s2)
		}
		return Case{Op: name, Pub: pub, S1: s1, S2: s2, Pair: pair}
	}
}

type digest struct{ a, b, n uint64 }

func runTrace(op Op, pub, sec []byte, rec bool) (d digest, ev []zzct.Event, panicked interface{}) {
	f := op.Prep(append([]byte(nil), pub...), append([]byte(nil), sec...))
	func() {
		defer func() {
			if r := recover(); r != nil {
				panicked = r
			}
			d.a, d.b, d.n = zzct.Stop()
		}()
		zzct.Start(rec)
		f()
	}()
	if rec {
		ev = zzct.Events()
	}
	return
}

// Check is the property: both secrets drive the code through the same trace.
func Check(ops map[string]Op) func(Case) h.Result {
	return func(c Case) h.Result {
		r := h.NewR().Class("op:"+c.Op, "pair:"+c.Pair)
		op, ok := ops[c.Op]
		if !ok {
			return r.Fail("harness:unknown-op", "%s", c.Op).Result()
		}
		diff := 0
		for i := range c.S1 {
			x := c.S1[i] ^ c.S2[i]
			for ; x != 0; x &= x - 1 {
				diff++
			}
		}
		r.NT(diff >= 1)
		r.Eval(1)
		// warm-up run so that lazily initialised package state (sync.Once
		// tables etc.) does not show up as a difference between run 1 and 2
		runTrace(op, c.Pub, c.S1, false)
		d1, _, p1 := runTrace(op, c.Pub, c.S1, false)
		d2, _, p2 := runTrace(op, c.Pub, c.S2, false)
		if p1 != nil || p2 != nil {
			return r.Fail("ct:"+c.Op+":panic", "panic during traced operation: %v / %v", p1, p2).Result()
		}
		if d1.n == 0 {
			return r.Fail("harness:empty-trace", "operation %s produced no trace events (instrumentation missing?)", c.Op).Result()
		}
		if d1 == d2 {
			return r.Result()
		}
		// locate the first divergence
		_, e1, _ := runTrace(op, c.Pub, c.S1, true)
		_, e2, _ := runTrace(op, c.Pub, c.S2, true)
		i := 0
		for i < len(e1) && i < len(e2) && e1[i] == e2[i] {
			i++
		}
		where, what := "end of trace", ""
		if i < len(e1) && i < len(e2) {
			if e1[i].ID == e2[i].ID {
				where = probeInfo(e1[i].ID)
				what = fmt.Sprintf("same probe, different value: %d vs %d (secret-dependent index or compare position)", e1[i].Val, e2[i].Val)
			} else {
				what = fmt.Sprintf("control flow diverges: run1 -> %s ; run2 -> %s", probeInfo(e1[i].ID), probeInfo(e2[i].ID))
				if i > 0 {
					where = "after " + probeInfo(e1[i-1].ID)
				}
			}
		} else {
			what = fmt.Sprintf("trace lengths differ: %d vs %d events", len(e1), len(e2))
			if i > 0 {
				where = "after " + probeInfo(e1[i-1].ID)
			}
		}
		sigWhere := "diverge"
		if i < len(e1) {
			if p, ok := probes[e1[i].ID]; ok {
				sigWhere = p.Func
			}
		}
		return r.Fail("ct:"+c.Op+":secret-dependent-trace@"+sigWhere, "event #%d, %s: %s (trace lengths %d / %d)", i, where, what, d1.n, d2.n).Result()
	}
}

// Run is the test entry point.
func Run(t *testing.T, ops map[string]Op) {
	h.Run(t, Gen(ops), Check(ops))
}
