//go:build verif

package zzcttest

// C08 layer 1: source-level two-run trace equality for the operations that
// are documented / required to be constant time.  Runs only in the
// instrumented scratch copy (see tools/ctinstr).

import (
	"crypto"
	"crypto/sha512"
	"math/big"
	"testing"

	"github.com/oasisprotocol/curve25519-voi/curve"
	"github.com/oasisprotocol/curve25519-voi/curve/scalar"
	"github.com/oasisprotocol/curve25519-voi/internal/field"
	"github.com/oasisprotocol/curve25519-voi/internal/subtle"
	"github.com/oasisprotocol/curve25519-voi/internal/zzcth"
	"github.com/oasisprotocol/curve25519-voi/primitives/ed25519"
	"github.com/oasisprotocol/curve25519-voi/primitives/ed25519/extra/ecvrf"
	"github.com/oasisprotocol/curve25519-voi/primitives/sr25519"
	"github.com/oasisprotocol/curve25519-voi/primitives/x25519"
	"golang.org/x/crypto/sha3"
	"pgregory.net/rapid"
	h "verifh"
)

type c08Reader struct {
	b   []byte
	pos int
}

func (r *c08Reader) Read(p []byte) (int, error) {
	for i := range p {
		p[i] = r.b[r.pos%len(r.b)]
		r.pos++
	}
	return len(p), nil
}

func c08sc(b []byte) *scalar.Scalar {
	s, err := scalar.NewFromBits(b[:32])
	if err != nil {
		panic(err)
	}
	return s
}

func c08point(seed []byte) *curve.EdwardsPoint {
	// public point: [H(seed)]B (+ nothing); computed outside the trace
	d := sha512.Sum512(seed)
	s, _ := scalar.NewFromBytesModOrderWide(d[:])
	return curve.NewEdwardsPoint().MulBasepoint(curve.ED25519_BASEPOINT_TABLE, s)
}

func c08rpoint(seed []byte) *curve.RistrettoPoint {
	d := sha512.Sum512(seed)
	p, _ := curve.NewRistrettoPoint().SetUniformBytes(d[:])
	return p
}

func c08fe(b []byte) *field.Element {
	var e field.Element
	if _, err := e.SetBytes(b[:32]); err != nil {
		panic(err)
	}
	return &e
}

func c08nonzero(b []byte) {
	// keep a secret scalar/element non-zero mod L / p without making the two
	// secrets equal: force bit 1 of byte 1 (value >= 512 < L)
	b[1] |= 2
	b[31] &= 0x0f
}

var c08sink int

func boolInt(b bool) int {
	if b {
		return 1
	}
	return 0
}

var c08L = new(big.Int).Add(new(big.Int).Lsh(big.NewInt(1), 252), c08mustBig("27742317777372353535851937790883648493"))

func c08rev(b []byte) []byte {
	o := make([]byte, len(b))
	for i := range b {
		o[len(b)-1-i] = b[i]
	}
	return o
}

func c08mustBig(dec string) *big.Int {
	v, ok := new(big.Int).SetString(dec, 10)
	if !ok {
		panic("c08: bad integer literal")
	}
	return v
}

func c08ops() map[string]zzcth.Op {
	ops := map[string]zzcth.Op{}

	// ---------------------------------------------------------------- Ed25519
	ops["ed25519.NewKeyFromSeed"] = zzcth.Op{SecretLen: 32, PubLen: 0, Prep: func(pub, sec []byte) func() {
		return func() { _ = ed25519.NewKeyFromSeed(sec) }
	}}
	signOp := func(mk func(pub []byte) (*ed25519.Options, []byte), hedged, split bool) zzcth.Op {
		sl := 32
		if hedged {
			sl = 64
		}
		return zzcth.Op{SecretLen: sl, PubLen: 200, Prep: func(pub, sec []byte) func() {
			opts, msg := mk(pub)
			rd := &c08Reader{b: []byte{1, 2, 3}}
			if hedged {
				opts.AddedRandomness = true
				rd = &c08Reader{b: sec[32:]}
			}
			return func() {
				var priv ed25519.PrivateKey
				if split {
					// seed is secret; the public half is a fixed (public) value
					priv = append(append(ed25519.PrivateKey{}, sec[:32]...), pub[:32]...)
				} else {
					priv = ed25519.NewKeyFromSeed(sec[:32])
				}
				if _, err := priv.Sign(rd, msg, opts); err != nil {
					panic(err)
				}
			}
		}}
	}
	pure := func(pub []byte) (*ed25519.Options, []byte) { return &ed25519.Options{}, pub[32 : 32+int(pub[0])%160] }
	ctx := func(pub []byte) (*ed25519.Options, []byte) {
		return &ed25519.Options{Context: string(pub[1 : 2+int(pub[1])%30])}, pub[32 : 32+int(pub[0])%160]
	}
	ph := func(pub []byte) (*ed25519.Options, []byte) {
		return &ed25519.Options{Hash: crypto.SHA512, Context: string(pub[1 : 1+int(pub[1])%30])}, pub[32:96]
	}
	ops["ed25519.Sign/pure"] = signOp(pure, false, false)
	ops["ed25519.Sign/ctx"] = signOp(ctx, false, false)
	ops["ed25519.Sign/ph"] = signOp(ph, false, false)
	ops["ed25519.Sign/pure/hedged"] = signOp(pure, true, false)
	ops["ed25519.Sign/ctx/hedged"] = signOp(ctx, true, false)
	ops["ed25519.Sign/pure/fixed-public-half"] = signOp(pure, false, true)
	ops["ed25519.Sign/ph/hedged"] = signOp(ph, true, false)
	ops["ed25519.PrivateKey.Equal"] = zzcth.Op{SecretLen: 64, PubLen: 64, Prep: func(pub, sec []byte) func() {
		return func() {
			if ed25519.PrivateKey(sec).Equal(ed25519.PrivateKey(pub)) {
				c08sink++
			}
		}
	}}

	// ---------------------------------------------------------------- sr25519
	srOp := func(expand func(*sr25519.MiniSecretKey) *sr25519.SecretKey, kind int) zzcth.Op {
		return zzcth.Op{SecretLen: 64, PubLen: 200, Prep: func(pub, sec []byte) func() {
			sc := sr25519.NewSigningContext(pub[1 : 1+int(pub[0])%20])
			msg := pub[32 : 32+int(pub[1])%160]
			return func() {
				msk, err := sr25519.NewMiniSecretKeyFromBytes(sec[:32])
				if err != nil {
					panic(err)
				}
				sk := expand(msk)
				kp := sk.KeyPair()
				var st *sr25519.SigningTranscript
				switch kind {
				case 0:
					st = sc.NewTranscriptBytes(msg)
				case 2:
					xof := sha3.NewShake256()
					_, _ = xof.Write(msg)
					st = sc.NewTranscriptXOF(xof)
				default:
					hh := sha512.New()
					hh.Write(msg)
					st = sc.NewTranscriptHash(hh)
				}
				if _, err := kp.Sign(&c08Reader{b: sec[32:]}, st); err != nil {
					panic(err)
				}
			}
		}}
	}
	ops["sr25519.ExpandUniform+Sign/bytes"] = srOp((*sr25519.MiniSecretKey).ExpandUniform, 0)
	ops["sr25519.ExpandEd25519+Sign/bytes"] = srOp((*sr25519.MiniSecretKey).ExpandEd25519, 0)
	ops["sr25519.ExpandUniform+Sign/hash"] = srOp((*sr25519.MiniSecretKey).ExpandUniform, 1)
	ops["sr25519.ExpandUniform+Sign/xof"] = srOp((*sr25519.MiniSecretKey).ExpandUniform, 2)
	ops["sr25519.SecretKey.PublicKey"] = zzcth.Op{SecretLen: 32, PubLen: 0, Prep: func(pub, sec []byte) func() {
		return func() {
			msk, _ := sr25519.NewMiniSecretKeyFromBytes(sec)
			_ = msk.ExpandUniform().PublicKey()
		}
	}}

	// ------------------------------------------------------------------ ECVRF
	vrfOp := func(v10, hedged, split bool) zzcth.Op {
		return zzcth.Op{SecretLen: 64, PubLen: 200, Prep: func(pub, sec []byte) func() {
			alpha := pub[32 : 32+int(pub[0])%160]
			fixedPub := ed25519.NewKeyFromSeed(pub[:32])[32:]
			return func() {
				var priv ed25519.PrivateKey
				if split {
					// secret seed, fixed public half: the hash-to-curve input (public
					// key and alpha) is then identical in both runs, isolating the
					// secret scalar x and the nonce k.
					priv = append(append(ed25519.PrivateKey{}, sec[:32]...), fixedPub...)
				} else {
					priv = ed25519.NewKeyFromSeed(sec[:32])
				}
				switch {
				case hedged && v10:
					if _, err := ecvrf.ProveWithAddedRandomness_v10(&c08Reader{b: sec[32:]}, priv, alpha); err != nil {
						panic(err)
					}
				case hedged:
					if _, err := ecvrf.ProveWithAddedRandomness(&c08Reader{b: sec[32:]}, priv, alpha); err != nil {
						panic(err)
					}
				case v10:
					_ = ecvrf.Prove_v10(priv, alpha)
				default:
					_ = ecvrf.Prove(priv, alpha)
				}
			}
		}}
	}
	ops["ecvrf.Prove/fixed-public-half"] = vrfOp(false, false, true)
	ops["ecvrf.Prove_v10/fixed-public-half"] = vrfOp(true, false, true)
	ops["ecvrf.ProveWithAddedRandomness/fixed-public-half"] = vrfOp(false, true, true)
	ops["ecvrf.Prove"] = vrfOp(false, false, false)

	// ----------------------------------------------------------------- X25519
	ops["x25519.ScalarMult"] = zzcth.Op{SecretLen: 32, PubLen: 32, Prep: func(pub, sec []byte) func() {
		return func() {
			var dst, in, base [32]byte
			copy(in[:], sec)
			copy(base[:], pub)
			x25519.ScalarMult(&dst, &in, &base)
		}
	}}
	ops["x25519.ScalarBaseMult"] = zzcth.Op{SecretLen: 32, PubLen: 0, Prep: func(pub, sec []byte) func() {
		return func() {
			var dst, in [32]byte
			copy(in[:], sec)
			x25519.ScalarBaseMult(&dst, &in)
		}
	}}
	ops["x25519.X25519"] = zzcth.Op{SecretLen: 32, PubLen: 32, Prep: func(pub, sec []byte) func() {
		// public point: a valid public key (never low order), so the error path
		// (which depends on the public input only) is not taken
		var pk, in [32]byte
		copy(in[:], pub)
		in[0] |= 8
		x25519.ScalarBaseMult(&pk, &in)
		return func() {
			if _, err := x25519.X25519(sec, pk[:]); err != nil {
				panic(err)
			}
		}
	}}
	ops["x25519.X25519/basepoint"] = zzcth.Op{SecretLen: 32, PubLen: 0, Prep: func(pub, sec []byte) func() {
		return func() {
			if _, err := x25519.X25519(sec, x25519.Basepoint); err != nil {
				panic(err)
			}
		}
	}}
	ops["x25519.EdPrivateKeyToX25519"] = zzcth.Op{SecretLen: 32, PubLen: 32, Prep: func(pub, sec []byte) func() {
		priv := append(append(ed25519.PrivateKey{}, sec...), pub...)
		return func() { _ = x25519.EdPrivateKeyToX25519(priv) }
	}}
	ops["curve.MontgomeryPoint.Mul"] = zzcth.Op{SecretLen: 32, PubLen: 32, Fix: func(s []byte) { s[31] &= 0x7f }, Prep: func(pub, sec []byte) func() {
		var u curve.MontgomeryPoint
		u.SetBytes(pub)
		s := c08sc(sec)
		return func() { curve.NewMontgomeryPoint().Mul(&u, s) }
	}}

	// ------------------------------------------------------ point arithmetic
	fix255 := func(s []byte) {
		for i := 31; i < len(s); i += 32 {
			s[i] &= 0x7f
		}
	}
	ops["curve.EdwardsPoint.Mul"] = zzcth.Op{SecretLen: 32, PubLen: 16, Fix: fix255, Prep: func(pub, sec []byte) func() {
		p, s := c08point(pub), c08sc(sec)
		return func() { curve.NewEdwardsPoint().Mul(p, s) }
	}}
	ops["curve.EdwardsPoint.MulBasepoint"] = zzcth.Op{SecretLen: 32, PubLen: 0, Fix: fix255, Prep: func(pub, sec []byte) func() {
		s := c08sc(sec)
		return func() { curve.NewEdwardsPoint().MulBasepoint(curve.ED25519_BASEPOINT_TABLE, s) }
	}}
	ops["curve.EdwardsPoint.MulBasepoint/custom-table"] = zzcth.Op{SecretLen: 32, PubLen: 16, Fix: fix255, Prep: func(pub, sec []byte) func() {
		tbl, s := curve.NewEdwardsBasepointTable(c08point(pub)), c08sc(sec)
		return func() { curve.NewEdwardsPoint().MulBasepoint(tbl, s) }
	}}
	ops["curve.EdwardsPoint.MultiscalarMul/3"] = zzcth.Op{SecretLen: 96, PubLen: 16, Fix: fix255, Prep: func(pub, sec []byte) func() {
		ps := []*curve.EdwardsPoint{c08point(pub), c08point(pub[1:]), c08point(pub[2:])}
		ss := []*scalar.Scalar{c08sc(sec), c08sc(sec[32:]), c08sc(sec[64:])}
		return func() { curve.NewEdwardsPoint().MultiscalarMul(ss, ps) }
	}}
	ops["curve.RistrettoPoint.Mul"] = zzcth.Op{SecretLen: 32, PubLen: 16, Fix: fix255, Prep: func(pub, sec []byte) func() {
		p, s := c08rpoint(pub), c08sc(sec)
		return func() { curve.NewRistrettoPoint().Mul(p, s) }
	}}
	ops["curve.RistrettoPoint.MulBasepoint"] = zzcth.Op{SecretLen: 32, PubLen: 0, Fix: fix255, Prep: func(pub, sec []byte) func() {
		s := c08sc(sec)
		return func() { curve.NewRistrettoPoint().MulBasepoint(curve.RISTRETTO_BASEPOINT_TABLE, s) }
	}}
	ops["curve.RistrettoPoint.MultiscalarMul/2"] = zzcth.Op{SecretLen: 64, PubLen: 16, Fix: fix255, Prep: func(pub, sec []byte) func() {
		ps := []*curve.RistrettoPoint{c08rpoint(pub), c08rpoint(pub[1:])}
		ss := []*scalar.Scalar{c08sc(sec), c08sc(sec[32:])}
		return func() { curve.NewRistrettoPoint().MultiscalarMul(ss, ps) }
	}}
	// secret points: [s]B computed in the trace, then compared / compressed / converted
	ops["curve.point-equality+compression(secret points)"] = zzcth.Op{SecretLen: 64, PubLen: 16, Fix: fix255, Prep: func(pub, sec []byte) func() {
		q := c08point(pub)
		return func() {
			a := curve.NewEdwardsPoint().MulBasepoint(curve.ED25519_BASEPOINT_TABLE, c08sc(sec))
			b := curve.NewEdwardsPoint().MulBasepoint(curve.ED25519_BASEPOINT_TABLE, c08sc(sec[32:]))
			c08sink += a.Equal(b) + a.Equal(q)
			var ca, cb curve.CompressedEdwardsY
			ca.SetEdwardsPoint(a)
			cb.SetEdwardsPoint(b)
			c08sink += ca.Equal(&cb)
			var m curve.MontgomeryPoint
			m.SetEdwards(a)
			var m2 curve.MontgomeryPoint
			m2.SetEdwards(b)
			c08sink += m.Equal(&m2)
			var sel curve.EdwardsPoint
			sel.ConditionalSelect(a, b, int(sec[0]&1))
			sum := curve.NewEdwardsPoint().Add(a, b)
			sum.Sub(sum, q)
			sum.Neg(sum)
			sum.MulByCofactor(sum)
		}
	}}
	ops["curve.ristretto-equality+compression(secret points)"] = zzcth.Op{SecretLen: 64, PubLen: 0, Fix: fix255, Prep: func(pub, sec []byte) func() {
		return func() {
			a := curve.NewRistrettoPoint().MulBasepoint(curve.RISTRETTO_BASEPOINT_TABLE, c08sc(sec))
			b := curve.NewRistrettoPoint().MulBasepoint(curve.RISTRETTO_BASEPOINT_TABLE, c08sc(sec[32:]))
			c08sink += a.Equal(b)
			var ca, cb curve.CompressedRistretto
			ca.SetRistrettoPoint(a)
			cb.SetRistrettoPoint(b)
			c08sink += ca.Equal(&cb)
			var sel curve.RistrettoPoint
			sel.ConditionalSelect(a, b, int(sec[0]&1))
			curve.NewRistrettoPoint().Add(a, b)
			d := curve.NewRistrettoPoint().Sub(a, b)
			d.Neg(d)
			curve.NewRistrettoPoint().Sum([]*curve.RistrettoPoint{a, b, d})
			c08sink += boolInt(d.IsIdentity())
		}
	}}
	ops["curve.EdwardsPoint.Sum+IsIdentity(secret points)"] = zzcth.Op{SecretLen: 64, PubLen: 16, Fix: fix255, Prep: func(pub, sec []byte) func() {
		q := c08point(pub)
		return func() {
			a := curve.NewEdwardsPoint().MulBasepoint(curve.ED25519_BASEPOINT_TABLE, c08sc(sec))
			b := curve.NewEdwardsPoint().MulBasepoint(curve.ED25519_BASEPOINT_TABLE, c08sc(sec[32:]))
			sum := curve.NewEdwardsPoint().Sum([]*curve.EdwardsPoint{a, b, q})
			c08sink += boolInt(sum.IsIdentity())
		}
	}}
	ops["curve.RistrettoPoint.SetRandom(secret stream)"] = zzcth.Op{SecretLen: 64, PubLen: 0, Prep: func(pub, sec []byte) func() {
		return func() {
			if _, err := curve.NewRistrettoPoint().SetRandom(&c08Reader{b: sec}); err != nil {
				panic(err)
			}
		}
	}}
	ops["curve.RistrettoPoint.SetUniformBytes(secret)"] = zzcth.Op{SecretLen: 64, PubLen: 0, Prep: func(pub, sec []byte) func() {
		return func() {
			if _, err := curve.NewRistrettoPoint().SetUniformBytes(sec); err != nil {
				panic(err)
			}
		}
	}}

	// ------------------------------------------------------ scalar arithmetic
	ops["scalar.arithmetic"] = zzcth.Op{SecretLen: 64, PubLen: 32, Fix: fix255, Prep: func(pub, sec []byte) func() {
		pubS := c08sc(pub[:32])
		return func() {
			a, b := c08sc(sec), c08sc(sec[32:])
			r := scalar.New()
			r.Add(a, b)
			r.Sub(a, b)
			r.Mul(a, b)
			r.Neg(a)
			r.Reduce(a)
			r.Mul(a, pubS)
			c08sink += a.Equal(b)
			r.ConditionalSelect(a, b, int(sec[0]&1))
			r.Product([]*scalar.Scalar{a, b, pubS})
			r.Sum([]*scalar.Scalar{a, b, pubS})
			var out [32]byte
			_ = a.ToBytes(out[:])
			_ = a.Bits()
			_ = a.ToRadix16()
			if _, err := r.SetBytesModOrder(sec[:32]); err != nil {
				panic(err)
			}
			if _, err := r.SetBytesModOrderWide(sec); err != nil {
				panic(err)
			}
			if _, err := r.SetRandom(&c08Reader{b: sec}); err != nil {
				panic(err)
			}
		}
	}}
	ops["scalar.Invert+BatchInvert"] = zzcth.Op{SecretLen: 96, PubLen: 0, Fix: func(s []byte) {
		for i := 0; i < len(s); i += 32 {
			c08nonzero(s[i : i+32])
		}
	}, Prep: func(pub, sec []byte) func() {
		return func() {
			a, b, c := c08sc(sec), c08sc(sec[32:]), c08sc(sec[64:])
			scalar.New().Invert(a)
			scalar.New().BatchInvert([]*scalar.Scalar{a, b, c})
		}
	}}

	// ------------------------------------------------------- field arithmetic
	ops["field.arithmetic"] = zzcth.Op{SecretLen: 64, PubLen: 32, Prep: func(pub, sec []byte) func() {
		pe := c08fe(pub)
		return func() {
			a, b := c08fe(sec), c08fe(sec[32:])
			var r field.Element
			r.Add(a, b)
			r.Sub(a, b)
			r.Mul(a, b)
			r.Mul(a, pe)
			r.Square(a)
			r.Square2(a)
			r.Pow2k(a, 5)
			r.Mul121666(a)
			r.Neg(a)
			r.Invert(a)
			r.SqrtRatioI(a, b)
			r.Set(a)
			r.InvSqrt()
			c08sink += a.Equal(b) + a.IsNegative() + a.IsZero()
			ch := int(sec[0] & 1)
			r.ConditionalSelect(a, b, ch)
			x, y := *a, *b
			x.ConditionalSwap(&y, ch)
			x.ConditionalAssign(&y, ch)
			x.ConditionalNegate(ch)
			var out [32]byte
			_ = a.ToBytes(out[:])
			if _, err := r.SetBytesWide(sec); err != nil {
				panic(err)
			}
			x, y, z := *a, *b, *pe
			field.BatchInvert([]*field.Element{&x, &y, &z})
			// the same predicates / encodings on LOOSE representations (outputs of
			// Add/Sub/Neg carry excess bits in their limbs depending on the values)
			var s1, s2, s3 field.Element
			s1.Add(a, b)
			s2.Add(&s1, &s1)
			s3.Sub(a, b)
			for _, e := range []*field.Element{&s1, &s2, &s3} {
				_ = e.ToBytes(out[:])
				c08sink += e.Equal(a) + e.IsNegative() + e.IsZero()
				w := *e
				w.ConditionalNegate(ch)
				r.Neg(e)
				r.Invert(e)
				r.SqrtRatioI(e, a)
			}
		}
	}}

	// -------------------------------------------- secret keys: load, store, compare
	//
	// Secret scalars at the edge of the canonical range [0, L): 2^252-1, 2^252,
	// L-1, ... all are valid keys, and a canonicity test that is fine for
	// PUBLIC input validation ("variable-time code is acceptable") must not
	// tell them apart when the input is a secret key.
	canon := func(t *rapid.T, label string) []byte {
		l := new(big.Int).Add(new(big.Int).Lsh(big.NewInt(1), 252), c08mustBig("27742317777372353535851937790883648493"))
		p252 := new(big.Int).Lsh(big.NewInt(1), 252)
		var v *big.Int
		switch rapid.IntRange(0, 9).Draw(t, label+"_k") {
		case 0:
			v = big.NewInt(0)
		case 1:
			v = big.NewInt(int64(rapid.IntRange(1, 300).Draw(t, label+"_small")))
		case 2:
			v = new(big.Int).Sub(p252, big.NewInt(int64(rapid.IntRange(1, 300).Draw(t, label+"_d"))))
		case 3:
			v = new(big.Int).Add(p252, big.NewInt(int64(rapid.IntRange(0, 300).Draw(t, label+"_d"))))
		case 4:
			v = new(big.Int).Sub(l, big.NewInt(int64(rapid.IntRange(1, 300).Draw(t, label+"_d"))))
		case 5: // between 2^252 and L, anywhere
			v = new(big.Int).Add(p252, new(big.Int).Mod(new(big.Int).SetBytes(h.UniformBytes(t, 20, label+"_u")), new(big.Int).Sub(l, p252)))
		default:
			v = new(big.Int).Mod(new(big.Int).SetBytes(h.UniformBytes(t, 40, label+"_u")), l)
		}
		be := v.FillBytes(make([]byte, 32))
		for i, j := 0, 31; i < j; i, j = i+1, j-1 {
			be[i], be[j] = be[j], be[i]
		}
		return be
	}
	ops["scalar.SetCanonicalBytes(secret)"] = zzcth.Op{SecretLen: 32, PubLen: 0, Fix: func(s []byte) { s[31] &= 0x0f },
		Pair: func(t *rapid.T) ([]byte, []byte, string) { return canon(t, "a"), canon(t, "b"), "canonical-edge" },
		Prep: func(pub, sec []byte) func() {
			return func() {
				s, err := scalar.NewFromCanonicalBytes(sec)
				if err != nil {
					panic(err)
				}
				if !s.IsCanonical() {
					panic("not canonical")
				}
				var u scalar.Scalar
				if err := u.UnmarshalBinary(sec); err != nil {
					panic(err)
				}
				if _, err := u.MarshalBinary(); err != nil {
					panic(err)
				}
			}
		}}
	ops["sr25519.SecretKey.load+store"] = zzcth.Op{SecretLen: 64, PubLen: 0, Fix: func(s []byte) { s[31] &= 0x0f },
		Pair: func(t *rapid.T) ([]byte, []byte, string) {
			return append(canon(t, "a"), h.UniformBytes(t, 32, "an")...), append(canon(t, "b"), h.UniformBytes(t, 32, "bn")...), "canonical-edge"
		},
		Prep: func(pub, sec []byte) func() {
			return func() {
				sk, err := sr25519.NewSecretKeyFromBytes(sec)
				if err != nil {
					panic(err)
				}
				if _, err := sk.MarshalBinary(); err != nil {
					panic(err)
				}
				var sk2 sr25519.SecretKey
				if err := sk2.UnmarshalBinary(sec); err != nil {
					panic(err)
				}
				kb, err := sk.KeyPair().MarshalBinary()
				if err != nil {
					panic(err)
				}
				if _, err := sr25519.NewKeyPairFromBytes(kb); err != nil {
					panic(err)
				}
			}
		}}
	// Two keys A and B (both secret): the comparison must do the same work
	// whether they agree entirely, in the scalar only, in the nonce only or
	// nowhere - and the two RUNS of a case differ in exactly that.
	keyPair := func(half int) func(t *rapid.T) ([]byte, []byte, string) {
		one := func(t *rapid.T, label string) ([]byte, string) {
			rel := rapid.SampledFrom([]string{"equal", "first-half-differs", "second-half-differs", "both-differ", "last-byte-differs", "first-byte-differs"}).Draw(t, label+"rel")
			if half == 0 {
				// 32-byte keys without structure: any bytes are valid
				a := h.UniformBytes(t, 32, label+"m")
				b := append([]byte(nil), a...)
				switch rel {
				case "first-half-differs":
					b[1] ^= 4
				case "second-half-differs":
					b[19] ^= 1
				case "both-differ":
					b[1] ^= 4
					b[19] ^= 1
				case "last-byte-differs":
					b[31] ^= 0x10
				case "first-byte-differs":
					b[0] ^= 1
				}
				return append(a, b...), rel
			}
			// scalar (canonical, possibly at the edge of the range) || nonce
			sa, na := canon(t, label+"s"), h.UniformBytes(t, half, label+"n")
			sb, nb := append([]byte(nil), sa...), append([]byte(nil), na...)
			other := func() []byte {
				o := canon(t, label+"s2")
				if string(o) == string(sa) { // keep "differs" true: 0 <-> 1
					o = make([]byte, 32)
					if sa[0] == 0 {
						o[0] = 1
					}
				}
				return o
			}
			switch rel {
			case "first-half-differs":
				sb = other()
			case "second-half-differs":
				nb[3] ^= 1
			case "both-differ":
				sb = other()
				nb[3] ^= 1
			case "last-byte-differs":
				nb[half-1] ^= 0x10
			case "first-byte-differs":
				sb = other()
				sb[1], sb[2] = sa[1], sa[2] // may or may not stay different/canonical: re-canonicalised below
				if new(big.Int).SetBytes(c08rev(sb)).Cmp(c08L) >= 0 || string(sb) == string(sa) {
					sb = other()
				}
			}
			return append(append(append(sa, na...), sb...), nb...), rel
		}
		return func(t *rapid.T) ([]byte, []byte, string) {
			x, rx := one(t, "x")
			y, ry := one(t, "y")
			return x, y, "keys:" + rx + "/" + ry
		}
	}
	ops["sr25519.SecretKey.Equal"] = zzcth.Op{SecretLen: 128, PubLen: 0, Fix: func(s []byte) { s[31] &= 0x0f; s[64+31] &= 0x0f }, Pair: keyPair(32),
		Prep: func(pub, sec []byte) func() {
			a, err1 := sr25519.NewSecretKeyFromBytes(sec[:64])
			b, err2 := sr25519.NewSecretKeyFromBytes(sec[64:])
			if err1 != nil || err2 != nil {
				panic("c08: key pair not canonical")
			}
			return func() {
				if a.Equal(b) {
					c08sink++
				}
			}
		}}
	ops["sr25519.MiniSecretKey.Equal"] = zzcth.Op{SecretLen: 64, PubLen: 0, Pair: keyPair(0),
		Prep: func(pub, sec []byte) func() {
			a, _ := sr25519.NewMiniSecretKeyFromBytes(sec[:32])
			b, _ := sr25519.NewMiniSecretKeyFromBytes(sec[32:])
			return func() {
				if a.Equal(b) {
					c08sink++
				}
			}
		}}
	ops["sr25519.NewSecretKeyFromEd25519Bytes"] = zzcth.Op{SecretLen: 64, PubLen: 0, Fix: func(s []byte) { s[0] &= 0xf8; s[31] = s[31]&0x3f | 0x40 },
		Prep: func(pub, sec []byte) func() {
			return func() {
				if _, err := sr25519.NewSecretKeyFromEd25519Bytes(sec); err != nil {
					panic(err)
				}
			}
		}}
	ops["ecvrf.ProveWithAddedRandomness_v10/fixed-public-half"] = vrfOp(true, true, true)

	// ---------------------------------------------------------------- subtle
	ops["subtle"] = zzcth.Op{SecretLen: 32, PubLen: 32, Prep: func(pub, sec []byte) func() {
		return func() {
			c08sink += subtle.ConstantTimeCompareBytes(sec, pub)
			c08sink += subtle.ConstantTimeCompareByte(sec[0], pub[0])
			ch := int(sec[1] & 1)
			c08sink += int(subtle.ConstantTimeSelectByte(ch, sec[2], sec[3]))
			c08sink += int(subtle.ConstantTimeSelectUint64(ch, uint64(sec[4]), uint64(sec[5])))
			c08sink += int(subtle.ConstantTimeSelectUint32(ch, uint32(sec[4]), uint32(sec[5])))
			a, b := uint64(sec[6]), uint64(sec[7])
			subtle.ConstantTimeSwapUint64(ch, &a, &b)
			c, d := uint32(sec[6]), uint32(sec[7])
			subtle.ConstantTimeSwapUint32(ch, &c, &d)
		}
	}}
	return ops
}

func TestC08SourceTrace(t *testing.T) { zzcth.Run(t, c08ops()) }

var _ = h.Expand
