package verifref

import (
	"bytes"
	"encoding/hex"
	"math/big"
	"os"
	"path/filepath"
	"regexp"
	"strings"
	"testing"
)

func c20dec(t *testing.T, s string) *big.Int {
	v, ok := new(big.Int).SetString(s, 10)
	if !ok {
		t.Fatalf("bad decimal %q", s)
	}
	return v
}

// The decimal values are the ones printed in RFC 9496 section 4.1; they are
// used ONLY here, to validate the computed constants (in particular the sign
// chosen for each square root).
func TestC20RFC9496Constants(t *testing.T) {
	for _, c := range []struct {
		name string
		got  *big.Int
		want string
	}{
		{"D", D, "37095705934669439343138083508754565189542113879843219016388785533085940283555"},
		{"SQRT_M1", SqrtM1, "19681161376707505956807079304988542015446066515923890162744021073123829784752"},
		{"SQRT_AD_MINUS_ONE", C20SqrtADMinusOne, "25063068953384623474111414158702152701244531502492656460079210482610430750235"},
		{"INVSQRT_A_MINUS_D", C20InvSqrtAMinusD, "54469307008909316920995813868745141605393597292927456921205312896311721017578"},
		{"ONE_MINUS_D_SQ", C20OneMinusDSq, "1159843021668779879193775521855586647937357759715417654439879720876111806838"},
		{"D_MINUS_ONE_SQ", C20DMinusOneSq, "40440834346308536858101042469323190826248399146238708352240133220865137265952"},
	} {
		if c.got.Cmp(c20dec(t, c.want)) != 0 {
			t.Errorf("%s: computed %v, RFC 9496 says %s", c.name, c.got, c.want)
		}
	}
	// definitions and sign conventions
	if FSqr(C20SqrtADMinusOne).Cmp(C20ADMinusOne) != 0 || !FIsNeg(C20SqrtADMinusOne) {
		t.Error("sqrt(ad-1): not the odd root of ad-1")
	}
	if FMul(FSqr(C20InvSqrtAMinusD), C20AMinusD).Cmp(big1) != 0 || FIsNeg(C20InvSqrtAMinusD) {
		t.Error("1/sqrt(a-d): not the even inverse root")
	}
	if FSqr(SqrtM1).Cmp(C20MinusOne) != 0 || FIsNeg(SqrtM1) {
		t.Error("sqrt(-1)")
	}
}

// RFC 9380 section 6.8.2: c1 = sqrt(-486664), sgn0(c1) MUST equal 0; value
// from appendix D.1 / the reference implementation.
func TestC20RFC9380Sqrt(t *testing.T) {
	want, _ := new(big.Int).SetString("0f26edf460a006bbd27b08dc03fc4f7ec5a1d3d14b7d1a82cc6e04aaff457e06", 16)
	if FSqr(C20SqrtNegAPlus2).Cmp(FNeg(big.NewInt(486664))) != 0 || FIsNeg(C20SqrtNegAPlus2) {
		t.Fatal("sqrt(-486664): wrong square or sign")
	}
	if C20SqrtNegAPlus2.Cmp(want) != 0 {
		t.Fatalf("sqrt(-486664) = %x, RFC 9380 says %x", C20SqrtNegAPlus2, want)
	}
	if C20APlus2Over4.Int64() != 121666 || C20MontASq.Int64() != 486662*486662 {
		t.Fatal("Montgomery A constants")
	}
	if FAdd(C20MontA, C20MontNegA).Sign() != 0 {
		t.Fatal("-A")
	}
	if FAdd(C20UFactor, FMul(big2, SqrtM1)).Sign() != 0 || !FIsSquare(C20UFactor) {
		t.Fatal("u-factor must be -2*sqrt(-1) and a square")
	}
}

func c20repo() string {
	if r := os.Getenv("VERIF_REPO"); r != "" {
		return r
	}
	return "/repo"
}

var c20reHex = regexp.MustCompile(`"([0-9a-f ]{64,80})"`)

func c20unhex(t *testing.T, s string) []byte {
	b, err := hex.DecodeString(strings.ReplaceAll(s, " ", ""))
	if err != nil {
		t.Fatal(err)
	}
	return b
}

// RFC 9496 appendix A.1 (multiples of the generator) as shipped in the tree's
// ristretto_vectors_test.go: validates C20RistrettoEncode.
func TestC20RistrettoEncodeVectors(t *testing.T) {
	src, err := os.ReadFile(filepath.Join(c20repo(), "curve", "ristretto_vectors_test.go"))
	if err != nil {
		t.Fatal(err)
	}
	s := string(src)
	a := strings.Index(s, "func testRistrettoVectorsMultiplesOfGenerator")
	b := strings.Index(s, "func testRistrettoVectorsInvalidEncodings")
	if a < 0 || b < a {
		t.Fatal("cannot locate vectors")
	}
	m := c20reHex.FindAllStringSubmatch(s[a:b], -1)
	if len(m) != 16 {
		t.Fatalf("expected 16 generator multiples, found %d", len(m))
	}
	for i, mm := range m {
		want := c20unhex(t, mm[1])
		got := C20RistrettoEncode(MulBase(big.NewInt(int64(i))))
		if !bytes.Equal(got, want) {
			t.Fatalf("[%d]B: ENCODE = %x want %x", i, got, want)
		}
		// the encoding must not depend on the coset representative
		for _, j := range []int{2, 4, 6} {
			q := Add(MulBase(big.NewInt(int64(i))), Torsion8()[j])
			if !bytes.Equal(C20RistrettoEncode(q), want) {
				t.Fatalf("[%d]B + T[%d]: encoding differs", i, j)
			}
		}
	}
}

// RFC 9496 section 4.3.4 MAP, test-only, parametrised by the sqrt(ad-1) value
// so that the test can show that only the odd root reproduces the vectors.
func c20Map(tt, sqrtADm1 *big.Int) Point {
	r := FMul(SqrtM1, FSqr(tt))
	u := FMul(FAdd(r, big1), C20OneMinusDSq)
	v := FMul(FSub(C20MinusOne, FMul(r, D)), FAdd(r, D))
	wasSquare, s := SqrtRatioM1(u, v)
	sPrime := FNeg(FAbs(FMul(s, tt)))
	c := new(big.Int).Set(C20MinusOne)
	if !wasSquare {
		s = sPrime
		c = r
	}
	n := FSub(FMul(FMul(c, FSub(r, big1)), C20DMinusOneSq), v)
	w0 := FMul(FMul(big2, s), v)
	w1 := FMul(n, sqrtADm1)
	w2 := FSub(big1, FSqr(s))
	w3 := FAdd(big1, FSqr(s))
	// (w0*w3 : w2*w1 : w1*w3) -> affine
	zi := FInv(FMul(w1, w3))
	return Point{FMul(FMul(w0, w3), zi), FMul(FMul(w2, w1), zi)}
}

func TestC20RistrettoMapVectorsFixSqrtADMinusOneSign(t *testing.T) {
	src, err := os.ReadFile(filepath.Join(c20repo(), "curve", "ristretto_vectors_test.go"))
	if err != nil {
		t.Fatal(err)
	}
	s := string(src)
	a := strings.Index(s, "func testRistrettoVectorsUniformBytestrings")
	b := strings.Index(s, "pSame :=")
	if a < 0 || b < a {
		t.Fatal("cannot locate vectors")
	}
	m := c20reHex.FindAllStringSubmatch(s[a:b], -1)
	if len(m) != 21 {
		t.Fatalf("expected 7 (a, b, p) triples, found %d strings", len(m))
	}
	evenRoot := FNeg(C20SqrtADMinusOne)
	evenReproduces := 0
	for i := 0; i < len(m); i += 3 {
		av, bv, want := c20unhex(t, m[i][1]), c20unhex(t, m[i+1][1]), c20unhex(t, m[i+2][1])
		p := Add(c20Map(FDecode(av), C20SqrtADMinusOne), c20Map(FDecode(bv), C20SqrtADMinusOne))
		if !p.OnCurve() {
			t.Fatal("MAP output not on the curve")
		}
		if got := C20RistrettoEncode(p); !bytes.Equal(got, want) {
			t.Fatalf("vector %d: got %x want %x", i/3, got, want)
		}
		q := Add(c20Map(FDecode(av), evenRoot), c20Map(FDecode(bv), evenRoot))
		if bytes.Equal(C20RistrettoEncode(q), want) {
			evenReproduces++
		}
	}
	if evenReproduces == 7 {
		t.Fatal("the even root reproduces the vectors as well: the sign would be immaterial, contrary to DESIGN.md")
	}
}

func TestC20Radix(t *testing.T) {
	mask := func(w uint) *big.Int { return new(big.Int).Sub(new(big.Int).Lsh(big1, w), big1) }
	vals := []*big.Int{bi(0), bi(1), P, new(big.Int).Sub(P, big1), D, SqrtM1, L, mask(255), mask(256)}
	for _, v := range vals {
		// radix 2^51
		var l51 []uint64
		for k := 0; k < 5; k++ {
			x := new(big.Int).Rsh(v, uint(51*k))
			if k < 4 {
				x.And(x, mask(51))
			}
			l51 = append(l51, x.Uint64())
		}
		if C20Radix51(l51).Cmp(v) != 0 {
			t.Fatalf("radix51 %v", v)
		}
		// radix 25.5: limb widths 26,25,26,25,...
		var l25 []uint64
		pos := uint(0)
		for k := 0; k < 10; k++ {
			w := uint(26 - k&1)
			x := new(big.Int).Rsh(v, pos)
			if k < 9 {
				x.And(x, mask(w))
			}
			l25 = append(l25, x.Uint64())
			pos += w
		}
		if pos != 255 || C20Radix2625(l25).Cmp(v) != 0 {
			t.Fatalf("radix25.5 %v", v)
		}
		if v.BitLen() <= 255 && (!C20LimbsCanonical(l51) || !C20LimbsCanonical(l25)) {
			t.Fatal("canonical limbs reported non-canonical")
		}
		for _, w := range []uint{8, 29, 52, 64} {
			var lw []uint64
			for k := uint(0); k*w < 256; k++ {
				x := new(big.Int).Rsh(v, k*w)
				lw = append(lw, x.And(x, mask(w)).Uint64())
			}
			if C20RadixW(lw, w).Cmp(v) != 0 {
				t.Fatalf("radix 2^%d %v", w, v)
			}
		}
	}
	if C20LimbsCanonical([]uint64{1 << 51, 0, 0, 0, 0}) || C20LimbsCanonical([]uint64{0, 1 << 25, 0, 0, 0, 0, 0, 0, 0, 0}) {
		t.Fatal("non-canonical limbs reported canonical")
	}
	if !C20LimbsCanonical([]uint64{0, 0, 1 << 25, 0, 0, 0, 0, 0, 0, 0}) {
		t.Fatal("even limbs are 26 bits wide")
	}
}

// Table definitions against an independent path: repeated affine doubling and
// addition (textbook formulas with explicit inversions).
func TestC20TablePoints(t *testing.T) {
	pi := Base // [256^i]B
	for i := 0; i < 4; i++ {
		acc := Identity()
		for j := 0; j < 8; j++ {
			acc = AddAffine(acc, pi)
			if !C20BaseTablePoint(i, j).Equal(acc) {
				t.Fatalf("entry (%d,%d)", i, j)
			}
			if C20BaseTableScalar(i, j).Cmp(new(big.Int).Mul(bi(int64(j+1)), new(big.Int).Exp(bi(256), bi(int64(i)), nil))) != 0 {
				t.Fatal("table scalar")
			}
		}
		for k := 0; k < 8; k++ {
			pi = AddAffine(pi, pi)
		}
	}
	if !C20BaseTablePoint(31, 7).Equal(MulAffine(new(big.Int).Lsh(bi(8), 248), Base)) {
		t.Fatal("entry (31,7)")
	}
	sh := Base
	for k := 0; k < 128; k++ {
		sh = AddAffine(sh, sh)
	}
	if !C20BShl128().Equal(sh) {
		t.Fatal("[2^128]B")
	}
	for _, base := range []struct {
		shl bool
		p   Point
	}{{false, Base}, {true, sh}} {
		two := AddAffine(base.p, base.p)
		acc := base.p
		for j := 0; j < 64; j++ {
			if !C20OddMultiple(base.shl, j).Equal(acc) {
				t.Fatalf("odd multiple %d (shl=%v)", j, base.shl)
			}
			acc = AddAffine(acc, two)
		}
	}
	if !C20MulBaseShift(-3, 8).Equal(Neg(MulBase(bi(768)))) {
		t.Fatal("negative multiple")
	}
	yp, ym, t2d := C20AffineNiels(Base)
	if FSub(yp, ym).Cmp(FMul(big2, Base.X)) != 0 || FAdd(yp, ym).Cmp(FMul(big2, Base.Y)) != 0 ||
		t2d.Cmp(FMul(FMul(big2, D), FMul(Base.X, Base.Y))) != 0 {
		t.Fatal("affine Niels")
	}
}

func TestC20CachedDecode(t *testing.T) {
	k := big.NewInt(121666)
	for i, z := range []*big.Int{bi(1), bi(2), D, SqrtM1} {
		p := MulBase(bi(int64(7 + i)))
		X, Y, T := FMul(p.X, z), FMul(p.Y, z), FMul(FMul(p.X, p.Y), z)
		a := FMul(k, FSub(Y, X))
		b := FMul(k, FAdd(Y, X))
		c := FMul(FMul(big2, k), z)
		d := FNeg(FMul(big.NewInt(2*121665), T))
		q, zok, tok := C20CachedDecode(a, b, c, d)
		if !zok || !tok || !q.Equal(p) {
			t.Fatalf("cached decode %d", i)
		}
		if C20CachedZ(c).Cmp(FMod(z)) != 0 {
			t.Fatal("cached scale")
		}
		if _, _, tok := C20CachedDecode(a, b, c, FAdd(d, big1)); tok {
			t.Fatal("wrong T lane accepted")
		}
		// negation = swap A,B and negate D
		q, _, tok = C20CachedDecode(b, a, c, FNeg(d))
		if !tok || !q.Equal(Neg(p)) {
			t.Fatal("negated cached")
		}
	}
	if _, zok, _ := C20CachedDecode(bi(1), bi(1), bi(0), bi(0)); zok {
		t.Fatal("C = 0 accepted")
	}
	q, zok, tok := C20CachedDecode(k, k, FMul(big2, k), bi(0))
	if !zok || !tok || !q.IsIdentity() {
		t.Fatal("cached identity")
	}
}
