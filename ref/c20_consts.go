package verifref

// C20 — defining values of the constants and tables embedded in
// curve25519-voi, computed from first principles with math/big.  Nothing in
// this file is transcribed from the library: square-root constants are
// *computed* and the sign of each root is chosen by the convention stated in
// DESIGN.md section 2 (and validated against published values in
// c20_consts_test.go).

import (
	"math/big"
	"sync"
)

var (
	// -1 mod p.
	C20MinusOne = FNeg(big1)
	// 2d.
	C20D2 = FMul(big2, D)
	// RFC 9496 ONE_MINUS_D_SQ = 1 - d^2.
	C20OneMinusDSq = FSub(big1, FSqr(D))
	// RFC 9496 D_MINUS_ONE_SQ = (d - 1)^2.
	C20DMinusOneSq = FSqr(FSub(D, big1))
	// a*d - 1 with a = -1.
	C20ADMinusOne = FSub(FMul(C20MinusOne, D), big1)
	// sqrt(a*d - 1): the ODD root (the one that reproduces the RFC 9496
	// element-derivation vectors; checked in c20_consts_test.go).
	C20SqrtADMinusOne = func() *big.Int {
		r, ok := FSqrt(C20ADMinusOne)
		if !ok {
			panic("verifref: a*d-1 is not a square")
		}
		return FNeg(r) // FSqrt returns the even root; take the other one
	}()
	// a - d with a = -1.
	C20AMinusD = FSub(C20MinusOne, D)
	// 1/sqrt(a - d): the even root.
	C20InvSqrtAMinusD = func() *big.Int {
		r, ok := FSqrt(FInv(C20AMinusD))
		if !ok {
			panic("verifref: 1/(a-d) is not a square")
		}
		return r
	}()

	// Montgomery curve constant A = 486662 and derived values.
	C20MontA     = big.NewInt(486662)
	C20MontNegA  = FNeg(C20MontA)
	C20MontASq   = FSqr(C20MontA)
	C20NegAPlus2 = FNeg(FAdd(C20MontA, big2)) // -(A+2) = -486664
	// sqrt(-(A+2)) with sgn0 = 0 (RFC 9380 section 6.8.2 / appendix D.1).
	C20SqrtNegAPlus2 = func() *big.Int {
		r, ok := FSqrt(C20NegAPlus2)
		if !ok {
			panic("verifref: -(A+2) is not a square")
		}
		return r
	}()
	// Elligator 2 (Monocypher formulation) u-factor: -2*sqrt(-1).
	C20UFactor = FMul(FNeg(big2), SqrtM1)
	// (A+2)/4 = 121666 (exact integer division).
	C20APlus2Over4 = func() *big.Int {
		q, r := new(big.Int).QuoRem(new(big.Int).Add(C20MontA, big2), big.NewInt(4), new(big.Int))
		if r.Sign() != 0 {
			panic("verifref: (A+2) not divisible by 4")
		}
		return q
	}()
)

// ---- limb encodings -> integers (the radix formulas) ----

// c20FromLimbs returns sum limbs[k] * 2^shift(k).
func c20FromLimbs(limbs []uint64, shift func(k int) uint) *big.Int {
	v := new(big.Int)
	for k, l := range limbs {
		t := new(big.Int).SetUint64(l)
		v.Add(v, t.Lsh(t, shift(k)))
	}
	return v
}

// C20Radix51 interprets 5 limbs in radix 2^51 (not reduced mod p).
func C20Radix51(limbs []uint64) *big.Int {
	if len(limbs) != 5 {
		panic("verifref: radix-51 element needs 5 limbs")
	}
	return c20FromLimbs(limbs, func(k int) uint { return uint(51 * k) })
}

// C20Radix2625 interprets 10 limbs in the alternating 26/25-bit radix
// (limb k has weight 2^ceil(25.5 k)); not reduced mod p.
func C20Radix2625(limbs []uint64) *big.Int {
	if len(limbs) != 10 {
		panic("verifref: radix-25.5 element needs 10 limbs")
	}
	return c20FromLimbs(limbs, func(k int) uint { return uint((51*k + 1) / 2) })
}

// C20LimbsCanonical reports whether every limb is below its nominal width
// (51 bits; 26/25 bits alternating).
func C20LimbsCanonical(limbs []uint64) bool {
	for k, l := range limbs {
		w := uint(51)
		if len(limbs) == 10 {
			w = 26 - uint(k&1)
		}
		if l>>w != 0 {
			return false
		}
	}
	return true
}

// C20RadixW interprets limbs in the uniform radix 2^w (scalars: w = 52 / 29;
// 64-bit words: w = 64; bytes: w = 8).
func C20RadixW(limbs []uint64, w uint) *big.Int {
	return c20FromLimbs(limbs, func(k int) uint { return w * uint(k) })
}

// ---- tables ----

// C20AffineNiels returns (y+x, y-x, 2dxy) of an affine point.
func C20AffineNiels(p Point) (yPlusX, yMinusX, xy2d *big.Int) {
	return FAdd(p.Y, p.X), FSub(p.Y, p.X), FMul(C20D2, FMul(p.X, p.Y))
}

// C20BaseTableScalar is (j+1) * 256^i: the multiple of B held by entry (i, j)
// of the 32x8 fixed-base table.
func C20BaseTableScalar(i, j int) *big.Int {
	k := big.NewInt(int64(j + 1))
	return k.Lsh(k, uint(8*i))
}

var (
	c20mu   sync.Mutex
	c20memo = map[string]Point{}
)

func c20cached(key string, f func() Point) Point {
	c20mu.Lock()
	p, ok := c20memo[key]
	c20mu.Unlock()
	if ok {
		return p
	}
	p = f()
	c20mu.Lock()
	c20memo[key] = p
	c20mu.Unlock()
	return p
}

// C20MulBaseShift returns [k * 2^shift]B (memoised; k may be negative).
func C20MulBaseShift(k int64, shift uint) Point {
	if k < 0 {
		return Neg(C20MulBaseShift(-k, shift))
	}
	key := big.NewInt(k).String() + "<<" + big.NewInt(int64(shift)).String()
	return c20cached(key, func() Point {
		s := big.NewInt(k)
		return MulBase(s.Lsh(s, shift))
	})
}

// C20BaseTablePoint is [(j+1) * 256^i]B.
func C20BaseTablePoint(i, j int) Point { return C20MulBaseShift(int64(j+1), uint(8*i)) }

// C20BShl128 is [2^128]B.
func C20BShl128() Point { return C20MulBaseShift(1, 128) }

// C20OddMultiple is [2j+1]P with P = B (shl128 = false) or P = [2^128]B.
func C20OddMultiple(shl128 bool, j int) Point {
	sh := uint(0)
	if shl128 {
		sh = 128
	}
	return C20MulBaseShift(int64(2*j+1), sh)
}

// C20CachedDecode interprets the four lanes (A, B, C, D) of the AVX2 backend's
// "cached" point form
//
//	(121666*(Y-X), 121666*(Y+X), 2*121666*Z, -2*121665*T)
//
// i.e. 121666 * (Y-X, Y+X, 2Z, 2dT) (since d = -121665/121666), for an
// extended point (X:Y:Z:T).  Returns the affine point, whether C is
// invertible, and whether the D lane is consistent with T = XY/Z.
func C20CachedDecode(a, b, c, d *big.Int) (p Point, zOK, tOK bool) {
	a, b, c, d = FMod(a), FMod(b), FMod(c), FMod(d)
	if c.Sign() == 0 {
		return Point{}, false, false
	}
	ci := FInv(c)
	x := FMul(FSub(b, a), ci)
	y := FMul(FAdd(b, a), ci)
	p = Point{x, y}
	tOK = FMul(d, ci).Cmp(FMul(D, FMul(x, y))) == 0
	return p, true, tOK
}

// C20CachedZ returns C / (2*121666): the Z coordinate that the C lane of a
// cached point encodes at the documented scale 121666.  (Only meaningful
// where Z is known, e.g. tables built from Z = 1 inputs are NOT normalised, so
// this is used for diagnostics only.)
func C20CachedZ(c *big.Int) *big.Int { return FDiv(c, big.NewInt(2*121666)) }

// ---- Ristretto encoding of an Edwards point (RFC 9496 section 4.3.2) ----

// C20RistrettoEncode is RFC 9496 ENCODE applied to the affine point p
// (z0 = 1, t0 = x0*y0), written from the RFC text.
func C20RistrettoEncode(p Point) []byte {
	x0, y0, z0 := p.X, p.Y, big.NewInt(1)
	t0 := FMul(x0, y0)
	u1 := FMul(FAdd(z0, y0), FSub(z0, y0))
	u2 := FMul(x0, y0)
	_, invsqrt := SqrtRatioM1(big1, FMul(u1, FSqr(u2)))
	den1 := FMul(invsqrt, u1)
	den2 := FMul(invsqrt, u2)
	zInv := FMul(FMul(den1, den2), t0)
	ix0 := FMul(x0, SqrtM1)
	iy0 := FMul(y0, SqrtM1)
	enchanted := FMul(den1, C20InvSqrtAMinusD)
	rotate := FIsNeg(FMul(t0, zInv))
	x, y, denInv := x0, y0, den2
	if rotate {
		x, y, denInv = iy0, ix0, enchanted
	}
	if FIsNeg(FMul(x, zInv)) {
		y = FNeg(y)
	}
	s := FAbs(FMul(denInv, FSub(z0, y)))
	return FEncode(s)
}
