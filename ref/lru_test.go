package verifref

import (
	"math/rand"
	"reflect"
	"testing"
)

// The textbook capacity-2 scenario (the example of the classic "LRU cache"
// exercise): put 1, put 2, get 1, put 3 (evicts 2), get 2 (miss), put 4
// (evicts 1), get 1 (miss), get 3, get 4.
func TestLRUTextbook(t *testing.T) {
	l := NewLRU[int, int](2)
	l.Put(1, 1)
	l.Put(2, 2)
	if v, ok := l.Get(1); !ok || v != 1 {
		t.Fatal("get 1")
	}
	if ev, did := l.Put(3, 3); !did || ev != 2 {
		t.Fatalf("put 3 evicted %v %v", ev, did)
	}
	if _, ok := l.Get(2); ok {
		t.Fatal("2 should be gone")
	}
	if ev, did := l.Put(4, 4); !did || ev != 1 {
		t.Fatalf("put 4 evicted %v %v", ev, did)
	}
	if _, ok := l.Get(1); ok {
		t.Fatal("1 should be gone")
	}
	if v, ok := l.Get(3); !ok || v != 3 {
		t.Fatal("get 3")
	}
	if v, ok := l.Get(4); !ok || v != 4 {
		t.Fatal("get 4")
	}
	if !reflect.DeepEqual(l.Keys(), []int{4, 3}) {
		t.Fatalf("order %v", l.Keys())
	}
}

// Put of a resident key refreshes recency but keeps the first value.
func TestLRUPutResident(t *testing.T) {
	l := NewLRU[string, int](2)
	l.Put("a", 1)
	l.Put("b", 2)
	if _, did := l.Put("a", 99); did {
		t.Fatal("no eviction expected")
	}
	if v, _ := l.Peek("a"); v != 1 {
		t.Fatalf("value replaced: %d", v)
	}
	if !reflect.DeepEqual(l.Keys(), []string{"a", "b"}) {
		t.Fatalf("order %v", l.Keys())
	}
	if ev, did := l.Put("c", 3); !did || ev != "b" {
		t.Fatalf("evicted %q %v", ev, did)
	}
	c := l.Clone()
	c.Put("d", 4)
	if l.Len() != 2 || !reflect.DeepEqual(l.Keys(), []string{"c", "a"}) {
		t.Fatal("clone aliases the original")
	}
}

// Differential test against an independently written model: every key carries
// the logical time of its last use; eviction removes the minimum.
func TestLRUAgainstTimestampModel(t *testing.T) {
	rng := rand.New(rand.NewSource(1))
	for iter := 0; iter < 2000; iter++ {
		capacity := 1 + rng.Intn(5)
		l := NewLRU[int, int](capacity)
		last := map[int]int{}
		val := map[int]int{}
		for step := 1; step <= 60; step++ {
			k := rng.Intn(8)
			if rng.Intn(2) == 0 {
				v, ok := l.Get(k)
				wv, wok := val[k]
				if ok != wok || (ok && v != wv) {
					t.Fatalf("get(%d) = %d,%v want %d,%v", k, v, ok, wv, wok)
				}
				if ok {
					last[k] = step
				}
			} else {
				ev, did := l.Put(k, step)
				if _, resident := val[k]; resident {
					last[k] = step
					if did {
						t.Fatal("eviction on resident put")
					}
				} else {
					if len(val) == capacity {
						old, oldT := -1, 1<<30
						for kk, tt := range last {
							if tt < oldT {
								old, oldT = kk, tt
							}
						}
						delete(val, old)
						delete(last, old)
						if !did || ev != old {
							t.Fatalf("evicted %d,%v want %d", ev, did, old)
						}
					} else if did {
						t.Fatal("unexpected eviction")
					}
					val[k] = step
					last[k] = step
				}
			}
			if l.Len() != len(val) || l.Len() > capacity {
				t.Fatalf("len %d want %d", l.Len(), len(val))
			}
			keys := l.Keys()
			for i := 1; i < len(keys); i++ {
				if last[keys[i-1]] <= last[keys[i]] {
					t.Fatalf("order %v not by recency %v", keys, last)
				}
			}
		}
	}
}
