package verifref

import "math/big"

// ristretto255 per RFC 9496 section 4, on top of the affine Edwards model.
// An element is represented by any Edwards point of its coset P + E[4].

var (
	// 1/sqrt(a-d): the even root (RFC 9496 INVSQRT_A_MINUS_D).
	RistInvSqrtAMinusD = func() *big.Int {
		ok, r := SqrtRatioM1(big1, FSub(FNeg(big1), D))
		if !ok {
			panic("verifref: a-d not square")
		}
		return r
	}()
	// sqrt(a*d - 1): RFC 9496 SQRT_AD_MINUS_ONE (the constant's sign is fixed by
	// the RFC's decimal value; validated by the element-derivation vectors).
	RistSqrtADMinusOne = func() *big.Int {
		v, _ := new(big.Int).SetString("25063068953384623474111414158702152701244531502492656460079210482610430750235", 10)
		if FSqr(v).Cmp(FSub(FNeg(D), big1)) != 0 {
			panic("verifref: SQRT_AD_MINUS_ONE")
		}
		return v
	}()
	ristOneMinusDSq = FSub(big1, FSqr(D))
	ristDMinusOneSq = FSqr(FSub(D, big1))
)

// RistDecode is RFC 9496 4.3.1.  ok=false on any failure.
func RistDecode(b []byte) (Point, bool) {
	if len(b) != 32 {
		return Point{}, false
	}
	sRaw := FromLE(b)
	if sRaw.Cmp(P) >= 0 { // also rejects bit 255 set
		return Point{}, false
	}
	s := sRaw
	if FIsNeg(s) {
		return Point{}, false
	}
	ss := FSqr(s)
	u1 := FSub(big1, ss)
	u2 := FAdd(big1, ss)
	u2sqr := FSqr(u2)
	// v = -(D * u1^2) - u2_sqr
	v := FSub(FNeg(FMul(D, FSqr(u1))), u2sqr)
	wasSquare, invsqrt := SqrtRatioM1(big1, FMul(v, u2sqr))
	denX := FMul(invsqrt, u2)
	denY := FMul(FMul(invsqrt, denX), v)
	x := FAbs(FMul(FMul(big2, s), denX))
	y := FMul(u1, denY)
	t := FMul(x, y)
	if !wasSquare || FIsNeg(t) || y.Sign() == 0 {
		return Point{}, false
	}
	return Point{x, y}, true
}

// RistEncode is RFC 9496 4.3.2 applied to an affine point (z = 1, t = xy).
func RistEncode(p Point) []byte {
	x0, y0, z0, t0 := p.X, p.Y, big1, FMul(p.X, p.Y)
	u1 := FMul(FAdd(z0, y0), FSub(z0, y0))
	u2 := FMul(x0, y0)
	_, invsqrt := SqrtRatioM1(big1, FMul(u1, FSqr(u2)))
	den1 := FMul(invsqrt, u1)
	den2 := FMul(invsqrt, u2)
	zInv := FMul(FMul(den1, den2), t0)
	ix0 := FMul(x0, SqrtM1)
	iy0 := FMul(y0, SqrtM1)
	enchDen := FMul(den1, RistInvSqrtAMinusD)
	rotate := FIsNeg(FMul(t0, zInv))
	x, y, denInv := x0, y0, den2
	if rotate {
		x, y, denInv = iy0, ix0, enchDen
	}
	if FIsNeg(FMul(x, zInv)) {
		y = FNeg(y)
	}
	s := FAbs(FMul(denInv, FSub(z0, y)))
	return ToLE(s, 32)
}

// RistEqual is RFC 9496 4.3.3.
func RistEqual(p, q Point) bool {
	a := FMul(p.X, q.Y).Cmp(FMul(p.Y, q.X)) == 0
	b := FMul(p.Y, q.Y).Cmp(FMul(p.X, q.X)) == 0
	return a || b
}

// RistMap is RFC 9496 4.3.4 MAP(t) for a field element t.
func RistMap(t *big.Int) Point {
	r := FMul(SqrtM1, FSqr(t))
	u := FMul(FAdd(r, big1), ristOneMinusDSq)
	v := FMul(FSub(FNeg(big1), FMul(r, D)), FAdd(r, D))
	wasSquare, s := SqrtRatioM1(u, v)
	sPrime := FNeg(FAbs(FMul(s, t)))
	c := FNeg(big1)
	if !wasSquare {
		s = sPrime
		c = r
	}
	n := FSub(FMul(FMul(c, FSub(r, big1)), ristDMinusOneSq), v)
	w0 := FMul(FMul(big2, s), v)
	w1 := FMul(n, RistSqrtADMinusOne)
	w2 := FSub(big1, FSqr(s))
	w3 := FAdd(big1, FSqr(s))
	// (w0*w3 : w2*w1 : w1*w3 : w0*w2) -> affine
	zi := FInv(FMul(w1, w3))
	return Point{FMul(FMul(w0, w3), zi), FMul(FMul(w2, w1), zi)}
}

// RistFromUniform is the one-way map of RFC 9496 4.3.4 on 64 bytes: each half
// is masked to 255 bits, reduced mod p, mapped, and the results are added.
func RistFromUniform(b []byte) Point {
	if len(b) != 64 {
		panic("verifref: RistFromUniform length")
	}
	return Add(RistMap(FDecode(b[:32])), RistMap(FDecode(b[32:])))
}

// Torsion4 returns E[4] (the coset used by ristretto255).
func Torsion4() []Point {
	t := Torsion8()
	return []Point{t[0], t[2], t[4], t[6]}
}
