package verifref

import (
	"bytes"
	"encoding/hex"
	"testing"
)

// RFC 9381 appendix B.3 (ECVRF-EDWARDS25519-SHA512-ELL2, examples 16-18) and
// the corresponding draft-irtf-cfrg-vrf-10 vectors; hex copied as data from
// /repo/primitives/ed25519/extra/ecvrf/ecvrf_test.go.
var vrfVectors = []struct {
	sk, pk, alpha, pi, beta string
	f                       VrfFormat
}{
	{"9d61b19deffd5a60ba844af492ec2cc44449c5697b326919703bac031cae7f60", "d75a980182b10ab7d54bfed3c964073a0ee172f3daa62325af021a68f707511a", "",
		"7d9c633ffeee27349264cf5c667579fc583b4bda63ab71d001f89c10003ab46f25898f6bd7d4ed4c75f0282b0f7bb9d0e61b387b76db60b3cbf34bf09109ccb33fab742a8bddc0c8ba3caf5c0b75bb04",
		"9d574bf9b8302ec0fc1e21c3ec5368269527b87b462ce36dab2d14ccf80c53cccf6758f058c5b1c856b116388152bbe509ee3b9ecfe63d93c3b4346c1fbc6c54", VrfDraft10},
	{"4ccd089b28ff96da9db6c346ec114e0f5b8a319f35aba624da8cf6ed4fb8a6fb", "3d4017c3e843895a92b70aa74d1b7ebc9c982ccf2ec4968cc0cd55f12af4660c", "72",
		"47b327393ff2dd81336f8a2ef10339112401253b3c714eeda879f12c509072ef9bf1a234f833f72d8fff36075fd9b836da28b5569e74caa418bae7ef521f2ddd35f5727d271ecc70b4a83c1fc8ebc40c",
		"38561d6b77b71d30eb97a062168ae12b667ce5c28caccdf76bc88e093e4635987cd96814ce55b4689b3dd2947f80e59aac7b7675f8083865b46c89b2ce9cc735", VrfDraft10},
	{"c5aa8df43f9f837bedb7442f31dcb7b166d38535076f094b85ce3a2e0b4458f7", "fc51cd8e6218a1a38da47ed00230f0580816ed13ba3303ac5deb911548908025", "af82",
		"926e895d308f5e328e7aa159c06eddbe56d06846abf5d98c2512235eaa57fdce6187befa109606682503b3a1424f0f729ca0418099fbd86a48093e6a8de26307b8d93e02da927e6dd5b73c8f119aee0f",
		"121b7f9b9aaaa29099fc04a94ba52784d44eac976dd1a3cca458733be5cd090a7b5fbd148444f17f8daf1fb55cb04b1ae85a626e30a54b4b0f8abf4a43314a58", VrfDraft10},
	{"9d61b19deffd5a60ba844af492ec2cc44449c5697b326919703bac031cae7f60", "d75a980182b10ab7d54bfed3c964073a0ee172f3daa62325af021a68f707511a", "",
		"7d9c633ffeee27349264cf5c667579fc583b4bda63ab71d001f89c10003ab46f14adf9a3cd8b8412d9038531e865c341cafa73589b023d14311c331a9ad15ff2fb37831e00f0acaa6d73bc9997b06501",
		"9d574bf9b8302ec0fc1e21c3ec5368269527b87b462ce36dab2d14ccf80c53cccf6758f058c5b1c856b116388152bbe509ee3b9ecfe63d93c3b4346c1fbc6c54", VrfRFC9381},
	{"4ccd089b28ff96da9db6c346ec114e0f5b8a319f35aba624da8cf6ed4fb8a6fb", "3d4017c3e843895a92b70aa74d1b7ebc9c982ccf2ec4968cc0cd55f12af4660c", "72",
		"47b327393ff2dd81336f8a2ef10339112401253b3c714eeda879f12c509072ef055b48372bb82efbdce8e10c8cb9a2f9d60e93908f93df1623ad78a86a028d6bc064dbfc75a6a57379ef855dc6733801",
		"38561d6b77b71d30eb97a062168ae12b667ce5c28caccdf76bc88e093e4635987cd96814ce55b4689b3dd2947f80e59aac7b7675f8083865b46c89b2ce9cc735", VrfRFC9381},
	{"c5aa8df43f9f837bedb7442f31dcb7b166d38535076f094b85ce3a2e0b4458f7", "fc51cd8e6218a1a38da47ed00230f0580816ed13ba3303ac5deb911548908025", "af82",
		"926e895d308f5e328e7aa159c06eddbe56d06846abf5d98c2512235eaa57fdce35b46edfc655bc828d44ad09d1150f31374e7ef73027e14760d42e77341fe05467bb286cc2c9d7fde29120a0b2320d04",
		"121b7f9b9aaaa29099fc04a94ba52784d44eac976dd1a3cca458733be5cd090a7b5fbd148444f17f8daf1fb55cb04b1ae85a626e30a54b4b0f8abf4a43314a58", VrfRFC9381},
}

func vrfUnhex(s string) []byte {
	b, err := hex.DecodeString(s)
	if err != nil {
		panic(err)
	}
	return b
}

func TestVrfVectors(t *testing.T) {
	for i, v := range vrfVectors {
		sk, pk, alpha, pi, beta := vrfUnhex(v.sk), vrfUnhex(v.pk), vrfUnhex(v.alpha), vrfUnhex(v.pi), vrfUnhex(v.beta)
		if !bytes.Equal(EdPublicKey(sk), pk) {
			t.Fatalf("[%d] public key", i)
		}
		if got := VrfProve(sk, pk, alpha, nil, v.f); !bytes.Equal(got, pi) {
			t.Fatalf("[%d] pi mismatch: %x", i, got)
		}
		if got, ok := VrfProofToHash(pi); !ok || !bytes.Equal(got, beta) {
			t.Fatalf("[%d] beta mismatch: %x", i, got)
		}
		ok, got, why := VrfVerify(pk, pi, alpha, v.f)
		if !ok || !bytes.Equal(got, beta) {
			t.Fatalf("[%d] verify: %v %s", i, ok, why)
		}
		// the other format must not verify
		if ok, _, _ := VrfVerify(pk, pi, alpha, 1-v.f); ok {
			t.Fatalf("[%d] cross-format verification", i)
		}
		// neighbours must not verify
		if ok, _, _ := VrfVerify(pk, pi, append(alpha, 0), v.f); ok {
			t.Fatalf("[%d] other alpha verified", i)
		}
		bad := append([]byte(nil), pi...)
		bad[40] ^= 1
		if ok, _, _ := VrfVerify(pk, bad, alpha, v.f); ok {
			t.Fatalf("[%d] altered c verified", i)
		}
		// s + L is rejected at decoding
		_, c, s, _ := VrfDecodeProof(pi)
		sl := VrfEncodeProof(pi[:32], c, s.Add(s, L))
		if _, ok := VrfProofToHash(sl); ok {
			t.Fatalf("[%d] s+L decoded", i)
		}
		// hedged proofs verify and give the same beta, but differ
		z := bytes.Repeat([]byte{byte(i + 1)}, 32)
		hp := VrfProve(sk, pk, alpha, z, v.f)
		if bytes.Equal(hp, pi) {
			t.Fatalf("[%d] hedged proof equals deterministic proof", i)
		}
		if ok, got, _ := VrfVerify(pk, hp, alpha, v.f); !ok || !bytes.Equal(got, beta) {
			t.Fatalf("[%d] hedged proof", i)
		}
	}
}

func TestVrfKeyValidation(t *testing.T) {
	v := vrfVectors[3]
	pi, alpha := vrfUnhex(v.pi), vrfUnhex(v.alpha)
	for j, tp := range Torsion8() {
		if ok, _, why := VrfVerify(tp.Encode(), pi, alpha, VrfRFC9381); ok || why != "small-order-pk" {
			t.Fatalf("torsion %d: %v %s", j, ok, why)
		}
	}
	// non-canonical identity
	nc := ToLE(P, 32)
	nc[0]++ // y = p + 1
	if ok, _, why := VrfVerify(nc, pi, alpha, VrfRFC9381); ok || why != "bad-pk-encoding" {
		t.Fatalf("non-canonical: %v %s", ok, why)
	}
	if string(VrfH2cDST) != "ECVRF_edwards25519_XMD:SHA-512_ELL2_NU_\x04" {
		t.Fatalf("DST %q", VrfH2cDST)
	}
}
