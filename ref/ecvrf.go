package verifref

// ECVRF-EDWARDS25519-SHA512-ELL2 (suite_string = 0x04) written from RFC 9381
// section 5 on top of the affine Edwards model and the RFC 9380 reference
// (h2c.go).  Also the draft-10 ("v10") challenge, which differs from the RFC
// only in leaving the public key out of the challenge hash input.
//
// Section numbers in comments refer to RFC 9381.

import (
	"bytes"
	"crypto/sha512"
	"math/big"
)

// VrfFormat selects the challenge format.
type VrfFormat int

const (
	VrfRFC9381 VrfFormat = iota // c = challenge_generation(Y, H, Gamma, U, V)
	VrfDraft10                  // c = hash_points(H, Gamma, U, V) (draft-irtf-cfrg-vrf-10 and earlier)
)

const (
	vrfSuite   = 0x04
	VrfPtLen   = 32
	VrfCLen    = 16
	VrfQLen    = 32
	VrfProofSz = VrfPtLen + VrfCLen + VrfQLen
)

// VrfH2cDST: "The domain separation tag DST, a parameter to the hash-to-curve
// suite, SHALL be set to "ECVRF_" || h2c_suite_ID_string || suite_string"
// (section 5.5), with h2c_suite_ID_string = "edwards25519_XMD:SHA-512_ELL2_NU_".
var VrfH2cDST = append([]byte("ECVRF_"+"edwards25519_XMD:SHA-512_ELL2_NU_"), vrfSuite)

func vrfHash(parts ...[]byte) []byte {
	h := sha512.New()
	for _, p := range parts {
		h.Write(p)
	}
	return h.Sum(nil)
}

// VrfStringToPoint is string_to_point for the edwards25519 suites: RFC 8032
// section 5.1.3 decoding, which rejects y >= p and x = 0 with the sign bit set.
func VrfStringToPoint(b []byte) (Point, bool) {
	if len(b) != VrfPtLen {
		return Point{}, false
	}
	di := Decode(b)
	if !di.OK || !di.Canonical {
		return Point{}, false
	}
	return di.P, true
}

// VrfEncodeToCurve is ECVRF_encode_to_curve_h2c_suite (5.4.1.2) with
// encode_to_curve_salt = PK_string (5.5).
func VrfEncodeToCurve(salt, alpha []byte) Point {
	// 1. string_to_be_hashed = encode_to_curve_salt || alpha_string
	str := append(append([]byte(nil), salt...), alpha...)
	// 2. H = encode(string_to_be_hashed)
	p, _, err := H2cEdwards25519XMDSHA512NU(str, VrfH2cDST)
	if err != nil {
		panic(err)
	}
	return p
}

// VrfSecret derives (x, prefix) from the 32-byte SK per RFC 8032 5.1.5
// (section 5.5: "the secret scalar x and public key are derived as in
// RFC 8032"); prefix = hashed_sk_string[32..63].
func VrfSecret(seed []byte) (*big.Int, []byte) { return EdExpand(seed) }

// VrfNonce is ECVRF_nonce_generation_RFC8032 (5.4.2.2).
func VrfNonce(seed, hString []byte) *big.Int {
	// 1. hashed_sk_string = Hash(SK)  2. truncated_hashed_sk_string = hashed_sk_string[32]...[63]
	_, trunc := VrfSecret(seed)
	// 3. k_string = Hash(truncated_hashed_sk_string || h_string)
	// 4. k = string_to_int(k_string) mod q
	return SMod(FromLE(vrfHash(trunc, hString)))
}

// VrfNonceHedged is the library's documented "added randomness" variant: the
// 32 bytes of entropy Z are hashed in front of the RFC 8032 prefix, followed
// by zero padding up to 1024 bytes, then h_string (mirrors EdSignHedged).
func VrfNonceHedged(seed, hString, z []byte) *big.Int {
	if len(z) != 32 {
		panic("verifref: VrfNonceHedged wants 32 bytes of entropy")
	}
	_, trunc := VrfSecret(seed)
	pad := make([]byte, 1024-(32+32))
	return SMod(FromLE(vrfHash(z, trunc, pad, hString)))
}

// VrfChallenge is ECVRF_challenge_generation (5.4.3) over already-encoded
// points; for VrfDraft10 P1 = Y is left out.
func VrfChallenge(f VrfFormat, y, hStr, gamma, u, v []byte) *big.Int {
	// 2. str = suite_string || challenge_generation_domain_separator_front (0x02)
	str := []byte{vrfSuite, 0x02}
	// 3. for PJ in [P1, P2, P3, P4, P5]: str = str || point_to_string(PJ)
	if f == VrfRFC9381 {
		str = append(str, y...)
	}
	str = append(str, hStr...)
	str = append(str, gamma...)
	str = append(str, u...)
	str = append(str, v...)
	// 4-5. str = str || challenge_generation_domain_separator_back (0x00)
	str = append(str, 0x00)
	// 6. c_string = Hash(str)  7. truncated_c_string = c_string[0]...c_string[cLen-1]
	// 8. c = string_to_int(truncated_c_string)   (little-endian)
	return FromLE(vrfHash(str)[:VrfCLen])
}

// VrfEncodeProof is step 8 of ECVRF_prove.
func VrfEncodeProof(gamma []byte, c, s *big.Int) []byte {
	out := append([]byte(nil), gamma...)
	out = append(out, ToLE(c, VrfCLen)...)
	return append(out, ToLE(s, VrfQLen)...)
}

// VrfProve is ECVRF_prove (5.1).  pk is the public key string used as salt
// and P1 (honestly MulBase(x).Encode()); z = nil for the deterministic RFC
// nonce, or 32 bytes of entropy for the hedged nonce.
func VrfProve(seed, pk, alpha, z []byte, f VrfFormat) []byte {
	// 1. x, Y
	x, _ := VrfSecret(seed)
	// 2. H = ECVRF_encode_to_curve(encode_to_curve_salt, alpha_string)
	H := VrfEncodeToCurve(pk, alpha)
	// 3. h_string = point_to_string(H)
	hStr := H.Encode()
	// 4. Gamma = x*H
	gamma := Mul(x, H)
	// 5. k = ECVRF_nonce_generation(SK, h_string)
	var k *big.Int
	if z == nil {
		k = VrfNonce(seed, hStr)
	} else {
		k = VrfNonceHedged(seed, hStr, z)
	}
	// 6. c = ECVRF_challenge_generation(Y, H, Gamma, k*B, k*H)
	c := VrfChallenge(f, pk, hStr, gamma.Encode(), MulBase(k).Encode(), Mul(k, H).Encode())
	// 7. s = (k + c*x) mod q
	s := SAdd(k, SMul(c, x))
	// 8. pi_string
	return VrfEncodeProof(gamma.Encode(), c, s)
}

// VrfDecodeProof is ECVRF_decode_proof (5.4.4).
func VrfDecodeProof(pi []byte) (gamma Point, c, s *big.Int, ok bool) {
	if len(pi) != VrfProofSz {
		return Point{}, nil, nil, false
	}
	// 4-5. Gamma = string_to_point(gamma_string)
	gamma, ok = VrfStringToPoint(pi[:VrfPtLen])
	if !ok {
		return Point{}, nil, nil, false
	}
	// 6. c = string_to_int(c_string)
	c = FromLE(pi[VrfPtLen : VrfPtLen+VrfCLen])
	// 7-8. s = string_to_int(s_string); if s >= q output "INVALID"
	s = FromLE(pi[VrfPtLen+VrfCLen:])
	if s.Cmp(L) >= 0 {
		return Point{}, nil, nil, false
	}
	return gamma, c, s, true
}

// VrfGammaToHash is steps 4-7 of ECVRF_proof_to_hash (5.2).
func VrfGammaToHash(gamma Point) []byte {
	cg := gamma
	for i := 0; i < 3; i++ { // cofactor * Gamma, cofactor = 8
		cg = AddAffine(cg, cg)
	}
	return vrfHash([]byte{vrfSuite, 0x03}, cg.Encode(), []byte{0x00})
}

// VrfProofToHash is ECVRF_proof_to_hash (5.2).
func VrfProofToHash(pi []byte) ([]byte, bool) {
	gamma, _, _, ok := VrfDecodeProof(pi)
	if !ok {
		return nil, false
	}
	return VrfGammaToHash(gamma), true
}

// VrfVerifyInfo says why verification failed (for class histograms).
type VrfVerifyInfo string

// VrfVerify is ECVRF_verify (5.3) with validate_key = TRUE.
func VrfVerify(pk, pi, alpha []byte, f VrfFormat) (bool, []byte, VrfVerifyInfo) {
	// 1-2. Y = string_to_point(PK_string)
	Y, ok := VrfStringToPoint(pk)
	if !ok {
		return false, nil, "bad-pk-encoding"
	}
	// 3. ECVRF_validate_key (5.4.5): Y' = cofactor*Y; if Y' is the identity, INVALID
	if MulByCofactor(Y).IsIdentity() {
		return false, nil, "small-order-pk"
	}
	// 4-6. D = ECVRF_decode_proof(pi_string)
	gamma, c, s, ok := VrfDecodeProof(pi)
	if !ok {
		return false, nil, "bad-proof-encoding"
	}
	// 7. H = ECVRF_encode_to_curve(encode_to_curve_salt, alpha_string)
	H := VrfEncodeToCurve(pk, alpha)
	// 8. U = s*B - c*Y
	U := Sub(MulBase(s), Mul(c, Y))
	// 9. V = s*H - c*Gamma
	V := Sub(Mul(s, H), Mul(c, gamma))
	// 10. c' = ECVRF_challenge_generation(Y, H, Gamma, U, V)
	cp := VrfChallenge(f, Y.Encode(), H.Encode(), gamma.Encode(), U.Encode(), V.Encode())
	// 11. If c and c' are equal, output ("VALID", ECVRF_proof_to_hash(pi_string))
	if c.Cmp(cp) != 0 {
		return false, nil, "challenge-mismatch"
	}
	beta, ok := VrfProofToHash(pi)
	if !ok || !bytes.Equal(Y.Encode(), pk) {
		panic("verifref: VrfVerify internal inconsistency")
	}
	return true, beta, "valid"
}
