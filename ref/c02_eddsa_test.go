package verifref

import (
	"bytes"
	"crypto"
	"crypto/ed25519"
	"crypto/sha512"
	"encoding/hex"
	"testing"
)

func c02unhex(t *testing.T, s string) []byte {
	b, err := hex.DecodeString(s)
	if err != nil {
		t.Fatal(err)
	}
	return b
}

// RFC 8032 section 7.1 (TEST 1, 2, 3, SHA(abc)), 7.2 (foo), 7.3 (abc).
func TestC02SignWithPubRFCVectors(t *testing.T) {
	type vec struct {
		v                  EdVariant
		seed, pk, msg, ctx string
		sig                string
		prehash            bool
	}
	vecs := []vec{
		{EdPure, "9d61b19deffd5a60ba844af492ec2cc44449c5697b326919703bac031cae7f60", "d75a980182b10ab7d54bfed3c964073a0ee172f3daa62325af021a68f707511a", "", "",
			"e5564300c360ac729086e2cc806e828a84877f1eb8e5d974d873e065224901555fb8821590a33bacc61e39701cf9b46bd25bf5f0595bbe24655141438e7a100b", false},
		{EdPure, "4ccd089b28ff96da9db6c346ec114e0f5b8a319f35aba624da8cf6ed4fb8a6fb", "3d4017c3e843895a92b70aa74d1b7ebc9c982ccf2ec4968cc0cd55f12af4660c", "72", "",
			"92a009a9f0d4cab8720e820b5f642540a2b27b5416503f8fb3762223ebdb69da085ac1e43e15996e458f3613d0f11d8c387b2eaeb4302aeeb00d291612bb0c00", false},
		{EdPure, "c5aa8df43f9f837bedb7442f31dcb7b166d38535076f094b85ce3a2e0b4458f7", "fc51cd8e6218a1a38da47ed00230f0580816ed13ba3303ac5deb911548908025", "af82", "",
			"6291d657deec24024827e69c3abe01a30ce548a284743a445e3680d7db5ac3ac18ff9b538d16f290ae67f760984dc6594a7c15e9716ed28dc027beceea1ec40a", false},
		{EdCtx, "0305334e381af78f141cb666f6199f57bc3495335a256a95bd2a55bf546663f6", "dfc9425e4f968f7f0c29f0259cf5f9aed6851c2bb4ad8bfb860cfee0ab248292", "f726936d19c800494e3fdaff20b276a8", "666f6f",
			"55a4cc2f70a54e04288c5f4cd1e45a7bb520b36292911876cada7323198dd87a8b36950b95130022907a7fb7c4e9b2d5f6cca685a587b4b21f4b888e4e7edb0d", false},
		{EdCtx, "0305334e381af78f141cb666f6199f57bc3495335a256a95bd2a55bf546663f6", "dfc9425e4f968f7f0c29f0259cf5f9aed6851c2bb4ad8bfb860cfee0ab248292", "f726936d19c800494e3fdaff20b276a8", "626172",
			"fc60d5872fc46b3aa69f8b5b4351d5808f92bcc044606db097abab6dbcb1aee3216c48e8b3b66431b5b186d1d28f8ee15a5ca2df6668346291c2043d4eb3e90d", false},
		{EdPh, "833fe62409237b9d62ec77587520911e9a759cec1d19755b7da901b96dca3d42", "ec172b93ad5e563bf4932c70e1245034c35467ef2efd4d64ebf819683467e2bf", "616263", "",
			"98a70222f0b8121aa9d30f813d683f809e462b469c7ff87639499bb94e6dae4131f85042463c2a355a2003d062adf5aaa10b8c61e636062aaad11c2a26083406", true},
	}
	for i, v := range vecs {
		seed, pk, msg, ctx, sig := c02unhex(t, v.seed), c02unhex(t, v.pk), c02unhex(t, v.msg), c02unhex(t, v.ctx), c02unhex(t, v.sig)
		if v.prehash {
			d := sha512.Sum512(msg)
			msg = d[:]
		}
		if !bytes.Equal(EdPublicKey(seed), pk) {
			t.Fatalf("vector %d: public key", i)
		}
		if got := C02SignWithPub(seed, pk, v.v, ctx, msg, nil); !bytes.Equal(got, sig) {
			t.Fatalf("vector %d: got %x want %x", i, got, sig)
		}
	}
}

// Agreement with EdSign / EdSignHedged / crypto/ed25519 on derived inputs, and
// structural facts about the added-randomness construction: the header
// dom2||Z||prefix||pad is exactly 1024 bytes, the result depends on Z, differs
// from the deterministic signature, and verifies under crypto/ed25519.
func TestC02SignWithPubAgrees(t *testing.T) {
	for i := 0; i < 24; i++ {
		sd := sha512.Sum512([]byte{0xc2, byte(i)})
		seed := sd[:32]
		priv := ed25519.NewKeyFromSeed(seed)
		pk := []byte(priv[32:])
		ctxs := [][]byte{nil, {1}, bytes.Repeat([]byte{byte(i)}, 17), bytes.Repeat([]byte{0xff}, 255)}
		ctx := ctxs[i%4]
		v := EdPure
		hash := crypto.Hash(0)
		msg := bytes.Repeat([]byte{byte(i)}, i*11)
		if len(ctx) > 0 {
			v = EdCtx
		}
		if i%3 == 2 {
			v, hash = EdPh, crypto.SHA512
			d := sha512.Sum512(msg)
			msg = d[:]
		}
		opts := &ed25519.Options{Hash: hash, Context: string(ctx)}
		det := C02SignWithPub(seed, pk, v, ctx, msg, nil)
		if !bytes.Equal(det, EdSign(seed, v, ctx, msg)) {
			t.Fatalf("%d: deterministic differs from EdSign", i)
		}
		std, err := priv.Sign(nil, msg, opts)
		if err != nil || !bytes.Equal(det, std) {
			t.Fatalf("%d: deterministic differs from crypto/ed25519 (%v)", i, err)
		}
		z := sd[32:]
		hed := C02SignWithPub(seed, pk, v, ctx, msg, z)
		if !bytes.Equal(hed, EdSignHedged(seed, v, ctx, msg, z)) {
			t.Fatalf("%d: hedged differs from EdSignHedged", i)
		}
		if bytes.Equal(hed[:32], det[:32]) {
			t.Fatalf("%d: hedged R equals deterministic R", i)
		}
		z2 := append([]byte(nil), z...)
		z2[i%32] ^= 1
		if bytes.Equal(C02SignWithPub(seed, pk, v, ctx, msg, z2)[:32], hed[:32]) {
			t.Fatalf("%d: hedged R does not depend on Z", i)
		}
		if err := ed25519.VerifyWithOptions(pk, msg, hed, opts); err != nil {
			t.Fatalf("%d: hedged signature rejected by crypto/ed25519: %v", i, err)
		}
		// explicit concatenation of the nonce input
		_, prefix := EdExpand(seed)
		in := append([]byte(nil), Dom2(v, ctx)...)
		in = append(in, z...)
		in = append(in, prefix...)
		in = append(in, make([]byte, 1024-len(in))...)
		if len(in) != 1024 {
			t.Fatal("header length")
		}
		in = append(in, msg...)
		d := sha512.Sum512(in)
		if !bytes.Equal(MulBase(SMod(FromLE(d[:]))).Encode(), hed[:32]) {
			t.Fatalf("%d: hedged R is not [H(header||M)]B", i)
		}
	}
}
