package verifref

import (
	"encoding/hex"
	"math/big"
	"testing"
)

func TestConstants(t *testing.T) {
	if L.String() != "7237005577332262213973186563042994240857116359379907606001950938285454250989" {
		t.Fatal("L")
	}
	if !L.ProbablyPrime(40) || !P.ProbablyPrime(40) {
		t.Fatal("primality")
	}
	if D.String() != "37095705934669439343138083508754565189542113879843219016388785533085940283555" {
		t.Fatal("d", D)
	}
	if Base.X.String() != "15112221349535400772501151409588531511454012693041857206046113283949847762202" {
		t.Fatal("Bx", Base.X)
	}
	if !Base.OnCurve() || !Mul(L, Base).IsIdentity() {
		t.Fatal("base order")
	}
	if FSqr(SqrtM1).Cmp(FNeg(big1)) != 0 || FIsNeg(SqrtM1) {
		t.Fatal("sqrt(-1)")
	}
	if hex.EncodeToString(Base.Encode()) != "5866666666666666666666666666666666666666666666666666666666666666" {
		t.Fatal("B enc")
	}
}

func TestMulAgreesWithAffine(t *testing.T) {
	ts := Torsion8()
	if len(ts) != 8 {
		t.Fatal("torsion")
	}
	for i, tp := range ts {
		if !tp.OnCurve() || !IsSmallOrder(tp) {
			t.Fatal("torsion point", i)
		}
		if i != 0 && i%2 == 1 && Double(Double(tp)).IsIdentity() {
			t.Fatal("odd multiples must have order 8")
		}
	}
	k := big.NewInt(1)
	for i := 0; i < 40; i++ {
		k.Mul(k, big.NewInt(0x9e3779b97f4a7c)).Add(k, big.NewInt(int64(i))).Mod(k, new(big.Int).Lsh(big1, 255))
		p := Add(MulBase(big.NewInt(int64(i+3))), ts[i%8])
		a, b := Mul(k, p), MulAffine(k, p)
		if !a.Equal(b) || !a.OnCurve() {
			t.Fatalf("Mul != MulAffine at %d", i)
		}
		q := Add(p, ts[(i+3)%8])
		if !Add(p, q).Equal(AddAffine(p, q)) {
			t.Fatal("Add != AddAffine")
		}
		di := Decode(a.Encode())
		if !di.OK || !di.Canonical || !di.P.Equal(a) {
			t.Fatal("roundtrip")
		}
	}
}

func TestSqrtRatioAgree(t *testing.T) {
	vals := []*big.Int{bi(0), bi(1), bi(2), bi(4), FNeg(bi(1)), SqrtM1, D, bi(486662), FNeg(bi(486664))}
	for _, u := range vals {
		for _, v := range vals {
			a, r := SqrtRatioM1(u, v)
			b, s := SqrtRatioMath(u, v)
			if a != b || r.Cmp(s) != 0 {
				t.Fatalf("sqrt_ratio(%v,%v): (%v,%v) vs (%v,%v)", u, v, a, r, b, s)
			}
		}
	}
}
