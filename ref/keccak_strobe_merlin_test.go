package verifref

import (
	"bytes"
	"encoding/hex"
	"testing"

	"golang.org/x/crypto/sha3"
)

// ---- Keccak-f[1600]: validated by building the FIPS 202 sponge on top of the
// reference permutation and comparing with x/crypto/sha3.

// keccakTestSponge is SPONGE[Keccak-f[1600], pad10*1, rate](msg || suffix bits, outLen)
// with the domain-separation suffix given as the usual "delimited suffix" byte.
func keccakTestSponge(rate int, suffix byte, msg []byte, outLen int) []byte {
	var st [200]byte
	for len(msg) >= rate {
		for i := 0; i < rate; i++ {
			st[i] ^= msg[i]
		}
		KeccakF1600(&st)
		msg = msg[rate:]
	}
	for i := range msg {
		st[i] ^= msg[i]
	}
	st[len(msg)] ^= suffix
	st[rate-1] ^= 0x80
	KeccakF1600(&st)
	var out []byte
	for {
		out = append(out, st[:rate]...)
		if len(out) >= outLen {
			return out[:outLen]
		}
		KeccakF1600(&st)
	}
}

func keccakTestBytes(seed uint64, n int) []byte {
	out := make([]byte, n)
	x := seed*0x9e3779b97f4a7c15 + 0x1234567
	for i := range out {
		x ^= x << 13
		x ^= x >> 7
		x ^= x << 17
		out[i] = byte(x >> 32)
	}
	return out
}

func TestKeccakZeroStateVector(t *testing.T) {
	// First lanes of Keccak-f[1600] applied to the all-zero state
	// (KeccakCodePackage TestVectors/KeccakF-1600-IntermediateValues.txt).
	var st [200]byte
	KeccakF1600(&st)
	want := "e7dde140798f25f18a47c033f9ccd584eea95aa61e2698d54d49806f304715bd57d05362054e288bd46f8e7f2da497ff"
	if hex.EncodeToString(st[:48]) != want {
		t.Fatalf("Keccak-f[1600](0) = %x", st[:48])
	}
	if keccakRC[0] != 1 || keccakRC[1] != 0x8082 || keccakRC[2] != 0x800000000000808a || keccakRC[23] != 0x8000000080008008 {
		t.Fatalf("round constants %x", keccakRC)
	}
	// FIPS 202 Table 2 spot checks
	if keccakRho[0][0] != 0 || keccakRho[1][0] != 1 || keccakRho[0][2] != 3 || keccakRho[2][3] != 15 || keccakRho[4][4] != 78%64 || keccakRho[3][2] != 153%64 || keccakRho[1][1] != 300%64 {
		t.Fatalf("rho offsets %v", keccakRho)
	}
}

func TestKeccakAgainstSHA3(t *testing.T) {
	n := 0
	for l := 0; l <= 700; l++ {
		msg := keccakTestBytes(uint64(l), l)
		want := sha3.Sum256(msg)
		if got := keccakTestSponge(136, 0x06, msg, 32); !bytes.Equal(got, want[:]) {
			t.Fatalf("SHA3-256 len %d: got %x want %x", l, got, want)
		}
		w512 := sha3.Sum512(msg)
		if got := keccakTestSponge(72, 0x06, msg, 64); !bytes.Equal(got, w512[:]) {
			t.Fatalf("SHA3-512 len %d", l)
		}
		outLen := (l*7 + 3) % 600
		wantX := make([]byte, outLen)
		sha3.ShakeSum128(wantX, msg)
		if got := keccakTestSponge(168, 0x1f, msg, outLen); !bytes.Equal(got, wantX) {
			t.Fatalf("SHAKE128 len %d out %d", l, outLen)
		}
		wantY := make([]byte, outLen)
		sha3.ShakeSum256(wantY, msg)
		if got := keccakTestSponge(136, 0x1f, msg, outLen); !bytes.Equal(got, wantY) {
			t.Fatalf("SHAKE256 len %d out %d", l, outLen)
		}
		n += 4
	}
	// extreme bit patterns
	for _, b := range []byte{0x00, 0xff, 0x80, 0x01, 0x55, 0xaa} {
		for _, l := range []int{1, 135, 136, 137, 167, 168, 169, 1000, 4096} {
			msg := bytes.Repeat([]byte{b}, l)
			want := sha3.Sum256(msg)
			if got := keccakTestSponge(136, 0x06, msg, 32); !bytes.Equal(got, want[:]) {
				t.Fatalf("SHA3-256 pattern %02x len %d", b, l)
			}
			wantX := make([]byte, 777)
			sha3.ShakeSum128(wantX, msg)
			if got := keccakTestSponge(168, 0x1f, msg, 777); !bytes.Equal(got, wantX) {
				t.Fatalf("SHAKE128 pattern %02x len %d", b, l)
			}
		}
	}
	// lanes view agrees with the byte view
	var st [200]byte
	copy(st[:], keccakTestBytes(99, 200))
	var w [25]uint64
	for i := range w {
		for j := 7; j >= 0; j-- {
			w[i] = w[i]<<8 | uint64(st[8*i+j])
		}
	}
	KeccakF1600(&st)
	KeccakF1600Lanes(&w)
	for i := range w {
		for j := 0; j < 8; j++ {
			if st[8*i+j] != byte(w[i]>>(8*uint(j))) {
				t.Fatal("KeccakF1600Lanes disagrees with KeccakF1600")
			}
		}
	}
}

// ---- STROBE: the vector of /repo/internal/strobe/strobe_test.go ("Generated
// with mimoo/StrobeGo"), expected strings copied as data.

func TestStrobeStrobeGoVector(t *testing.T) {
	const (
		expectedHex  = "c4728cdd0361684d643a44221d16dc4677c62ed74a7f103635bd9cb6f3cc11bdd8405b105cd7de36f800dda96ea52c6adab88225c44faba4281dcdf84b2f3454"
		expectedHex2 = "16671f5f3603853adaf55614387d5604"
	)
	data := make([]byte, 1024)
	for i := range data {
		data[i] = byte(i)
	}
	s := NewStrobe([]byte("test-strobe-sanity"))
	s.MetaAD(data, false)
	key := []byte("test-strobe-sanity-key")
	s.KEY(key, false)
	if string(key) != "test-strobe-sanity-key" {
		t.Fatal("KEY modified its input")
	}
	s2 := s.Clone()
	s.AD(data, false)
	s.AD(data, true)
	if got := hex.EncodeToString(s.PRF(64, false)); got != expectedHex {
		t.Fatalf("PRF: %s", got)
	}
	if got := hex.EncodeToString(s2.PRF(16, false)); got != expectedHex2 {
		t.Fatalf("PRF (clone): %s", got)
	}

	// `more` is pure streaming: splitting the data of one operation anywhere
	// gives the same state (STROBE spec section 6.3, "streaming").
	for _, split := range []int{0, 1, 100, 147, 148, 149, 165, 166, 167, 512, 1023, 1024} {
		a := NewStrobe([]byte("test-strobe-sanity"))
		a.MetaAD(data[:split], false)
		a.MetaAD(data[split:], true)
		a.KEY(key[:5], false)
		a.KEY(key[5:], true)
		a2 := a.Clone()
		a.AD(data, false)
		a.AD(data[:split], true)
		a.AD(data[split:], true)
		out := a.PRF(10, false)
		out = append(out, a.PRF(54, true)...)
		if got := hex.EncodeToString(out); got != expectedHex {
			t.Fatalf("split %d: PRF: %s", split, got)
		}
		if got := hex.EncodeToString(a2.PRF(16, false)); got != expectedHex2 {
			t.Fatalf("split %d: PRF (clone): %s", split, got)
		}
	}
}

// ---- Merlin: the upstream vectors as they appear in
// /repo/primitives/merlin/merlin_test.go (equivalence_simple,
// equivalence_complex of dalek-cryptography/merlin).

func TestMerlinUpstreamVectors(t *testing.T) {
	const simple = "d5a21972d0d5fe320c0d263fac7fffb8145aa640af6e9bca177c03c7efcf0615"
	const complex_ = "a8c933f54fae76e3f9bea93648c1308e7dfa2152dd51674ff3ca438351cf003c"

	m := NewMerlin([]byte("test protocol"))
	m.AppendMessage([]byte("some label"), []byte("some data"))
	c1, c2 := m.Clone(), m.Clone()
	if got := hex.EncodeToString(c1.ChallengeBytes([]byte("challenge"), 32)); got != simple {
		t.Fatalf("simple (clone): %s", got)
	}
	c2.AppendMessage([]byte("someother label"), []byte("someother data"))
	if got := hex.EncodeToString(c2.ChallengeBytes([]byte("challenge"), 32)); got == simple {
		t.Fatalf("clone with extra message gave the same challenge")
	}
	if got := hex.EncodeToString(m.ChallengeBytes([]byte("challenge"), 32)); got != simple {
		t.Fatalf("simple: %s", got)
	}

	tr := NewMerlin([]byte("test protocol"))
	tr.AppendMessage([]byte("step1"), []byte("some data"))
	data := bytes.Repeat([]byte{99}, 1024)
	var chl []byte
	for i := 0; i < 32; i++ {
		chl = tr.ChallengeBytes([]byte("challenge"), 32)
		tr.AppendMessage([]byte("bigdata"), data)
		tr.AppendMessage([]byte("challengedata"), chl)
	}
	if got := hex.EncodeToString(chl); got != complex_ {
		t.Fatalf("complex: %s", got)
	}
}

// The transcript RNG has no published byte vector (upstream only tests
// collisions); check that the Merlin layer is exactly the documented STROBE
// operation sequence, and the upstream collision pattern.
func TestMerlinRNGIsDocumentedStrobeSequence(t *testing.T) {
	le32 := func(n int) []byte { return []byte{byte(n), byte(n >> 8), byte(n >> 16), byte(n >> 24)} }
	zero32 := make([]byte, 32)
	build := func(commit, witness string) (*MerlinRNG, *Strobe) {
		m := NewMerlin([]byte("test TranscriptRng collisions"))
		m.AppendMessage([]byte("com"), []byte(commit))
		s := NewStrobe([]byte("Merlin v1.0"))
		s.MetaAD([]byte("dom-sep"), false)
		s.MetaAD(le32(len("test TranscriptRng collisions")), true)
		s.AD([]byte("test TranscriptRng collisions"), false)
		s.MetaAD([]byte("com"), false)
		s.MetaAD(le32(len(commit)), true)
		s.AD([]byte(commit), false)
		s.MetaAD([]byte("witness"), false)
		s.MetaAD(le32(len(witness)), true)
		s.KEY([]byte(witness), false)
		s.MetaAD([]byte("rng"), false)
		s.KEY(zero32, false)
		return m.BuildRNG().RekeyWithWitnessBytes([]byte("witness"), []byte(witness)).Finalize(zero32), s
	}
	var outs [][]byte
	for _, c := range [][2]string{{"commitment data 1", "witness data 1"}, {"commitment data 2", "witness data 1"},
		{"commitment data 2", "witness data 2"}, {"commitment data 2", "witness data 2"}} {
		r, s := build(c[0], c[1])
		got := r.FillBytes(64)
		s.MetaAD(le32(64), false)
		want := s.PRF(64, false)
		if !bytes.Equal(got, want) {
			t.Fatalf("RNG output is not meta-AD(LE32(n)); PRF(n)")
		}
		got2 := make([]byte, 7)
		r.Read(got2)
		s.MetaAD(le32(7), false)
		if !bytes.Equal(got2, s.PRF(7, false)) {
			t.Fatalf("second read")
		}
		outs = append(outs, got)
	}
	if bytes.Equal(outs[0], outs[1]) || bytes.Equal(outs[0], outs[2]) || bytes.Equal(outs[1], outs[2]) || !bytes.Equal(outs[2], outs[3]) {
		t.Fatal("collision pattern of transcript_rng_is_bound_to_transcript_and_witnesses not reproduced")
	}
}
