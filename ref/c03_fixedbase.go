package verifref

import (
	"math/big"
	"sync"
)

// Faster construction of points of the form [a]B + T[j] for property C03.
//
// Many-term multiscalar cases need hundreds of input points per case; the
// plain double-and-add MulBase costs ~2 ms each.  C03MulBase uses a radix-16
// table of multiples of B (built once from the same RFC 8032 addition
// formula, no code shared with the library under test) so that a point costs
// one table addition per non-zero nibble and a single inversion.  It is
// validated against MulBase/MulAffine in c03_fixedbase_test.go and is used
// for *input construction* and as the fast path of expected values; harnesses
// cross-check it against the plain MulBase on a sample of every run.

var (
	c03Once sync.Once
	c03Tbl  [64][16]ext // c03Tbl[i][d] = [d * 16^i]B
)

func c03Build() {
	p := toExt(Base)
	for i := 0; i < 64; i++ {
		c03Tbl[i][0] = toExt(Identity())
		c03Tbl[i][1] = p
		for d := 2; d < 16; d++ {
			c03Tbl[i][d] = extAdd(c03Tbl[i][d-1], p)
		}
		p = extAdd(c03Tbl[i][15], p)
	}
}

func c03MulBaseExt(k *big.Int) ext {
	if k.Sign() < 0 || k.BitLen() > 256 {
		panic("verifref: C03MulBase scalar out of range")
	}
	c03Once.Do(c03Build)
	acc := toExt(Identity())
	for i := 0; i < 64; i++ {
		d := k.Bit(4*i) | k.Bit(4*i+1)<<1 | k.Bit(4*i+2)<<2 | k.Bit(4*i+3)<<3
		if d != 0 {
			acc = extAdd(acc, c03Tbl[i][d])
		}
	}
	return acc
}

// C03MulBase returns [k]B for 0 <= k < 2^256.
func C03MulBase(k *big.Int) Point { return c03MulBaseExt(k).affine() }

// C03BasePlusTorsion returns [k]B + T[j mod 8] (Torsion8 numbering) with a
// single inversion.
func C03BasePlusTorsion(k *big.Int, j int) Point {
	acc := c03MulBaseExt(k)
	j = ((j % 8) + 8) % 8
	if j != 0 {
		acc = extAdd(acc, toExt(Torsion8()[j]))
	}
	return acc.affine()
}

// C03BasePlusTorsionBatch returns [ks[i]]B + T[js[i] mod 8] for every i, sharing
// one field inversion between all points (Montgomery's trick).
func C03BasePlusTorsionBatch(ks []*big.Int, js []int) []Point {
	n := len(ks)
	es := make([]ext, n)
	prefix := make([]*big.Int, n+1)
	prefix[0] = bi(1)
	for i := range ks {
		acc := c03MulBaseExt(ks[i])
		j := ((js[i] % 8) + 8) % 8
		if j != 0 {
			acc = extAdd(acc, toExt(Torsion8()[j]))
		}
		if acc.z.Sign() == 0 {
			panic("verifref: Z = 0 for a valid point")
		}
		es[i] = acc
		prefix[i+1] = FMul(prefix[i], acc.z)
	}
	inv := FInv(prefix[n])
	out := make([]Point, n)
	for i := n - 1; i >= 0; i-- {
		zi := FMul(inv, prefix[i])
		inv = FMul(inv, es[i].z)
		out[i] = Point{FMul(es[i].x, zi), FMul(es[i].y, zi)}
	}
	return out
}
