package verifref

import (
	"bytes"
	"encoding/hex"
	"math/big"
	"testing"
)

func TestRistrettoRFCVectors(t *testing.T) {
	for i, hx := range ristVecMultiples {
		want, _ := hex.DecodeString(hx)
		p := MulBase(big.NewInt(int64(i)))
		if got := RistEncode(p); !bytes.Equal(got, want) {
			t.Fatalf("multiple %d: got %x want %x", i, got, want)
		}
		// every coset representative encodes identically
		for _, t4 := range Torsion4() {
			if got := RistEncode(Add(p, t4)); !bytes.Equal(got, want) {
				t.Fatalf("multiple %d coset: got %x want %x", i, got, want)
			}
			if !RistEqual(p, Add(p, t4)) {
				t.Fatal("RistEqual coset")
			}
		}
		q, ok := RistDecode(want)
		if !ok || !RistEqual(p, q) || !bytes.Equal(RistEncode(q), want) {
			t.Fatalf("decode multiple %d", i)
		}
	}
	for i, hx := range ristVecBad {
		b, _ := hex.DecodeString(hx)
		if _, ok := RistDecode(b); ok {
			t.Fatalf("bad encoding %d accepted", i)
		}
	}
	if len(ristVecUniform) < 5 || len(ristVecBad) < 20 || len(ristVecMultiples) != 16 {
		t.Fatal("vector extraction", len(ristVecUniform), len(ristVecBad), len(ristVecMultiples))
	}
	for i, v := range ristVecUniform {
		in, _ := hex.DecodeString(v[0])
		want, _ := hex.DecodeString(v[1])
		if got := RistEncode(RistFromUniform(in)); !bytes.Equal(got, want) {
			t.Fatalf("uniform %d: got %x want %x", i, got, want)
		}
	}
	if FIsNeg(RistInvSqrtAMinusD) {
		t.Fatal("INVSQRT_A_MINUS_D sign")
	}
	// P and P+T8 (order-8 torsion) are different elements
	p := MulBase(big.NewInt(5))
	if RistEqual(p, Add(p, Torsion8()[1])) {
		t.Fatal("P ~ P+T8")
	}
}
