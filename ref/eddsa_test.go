package verifref

import (
	"bytes"
	"crypto"
	"crypto/ed25519"
	"crypto/sha512"
	"encoding/hex"
	"math/big"
	"testing"
)

func TestEdSignMatchesStdlibAndRFC(t *testing.T) {
	// RFC 8032 7.1 TEST 2
	seed, _ := hex.DecodeString("4ccd089b28ff96da9db6c346ec114e0f5b8a319f35aba624da8cf6ed4fb8a6fb")
	pk, _ := hex.DecodeString("3d4017c3e843895a92b70aa74d1b7ebc9c982ccf2ec4968cc0cd55f12af4660c")
	sig, _ := hex.DecodeString("92a009a9f0d4cab8720e820b5f642540a2b27b5416503f8fb3762223ebdb69da085ac1e43e15996e458f3613d0f11d8c387b2eaeb4302aeeb00d291612bb0c00")
	if !bytes.Equal(EdPublicKey(seed), pk) || !bytes.Equal(EdSign(seed, EdPure, nil, []byte{0x72}), sig) {
		t.Fatal("RFC 8032 test 2")
	}
	// RFC 8032 7.2 Ed25519ctx "foo"
	seed, _ = hex.DecodeString("0305334e381af78f141cb666f6199f57bc3495335a256a95bd2a55bf546663f6")
	msg, _ := hex.DecodeString("f726936d19c800494e3fdaff20b276a8")
	sig, _ = hex.DecodeString("55a4cc2f70a54e04288c5f4cd1e45a7bb520b36292911876cada7323198dd87a8b36950b95130022907a7fb7c4e9b2d5f6cca685a587b4b21f4b888e4e7edb0d")
	if !bytes.Equal(EdSign(seed, EdCtx, []byte("foo"), msg), sig) {
		t.Fatal("RFC 8032 ctx")
	}
	// RFC 8032 7.3 Ed25519ph "abc"
	seed, _ = hex.DecodeString("833fe62409237b9d62ec77587520911e9a759cec1d19755b7da901b96dca3d42")
	ph := sha512.Sum512([]byte("abc"))
	sig, _ = hex.DecodeString("98a70222f0b8121aa9d30f813d683f809e462b469c7ff87639499bb94e6dae4131f85042463c2a355a2003d062adf5aaa10b8c61e636062aaad11c2a26083406")
	if !bytes.Equal(EdSign(seed, EdPh, nil, ph[:]), sig) {
		t.Fatal("RFC 8032 ph")
	}
	for i := 0; i < 30; i++ {
		sd := sha512.Sum512([]byte{byte(i)})
		priv := ed25519.NewKeyFromSeed(sd[:32])
		m := sd[32 : 32+i]
		if !bytes.Equal(priv[32:], EdPublicKey(sd[:32])) {
			t.Fatal("pk")
		}
		if !bytes.Equal(ed25519.Sign(priv, m), EdSign(sd[:32], EdPure, nil, m)) {
			t.Fatal("sign")
		}
		ctx := string(sd[:1+i])
		s2, err := priv.Sign(nil, m, &ed25519.Options{Context: ctx})
		if err != nil || !bytes.Equal(s2, EdSign(sd[:32], EdCtx, []byte(ctx), m)) {
			t.Fatal("sign ctx")
		}
		hm := sha512.Sum512(m)
		s3, err := priv.Sign(nil, hm[:], &ed25519.Options{Hash: crypto.SHA512, Context: ctx})
		if err != nil || !bytes.Equal(s3, EdSign(sd[:32], EdPh, []byte(ctx), hm[:])) {
			t.Fatal("sign ph")
		}
	}
}

// The three separately written verifiers agree with the flag predicate on
// their flag sets, over honest, torsion-laden, non-canonical and malleable
// inputs; and the StdLib flag set agrees with crypto/ed25519.
func TestEdVerifiersAgree(t *testing.T) {
	ts := Torsion8()
	nc := [][]byte{}
	for k := int64(0); k < 19; k++ {
		b := ToLE(new(big.Int).Add(P, big.NewInt(k)), 32)
		nc = append(nc, b)
		b2 := append([]byte(nil), b...)
		b2[31] |= 0x80
		nc = append(nc, b2)
	}
	type cs struct{ pk, msg, sig []byte }
	var cases []cs
	for i := 0; i < 24; i++ {
		sd := sha512.Sum512([]byte{0xaa, byte(i)})
		seed := sd[:32]
		a, _ := EdExpand(seed)
		msg := sd[32:40]
		// choose A = aB + T_j (mixed order for j != 0)
		A := Add(MulBase(a), ts[i%8])
		pk := A.Encode()
		r := SMod(FromLE(sd[:]))
		R := Add(MulBase(r), ts[(i/3)%8])
		Rb := R.Encode()
		k := EdChallenge(EdPure, nil, Rb, pk, msg)
		S := SAdd(r, SMul(k, a))
		sig := append(append([]byte(nil), Rb...), SEncode(S)...)
		cases = append(cases, cs{pk, msg, sig})
		// malleable S + L
		sl := append(append([]byte(nil), Rb...), ToLE(new(big.Int).Add(S, L), 32)...)
		cases = append(cases, cs{pk, msg, sl})
		// forged message
		cases = append(cases, cs{pk, append([]byte{1}, msg...), sig})
		// small order A (torsion only) with R small order and S = 0
		cases = append(cases, cs{ts[i%8].Encode(), msg, append(ts[(i+1)%8].Encode(), make([]byte, 32)...)})
		// non-canonical A / R strings with S = 0
		cases = append(cases, cs{nc[i%len(nc)], msg, append(append([]byte(nil), nc[(i*5)%len(nc)]...), make([]byte, 32)...)})
	}
	acc := map[string]int{}
	for i, c := range cases {
		f := EdAnalyse(EdPure, nil, c.pk, c.msg, c.sig)
		if got, want := f.Decide(EdFlagsFIPS), EdVerifyRFC8032(EdPure, nil, c.pk, c.msg, c.sig); got != want {
			t.Fatalf("case %d: flags(FIPS)=%v RFC8032=%v", i, got, want)
		}
		if got, want := f.Decide(EdFlagsZIP215), EdVerifyZIP215(EdPure, nil, c.pk, c.msg, c.sig); got != want {
			t.Fatalf("case %d: flags(ZIP215)=%v ZIP215=%v", i, got, want)
		}
		if got, want := f.Decide(EdFlagsStdLib), ed25519.Verify(c.pk, c.msg, c.sig); got != want {
			t.Fatalf("case %d: flags(StdLib)=%v crypto/ed25519=%v pk=%x sig=%x", i, got, want, c.pk, c.sig)
		}
		if f.Decide(EdFlagsFIPS) {
			acc["fips"]++
		}
		if f.Decide(EdFlagsZIP215) {
			acc["zip"]++
		}
		if f.Decide(EdFlagsStdLib) {
			acc["std"]++
		}
		if f.Decide(EdFlagsDefault) {
			acc["def"]++
		}
	}
	t.Logf("accepts: %v of %d", acc, len(cases))
	if acc["fips"] == 0 || acc["zip"] <= acc["fips"] || acc["std"] == 0 || acc["def"] == 0 {
		t.Fatal("degenerate case mix")
	}
}
