package verifref

// X25519 reference, transcribed literally from RFC 7748 section 5 on top of
// math/big, plus an independent "mathematical" model of the same function
// (affine group law on the Montgomery curve and on its quadratic twist) used
// to cross-check the ladder on every class of input.

import "math/big"

var (
	// x25519A24 is the RFC 7748 constant a24 = (486662 - 2) / 4 = 121665.
	x25519A24 = big.NewInt(121665)
	// X25519MontA is the Montgomery coefficient A = 486662 of curve25519.
	X25519MontA = big.NewInt(486662)
)

// X25519DecodeLittleEndian is RFC 7748 decodeLittleEndian(b, 255).
func X25519DecodeLittleEndian(b []byte) *big.Int {
	sum := new(big.Int)
	for i := 0; i < (255+7)/8; i++ {
		t := new(big.Int).Lsh(big.NewInt(int64(b[i])), uint(8*i))
		sum.Add(sum, t)
	}
	return sum
}

// X25519DecodeUCoordinate is RFC 7748 decodeUCoordinate(u, 255): the most
// significant bit of the last byte is masked; the value is NOT reduced here
// (the field arithmetic of the ladder reduces it, as the RFC requires:
// "implementations MUST accept non-canonical values and process them as if
// they had been reduced modulo the field prime").
func X25519DecodeUCoordinate(u []byte) *big.Int {
	if len(u) != 32 {
		panic("verifref: X25519DecodeUCoordinate length")
	}
	uList := append([]byte(nil), u...)
	// bits % 8 = 7
	uList[len(uList)-1] &= (1 << (255 % 8)) - 1
	return X25519DecodeLittleEndian(uList)
}

// X25519EncodeUCoordinate is RFC 7748 encodeUCoordinate(u, 255).
func X25519EncodeUCoordinate(u *big.Int) []byte {
	u = new(big.Int).Mod(u, P)
	out := make([]byte, 32)
	for i := range out {
		out[i] = byte(new(big.Int).And(new(big.Int).Rsh(u, uint(8*i)), big.NewInt(0xff)).Int64())
	}
	return out
}

// X25519DecodeScalar is RFC 7748 decodeScalar25519 (clamping).
func X25519DecodeScalar(k []byte) *big.Int {
	if len(k) != 32 {
		panic("verifref: X25519DecodeScalar length")
	}
	kList := append([]byte(nil), k...)
	kList[0] &= 248
	kList[31] &= 127
	kList[31] |= 64
	return X25519DecodeLittleEndian(kList)
}

func x25519Cswap(swap uint, x2, x3 *big.Int) (*big.Int, *big.Int) {
	// dummy = mask(swap) AND (x_2 XOR x_3); x_2 ^= dummy; x_3 ^= dummy
	if swap == 1 {
		return x3, x2
	}
	return x2, x3
}

// X25519Ladder is the RFC 7748 section 5 Montgomery ladder for an integer
// scalar k (read as `bits` bits, RFC: bits = 255) and an integer u.  It
// returns x_2 * z_2^(p-2) mod p.
func X25519Ladder(k, u *big.Int, bits int) *big.Int {
	x1 := new(big.Int).Mod(u, P)
	x2 := big.NewInt(1)
	z2 := big.NewInt(0)
	x3 := new(big.Int).Set(x1)
	z3 := big.NewInt(1)
	swap := uint(0)

	for t := bits - 1; t >= 0; t-- {
		kt := k.Bit(t)
		swap ^= kt
		x2, x3 = x25519Cswap(swap, x2, x3)
		z2, z3 = x25519Cswap(swap, z2, z3)
		swap = kt

		A := FAdd(x2, z2)
		AA := FSqr(A)
		B := FSub(x2, z2)
		BB := FSqr(B)
		E := FSub(AA, BB)
		C := FAdd(x3, z3)
		D := FSub(x3, z3)
		DA := FMul(D, A)
		CB := FMul(C, B)
		x3 = FSqr(FAdd(DA, CB))
		z3 = FMul(x1, FSqr(FSub(DA, CB)))
		x2 = FMul(AA, BB)
		z2 = FMul(E, FAdd(AA, FMul(x25519A24, E)))
	}
	x2, x3 = x25519Cswap(swap, x2, x3)
	z2, z3 = x25519Cswap(swap, z2, z3)
	_ = x3
	_ = z3
	return FMul(x2, FPow(z2, new(big.Int).Sub(P, big2)))
}

// X25519 is the RFC 7748 function X25519(k, u) on 32-byte strings.
func X25519(k, u []byte) []byte {
	return X25519EncodeUCoordinate(X25519Ladder(X25519DecodeScalar(k), X25519DecodeUCoordinate(u), 255))
}

// X25519Unclamped runs the same ladder on the scalar bytes as they are
// (value must be < 2^255): the function computed by a bare Montgomery-ladder
// scalar multiplication such as curve.MontgomeryPoint.Mul.
func X25519Unclamped(k, u []byte) []byte {
	ki := FromLE(k)
	if ki.BitLen() > 255 {
		panic("verifref: X25519Unclamped scalar >= 2^255")
	}
	return X25519EncodeUCoordinate(X25519Ladder(ki, X25519DecodeUCoordinate(u), 255))
}

// X25519BasepointU is the u-coordinate 9 as 32 bytes.
func X25519BasepointU() []byte { return append([]byte{9}, make([]byte, 31)...) }

// ---------------------------------------------------------------------------
// Mathematical model.
//
// M_B : B v^2 = u^3 + A u^2 + u over GF(p).  B = 1 is curve25519; B = 2 (a
// non-square, p = 5 mod 8) is its quadratic twist.  Every u in GF(p) is the
// u-coordinate of a point of exactly one of them (or of both when v = 0,
// i.e. u = 0).  X25519's x-only function is u([k]P) with the point at
// infinity mapped to 0 (Bernstein, "Curve25519", Theorem 2.1).

// X25519MontRHS returns u^3 + A u^2 + u.
func X25519MontRHS(u *big.Int) *big.Int {
	u = FMod(u)
	u2 := FSqr(u)
	return FAdd(FAdd(FMul(u2, u), FMul(X25519MontA, u2)), u)
}

// X25519OnCurve reports whether u is the u-coordinate of a point of curve25519
// itself (u^3 + A u^2 + u is a square, 0 included); otherwise u is on the twist.
func X25519OnCurve(u *big.Int) bool { return FIsSquare(X25519MontRHS(u)) }

type x25519Pt struct {
	u, v *big.Int
	inf  bool
}

func x25519PtAdd(b *big.Int, p, q x25519Pt) x25519Pt {
	if p.inf {
		return q
	}
	if q.inf {
		return p
	}
	var lam *big.Int
	if p.u.Cmp(q.u) == 0 {
		if FAdd(p.v, q.v).Sign() == 0 {
			return x25519Pt{inf: true} // P + (-P), includes doubling a 2-torsion point
		}
		// doubling: lambda = (3u^2 + 2Au + 1) / (2Bv)
		num := FAdd(FAdd(FMul(bi(3), FSqr(p.u)), FMul(FMul(big2, X25519MontA), p.u)), big1)
		lam = FDiv(num, FMul(FMul(big2, b), p.v))
	} else {
		lam = FDiv(FSub(q.v, p.v), FSub(q.u, p.u))
	}
	// u3 = B lambda^2 - A - u1 - u2 ; v3 = lambda (u1 - u3) - v1
	u3 := FSub(FSub(FSub(FMul(b, FSqr(lam)), X25519MontA), p.u), q.u)
	v3 := FSub(FMul(lam, FSub(p.u, u3)), p.v)
	return x25519Pt{u: u3, v: v3}
}

// X25519Math returns u([k]P) for a point P with u-coordinate u (mod p) on
// curve25519 or its twist, computed with the affine chord-and-tangent law;
// infinity maps to 0.  k >= 0.
func X25519Math(k, u *big.Int) *big.Int {
	u = FMod(u)
	rhs := X25519MontRHS(u)
	b := big.NewInt(1)
	v, ok := FSqrt(rhs)
	if !ok {
		b = big.NewInt(2)
		v, ok = FSqrt(FDiv(rhs, b))
		if !ok {
			panic("verifref: u is on neither curve nor twist")
		}
	}
	p := x25519Pt{u: u, v: v}
	if !x25519PtOn(b, p) {
		panic("verifref: lifted point not on curve")
	}
	r := x25519Pt{inf: true}
	for i := k.BitLen() - 1; i >= 0; i-- {
		r = x25519PtAdd(b, r, r)
		if k.Bit(i) == 1 {
			r = x25519PtAdd(b, r, p)
		}
	}
	if r.inf {
		return big.NewInt(0)
	}
	return r.u
}

func x25519PtOn(b *big.Int, p x25519Pt) bool {
	return FMul(b, FSqr(p.v)).Cmp(X25519MontRHS(p.u)) == 0
}

// X25519LowOrderU returns the u-coordinates (reduced) of all points of small
// order on curve25519 and its twist, computed from their definitions:
// 0 (order 2), 1 (order 4), the two order-8 values (images of the order-8
// Edwards points under u = (1+y)/(1-y)), and -1 (order 4 on the twist).
func X25519LowOrderU() []*big.Int {
	out := []*big.Int{big.NewInt(0), big.NewInt(1)}
	ts := Torsion8()
	u1, u3 := ts[1].MontgomeryU(), ts[3].MontgomeryU()
	if u1.Cmp(u3) > 0 {
		u1, u3 = u3, u1
	}
	out = append(out, u1, u3, new(big.Int).Sub(P, big1))
	return out
}

// X25519LowOrderStrings returns every 32-byte string that X25519 maps to the
// all-zero output for every clamped scalar: the five low-order values, their
// non-canonical aliases u + p < 2^255 (p, p + 1), and all of these with bit
// 255 set.
func X25519LowOrderStrings() [][]byte {
	var out [][]byte
	two255 := new(big.Int).Lsh(big1, 255)
	for _, u := range X25519LowOrderU() {
		for _, v := range []*big.Int{u, new(big.Int).Add(u, P)} {
			if v.Cmp(two255) >= 0 {
				continue
			}
			b := ToLE(v, 32)
			out = append(out, b)
			c := append([]byte(nil), b...)
			c[31] |= 0x80
			out = append(out, c)
		}
	}
	return out
}
