package verifref

// Merlin v1.0 transcripts (merlin.cool, "Transcript Protocols" / the
// dalek-cryptography/merlin design notes) over the reference STROBE-128:
//
//   new(label):                 STROBE-128("Merlin v1.0"); append_message("dom-sep", label)
//   append_message(l, m):       meta-AD(l || LE32(len m)) ; AD(m)
//   append_u64(l, x):           append_message(l, LE64(x))
//   challenge_bytes(l, n):      meta-AD(l || LE32(n)) ; PRF(n)
//   build_rng():                clone of the STROBE state
//   rekey_with_witness_bytes(l, w): meta-AD(l || LE32(len w)) ; KEY(w)
//   finalize(rng):              meta-AD("rng") ; KEY(32 bytes from rng)
//   fill_bytes(n):              meta-AD(LE32(n)) ; PRF(n)
//
// where "x || y" inside one meta-AD is meta-AD(x, more=false) followed by
// meta-AD(y, more=true).

func merlinLE32(n int) []byte {
	if n < 0 || uint64(n) > 0xffffffff {
		panic("verifref: merlin: length does not fit 32 bits")
	}
	return []byte{byte(n), byte(n >> 8), byte(n >> 16), byte(n >> 24)}
}

// Merlin is a reference transcript.
type Merlin struct {
	s *Strobe
}

// NewMerlin creates a transcript with the given application label.
func NewMerlin(label []byte) *Merlin {
	m := &Merlin{s: NewStrobe([]byte("Merlin v1.0"))}
	m.AppendMessage([]byte("dom-sep"), label)
	return m
}

// Clone returns an independent copy of the transcript.
func (m *Merlin) Clone() *Merlin { return &Merlin{s: m.s.Clone()} }

// AppendMessage appends a labelled message.
func (m *Merlin) AppendMessage(label, msg []byte) {
	m.s.MetaAD(label, false)
	m.s.MetaAD(merlinLE32(len(msg)), true)
	m.s.AD(msg, false)
}

// AppendU64 appends a labelled 64-bit integer (little-endian).
func (m *Merlin) AppendU64(label []byte, x uint64) {
	var b [8]byte
	for i := range b {
		b[i] = byte(x >> (8 * uint(i)))
	}
	m.AppendMessage(label, b[:])
}

// ChallengeBytes extracts n challenge bytes under the given label.
func (m *Merlin) ChallengeBytes(label []byte, n int) []byte {
	m.s.MetaAD(label, false)
	m.s.MetaAD(merlinLE32(n), true)
	return m.s.PRF(n, false)
}

// Events reports the block-boundary bookkeeping of the underlying STROBE object.
func (m *Merlin) Events() StrobeEvents { return m.s.Ev }

// Pos reports the cursor of the underlying STROBE object.
func (m *Merlin) Pos() int { return m.s.Pos() }

// BuildRNG starts the construction of a transcript-bound RNG.
func (m *Merlin) BuildRNG() *MerlinRNGBuilder { return &MerlinRNGBuilder{s: m.s.Clone()} }

// MerlinRNGBuilder re-keys a transcript copy with witness data.
type MerlinRNGBuilder struct {
	s *Strobe
}

// RekeyWithWitnessBytes re-keys with labelled witness bytes; returns the builder.
func (b *MerlinRNGBuilder) RekeyWithWitnessBytes(label, witness []byte) *MerlinRNGBuilder {
	b.s.MetaAD(label, false)
	b.s.MetaAD(merlinLE32(len(witness)), true)
	b.s.KEY(witness, false)
	return b
}

// Events reports the block-boundary bookkeeping of the underlying STROBE object.
func (b *MerlinRNGBuilder) Events() StrobeEvents { return b.s.Ev }

// Finalize re-keys with 32 bytes of external randomness and returns the RNG.
// The builder must not be used afterwards.
func (b *MerlinRNGBuilder) Finalize(random32 []byte) *MerlinRNG {
	if len(random32) != 32 {
		panic("verifref: merlin: finalize needs exactly 32 random bytes")
	}
	b.s.MetaAD([]byte("rng"), false)
	b.s.KEY(random32, false)
	r := &MerlinRNG{s: b.s}
	b.s = nil
	return r
}

// MerlinRNG is the finalized transcript RNG.
type MerlinRNG struct {
	s *Strobe
}

// FillBytes produces the next n bytes.
func (r *MerlinRNG) FillBytes(n int) []byte {
	r.s.MetaAD(merlinLE32(n), false)
	return r.s.PRF(n, false)
}

// Read implements io.Reader on top of FillBytes.
func (r *MerlinRNG) Read(p []byte) (int, error) {
	copy(p, r.FillBytes(len(p)))
	return len(p), nil
}

// Events reports the block-boundary bookkeeping of the underlying STROBE object.
func (r *MerlinRNG) Events() StrobeEvents { return r.s.Ev }
