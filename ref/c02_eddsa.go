package verifref

// C02SignWithPub is RFC 8032 5.1.6 with the public key supplied by the caller
// instead of being recomputed as [a]B: one reference scalar multiplication
// (R = [r]B) per signature instead of two.  The caller is expected to have
// obtained pub from an independent oracle (crypto/ed25519, or EdPublicKey).
//
//	z == nil : r = H(dom2 || prefix || M)                                  (deterministic, RFC 8032)
//	z != nil : r = H(dom2 || Z || prefix || 0^(1024-|dom2|-|Z|-32) || M)   (the library's added-randomness construction)
//
// It is validated in c02_eddsa_test.go against the RFC 8032 section 7 vectors,
// against crypto/ed25519, and against EdSign / EdSignHedged.
func C02SignWithPub(seed, pub []byte, v EdVariant, ctx, msg, z []byte) []byte {
	a, prefix := EdExpand(seed)
	d2 := Dom2(v, ctx)
	var rh []byte
	if z == nil {
		rh = h512(d2, prefix, msg)
	} else {
		pad := make([]byte, 1024-(len(d2)+len(z)+len(prefix)))
		rh = h512(d2, z, prefix, pad, msg)
	}
	r := SMod(FromLE(rh))
	R := MulBase(r).Encode()
	k := SMod(FromLE(h512(d2, R, pub, msg)))
	S := SAdd(r, SMul(k, a))
	return append(R, SEncode(S)...)
}
