package verifref

// LRU is a sequential model of a fixed-capacity least-recently-used cache,
// written as the plainest possible data structure (a slice ordered by recency
// and a map).  It is the oracle for the expanded-public-key cache of
// primitives/ed25519/extra/cache (properties C09 and C18) and mirrors the
// behaviour that package documents / exhibits:
//
//   - Get(k) returns the value stored for a resident key and marks the key as
//     the most recently used one; a miss returns (zero, false) and changes
//     nothing.
//   - Put(k, v) of a resident key only refreshes its recency: the value that
//     was stored by the Put that made the key resident is kept ("Already in
//     the cache, and now marked as most-recently-used").
//   - Put(k, v) of a non-resident key inserts it as the most recently used
//     key, after evicting the least recently used key if the cache is full.
//
// The zero value is not usable; call NewLRU.
type LRU[K comparable, V any] struct {
	capacity int
	order    []K // most recently used first
	vals     map[K]V
}

// NewLRU returns an empty model cache.  capacity must be positive.
func NewLRU[K comparable, V any](capacity int) *LRU[K, V] {
	if capacity <= 0 {
		panic("verifref: LRU capacity must be positive")
	}
	return &LRU[K, V]{capacity: capacity, vals: map[K]V{}}
}

func (l *LRU[K, V]) touch(k K) {
	for i, x := range l.order {
		if x == k {
			copy(l.order[1:i+1], l.order[:i])
			l.order[0] = k
			return
		}
	}
	panic("verifref: LRU order/vals out of sync")
}

// Get returns the resident value of k and refreshes its recency.
func (l *LRU[K, V]) Get(k K) (V, bool) {
	v, ok := l.vals[k]
	if !ok {
		var zero V
		return zero, false
	}
	l.touch(k)
	return v, true
}

// Peek returns the resident value of k without touching the recency order.
func (l *LRU[K, V]) Peek(k K) (V, bool) {
	v, ok := l.vals[k]
	return v, ok
}

// Put inserts (k, v).  It reports the evicted key, if any.  A resident key is
// refreshed and keeps its old value.
func (l *LRU[K, V]) Put(k K, v V) (evicted K, didEvict bool) {
	if _, ok := l.vals[k]; ok {
		l.touch(k)
		return evicted, false
	}
	if len(l.order) == l.capacity {
		evicted, didEvict = l.order[len(l.order)-1], true
		l.order = l.order[:len(l.order)-1]
		delete(l.vals, evicted)
	}
	l.order = append(l.order, k)
	copy(l.order[1:], l.order[:len(l.order)-1])
	l.order[0] = k
	l.vals[k] = v
	return evicted, didEvict
}

// Len is the number of resident keys.
func (l *LRU[K, V]) Len() int { return len(l.order) }

// Cap is the capacity.
func (l *LRU[K, V]) Cap() int { return l.capacity }

// Keys returns the resident keys, most recently used first (a copy).
func (l *LRU[K, V]) Keys() []K { return append([]K(nil), l.order...) }

// Clone returns an independent copy (values are copied shallowly).
func (l *LRU[K, V]) Clone() *LRU[K, V] {
	c := &LRU[K, V]{capacity: l.capacity, order: append([]K(nil), l.order...), vals: make(map[K]V, len(l.vals))}
	for k, v := range l.vals {
		c.vals[k] = v
	}
	return c
}
