package verifref

// RFC 9380 "Hashing to Elliptic Curves", written from the RFC text on top of
// math/big and the affine Edwards model.  Everything is done by naive
// concatenation / textbook formulas; hash primitives (stdlib, x/crypto) are
// trusted, not code under test.
//
// Section numbers in comments refer to RFC 9380.

import (
	"crypto/md5"
	"crypto/sha1"
	"crypto/sha256"
	"crypto/sha512"
	"errors"
	"hash"
	"io"
	"math/big"

	"golang.org/x/crypto/blake2b"
	"golang.org/x/crypto/sha3"
)

// H2cHash describes a fixed-output hash function H for expand_message_xmd:
// B = b_in_bytes (output size), S = s_in_bytes (input block size).  Both are
// transcribed from the defining standards (FIPS 180-4, FIPS 202, RFC 7693,
// RFC 1321), not queried from the implementation.
type H2cHash struct {
	Name string
	New  func() hash.Hash
	B, S int
}

func h2cBlake2b(n int) func() hash.Hash {
	return func() hash.Hash {
		h, err := blake2b.New(n, nil)
		if err != nil {
			panic(err)
		}
		return h
	}
}

// H2cHashes is the catalogue of hash functions known to the reference.
var H2cHashes = map[string]H2cHash{
	"SHA-256":     {"SHA-256", sha256.New, 32, 64},
	"SHA-224":     {"SHA-224", sha256.New224, 28, 64},
	"SHA-384":     {"SHA-384", sha512.New384, 48, 128},
	"SHA-512":     {"SHA-512", sha512.New, 64, 128},
	"SHA-512/256": {"SHA-512/256", sha512.New512_256, 32, 128},
	"SHA-512/224": {"SHA-512/224", sha512.New512_224, 28, 128},
	"SHA-1":       {"SHA-1", sha1.New, 20, 64},
	"MD5":         {"MD5", md5.New, 16, 64},
	"SHA3-224":    {"SHA3-224", sha3.New224, 28, 144},
	"SHA3-256":    {"SHA3-256", sha3.New256, 32, 136},
	"SHA3-384":    {"SHA3-384", sha3.New384, 48, 104},
	"SHA3-512":    {"SHA3-512", sha3.New512, 64, 72},
	"BLAKE2b-256": {"BLAKE2b-256", h2cBlake2b(32), 32, 128},
	"BLAKE2b-384": {"BLAKE2b-384", h2cBlake2b(48), 48, 128},
	"BLAKE2b-512": {"BLAKE2b-512", h2cBlake2b(64), 64, 128},
}

// Abort reasons.  RFC 9380 aborts are H2cErrEll / H2cErrLen; H2cErrHash is the
// section 5.3.1 requirement "b >= 2 * k" on H, which an implementation can
// only honour by refusing the hash.
var (
	H2cErrEll  = errors.New("h2c-ref: ell > 255")
	H2cErrLen  = errors.New("h2c-ref: len_in_bytes > 65535")
	H2cErrDST  = errors.New("h2c-ref: len(DST) > 255")
	H2cErrHash = errors.New("h2c-ref: b < 2k")
)

const h2cOversizePrefix = "H2C-OVERSIZE-DST-"

func h2cI2OSP(v, n int) []byte {
	out := make([]byte, n)
	for i := n - 1; i >= 0; i-- {
		out[i] = byte(v & 0xff)
		v >>= 8
	}
	if v != 0 {
		panic("verifref: I2OSP overflow")
	}
	return out
}

func h2cCat(parts ...[]byte) []byte {
	var out []byte
	for _, p := range parts {
		out = append(out, p...)
	}
	return out
}

func h2cH(h H2cHash, in []byte) []byte {
	x := h.New()
	x.Write(in)
	out := x.Sum(nil)
	if len(out) != h.B {
		panic("verifref: hash output size does not match table")
	}
	return out
}

// H2cXMDTrace exposes the intermediate strings of expand_message_xmd (the
// RFC's JSON vectors publish them).
type H2cXMDTrace struct {
	DSTPrime, MsgPrime []byte
}

// H2cExpandXMD is expand_message_xmd (section 5.3.1) preceded by the
// oversize-DST rule of section 5.3.3, for security level k bits.
// len_in_bytes = 0 is not an abort in the RFC: the result is the empty string.
func H2cExpandXMD(h H2cHash, k int, msg, dst []byte, lenInBytes int) ([]byte, *H2cXMDTrace, error) {
	// "b >= 2 * k" (bits).
	if 8*h.B < 2*k {
		return nil, nil, H2cErrHash
	}
	// 5.3.3: DST = H("H2C-OVERSIZE-DST-" || a_very_long_DST)
	if len(dst) > 255 {
		dst = h2cH(h, h2cCat([]byte(h2cOversizePrefix), dst))
	}
	// 1. ell = ceil(len_in_bytes / b_in_bytes)
	ell := (lenInBytes + h.B - 1) / h.B
	// 2. ABORT if ell > 255 or len_in_bytes > 65535 or len(DST) > 255
	if lenInBytes > 65535 {
		return nil, nil, H2cErrLen
	}
	if ell > 255 {
		return nil, nil, H2cErrEll
	}
	if len(dst) > 255 {
		return nil, nil, H2cErrDST
	}
	// 3. DST_prime = DST || I2OSP(len(DST), 1)
	dstPrime := h2cCat(dst, h2cI2OSP(len(dst), 1))
	// 4. Z_pad = I2OSP(0, s_in_bytes)
	zPad := h2cI2OSP(0, h.S)
	// 5. l_i_b_str = I2OSP(len_in_bytes, 2)
	libStr := h2cI2OSP(lenInBytes, 2)
	// 6. msg_prime = Z_pad || msg || l_i_b_str || I2OSP(0, 1) || DST_prime
	msgPrime := h2cCat(zPad, msg, libStr, h2cI2OSP(0, 1), dstPrime)
	// 7. b_0 = H(msg_prime)
	b0 := h2cH(h, msgPrime)
	// 8. b_1 = H(b_0 || I2OSP(1, 1) || DST_prime)
	b := make([][]byte, ell+2)
	b[1] = h2cH(h, h2cCat(b0, h2cI2OSP(1, 1), dstPrime))
	// 9-10. b_i = H(strxor(b_0, b_(i - 1)) || I2OSP(i, 1) || DST_prime)
	for i := 2; i <= ell; i++ {
		x := make([]byte, len(b0))
		for j := range x {
			x[j] = b0[j] ^ b[i-1][j]
		}
		b[i] = h2cH(h, h2cCat(x, h2cI2OSP(i, 1), dstPrime))
	}
	// 11. uniform_bytes = b_1 || ... || b_ell
	uniform := append([]byte(nil), b[1]...)
	for i := 2; i <= ell; i++ {
		uniform = append(uniform, b[i]...)
	}
	// 12. return substr(uniform_bytes, 0, len_in_bytes)
	return uniform[:lenInBytes], &H2cXMDTrace{dstPrime, msgPrime}, nil
}

// H2cXOF is the minimal extendable-output interface the reference needs: a
// FRESH instance is obtained from the constructor for every invocation.
type H2cXOF interface {
	io.Writer
	io.Reader
}

func h2cXOFH(newXOF func() H2cXOF, in []byte, n int) []byte {
	x := newXOF()
	x.Write(in)
	out := make([]byte, n)
	if _, err := io.ReadFull(x, out); err != nil {
		panic(err)
	}
	return out
}

func H2cShake128() H2cXOF { return sha3.NewShake128() }
func H2cShake256() H2cXOF { return sha3.NewShake256() }

// H2cExpandXOF is expand_message_xof (section 5.3.2) preceded by the
// oversize-DST rule of section 5.3.3 for security level k bits.
func H2cExpandXOF(newXOF func() H2cXOF, k int, msg, dst []byte, lenInBytes int) ([]byte, *H2cXMDTrace, error) {
	// 5.3.3: DST = H("H2C-OVERSIZE-DST-" || a_very_long_DST, ceil(2 * k / 8))
	if len(dst) > 255 {
		dst = h2cXOFH(newXOF, h2cCat([]byte(h2cOversizePrefix), dst), (2*k+7)/8)
	}
	// 1. ABORT if len_in_bytes > 65535 or len(DST) > 255
	if lenInBytes > 65535 {
		return nil, nil, H2cErrLen
	}
	if len(dst) > 255 {
		return nil, nil, H2cErrDST
	}
	// 2. DST_prime = DST || I2OSP(len(DST), 1)
	dstPrime := h2cCat(dst, h2cI2OSP(len(dst), 1))
	// 3. msg_prime = msg || I2OSP(len_in_bytes, 2) || DST_prime
	msgPrime := h2cCat(msg, h2cI2OSP(lenInBytes, 2), dstPrime)
	// 4. uniform_bytes = H(msg_prime, len_in_bytes)
	return h2cXOFH(newXOF, msgPrime, lenInBytes), &H2cXMDTrace{dstPrime, msgPrime}, nil
}

// H2cExpander is expand_message with everything but (msg, DST, len) fixed.
type H2cExpander func(msg, dst []byte, lenInBytes int) ([]byte, error)

func H2cXMD(h H2cHash, k int) H2cExpander {
	return func(msg, dst []byte, n int) ([]byte, error) {
		out, _, err := H2cExpandXMD(h, k, msg, dst, n)
		return out, err
	}
}

func H2cXOFExpander(newXOF func() H2cXOF, k int) H2cExpander {
	return func(msg, dst []byte, n int) ([]byte, error) {
		out, _, err := H2cExpandXOF(newXOF, k, msg, dst, n)
		return out, err
	}
}

// Parameters of the curve25519/edwards25519 suites (section 8.5): m = 1,
// L = 48, k = 128, J = 486662, K = 1, Z = 2, h_eff = 8.
const (
	H2cL = 48
	H2cK = 128
)

var (
	h2cJ = big.NewInt(486662)
	h2cZ = big.NewInt(2)

	// H2cSqrtNeg486664 is the square root of -486664 with sgn0 = 0.
	H2cSqrtNeg486664 = func() *big.Int {
		r, ok := FSqrt(FNeg(big.NewInt(486664)))
		if !ok {
			panic("verifref: -486664 is not a square")
		}
		if h2cSgn0(r) != 0 {
			r = FNeg(r)
		}
		return r
	}()
)

// h2cSgn0 is section 4.1 for m = 1: x mod 2.
func h2cSgn0(x *big.Int) uint { return FMod(x).Bit(0) }

// h2cIsSquare is section 4: x^((q-1)/2) is 0 or 1.
func h2cIsSquare(x *big.Int) bool {
	e := FPow(x, pm1d2)
	return e.Sign() == 0 || e.Cmp(big1) == 0
}

// h2cSqrtSgn returns the square root of a (which must be a square) with the
// requested sgn0 (for a = 0 the root is 0, whose sgn0 is 0).
func h2cSqrtSgn(a *big.Int, sgn uint) *big.Int {
	r, ok := FSqrt(a)
	if !ok {
		panic("verifref: h2cSqrtSgn of a non-square")
	}
	if h2cSgn0(r) != sgn {
		r = FNeg(r)
	}
	return r
}

// H2cHashToField is hash_to_field (section 5.2) for m = 1, L = 48, p = 2^255-19.
// It also returns the uniform bytes.
func H2cHashToField(exp H2cExpander, msg, dst []byte, count int) ([]*big.Int, []byte, error) {
	// 1. len_in_bytes = count * m * L
	lenInBytes := count * 1 * H2cL
	// 2. uniform_bytes = expand_message(msg, DST, len_in_bytes)
	uniform, err := exp(msg, dst, lenInBytes)
	if err != nil {
		return nil, nil, err
	}
	var us []*big.Int
	for i := 0; i < count; i++ {
		// 5. elm_offset = L * (j + i * m);  6. tv = substr(uniform_bytes, elm_offset, L)
		off := H2cL * i
		tv := uniform[off : off+H2cL]
		// 7. e_j = OS2IP(tv) mod p
		us = append(us, FMod(new(big.Int).SetBytes(tv)))
	}
	return us, uniform, nil
}

// H2cFieldFromUniform is OS2IP(tv) mod p for one 48-byte chunk.
func H2cFieldFromUniform(tv []byte) *big.Int {
	if len(tv) != H2cL {
		panic("verifref: H2cFieldFromUniform length")
	}
	return FMod(new(big.Int).SetBytes(tv))
}

// H2cMapToCurveElligator2 is the generic map_to_curve_elligator2 of section
// 6.7.1 for the Montgomery curve K * t^2 = s^3 + J * s^2 + s with J = 486662,
// K = 1 and Z = 2.  Returns (s, t) and whether gx1 was square.
func H2cMapToCurveElligator2(u *big.Int) (s, t *big.Int, gx1Square bool) {
	u = FMod(u)
	// With K = 1: J / K = J and 1 / K^2 = 1.
	g := func(x *big.Int) *big.Int {
		// x^3 + (J / K) * x^2 + x / K^2
		x2 := FSqr(x)
		return FAdd(FAdd(FMul(x2, x), FMul(h2cJ, x2)), x)
	}
	// 1. x1 = -(J / K) * inv0(1 + Z * u^2)
	x1 := FMul(FNeg(h2cJ), FInv(FAdd(big1, FMul(h2cZ, FSqr(u)))))
	// 2. If x1 == 0, set x1 = -(J / K)
	if x1.Sign() == 0 {
		x1 = FNeg(h2cJ)
	}
	// 3. gx1 = x1^3 + (J / K) * x1^2 + x1 / K^2
	gx1 := g(x1)
	// 4. x2 = -x1 - (J / K)
	x2 := FSub(FNeg(x1), h2cJ)
	// 5. gx2 = x2^3 + (J / K) * x2^2 + x2 / K^2
	gx2 := g(x2)
	var x, y *big.Int
	if h2cIsSquare(gx1) {
		// 6. If is_square(gx1), set x = x1, y = sqrt(gx1) with sgn0(y) == 1.
		x = x1
		y = h2cSqrtSgn(gx1, 1)
		if gx1.Sign() == 0 {
			y = big.NewInt(0) // no root with sgn0 == 1 exists; cannot happen (x1 != 0)
		}
		gx1Square = true
	} else {
		// 7. Else set x = x2, y = sqrt(gx2) with sgn0(y) == 0.
		x = x2
		y = h2cSqrtSgn(gx2, 0)
	}
	// 8. s = x * K   9. t = y * K
	return x, y, gx1Square
}

// H2cOnMontgomery checks t^2 = s^3 + 486662 s^2 + s.
func H2cOnMontgomery(s, t *big.Int) bool {
	s2 := FSqr(s)
	rhs := FAdd(FAdd(FMul(s2, s), FMul(h2cJ, s2)), s)
	return FSqr(t).Cmp(rhs) == 0
}

// H2cMontToEdwards is the rational map of appendix D.1 (used by section
// 6.8.2): (v, w) = (sqrt(-486664) * s / t, (s - 1) / (s + 1)), and (0, 1) in
// the exceptional cases t == 0 or s == -1.  exceptional reports which.
func H2cMontToEdwards(s, t *big.Int) (p Point, exceptional bool) {
	s, t = FMod(s), FMod(t)
	if t.Sign() == 0 || FAdd(s, big1).Sign() == 0 {
		return Identity(), true
	}
	v := FMul(H2cSqrtNeg486664, FDiv(s, t))
	w := FDiv(FSub(s, big1), FAdd(s, big1))
	return Point{v, w}, false
}

// H2cMapToEdwards is map_to_curve_elligator2_edwards25519 defined generically
// (section 6.8.2): Elligator 2 on curve25519 followed by the rational map.
func H2cMapToEdwards(u *big.Int) Point {
	s, t, _ := H2cMapToCurveElligator2(u)
	p, _ := H2cMontToEdwards(s, t)
	return p
}

// H2cClearCofactor is clear_cofactor with h_eff = 8, by three doublings of the
// affine addition law.
func H2cClearCofactor(p Point) Point {
	for i := 0; i < 3; i++ {
		p = AddAffine(p, p)
	}
	return p
}

// H2cTrace holds the intermediate values the RFC's suite vectors publish.
type H2cTrace struct {
	Uniform []byte
	U       []*big.Int
	Q       []Point // Q0, Q1 (RO) or Q (NU), before cofactor clearing
}

// H2cHashToCurve is hash_to_curve (section 3, random-oracle construction).
func H2cHashToCurve(exp H2cExpander, msg, dst []byte) (Point, *H2cTrace, error) {
	u, uniform, err := H2cHashToField(exp, msg, dst, 2)
	if err != nil {
		return Point{}, nil, err
	}
	q0 := H2cMapToEdwards(u[0])
	q1 := H2cMapToEdwards(u[1])
	r := AddAffine(q0, q1)
	return H2cClearCofactor(r), &H2cTrace{uniform, u, []Point{q0, q1}}, nil
}

// H2cEncodeToCurve is encode_to_curve (section 3, nonuniform construction).
func H2cEncodeToCurve(exp H2cExpander, msg, dst []byte) (Point, *H2cTrace, error) {
	u, uniform, err := H2cHashToField(exp, msg, dst, 1)
	if err != nil {
		return Point{}, nil, err
	}
	q := H2cMapToEdwards(u[0])
	return H2cClearCofactor(q), &H2cTrace{uniform, u, []Point{q}}, nil
}

// Edwards25519 XMD:SHA-512 suites of section 8.5.
func H2cEdwards25519XMDSHA512RO(msg, dst []byte) (Point, *H2cTrace, error) {
	return H2cHashToCurve(H2cXMD(H2cHashes["SHA-512"], H2cK), msg, dst)
}
func H2cEdwards25519XMDSHA512NU(msg, dst []byte) (Point, *H2cTrace, error) {
	return H2cEncodeToCurve(H2cXMD(H2cHashes["SHA-512"], H2cK), msg, dst)
}

// H2cHashToRistretto255 is appendix B: uniform_bytes = expand_message(msg,
// DST, 64); P = ristretto255_map(uniform_bytes) (RFC 9496 4.3.4).  The result
// is a representative of the ristretto255 element.
func H2cHashToRistretto255(exp H2cExpander, msg, dst []byte) (Point, []byte, error) {
	uniform, err := exp(msg, dst, 64)
	if err != nil {
		return Point{}, nil, err
	}
	return RistFromUniform(uniform), uniform, nil
}
