package verifref

import "math/big"

// Reference digit recodings for property C17.  Everything is computed on
// math/big integers by the textbook definitions (no word/window extraction),
// so it shares no mechanism with the code under test.

// C17DigitSum returns sum(digits[i] * 2^(w*i)) as an exact integer.
func C17DigitSum(digits []int, w uint) *big.Int {
	acc := new(big.Int)
	for i := len(digits) - 1; i >= 0; i-- {
		acc.Lsh(acc, w)
		acc.Add(acc, big.NewInt(int64(digits[i])))
	}
	return acc
}

// c17Mods returns the representative of k mod 2^w in [-2^(w-1), 2^(w-1)).
func c17Mods(k *big.Int, w uint) int64 {
	m := new(big.Int).Lsh(big1, w)
	r := new(big.Int).Mod(k, m).Int64() // Mod is Euclidean: r in [0, 2^w)
	if r >= int64(1)<<(w-1) {
		r -= int64(1) << w
	}
	return r
}

// C17WNAF returns the width-w non-adjacent form of k >= 0, least significant
// digit first (Handbook of Elliptic and Hyperelliptic Curve Cryptography,
// Alg. 9.20 / Hankerson-Menezes-Vanstone Alg. 3.35):
//
//	while k > 0: if k odd { d = k mods 2^w; k -= d } else { d = 0 }; emit d; k /= 2
//
// The result has no trailing zero digits.
func C17WNAF(k *big.Int, w uint) []int {
	k = new(big.Int).Set(k)
	var out []int
	for k.Sign() > 0 {
		d := int64(0)
		if k.Bit(0) == 1 {
			d = c17Mods(k, w)
			k.Sub(k, big.NewInt(d))
		}
		out = append(out, int(d))
		k.Rsh(k, 1)
	}
	return out
}

// C17SignedRadix returns the n-digit signed radix-2^w representation of k:
// digits 0..n-2 are the unique values in [-2^(w-1), 2^(w-1)), the last digit
// is whatever remains (so the sum is exactly k).  The last digit is returned
// as a big.Int since it is unbounded for an arbitrary k.
func C17SignedRadix(k *big.Int, w uint, n int) ([]int, *big.Int) {
	k = new(big.Int).Set(k)
	out := make([]int, 0, n)
	for i := 0; i < n-1; i++ {
		d := c17Mods(k, w)
		k.Sub(k, big.NewInt(d))
		k.Rsh(k, w) // exact: k is now a multiple of 2^w
		out = append(out, int(d))
	}
	return out, k
}
