package verifref

import (
	"math/big"
	"os"
	"path/filepath"
	"regexp"
	"strconv"
	"strings"
	"testing"
)

// The width-5 NAF test vector published with curve25519-dalek (scalar.rs,
// A_SCALAR / A_NAF) and carried by the tree in curve/scalar/scalar_test.go.
// It is read from the tree (data, not code) so that it is not re-typed.
func c17LoadNafVector(t *testing.T) (*big.Int, []int) {
	repo := os.Getenv("VERIF_REPO")
	if repo == "" {
		repo = "/repo"
	}
	src, err := os.ReadFile(filepath.Join(repo, "curve/scalar/scalar_test.go"))
	if err != nil {
		t.Skipf("vector source not readable: %v", err)
	}
	s := string(src)
	i := strings.Index(s, "func testNonAdjacentFormTestVector")
	if i < 0 {
		t.Fatal("vector function not found")
	}
	s = s[i:]
	grab := func(open string) string {
		a := strings.Index(s, open)
		if a < 0 {
			t.Fatalf("%q not found", open)
		}
		b := strings.Index(s[a:], "}")
		return s[a+len(open) : a+b]
	}
	var k []byte
	for _, m := range regexp.MustCompile(`0x[0-9a-fA-F]{2}`).FindAllString(grab("newRawScalar([]byte{"), -1) {
		v, _ := strconv.ParseUint(m[2:], 16, 8)
		k = append(k, byte(v))
	}
	var naf []int
	for _, m := range regexp.MustCompile(`-?\d+`).FindAllString(grab("aNaf := [256]int8{"), -1) {
		v, _ := strconv.Atoi(m)
		naf = append(naf, v)
	}
	if len(k) != 32 || len(naf) != 256 {
		t.Fatalf("bad vector shape %d %d", len(k), len(naf))
	}
	return FromLE(k), naf
}

func TestC17WNAFVector(t *testing.T) {
	k, want := c17LoadNafVector(t)
	got := C17WNAF(k, 5)
	if len(got) > 256 {
		t.Fatal("too long")
	}
	for i := range want {
		g := 0
		if i < len(got) {
			g = got[i]
		}
		if g != want[i] {
			t.Fatalf("digit %d: got %d want %d", i, g, want[i])
		}
	}
	if C17DigitSum(want, 1).Cmp(k) != 0 {
		t.Fatal("C17DigitSum disagrees with the published vector")
	}
}

// Structural self-checks of the reference recodings on a deterministic spread
// of integers: exact value, digit bounds, non-adjacency.
func TestC17RecodeSelf(t *testing.T) {
	vals := []*big.Int{bi(0), bi(1), bi(2), bi(3), bi(7), bi(8), bi(15), bi(16), bi(255), bi(256),
		new(big.Int).Sub(new(big.Int).Lsh(big1, 255), big1), new(big.Int).Lsh(big1, 254), L, new(big.Int).Sub(L, big1)}
	x := big.NewInt(0x1234567)
	for i := 0; i < 200; i++ {
		x = new(big.Int).Mul(x, big.NewInt(0x1e3779b97f4a7c15))
		x.Add(x, big.NewInt(int64(i)))
		x.Mod(x, new(big.Int).Lsh(big1, 255))
		vals = append(vals, x)
		vals = append(vals, new(big.Int).Rsh(x, uint(i)))
	}
	for _, k := range vals {
		for w := uint(2); w <= 8; w++ {
			naf := C17WNAF(k, w)
			if C17DigitSum(naf, 1).Cmp(k) != 0 {
				t.Fatalf("wnaf sum k=%v w=%d", k, w)
			}
			if len(naf) > 256 {
				t.Fatalf("wnaf of a 255-bit value needs more than 256 digits: k=%v w=%d", k, w)
			}
			last := -1000
			for i, d := range naf {
				if d == 0 {
					continue
				}
				if d%2 == 0 || d >= 1<<(w-1) || d <= -(1<<(w-1)) || i-last < int(w) {
					t.Fatalf("wnaf digit k=%v w=%d i=%d d=%d", k, w, i, d)
				}
				last = i
			}
		}
		for _, c := range []struct {
			w uint
			n int
		}{{4, 64}, {6, 43}, {7, 37}, {8, 33}} {
			ds, top := C17SignedRadix(k, c.w, c.n)
			if !top.IsInt64() {
				t.Fatal("top digit")
			}
			all := append(append([]int(nil), ds...), int(top.Int64()))
			if C17DigitSum(all, c.w).Cmp(k) != 0 {
				t.Fatalf("radix sum k=%v w=%d", k, c.w)
			}
			for _, d := range ds {
				if d < -(1<<(c.w-1)) || d >= 1<<(c.w-1) {
					t.Fatalf("radix digit range k=%v w=%d d=%d", k, c.w, d)
				}
			}
		}
	}
}
