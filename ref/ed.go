package verifref

import (
	"bytes"
	"math/big"
)

// Point is an affine point on -x^2 + y^2 = 1 + d x^2 y^2 over GF(p).
// Coordinates are always reduced into [0,p).
type Point struct {
	X, Y *big.Int
}

var (
	// Base point: y = 4/5, x the even root.
	BaseY = FDiv(bi(4), bi(5))
	Base  = func() Point {
		x, ok := xFromY(BaseY)
		if !ok {
			panic("verifref: base point")
		}
		return Point{FAbs(x), BaseY}
	}()
)

func Identity() Point { return Point{bi(0), bi(1)} }

// OnCurve checks the curve equation.
func (p Point) OnCurve() bool {
	x2, y2 := FSqr(p.X), FSqr(p.Y)
	lhs := FSub(y2, x2)
	rhs := FAdd(big1, FMul(D, FMul(x2, y2)))
	return lhs.Cmp(rhs) == 0
}

func (p Point) Equal(q Point) bool { return p.X.Cmp(q.X) == 0 && p.Y.Cmp(q.Y) == 0 }
func (p Point) IsIdentity() bool   { return p.X.Sign() == 0 && p.Y.Cmp(big1) == 0 }

// xFromY solves x^2 = (y^2-1)/(d y^2+1); returns the even root.
func xFromY(y *big.Int) (*big.Int, bool) {
	y2 := FSqr(y)
	u := FSub(y2, big1)
	v := FAdd(FMul(D, y2), big1)
	// v is never zero since -1/d is a non-square.
	return FSqrt(FDiv(u, v))
}

// AddAffine is the textbook twisted Edwards addition law (a = -1), affine,
// with explicit inversions.  Complete because d is a non-square.
func AddAffine(p, q Point) Point {
	x1y2 := FMul(p.X, q.Y)
	y1x2 := FMul(p.Y, q.X)
	y1y2 := FMul(p.Y, q.Y)
	x1x2 := FMul(p.X, q.X)
	dxy := FMul(D, FMul(x1x2, y1y2))
	x3 := FDiv(FAdd(x1y2, y1x2), FAdd(big1, dxy))
	y3 := FDiv(FAdd(y1y2, x1x2), FSub(big1, dxy))
	return Point{x3, y3}
}

func Neg(p Point) Point { return Point{FNeg(p.X), new(big.Int).Set(p.Y)} }

// MulAffine: plain double-and-add (MSB first) over AddAffine.  Slow, obviously
// correct; used to validate Mul.
func MulAffine(k *big.Int, p Point) Point {
	if k.Sign() < 0 {
		return MulAffine(new(big.Int).Neg(k), Neg(p))
	}
	r := Identity()
	for i := k.BitLen() - 1; i >= 0; i-- {
		r = AddAffine(r, r)
		if k.Bit(i) == 1 {
			r = AddAffine(r, p)
		}
	}
	return r
}

// ---- faster path: RFC 8032 section 5.1.4 extended homogeneous formulas ----

type ext struct{ x, y, z, t *big.Int }

func toExt(p Point) ext {
	return ext{new(big.Int).Set(p.X), new(big.Int).Set(p.Y), bi(1), FMul(p.X, p.Y)}
}
func (e ext) affine() Point {
	zi := FInv(e.z)
	return Point{FMul(e.x, zi), FMul(e.y, zi)}
}

var d2 = FMul(big2, D)

func extAdd(p, q ext) ext {
	a := FMul(FSub(p.y, p.x), FSub(q.y, q.x))
	b := FMul(FAdd(p.y, p.x), FAdd(q.y, q.x))
	c := FMul(FMul(p.t, d2), q.t)
	dd := FMul(FMul(p.z, big2), q.z)
	e := FSub(b, a)
	f := FSub(dd, c)
	g := FAdd(dd, c)
	h := FAdd(b, a)
	return ext{FMul(e, f), FMul(g, h), FMul(f, g), FMul(e, h)}
}

// Add returns p+q.
func Add(p, q Point) Point { return extAdd(toExt(p), toExt(q)).affine() }

// Sub returns p-q.
func Sub(p, q Point) Point { return Add(p, Neg(q)) }

// Double returns 2p.
func Double(p Point) Point { return Add(p, p) }

// Mul returns [k]p for any integer k (negative allowed).
func Mul(k *big.Int, p Point) Point {
	if k.Sign() < 0 {
		return Mul(new(big.Int).Neg(k), Neg(p))
	}
	r := toExt(Identity())
	e := toExt(p)
	for i := k.BitLen() - 1; i >= 0; i-- {
		r = extAdd(r, r)
		if k.Bit(i) == 1 {
			r = extAdd(r, e)
		}
	}
	return r.affine()
}

// MulBase returns [k]B.
func MulBase(k *big.Int) Point { return Mul(k, Base) }

// MSM returns sum [k_i]P_i.
func MSM(ks []*big.Int, ps []Point) Point {
	acc := toExt(Identity())
	for i := range ks {
		acc = extAdd(acc, toExt(Mul(ks[i], ps[i])))
	}
	return acc.affine()
}

// Encode returns the canonical RFC 8032 encoding.
func (p Point) Encode() []byte {
	out := ToLE(p.Y, 32)
	if p.X.Bit(0) == 1 {
		out[31] |= 0x80
	}
	return out
}

// DecodeInfo describes how a 32-byte string relates to the curve.
type DecodeInfo struct {
	OK        bool  // y mod p is on the curve (library/ZIP-215 style acceptance)
	P         Point // the decoded point if OK
	YCanon    bool  // masked y value < p
	XZeroSign bool  // x == 0 and the sign bit is set ("negative zero")
	Canonical bool  // YCanon && !XZeroSign: the string is Encode(P)
}

// Decode is the permissive decoding used by the library (and ZIP-215): y is
// taken mod p, and for x = 0 the sign bit is ignored.  Strict RFC 8032
// decoding is OK && Canonical.
func Decode(b []byte) DecodeInfo {
	var di DecodeInfo
	if len(b) != 32 {
		return di
	}
	sign := b[31] >> 7
	c := append([]byte(nil), b...)
	c[31] &= 0x7f
	yraw := FromLE(c)
	di.YCanon = yraw.Cmp(P) < 0
	y := FMod(yraw)
	x, ok := xFromY(y)
	if !ok {
		return di
	}
	if x.Sign() == 0 {
		di.XZeroSign = sign == 1
	} else if uint(x.Bit(0)) != uint(sign) {
		x = FNeg(x)
	}
	di.OK = true
	di.P = Point{x, y}
	di.Canonical = di.YCanon && !di.XZeroSign
	return di
}

// Order predicates.

func MulByCofactor(p Point) Point { return Double(Double(Double(p))) }
func IsSmallOrder(p Point) bool   { return MulByCofactor(p).IsIdentity() }
func IsTorsionFree(p Point) bool  { return Mul(L, p).IsIdentity() }

// Torsion8 returns the 8-torsion subgroup as T[i] = [i]T[1], where T[1] is a
// generator found from scratch: [L]Q for candidate points Q until the order
// is exactly 8.
var torsion8 []Point

func Torsion8() []Point {
	if torsion8 != nil {
		return torsion8
	}
	for yv := int64(2); ; yv++ {
		di := Decode(ToLE(bi(yv), 32))
		if !di.OK {
			continue
		}
		t := Mul(L, di.P)
		if Double(Double(t)).IsIdentity() {
			continue // order divides 4
		}
		// order exactly 8
		ts := make([]Point, 8)
		ts[0] = Identity()
		for i := 1; i < 8; i++ {
			ts[i] = Add(ts[i-1], t)
		}
		torsion8 = ts
		return ts
	}
}

// TorsionIndex returns i with p == T[i] for the Torsion8() numbering, or -1.
func TorsionIndex(p Point) int {
	for i, t := range Torsion8() {
		if t.Equal(p) {
			return i
		}
	}
	return -1
}

// Montgomery u = (1+y)/(1-y); identity (y=1) maps to 0 by the inv0 convention.
func (p Point) MontgomeryU() *big.Int {
	return FMul(FAdd(big1, p.Y), FInv(FSub(big1, p.Y)))
}

// FromMontgomeryU returns the Edwards point with y = (u-1)/(u+1) and the given
// sign, ok=false if u = -1 or y is not on the curve (twist).
func FromMontgomeryU(u *big.Int, sign byte) (Point, bool) {
	u = FMod(u)
	if FAdd(u, big1).Sign() == 0 {
		return Point{}, false
	}
	y := FDiv(FSub(u, big1), FAdd(u, big1))
	enc := ToLE(y, 32)
	enc[31] |= sign << 7
	di := Decode(enc)
	return di.P, di.OK
}

// EncEqual compares an encoding with a point.
func EncEqual(b []byte, p Point) bool { return bytes.Equal(b, p.Encode()) }
