package verifref

import (
	"bytes"
	"crypto/sha512"
	"encoding/hex"
	"math/big"
	"testing"
)

// RFC 8032 section 7.1 (TEST 1..3, TEST SHA(abc)): secret key -> public key is
// a published fixed-base scalar multiplication.
var c03RFC8032Keys = [][2]string{
	{"9d61b19deffd5a60ba844af492ec2cc44449c5697b326919703bac031cae7f60", "d75a980182b10ab7d54bfed3c964073a0ee172f3daa62325af021a68f707511a"},
	{"4ccd089b28ff96da9db6c346ec114e0f5b8a319f35aba624da8cf6ed4fb8a6fb", "3d4017c3e843895a92b70aa74d1b7ebc9c982ccf2ec4968cc0cd55f12af4660c"},
	{"c5aa8df43f9f837bedb7442f31dcb7b166d38535076f094b85ce3a2e0b4458f7", "fc51cd8e6218a1a38da47ed00230f0580816ed13ba3303ac5deb911548908025"},
	{"833fe62409237b9d62ec77587520911e9a759cec1d19755b7da901b96dca3d42", "ec172b93ad5e563bf4932c70e1245034c35467ef2efd4d64ebf819683467e2bf"},
}

func TestC03MulBasePublished(t *testing.T) {
	for i, v := range c03RFC8032Keys {
		seed, _ := hex.DecodeString(v[0])
		want, _ := hex.DecodeString(v[1])
		h := sha512.Sum512(seed)
		s := h[:32]
		s[0] &= 248
		s[31] &= 127
		s[31] |= 64
		k := FromLE(s)
		if got := C03MulBase(k).Encode(); !bytes.Equal(got, want) {
			t.Fatalf("vector %d: C03MulBase got %x want %x", i, got, want)
		}
		if got := MulBase(k).Encode(); !bytes.Equal(got, want) {
			t.Fatalf("vector %d: MulBase got %x want %x", i, got, want)
		}
	}
}

func TestC03MulBaseAgainstPlain(t *testing.T) {
	one := big.NewInt(1)
	p2 := func(k uint) *big.Int { return new(big.Int).Lsh(one, k) }
	var ks []*big.Int
	for i := int64(0); i < 40; i++ {
		ks = append(ks, big.NewInt(i))
	}
	for _, e := range []int64{-2, -1, 0, 1, 2} {
		ks = append(ks, new(big.Int).Add(L, big.NewInt(e)))
		ks = append(ks, new(big.Int).Add(new(big.Int).Mul(L, big.NewInt(8)), big.NewInt(e)))
		ks = append(ks, new(big.Int).Add(new(big.Int).Mul(L, big.NewInt(15)), big.NewInt(e)))
		ks = append(ks, new(big.Int).Add(p2(252), big.NewInt(e)))
		ks = append(ks, new(big.Int).Add(p2(255), big.NewInt(e)))
	}
	ks = append(ks, new(big.Int).Sub(p2(256), one), new(big.Int).Sub(p2(255), one), new(big.Int).Sub(p2(255), p2(247)))
	for _, pat := range []byte{0x77, 0x88, 0xff, 0x0f, 0xf0, 0x80, 0x08} {
		ks = append(ks, FromLE(bytes.Repeat([]byte{pat}, 32)))
	}
	x := big.NewInt(12345)
	for i := 0; i < 60; i++ {
		x = new(big.Int).Mul(x, big.NewInt(0x9e3779b97f4a7c))
		x.Add(x, big.NewInt(int64(i))).Mod(x, p2(256))
		ks = append(ks, new(big.Int).Rsh(x, uint(i*4)))
	}
	ts := Torsion8()
	for i, k := range ks {
		want := MulBase(k)
		if got := C03MulBase(k); !got.Equal(want) || !got.OnCurve() {
			t.Fatalf("k=%v: C03MulBase != MulBase", k)
		}
		j := i % 8
		if got := C03BasePlusTorsion(k, j); !got.Equal(Add(want, ts[j])) {
			t.Fatalf("k=%v j=%d: C03BasePlusTorsion", k, j)
		}
		if i%8 == 0 {
			if !MulAffine(k, Base).Equal(want) {
				t.Fatalf("k=%v: MulAffine != MulBase", k)
			}
		}
	}
	js := make([]int, len(ks))
	for i := range ks {
		js[i] = i*3 - 7
	}
	batch := C03BasePlusTorsionBatch(ks, js)
	for i := range ks {
		if !batch[i].Equal(C03BasePlusTorsion(ks[i], js[i])) {
			t.Fatalf("batch %d", i)
		}
	}
	if len(C03BasePlusTorsionBatch(nil, nil)) != 0 {
		t.Fatal("empty batch")
	}
	if !C03BasePlusTorsion(big.NewInt(5), -3).Equal(Add(MulBase(big.NewInt(5)), ts[5])) {
		t.Fatal("negative torsion index")
	}
}

func BenchmarkC03MulBase(b *testing.B) {
	k := new(big.Int).Sub(L, big.NewInt(12345))
	b.Run("windowed", func(b *testing.B) {
		for i := 0; i < b.N; i++ {
			C03MulBase(k)
		}
	})
	b.Run("plain", func(b *testing.B) {
		for i := 0; i < b.N; i++ {
			MulBase(k)
		}
	})
	b.Run("small20", func(b *testing.B) {
		for i := 0; i < b.N; i++ {
			C03BasePlusTorsion(big.NewInt(0xabcde), 3)
		}
	})
	b.Run("mul", func(b *testing.B) {
		p := MulBase(big.NewInt(77))
		for i := 0; i < b.N; i++ {
			Mul(k, p)
		}
	})
}
