package verifref

import (
	"bytes"
	"compress/gzip"
	"encoding/hex"
	"encoding/json"
	"math/big"
	"os"
	"path/filepath"
	"strconv"
	"strings"
	"testing"
)

func h2cRepo() string {
	if r := os.Getenv("VERIF_REPO"); r != "" {
		return r
	}
	return "/repo"
}

func h2cLoad(t *testing.T, name string, v interface{}) {
	t.Helper()
	f, err := os.Open(filepath.Join(h2cRepo(), "primitives/h2c/testdata", name))
	if err != nil {
		t.Fatal(err)
	}
	defer f.Close()
	rd, err := gzip.NewReader(f)
	if err != nil {
		t.Fatal(err)
	}
	if err := json.NewDecoder(rd).Decode(v); err != nil {
		t.Fatal(err)
	}
}

type h2cExpandFile struct {
	DST   string `json:"DST"`
	Hash  string `json:"hash"`
	K     int    `json:"k"`
	Name  string `json:"name"`
	Tests []struct {
		DSTPrime     string `json:"DST_prime"`
		LenInBytes   string `json:"len_in_bytes"`
		Msg          string `json:"msg"`
		MsgPrime     string `json:"msg_prime"`
		UniformBytes string `json:"uniform_bytes"`
	} `json:"tests"`
}

func h2cUnhex(t *testing.T, s string) []byte {
	t.Helper()
	b, err := hex.DecodeString(strings.TrimPrefix(s, "0x"))
	if err != nil {
		t.Fatal(err)
	}
	return b
}

// The RFC 9380 appendix K vectors (expand_message_xmd / expand_message_xof),
// including DST_prime and msg_prime, and the long-DST files.
func TestH2cExpandVectors(t *testing.T) {
	total := 0
	for _, file := range []string{
		"expand_message_xmd_SHA256_38.json.gz",
		"expand_message_xmd_SHA256_256.json.gz",
		"expand_message_xmd_SHA512_38.json.gz",
		"expand_message_xof_SHAKE128_36.json.gz",
		"expand_message_xof_SHAKE128_256.json.gz",
		"expand_message_xof_SHAKE256_36.json.gz",
	} {
		var f h2cExpandFile
		h2cLoad(t, file, &f)
		if len(f.Tests) == 0 {
			t.Fatalf("%s: no tests", file)
		}
		for i, v := range f.Tests {
			n64, err := strconv.ParseInt(strings.TrimPrefix(v.LenInBytes, "0x"), 16, 32)
			if err != nil {
				t.Fatal(err)
			}
			n := int(n64)
			var out []byte
			var tr *H2cXMDTrace
			switch f.Name {
			case "expand_message_xmd":
				hn := map[string]string{"SHA256": "SHA-256", "SHA512": "SHA-512"}[f.Hash]
				out, tr, err = H2cExpandXMD(H2cHashes[hn], f.K, []byte(v.Msg), []byte(f.DST), n)
			case "expand_message_xof":
				nx := map[string]func() H2cXOF{"SHAKE128": H2cShake128, "SHAKE256": H2cShake256}[f.Hash]
				out, tr, err = H2cExpandXOF(nx, f.K, []byte(v.Msg), []byte(f.DST), n)
			default:
				t.Fatalf("unknown expander %q", f.Name)
			}
			if err != nil {
				t.Fatalf("%s[%d]: %v", file, i, err)
			}
			if !bytes.Equal(out, h2cUnhex(t, v.UniformBytes)) {
				t.Fatalf("%s[%d]: uniform_bytes mismatch: %x", file, i, out)
			}
			if !bytes.Equal(tr.DSTPrime, h2cUnhex(t, v.DSTPrime)) {
				t.Fatalf("%s[%d]: DST_prime mismatch: %x", file, i, tr.DSTPrime)
			}
			if !bytes.Equal(tr.MsgPrime, h2cUnhex(t, v.MsgPrime)) {
				t.Fatalf("%s[%d]: msg_prime mismatch: %x", file, i, tr.MsgPrime)
			}
			total++
		}
	}
	if total < 50 {
		t.Fatalf("only %d expand vectors replayed", total)
	}
}

type h2cPt struct {
	X string `json:"x"`
	Y string `json:"y"`
}

func (p h2cPt) point(t *testing.T) Point {
	return Point{new(big.Int).SetBytes(h2cUnhex(t, p.X)), new(big.Int).SetBytes(h2cUnhex(t, p.Y))}
}

type h2cSuiteFile struct {
	Ciphersuite  string `json:"ciphersuite"`
	Dst          string `json:"dst"`
	RandomOracle bool   `json:"randomOracle"`
	Vectors      []struct {
		P   h2cPt    `json:"P"`
		Q   *h2cPt   `json:"Q"`
		Q0  *h2cPt   `json:"Q0"`
		Q1  *h2cPt   `json:"Q1"`
		Msg string   `json:"msg"`
		U   []string `json:"u"`
	} `json:"vectors"`
}

// RFC 9380 appendix J.5 (edwards25519 suites), including u, Q0/Q1/Q.
func TestH2cSuiteVectors(t *testing.T) {
	for _, file := range []string{"edwards25519_XMD_SHA-512_ELL2_RO_.json.gz", "edwards25519_XMD_SHA-512_ELL2_NU_.json.gz"} {
		var f h2cSuiteFile
		h2cLoad(t, file, &f)
		if len(f.Vectors) < 5 {
			t.Fatalf("%s: %d vectors", file, len(f.Vectors))
		}
		for i, v := range f.Vectors {
			var p Point
			var tr *H2cTrace
			var err error
			var qs []Point
			if f.RandomOracle {
				p, tr, err = H2cEdwards25519XMDSHA512RO([]byte(v.Msg), []byte(f.Dst))
				qs = []Point{v.Q0.point(t), v.Q1.point(t)}
			} else {
				p, tr, err = H2cEdwards25519XMDSHA512NU([]byte(v.Msg), []byte(f.Dst))
				qs = []Point{v.Q.point(t)}
			}
			if err != nil {
				t.Fatal(err)
			}
			if !p.Equal(v.P.point(t)) {
				t.Fatalf("%s[%d]: P mismatch", file, i)
			}
			if len(tr.U) != len(v.U) || len(qs) != len(tr.Q) {
				t.Fatalf("%s[%d]: count mismatch", file, i)
			}
			for j := range v.U {
				if tr.U[j].Cmp(new(big.Int).SetBytes(h2cUnhex(t, v.U[j]))) != 0 {
					t.Fatalf("%s[%d]: u[%d] mismatch", file, i, j)
				}
				if !tr.Q[j].Equal(qs[j]) {
					t.Fatalf("%s[%d]: Q[%d] mismatch", file, i, j)
				}
			}
			if !p.OnCurve() || !IsTorsionFree(p) {
				t.Fatalf("%s[%d]: P not in the prime-order subgroup", file, i)
			}
		}
	}
}

func TestH2cMapFacts(t *testing.T) {
	// sqrt(-486664): sgn0 = 0 (the RFC 9380 vectors above pin this sign), and
	// the RFC 7748 section 4.1 base points correspond under the rational map
	// once RFC 7748 erratum 4730 is applied (the published V is the negative
	// of the one matching the Edwards base point).
	if H2cSqrtNeg486664.Bit(0) != 0 || FSqr(H2cSqrtNeg486664).Cmp(FNeg(bi(486664))) != 0 {
		t.Fatal("sqrt(-486664)")
	}
	mv, _ := new(big.Int).SetString("14781619447589544791020593568409986887264606134616475288964881837755586237401", 10)
	if !H2cOnMontgomery(bi(9), mv) {
		t.Fatal("RFC 7748 base point not on curve25519")
	}
	if p, exc := H2cMontToEdwards(bi(9), FNeg(mv)); exc || !p.Equal(Base) {
		t.Fatal("rational map does not send the curve25519 base point to the edwards25519 base point")
	}
	// The only exceptional input of the composed map is u = 0: -J is a
	// non-square, so x = x2 = 0, y = 0 (the 2-torsion point (0,0)).
	if FIsSquare(FNeg(h2cJ)) {
		t.Fatal("-486662 unexpectedly square")
	}
	s, tt, sq := H2cMapToCurveElligator2(bi(0))
	if s.Sign() != 0 || tt.Sign() != 0 || sq {
		t.Fatalf("map(0) = (%v,%v,%v)", s, tt, sq)
	}
	if p, exc := H2cMontToEdwards(s, tt); !exc || !p.IsIdentity() {
		t.Fatal("map(0) not exceptional")
	}
	// s = -1 is not the abscissa of a curve25519 point: 486660 non-square.
	if FIsSquare(bi(486660)) {
		t.Fatal("486660 unexpectedly square")
	}
	// 1 + Z u^2 = 0 has no solution: -1/2 is a non-square.
	if FIsSquare(FDiv(FNeg(big1), big2)) {
		t.Fatal("-1/2 unexpectedly square")
	}
	// Outputs are always on the respective curves; u and -u map to the same
	// point; sign rule of t.
	seen := map[bool]int{}
	for i := int64(1); i < 400; i++ {
		u := FMul(bi(i), FPow(bi(i+7), bi(12345)))
		if i < 40 {
			u = bi(i)
		}
		s, tt, sq := H2cMapToCurveElligator2(u)
		seen[sq]++
		if !H2cOnMontgomery(s, tt) {
			t.Fatalf("u=%v: not on curve25519", u)
		}
		want := uint(0)
		if sq {
			want = 1
		}
		if tt.Bit(0) != want {
			t.Fatalf("u=%v: sgn0(t)", u)
		}
		p, exc := H2cMontToEdwards(s, tt)
		if exc || !p.OnCurve() {
			t.Fatalf("u=%v: edwards point off curve / exceptional", u)
		}
		if !H2cMapToEdwards(FNeg(u)).Equal(p) {
			t.Fatalf("u=%v: map(-u) != map(u)", u)
		}
		if !IsTorsionFree(H2cClearCofactor(p)) || !H2cClearCofactor(p).Equal(MulByCofactor(p)) {
			t.Fatalf("u=%v: cofactor clearing", u)
		}
	}
	if seen[true] < 100 || seen[false] < 100 {
		t.Fatalf("square/non-square split %v", seen)
	}
}

func TestH2cAbortsAndEdges(t *testing.T) {
	sha512h, sha256h := H2cHashes["SHA-512"], H2cHashes["SHA-256"]
	if _, _, err := H2cExpandXMD(sha512h, 128, nil, nil, 255*64); err != nil {
		t.Fatal(err)
	}
	if _, _, err := H2cExpandXMD(sha512h, 128, nil, nil, 255*64+1); err != H2cErrEll {
		t.Fatal(err)
	}
	if _, _, err := H2cExpandXMD(sha256h, 128, nil, nil, 255*32+1); err != H2cErrEll {
		t.Fatal(err)
	}
	if _, _, err := H2cExpandXMD(sha512h, 128, nil, nil, 65536); err != H2cErrLen {
		t.Fatal(err)
	}
	if _, _, err := H2cExpandXMD(H2cHashes["SHA-224"], 128, nil, nil, 32); err != H2cErrHash {
		t.Fatal(err)
	}
	if _, _, err := H2cExpandXMD(H2cHashes["SHA-384"], 256, nil, nil, 32); err != H2cErrHash {
		t.Fatal(err)
	}
	if out, _, err := H2cExpandXMD(sha512h, 128, nil, nil, 0); err != nil || len(out) != 0 {
		t.Fatal("len 0")
	}
	if out, _, err := H2cExpandXOF(H2cShake128, 128, nil, nil, 65535); err != nil || len(out) != 65535 {
		t.Fatal(err)
	}
	if _, _, err := H2cExpandXOF(H2cShake128, 128, nil, nil, 65536); err != H2cErrLen {
		t.Fatal(err)
	}
	// Prefix property of XMD for lengths within the same ell does NOT hold
	// (len_in_bytes is hashed): guards against an oracle that ignores it.
	a, _, _ := H2cExpandXMD(sha512h, 128, []byte("m"), []byte("d"), 32)
	b, _, _ := H2cExpandXMD(sha512h, 128, []byte("m"), []byte("d"), 33)
	if bytes.Equal(a, b[:32]) {
		t.Fatal("len_in_bytes not bound")
	}
	// DST of exactly 255 bytes is used verbatim, 256 is hashed.
	d255 := bytes.Repeat([]byte{'x'}, 255)
	_, tr, _ := H2cExpandXMD(sha256h, 128, nil, d255, 32)
	if !bytes.Equal(tr.DSTPrime, append(append([]byte(nil), d255...), 255)) {
		t.Fatal("255-byte DST")
	}
	_, tr, _ = H2cExpandXMD(sha256h, 128, nil, append(d255, 'x'), 32)
	if len(tr.DSTPrime) != 33 || tr.DSTPrime[32] != 32 {
		t.Fatal("256-byte DST")
	}
	_, tr, _ = H2cExpandXOF(H2cShake256, 256, nil, append(d255, 'x'), 32)
	if len(tr.DSTPrime) != 65 || tr.DSTPrime[64] != 64 {
		t.Fatal("256-byte DST, xof, k=256")
	}
	// Every table entry: declared sizes match the implementation.
	for n, h := range H2cHashes {
		x := h.New()
		if x.Size() != h.B || x.BlockSize() != h.S {
			t.Fatalf("%s: table says b=%d s=%d, implementation %d %d", n, h.B, h.S, x.Size(), x.BlockSize())
		}
	}
}

// Ristretto255 suite glue: 64 expanded bytes through the RFC 9496 map (the
// map itself is validated against the RFC 9496 vectors in ristretto_test.go).
func TestH2cRistretto(t *testing.T) {
	exp := H2cXMD(H2cHashes["SHA-512"], 128)
	p, uni, err := H2cHashToRistretto255(exp, []byte("msg"), []byte("dst"))
	if err != nil || len(uni) != 64 {
		t.Fatal(err)
	}
	want, _, _ := H2cExpandXMD(H2cHashes["SHA-512"], 128, []byte("msg"), []byte("dst"), 64)
	if !bytes.Equal(uni, want) || !RistEqual(p, RistFromUniform(want)) {
		t.Fatal("ristretto glue")
	}
	if q, ok := RistDecode(RistEncode(p)); !ok || !RistEqual(p, q) {
		t.Fatal("ristretto round trip")
	}
}
