// Package verifref holds independent reference models for curve25519-voi,
// written from the RFCs on top of math/big.  Nothing here imports the code
// under test.
package verifref

import (
	"math/big"
)

// Field prime p = 2^255 - 19 and helpers.  All functions return fresh values
// in [0, p).

var (
	P     = new(big.Int).Sub(new(big.Int).Lsh(big.NewInt(1), 255), big.NewInt(19))
	bigZ  = big.NewInt(0)
	big1  = big.NewInt(1)
	big2  = big.NewInt(2)
	big8  = big.NewInt(8)
	pm1d2 = new(big.Int).Rsh(new(big.Int).Sub(P, big1), 1) // (p-1)/2

	// SqrtM1 = 2^((p-1)/4) mod p: the even ("non-negative") square root of -1.
	SqrtM1 = new(big.Int).Exp(big2, new(big.Int).Rsh(new(big.Int).Sub(P, big1), 2), P)

	// Edwards d = -121665/121666.
	D = FDiv(FNeg(big.NewInt(121665)), big.NewInt(121666))
)

func bi(x int64) *big.Int { return big.NewInt(x) }

// FMod reduces x into [0,p).
func FMod(x *big.Int) *big.Int {
	r := new(big.Int).Mod(x, P)
	return r
}
func FAdd(a, b *big.Int) *big.Int { return FMod(new(big.Int).Add(a, b)) }
func FSub(a, b *big.Int) *big.Int { return FMod(new(big.Int).Sub(a, b)) }
func FMul(a, b *big.Int) *big.Int { return FMod(new(big.Int).Mul(a, b)) }
func FSqr(a *big.Int) *big.Int    { return FMul(a, a) }
func FNeg(a *big.Int) *big.Int    { return FMod(new(big.Int).Neg(a)) }

// FInv returns a^(p-2) (so FInv(0) = 0, the inv0 convention).
func FInv(a *big.Int) *big.Int {
	return new(big.Int).Exp(FMod(a), new(big.Int).Sub(P, big2), P)
}
func FDiv(a, b *big.Int) *big.Int { return FMul(a, FInv(b)) }
func FPow(a, e *big.Int) *big.Int { return new(big.Int).Exp(FMod(a), e, P) }

// FIsSquare reports whether a is a square mod p (0 counts as a square).
func FIsSquare(a *big.Int) bool {
	a = FMod(a)
	if a.Sign() == 0 {
		return true
	}
	return FPow(a, pm1d2).Cmp(big1) == 0
}

// FIsNeg is the "negative" predicate of RFC 8032 / RFC 9496: low bit of the
// canonical representative.
func FIsNeg(a *big.Int) bool { return FMod(a).Bit(0) == 1 }

// FAbs returns the non-negative one of {a, -a}.
func FAbs(a *big.Int) *big.Int {
	a = FMod(a)
	if FIsNeg(a) {
		return FNeg(a)
	}
	return a
}

// FSqrt returns (r, true) with r^2 = a and r even (non-negative), or
// (nil,false) when a is a non-residue.  p = 5 mod 8 method (RFC 8032 5.1.3).
func FSqrt(a *big.Int) (*big.Int, bool) {
	a = FMod(a)
	// candidate r = a^((p+3)/8)
	e := new(big.Int).Rsh(new(big.Int).Add(P, big.NewInt(3)), 3)
	r := FPow(a, e)
	if FSqr(r).Cmp(a) != 0 {
		r = FMul(r, SqrtM1)
	}
	if FSqr(r).Cmp(a) != 0 {
		return nil, false
	}
	return FAbs(r), true
}

// SqrtRatioM1 is RFC 9496 section 4.2 SQRT_RATIO_M1(u, v), written from the
// RFC text.  Returns (was_square, r).
func SqrtRatioM1(u, v *big.Int) (bool, *big.Int) {
	u, v = FMod(u), FMod(v)
	// r = (u * v^3) * (u * v^7)^((p-5)/8)
	v3 := FMul(FSqr(v), v)
	v7 := FMul(FSqr(v3), v)
	e := new(big.Int).Rsh(new(big.Int).Sub(P, big.NewInt(5)), 3)
	r := FMul(FMul(u, v3), FPow(FMul(u, v7), e))
	check := FMul(v, FSqr(r))

	correctSign := check.Cmp(u) == 0
	flippedSign := check.Cmp(FNeg(u)) == 0
	flippedSignI := check.Cmp(FMul(FNeg(u), SqrtM1)) == 0

	if flippedSign || flippedSignI {
		r = FMul(r, SqrtM1)
	}
	r = FAbs(r)
	return correctSign || flippedSign, r
}

// SqrtRatioMath is a second, purely mathematical statement of the same
// contract, used to cross-check SqrtRatioM1: (1, +sqrt(u/v)) if u/v square
// and v != 0; (1, 0) if u = 0; (0, 0) if v = 0 != u; else (0, +sqrt(i*u/v)).
func SqrtRatioMath(u, v *big.Int) (bool, *big.Int) {
	u, v = FMod(u), FMod(v)
	if u.Sign() == 0 {
		return true, big.NewInt(0)
	}
	if v.Sign() == 0 {
		return false, big.NewInt(0)
	}
	q := FDiv(u, v)
	if r, ok := FSqrt(q); ok {
		return true, r
	}
	r, ok := FSqrt(FMul(SqrtM1, q))
	if !ok {
		panic("verifref: neither u/v nor i*u/v is a square")
	}
	return false, r
}

// FFromLE interprets b as a little-endian integer (no masking).
func FromLE(b []byte) *big.Int {
	r := make([]byte, len(b))
	for i := range b {
		r[len(b)-1-i] = b[i]
	}
	return new(big.Int).SetBytes(r)
}

// ToLE writes x (must be < 2^(8n)) as n little-endian bytes.
func ToLE(x *big.Int, n int) []byte {
	be := x.Bytes()
	if len(be) > n {
		panic("verifref: ToLE overflow")
	}
	out := make([]byte, n)
	for i := range be {
		out[i] = be[len(be)-1-i]
	}
	return out
}

// FEncode returns the canonical 32-byte encoding of a mod p.
func FEncode(a *big.Int) []byte { return ToLE(FMod(a), 32) }

// FDecode decodes 32 bytes the way RFC 7748/the library does: bit 255 ignored,
// value taken mod p.
func FDecode(b []byte) *big.Int {
	if len(b) != 32 {
		panic("verifref: FDecode length")
	}
	c := append([]byte(nil), b...)
	c[31] &= 0x7f
	return FMod(FromLE(c))
}
