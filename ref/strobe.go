package verifref

// STROBE-128/1600 "lite", written byte-at-a-time from the STROBE v1.0.2
// specification (strobe.sourceforge.io/specs, sections 5-7 and the Python
// reference there): only the non-transport operations AD, meta-AD, KEY and
// PRF that Merlin needs, with the streaming `more` flag.
//
// Spec summary transcribed here:
//
//   N = 200, sec = 128, R = N - sec/4 - 2 = 166.
//   init: st = F([1, R+2, 1, 0, 1, 96] || "STROBEv1.0.2" || 0*), pos = posbegin = 0,
//         then meta-AD(protocol string).
//   duplex(data, cbefore, cafter, forceF): for every byte
//         if cbefore: data[i] ^= st[pos]
//         st[pos] ^= data[i]
//         if cafter:  data[i]  = st[pos]
//         pos++ ; if pos == R: runF()
//       afterwards, if forceF and pos != 0: runF()
//   runF: st[pos] ^= posbegin ; st[pos+1] ^= 0x04 ; st[R+1] ^= 0x80 ; st = F(st) ; pos = posbegin = 0
//   beginOp(flags): oldbegin, posbegin = posbegin, pos+1
//                   duplex([oldbegin, flags], forceF = flags & (C|K) != 0)
//   operate(flags, data, more): if more, flags must equal the current ones;
//         otherwise beginOp.  Operations without application input (PRF) use
//         an all-zero string of the requested length.
//         cafter  = (flags & (C|I|T)) == (C|T) ; cbefore = (flags & C) and not cafter.

const (
	StrobeFlagI byte = 1 << 0
	StrobeFlagA byte = 1 << 1
	StrobeFlagC byte = 1 << 2
	StrobeFlagT byte = 1 << 3
	StrobeFlagM byte = 1 << 4
	StrobeFlagK byte = 1 << 5

	StrobeOpAD     = StrobeFlagA
	StrobeOpMetaAD = StrobeFlagA | StrobeFlagM
	StrobeOpKEY    = StrobeFlagA | StrobeFlagC
	StrobeOpPRF    = StrobeFlagI | StrobeFlagA | StrobeFlagC

	// StrobeR is the rate of STROBE-128/1600 after the two reserved padding bytes.
	StrobeR = 200 - 128/4 - 2
)

// StrobeEvents counts where rate-block boundaries fell while an object (and
// the objects it was cloned from) absorbed its operations.  Bookkeeping for
// coverage classification only; it never influences the state.
type StrobeEvents struct {
	Perms          int // permutation calls after initialisation
	FrameStraddle  int // boundary between the two framing bytes of an operation
	FrameEndsBlock int // second framing byte filled the block exactly
	ForcedF        int // permutation forced by a C-flag operation
	ForcedFSkipped int // C-flag operation whose framing ended on the boundary (pos == 0, nothing forced)
	DataStraddle   int // boundary strictly inside the data of one operate call
	DataEndsBlock  int // data of one operate call ended exactly on the boundary
	ZeroLenData    int // operate call with empty data
}

// Strobe is the reference STROBE-128/1600 object.
type Strobe struct {
	st          [200]byte
	pos         int
	posBegin    int
	r           int
	initialized bool
	curFlags    byte
	Ev          StrobeEvents
}

// NewStrobe initialises STROBE-128/1600 with the given protocol string.
func NewStrobe(proto []byte) *Strobe {
	s := &Strobe{r: StrobeR}
	// st = F([1, R+2, 1, 0, 1, 12*8] || "STROBEv1.0.2" || zeros); no STROBE
	// padding is applied to this first block.
	domain := append([]byte{1, StrobeR + 2, 1, 0, 1, 12 * 8}, []byte("STROBEv1.0.2")...)
	copy(s.st[:], domain)
	KeccakF1600(&s.st)
	s.pos, s.posBegin = 0, 0
	s.initialized = true
	s.Operate(StrobeOpMetaAD, proto, 0, false)
	return s
}

// Clone returns an independent copy.
func (s *Strobe) Clone() *Strobe {
	c := *s
	return &c
}

// Pos returns the cursor inside the current rate block (0 <= Pos < 166).
func (s *Strobe) Pos() int { return s.pos }

func (s *Strobe) runF() {
	if s.initialized {
		s.st[s.pos] ^= byte(s.posBegin)
		s.st[s.pos+1] ^= 0x04
		s.st[s.r+1] ^= 0x80
		s.Ev.Perms++
	}
	KeccakF1600(&s.st)
	s.pos, s.posBegin = 0, 0
}

// duplex processes data one byte at a time and returns the processed bytes.
// onBoundary (optional) is told the index of the byte that filled a block.
func (s *Strobe) duplex(data []byte, cbefore, cafter, forceF bool, onBoundary func(i int)) []byte {
	if cbefore && cafter {
		panic("verifref: strobe: cbefore and cafter")
	}
	out := append([]byte(nil), data...)
	for i := range out {
		if cbefore {
			out[i] ^= s.st[s.pos]
		}
		s.st[s.pos] ^= out[i]
		if cafter {
			out[i] = s.st[s.pos]
		}
		s.pos++
		if s.pos == s.r {
			s.runF()
			if onBoundary != nil {
				onBoundary(i)
			}
		}
	}
	if forceF && s.pos != 0 {
		s.runF()
		s.Ev.ForcedF++
	}
	return out
}

func (s *Strobe) beginOp(flags byte) {
	if flags&StrobeFlagT != 0 {
		panic("verifref: strobe: transport operations are not part of the lite subset")
	}
	oldBegin := s.posBegin
	s.posBegin = s.pos + 1
	force := flags&(StrobeFlagC|StrobeFlagK) != 0
	s.duplex([]byte{byte(oldBegin), flags}, false, false, force, func(i int) {
		if i == 0 {
			s.Ev.FrameStraddle++
		} else {
			s.Ev.FrameEndsBlock++
			if force {
				s.Ev.ForcedFSkipped++
			}
		}
	})
}

// Operate performs one STROBE operation (or continues it when more is set).
// For operations that take application input (AD, meta-AD, KEY) data is the
// input and n is ignored; for operations without input (PRF) data must be nil
// and n is the number of bytes to produce.  The returned slice is non-nil
// only for operations that hand data to the application (PRF).
func (s *Strobe) Operate(flags byte, data []byte, n int, more bool) []byte {
	if !s.initialized {
		panic("verifref: strobe: not initialised")
	}
	if more {
		if flags != s.curFlags {
			panic("verifref: strobe: `more` with different flags")
		}
	} else {
		s.beginOp(flags)
		s.curFlags = flags
	}
	noInput := flags&(StrobeFlagI|StrobeFlagT) != (StrobeFlagI|StrobeFlagT) && flags&(StrobeFlagI|StrobeFlagA) != StrobeFlagA
	if noInput {
		if data != nil {
			panic("verifref: strobe: operation takes no input")
		}
		data = make([]byte, n)
	}
	if len(data) == 0 {
		s.Ev.ZeroLenData++
	}
	cafter := flags&(StrobeFlagC|StrobeFlagI|StrobeFlagT) == (StrobeFlagC | StrobeFlagT)
	cbefore := flags&StrobeFlagC != 0 && !cafter
	last := len(data) - 1
	processed := s.duplex(data, cbefore, cafter, false, func(i int) {
		if i == last {
			s.Ev.DataEndsBlock++
		} else {
			s.Ev.DataStraddle++
		}
	})
	if flags&(StrobeFlagI|StrobeFlagA) == (StrobeFlagI | StrobeFlagA) {
		return processed
	}
	return nil
}

// AD absorbs associated data.
func (s *Strobe) AD(data []byte, more bool) { s.Operate(StrobeOpAD, data, 0, more) }

// MetaAD absorbs framing/metadata.
func (s *Strobe) MetaAD(data []byte, more bool) { s.Operate(StrobeOpMetaAD, data, 0, more) }

// KEY overwrites the state with key material (the input is not modified).
func (s *Strobe) KEY(data []byte, more bool) { s.Operate(StrobeOpKEY, data, 0, more) }

// PRF extracts n pseudo-random bytes.
func (s *Strobe) PRF(n int, more bool) []byte {
	out := s.Operate(StrobeOpPRF, nil, n, more)
	if out == nil {
		out = []byte{}
	}
	return out
}
