package verifref

import "math/big"

// L = 2^252 + 27742317777372353535851937790883648493, the prime group order.
var L = func() *big.Int {
	l, _ := new(big.Int).SetString("27742317777372353535851937790883648493", 10)
	return l.Add(l, new(big.Int).Lsh(big.NewInt(1), 252))
}()

func SMod(x *big.Int) *big.Int    { return new(big.Int).Mod(x, L) }
func SAdd(a, b *big.Int) *big.Int { return SMod(new(big.Int).Add(a, b)) }
func SSub(a, b *big.Int) *big.Int { return SMod(new(big.Int).Sub(a, b)) }
func SMul(a, b *big.Int) *big.Int { return SMod(new(big.Int).Mul(a, b)) }
func SNeg(a *big.Int) *big.Int    { return SMod(new(big.Int).Neg(a)) }
func SInv(a *big.Int) *big.Int {
	return new(big.Int).Exp(SMod(a), new(big.Int).Sub(L, big2), L)
}

// SEncode is the canonical 32-byte little-endian form of a mod L.
func SEncode(a *big.Int) []byte { return ToLE(SMod(a), 32) }
