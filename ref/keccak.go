package verifref

// Textbook Keccak-f[1600] written from FIPS 202 section 3 (the five step
// mappings theta, rho, pi, chi, iota on a 5x5 array of 64-bit lanes).
//
// Nothing is transcribed from a table: the rho rotation offsets are produced
// by the walk of FIPS 202 Algorithm 2 and the round constants by the LFSR of
// Algorithm 5 (rc(t)), both at package initialisation.  No unrolling, no
// in-place lane scheduling, no merged steps - this is the oracle for the
// library's unrolled Go code and for its amd64 assembly.

// keccakRho[x][y] is the rotation offset of lane (x, y).
var keccakRho [5][5]uint

// keccakRC[ir] is the round constant of round ir (0..23) for w = 64.
var keccakRC [24]uint64

// keccakLFSRBit is rc(t) of FIPS 202 Algorithm 5.
func keccakLFSRBit(t int) uint64 {
	t %= 255
	if t < 0 {
		t += 255
	}
	if t == 0 {
		return 1
	}
	// R = 10000000 ; R[0] is the leftmost bit.  Keep R as an array of bits
	// exactly as the standard does.
	r := []uint8{1, 0, 0, 0, 0, 0, 0, 0}
	for i := 1; i <= t; i++ {
		r = append([]uint8{0}, r...) // R = 0 || R
		r[0] ^= r[8]
		r[4] ^= r[8]
		r[5] ^= r[8]
		r[6] ^= r[8]
		r = r[:8] // Trunc8
	}
	return uint64(r[0])
}

func init() {
	// rho offsets, FIPS 202 Algorithm 2.
	x, y := 1, 0
	for t := 0; t <= 23; t++ {
		keccakRho[x][y] = uint(((t + 1) * (t + 2) / 2) % 64)
		x, y = y, (2*x+3*y)%5
	}
	// iota constants, FIPS 202 Algorithm 6 step 2-3 with l = 6.
	for ir := 0; ir < 24; ir++ {
		var rc uint64
		for j := 0; j <= 6; j++ {
			rc |= keccakLFSRBit(j+7*ir) << ((uint(1) << uint(j)) - 1)
		}
		keccakRC[ir] = rc
	}
}

func keccakRotl(v uint64, n uint) uint64 {
	n %= 64
	if n == 0 {
		return v
	}
	return v<<n | v>>(64-n)
}

// KeccakLanes is the state as A[x][y] (FIPS 202 3.1.2: lane (x, y) holds bits
// w*(5y+x) .. w*(5y+x)+w-1 of the state string).
type KeccakLanes [5][5]uint64

// KeccakRound applies Rnd(A, ir) = iota(chi(pi(rho(theta(A)))), ir).
func KeccakRound(a *KeccakLanes, ir int) {
	// theta
	var c, d [5]uint64
	for x := 0; x < 5; x++ {
		c[x] = a[x][0] ^ a[x][1] ^ a[x][2] ^ a[x][3] ^ a[x][4]
	}
	for x := 0; x < 5; x++ {
		d[x] = c[(x+4)%5] ^ keccakRotl(c[(x+1)%5], 1)
	}
	for x := 0; x < 5; x++ {
		for y := 0; y < 5; y++ {
			a[x][y] ^= d[x]
		}
	}
	// rho
	var b KeccakLanes
	for x := 0; x < 5; x++ {
		for y := 0; y < 5; y++ {
			b[x][y] = keccakRotl(a[x][y], keccakRho[x][y])
		}
	}
	// pi: A'[x][y] = A[(x+3y) mod 5][x]
	var p KeccakLanes
	for x := 0; x < 5; x++ {
		for y := 0; y < 5; y++ {
			p[x][y] = b[(x+3*y)%5][x]
		}
	}
	// chi: A'[x][y] = A[x][y] xor ((not A[x+1][y]) and A[x+2][y])
	for x := 0; x < 5; x++ {
		for y := 0; y < 5; y++ {
			a[x][y] = p[x][y] ^ (^p[(x+1)%5][y] & p[(x+2)%5][y])
		}
	}
	// iota
	a[0][0] ^= keccakRC[ir]
}

// KeccakF1600 applies the 24-round permutation to a 200-byte state string
// (byte i of lane (x, y) is state byte 8*(5y+x)+i, least significant first).
func KeccakF1600(st *[200]byte) {
	var a KeccakLanes
	for x := 0; x < 5; x++ {
		for y := 0; y < 5; y++ {
			var v uint64
			for i := 7; i >= 0; i-- {
				v = v<<8 | uint64(st[8*(5*y+x)+i])
			}
			a[x][y] = v
		}
	}
	for ir := 0; ir < 24; ir++ {
		KeccakRound(&a, ir)
	}
	for x := 0; x < 5; x++ {
		for y := 0; y < 5; y++ {
			v := a[x][y]
			for i := 0; i < 8; i++ {
				st[8*(5*y+x)+i] = byte(v >> (8 * uint(i)))
			}
		}
	}
}

// KeccakF1600Lanes is KeccakF1600 on the state given as 25 little-endian
// 64-bit words (word 5y+x is lane (x, y)).
func KeccakF1600Lanes(w *[25]uint64) {
	var st [200]byte
	for i, v := range w {
		for j := 0; j < 8; j++ {
			st[8*i+j] = byte(v >> (8 * uint(j)))
		}
	}
	KeccakF1600(&st)
	for i := range w {
		var v uint64
		for j := 7; j >= 0; j-- {
			v = v<<8 | uint64(st[8*i+j])
		}
		w[i] = v
	}
}
