package verifref

// Validation of the schnorrkel reference against the known-answer data that
// ships in the in-tree tests of /repo/primitives/sr25519 (hex copied as data):
//
//   - sign_test.go TestVerifyVector: a signature produced by the Rust
//     schnorrkel crate (via go-schnorrkel) under context "substrate";
//   - keys_test.go TestMiniSecretKey/ExpandUniform and /ExpandEd25519: the
//     96-byte key pairs (key || nonce || public) schnorrkel derives from the
//     all-zero mini secret key;
//   - keys_test.go TestSecretKey/Ed25519Bytes: the example of the
//     SecretKey::from_ed25519_bytes documentation of the Rust crate.

import (
	"bytes"
	"crypto/sha256"
	"crypto/sha512"
	"encoding/hex"
	"math/big"
	"os"
	"path/filepath"
	"strings"
	"testing"
)

const (
	srVecPK  = "46ebddef8cd9bb167dc30878d7113b7e168e6f0646beffd77d69d39bad76b47a"
	srVecSig = "4e172314444b8f820bb54c22e95076f220ed25373e5c178234aa6c211d29271244b947e3ff3418ff6b45fd1df1140c8cbff69fc58ee6dc96df70936a2bb74b82"
	srVecMsg = "this is a message"
	srVecCtx = "substrate"

	srVecUniformKP = "04f0557e7f35e00df0824f458868915368bd5e41fd91f85b177f5907383ac50bdd0660b091e0ec47ecaf1f6ce73e7168fef267770f5030d5c524a49615163471063b66cc8b77aa24f694d073ad72c21a9f296be0fd4ee953d8e58d5d627d435b"
	srVecEdKP      = "caa835781b15c7706f65b71f7a58c807ab360faed6440fb23e0f4c52e930de0a0a6a85eaa642dac835424b5d7c8d637c00408c7a73da672b7f498521420b6dd3def12e42f3e487e9b14095aa8d5cc16a33491f1b50dadcf8811d1480f3fa8627"

	srVecEdBytes = "28b0ae221c6bb06856b287f60d7ea0d98552ea5a16db16956849aa371db3eb51fd190cce74df356432b410bd64682309d6dedb27c76845daf388557cbac3ca34"
	srVecEdKey   = "05d65584630d16cd4af6d0bec10f34bb504a5dcb62dba2122d49f5a663763d0a"
	srVecEdNonce = "fd190cce74df356432b410bd64682309d6dedb27c76845daf388557cbac3ca34"
)

func srUnhex(t *testing.T, s string) []byte {
	b, err := hex.DecodeString(s)
	if err != nil {
		t.Fatal(err)
	}
	return b
}

// The hex strings above must be the ones in the tree under test (guards
// against a transcription slip; skipped if the tree is not there).
func TestSchnorrkelVectorsAreTheInTreeOnes(t *testing.T) {
	repo := os.Getenv("VERIF_REPO")
	if repo == "" {
		repo = "/repo"
	}
	var all []byte
	for _, f := range []string{"sign_test.go", "keys_test.go"} {
		b, err := os.ReadFile(filepath.Join(repo, "primitives", "sr25519", f))
		if err != nil {
			t.Skipf("in-tree tests not readable: %v", err)
		}
		all = append(all, b...)
	}
	for _, v := range []string{srVecPK, srVecSig, srVecMsg, srVecCtx, srVecUniformKP, srVecEdKP, srVecEdBytes, srVecEdKey, srVecEdNonce} {
		if !strings.Contains(string(all), `"`+v+`"`) {
			t.Errorf("vector %q not found in the in-tree tests", v)
		}
	}
}

func TestSchnorrkelVerifyPublishedSignature(t *testing.T) {
	pk, sig := srUnhex(t, srVecPK), srUnhex(t, srVecSig)
	tr := SrTranscript([]byte(srVecCtx), SrLabelBytes, []byte(srVecMsg))
	if !SrVerify(pk, tr, sig) {
		t.Fatal("reference rejects the published schnorrkel signature")
	}
	// the transcript is not consumed
	if !SrVerify(pk, tr, sig) {
		t.Fatal("second verification differs")
	}
	if SrVerify(pk, SrTranscript([]byte(srVecCtx), SrLabelBytes, []byte("wrong message")), sig) {
		t.Fatal("wrong message accepted")
	}
	if SrVerify(pk, SrTranscript([]byte("substratf"), SrLabelBytes, []byte(srVecMsg)), sig) {
		t.Fatal("wrong context accepted")
	}
	// every transcript framing detail matters: the same 17 bytes committed
	// under another label, or in the context slot, must not verify.
	d := sha256.Sum256([]byte(srVecMsg))
	if SrVerify(pk, SrTranscript([]byte(srVecCtx), SrLabel256, d[:]), sig) {
		t.Fatal("sign-256 accepted")
	}
	// every single signature bit matters
	for bit := 0; bit < 512; bit += 7 {
		m := append([]byte(nil), sig...)
		m[bit/8] ^= 1 << uint(bit%8)
		if SrVerify(pk, tr, m) {
			t.Fatalf("signature with bit %d flipped accepted", bit)
		}
	}
	m := append([]byte(nil), sig...)
	m[63] &= 0x7f
	if SrVerify(pk, tr, m) {
		t.Fatal("unmarked signature accepted")
	}
	// s + L (still below 2^255, marker set) is the same residue but must be rejected
	_, s, ok := SrSigDecode(sig)
	if !ok {
		t.Fatal("decode")
	}
	sl := new(big.Int).Add(s, L)
	m = append(append([]byte(nil), sig[:32]...), ToLE(sl, 32)...)
	m[63] |= 0x80
	if SrVerify(pk, tr, m) {
		t.Fatal("s+L accepted")
	}
	// challenge is a function of the encoded bytes
	k := SrChallenge(tr, pk, sig[:32])
	rp, _ := RistDecode(sig[:32])
	ap, _ := RistDecode(pk)
	if !RistEqual(Add(rp, Mul(k, ap)), MulBase(s)) {
		t.Fatal("s*B != R + k*A for the published signature")
	}
}

func TestSchnorrkelKeyExpansionVectors(t *testing.T) {
	zero := make([]byte, 32)
	for _, c := range []struct {
		name string
		sk   SrSecret
		want string
	}{
		{"ExpandUniform", SrExpandUniform(zero), srVecUniformKP},
		{"ExpandEd25519", SrExpandEd25519(zero), srVecEdKP},
	} {
		want := srUnhex(t, c.want)
		if got := c.sk.Bytes(); !bytes.Equal(got, want[:64]) {
			t.Errorf("%s: secret key %x want %x", c.name, got, want[:64])
		}
		if got := c.sk.PublicKey(); !bytes.Equal(got, want[64:]) {
			t.Errorf("%s: public key %x want %x", c.name, got, want[64:])
		}
		if c.sk.Key.Cmp(L) >= 0 {
			t.Errorf("%s: key not reduced", c.name)
		}
		sk, pk, ok := SrKeypairFromBytes(want)
		if !ok || sk.Key.Cmp(c.sk.Key) != 0 || !bytes.Equal(pk, want[64:]) {
			t.Errorf("%s: published key pair does not decode", c.name)
		}
		bad := append([]byte(nil), want...)
		bad[64] ^= 2
		if _, _, ok := SrKeypairFromBytes(bad); ok {
			t.Errorf("%s: key pair with altered public half decodes", c.name)
		}
	}
	// public half of another key
	a, b := srUnhex(t, srVecUniformKP), srUnhex(t, srVecEdKP)
	if _, _, ok := SrKeypairFromBytes(append(append([]byte(nil), a[:64]...), b[64:]...)); ok {
		t.Error("mismatched key pair decodes")
	}
}

func TestSchnorrkelFromEd25519Bytes(t *testing.T) {
	b := srUnhex(t, srVecEdBytes)
	if !SrEd25519BytesClamped(b) {
		t.Fatal("published expanded key is not clamped")
	}
	sk := SrFromEd25519Bytes(b)
	if got := ToLE(sk.Key, 32); !bytes.Equal(got, srUnhex(t, srVecEdKey)) {
		t.Fatalf("key %x", got)
	}
	if !bytes.Equal(sk.Nonce, srUnhex(t, srVecEdNonce)) {
		t.Fatalf("nonce %x", sk.Nonce)
	}
	// multiplying back by the cofactor gives the Ed25519 scalar
	if new(big.Int).Lsh(sk.Key, 3).Cmp(FromLE(b[:32])) != 0 {
		t.Fatal("8 * key != ed25519 scalar")
	}
	// expand_ed25519 is SHA-512 + clamp + from_ed25519_bytes
	mini := bytes.Repeat([]byte{0x5a}, 32)
	h := sha512.Sum512(mini)
	h[0] &= 248
	h[31] &= 127
	h[31] |= 64
	x, y := SrFromEd25519Bytes(h[:]), SrExpandEd25519(mini)
	if x.Key.Cmp(y.Key) != 0 || !bytes.Equal(x.Nonce, y.Nonce) || !SrEd25519BytesClamped(h[:]) {
		t.Fatal("expand_ed25519 != from_ed25519_bytes(clamp(SHA-512))")
	}
	bad := append([]byte(nil), b...)
	bad[0] |= 2
	if SrEd25519BytesClamped(bad) {
		t.Fatal("clamp predicate: low bits")
	}
	bad = append([]byte(nil), b...)
	bad[31] |= 0x80
	if SrEd25519BytesClamped(bad) {
		t.Fatal("clamp predicate: bit 255")
	}
	bad = append([]byte(nil), b...)
	bad[31] &^= 0x40
	if SrEd25519BytesClamped(bad) {
		t.Fatal("clamp predicate: bit 254")
	}
}

// Signing has no published byte vector (it is randomised); the reference
// signer is validated through the validated verifier: whatever it produces
// must verify, be deterministic in (key, transcript, entropy), and depend on
// each of them.
func TestSchnorrkelSignVerifies(t *testing.T) {
	ent := func(b byte) []byte { return bytes.Repeat([]byte{b}, 32) }
	keys := []SrSecret{
		SrExpandUniform(make([]byte, 32)),
		SrExpandEd25519(make([]byte, 32)),
		SrExpandUniform(bytes.Repeat([]byte{0xff}, 32)),
		{Key: big.NewInt(0), Nonce: make([]byte, 32)},
		{Key: new(big.Int).Sub(L, big1), Nonce: bytes.Repeat([]byte{7}, 32)},
	}
	d512 := sha512.Sum512([]byte("m"))
	d256 := sha256.Sum256([]byte("m"))
	trs := []*Merlin{
		SrTranscript([]byte("ctx"), SrLabelBytes, []byte("m")),
		SrTranscript(nil, SrLabelBytes, nil),
		SrTranscript([]byte("ctx"), SrLabel256, d256[:]),
		SrTranscript([]byte("ctx"), SrLabel512, d512[:]),
		SrTranscript([]byte("ctx"), SrLabelXoF, d256[:]),
		SrTranscript(bytes.Repeat([]byte{1}, 200), SrLabelBytes, bytes.Repeat([]byte{2}, 400)),
	}
	seen := map[string]bool{}
	for ki, sk := range keys {
		pk := sk.PublicKey()
		for ti, tr := range trs {
			sig := SrSign(sk, pk, tr, ent(byte(ki)))
			if !SrVerify(pk, tr, sig.Bytes) {
				t.Fatalf("key %d transcript %d: own signature rejected", ki, ti)
			}
			if sig.Bytes[63]&0x80 == 0 {
				t.Fatal("not marked")
			}
			if again := SrSign(sk, pk, tr, ent(byte(ki))); !bytes.Equal(again.Bytes, sig.Bytes) {
				t.Fatal("signing is not deterministic in its inputs")
			}
			if other := SrSign(sk, pk, tr, ent(0x99)); bytes.Equal(other.Bytes, sig.Bytes) {
				t.Fatal("entropy ignored")
			} else if !SrVerify(pk, tr, other.Bytes) {
				t.Fatal("signature under other entropy rejected")
			}
			if seen[string(sig.Bytes)] {
				t.Fatal("two different (key, transcript) pairs gave the same signature")
			}
			seen[string(sig.Bytes)] = true
			// fast paths agree with the plain ones
			if f := SrSignFast(sk, pk, tr, ent(byte(ki))); !bytes.Equal(f.Bytes, sig.Bytes) || f.K.Cmp(sig.K) != 0 || f.Rw.Cmp(sig.Rw) != 0 {
				t.Fatal("SrSignFast != SrSign")
			}
			if !bytes.Equal(sk.SrPublicKeyFast(), pk) {
				t.Fatal("SrPublicKeyFast != PublicKey")
			}
			if !SrVerifyKnownLog(sk.Key, pk, tr, sig.Bytes) {
				t.Fatal("SrVerifyKnownLog rejects")
			}
			// Not valid on any other transcript of the list -- except for the
			// zero key: its public key is the identity, k*A vanishes and the
			// equation s*B = R holds whatever was signed.
			o := trs[(ti+1)%len(trs)]
			if got, want := SrVerify(pk, o, sig.Bytes), sk.Key.Sign() == 0; got != want {
				t.Fatalf("key %d: signature on transcript %d on another transcript: %v", ki, ti, got)
			}
			if got, want := SrVerifyKnownLog(sk.Key, pk, o, sig.Bytes), sk.Key.Sign() == 0; got != want {
				t.Fatalf("key %d: SrVerifyKnownLog on another transcript: %v", ki, got)
			}
			m := append([]byte(nil), sig.Bytes...)
			m[(ki*7+ti*3)%64] ^= 1 << uint(ti)
			if SrVerify(pk, tr, m) || SrVerifyKnownLog(sk.Key, pk, tr, m) {
				t.Fatal("mutated signature accepted")
			}
			// not valid under another key
			opk := keys[(ki+1)%len(keys)].PublicKey()
			if SrVerify(opk, tr, sig.Bytes) {
				t.Fatal("verifies under another key")
			}
		}
	}
	// the nonce half of the secret key enters the witness
	a := SrSecret{Key: big.NewInt(5), Nonce: make([]byte, 32)}
	b := SrSecret{Key: big.NewInt(5), Nonce: bytes.Repeat([]byte{1}, 32)}
	if SrWitness(trs[0], a.PublicKey(), a.Nonce, ent(0)).Cmp(SrWitness(trs[0], b.PublicKey(), b.Nonce, ent(0))) == 0 {
		t.Fatal("nonce ignored")
	}
}
