package verifref

import (
	"bytes"
	"compress/gzip"
	"crypto/ecdh"
	"encoding/hex"
	"encoding/json"
	"math/big"
	"os"
	"path/filepath"
	"testing"

	"golang.org/x/crypto/curve25519"
)

func x25519Unhex(t *testing.T, s string) []byte {
	b, err := hex.DecodeString(s)
	if err != nil {
		t.Fatal(err)
	}
	return b
}

// RFC 7748 section 5.2, "X25519" test vectors.
func TestX25519RFC7748Vectors(t *testing.T) {
	for _, v := range []struct{ k, u, out string }{
		{"a546e36bf0527c9d3b16154b82465edd62144c0ac1fc5a18506a2244ba449ac4",
			"e6db6867583030db3594c1a424b15f7c726624ec26b3353b10a903a6d0ab1c4c",
			"c3da55379de9c6908e94ea4df28d084f32eccf03491c71f754b4075577a28552"},
		{"4b66e9d4d1b4673c5ad22691957d6af5c11b6421e0ea01d42ca4169e7918ba0d",
			"e5210f12786811d3f4b7959d0538ae2c31dbe7106fc03c3efc4cd549c715a493",
			"95cbde9476e8907d7aade45cb4b873f88b595a68799fa152e6f8f7647aac7957"},
	} {
		got := X25519(x25519Unhex(t, v.k), x25519Unhex(t, v.u))
		if hex.EncodeToString(got) != v.out {
			t.Fatalf("X25519(%s,%s) = %x want %s", v.k, v.u, got, v.out)
		}
	}
	// decoded integers quoted by the RFC for the first vector
	k := X25519DecodeScalar(x25519Unhex(t, "a546e36bf0527c9d3b16154b82465edd62144c0ac1fc5a18506a2244ba449ac4"))
	if k.String() != "31029842492115040904895560451863089656472772604678260265531221036453811406496" {
		t.Fatal("decodeScalar25519", k)
	}
	u := X25519DecodeUCoordinate(x25519Unhex(t, "e6db6867583030db3594c1a424b15f7c726624ec26b3353b10a903a6d0ab1c4c"))
	if u.String() != "34426434033919594451155107781188821651316167215306631574996226621102155684838" {
		t.Fatal("decodeUCoordinate", u)
	}
	// second vector: the u input has bit 255 set
	u = X25519DecodeUCoordinate(x25519Unhex(t, "e5210f12786811d3f4b7959d0538ae2c31dbe7106fc03c3efc4cd549c715a493"))
	if u.String() != "8883857351183929894090759386610649319417338800022198945255395922347792736741" {
		t.Fatal("decodeUCoordinate (bit 255)", u)
	}
}

// RFC 7748 section 5.2, iterated vectors (1 and 1,000 iterations).
func TestX25519RFC7748Iterated(t *testing.T) {
	k := X25519BasepointU()
	u := X25519BasepointU()
	for i := 1; i <= 1000; i++ {
		r := X25519(k, u)
		u, k = k, r
		if i == 1 && hex.EncodeToString(k) != "422c8e7a6227d7bca1350b3e2bb7279f7897b87bb6854b783c60e80311ae3079" {
			t.Fatalf("after 1 iteration: %x", k)
		}
	}
	if hex.EncodeToString(k) != "684cf59ba83309552800ef566f2f4d3c1c3887c49360e3875f2eb94d99532c51" {
		t.Fatalf("after 1000 iterations: %x", k)
	}
}

// RFC 7748 section 6.1 Diffie-Hellman vectors.
func TestX25519RFC7748DH(t *testing.T) {
	a := x25519Unhex(t, "77076d0a7318a57d3c16c17251b26645df4c2f87ebc0992ab177fba51db92c2a")
	apub := "8520f0098930a754748b7ddcb43ef75a0dbf3a0d26381af4eba4a98eaa9b4e6a"
	b := x25519Unhex(t, "5dab087e624a8a4b79e17f8b83800ee66f3bb1292618b6fd1c2f8b27ff88e0eb")
	bpub := "de9edb7d7b7dc1b4d35b61c2ece435373f8343c85b78674dadfc7e146f882b4f"
	k := "4a5d9d5ba4ce2de1728e3bf480350f25e07e21c947d19e3376f09b3c1e161742"
	if got := hex.EncodeToString(X25519(a, X25519BasepointU())); got != apub {
		t.Fatal("alice pub", got)
	}
	if got := hex.EncodeToString(X25519(b, X25519BasepointU())); got != bpub {
		t.Fatal("bob pub", got)
	}
	if got := hex.EncodeToString(X25519(a, x25519Unhex(t, bpub))); got != k {
		t.Fatal("shared a", got)
	}
	if got := hex.EncodeToString(X25519(b, x25519Unhex(t, apub))); got != k {
		t.Fatal("shared b", got)
	}
}

// Wycheproof XDH vectors shipped as data with the repository (518 cases:
// twist points, low-order points, non-canonical u, edge-case ladders).
func TestX25519Wycheproof(t *testing.T) {
	repo := os.Getenv("VERIF_REPO")
	if repo == "" {
		repo = "/repo"
	}
	f, err := os.Open(filepath.Join(repo, "primitives/x25519/testdata/x25519_test.json.gz"))
	if err != nil {
		t.Fatal(err)
	}
	defer f.Close()
	zr, err := gzip.NewReader(f)
	if err != nil {
		t.Fatal(err)
	}
	var doc struct {
		TestGroups []struct {
			Tests []struct {
				ID      int    `json:"tcId"`
				Public  string `json:"public"`
				Private string `json:"private"`
				Shared  string `json:"shared"`
			} `json:"tests"`
		} `json:"testGroups"`
	}
	if err := json.NewDecoder(zr).Decode(&doc); err != nil {
		t.Fatal(err)
	}
	n := 0
	for _, g := range doc.TestGroups {
		for _, tc := range g.Tests {
			got := X25519(x25519Unhex(t, tc.Private), x25519Unhex(t, tc.Public))
			if hex.EncodeToString(got) != tc.Shared {
				t.Fatalf("tcId %d: got %x want %s", tc.ID, got, tc.Shared)
			}
			n++
		}
	}
	if n < 500 {
		t.Fatalf("only %d wycheproof cases", n)
	}
}

func x25519Rand(seed uint64, n int) []byte {
	out := make([]byte, 0, n+8)
	x := seed
	for len(out) < n {
		x += 0x9e3779b97f4a7c15
		z := x
		z = (z ^ (z >> 30)) * 0xbf58476d1ce4e5b9
		z = (z ^ (z >> 27)) * 0x94d049bb133111eb
		z ^= z >> 31
		for i := 0; i < 8; i++ {
			out = append(out, byte(z>>(8*uint(i))))
		}
	}
	return out[:n]
}

// x25519SpecialUs: low-order strings, all of [p, 2^255), small values, p - small,
// twist and curve points, each also with bit 255 set.
func x25519SpecialUs() [][]byte {
	var us [][]byte
	us = append(us, X25519LowOrderStrings()...)
	for k := int64(0); k < 19; k++ {
		us = append(us, ToLE(new(big.Int).Add(P, big.NewInt(k)), 32))
	}
	for k := int64(0); k < 24; k++ {
		us = append(us, ToLE(big.NewInt(k), 32), ToLE(new(big.Int).Sub(P, big.NewInt(k+1)), 32))
	}
	for i := 0; i < 24; i++ {
		us = append(us, x25519Rand(uint64(1000+i), 32))
	}
	n := len(us)
	for i := 0; i < n; i++ {
		c := append([]byte(nil), us[i]...)
		c[31] ^= 0x80
		us = append(us, c)
	}
	return us
}

// Three-way agreement with crypto/ecdh and x/crypto/curve25519 on special and
// random inputs, including the all-zero outputs (which both reject with an
// error from their checked entry points).
func TestX25519AgainstStdlibAndXCrypto(t *testing.T) {
	us := x25519SpecialUs()
	zero := make([]byte, 32)
	sawZero, sawTwist := 0, 0
	for i, u := range us {
		if !X25519OnCurve(X25519DecodeUCoordinate(u)) {
			sawTwist++
		}
		for j := 0; j < 3; j++ {
			k := x25519Rand(uint64(7*i+j), 32)
			if j == 1 {
				k[0] |= 7
				k[31] |= 0x80
				k[31] &^= 0x40
			}
			want := X25519(k, u)
			var dst, ka, ua [32]byte
			copy(ka[:], k)
			copy(ua[:], u)
			curve25519.ScalarMult(&dst, &ka, &ua) //nolint:staticcheck
			if !bytes.Equal(dst[:], want) {
				t.Fatalf("x/crypto: k=%x u=%x got %x want %x", k, u, dst, want)
			}
			priv, err := ecdh.X25519().NewPrivateKey(k)
			if err != nil {
				t.Fatal(err)
			}
			pub, err := ecdh.X25519().NewPublicKey(u)
			if err != nil {
				t.Fatal(err)
			}
			got, err := priv.ECDH(pub)
			isZero := bytes.Equal(want, zero)
			if isZero {
				sawZero++
			}
			if (err != nil) != isZero {
				t.Fatalf("crypto/ecdh: k=%x u=%x err=%v but reference output %x", k, u, err, want)
			}
			if err == nil && !bytes.Equal(got, want) {
				t.Fatalf("crypto/ecdh: k=%x u=%x got %x want %x", k, u, got, want)
			}
			_, err = curve25519.X25519(k, u)
			if (err != nil) != isZero {
				t.Fatalf("x/crypto X25519: k=%x u=%x err=%v reference %x", k, u, err, want)
			}
		}
	}
	if sawZero < 3*14 || sawTwist < 10 {
		t.Fatalf("coverage: zero=%d twist=%d", sawZero, sawTwist)
	}
}

// The literal ladder equals the mathematical definition u([k]P) (affine group
// law on the curve or on the twist, infinity -> 0) for clamped and unclamped
// scalars, on low-order, non-canonical, twist and ordinary inputs.
func TestX25519LadderIsScalarMultiplication(t *testing.T) {
	us := x25519SpecialUs()
	scalars := []*big.Int{bi(0), bi(1), bi(2), bi(3), bi(4), bi(5), bi(7), bi(8), bi(9), bi(16),
		new(big.Int).Set(L), new(big.Int).Add(L, big1), new(big.Int).Sub(L, big1), new(big.Int).Mul(L, bi(7)),
		new(big.Int).Mul(L, bi(4)), new(big.Int).Sub(new(big.Int).Lsh(big1, 255), big1), new(big.Int).Lsh(big1, 254)}
	for i := 0; i < 6; i++ {
		k := FromLE(x25519Rand(uint64(50+i), 32))
		k.SetBit(k, 255, 0)
		scalars = append(scalars, k, X25519DecodeScalar(x25519Rand(uint64(90+i), 32)))
	}
	for i, u := range us {
		ui := X25519DecodeUCoordinate(u)
		for j, k := range scalars {
			if k.BitLen() > 16 && (i+j)%12 != 0 { // thin out the expensive (long) scalars
				continue
			}
			a := X25519Ladder(k, ui, 255)
			b := X25519Math(k, ui)
			if a.Cmp(b) != 0 {
				t.Fatalf("ladder != [k]P: k=%v u=%x ladder=%v math=%v", k, u, a, b)
			}
		}
	}
	// low-order list: exactly the inputs that clamped scalars send to 0
	lo := X25519LowOrderU()
	if len(lo) != 5 {
		t.Fatal("low-order list")
	}
	if lo[2].String() != "325606250916557431795983626356110631294008115727848805560023387167927233504" ||
		lo[3].String() != "39382357235489614581723060781553021112529911719440698176882885853963445705823" {
		t.Fatalf("order-8 u values: %v %v", lo[2], lo[3])
	}
	if len(X25519LowOrderStrings()) != 14 {
		t.Fatalf("low-order strings: %d", len(X25519LowOrderStrings()))
	}
	for _, u := range lo {
		if X25519Math(bi(8), u).Sign() != 0 {
			t.Fatalf("[8]P != O for low-order u=%v", u)
		}
	}
	// the twist is really the twist: 2 is a non-square, -1 is on the twist, 9 on the curve
	if FIsSquare(big2) || X25519OnCurve(new(big.Int).Sub(P, big1)) || !X25519OnCurve(bi(9)) {
		t.Fatal("curve/twist classification")
	}
	// base point: u = 9 is the image of the Edwards base point, and the ladder
	// agrees with Edwards scalar multiplication
	if Base.MontgomeryU().Cmp(bi(9)) != 0 {
		t.Fatal("u(B) != 9")
	}
	for i := 0; i < 8; i++ {
		k := X25519DecodeScalar(x25519Rand(uint64(200+i), 32))
		if MulBase(k).MontgomeryU().Cmp(X25519Ladder(k, bi(9), 255)) != 0 {
			t.Fatal("ladder vs Edwards base mult")
		}
	}
}
