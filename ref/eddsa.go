package verifref

import (
	"bytes"
	"crypto/sha512"
	"math/big"
)

// Ed25519 reference (RFC 8032 section 5.1) in math/big.

type EdVariant int

const (
	EdPure EdVariant = iota
	EdCtx
	EdPh
)

// Dom2 is RFC 8032's dom2(F, C); empty for pure Ed25519.
func Dom2(v EdVariant, ctx []byte) []byte {
	if v == EdPure {
		return nil
	}
	f := byte(0)
	if v == EdPh {
		f = 1
	}
	out := []byte("SigEd25519 no Ed25519 collisions")
	out = append(out, f, byte(len(ctx)))
	return append(out, ctx...)
}

func h512(parts ...[]byte) []byte {
	h := sha512.New()
	for _, p := range parts {
		h.Write(p)
	}
	return h.Sum(nil)
}

// EdExpand returns (clamped secret scalar a, prefix) for a 32-byte seed.
func EdExpand(seed []byte) (*big.Int, []byte) {
	d := h512(seed)
	s := append([]byte(nil), d[:32]...)
	s[0] &= 248
	s[31] &= 127
	s[31] |= 64
	return FromLE(s), d[32:]
}

// EdPublicKey is RFC 8032 5.1.5.
func EdPublicKey(seed []byte) []byte {
	a, _ := EdExpand(seed)
	return MulBase(a).Encode()
}

// EdChallenge is k = SHA-512(dom2 || R || A || M) mod L over the bytes as sent.
func EdChallenge(v EdVariant, ctx, rBytes, aBytes, msg []byte) *big.Int {
	return SMod(FromLE(h512(Dom2(v, ctx), rBytes, aBytes, msg)))
}

// EdSign is RFC 8032 5.1.6 (msg is PH(M) for the ph variant).
func EdSign(seed []byte, v EdVariant, ctx, msg []byte) []byte {
	a, prefix := EdExpand(seed)
	A := MulBase(a).Encode()
	r := SMod(FromLE(h512(Dom2(v, ctx), prefix, msg)))
	return edFinish(a, A, r, v, ctx, msg)
}

// EdSignHedged is the library's documented "added randomness" construction:
// r = H(dom2 || Z || prefix || 0-pad to a 1024-bit block boundary... || M),
// where the padding makes dom2||Z||prefix||pad exactly 1024 bytes.
func EdSignHedged(seed []byte, v EdVariant, ctx, msg, z []byte) []byte {
	a, prefix := EdExpand(seed)
	A := MulBase(a).Encode()
	d2 := Dom2(v, ctx)
	pad := make([]byte, 1024-(len(d2)+len(z)+32))
	r := SMod(FromLE(h512(d2, z, prefix, pad, msg)))
	return edFinish(a, A, r, v, ctx, msg)
}

func edFinish(a *big.Int, A []byte, r *big.Int, v EdVariant, ctx, msg []byte) []byte {
	R := MulBase(r).Encode()
	k := EdChallenge(v, ctx, R, A, msg)
	S := SAdd(r, SMul(k, a))
	return append(R, SEncode(S)...)
}

// EdFlags are the five VerifyOptions flags of the property statement.
type EdFlags struct {
	AllowSmallOrderA, AllowSmallOrderR, AllowNonCanonicalA, AllowNonCanonicalR, Cofactorless bool
}

// EdFacts holds everything about (pk, msg, sig) that does not depend on flags.
type EdFacts struct {
	LenOK        bool
	SBelowL      bool
	A, R         DecodeInfo
	ASmall       bool
	RSmall       bool
	Cofactored   bool // [8]([S]B - [k]A - R) == O   (only meaningful if A.OK && R.OK)
	Cofactorless bool // Encode([S]B - [k]A) == R bytes (only meaningful if A.OK)
}

// EdAnalyse computes the flag-independent facts.  pk must be 32 bytes.
func EdAnalyse(v EdVariant, ctx, pk, msg, sig []byte) EdFacts {
	var f EdFacts
	f.LenOK = len(sig) == 64
	if !f.LenOK {
		return f
	}
	S := FromLE(sig[32:])
	f.SBelowL = S.Cmp(L) < 0
	f.A = Decode(pk)
	f.R = Decode(sig[:32])
	if f.A.OK {
		f.ASmall = IsSmallOrder(f.A.P)
	}
	if f.R.OK {
		f.RSmall = IsSmallOrder(f.R.P)
	}
	if !f.A.OK {
		return f
	}
	k := EdChallenge(v, ctx, sig[:32], pk, msg)
	// Q = [S]B - [k]A   (S reduced mod L is fine: B has order L)
	Q := Sub(MulBase(SMod(S)), Mul(k, f.A.P))
	f.Cofactorless = bytes.Equal(Q.Encode(), sig[:32])
	if f.R.OK {
		f.Cofactored = MulByCofactor(Sub(Q, f.R.P)).IsIdentity()
	}
	return f
}

// Decide applies the configured predicate exactly as the property states it.
func (f EdFacts) Decide(fl EdFlags) bool {
	if !f.LenOK || !f.SBelowL {
		return false
	}
	if !f.A.OK {
		return false
	}
	if !fl.AllowSmallOrderA && f.ASmall {
		return false
	}
	if !fl.AllowNonCanonicalA && !f.A.Canonical {
		return false
	}
	if fl.Cofactorless {
		// R must be admissible too: canonical (AllowNonCanonicalR is
		// incompatible with cofactorless) and, if configured, not small order.
		if !f.Cofactorless {
			return false
		}
		// equality with a canonical encoding implies R decodes canonically
		if !fl.AllowSmallOrderR && f.RSmall {
			return false
		}
		return true
	}
	if !f.R.OK {
		return false
	}
	if !fl.AllowSmallOrderR && f.RSmall {
		return false
	}
	if !fl.AllowNonCanonicalR && !f.R.Canonical {
		return false
	}
	return f.Cofactored
}

// EdVerifyFlags = EdAnalyse + Decide.
func EdVerifyFlags(fl EdFlags, v EdVariant, ctx, pk, msg, sig []byte) bool {
	return EdAnalyse(v, ctx, pk, msg, sig).Decide(fl)
}

// EdVerifyRFC8032 is RFC 8032 5.1.7 / FIPS 186-5 7.7 written separately from
// the spec text: strict decoding of A and R (canonical only), S in [0, L),
// cofactored group equation [8][S]B = [8]R + [8][k]A.
func EdVerifyRFC8032(v EdVariant, ctx, pk, msg, sig []byte) bool {
	if len(sig) != 64 || len(pk) != 32 {
		return false
	}
	strict := func(b []byte) (Point, bool) {
		// RFC 8032 5.1.3: y >= p fails; x = 0 with sign bit fails.
		c := append([]byte(nil), b...)
		sign := c[31] >> 7
		c[31] &= 0x7f
		y := FromLE(c)
		if y.Cmp(P) >= 0 {
			return Point{}, false
		}
		x, ok := xFromY(y)
		if !ok {
			return Point{}, false
		}
		if x.Sign() == 0 && sign == 1 {
			return Point{}, false
		}
		if uint(x.Bit(0)) != uint(sign) {
			x = FNeg(x)
		}
		return Point{x, y}, true
	}
	A, ok := strict(pk)
	if !ok {
		return false
	}
	R, ok := strict(sig[:32])
	if !ok {
		return false
	}
	S := FromLE(sig[32:])
	if S.Cmp(L) >= 0 {
		return false
	}
	k := SMod(FromLE(h512(Dom2(v, ctx), sig[:32], pk, msg)))
	lhs := Mul(big8, MulBase(S))
	rhs := Add(Mul(big8, R), Mul(big8, Mul(k, A)))
	return lhs.Equal(rhs)
}

// EdVerifyZIP215 is the ZIP-215 rule set: A and R decoded permissively
// (non-canonical y accepted, reduced mod p; "negative zero" accepted),
// S < L required, cofactored equation [8][S]B = [8]R + [8][k]A, with k
// computed over the bytes as sent.
func EdVerifyZIP215(v EdVariant, ctx, pk, msg, sig []byte) bool {
	if len(sig) != 64 || len(pk) != 32 {
		return false
	}
	A := Decode(pk)
	R := Decode(sig[:32])
	if !A.OK || !R.OK {
		return false
	}
	S := FromLE(sig[32:])
	if S.Cmp(L) >= 0 {
		return false
	}
	k := SMod(FromLE(h512(Dom2(v, ctx), sig[:32], pk, msg)))
	lhs := Mul(big8, MulBase(S))
	rhs := Add(Mul(big8, R.P), Mul(big8, Mul(k, A.P)))
	return lhs.Equal(rhs)
}

// Flag presets of the library, restated.
var (
	EdFlagsDefault = EdFlags{AllowSmallOrderR: true}
	EdFlagsStdLib  = EdFlags{AllowSmallOrderA: true, AllowSmallOrderR: true, AllowNonCanonicalA: true, Cofactorless: true}
	EdFlagsFIPS    = EdFlags{AllowSmallOrderA: true, AllowSmallOrderR: true}
	EdFlagsZIP215  = EdFlags{AllowSmallOrderA: true, AllowSmallOrderR: true, AllowNonCanonicalA: true, AllowNonCanonicalR: true}
)
