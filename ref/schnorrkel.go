package verifref

// Schnorrkel (sr25519) signatures, written from the w3f/schnorrkel
// specification (keys.rs / context.rs / sign.rs of the Rust crate, which is
// the normative definition) on top of the reference Merlin transcripts, the
// reference ristretto255 (RFC 9496) and math/big scalars.
//
//   signing context      t  = Merlin("SigningContext"); t.append_message("", ctx)
//   message              t' = clone(t); t'.append_message(L, m) with
//                              L = "sign-bytes" (m = the message itself),
//                              L = "sign-256" / "sign-512" (m = a 32/64-byte digest),
//                              L = "sign-XoF" (m = the first 32 bytes of an XOF)
//   MiniSecretKey::expand_uniform:
//        e = Merlin("ExpandSecretKeys"); e.append_message("mini", mini)
//        key   = LE(e.challenge_bytes("sk", 64)) mod L
//        nonce = e.challenge_bytes("no", 32)
//   MiniSecretKey::expand_ed25519:
//        h = SHA-512(mini); h[0] &= 248; h[31] &= 63; h[31] |= 64
//        key = LE(h[0..32]) / 8 ; nonce = h[32..64]
//   SecretKey::from_ed25519_bytes(b):  key = LE(b[0..32]) / 8 (integer shift), nonce = b[32..64]
//   public key           A = ENCODE(key * B)
//   sign(t', sk, A; entropy):
//        t'.append_message("proto-name", "Schnorr-sig"); t'.append_message("sign:pk", A)
//        rng = t'.build_rng().rekey_with_witness_bytes("signing", nonce).finalize(entropy[0..32])
//        r = LE(rng.fill_bytes(64)) mod L ; R = ENCODE(r * B)
//        t'.append_message("sign:R", R)
//        k = LE(t'.challenge_bytes("sign:c", 64)) mod L
//        s = k*key + r mod L
//        signature = R || LE32(s), with bit 7 of byte 63 set
//   verify(t', A, sig): sig has 64 bytes, the marker bit set, s (marker bit
//        cleared) < L, A decodes; k as above; accept iff ENCODE(s*B - k*A) == R.

import (
	"bytes"
	"crypto/sha512"
	"math/big"
)

// SrSecret is an expanded schnorrkel secret key.
type SrSecret struct {
	Key   *big.Int // scalar, always < 2^255; < L for every constructor below
	Nonce []byte   // 32 bytes
}

// SrExpandUniform is MiniSecretKey::expand_uniform.
func SrExpandUniform(mini []byte) SrSecret {
	if len(mini) != 32 {
		panic("verifref: schnorrkel: mini secret key must have 32 bytes")
	}
	t := NewMerlin([]byte("ExpandSecretKeys"))
	t.AppendMessage([]byte("mini"), mini)
	key := SMod(FromLE(t.ChallengeBytes([]byte("sk"), 64)))
	nonce := t.ChallengeBytes([]byte("no"), 32)
	return SrSecret{Key: key, Nonce: nonce}
}

// SrExpandEd25519 is MiniSecretKey::expand_ed25519.
func SrExpandEd25519(mini []byte) SrSecret {
	if len(mini) != 32 {
		panic("verifref: schnorrkel: mini secret key must have 32 bytes")
	}
	h := sha512.Sum512(mini)
	h[0] &= 248
	h[31] &= 63
	h[31] |= 64
	key := FromLE(h[:32])
	key.Rsh(key, 3) // exact: the low three bits are clear
	return SrSecret{Key: key, Nonce: append([]byte(nil), h[32:]...)}
}

// SrEd25519BytesClamped reports whether the first 32 bytes of an expanded
// Ed25519 secret key are a clamped scalar (low three bits clear, bit 255
// clear, bit 254 set).
func SrEd25519BytesClamped(b []byte) bool {
	return len(b) == 64 && b[0]&7 == 0 && b[31]&0xc0 == 0x40
}

// SrFromEd25519Bytes is SecretKey::from_ed25519_bytes: the scalar half divided
// by the cofactor as an integer (floor), the nonce half copied.
func SrFromEd25519Bytes(b []byte) SrSecret {
	if len(b) != 64 {
		panic("verifref: schnorrkel: expanded ed25519 key must have 64 bytes")
	}
	key := FromLE(b[:32])
	key.Rsh(key, 3)
	return SrSecret{Key: key, Nonce: append([]byte(nil), b[32:]...)}
}

// SrSecretFromBytes is SecretKey::from_bytes: 32-byte canonical scalar || 32-byte nonce.
func SrSecretFromBytes(b []byte) (SrSecret, bool) {
	if len(b) != 64 {
		return SrSecret{}, false
	}
	key := FromLE(b[:32])
	if key.Cmp(L) >= 0 {
		return SrSecret{}, false
	}
	return SrSecret{Key: key, Nonce: append([]byte(nil), b[32:]...)}, true
}

// Bytes is SecretKey::to_bytes: LE32(key) || nonce.
func (sk SrSecret) Bytes() []byte {
	return append(ToLE(sk.Key, 32), sk.Nonce...)
}

// PublicKey returns ENCODE(key * B).
func (sk SrSecret) PublicKey() []byte {
	return RistEncode(MulBase(sk.Key))
}

// SrKeypairFromBytes is Keypair::from_bytes plus the consistency requirement
// key*B == public that the property demands of a well-formed key pair.
func SrKeypairFromBytes(b []byte) (SrSecret, []byte, bool) {
	if len(b) != 96 {
		return SrSecret{}, nil, false
	}
	sk, ok := SrSecretFromBytes(b[:64])
	if !ok {
		return SrSecret{}, nil, false
	}
	if _, ok := RistDecode(b[64:]); !ok {
		return SrSecret{}, nil, false
	}
	if !bytes.Equal(sk.PublicKey(), b[64:]) {
		return SrSecret{}, nil, false
	}
	return sk, append([]byte(nil), b[64:]...), true
}

// SrContext is SigningContext::new(ctx).
func SrContext(ctx []byte) *Merlin {
	t := NewMerlin([]byte("SigningContext"))
	t.AppendMessage(nil, ctx)
	return t
}

// Message labels of the four ways to commit to a message.
const (
	SrLabelBytes = "sign-bytes"
	SrLabel256   = "sign-256"
	SrLabel512   = "sign-512"
	SrLabelXoF   = "sign-XoF"
)

// SrTranscript is SigningContext::{bytes, hash256, hash512, xof}: data is the
// message itself for SrLabelBytes, otherwise the prehash (32, 64 and 32 bytes).
func SrTranscript(ctx []byte, label string, data []byte) *Merlin {
	switch label {
	case SrLabelBytes:
	case SrLabel256, SrLabelXoF:
		if len(data) != 32 {
			panic("verifref: schnorrkel: prehash must have 32 bytes")
		}
	case SrLabel512:
		if len(data) != 64 {
			panic("verifref: schnorrkel: prehash must have 64 bytes")
		}
	default:
		panic("verifref: schnorrkel: unknown message label")
	}
	t := SrContext(ctx)
	t.AppendMessage([]byte(label), data)
	return t
}

func srCommitSign(t *Merlin, pub []byte) *Merlin {
	c := t.Clone()
	c.AppendMessage([]byte("proto-name"), []byte("Schnorr-sig"))
	c.AppendMessage([]byte("sign:pk"), pub)
	return c
}

// SrChallenge is the challenge scalar k for (transcript, public key bytes, R
// bytes).  The byte strings are committed as they are (no decoding).
func SrChallenge(t *Merlin, pub, r []byte) *big.Int {
	c := srCommitSign(t, pub)
	c.AppendMessage([]byte("sign:R"), r)
	return SMod(FromLE(c.ChallengeBytes([]byte("sign:c"), 64)))
}

// SrWitness is the witness scalar r of SecretKey::sign for the given 32 bytes
// of external randomness.
func SrWitness(t *Merlin, pub, nonce, entropy32 []byte) *big.Int {
	c := srCommitSign(t, pub)
	rng := c.BuildRNG().RekeyWithWitnessBytes([]byte("signing"), nonce).Finalize(entropy32)
	return SMod(FromLE(rng.FillBytes(64)))
}

// SrSignature is a signature together with the intermediate values.
type SrSignature struct {
	Bytes []byte   // R || s, marked
	Rw    *big.Int // witness scalar r
	K     *big.Int // challenge scalar
	S     *big.Int
}

// SrSign is SecretKey::sign(t, public) with the transcript RNG finalized with
// entropy32 (the 32 bytes an external RNG would deliver).
func SrSign(sk SrSecret, pub []byte, t *Merlin, entropy32 []byte) SrSignature {
	rw := SrWitness(t, pub, sk.Nonce, entropy32)
	rb := RistEncode(MulBase(rw))
	k := SrChallenge(t, pub, rb)
	s := SAdd(SMul(k, sk.Key), rw)
	out := append(append([]byte(nil), rb...), ToLE(s, 32)...)
	out[63] |= 0x80
	return SrSignature{Bytes: out, Rw: rw, K: k, S: s}
}

// SrSigDecode is Signature::from_bytes: 64 bytes, marker bit set, scalar
// (marker cleared) canonical.  R is NOT decoded (schnorrkel keeps it
// compressed).
func SrSigDecode(sig []byte) (r []byte, s *big.Int, ok bool) {
	if len(sig) != 64 || sig[63]&0x80 == 0 {
		return nil, nil, false
	}
	sb := append([]byte(nil), sig[32:]...)
	sb[31] &= 0x7f
	s = FromLE(sb)
	if s.Cmp(L) >= 0 {
		return nil, nil, false
	}
	return append([]byte(nil), sig[:32]...), s, true
}

// SrVerify is PublicKey::verify on encoded inputs: false if the public key or
// the signature does not decode, else ENCODE(s*B - k*A) == R.
func SrVerify(pub []byte, t *Merlin, sig []byte) bool {
	a, ok := RistDecode(pub)
	if !ok {
		return false
	}
	r, s, ok := SrSigDecode(sig)
	if !ok {
		return false
	}
	k := SrChallenge(t, pub, r)
	rr := Sub(MulBase(s), Mul(k, a))
	return bytes.Equal(RistEncode(rr), r)
}

// ---- fast paths (fixed-base table of c03_fixedbase.go instead of plain
// double-and-add; validated against the plain functions in the tests, and
// cross-checked by the harness on a sample of every run) ----

// SrPublicKeyFast is PublicKey() through the fixed-base table.
func (sk SrSecret) SrPublicKeyFast() []byte { return RistEncode(C03MulBase(sk.Key)) }

// SrSignFast is SrSign through the fixed-base table.
func SrSignFast(sk SrSecret, pub []byte, t *Merlin, entropy32 []byte) SrSignature {
	rw := SrWitness(t, pub, sk.Nonce, entropy32)
	rb := RistEncode(C03MulBase(rw))
	k := SrChallenge(t, pub, rb)
	s := SAdd(SMul(k, sk.Key), rw)
	out := append(append([]byte(nil), rb...), ToLE(s, 32)...)
	out[63] |= 0x80
	return SrSignature{Bytes: out, Rw: rw, K: k, S: s}
}

// SrVerifyKnownLog is SrVerify for a public key whose discrete logarithm is
// known to the caller: pub must be ENCODE(a*B) (checked), so that
// s*B - k*A = (s - k*a)*B is a single fixed-base multiplication.
func SrVerifyKnownLog(a *big.Int, pub []byte, t *Merlin, sig []byte) bool {
	if !bytes.Equal(RistEncode(C03MulBase(SMod(a))), pub) {
		panic("verifref: schnorrkel: SrVerifyKnownLog: pub is not ENCODE(a*B)")
	}
	r, s, ok := SrSigDecode(sig)
	if !ok {
		return false
	}
	k := SrChallenge(t, pub, r)
	rr := C03MulBase(SSub(s, SMul(k, a)))
	return bytes.Equal(RistEncode(rr), r)
}
