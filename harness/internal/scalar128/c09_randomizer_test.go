//go:build verif

package scalar128

// C09 — the mechanism behind "batch verification agrees with single
// verification": the random linear combination.  The batch equation only
// proves anything if the coefficients z_i are what the package says they are:
// "uniformly at random from the set {1, 2, 3, ..., 2^b}", b = 128, drawn from
// the caller's entropy.  The agreement checks of C09 observe the z_i only
// through cancelling pairs (equal neighbours); a generator that yields 64-bit
// values, a constant upper half, a short period or zero would keep every
// agreement check green and make batches forgeable.
//
// Oracle (semantic, not tied to the stream cipher in use): for generated
// entropy streams of every chunking, each z is in [1, 2^128]; 256 consecutive
// values are pairwise distinct and every one of the 128 bit positions takes
// both values among them (a fixed bit fails this with probability 2^-255);
// two generators keyed from different entropy disagree at once; a source that
// dries up gives an error and no generator.  FixRawRangeVartime maps 0 to
// 2^128 and nothing else to anything else.

import (
	"bytes"
	"io"
	"math/big"
	"testing"

	"github.com/oasisprotocol/curve25519-voi/curve/scalar"
	"pgregory.net/rapid"
	h "verifh"
	ref "verifref"
)

type c09RandCase struct {
	Ent   h.C09Entropy
	Other uint64 // seed of a second, different stream
	Short int    // > 0: the source holds only that many bytes
	Raw   h.Hex  // 32 bytes for FixRawRangeVartime
}

type c09ShortReader struct{ n int }

func (r *c09ShortReader) Read(p []byte) (int, error) {
	if r.n == 0 {
		return 0, io.EOF
	}
	n := len(p)
	if n > r.n {
		n = r.n
	}
	for i := 0; i < n; i++ {
		p[i] = 0xa5
	}
	r.n -= n
	return n, nil
}

func c09GenRand(t *rapid.T) c09RandCase {
	c := c09RandCase{Ent: h.C09GenEntropy(t, "e"), Other: rapid.Uint64().Draw(t, "other")}
	if rapid.IntRange(0, 7).Draw(t, "short") == 0 {
		c.Short = rapid.IntRange(1, 31).Draw(t, "n")
	}
	switch rapid.IntRange(0, 5).Draw(t, "raw") {
	case 0:
		c.Raw = make([]byte, 32)
	case 1:
		c.Raw = make([]byte, 32)
		c.Raw[rapid.IntRange(0, 31).Draw(t, "i")] = rapid.ByteRange(1, 255).Draw(t, "v")
	case 2:
		c.Raw = make([]byte, 32)
		c.Raw[16] = 1 // already 2^128
	default:
		c.Raw = h.UniformBytes(t, 32, "rawbytes")
	}
	return c
}

func c09CheckRand(c c09RandCase) h.Result {
	r := h.NewR().NT(true)
	// FixRawRangeVartime
	r.Eval(1)
	if len(c.Raw) == 32 {
		var raw [scalar.ScalarSize]byte
		copy(raw[:], c.Raw)
		FixRawRangeVartime(&raw)
		want := append([]byte(nil), c.Raw...)
		if bytes.Equal(want, make([]byte, 32)) {
			want[16] = 1
			r.Class("fix:zero")
		}
		if !bytes.Equal(raw[:], want) {
			r.Fail("scalar128.FixRawRangeVartime:wrong", "in=%x out=%x want=%x", []byte(c.Raw), raw[:], want)
		}
	}
	if c.Short > 0 {
		r.Class("entropy-dries-up").Eval(1)
		if g, err := NewGenerator(&c09ShortReader{n: c.Short}); err == nil || g != nil {
			r.Fail("scalar128.NewGenerator:generator-from-short-entropy", "%d bytes", c.Short)
		}
		return r.Result()
	}
	gen, err := NewGenerator(c.Ent.Reader())
	if err != nil || gen == nil {
		return r.Fail("scalar128.NewGenerator:error", "entropy %+v: %v", c.Ent, err).Result()
	}
	max := new(big.Int).Lsh(big.NewInt(1), 128)
	seen := map[string]bool{}
	var or, and [16]byte
	for i := range and {
		and[i] = 0xff
	}
	var first []byte
	const n = 256
	r.Eval(n)
	for i := 0; i < n; i++ {
		s := scalar.New()
		if err := gen.SetScalarVartime(s); err != nil {
			return r.Fail("scalar128.Generator.SetScalarVartime:error", "draw %d: %v", i, err).Result()
		}
		var b [32]byte
		if err := s.ToBytes(b[:]); err != nil {
			panic(err)
		}
		v := ref.FromLE(b[:])
		if v.Sign() == 0 || v.Cmp(max) > 0 {
			return r.Fail("scalar128.Generator.SetScalarVartime:out-of-range", "draw %d: z=%x not in [1, 2^128]", i, b[:]).Result()
		}
		if seen[string(b[:])] {
			return r.Fail("scalar128.Generator.SetScalarVartime:repeats", "draw %d repeats an earlier value %x", i, b[:17]).Result()
		}
		seen[string(b[:])] = true
		for j := 0; j < 16; j++ {
			or[j] |= b[j]
			and[j] &= b[j]
		}
		if i == 0 {
			first = append([]byte(nil), b[:]...)
		}
	}
	for j := 0; j < 16; j++ {
		if or[j] != 0xff || and[j] != 0 {
			return r.Fail("scalar128.Generator.SetScalarVartime:stuck-bits", "byte %d of 256 consecutive values: OR=%02x AND=%02x (some bit never changes)", j, or[j], and[j]).Result()
		}
	}
	// another key, another stream
	r.Eval(1)
	g2, err := NewGenerator(h.C09Entropy{Kind: 4, Seed: c.Other}.Reader())
	if err != nil {
		return r.Fail("scalar128.NewGenerator:error", "%v", err).Result()
	}
	s2 := scalar.New()
	if err := g2.SetScalarVartime(s2); err != nil {
		return r.Fail("scalar128.Generator.SetScalarVartime:error", "%v", err).Result()
	}
	var b2 [32]byte
	_ = s2.ToBytes(b2[:])
	k1, k2 := make([]byte, 32), make([]byte, 32)
	io.ReadFull(c.Ent.Reader(), k1)
	io.ReadFull(h.C09Entropy{Kind: 4, Seed: c.Other}.Reader(), k2)
	if !bytes.Equal(k1, k2) && bytes.Equal(first, b2[:]) {
		r.Fail("scalar128.NewGenerator:entropy-ignored", "two different 32-byte keys give the same first value %x", first[:17])
	}
	return r.Result()
}

func TestC09Randomizers(t *testing.T) { h.Run(t, c09GenRand, c09CheckRand) }
