//go:build verif

package scalar128_test

// C06 — all arithmetic backends are observationally identical: internal/scalar128.

import (
	"testing"

	"github.com/oasisprotocol/curve25519-voi/curve/scalar"
	"github.com/oasisprotocol/curve25519-voi/internal/scalar128"
	"pgregory.net/rapid"
	h "verifh"
)

func c06Scalar128Ops() []h.DiffOp {
	return []h.DiffOp{
		{Name: "generator", Weight: 3,
			Covers: []string{"NewGenerator", "Generator.SetScalarVartime"},
			Gen: func(t *rapid.T, c *h.DiffCase) {
				h.DiffEntropy(t, c, rapid.SampledFrom([]int{32, 32, 0, 1, 31, 64}).Draw(t, "n"), "rng")
				c.PutN(rapid.IntRange(1, 40).Draw(t, "count"))
			},
			Exec: func(a *h.DiffArgs, o *h.DiffOut) {
				gen, err := scalar128.NewGenerator(h.NewDiffReader(a.B()))
				o.Err("new", err)
				if gen == nil {
					return
				}
				n := a.N()
				acc := scalar.One()
				for i := 0; i < n && i < 256; i++ {
					var s scalar.Scalar
					o.Err("set", gen.SetScalarVartime(&s))
					var b [32]byte
					s.ToBytes(b[:])
					o.Bytes("z", b[:])
					acc.Mul(acc, &s)
				}
				var b [32]byte
				acc.ToBytes(b[:])
				o.Bytes("product", b[:])
			}},
		{Name: "fixrange", Weight: 1,
			Covers: []string{"FixRawRangeVartime"},
			Gen: func(t *rapid.T, c *h.DiffCase) {
				b := make([]byte, 32)
				switch rapid.IntRange(0, 3).Draw(t, "k") {
				case 0:
				case 1:
					b[rapid.IntRange(0, 31).Draw(t, "pos")] = byte(rapid.IntRange(1, 255).Draw(t, "val"))
				default:
					copy(b, h.UniformBytes(t, 16, "raw"))
				}
				c.PutB(b)
			},
			Exec: func(a *h.DiffArgs, o *h.DiffOut) {
				var raw [scalar.ScalarSize]byte
				copy(raw[:], a.B())
				scalar128.FixRawRangeVartime(&raw)
				o.Bytes("fixed", raw[:])
			}},
	}
}

func TestC06Scalar128(t *testing.T) {
	h.RunDiffOps(t, "internal/scalar128", h.DiffBackend(""), c06Scalar128Ops())
}
