//go:build verif

// Package zzc14link exists only under the verif build tag (grafted by the
// driver's overlay).  It is the ONE harness binary that links nothing but the
// package under test: no verifh, no verifref, no rapid, none of the in-tree
// test files - all of which import crypto/sha512 (or other hashes) for their
// own purposes and thereby register it for everybody in the process.  The
// fixed-hash suites (..._XMD:SHA-512_ELL2_RO_/NU_) name their hash themselves,
// so a caller need not import it; whether they work in a binary that links
// nothing else is a property of the package's own import set, which no test
// that sits next to other tests can observe.  Expected values: RFC 9380
// appendix J.5.1 / J.5.2 (recomputed with verifref, which reproduces them).
package zzc14link

import (
	"encoding/hex"
	"fmt"
	"testing"

	"github.com/oasisprotocol/curve25519-voi/curve"
	"github.com/oasisprotocol/curve25519-voi/primitives/h2c"
)

func TestC14LinkAlone(t *testing.T) {
	type vec struct{ msg, ro, nu string }
	vecs := []vec{
		{"", "21dc15e10253796df23a7699c8a383ea624cce88c52431f6be220b1a56c8a609", "9b0f7f682dabce2190b14e21a175f39eb6a6b29fff2a9f5e72d5a4044d312e22"},
		{"abc", "31558a26887f23fb8218f143e69d5f0af2e7831130bd5b432ef23883b895839a", "42fa27c8f5a1ae0aa38bb59d5938e5145622ba5dedd11d11736fa2f9502d7367"},
		{"abcdef0123456789", "a661c58eea707f2171dd1a8a641e41758ac842cfd31e64dabc7f0e143d0a0653", "fb861a8e0a5a954a5c6836d379f1b07775134a6adaca0939e7dd1add246c8aaf"},
	}
	run := func(name string, f func(dst, msg []byte) (*curve.EdwardsPoint, error), dst, msg, want string) {
		var p *curve.EdwardsPoint
		var err error
		func() {
			defer func() {
				if v := recover(); v != nil {
					err = fmt.Errorf("panic: %v", v)
				}
			}()
			p, err = f([]byte(dst), []byte(msg))
		}()
		if err != nil {
			t.Errorf("%s(msg=%q) in a binary that links only the package itself: %v", name, msg, err)
			return
		}
		var c curve.CompressedEdwardsY
		c.SetEdwardsPoint(p)
		if got := hex.EncodeToString(c[:]); got != want {
			t.Errorf("%s(msg=%q) = %s, RFC 9380 J.5: %s", name, msg, got, want)
		}
	}
	for _, v := range vecs {
		run("h2c.Edwards25519_XMD_SHA512_ELL2_RO", h2c.Edwards25519_XMD_SHA512_ELL2_RO, "QUUX-V01-CS02-with-edwards25519_XMD:SHA-512_ELL2_RO_", v.msg, v.ro)
		run("h2c.Edwards25519_XMD_SHA512_ELL2_NU", h2c.Edwards25519_XMD_SHA512_ELL2_NU, "QUUX-V01-CS02-with-edwards25519_XMD:SHA-512_ELL2_NU_", v.msg, v.nu)
	}
}
