//go:build verif

package lattice

// C16 (first half) — the short-vector reduction terminates and returns a
// non-zero pair (d0, d1) of signed 128-bit integers with d0 = d1*k (mod L),
// d1 invertible, and short (d0^2 + d1^2 < 2^254, the algorithm's own target),
// for every 255-bit k.  In-package to read Int128 and to drive the 512/384-bit
// two's complement helpers directly against math/big.

import (
	"bytes"
	"math/big"
	"testing"
	"time"

	"pgregory.net/rapid"
	h "verifh"
	ref "verifref"

	"github.com/oasisprotocol/curve25519-voi/curve/scalar"
)

func c16Pow2(n uint) *big.Int { return new(big.Int).Lsh(big.NewInt(1), n) }

// c16Signed interprets v (0 <= v < 2^bits) as a two's complement number.
func c16Signed(v *big.Int, bits uint) *big.Int {
	if v.Bit(int(bits)-1) == 1 {
		return new(big.Int).Sub(v, c16Pow2(bits))
	}
	return new(big.Int).Set(v)
}

func c16I128(x Int128) *big.Int {
	v := new(big.Int).Lsh(new(big.Int).SetUint64(uint64(x.hi)), 64)
	v.Or(v, new(big.Int).SetUint64(x.lo))
	return c16Signed(v, 128)
}

func c16ScalarBytes(s *scalar.Scalar) []byte {
	var b [32]byte
	if err := s.ToBytes(b[:]); err != nil {
		panic(err)
	}
	return b[:]
}

// ------------------------------------------------------- FindShortVector

type c16KCase struct {
	K   h.Hex
	Cls string
}

func c16GenK(t *rapid.T) c16KCase {
	k, cls := h.C16Scalar(t, "k")
	return c16KCase{K: k, Cls: cls}
}

// c16Budget bounds one reduction.  FindShortVector takes microseconds; a run
// that has not returned after the process burned this much CPU time waiting
// for it is reported as non-termination (CPU time, so load cannot trip it).
const c16Budget = 30 * time.Second

func c16CheckK(c c16KCase) h.Result {
	r := h.NewR().Class(c.Cls)
	if len(c.K) != 32 || c.K[31]&0x80 != 0 {
		return r.Class("malformed-case").Result()
	}
	k, err := scalar.NewFromBits(c.K)
	if err != nil {
		return r.Class("malformed-case").Result()
	}
	kv := ref.FromLE(c.K)
	unreduced := kv.Cmp(ref.L) >= 0
	if unreduced {
		r.Class("unreduced")
	}

	var o struct{ d0, d1 Int128 }
	if !h.Returns(c16Budget, func() { o.d0, o.d1 = FindShortVector(k) }) {
		return r.NT(true).Fail("lattice.FindShortVector:does-not-terminate", "k=%x (no result after %v of CPU time)", []byte(c.K), c16Budget).Result()
	}
	d0, d1 := c16I128(o.d0), c16I128(o.d1)
	if d0.Sign() < 0 {
		r.Class("d0<0")
	}
	if d1.Sign() < 0 {
		r.Class("d1<0")
	}
	if d0.Sign() == 0 {
		r.Class("d0=0")
	}
	r.NT(h.C16Structured(c.Cls) || unreduced || d0.Sign() < 0 || d1.Sign() < 0)

	r.Eval(5)
	if d0.Sign() == 0 && d1.Sign() == 0 {
		return r.Fail("lattice.FindShortVector:zero-vector", "k=%x", []byte(c.K)).Result()
	}
	if ref.SMod(d1).Sign() == 0 {
		return r.Fail("lattice.FindShortVector:d1-not-invertible", "k=%x d0=%v d1=%v", []byte(c.K), d0, d1).Result()
	}
	if ref.SMod(d0).Cmp(ref.SMul(d1, kv)) != 0 {
		return r.Fail("lattice.FindShortVector:not-in-lattice", "k=%x d0=%v d1=%v (d0 != d1*k mod L)", []byte(c.K), d0, d1).Result()
	}
	norm := new(big.Int).Add(new(big.Int).Mul(d0, d0), new(big.Int).Mul(d1, d1))
	if norm.Cmp(c16Pow2(254)) >= 0 {
		return r.Fail("lattice.FindShortVector:not-short", "k=%x d0=%v d1=%v bitlen(d0^2+d1^2)=%d > 254", []byte(c.K), d0, d1, norm.BitLen()).Result()
	}
	if norm.BitLen() >= 253 {
		r.Class("norm>=2^252")
	}
	// How the callers consume the pair: sign, |d| as a scalar.
	for i, p := range []struct {
		x Int128
		v *big.Int
	}{{o.d0, d0}, {o.d1, d1}} {
		if p.x.IsNegative() != (p.v.Sign() < 0) {
			return r.Fail("lattice.Int128.IsNegative:wrong", "k=%x d%d=%v", []byte(c.K), i, p.v).Result()
		}
		var s, sa scalar.Scalar
		p.x.ToScalar(&s)
		if !bytes.Equal(c16ScalarBytes(&s), ref.SEncode(p.v)) {
			return r.Fail("lattice.Int128.ToScalar:wrong-value", "k=%x d%d=%v got=%x", []byte(c.K), i, p.v, c16ScalarBytes(&s)).Result()
		}
		p.x.Abs().ToScalar(&sa)
		if !bytes.Equal(c16ScalarBytes(&sa), ref.ToLE(new(big.Int).Abs(p.v), 32)) {
			return r.Fail("lattice.Int128.Abs:wrong-value", "k=%x d%d=%v got=%x", []byte(c.K), i, p.v, c16ScalarBytes(&sa)).Result()
		}
	}
	if !bytes.Equal(c16ScalarBytes(k), c.K) {
		return r.Fail("lattice.FindShortVector:modified-input", "k=%x", []byte(c.K)).Result()
	}
	return r.Result()
}

func TestC16ShortVector(t *testing.T) { h.Run(t, c16GenK, c16CheckK) }

// ------------------------------------------- Int128 against math/big mod 2^128

type c16I128Case struct {
	X, Y h.Hex // 16 bytes each, little endian two's complement
	N    uint
}

func c16GenLimbs(t *rapid.T, n int, label string) []byte {
	b := make([]byte, 8*n)
	pats := []uint64{0, 1, ^uint64(0), 1 << 63, 1<<63 - 1, ^uint64(0) - 1, 0xffffffff, 1 << 32, 0x8000000000000001}
	mode := rapid.IntRange(0, 3).Draw(t, label+"_mode")
	for i := 0; i < n; i++ {
		var w uint64
		switch {
		case mode == 0:
			w = rapid.Uint64().Draw(t, label+"_w")
		case mode == 1:
			w = pats[rapid.IntRange(0, len(pats)-1).Draw(t, label+"_p")]
		default:
			if rapid.Bool().Draw(t, label+"_pb") {
				w = pats[rapid.IntRange(0, len(pats)-1).Draw(t, label+"_p")]
			} else {
				w = rapid.Uint64().Draw(t, label+"_w")
			}
		}
		for j := 0; j < 8; j++ {
			b[8*i+j] = byte(w >> (8 * uint(j)))
		}
	}
	// frequently zero/one-extend from a random limb upwards (small magnitudes of both signs)
	if rapid.IntRange(0, 2).Draw(t, label+"_ext") == 0 {
		from := rapid.IntRange(0, n).Draw(t, label+"_from")
		fill := byte(0)
		if rapid.Bool().Draw(t, label+"_neg") {
			fill = 0xff
		}
		for i := 8 * from; i < len(b); i++ {
			b[i] = fill
		}
	}
	return b
}

func c16ToI128(b []byte) Int128 {
	v := ref.FromLE(b)
	lo := new(big.Int).And(v, new(big.Int).SetUint64(^uint64(0))).Uint64()
	hi := new(big.Int).Rsh(v, 64).Uint64()
	return Int128{hi: int64(hi), lo: lo}
}

func c16GenI128(t *rapid.T) c16I128Case {
	n := uint(rapid.IntRange(0, 140).Draw(t, "n"))
	if rapid.IntRange(0, 3).Draw(t, "nedge") == 0 {
		n = rapid.SampledFrom([]uint{0, 1, 63, 64, 65, 127, 128, 129, 200}).Draw(t, "ne")
	}
	return c16I128Case{X: c16GenLimbs(t, 2, "x"), Y: c16GenLimbs(t, 2, "y"), N: n}
}

func c16CheckI128(c c16I128Case) h.Result {
	r := h.NewR().NT(true)
	if len(c.X) != 16 || len(c.Y) != 16 {
		return r.Class("malformed-case").Result()
	}
	m := c16Pow2(128)
	xu, yu := ref.FromLE(c.X), ref.FromLE(c.Y)
	x, y := c16ToI128(c.X), c16ToI128(c.Y)
	xs := c16Signed(xu, 128)
	eq := func(name string, got Int128, want *big.Int) {
		r.Eval(1)
		w := c16Signed(new(big.Int).Mod(want, m), 128)
		if c16I128(got).Cmp(w) != 0 {
			r.Fail("lattice.Int128."+name+":wrong-value", "x=%x y=%x n=%d got=%v want=%v", []byte(c.X), []byte(c.Y), c.N, c16I128(got), w)
		}
	}
	eq("add", x.add(y), new(big.Int).Add(xu, yu))
	eq("sub", x.sub(y), new(big.Int).Sub(xu, yu))
	eq("neg", x.neg(), new(big.Int).Neg(xu))
	eq("shl", x.shl(c.N), new(big.Int).Lsh(xu, c.N))
	r.Eval(2)
	if x.IsNegative() != (xs.Sign() < 0) {
		r.Fail("lattice.Int128.IsNegative:wrong", "x=%x", []byte(c.X))
	}
	if x.isZero() != (xs.Sign() == 0) {
		r.Fail("lattice.Int128.isZero:wrong", "x=%x", []byte(c.X))
	}
	// Abs / ToScalar: for every value except -2^127 (whose absolute value is not an Int128)
	if xs.Cmp(new(big.Int).Neg(c16Pow2(127))) != 0 {
		eq("Abs", x.Abs(), new(big.Int).Abs(xs))
		r.Eval(1)
		var s scalar.Scalar
		x.ToScalar(&s)
		if !bytes.Equal(c16ScalarBytes(&s), ref.SEncode(xs)) {
			r.Fail("lattice.Int128.ToScalar:wrong-value", "x=%x got=%x want=%x", []byte(c.X), c16ScalarBytes(&s), ref.SEncode(xs))
		}
	}
	return r.Result()
}

func TestC16Int128(t *testing.T) { h.Run(t, c16GenI128, c16CheckI128) }

// newInt128FromScalar: the low 128 bits of the scalar's integer value.
type c16FromScalarCase struct {
	K   h.Hex
	Cls string
}

func c16GenFromScalar(t *rapid.T) c16FromScalarCase {
	b, cls := h.Scalar255(t, "k")
	return c16FromScalarCase{K: b, Cls: cls}
}

func c16CheckFromScalar(c c16FromScalarCase) h.Result {
	r := h.NewR().Class(c.Cls).NT(true).Eval(1)
	k, err := scalar.NewFromBits(c.K)
	if err != nil || len(c.K) != 32 || c.K[31]&0x80 != 0 {
		return r.Class("malformed-case").Result()
	}
	got := newInt128FromScalar(k)
	want := c16Signed(new(big.Int).Mod(ref.FromLE(c.K), c16Pow2(128)), 128)
	if c16I128(got).Cmp(want) != 0 {
		r.Fail("lattice.newInt128FromScalar:wrong-value", "k=%x got=%v want=%v", []byte(c.K), c16I128(got), want)
	}
	return r.Result()
}

func TestC16Int128FromScalar(t *testing.T) { h.Run(t, c16GenFromScalar, c16CheckFromScalar) }

// ------------------------------ int512 / int384 against math/big mod 2^512 / 2^384

type c16BigCase struct {
	A, B   h.Hex // 64 bytes each, little-endian two's complement (the low 48 are also used as int384)
	S      uint  // shift amount
	Ka, Kb h.Hex // 32-byte scalars for Mul
}

func c16GenBig(t *rapid.T) c16BigCase {
	s := uint(rapid.IntRange(0, 520).Draw(t, "s"))
	if rapid.IntRange(0, 2).Draw(t, "sedge") == 0 {
		s = rapid.SampledFrom([]uint{0, 1, 2, 31, 32, 33, 62, 63, 64, 65, 66, 127, 128, 129, 130, 191, 192, 193, 255, 256, 257, 258, 319, 320, 321, 383, 384, 385, 447, 448, 449, 511, 512}).Draw(t, "se")
	}
	ka, _ := h.Scalar255(t, "ka")
	kb, _ := h.Scalar255(t, "kb")
	if rapid.IntRange(0, 3).Draw(t, "sq") == 0 {
		kb = append([]byte(nil), ka...)
	}
	return c16BigCase{A: c16GenLimbs(t, 8, "a"), B: c16GenLimbs(t, 8, "b"), S: s, Ka: ka, Kb: kb}
}

func c16To512(b []byte) *int512 {
	var x int512
	for i := range x {
		x[i] = ref.FromLE(b[8*i : 8*i+8]).Uint64()
	}
	return &x
}

func c16To384(b []byte) *int384 {
	var x int384
	for i := range x {
		x[i] = ref.FromLE(b[8*i : 8*i+8]).Uint64()
	}
	return &x
}

func c16From512(x *int512) *big.Int {
	v := new(big.Int)
	for i := 7; i >= 0; i-- {
		v.Lsh(v, 64)
		v.Or(v, new(big.Int).SetUint64(x[i]))
	}
	return v
}

func c16From384(x *int384) *big.Int {
	v := new(big.Int)
	for i := 5; i >= 0; i-- {
		v.Lsh(v, 64)
		v.Or(v, new(big.Int).SetUint64(x[i]))
	}
	return v
}

// c16BitLen: minimal two's complement size excluding the sign bit (as documented on BitLen).
func c16BitLen(signed *big.Int) uint {
	if signed.Sign() >= 0 {
		return uint(signed.BitLen())
	}
	return uint(new(big.Int).Not(signed).BitLen()) // -x-1
}

func c16CheckBig(c c16BigCase) h.Result {
	r := h.NewR().NT(true)
	if len(c.A) != 64 || len(c.B) != 64 || len(c.Ka) != 32 || len(c.Kb) != 32 {
		return r.Class("malformed-case").Result()
	}
	// ---- 512 bit
	{
		m := c16Pow2(512)
		au, bu := ref.FromLE(c.A), ref.FromLE(c.B)
		as := c16Signed(au, 512)
		eq := func(name string, got *int512, want *big.Int) {
			r.Eval(1)
			w := new(big.Int).Mod(want, m)
			if c16From512(got).Cmp(w) != 0 {
				r.Fail("lattice.int512."+name+":wrong-value", "a=%x b=%x s=%d got=%x want=%x", []byte(c.A), []byte(c.B), c.S, c16From512(got), w)
			}
		}
		a, b := c16To512(c.A), c16To512(c.B)
		eq("Add", (&int512{}).Add(a, b), new(big.Int).Add(au, bu))
		eq("AddShifted", (&int512{}).AddShifted(a, b, c.S), new(big.Int).Add(au, new(big.Int).Lsh(bu, c.S)))
		eq("SubShifted", (&int512{}).SubShifted(a, b, c.S), new(big.Int).Sub(au, new(big.Int).Lsh(bu, c.S)))
		eq("ShiftLimbs", (&int512{}).ShiftLimbs(a, c.S), new(big.Int).Lsh(au, 64*(c.S/64)))
		// receiver aliases the first operand (the only aliasing the reduction uses)
		x := *a
		eq("AddShifted(alias)", x.AddShifted(&x, b, c.S), new(big.Int).Add(au, new(big.Int).Lsh(bu, c.S)))
		x = *a
		eq("SubShifted(alias)", x.SubShifted(&x, b, c.S), new(big.Int).Sub(au, new(big.Int).Lsh(bu, c.S)))
		x = *a
		eq("Add(alias)", x.Add(&x, b), new(big.Int).Add(au, bu))
		if *a != *c16To512(c.A) || *b != *c16To512(c.B) {
			r.Fail("lattice.int512:modified-operand", "a=%x b=%x s=%d", []byte(c.A), []byte(c.B), c.S)
		}
		r.Eval(2)
		if a.IsNegative() != (as.Sign() < 0) {
			r.Fail("lattice.int512.IsNegative:wrong", "a=%x", []byte(c.A))
		}
		if got := a.BitLen(); got != c16BitLen(as) {
			r.Fail("lattice.int512.BitLen:wrong", "a=%x got=%d want=%d", []byte(c.A), got, c16BitLen(as))
		}
		bs := c16Signed(bu, 512)
		if as.Sign() >= 0 {
			r.Eval(1)
			if got, want := a.SafeToShrink(), as.BitLen() <= 383; got != want {
				r.Fail("lattice.int512.SafeToShrink:wrong", "a=%x got=%v want=%v", []byte(c.A), got, want)
			}
			if bs.Sign() >= 0 { // documented precondition of PositiveLt
				r.Eval(1)
				if got, want := a.PositiveLt(b), as.Cmp(bs) < 0; got != want {
					r.Fail("lattice.int512.PositiveLt:wrong", "a=%x b=%x got=%v", []byte(c.A), []byte(c.B), got)
				}
			}
		}
		// FromInt512: truncation to the low 384 bits
		r.Eval(1)
		if got := c16From384((&int384{}).FromInt512(a)); got.Cmp(new(big.Int).Mod(au, c16Pow2(384))) != 0 {
			r.Fail("lattice.int384.FromInt512:wrong-value", "a=%x", []byte(c.A))
		}
		// Mul of two scalars: exact product
		ka, err1 := scalar.NewFromBits(c.Ka)
		kb, err2 := scalar.NewFromBits(c.Kb)
		if err1 == nil && err2 == nil {
			want := new(big.Int).Mul(ref.FromLE(c16ScalarBytes(ka)), ref.FromLE(c16ScalarBytes(kb)))
			pre := *a // receiver holds garbage beforehand
			eq("Mul", pre.Mul(ka, kb), want)
		}
	}
	// ---- 384 bit (low 48 bytes of the same operands)
	{
		m := c16Pow2(384)
		au, bu := ref.FromLE(c.A[:48]), ref.FromLE(c.B[:48])
		as, bs := c16Signed(au, 384), c16Signed(bu, 384)
		eq := func(name string, got *int384, want *big.Int) {
			r.Eval(1)
			w := new(big.Int).Mod(want, m)
			if c16From384(got).Cmp(w) != 0 {
				r.Fail("lattice.int384."+name+":wrong-value", "a=%x b=%x s=%d got=%x want=%x", []byte(c.A[:48]), []byte(c.B[:48]), c.S, c16From384(got), w)
			}
		}
		a, b := c16To384(c.A), c16To384(c.B)
		eq("AddShifted", (&int384{}).AddShifted(a, b, c.S), new(big.Int).Add(au, new(big.Int).Lsh(bu, c.S)))
		eq("SubShifted", (&int384{}).SubShifted(a, b, c.S), new(big.Int).Sub(au, new(big.Int).Lsh(bu, c.S)))
		eq("ShiftLimbs", (&int384{}).ShiftLimbs(a, c.S), new(big.Int).Lsh(au, 64*(c.S/64)))
		x := *a
		eq("AddShifted(alias)", x.AddShifted(&x, b, c.S), new(big.Int).Add(au, new(big.Int).Lsh(bu, c.S)))
		x = *a
		eq("SubShifted(alias)", x.SubShifted(&x, b, c.S), new(big.Int).Sub(au, new(big.Int).Lsh(bu, c.S)))
		if *a != *c16To384(c.A) || *b != *c16To384(c.B) {
			r.Fail("lattice.int384:modified-operand", "a=%x b=%x s=%d", []byte(c.A[:48]), []byte(c.B[:48]), c.S)
		}
		r.Eval(2)
		if a.IsNegative() != (as.Sign() < 0) {
			r.Fail("lattice.int384.IsNegative:wrong", "a=%x", []byte(c.A[:48]))
		}
		if got := a.BitLen(); got != c16BitLen(as) {
			r.Fail("lattice.int384.BitLen:wrong", "a=%x got=%d want=%d", []byte(c.A[:48]), got, c16BitLen(as))
		}
		if as.Sign() >= 0 && bs.Sign() >= 0 {
			r.Eval(1)
			if got, want := a.PositiveLt(b), as.Cmp(bs) < 0; got != want {
				r.Fail("lattice.int384.PositiveLt:wrong", "a=%x b=%x got=%v", []byte(c.A[:48]), []byte(c.B[:48]), got)
			}
		}
	}
	return r.Result()
}

func TestC16BigInt(t *testing.T) { h.Run(t, c16GenBig, c16CheckBig) }

// The constants the reduction starts from.
func TestC16Constants(t *testing.T) {
	h.RunList(t, []int{0}, func(int) h.Result {
		r := h.NewR().NT(true).Eval(3)
		if c16From512(ellSquared()).Cmp(new(big.Int).Mul(ref.L, ref.L)) != 0 {
			r.Fail("lattice.ellSquared:wrong-value", "got %x", c16From512(ellSquared()))
		}
		lo := new(big.Int).Mod(ref.L, c16Pow2(128))
		if c16I128(constELL_LOWER_HALF).Cmp(c16Signed(lo, 128)) != 0 {
			r.Fail("lattice.constELL_LOWER_HALF:wrong-value", "got %v", c16I128(constELL_LOWER_HALF))
		}
		if c16From512(i512One).Cmp(big.NewInt(1)) != 0 || c16I128(i128One).Cmp(big.NewInt(1)) != 0 || c16I128(i128Zero).Sign() != 0 {
			r.Fail("lattice.constants:wrong-value", "one/zero")
		}
		return r.Result()
	})
}

// The reduction with four scalars at a time, one goroutine each (h.RunPar): no
// hidden shared state (the big-integer helpers use stack temporaries today).
func TestC16ParShortVector(t *testing.T) { h.RunPar(t, 4, c16GenK, c16CheckK) }
