//go:build verif

package lattice_test

// C06 — all arithmetic backends are observationally identical: internal/lattice
// (shared integer code on top of the per-backend scalar multiplication).

import (
	"testing"

	"github.com/oasisprotocol/curve25519-voi/curve/scalar"
	"github.com/oasisprotocol/curve25519-voi/internal/lattice"
	"pgregory.net/rapid"
	h "verifh"
)

func c06I128Out(o *h.DiffOut, tag string, x lattice.Int128) {
	o.Bool(tag+".neg", x.IsNegative())
	var b [32]byte
	s := x.ToScalar(scalar.New())
	s.ToBytes(b[:])
	o.Bytes(tag+".scalar", b[:])
	ab := x.Abs()
	o.Bool(tag+".abs.neg", ab.IsNegative())
	ab.ToScalar(s).ToBytes(b[:])
	o.Bytes(tag+".abs", b[:])
}

func c06LatticeOps() []h.DiffOp {
	return []h.DiffOp{
		{Name: "findshortvector", Weight: 1,
			Covers: []string{"FindShortVector", "Int128.IsNegative", "Int128.Abs", "Int128.ToScalar"},
			Gen: func(t *rapid.T, c *h.DiffCase) {
				var b []byte
				if rapid.Bool().Draw(t, "structured") {
					b, _ = h.C16Scalar(t, "k")
				} else {
					b, _ = h.Scalar255(t, "k")
				}
				b[31] &= 0x7f
				c.PutB(b)
			},
			Exec: func(a *h.DiffArgs, o *h.DiffOut) {
				k, err := scalar.NewFromBits(a.B())
				if err != nil {
					return
				}
				d0, d1 := lattice.FindShortVector(k)
				c06I128Out(o, "d0", d0)
				c06I128Out(o, "d1", d1)
				// d0 - d1*k as the scalar layer of this backend computes it
				var d0s, d1s, r scalar.Scalar
				d0.ToScalar(&d0s)
				d1.ToScalar(&d1s)
				r.Mul(&d1s, k)
				r.Sub(&d0s, &r)
				var b [32]byte
				r.ToBytes(b[:])
				o.Bytes("relation", b[:])
			}},
	}
}

func TestC06Lattice(t *testing.T) {
	h.RunDiffOps(t, "internal/lattice", h.DiffBackend(""), c06LatticeOps())
}
