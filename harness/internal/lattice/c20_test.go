//go:build verif

package lattice

// C20 — lattice-reduction constants equal their definitions.  The lattice
// package uses 64-bit words on every backend, so there is one variant; it is
// still run in the default, purego and force32bit builds.
//
// Coverage of package-level vars/consts:
//   lattice_reduction.go: constELL_LOWER_HALF = L mod 2^128 (as a non-negative Int128)  -> checked
//   big_int.go: ellSquared() = L^2 (512-bit two's complement, eight 64-bit words)          -> checked
//               i512One -> checked (0/1 literal: trivial)
//   int128.go: i128Zero, i128One -> checked (0/1 literals: trivial);
//              int64Size, int128Size -> checked (trivial sizes)

import (
	"math/big"
	"testing"

	h "verifh"
	ref "verifref"
)

type c20Case struct{ Name string }

var c20Names = []string{"constELL_LOWER_HALF", "ellSquared", "i512One", "i128Zero", "i128One", "int64Size", "int128Size"}

// c20i128 is the two's complement value of an Int128 read from its raw words.
func c20i128(x Int128) *big.Int {
	v := new(big.Int).Lsh(big.NewInt(x.hi), 64) // hi is signed
	return v.Add(v, new(big.Int).SetUint64(x.lo))
}

func c20Check(c c20Case) h.Result {
	r := h.NewR().Class(c.Name)
	sig := "lattice." + c.Name
	trivial := false
	r.Eval(1)
	switch c.Name {
	case "constELL_LOWER_HALF":
		want := new(big.Int).Mod(ref.L, new(big.Int).Lsh(big.NewInt(1), 128))
		// also: L = 2^252 + lower half (the reason the truncation is used)
		if got := c20i128(constELL_LOWER_HALF); got.Cmp(want) != 0 ||
			new(big.Int).Add(new(big.Int).Lsh(big.NewInt(1), 252), got).Cmp(ref.L) != 0 {
			r.Fail(sig+":wrong-value", "got %x want %x", got, want)
		}
	case "ellSquared":
		l := h.C20Limbs(ellSquared())
		if len(l) != 8 || ref.C20RadixW(l, 64).Cmp(new(big.Int).Mul(ref.L, ref.L)) != 0 {
			r.Fail(sig+":wrong-value", "words=%#x", l)
		}
	case "i512One":
		trivial = true
		if l := h.C20Limbs(i512One); len(l) != 8 || ref.C20RadixW(l, 64).Cmp(big.NewInt(1)) != 0 {
			r.Fail(sig+":wrong-value", "words=%#x", l)
		}
	case "i128Zero":
		trivial = true
		if c20i128(i128Zero).Sign() != 0 {
			r.Fail(sig+":wrong-value", "")
		}
	case "i128One":
		trivial = true
		if c20i128(i128One).Cmp(big.NewInt(1)) != 0 {
			r.Fail(sig+":wrong-value", "")
		}
	case "int64Size":
		trivial = true
		if int64Size != 64 {
			r.Fail(sig+":wrong-value", "%d", int64Size)
		}
	case "int128Size":
		trivial = true
		if int128Size != 128 {
			r.Fail(sig+":wrong-value", "%d", int128Size)
		}
	default:
		r.Fail("harness:unknown-case", "%q", c.Name)
	}
	return r.NT(!trivial).Result()
}

func TestC20LatticeConstants(t *testing.T) {
	var cases []c20Case
	for _, n := range c20Names {
		cases = append(cases, c20Case{Name: n})
	}
	h.RunList(t, cases, c20Check)
}
