//go:build verif

package elligator

// C14 — the Elligator 2 map driven directly on field elements.  The map's
// exceptional branch (u = 0 -> Montgomery (0,0) -> rational map undefined ->
// (0,1)) and the special inputs (+-1, sqrt(-1), non-canonical aliases, the u
// sent to 4-torsion) cannot be reached through SHA-512 preimages, so
// montgomeryFlavor / EdwardsFlavor / SetEdwardsFromXY are called in-package
// and compared with the GENERIC map_to_curve_elligator2 of RFC 9380 6.7.1
// (J = 486662, K = 1, Z = 2) followed by the rational map of appendix D.1.

import (
	"bytes"
	"math/big"
	"testing"

	"github.com/oasisprotocol/curve25519-voi/curve"
	"github.com/oasisprotocol/curve25519-voi/internal/field"

	"pgregory.net/rapid"
	h "verifh"
	ref "verifref"
)

// c14In describes how the field element handed to the map is produced; every
// form yields limbs that the field package itself emits (SetBytes output or
// the output of its reduction), which is what the callers of the map pass.
//
//	bytes: SetBytes(A)                (A may be a non-canonical alias p..2^255-1)
//	neg:   Neg(SetBytes(A))           (Neg(0) is a non-canonical zero)
//	sub:   SetBytes(A) - SetBytes(B)
//	wide:  SetBytesWide(A || B)       (the h2c path)
type c14In struct {
	Form string
	A, B h.Hex
	ACls string
	BCls string
}

func (in c14In) value() *big.Int {
	a, b := ref.FromLE(in.A), ref.FromLE(in.B)
	switch in.Form {
	case "bytes":
		return ref.FMod(a)
	case "neg":
		return ref.FNeg(a)
	case "sub":
		return ref.FSub(a, b)
	case "wide":
		return ref.FMod(new(big.Int).Add(a, new(big.Int).Lsh(b, 256)))
	}
	panic("unknown form " + in.Form)
}

func (in c14In) element() *field.Element {
	var a, b, out field.Element
	must := func(_ *field.Element, err error) {
		if err != nil {
			panic(err)
		}
	}
	switch in.Form {
	case "bytes":
		must(out.SetBytes(in.A))
	case "neg":
		must(a.SetBytes(in.A))
		out.Neg(&a)
	case "sub":
		must(a.SetBytes(in.A))
		must(b.SetBytes(in.B))
		out.Sub(&a, &b)
	case "wide":
		must(out.SetBytesWide(append(append([]byte(nil), in.A...), in.B...)))
	default:
		panic("unknown form " + in.Form)
	}
	return &out
}

func c14GenIn(t *rapid.T) c14In {
	in := c14In{Form: rapid.SampledFrom([]string{"bytes", "bytes", "bytes", "neg", "sub", "wide"}).Draw(t, "form")}
	in.A, in.ACls = h.C14FieldBytes(t, "a")
	switch in.Form {
	case "sub":
		if rapid.IntRange(0, 2).Draw(t, "same") == 0 {
			in.B, in.BCls = append([]byte(nil), in.A...), "same" // a - a: zero through the reduction
		} else {
			in.B, in.BCls = h.C14FieldBytes(t, "b")
		}
	case "wide":
		if rapid.Bool().Draw(t, "hi0") {
			in.B, in.BCls = make([]byte, 32), "zero-hi"
			if rapid.Bool().Draw(t, "bit255") {
				in.A = append([]byte(nil), in.A...)
				in.A[31] |= 0x80 // value A + 2^255 = A + 19
			}
		} else {
			in.B, in.BCls = h.UniformBytes(t, 32, "hi"), "uniform-hi"
		}
	default:
		in.B = h.Hex{}
	}
	return in
}

func c14FeBytes(fe *field.Element) []byte {
	var out [32]byte
	_ = fe.ToBytes(out[:])
	return out[:]
}

func c14Enc(p *curve.EdwardsPoint) []byte {
	var c curve.CompressedEdwardsY
	c.SetEdwardsPoint(p)
	return append([]byte(nil), c[:]...)
}

func c14CheckMap(in c14In) h.Result {
	r := h.NewR().Class("form:"+in.Form, "a:"+in.ACls)
	if in.BCls != "" {
		r.Class("b:" + in.BCls)
	}
	u := in.value()
	one := big.NewInt(1)
	aRaw := ref.FromLE(in.A)
	special := u.Sign() == 0 || u.Cmp(one) == 0 || u.Cmp(ref.FNeg(one)) == 0 ||
		(in.Form == "bytes" && aRaw.Cmp(ref.P) >= 0) || in.ACls != "uniform"
	r.NT(special)

	s, tt, sq := ref.H2cMapToCurveElligator2(u)
	want, exc := ref.H2cMontToEdwards(s, tt)
	if exc {
		r.Class("exceptional")
	} else if sq {
		r.Class("gx1-square")
	} else {
		r.Class("gx1-nonsquare")
	}
	if ref.MulByCofactor(want).IsIdentity() {
		r.Class("small-order-image")
	}

	// Montgomery flavour: (u, v) must be the RFC's (s, t) exactly, including
	// the sign of t.
	r.Eval(1)
	fe := in.element()
	before := c14FeBytes(fe)
	if !bytes.Equal(before, ref.FEncode(u)) {
		// the harness' own value model is wrong: not a finding about the map
		panic("c14: input model mismatch")
	}
	mu, mv := montgomeryFlavor(fe)
	if gs, gt := c14FeBytes(&mu), c14FeBytes(&mv); !bytes.Equal(gs, ref.FEncode(s)) || !bytes.Equal(gt, ref.FEncode(tt)) {
		r.Fail("elligator.montgomeryFlavor:wrong-point", "form=%s a=%x b=%x r=%x got (u,v)=(%x,%x) want (s,t)=(%x,%x)",
			in.Form, []byte(in.A), []byte(in.B), ref.FEncode(u), gs, gt, ref.FEncode(s), ref.FEncode(tt))
	}

	// Edwards flavour
	r.Eval(2)
	p := EdwardsFlavor(in.element())
	got := c14Enc(p)
	if !bytes.Equal(got, want.Encode()) {
		r.Fail("elligator.EdwardsFlavor:wrong-point", "form=%s a=%x b=%x r=%x got=%x want=%x exceptional=%v",
			in.Form, []byte(in.A), []byte(in.B), ref.FEncode(u), got, want.Encode(), exc)
	}
	if !r.Failed() {
		// ... including as an operand of an addition (which reads T)
		r.Eval(1)
		var sum curve.EdwardsPoint
		sum.Add(p, curve.ED25519_BASEPOINT_POINT)
		if g, w := c14Enc(&sum), ref.Add(want, ref.Base).Encode(); !bytes.Equal(g, w) {
			r.Fail("elligator.EdwardsFlavor:result-unusable-as-operand", "r=%x P+B got=%x want=%x (inconsistent T coordinate)", ref.FEncode(u), g, w)
		}
	}
	// the returned point is usable: its cofactor multiple is the reference's,
	// and lies in the prime-order subgroup (reference arithmetic)
	var p8 curve.EdwardsPoint
	p8.MulByCofactor(p)
	want8 := ref.H2cClearCofactor(want)
	if g8 := c14Enc(&p8); !bytes.Equal(g8, want8.Encode()) {
		r.Fail("elligator.EdwardsFlavor:unusable-point", "r=%x [8]P got=%x want=%x", ref.FEncode(u), g8, want8.Encode())
	}
	if !ref.Mul(ref.L, want8).IsIdentity() {
		panic("c14: reference [8]Q not in the prime-order subgroup")
	}
	return r.Result()
}

func TestC14Map(t *testing.T) {
	h.Run(t, func(t *rapid.T) c14In { return c14GenIn(t) }, c14CheckMap)
}

// Every catalogued special value, both signs, every applicable input form:
// decided on every run rather than sampled.
func TestC14MapSpecial(t *testing.T) {
	var cases []c14In
	names := []string{}
	sp := h.C14SpecialU()
	for n := range sp {
		names = append(names, n)
	}
	// deterministic order
	for i := range names {
		for j := i + 1; j < len(names); j++ {
			if names[j] < names[i] {
				names[i], names[j] = names[j], names[i]
			}
		}
	}
	zero := make([]byte, 32)
	for _, n := range names {
		for _, neg := range []bool{false, true} {
			v := sp[n]
			cls := "special:" + n
			if neg {
				v = ref.FNeg(v)
				cls += "/neg"
			}
			enc := ref.ToLE(v, 32)
			cases = append(cases,
				c14In{Form: "bytes", A: enc, B: h.Hex{}, ACls: cls},
				c14In{Form: "neg", A: enc, B: h.Hex{}, ACls: cls},
				c14In{Form: "sub", A: enc, B: zero, ACls: cls, BCls: "zero"},
				c14In{Form: "sub", A: zero, B: enc, ACls: "zero", BCls: cls},
				c14In{Form: "wide", A: enc, B: zero, ACls: cls, BCls: "zero-hi"},
			)
			if v.Cmp(big.NewInt(19)) < 0 {
				alias := ref.ToLE(new(big.Int).Add(v, ref.P), 32)
				cases = append(cases, c14In{Form: "bytes", A: alias, B: h.Hex{}, ACls: cls + "/noncanonical"},
					c14In{Form: "neg", A: alias, B: h.Hex{}, ACls: cls + "/noncanonical"})
			}
		}
	}
	// all 19 aliases and the first 19 canonical values
	for k := int64(0); k < 19; k++ {
		cases = append(cases,
			c14In{Form: "bytes", A: ref.ToLE(new(big.Int).Add(ref.P, big.NewInt(k)), 32), B: h.Hex{}, ACls: "noncanonical"},
			c14In{Form: "bytes", A: ref.ToLE(big.NewInt(k), 32), B: h.Hex{}, ACls: "small"})
	}
	// a - a for assorted a: zero produced by the subtraction's reduction
	for _, a := range [][]byte{zero, ref.ToLE(ref.P, 32), ref.ToLE(big.NewInt(1), 32), bytes.Repeat([]byte{0x7f}, 32), ref.FEncode(ref.SqrtM1)} {
		cases = append(cases, c14In{Form: "sub", A: a, B: a, ACls: "any", BCls: "same"})
	}
	h.RunList(t, cases, c14CheckMap)
}

// ------------------------------------------------------ SetEdwardsFromXY

type c14XYCase struct {
	P      h.PointSpec
	AliasX bool // hand x (resp. y) over as value + p when that fits 255 bits
	AliasY bool
}

func c14GenXY(t *rapid.T) c14XYCase {
	return c14XYCase{P: h.GenPointSpec(t, "p", true), AliasX: rapid.Bool().Draw(t, "ax"), AliasY: rapid.Bool().Draw(t, "ay")}
}

func c14CheckXY(c c14XYCase) h.Result {
	r := h.NewR().Class(c.P.Cls)
	pt := c.P.Ref()
	enc := func(v *big.Int, alias bool) ([]byte, bool) {
		if alias && v.Cmp(big.NewInt(19)) < 0 {
			return ref.ToLE(new(big.Int).Add(v, ref.P), 32), true
		}
		return ref.ToLE(v, 32), false
	}
	xb, xa := enc(pt.X, c.AliasX)
	yb, ya := enc(pt.Y, c.AliasY)
	if xa || ya {
		r.Class("noncanonical-coordinate")
	}
	r.NT(xa || ya || pt.X.Sign() == 0 || c.P.IsSmallOrder() || !c.P.IsTorsionFree())
	var x, y field.Element
	if _, err := x.SetBytes(xb); err != nil {
		panic(err)
	}
	if _, err := y.SetBytes(yb); err != nil {
		panic(err)
	}
	r.Eval(1)
	var p curve.EdwardsPoint
	ret := SetEdwardsFromXY(&p, &x, &y)
	if ret != &p {
		r.Fail("elligator.SetEdwardsFromXY:wrong-return", "")
	}
	if got := c14Enc(&p); !bytes.Equal(got, pt.Encode()) {
		r.Fail("elligator.SetEdwardsFromXY:wrong-point", "x=%x y=%x got=%x want=%x", xb, yb, got, pt.Encode())
	}
	if !bytes.Equal(c14FeBytes(&x), ref.FEncode(pt.X)) || !bytes.Equal(c14FeBytes(&y), ref.FEncode(pt.Y)) {
		r.Fail("elligator.SetEdwardsFromXY:input-modified", "")
	}
	return r.Result()
}

func TestC14SetEdwardsFromXY(t *testing.T) { h.Run(t, c14GenXY, c14CheckXY) }

// The map with four inputs at a time, one goroutine each (h.RunPar): no hidden
// shared state in the Elligator code or the field routines beneath it.
func TestC14ParMap(t *testing.T) {
	h.RunPar(t, 4, func(t *rapid.T) c14In { return c14GenIn(t) }, c14CheckMap)
}
