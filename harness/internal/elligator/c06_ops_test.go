//go:build verif

package elligator_test

// C06 — all arithmetic backends are observationally identical: internal/elligator
// (per-backend limb constants in constants_u32.go / constants_u64.go).

import (
	"testing"

	"github.com/oasisprotocol/curve25519-voi/curve"
	"github.com/oasisprotocol/curve25519-voi/internal/elligator"
	"github.com/oasisprotocol/curve25519-voi/internal/field"
	"pgregory.net/rapid"
	h "verifh"
	ref "verifref"
)

func c06PtOut(o *h.DiffOut, tag string, p *curve.EdwardsPoint) {
	b, err := p.MarshalBinary()
	o.Err(tag, err)
	o.Bytes(tag, b)
	// x, t are not visible in the encoding alone: let all coordinates take part in arithmetic
	q := curve.NewEdwardsPoint().Add(p, curve.ED25519_BASEPOINT_POINT)
	b, _ = q.MarshalBinary()
	o.Bytes(tag+"+B", b)
	b, _ = curve.NewEdwardsPoint().MulByCofactor(p).MarshalBinary()
	o.Bytes(tag+"*8", b)
}

func c06ElligatorOps() []h.DiffOp {
	return []h.DiffOp{
		{Name: "edwardsflavor", Weight: 3,
			Covers: []string{"EdwardsFlavor"},
			Gen: func(t *rapid.T, c *h.DiffCase) {
				if rapid.Bool().Draw(t, "wide") { // the way h2c feeds it: 64 little-endian bytes reduced
					b, _ := h.C14Wide48(t, "r")
					c.PutB(b)
				} else {
					b, _ := h.C14FieldBytes(t, "r")
					c.PutB(b)
				}
			},
			Exec: func(a *h.DiffArgs, o *h.DiffOut) {
				in := a.B()
				var r field.Element
				var err error
				switch len(in) {
				case 32:
					_, err = r.SetBytes(in)
				case 64:
					_, err = r.SetBytesWide(in)
				default:
					wide := make([]byte, 64) // 48 big-endian bytes (one hash_to_field chunk): reversed and zero extended
					for i := 0; i < len(in) && i < 64; i++ {
						wide[i] = in[len(in)-1-i]
					}
					_, err = r.SetBytesWide(wide)
				}
				o.Err("r", err)
				if err != nil {
					return
				}
				c06PtOut(o, "flavor", elligator.EdwardsFlavor(&r))
				var nr field.Element
				nr.Neg(&r)
				c06PtOut(o, "flavor.neg", elligator.EdwardsFlavor(&nr)) // the map is even in r
			}},
		{Name: "fromxy", Weight: 1,
			Covers: []string{"SetEdwardsFromXY"},
			Gen: func(t *rapid.T, c *h.DiffCase) {
				// affine coordinates of a curve point, from the reference (the function requires a point of the curve)
				p := h.DiffRef(h.GenPointSpec(t, "P", rapid.Bool().Draw(t, "cheap")))
				c.PutB(ref.ToLE(p.X, 32))
				c.PutB(ref.ToLE(p.Y, 32))
			},
			Exec: func(a *h.DiffArgs, o *h.DiffOut) {
				var x, y field.Element
				if _, err := x.SetBytes(a.B()); err != nil {
					return
				}
				if _, err := y.SetBytes(a.B()); err != nil {
					return
				}
				var p curve.EdwardsPoint
				o.Panics("fromxy", func() { c06PtOut(o, "fromxy", elligator.SetEdwardsFromXY(&p, &x, &y)) })
			}},
	}
}

func TestC06Elligator(t *testing.T) {
	h.RunDiffOps(t, "internal/elligator", h.DiffBackend(""), c06ElligatorOps())
}
