//go:build verif && (amd64 || arm64 || ppc64le || ppc64 || s390x || force64bit) && !force32bit

package elligator

// C20, 64-bit backend (constraint of constants_u64.go): radix 2^51.

import (
	"math/big"

	h "verifh"
	ref "verifref"

	"github.com/oasisprotocol/curve25519-voi/internal/field"
)

const c20Backend = "u64"

func c20Int(e *field.Element) (*big.Int, bool) {
	l := h.C20Limbs(e)
	if len(l) != 5 {
		panic("c20: u64 backend must have 5 limbs")
	}
	return ref.C20Radix51(l), ref.C20LimbsCanonical(l)
}
