//go:build verif && (386 || arm || mips || mipsle || wasm || mips64le || mips64 || riscv64 || loong64 || force32bit) && !force64bit

package elligator

// C20, 32-bit backend (constraint of constants_u32.go): radix 2^25.5.

import (
	"math/big"

	h "verifh"
	ref "verifref"

	"github.com/oasisprotocol/curve25519-voi/internal/field"
)

const c20Backend = "u32"

func c20Int(e *field.Element) (*big.Int, bool) {
	l := h.C20Limbs(e)
	if len(l) != 10 {
		panic("c20: u32 backend must have 10 limbs")
	}
	return ref.C20Radix2625(l), ref.C20LimbsCanonical(l)
}
