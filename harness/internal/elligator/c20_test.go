//go:build verif

package elligator

// C20 — Elligator 2 constants equal their definitions in both limb encodings.
//
// Coverage of package-level vars (constants_u64.go / constants_u32.go):
//   constMONTGOMERY_A, constMONTGOMERY_NEG_A, constMONTGOMERY_A_SQUARED,
//   constMONTGOMERY_SQRT_NEG_A_PLUS_TWO (square = -(A+2) and sgn0 = 0, RFC 9380 6.8.2),
//   constMONTGOMERY_U_FACTOR (= -2 sqrt(-1) with sqrt(-1) = 2^((p-1)/4)),
//   constMONTGOMERY_V_FACTOR (square = U_FACTOR; its sign is immaterial: montgomeryFlavor
//   normalises the sign of v at the end, so it is deliberately not constrained)   -> all checked
//   elligator2.go constFieldZero (zero value, trivial)                             -> checked

import (
	"math/big"
	"testing"

	h "verifh"
	ref "verifref"

	"github.com/oasisprotocol/curve25519-voi/internal/field"
)

// Enc: limb encoding of the build that enumerated the case (part of the case identity).
type c20Case struct{ Name, Enc string }

var c20Names = []string{"constMONTGOMERY_A", "constMONTGOMERY_NEG_A", "constMONTGOMERY_A_SQUARED",
	"constMONTGOMERY_SQRT_NEG_A_PLUS_TWO", "constMONTGOMERY_U_FACTOR", "constMONTGOMERY_V_FACTOR", "constFieldZero"}

func c20elem(r *h.R, sig string, e *field.Element, want *big.Int) {
	r.Eval(1)
	v, canon := c20Int(e)
	if !canon {
		r.Class("limbs-not-canonical")
	}
	if ref.FMod(v).Cmp(ref.FMod(want)) != 0 {
		r.Fail(sig+":wrong-value", "limbs=%v value=%v want=%v", h.C20Limbs(e), ref.FMod(v), ref.FMod(want))
	}
}

func c20Check(c c20Case) h.Result {
	r := h.NewR().Class(c20Backend, c.Name)
	sig := "elligator." + c.Name
	trivial := false
	switch c.Name {
	case "constMONTGOMERY_A":
		c20elem(r, sig, &constMONTGOMERY_A, ref.C20MontA)
	case "constMONTGOMERY_NEG_A":
		c20elem(r, sig, &constMONTGOMERY_NEG_A, ref.C20MontNegA)
	case "constMONTGOMERY_A_SQUARED":
		c20elem(r, sig, &constMONTGOMERY_A_SQUARED, ref.C20MontASq)
	case "constMONTGOMERY_SQRT_NEG_A_PLUS_TWO":
		v, _ := c20Int(&constMONTGOMERY_SQRT_NEG_A_PLUS_TWO)
		r.Eval(1)
		if ref.FSqr(v).Cmp(ref.C20NegAPlus2) != 0 {
			r.Fail(sig+":square-is-not-neg-a-plus-two", "value=%v", ref.FMod(v))
		}
		c20elem(r, sig, &constMONTGOMERY_SQRT_NEG_A_PLUS_TWO, ref.C20SqrtNegAPlus2)
	case "constMONTGOMERY_U_FACTOR":
		c20elem(r, sig, &constMONTGOMERY_U_FACTOR, ref.C20UFactor)
	case "constMONTGOMERY_V_FACTOR":
		v, canon := c20Int(&constMONTGOMERY_V_FACTOR)
		r.Eval(1)
		if !canon {
			r.Class("limbs-not-canonical")
		}
		// recorded, not asserted (the in-tree test happens to pin the even root)
		r.Class(map[bool]string{true: "V_FACTOR-is-odd-root", false: "V_FACTOR-is-even-root"}[ref.FIsNeg(v)])
		if ref.FSqr(v).Cmp(ref.C20UFactor) != 0 {
			r.Fail(sig+":square-is-not-u-factor", "value=%v", ref.FMod(v))
		}
	case "constFieldZero":
		trivial = true
		c20elem(r, sig, &constFieldZero, big.NewInt(0))
	default:
		r.Fail("harness:unknown-case", "%q", c.Name)
	}
	return r.NT(!trivial).Result()
}

func TestC20ElligatorConstants(t *testing.T) {
	h.SetExtra(t, "backend", c20Backend)
	var cases []c20Case
	for _, n := range c20Names {
		cases = append(cases, c20Case{Name: n, Enc: c20Backend})
	}
	h.RunList(t, cases, c20Check)
}
