//go:build verif

// Package zzc19 exists only through the build overlay: it hosts the C19
// "untrusted input" table, which needs to import every package of the module.
package zzc19

import (
	"bytes"
	"crypto"
	_ "crypto/md5"
	_ "crypto/sha1"
	_ "crypto/sha256"
	"crypto/sha512"
	"errors"
	"fmt"
	"hash"
	"io"
	"math/big"
	"sort"
	"testing"

	"golang.org/x/crypto/sha3"
	"pgregory.net/rapid"

	"github.com/oasisprotocol/curve25519-voi/curve"
	"github.com/oasisprotocol/curve25519-voi/curve/scalar"
	"github.com/oasisprotocol/curve25519-voi/primitives/ed25519"
	"github.com/oasisprotocol/curve25519-voi/primitives/ed25519/extra/cache"
	"github.com/oasisprotocol/curve25519-voi/primitives/ed25519/extra/ecvrf"
	"github.com/oasisprotocol/curve25519-voi/primitives/h2c"
	"github.com/oasisprotocol/curve25519-voi/primitives/merlin"
	"github.com/oasisprotocol/curve25519-voi/primitives/sr25519"
	"github.com/oasisprotocol/curve25519-voi/primitives/x25519"
	h "verifh"
	ref "verifref"
)

// A case names a row of the entry-point table and carries up to three byte
// arguments, whether an empty argument is passed as nil, and a small integer.
type c19Case struct {
	Row  string   `json:"row"`
	Args [3]h.Hex `json:"args"`
	Nil  [3]bool  `json:"nil"`
	N    int      `json:"n"`
	Cls  []string `json:"cls"`
}

const c19Canary = 40 // spare capacity behind every argument, filled with 0xC5

// arg returns argument i as a slice with SPARE CAPACITY: the bytes behind
// len() belong to the caller (think of a pk||proof wire buffer) and must not
// be written by the callee (e.g. through append(arg, ...)).
func (c c19Case) arg(i int) []byte {
	if len(c.Args[i]) == 0 && c.Nil[i] {
		return nil
	}
	n := len(c.Args[i])
	if (n+c.N+i)%3 == 0 {
		// ... and every third argument has NO spare capacity: a callee that
		// re-slices beyond len() (b[:32] of a 31-byte slice is legal Go while the
		// capacity lasts) reads the caller's bytes silently when there is spare
		// capacity and panics when there is none; both situations are generated
		return append(make([]byte, 0, n), c.Args[i]...)
	}
	b := make([]byte, n+c19Canary)
	copy(b, c.Args[i])
	for j := n; j < len(b); j++ {
		b[j] = 0xc5
	}
	return b[:n]
}

func c19CanaryIntact(a []byte) bool {
	if a == nil {
		return true
	}
	full := a[:cap(a)]
	for _, v := range full[len(a):] {
		if v != 0xc5 {
			return false
		}
	}
	return true
}

type c19Row struct {
	Nominal [3]int                               // nominal length of each argument; -1 = argument unused; -2 = free length
	Valid   func(seed uint64) [3][]byte          // optional: a well-formed input (constructed with the library)
	Run     func(c c19Case, a [3][]byte, r *h.R) // performs the calls and the assertions
	NMax    int                                  // range of N: 0..NMax
}

type c19Entropy struct {
	b   []byte
	pos int
}

func (e *c19Entropy) Read(p []byte) (int, error) {
	for i := range p {
		p[i] = e.b[e.pos%len(e.b)] ^ byte(e.pos>>8)
		e.pos++
	}
	return len(p), nil
}

// c19FailingReader delivers b in pieces of at most chunk bytes (0 = as asked)
// and then fails: end 0 = io.EOF after the data, 1 = io.EOF together with the
// last data, 2 = another error after the data.
type c19FailingReader struct {
	b     []byte
	chunk int
	end   int
}

func (e *c19FailingReader) Read(p []byte) (int, error) {
	if len(e.b) == 0 {
		if e.end == 2 {
			return 0, errors.New("c19: entropy source failed")
		}
		return 0, io.EOF
	}
	n := len(p)
	if e.chunk > 0 && n > e.chunk {
		n = e.chunk
	}
	if n > len(e.b) {
		n = len(e.b)
	}
	copy(p, e.b[:n])
	e.b = e.b[n:]
	if len(e.b) == 0 && e.end == 1 {
		return n, io.EOF
	}
	return n, nil
}

func c19Seeded(seed uint64, n int) []byte { return h.Expand(seed, n) }

var c19Rows map[string]c19Row

// nopanic runs f; an escaped panic is a violation for this row.
func c19NoPanic(r *h.R, name string, f func()) bool {
	if p, v := h.Catch(f); p {
		r.Fail(name+":panic-on-untrusted-input", "%v", v)
		return false
	}
	return true
}

var c19IdentityEd = append([]byte{1}, make([]byte, 31)...)

// c19Kept judges a receiver after a FAILED call where the documentation does
// not say what becomes of it: untouched, or the type's neutral state (identity,
// zero) - "on failure leaves its receiver in the documented neutral state".
// What is ruled out is a receiver that was partly overwritten with the
// rejected input.
func c19Kept(after, before []byte, neutral ...[]byte) bool {
	if bytes.Equal(after, before) {
		return true
	}
	for _, n := range neutral {
		if bytes.Equal(after, n) {
			return true
		}
	}
	return false
}

var (
	c19Zero32  = make([]byte, 32)
	c19Zero64  = make([]byte, 64)
	c19EdIdent = append([]byte{1}, make([]byte, 31)...)
)

func c19EdBytes(p *curve.EdwardsPoint) []byte {
	b, _ := p.MarshalBinary()
	return b
}

func c19DirtyEd() *curve.EdwardsPoint {
	return curve.NewEdwardsPoint().Set(curve.ED25519_BASEPOINT_POINT)
}

func c19DirtyRist() *curve.RistrettoPoint {
	return curve.NewRistrettoPoint().Set(curve.RISTRETTO_BASEPOINT_POINT)
}

// c19Options returns options and how an invalid configuration must be
// signalled.  must: the documentation promises a panic ("will panic if ...
// len(opts.Context) is greater than ContextMaxSize"; the message-length
// condition for ph is handled by the caller).  may: the configuration is
// invalid (incompatible flag pair, unsupported hash) but the documentation does
// not say HOW it is refused: a panic and a plain false are both acceptable, an
// acceptance is not.
func c19Options(n int, ctxSrc []byte) (o *ed25519.Options, must, may bool) {
	o = &ed25519.Options{}
	if n >= 12 {
		// every one of the 32 VerifyOptions flag sets (presets cover only four)
		f := (n - 12) % 32
		o.Verify = &ed25519.VerifyOptions{AllowSmallOrderA: f&1 != 0, AllowSmallOrderR: f&2 != 0, AllowNonCanonicalA: f&4 != 0,
			AllowNonCanonicalR: f&8 != 0, CofactorlessVerify: f&16 != 0}
		if (n-12)/32%2 == 1 {
			o.Context = "c19"
		}
		return o, false, o.Verify.AllowNonCanonicalR && o.Verify.CofactorlessVerify
	}
	switch n % 12 {
	case 0:
	case 1:
		o.Verify = ed25519.VerifyOptionsStdLib
	case 2:
		o.Verify = ed25519.VerifyOptionsFIPS_186_5
	case 3:
		o.Verify = ed25519.VerifyOptionsZIP_215
	case 4:
		o.Context = "ctx"
	case 5:
		o.Context = string(bytes.Repeat([]byte{'a'}, 255))
	case 6:
		o.Context = string(bytes.Repeat([]byte{'a'}, 256))
		must = true
	case 7:
		o.Hash = crypto.SHA512
	case 8:
		o.Hash = crypto.SHA256
		may = true
	case 9:
		o.Verify = &ed25519.VerifyOptions{AllowNonCanonicalR: true, CofactorlessVerify: true}
		may = true
	case 10:
		o.Verify = &ed25519.VerifyOptions{}
	case 11:
		o.Verify = &ed25519.VerifyOptions{AllowSmallOrderA: true, AllowNonCanonicalA: true, AllowNonCanonicalR: true}
		if len(ctxSrc) > 0 {
			o.Context = string(ctxSrc[:1+int(ctxSrc[0])%len(ctxSrc)])
			if len(o.Context) > 255 {
				o.Context = o.Context[:255]
			}
		}
	}
	return o, must, may
}

// c19JudgePanic applies the rule above to one call; proceed reports that the
// call ran under a valid configuration and returned normally.
func c19JudgePanic(r *h.R, name string, panicked bool, pv interface{}, ok, must, may bool, detail string) (proceed bool) {
	switch {
	case panicked && !must && !may:
		r.Fail(name+":panic-not-as-documented", "%s panic=%v", detail, pv)
	case !panicked && must:
		r.Fail(name+":documented-panic-missing", "%s returned %v", detail, ok)
	case !panicked && may && ok:
		r.Fail(name+":accepted-under-invalid-configuration", "%s", detail)
	}
	return !panicked && !must && !may
}

func c19ValidEdSig(seed uint64) [3][]byte {
	sk := ed25519.NewKeyFromSeed(c19Seeded(seed, 32))
	msg := c19Seeded(seed+1, int(seed%100))
	return [3][]byte{sk[32:], msg, ed25519.Sign(sk, msg)}
}

func init() {
	R := map[string]c19Row{}
	c19Rows = R

	// ------------------------------------------------------------------ curve: raw copies
	copyRow := func(name string, set func(in []byte) (ok bool, after []byte, retNil bool)) {
		R[name] = c19Row{Nominal: [3]int{32, -1, -1}, Run: func(c c19Case, a [3][]byte, r *h.R) {
			c19NoPanic(r, name, func() {
				ok, after, retNil := set(a[0])
				marker := bytes.Repeat([]byte{0x5a}, 32)
				if len(a[0]) != 32 {
					if ok || !retNil {
						r.Fail(name+":accepted-wrong-length", "len=%d", len(a[0]))
					}
					if !c19Kept(after, marker, c19Zero32, c19EdIdent) {
						r.Fail(name+":receiver-modified-on-error", "len=%d after=%x", len(a[0]), after)
					}
				} else if !ok || !bytes.Equal(after, a[0]) {
					r.Fail(name+":rejected-or-miscopied-32-bytes", "in=%x after=%x", a[0], after)
				}
			})
		}}
	}
	copyRow("curve.CompressedEdwardsY.SetBytes", func(in []byte) (bool, []byte, bool) {
		var p curve.CompressedEdwardsY
		copy(p[:], bytes.Repeat([]byte{0x5a}, 32))
		ret, err := p.SetBytes(in)
		return err == nil, p[:], ret == nil
	})
	copyRow("curve.CompressedRistretto.SetBytes", func(in []byte) (bool, []byte, bool) {
		var p curve.CompressedRistretto
		copy(p[:], bytes.Repeat([]byte{0x5a}, 32))
		ret, err := p.SetBytes(in)
		return err == nil, p[:], ret == nil
	})
	copyRow("curve.MontgomeryPoint.SetBytes", func(in []byte) (bool, []byte, bool) {
		var p curve.MontgomeryPoint
		copy(p[:], bytes.Repeat([]byte{0x5a}, 32))
		ret, err := p.SetBytes(in)
		return err == nil, p[:], ret == nil
	})
	R["curve.NewCompressedEdwardsYFromBytes"] = c19Row{Nominal: [3]int{32, -1, -1}, Run: func(c c19Case, a [3][]byte, r *h.R) {
		c19NoPanic(r, "curve.NewCompressedEdwardsYFromBytes", func() {
			p, err := curve.NewCompressedEdwardsYFromBytes(a[0])
			if (err == nil) != (len(a[0]) == 32) || (err != nil && p != nil) || (err == nil && !bytes.Equal(p[:], a[0])) {
				r.Fail("curve.NewCompressedEdwardsYFromBytes:wrong-result", "len=%d err=%v", len(a[0]), err)
			}
		})
	}}

	// ------------------------------------------------------------------ curve: validating decoders
	R["curve.EdwardsPoint.UnmarshalBinary"] = c19Row{Nominal: [3]int{32, -1, -1}, Run: func(c c19Case, a [3][]byte, r *h.R) {
		name := "curve.EdwardsPoint.UnmarshalBinary"
		c19NoPanic(r, name, func() {
			p := c19DirtyEd()
			err := p.UnmarshalBinary(a[0])
			di := ref.Decode(a[0])
			want := len(a[0]) == 32 && di.OK
			if (err == nil) != want {
				r.Fail(name+":wrong-decision", "in=%x err=%v want-accept=%v", a[0], err, want)
				return
			}
			if err != nil {
				if !bytes.Equal(c19EdBytes(p), c19IdentityEd) {
					r.Fail(name+":receiver-not-identity-after-error", "in=%x receiver=%x", a[0], c19EdBytes(p))
				} else if B := curve.ED25519_BASEPOINT_POINT; !bytes.Equal(c19EdBytes(curve.NewEdwardsPoint().Add(B, p)), c19EdBytes(B)) ||
					!bytes.Equal(c19EdBytes(curve.NewEdwardsPoint().Add(p, p)), c19IdentityEd) {
					// the neutral state must be the identity in every coordinate, not only in the encoded ones
					r.Fail(name+":receiver-encodes-as-identity-but-does-not-act-as-identity", "in=%x: B + receiver != B", a[0])
				}
			} else if !bytes.Equal(c19EdBytes(p), di.P.Encode()) {
				r.Fail(name+":wrong-point", "in=%x got=%x want=%x", a[0], c19EdBytes(p), di.P.Encode())
			}
		})
	}}
	R["curve.CompressedEdwardsY.UnmarshalBinary"] = c19Row{Nominal: [3]int{32, -1, -1}, Run: func(c c19Case, a [3][]byte, r *h.R) {
		name := "curve.CompressedEdwardsY.UnmarshalBinary"
		c19NoPanic(r, name, func() {
			var p curve.CompressedEdwardsY
			copy(p[:], bytes.Repeat([]byte{0x5a}, 32))
			err := p.UnmarshalBinary(a[0])
			want := len(a[0]) == 32 && ref.Decode(a[0]).OK
			if (err == nil) != want {
				r.Fail(name+":wrong-decision", "in=%x err=%v want-accept=%v", a[0], err, want)
				return
			}
			if err != nil && !bytes.Equal(p[:], c19IdentityEd) {
				r.Fail(name+":receiver-not-identity-after-error", "in=%x receiver=%x", a[0], p[:])
			}
			if err == nil && !bytes.Equal(p[:], a[0]) {
				r.Fail(name+":wrong-bytes", "in=%x got=%x", a[0], p[:])
			}
		})
	}}
	R["curve.RistrettoPoint.UnmarshalBinary"] = c19Row{Nominal: [3]int{32, -1, -1}, Run: func(c c19Case, a [3][]byte, r *h.R) {
		name := "curve.RistrettoPoint.UnmarshalBinary"
		c19NoPanic(r, name, func() {
			p := c19DirtyRist()
			err := p.UnmarshalBinary(a[0])
			_, ok := ref.RistDecode(a[0])
			if (err == nil) != ok {
				r.Fail(name+":wrong-decision", "in=%x err=%v want-accept=%v", a[0], err, ok)
				return
			}
			out, _ := p.MarshalBinary()
			if err != nil && !bytes.Equal(out, make([]byte, 32)) {
				r.Fail(name+":receiver-not-identity-after-error", "in=%x receiver=%x", a[0], out)
			} else if err != nil {
				bb, _ := curve.RISTRETTO_BASEPOINT_POINT.MarshalBinary()
				sum, _ := curve.NewRistrettoPoint().Add(curve.RISTRETTO_BASEPOINT_POINT, p).MarshalBinary()
				if !bytes.Equal(sum, bb) {
					r.Fail(name+":receiver-encodes-as-identity-but-does-not-act-as-identity", "in=%x: B + receiver != B", a[0])
				}
			}
			if err == nil && !bytes.Equal(out, a[0]) {
				r.Fail(name+":roundtrip", "in=%x out=%x", a[0], out)
			}
		})
	}}
	R["curve.CompressedRistretto.UnmarshalBinary"] = c19Row{Nominal: [3]int{32, -1, -1}, Run: func(c c19Case, a [3][]byte, r *h.R) {
		name := "curve.CompressedRistretto.UnmarshalBinary"
		c19NoPanic(r, name, func() {
			var p curve.CompressedRistretto
			copy(p[:], bytes.Repeat([]byte{0x5a}, 32))
			err := p.UnmarshalBinary(a[0])
			_, ok := ref.RistDecode(a[0])
			if (err == nil) != ok {
				r.Fail(name+":wrong-decision", "in=%x err=%v want-accept=%v", a[0], err, ok)
				return
			}
			if err != nil && !bytes.Equal(p[:], make([]byte, 32)) {
				r.Fail(name+":receiver-not-identity-after-error", "in=%x receiver=%x", a[0], p[:])
			}
			if err == nil && !bytes.Equal(p[:], a[0]) {
				r.Fail(name+":wrong-bytes", "in=%x got=%x", a[0], p[:])
			}
		})
	}}
	R["curve.EdwardsPoint.SetCompressedY"] = c19Row{Nominal: [3]int{32, -1, -1}, Run: func(c c19Case, a [3][]byte, r *h.R) {
		name := "curve.EdwardsPoint.SetCompressedY"
		if len(a[0]) != 32 {
			return
		}
		c19NoPanic(r, name, func() {
			var cp curve.CompressedEdwardsY
			copy(cp[:], a[0])
			p := c19DirtyEd()
			before := c19EdBytes(p)
			ret, err := p.SetCompressedY(&cp)
			di := ref.Decode(a[0])
			if (err == nil) != di.OK || (err != nil && ret != nil) {
				r.Fail(name+":wrong-decision", "in=%x err=%v", a[0], err)
				return
			}
			if err != nil && !c19Kept(c19EdBytes(p), before, c19EdIdent) {
				r.Fail(name+":receiver-modified-on-error", "in=%x", a[0])
			}
			if err == nil && !bytes.Equal(c19EdBytes(p), di.P.Encode()) {
				r.Fail(name+":wrong-point", "in=%x", a[0])
			}
		})
	}}
	R["curve.RistrettoPoint.SetCompressed"] = c19Row{Nominal: [3]int{32, -1, -1}, Run: func(c c19Case, a [3][]byte, r *h.R) {
		name := "curve.RistrettoPoint.SetCompressed"
		if len(a[0]) != 32 {
			return
		}
		c19NoPanic(r, name, func() {
			var cp curve.CompressedRistretto
			copy(cp[:], a[0])
			p := c19DirtyRist()
			before, _ := p.MarshalBinary()
			ret, err := p.SetCompressed(&cp)
			_, ok := ref.RistDecode(a[0])
			if (err == nil) != ok || (err != nil && ret != nil) {
				r.Fail(name+":wrong-decision", "in=%x err=%v", a[0], err)
				return
			}
			after, _ := p.MarshalBinary()
			if err != nil && !c19Kept(after, before, c19Zero32) {
				r.Fail(name+":receiver-modified-on-error", "in=%x", a[0])
			}
		})
	}}
	R["curve.RistrettoPoint.SetUniformBytes"] = c19Row{Nominal: [3]int{64, -1, -1}, Run: func(c c19Case, a [3][]byte, r *h.R) {
		name := "curve.RistrettoPoint.SetUniformBytes"
		c19NoPanic(r, name, func() {
			p := c19DirtyRist()
			before, _ := p.MarshalBinary()
			ret, err := p.SetUniformBytes(a[0])
			if (err == nil) != (len(a[0]) == 64) || (err != nil && ret != nil) {
				r.Fail(name+":wrong-length-decision", "len=%d err=%v", len(a[0]), err)
				return
			}
			after, _ := p.MarshalBinary()
			if err != nil && !c19Kept(after, before, c19Zero32) {
				r.Fail(name+":receiver-modified-on-error", "len=%d", len(a[0]))
			}
			if err == nil && !bytes.Equal(after, ref.RistEncode(ref.RistFromUniform(a[0]))) {
				r.Fail(name+":wrong-element", "in=%x", a[0])
			}
		})
	}}
	R["curve.EdwardsPoint.SetMontgomery"] = c19Row{Nominal: [3]int{32, -1, -1}, NMax: 1, Run: func(c c19Case, a [3][]byte, r *h.R) {
		name := "curve.EdwardsPoint.SetMontgomery"
		if len(a[0]) != 32 {
			return
		}
		c19NoPanic(r, name, func() {
			var u curve.MontgomeryPoint
			copy(u[:], a[0])
			p := c19DirtyEd()
			before := c19EdBytes(p)
			ret, err := p.SetMontgomery(&u, uint8(c.N&1))
			want, ok := ref.FromMontgomeryU(ref.FDecode(a[0]), byte(c.N&1))
			if (err == nil) != ok || (err != nil && ret != nil) {
				r.Fail(name+":wrong-decision", "u=%x sign=%d err=%v want-ok=%v", a[0], c.N&1, err, ok)
				return
			}
			if err != nil && !c19Kept(c19EdBytes(p), before, c19EdIdent) {
				r.Fail(name+":receiver-modified-on-error", "u=%x", a[0])
			}
			if err == nil && !bytes.Equal(c19EdBytes(p), want.Encode()) {
				r.Fail(name+":wrong-point", "u=%x sign=%d got=%x want=%x", a[0], c.N&1, c19EdBytes(p), want.Encode())
			}
		})
	}}

	// ------------------------------------------------------------------ scalar
	R["scalar.ScMinimalVartime"] = c19Row{Nominal: [3]int{32, -1, -1}, Run: func(c c19Case, a [3][]byte, r *h.R) {
		c19NoPanic(r, "scalar.ScMinimalVartime", func() {
			got := scalar.ScMinimalVartime(a[0])
			want := len(a[0]) == 32 && ref.FromLE(a[0]).Cmp(ref.L) < 0
			if got != want {
				r.Fail("scalar.ScMinimalVartime:wrong-decision", "in=%x got=%v want=%v", a[0], got, want)
			}
		})
	}}
	scalarRow := func(name string, nominal int, valid func(in []byte) bool, f func(s *scalar.Scalar, in []byte) (*scalar.Scalar, error)) {
		R[name] = c19Row{Nominal: [3]int{nominal, -1, -1}, Run: func(c c19Case, a [3][]byte, r *h.R) {
			c19NoPanic(r, name, func() {
				marker := bytes.Repeat([]byte{0x05}, 32)
				s, _ := scalar.NewFromBits(marker)
				ret, err := f(s, a[0])
				want := len(a[0]) == nominal && valid(a[0])
				if (err == nil) != want || (err != nil && ret != nil) {
					r.Fail(name+":wrong-decision", "in=%x err=%v want-accept=%v", a[0], err, want)
					return
				}
				var out [32]byte
				_ = s.ToBytes(out[:])
				if err != nil && !c19Kept(out[:], marker, c19Zero32) {
					r.Fail(name+":receiver-modified-on-error", "in=%x", a[0])
				}
			})
		}}
	}
	// the constructor forms: same decision as the setter, (nil, err) on refusal, the same value otherwise
	ctorRow := func(name string, nominal int, valid func(in []byte) bool, set, ctor func(in []byte) (*scalar.Scalar, error)) {
		R[name] = c19Row{Nominal: [3]int{nominal, -1, -1}, Run: func(c c19Case, a [3][]byte, r *h.R) {
			c19NoPanic(r, name, func() {
				s, err := ctor(a[0])
				want := len(a[0]) == nominal && valid(a[0])
				if (err == nil) != want || (err != nil && s != nil) || (err == nil && s == nil) {
					r.Fail(name+":wrong-decision", "in=%x err=%v want-accept=%v", a[0], err, want)
					return
				}
				if err == nil {
					s2, err2 := set(a[0])
					var b1, b2 [32]byte
					_ = s.ToBytes(b1[:])
					if err2 != nil || s2.ToBytes(b2[:]) != nil || b1 != b2 {
						r.Fail(name+":differs-from-setter", "in=%x ctor=%x setter=%x err=%v", a[0], b1[:], b2[:], err2)
					}
				}
			})
		}}
	}
	anyOK := func([]byte) bool { return true }
	canon := func(in []byte) bool { return ref.FromLE(in).Cmp(ref.L) < 0 }
	ctorRow("scalar.NewFromBytesModOrder", 32, anyOK, func(in []byte) (*scalar.Scalar, error) { return scalar.New().SetBytesModOrder(in) }, scalar.NewFromBytesModOrder)
	ctorRow("scalar.NewFromBytesModOrderWide", 64, anyOK, func(in []byte) (*scalar.Scalar, error) { return scalar.New().SetBytesModOrderWide(in) }, scalar.NewFromBytesModOrderWide)
	ctorRow("scalar.NewFromCanonicalBytes", 32, canon, func(in []byte) (*scalar.Scalar, error) { return scalar.New().SetCanonicalBytes(in) }, scalar.NewFromCanonicalBytes)
	ctorRow("scalar.NewFromBits", 32, anyOK, func(in []byte) (*scalar.Scalar, error) { return scalar.New().SetBits(in) }, scalar.NewFromBits)
	scalarRow("scalar.Scalar.SetBytesModOrder", 32, anyOK, func(s *scalar.Scalar, in []byte) (*scalar.Scalar, error) { return s.SetBytesModOrder(in) })
	scalarRow("scalar.Scalar.SetBits", 32, anyOK, func(s *scalar.Scalar, in []byte) (*scalar.Scalar, error) { return s.SetBits(in) })
	scalarRow("scalar.Scalar.SetBytesModOrderWide", 64, anyOK, func(s *scalar.Scalar, in []byte) (*scalar.Scalar, error) { return s.SetBytesModOrderWide(in) })
	scalarRow("scalar.Scalar.SetCanonicalBytes", 32, canon, func(s *scalar.Scalar, in []byte) (*scalar.Scalar, error) { return s.SetCanonicalBytes(in) })
	scalarRow("scalar.Scalar.UnmarshalBinary", 32, canon, func(s *scalar.Scalar, in []byte) (*scalar.Scalar, error) {
		if err := s.UnmarshalBinary(in); err != nil {
			return nil, err
		}
		return s, nil
	})
	R["scalar.Scalar.ToBytes"] = c19Row{Nominal: [3]int{32, -1, -1}, Run: func(c c19Case, a [3][]byte, r *h.R) {
		c19NoPanic(r, "scalar.Scalar.ToBytes", func() {
			err := scalar.NewFromUint64(7).ToBytes(a[0])
			if (err == nil) != (len(a[0]) == 32) {
				r.Fail("scalar.Scalar.ToBytes:wrong-length-decision", "len=%d err=%v", len(a[0]), err)
			}
		})
	}}
	R["scalar.recoding-widths"] = c19Row{Nominal: [3]int{32, -1, -1}, NMax: 20, Run: func(c c19Case, a [3][]byte, r *h.R) {
		if len(a[0]) != 32 {
			return
		}
		s, _ := scalar.NewFromBits(a[0])
		w := uint(c.N)
		p, _ := h.Catch(func() { _ = s.NonAdjacentForm(w) })
		if p != (w < 2 || w > 8) {
			r.Fail("scalar.Scalar.NonAdjacentForm:panic-not-as-documented", "w=%d panicked=%v", w, p)
		}
		p, _ = h.Catch(func() { _ = s.ToRadix2w(w) })
		if p != (w < 6 || w > 8) {
			r.Fail("scalar.Scalar.ToRadix2w:panic-not-as-documented", "w=%d panicked=%v", w, p)
		}
		p, _ = h.Catch(func() { _ = scalar.ToRadix2wSizeHint(w) })
		if p != (w < 6 || w > 8) {
			r.Fail("scalar.ToRadix2wSizeHint:panic-not-as-documented", "w=%d panicked=%v", w, p)
		}
	}}
	R["curve.multiscalar-length-mismatch"] = c19Row{Nominal: [3]int{32, -1, -1}, NMax: 63, Run: func(c c19Case, a [3][]byte, r *h.R) {
		if len(a[0]) != 32 {
			return
		}
		ns, np := c.N&7, (c.N>>3)&7
		s, _ := scalar.NewFromBits(a[0])
		ss := make([]*scalar.Scalar, ns)
		for i := range ss {
			ss[i] = s
		}
		ps := make([]*curve.EdwardsPoint, np)
		rps := make([]*curve.RistrettoPoint, np)
		eps := make([]*curve.ExpandedEdwardsPoint, np)
		for i := range ps {
			ps[i] = curve.ED25519_BASEPOINT_POINT
			rps[i] = curve.RISTRETTO_BASEPOINT_POINT
			eps[i] = curve.NewExpandedEdwardsPoint(curve.ED25519_BASEPOINT_POINT)
		}
		for name, f := range map[string]func(){
			"curve.EdwardsPoint.MultiscalarMul":          func() { curve.NewEdwardsPoint().MultiscalarMul(ss, ps) },
			"curve.EdwardsPoint.MultiscalarMulVartime":   func() { curve.NewEdwardsPoint().MultiscalarMulVartime(ss, ps) },
			"curve.RistrettoPoint.MultiscalarMul":        func() { curve.NewRistrettoPoint().MultiscalarMul(ss, rps) },
			"curve.RistrettoPoint.MultiscalarMulVartime": func() { curve.NewRistrettoPoint().MultiscalarMulVartime(ss, rps) },
			"curve.EdwardsPoint.ExpandedMultiscalarMulVartime(static)": func() {
				curve.NewEdwardsPoint().ExpandedMultiscalarMulVartime(ss, eps, nil, nil)
			},
			"curve.EdwardsPoint.ExpandedMultiscalarMulVartime(dynamic)": func() {
				curve.NewEdwardsPoint().ExpandedMultiscalarMulVartime(nil, nil, ss, ps)
			},
		} {
			p, v := h.Catch(f)
			if p != (ns != np) {
				r.Fail(name+":panic-not-as-documented", "scalars=%d points=%d panicked=%v (%v)", ns, np, p, v)
			}
		}
	}}

	// ------------------------------------------------------------------ Ed25519
	R["ed25519.VerifyWithOptions"] = c19Row{Nominal: [3]int{32, -2, 64}, NMax: 75, Valid: c19ValidEdSig, Run: func(c c19Case, a [3][]byte, r *h.R) {
		name := "ed25519.VerifyWithOptions"
		opts, must, may := c19Options(c.N, a[1])
		if opts.Hash == crypto.SHA512 && len(a[1]) != 64 {
			must = true
		}
		if len(a[0]) != 32 {
			must = true
		}
		var ok bool
		p, v := h.Catch(func() { ok = ed25519.VerifyWithOptions(a[0], a[1], a[2], opts) })
		if !c19JudgePanic(r, name, p, v, ok, must, may, fmt.Sprintf("pk-len=%d msg-len=%d sig-len=%d opt=%d", len(a[0]), len(a[1]), len(a[2]), c.N)) {
			if r.Failed() {
				return
			}
		}
		if !p && ok && len(a[2]) != 64 {
			r.Fail(name+":accepted-wrong-length-signature", "sig-len=%d", len(a[2]))
		}
		if !p && ok && !ref.Decode(a[0]).OK {
			r.Fail(name+":accepted-undecodable-key", "pk=%x", a[0])
		}
		if c.N == 0 && len(a[0]) == 32 {
			// plain entry point agrees
			var ok2 bool
			if p2, _ := h.Catch(func() { ok2 = ed25519.Verify(a[0], a[1], a[2]) }); p2 || ok2 != ok {
				r.Fail("ed25519.Verify:disagrees-with-VerifyWithOptions", "")
			}
		}
		// nil options: documented panic
		if p, _ := h.Catch(func() { ed25519.VerifyWithOptions(a[0], a[1], a[2], nil) }); !p {
			r.Fail(name+":nil-options-did-not-panic", "")
		}
	}}
	R["ed25519.NewExpandedPublicKey+VerifyExpanded"] = c19Row{Nominal: [3]int{32, -2, 64}, NMax: 75, Valid: c19ValidEdSig, Run: func(c c19Case, a [3][]byte, r *h.R) {
		name := "ed25519.NewExpandedPublicKey"
		var epk *ed25519.ExpandedPublicKey
		var err error
		// the key buffer is the caller's and is reused right after the call
		pkc := append(make([]byte, 0, len(a[0])+8), a[0]...)
		if !c19NoPanic(r, name, func() { epk, err = ed25519.NewExpandedPublicKey(pkc) }) {
			return
		}
		for i := range pkc {
			pkc[i] ^= 0x5a
		}
		want := len(a[0]) == 32 && ref.Decode(a[0]).OK
		if (err == nil) != want || (err != nil && epk != nil) {
			r.Fail(name+":wrong-decision", "pk=%x err=%v want-accept=%v", a[0], err, want)
			return
		}
		{
			// the zero value of the exported struct (what a caller holds who ignored the constructor's error, or a
			// struct field never filled in): every option set must get "false" - the documented panics are those of
			// the options / message length only
			zopts, zmust, zmay := c19Options(c.N, a[1])
			if zopts.Hash == crypto.SHA512 && len(a[1]) != 64 {
				zmust = true
			}
			zmay, zmust = zmay || zmust, false // refusing the key before looking at the options is as good as the panic
			var zok bool
			zp, zv := h.Catch(func() { zok = ed25519.VerifyExpandedWithOptions(&ed25519.ExpandedPublicKey{}, a[1], a[2], zopts) })
			c19JudgePanic(r, "ed25519.VerifyExpandedWithOptions(zero-value-key)", zp, zv, zok, zmust, zmay, fmt.Sprintf("opt=%d", c.N))
			if !zp && zok {
				r.Fail("ed25519.VerifyExpandedWithOptions(zero-value-key):accepted", "sig=%x opt=%d", a[2], c.N)
			}
			if r.Failed() {
				return
			}
		}
		if err != nil {
			return
		}
		if cy := epk.CompressedY(); !bytes.Equal(cy[:], a[0]) {
			r.Fail(name+":CompressedY-mismatch", "pk=%x got=%x", a[0], cy[:])
		}
		opts, must, may := c19Options(c.N, a[1])
		if opts.Hash == crypto.SHA512 && len(a[1]) != 64 {
			must = true
		}
		var ok, okPlain bool
		p, v := h.Catch(func() { ok = ed25519.VerifyExpandedWithOptions(epk, a[1], a[2], opts) })
		c19JudgePanic(r, "ed25519.VerifyExpandedWithOptions", p, v, ok, must, may, fmt.Sprintf("opt=%d", c.N))
		if r.Failed() {
			return
		}
		if !p {
			h.Catch(func() { okPlain = ed25519.VerifyWithOptions(a[0], a[1], a[2], opts) })
			if ok != okPlain {
				r.Fail("ed25519.VerifyExpandedWithOptions:disagrees-with-plain", "pk=%x sig=%x opt=%d expanded=%v plain=%v", a[0], a[2], c.N, ok, okPlain)
			}
		}
	}}
	R["ed25519.BatchVerifier"] = c19Row{Nominal: [3]int{32, -2, 64}, NMax: 303, Valid: c19ValidEdSig, Run: func(c c19Case, a [3][]byte, r *h.R) {
		name := "ed25519.BatchVerifier"
		opts, must, may := c19Options(c.N%76, a[1])
		cfgInvalid := must || may
		if opts.Hash == crypto.SHA512 && len(a[1]) != 64 {
			cfgInvalid = true
		}
		good := c19ValidEdSig(uint64(c.N) + 77)
		var single bool
		if p, _ := h.Catch(func() { single = ed25519.VerifyWithOptions(a[0], a[1], a[2], opts) }); p {
			single = false
		}
		c19NoPanic(r, name, func() {
			v := ed25519.NewBatchVerifier()
			mode := (c.N / 76) % 4
			v.Add(good[0], good[1], good[2])
			switch mode {
			case 0:
				v.AddWithOptions(a[0], a[1], a[2], opts)
			case 1:
				v.ForceNoPublicKeyExpansion()
				v.AddWithOptions(a[0], a[1], a[2], opts)
			case 2:
				epk, _ := ed25519.NewExpandedPublicKey(a[0]) // nil on error: documented as handled
				v.AddExpandedWithOptions(epk, a[1], a[2], opts)
			case 3:
				v.AddExpandedWithOptions(nil, a[1], a[2], opts)
			}
			v.Add(good[0], good[1], good[2])
			all, valid := v.Verify(&c19Entropy{b: []byte{9, 8, 7, 6, 5}})
			if len(valid) != 3 {
				r.Fail(name+".Verify:wrong-result-length", "got %d", len(valid))
				return
			}
			want := single
			if mode == 3 {
				want = false
			}
			if !valid[0] || !valid[2] {
				r.Fail(name+".Verify:valid-entry-reported-invalid", "mode=%d opt=%d valid=%v", mode, c.N%76, valid)
			}
			if valid[1] != want || all != want {
				r.Fail(name+".Verify:entry-disagrees-with-single-verification", "mode=%d opt=%d pk=%x sig=%x batch=%v single=%v all=%v cfgInvalid=%v", mode, c.N%76, a[0], a[2], valid[1], want, all, cfgInvalid)
			}
			bo := v.VerifyBatchOnly(&c19Entropy{b: []byte{1, 2, 3}})
			cofactorless := opts.Verify != nil && opts.Verify.CofactorlessVerify
			if bo != (want && !cofactorless) {
				r.Fail(name+".VerifyBatchOnly:wrong", "mode=%d opt=%d got=%v want=%v", mode, c.N%76, bo, want && !cofactorless)
			}
			// nil options: documented panic
			if p, _ := h.Catch(func() { ed25519.NewBatchVerifier().AddWithOptions(a[0], a[1], a[2], nil) }); !p {
				r.Fail(name+".AddWithOptions:nil-options-did-not-panic", "")
			}
		})
	}}
	R["cache.Verifier"] = c19Row{Nominal: [3]int{32, -2, 64}, NMax: 75, Valid: c19ValidEdSig, Run: func(c c19Case, a [3][]byte, r *h.R) {
		name := "cache.Verifier"
		opts, must, may := c19Options(c.N, a[1])
		if opts.Hash == crypto.SHA512 && len(a[1]) != 64 {
			must = true
		}
		var plain bool
		if p, _ := h.Catch(func() { plain = ed25519.VerifyWithOptions(a[0], a[1], a[2], opts) }); p {
			plain = false
		}
		cv := cache.NewVerifier(cache.NewLRUCache(2))
		c19NoPanic(r, name+".AddPublicKey", func() { cv.AddPublicKey(a[0]) })
		var ok bool
		p, v := h.Catch(func() { ok = cv.VerifyWithOptions(a[0], a[1], a[2], opts) })
		// the caching front end documents no panics of its own: it may mirror the
		// documented ones of VerifyWithOptions (before or after looking at the
		// key), it must never panic otherwise and never accept what the plain
		// entry point refuses
		if p && !must && !may && len(a[0]) == 32 {
			r.Fail(name+".VerifyWithOptions:panic-not-as-documented", "opt=%d panicked=%v (%v)", c.N, p, v)
			return
		}
		if p && len(a[0]) != 32 {
			r.Class("cache:mirrors-the-key-length-panic")
		}
		if !p && ok != plain {
			r.Fail(name+".VerifyWithOptions:disagrees-with-plain", "pk=%x opt=%d cached=%v plain=%v", a[0], c.N, ok, plain)
		}
		c19NoPanic(r, name+".AddWithOptions", func() {
			bv := ed25519.NewBatchVerifier()
			cv.AddWithOptions(bv, a[0], a[1], a[2], opts)
			all, valid := bv.Verify(&c19Entropy{b: []byte{4, 4, 4}})
			if len(valid) != 1 || valid[0] != plain || all != plain {
				r.Fail(name+".AddWithOptions:disagrees-with-plain", "pk=%x opt=%d batch=%v plain=%v", a[0], c.N, valid, plain)
			}
		})
	}}

	// ------------------------------------------------------------------ entropy sources handed in by the caller
	//
	// a[0] is what the source can deliver before it fails (any length), in pieces
	// of a size derived from N, ending with io.EOF (with or without the last
	// data) or with another error.  How many bytes each consumer needs is not
	// asserted (only partly documented): an empty source must be refused, 200
	// bytes or more must do, and in every case "no result" and "error" go
	// together and nothing panics.
	type readerFn struct {
		name string
		call func(rd io.Reader) (haveResult bool, err error)
	}
	readerFns := []readerFn{
		{"scalar.Scalar.SetRandom", func(rd io.Reader) (bool, error) { s, err := scalar.New().SetRandom(rd); return s != nil, err }},
		{"curve.RistrettoPoint.SetRandom", func(rd io.Reader) (bool, error) {
			p, err := curve.NewRistrettoPoint().SetRandom(rd)
			return p != nil, err
		}},
		{"ed25519.GenerateKey", func(rd io.Reader) (bool, error) { pk, sk, err := ed25519.GenerateKey(rd); return pk != nil || sk != nil, err }},
		{"x25519.GenerateKey", func(rd io.Reader) (bool, error) { pk, sk, err := x25519.GenerateKey(rd); return pk != nil || sk != nil, err }},
		{"x25519.GeneratePrivateKey", func(rd io.Reader) (bool, error) { sk, err := x25519.GeneratePrivateKey(rd); return sk != nil, err }},
		{"sr25519.GenerateMiniSecretKey", func(rd io.Reader) (bool, error) { k, err := sr25519.GenerateMiniSecretKey(rd); return k != nil, err }},
		{"sr25519.GenerateSecretKey", func(rd io.Reader) (bool, error) { k, err := sr25519.GenerateSecretKey(rd); return k != nil, err }},
		{"sr25519.GenerateKeyPair", func(rd io.Reader) (bool, error) { k, err := sr25519.GenerateKeyPair(rd); return k != nil, err }},
		{"sr25519.KeyPair.Sign", func(rd io.Reader) (bool, error) {
			msk, _ := sr25519.NewMiniSecretKeyFromBytes(c19Seeded(51, 32))
			sig, err := msk.ExpandUniform().KeyPair().Sign(rd, sr25519.NewSigningContext([]byte("c19")).NewTranscriptBytes([]byte("m")))
			return sig != nil, err
		}},
		{"ed25519.PrivateKey.Sign(AddedRandomness)", func(rd io.Reader) (bool, error) {
			sig, err := ed25519.NewKeyFromSeed(c19Seeded(52, 32)).Sign(rd, []byte("m"), &ed25519.Options{AddedRandomness: true})
			return sig != nil, err
		}},
		{"ecvrf.ProveWithAddedRandomness", func(rd io.Reader) (bool, error) {
			pi, err := ecvrf.ProveWithAddedRandomness(rd, ed25519.NewKeyFromSeed(c19Seeded(53, 32)), []byte("a"))
			return pi != nil, err
		}},
		{"ecvrf.ProveWithAddedRandomness_v10", func(rd io.Reader) (bool, error) {
			pi, err := ecvrf.ProveWithAddedRandomness_v10(rd, ed25519.NewKeyFromSeed(c19Seeded(53, 32)), []byte("a"))
			return pi != nil, err
		}},
		{"merlin.TranscriptRngBuilder.Finalize", func(rd io.Reader) (bool, error) {
			rng, err := merlin.NewTranscript("c19").BuildRng().Finalize(rd)
			return rng != nil, err
		}},
	}
	R["entropy-readers"] = c19Row{Nominal: [3]int{-2, -1, -1}, NMax: len(readerFns)*12 - 1, Run: func(c c19Case, a [3][]byte, r *h.R) {
		fn := readerFns[c.N%len(readerFns)]
		mode := c.N / len(readerFns) // 0..11: chunk size x way of ending
		rd := &c19FailingReader{b: append([]byte(nil), a[0]...), chunk: []int{0, 1, 7, 31}[mode%4], end: mode / 4}
		c19NoPanic(r, fn.name, func() {
			have, err := fn.call(rd)
			if have != (err == nil) {
				r.Fail(fn.name+":result-and-error-disagree", "source of %d bytes (mode %d): result=%v err=%v", len(a[0]), mode, have, err)
			}
			if len(a[0]) == 0 && err == nil {
				r.Fail(fn.name+":result-from-empty-entropy-source", "mode %d", mode)
			}
			if len(a[0]) >= 200 && err != nil {
				r.Fail(fn.name+":error-with-ample-entropy", "source of %d bytes (mode %d): %v", len(a[0]), mode, err)
			}
		})
	}}
	R["sr25519.SigningContext.NewTranscriptXOF"] = c19Row{Nominal: [3]int{-2, -2, -1}, Run: func(c c19Case, a [3][]byte, r *h.R) {
		name := "sr25519.SigningContext.NewTranscriptXOF"
		c19NoPanic(r, name, func() {
			msk, _ := sr25519.NewMiniSecretKeyFromBytes(c19Seeded(54, 32))
			kp := msk.ExpandUniform().KeyPair()
			sc := sr25519.NewSigningContext(a[1])
			mk := func() *sr25519.SigningTranscript {
				xof := sha3.NewShake256()
				_, _ = xof.Write(a[0])
				return sc.NewTranscriptXOF(xof)
			}
			sig, err := kp.Sign(&c19Entropy{b: []byte{9, 9}}, mk())
			if err != nil || sig == nil {
				r.Fail(name+":sign-error-on-valid-input", "%v", err)
				return
			}
			if !kp.PublicKey().Verify(mk(), sig) {
				r.Fail(name+":own-signature-rejected", "msg-len=%d ctx-len=%d", len(a[0]), len(a[1]))
			}
		})
	}}

	// ------------------------------------------------------------------ producing side: messages, contexts and inputs are externally supplied too
	R["ed25519.PrivateKey.Sign(message,context)"] = c19Row{Nominal: [3]int{-2, -2, -1}, NMax: 15, Run: func(c c19Case, a [3][]byte, r *h.R) {
		name := "ed25519.PrivateKey.Sign"
		sk := ed25519.NewKeyFromSeed(c19Seeded(41, 32))
		opts := &ed25519.Options{Context: string(a[1]), AddedRandomness: c.N&1 != 0, SelfVerify: c.N&2 != 0}
		if c.N&4 != 0 {
			opts.Hash = crypto.SHA512
		}
		if c.N&8 != 0 {
			opts.Verify = ed25519.VerifyOptionsStdLib
		}
		wantErr := len(a[1]) > 255 || (opts.Hash == crypto.SHA512 && len(a[0]) != 64)
		c19NoPanic(r, name, func() {
			sig, err := sk.Sign(&c19Entropy{b: []byte{3, 1, 4, 1, 5}}, a[0], opts)
			if (err != nil) != wantErr || (err != nil && sig != nil) {
				r.Fail(name+":wrong-decision", "msg-len=%d ctx-len=%d opt=%d err=%v want-error=%v", len(a[0]), len(a[1]), c.N, err, wantErr)
				return
			}
			if err != nil {
				return
			}
			if len(sig) != 64 || !ed25519.VerifyWithOptions(sk.Public().(ed25519.PublicKey), a[0], sig, opts) {
				r.Fail(name+":signature-does-not-verify", "msg-len=%d ctx-len=%d opt=%d sig=%x", len(a[0]), len(a[1]), c.N, sig)
			}
		})
	}}
	R["ecvrf.Prove(alpha)"] = c19Row{Nominal: [3]int{-2, -1, -1}, NMax: 3, Run: func(c c19Case, a [3][]byte, r *h.R) {
		name := "ecvrf.Prove"
		sk := ed25519.NewKeyFromSeed(c19Seeded(43, 32))
		pk := sk.Public().(ed25519.PublicKey)
		c19NoPanic(r, name, func() {
			var (
				pi  []byte
				err error
			)
			switch c.N {
			case 0:
				pi = ecvrf.Prove(sk, a[0])
			case 1:
				pi = ecvrf.Prove_v10(sk, a[0])
			case 2:
				pi, err = ecvrf.ProveWithAddedRandomness(&c19Entropy{b: []byte{2, 7, 1, 8}}, sk, a[0])
			case 3:
				pi, err = ecvrf.ProveWithAddedRandomness_v10(&c19Entropy{b: []byte{2, 7, 1, 8}}, sk, a[0])
			}
			if err != nil || len(pi) != ecvrf.ProofSize {
				r.Fail(name+":no-proof-for-valid-input", "alpha-len=%d variant=%d err=%v len=%d", len(a[0]), c.N, err, len(pi))
				return
			}
			var (
				ok   bool
				beta []byte
			)
			if c.N&1 == 0 {
				ok, beta = ecvrf.Verify(pk, pi, a[0])
			} else {
				ok, beta = ecvrf.Verify_v10(pk, pi, a[0])
			}
			b2, err := ecvrf.ProofToHash(pi)
			if !ok || err != nil || !bytes.Equal(beta, b2) {
				r.Fail(name+":own-proof-rejected", "alpha-len=%d variant=%d ok=%v err=%v", len(a[0]), c.N, ok, err)
			}
		})
	}}
	R["sr25519.KeyPair.Sign(message,context)"] = c19Row{Nominal: [3]int{-2, -2, -1}, Run: func(c c19Case, a [3][]byte, r *h.R) {
		name := "sr25519.KeyPair.Sign"
		c19NoPanic(r, name, func() {
			msk, _ := sr25519.NewMiniSecretKeyFromBytes(c19Seeded(47, 32))
			kp := msk.ExpandUniform().KeyPair()
			sc := sr25519.NewSigningContext(a[1])
			sig, err := kp.Sign(&c19Entropy{b: []byte{1, 6, 1, 8}}, sc.NewTranscriptBytes(a[0]))
			if err != nil || sig == nil {
				r.Fail(name+":error-on-valid-input", "msg-len=%d ctx-len=%d err=%v", len(a[0]), len(a[1]), err)
				return
			}
			if !kp.PublicKey().Verify(sc.NewTranscriptBytes(a[0]), sig) {
				r.Fail(name+":own-signature-rejected", "msg-len=%d ctx-len=%d", len(a[0]), len(a[1]))
			}
		})
	}}

	// ------------------------------------------------------------------ ECVRF
	R["ecvrf.Verify"] = c19Row{Nominal: [3]int{32, 80, -2}, NMax: 1, Valid: func(seed uint64) [3][]byte {
		sk := ed25519.NewKeyFromSeed(c19Seeded(seed, 32))
		alpha := c19Seeded(seed+3, int(seed%50))
		return [3][]byte{sk[32:], ecvrf.Prove(sk, alpha), alpha}
	}, Run: func(c c19Case, a [3][]byte, r *h.R) {
		name := "ecvrf.Verify"
		c19NoPanic(r, name, func() {
			var ok bool
			var beta []byte
			if c.N&1 == 0 {
				ok, beta = ecvrf.Verify(a[0], a[1], a[2])
			} else {
				ok, beta = ecvrf.Verify_v10(a[0], a[1], a[2])
			}
			if !ok && beta != nil {
				r.Fail(name+":output-on-failure", "beta=%x", beta)
			}
			if ok && (len(a[0]) != 32 || len(a[1]) != 80) {
				r.Fail(name+":accepted-wrong-length", "pk-len=%d proof-len=%d", len(a[0]), len(a[1]))
			}
			if ok {
				b2, err := ecvrf.ProofToHash(a[1])
				if err != nil || !bytes.Equal(b2, beta) || len(beta) != 64 {
					r.Fail(name+":output-differs-from-ProofToHash", "err=%v", err)
				}
			}
		})
		c19NoPanic(r, "ecvrf.ProofToHash", func() {
			beta, err := ecvrf.ProofToHash(a[1])
			wantOK := len(a[1]) == 80
			if wantOK {
				di := ref.Decode(a[1][:32])
				wantOK = di.OK && di.Canonical && ref.FromLE(a[1][48:80]).Cmp(ref.L) < 0
			}
			if (err == nil) != wantOK || (err != nil && beta != nil) {
				r.Fail("ecvrf.ProofToHash:wrong-decision", "proof=%x err=%v want-ok=%v", a[1], err, wantOK)
			}
		})
	}}

	// ------------------------------------------------------------------ X25519
	R["x25519.X25519"] = c19Row{Nominal: [3]int{32, 32, -1}, NMax: 7, Run: func(c c19Case, a [3][]byte, r *h.R) {
		name := "x25519.X25519"
		point := a[1]
		switch c.N % 4 {
		case 1:
			// the point is a VIEW of the package's own Basepoint slice with the
			// length of the generated argument (same first element as the slice the
			// fixed-base fast path recognises, wrong length unless 32)
			if len(a[1]) <= 32 {
				point = x25519.Basepoint[:len(a[1])]
			}
		case 2:
			if len(a[1]) == 32 {
				point = x25519.Basepoint
			}
		}
		c19NoPanic(r, name, func() {
			out, err := x25519.X25519(a[0], point)
			if len(a[0]) != 32 || len(point) != 32 {
				if err == nil || out != nil {
					r.Fail(name+":accepted-wrong-length", "scalar-len=%d point-len=%d view-mode=%d", len(a[0]), len(point), c.N%4)
				}
				return
			}
			// error exactly for low-order points (all-zero shared secret), otherwise RFC 7748's value
			want := ref.X25519(a[0], point)
			if zero := bytes.Equal(want, make([]byte, 32)); (err != nil) != zero {
				r.Fail(name+":wrong-decision", "scalar=%x point=%x err=%v reference-output-all-zero=%v", a[0], point, err, zero)
				return
			}
			if err == nil && !bytes.Equal(out, want) {
				r.Fail(name+":wrong-output", "scalar=%x point=%x got=%x want=%x", a[0], point, out, want)
			}
			if err != nil && out != nil {
				r.Fail(name+":output-with-error", "")
			}
		})
		if !bytes.Equal(x25519.Basepoint, append([]byte{9}, make([]byte, 31)...)) {
			r.Fail("x25519.Basepoint:modified", "%x", x25519.Basepoint)
		}
	}}
	R["x25519.EdPublicKeyToX25519"] = c19Row{Nominal: [3]int{32, -1, -1}, Run: func(c c19Case, a [3][]byte, r *h.R) {
		name := "x25519.EdPublicKeyToX25519"
		c19NoPanic(r, name, func() {
			out, ok := x25519.EdPublicKeyToX25519(a[0])
			di := ref.Decode(a[0])
			want := len(a[0]) == 32 && di.OK
			if ok != want || (!ok && out != nil) {
				r.Fail(name+":wrong-decision", "pk=%x ok=%v want=%v", a[0], ok, want)
				return
			}
			if ok && !bytes.Equal(out, ref.FEncode(di.P.MontgomeryU())) {
				r.Fail(name+":wrong-u", "pk=%x got=%x", a[0], out)
			}
		})
	}}

	// ------------------------------------------------------------------ sr25519
	srMarked := func(seed uint64) [3][]byte {
		msk, _ := sr25519.NewMiniSecretKeyFromBytes(c19Seeded(seed, 32))
		kp := msk.ExpandUniform().KeyPair()
		st := sr25519.NewSigningContext([]byte("c19")).NewTranscriptBytes(c19Seeded(seed+1, 10))
		sig, err := kp.Sign(&c19Entropy{b: c19Seeded(seed+2, 32)}, st)
		if err != nil {
			panic(err)
		}
		sb, _ := sig.MarshalBinary()
		pb, _ := kp.PublicKey().MarshalBinary()
		kb, _ := kp.MarshalBinary()
		return [3][]byte{sb, pb, kb}
	}
	R["sr25519.Signature.UnmarshalBinary"] = c19Row{Nominal: [3]int{64, -1, -1}, Valid: srMarked, Run: func(c c19Case, a [3][]byte, r *h.R) {
		name := "sr25519.Signature.UnmarshalBinary"
		c19NoPanic(r, name, func() {
			good := srMarked(5)
			var sig sr25519.Signature
			if err := sig.UnmarshalBinary(good[0]); err != nil {
				r.Fail("harness:sr25519-good-signature-rejected", "%v", err)
				return
			}
			err := sig.UnmarshalBinary(a[0])
			want := len(a[0]) == 64 && a[0][63]&0x80 != 0
			if want {
				s := append([]byte(nil), a[0][32:]...)
				s[31] &= 0x7f
				want = ref.FromLE(s).Cmp(ref.L) < 0
			}
			if (err == nil) != want {
				r.Fail(name+":wrong-decision", "in=%x err=%v want-accept=%v", a[0], err, want)
				return
			}
			out, merr := sig.MarshalBinary()
			if merr != nil {
				r.Fail(name+":marshal-error", "%v", merr)
				return
			}
			if err == nil && !bytes.Equal(out, a[0]) {
				r.Fail(name+":roundtrip", "in=%x out=%x", a[0], out)
			}
			neutral := make([]byte, 64)
			neutral[63] = 0x80
			if err != nil && !bytes.Equal(out, neutral) {
				r.Fail(name+":receiver-not-reset-after-error", "in=%x receiver=%x", a[0], out)
			}
			s2, err2 := sr25519.NewSignatureFromBytes(a[0])
			if (err2 == nil) != want || (err2 != nil && s2 != nil) {
				r.Fail("sr25519.NewSignatureFromBytes:wrong-decision", "in=%x", a[0])
			}
		})
	}}
	R["sr25519.PublicKey.UnmarshalBinary"] = c19Row{Nominal: [3]int{32, -1, -1}, Run: func(c c19Case, a [3][]byte, r *h.R) {
		name := "sr25519.PublicKey.UnmarshalBinary"
		c19NoPanic(r, name, func() {
			good := srMarked(6)
			var pk sr25519.PublicKey
			if err := pk.UnmarshalBinary(good[1]); err != nil {
				r.Fail("harness:sr25519-good-public-key-rejected", "%v", err)
				return
			}
			err := pk.UnmarshalBinary(a[0])
			_, want := ref.RistDecode(a[0])
			if (err == nil) != want {
				r.Fail(name+":wrong-decision", "in=%x err=%v want-accept=%v", a[0], err, want)
				return
			}
			out, _ := pk.MarshalBinary()
			if err == nil && !bytes.Equal(out, a[0]) {
				r.Fail(name+":roundtrip", "in=%x out=%x", a[0], out)
			}
			if err != nil && !bytes.Equal(out, make([]byte, 32)) {
				r.Fail(name+":receiver-not-reset-after-error", "in=%x receiver=%x", a[0], out)
			}
			p2, err2 := sr25519.NewPublicKeyFromBytes(a[0])
			if (err2 == nil) != want || (err2 != nil && p2 != nil) {
				r.Fail("sr25519.NewPublicKeyFromBytes:wrong-decision", "in=%x", a[0])
			}
			// verification with whatever state the key is in must not panic
			var sig sr25519.Signature
			_ = sig.UnmarshalBinary(good[0])
			st := sr25519.NewSigningContext([]byte("c19")).NewTranscriptBytes([]byte("m"))
			if pk.Verify(st, &sig) && err != nil {
				r.Fail("sr25519.PublicKey.Verify:accepted-with-reset-key", "")
			}
		})
	}}
	R["sr25519.SecretKey.UnmarshalBinary"] = c19Row{Nominal: [3]int{64, -1, -1}, Run: func(c c19Case, a [3][]byte, r *h.R) {
		name := "sr25519.SecretKey.UnmarshalBinary"
		c19NoPanic(r, name, func() {
			msk, _ := sr25519.NewMiniSecretKeyFromBytes(c19Seeded(11, 32))
			sk := msk.ExpandUniform()
			before, _ := sk.MarshalBinary()
			err := sk.UnmarshalBinary(a[0])
			want := len(a[0]) == 64 && ref.FromLE(a[0][:32]).Cmp(ref.L) < 0
			if (err == nil) != want {
				r.Fail(name+":wrong-decision", "in=%x err=%v want-accept=%v", a[0], err, want)
				return
			}
			out, _ := sk.MarshalBinary()
			if err == nil && !bytes.Equal(out, a[0]) {
				r.Fail(name+":roundtrip", "in=%x out=%x", a[0], out)
			}
			if err != nil && !c19Kept(out, before, c19Zero64) {
				r.Fail(name+":receiver-modified-on-error", "in=%x", a[0])
			}
			s2, err2 := sr25519.NewSecretKeyFromBytes(a[0])
			if (err2 == nil) != want || (err2 != nil && s2 != nil) {
				r.Fail("sr25519.NewSecretKeyFromBytes:wrong-decision", "in=%x", a[0])
			}
			s3, err3 := sr25519.NewSecretKeyFromEd25519Bytes(a[0])
			want3 := len(a[0]) == 64 && a[0][0]&7 == 0 && a[0][31]&0xc0 == 0x40
			if (err3 == nil) != want3 || (err3 != nil && s3 != nil) {
				r.Fail("sr25519.NewSecretKeyFromEd25519Bytes:wrong-decision", "in=%x err=%v want-accept=%v", a[0], err3, want3)
			}
		})
	}}
	R["sr25519.MiniSecretKey.UnmarshalBinary"] = c19Row{Nominal: [3]int{32, -1, -1}, Run: func(c c19Case, a [3][]byte, r *h.R) {
		name := "sr25519.MiniSecretKey.UnmarshalBinary"
		c19NoPanic(r, name, func() {
			var msk sr25519.MiniSecretKey
			copy(msk[:], bytes.Repeat([]byte{0x5a}, 32))
			err := msk.UnmarshalBinary(a[0])
			if (err == nil) != (len(a[0]) == 32) {
				r.Fail(name+":wrong-length-decision", "len=%d", len(a[0]))
			}
			if err != nil && !c19Kept(msk[:], bytes.Repeat([]byte{0x5a}, 32), c19Zero32) {
				r.Fail(name+":receiver-modified-on-error", "")
			}
			m2, err2 := sr25519.NewMiniSecretKeyFromBytes(a[0])
			if (err2 == nil) != (len(a[0]) == 32) || (err2 != nil && m2 != nil) {
				r.Fail("sr25519.NewMiniSecretKeyFromBytes:wrong-decision", "len=%d", len(a[0]))
			}
		})
	}}
	R["sr25519.KeyPair.UnmarshalBinary"] = c19Row{Nominal: [3]int{96, -1, -1}, Valid: func(seed uint64) [3][]byte {
		g := srMarked(seed)
		return [3][]byte{g[2], nil, nil}
	}, Run: func(c c19Case, a [3][]byte, r *h.R) {
		name := "sr25519.KeyPair.UnmarshalBinary"
		c19NoPanic(r, name, func() {
			good := srMarked(8)
			var kp sr25519.KeyPair
			if err := kp.UnmarshalBinary(good[2]); err != nil {
				r.Fail("harness:sr25519-good-keypair-rejected", "%v", err)
				return
			}
			err := kp.UnmarshalBinary(a[0])
			want := len(a[0]) == 96 && ref.FromLE(a[0][:32]).Cmp(ref.L) < 0
			if want {
				p, ok := ref.RistDecode(a[0][64:])
				want = ok && ref.RistEqual(p, ref.MulBase(ref.FromLE(a[0][:32])))
			}
			if (err == nil) != want {
				r.Fail(name+":wrong-decision", "in=%x err=%v want-accept=%v", a[0], err, want)
				return
			}
			out, _ := kp.MarshalBinary()
			if err == nil && !bytes.Equal(out, a[0]) {
				r.Fail(name+":roundtrip", "in=%x out=%x", a[0], out)
			}
			if err != nil && (!bytes.Equal(out, make([]byte, 96)) || kp.SecretKey() != nil || kp.PublicKey() != nil) {
				r.Fail(name+":receiver-not-reset-after-error", "in=%x receiver=%x", a[0], out)
			}
			k2, err2 := sr25519.NewKeyPairFromBytes(a[0])
			if (err2 == nil) != want || (err2 != nil && k2 != nil) {
				r.Fail("sr25519.NewKeyPairFromBytes:wrong-decision", "in=%x", a[0])
			}
		})
	}}
	R["sr25519.verify-and-batch-with-untrusted-bytes"] = c19Row{Nominal: [3]int{64, 32, -2}, Valid: func(seed uint64) [3][]byte {
		g := srMarked(seed)
		return [3][]byte{g[0], g[1], c19Seeded(seed+1, 10)}
	}, Run: func(c c19Case, a [3][]byte, r *h.R) {
		name := "sr25519.Verify"
		c19NoPanic(r, name, func() {
			var sig sr25519.Signature
			var pk sr25519.PublicKey
			errS := sig.UnmarshalBinary(a[0])
			errP := pk.UnmarshalBinary(a[1])
			st := sr25519.NewSigningContext([]byte("c19")).NewTranscriptBytes(a[2])
			ok := pk.Verify(st, &sig)
			if ok && (errS != nil || errP != nil) {
				r.Fail(name+":accepted-undecodable-input", "sig-err=%v pk-err=%v", errS, errP)
			}
			bv := sr25519.NewBatchVerifier()
			bv.Add(&pk, st, &sig)
			// zero-value key and signature
			bv.Add(&sr25519.PublicKey{}, st, &sr25519.Signature{})
			all, valid := bv.Verify(&c19Entropy{b: []byte{3, 1, 4}})
			if len(valid) != 2 || valid[0] != ok || valid[1] || all {
				r.Fail("sr25519.BatchVerifier.Verify:disagrees-with-single", "single=%v batch=%v all=%v", ok, valid, all)
			}
			if bv.VerifyBatchOnly(&c19Entropy{b: []byte{3, 1, 4}}) {
				r.Fail("sr25519.BatchVerifier.VerifyBatchOnly:accepted-batch-with-invalid-entry", "")
			}
			if (&sr25519.PublicKey{}).Verify(st, &sig) {
				r.Fail(name+":zero-value-key-accepted", "")
			}
		})
	}}
	R["sr25519.NewTranscriptHash-digest-size"] = c19Row{Nominal: [3]int{-2, -1, -1}, NMax: 5, Run: func(c c19Case, a [3][]byte, r *h.R) {
		var hh hash.Hash
		switch c.N % 6 {
		case 0:
			hh = sha512.New()
		case 1:
			hh = sha512.New512_256()
		case 2:
			hh = crypto.SHA256.New()
		case 3:
			hh = crypto.SHA1.New()
		case 4:
			hh = sha512.New384()
		case 5:
			hh = crypto.MD5.New()
		}
		hh.Write(a[0])
		p, _ := h.Catch(func() { sr25519.NewSigningContext(a[0]).NewTranscriptHash(hh) })
		want := hh.Size() != 32 && hh.Size() != 64
		if p != want {
			r.Fail("sr25519.SigningContext.NewTranscriptHash:panic-not-as-documented", "digest-size=%d panicked=%v", hh.Size(), p)
		}
	}}

	// ------------------------------------------------------------------ h2c / merlin
	R["h2c.expand+suites"] = c19Row{Nominal: [3]int{-2, -2, -1}, NMax: 431, Run: func(c c19Case, a [3][]byte, r *h.R) {
		// a[0] = DST, a[1] = message, N selects the output length and hash
		lens := []int{0, 1, 31, 32, 33, 63, 64, 65, 127, 128, 129, 255 * 32, 255*32 + 1, 255 * 64, 255*64 + 1, 65535, 65536, 70000}
		n := lens[c.N%len(lens)]
		// every hash function linked into the binary (x/crypto/sha3 registers the
		// SHA-3 family: 136/104/72-byte blocks, i.e. wider and narrower than SHA-2's)
		var hashes []crypto.Hash
		for _, hc := range []crypto.Hash{crypto.SHA512, crypto.SHA256, crypto.SHA384, crypto.SHA512_256, crypto.SHA1, crypto.MD5,
			crypto.SHA3_256, crypto.SHA3_384, crypto.SHA3_512, crypto.SHA3_224, crypto.SHA224, crypto.SHA512_224} {
			if hc.Available() {
				hashes = append(hashes, hc)
			}
		}
		hf := hashes[(c.N/len(lens))%len(hashes)]
		out := make([]byte, n)
		c19NoPanic(r, "h2c.ExpandMessageXMD", func() {
			err := h2c.ExpandMessageXMD(out, hf, a[0], a[1])
			b := hf.Size()
			wantErr := b < 32 || n == 0 || n > 65535 || (n+b-1)/b > 255
			if (err != nil) != wantErr {
				r.Fail("h2c.ExpandMessageXMD:wrong-abort-decision", "hash=%v len=%d dst-len=%d err=%v want-error=%v", hf, n, len(a[0]), err, wantErr)
			}
		})
		c19NoPanic(r, "h2c.ExpandMessageXOF", func() {
			xof := sha3.NewShake128()
			if c.N&1 == 1 {
				xof = sha3.NewShake256()
			}
			err := h2c.ExpandMessageXOF(out, xof, a[0], a[1])
			wantErr := n == 0 || n > 65535
			if (err != nil) != wantErr {
				r.Fail("h2c.ExpandMessageXOF:wrong-abort-decision", "len=%d dst-len=%d err=%v want-error=%v", n, len(a[0]), err, wantErr)
			}
		})
		c19NoPanic(r, "h2c.suites", func() {
			if p, err := h2c.Edwards25519_XMD_SHA512_ELL2_RO(a[0], a[1]); err != nil || p == nil {
				r.Fail("h2c.Edwards25519_XMD_SHA512_ELL2_RO:error-on-valid-input", "%v", err)
			}
			if p, err := h2c.Edwards25519_XMD_SHA512_ELL2_NU(a[0], a[1]); err != nil || p == nil {
				r.Fail("h2c.Edwards25519_XMD_SHA512_ELL2_NU:error-on-valid-input", "%v", err)
			}
			p, err := h2c.Ristretto255_XMD_R255MAP_RO(hf, a[0], a[1])
			if (err != nil) != (hf.Size() < 32) || (err != nil && p != nil) {
				r.Fail("h2c.Ristretto255_XMD_R255MAP_RO:wrong-decision", "hash=%v err=%v", hf, err)
			}
			p2, err := h2c.Edwards25519_XMD_ELL2_RO(hf, a[0], a[1])
			if (err != nil) != (hf.Size() < 32) || (err != nil && p2 != nil) {
				r.Fail("h2c.Edwards25519_XMD_ELL2_RO:wrong-decision", "hash=%v err=%v", hf, err)
			}
			p3, err := h2c.Edwards25519_XMD_ELL2_NU(hf, a[0], a[1])
			if (err != nil) != (hf.Size() < 32) || (err != nil && p3 != nil) {
				r.Fail("h2c.Edwards25519_XMD_ELL2_NU:wrong-decision", "hash=%v err=%v", hf, err)
			}
			if _, err := h2c.Edwards25519_XOF_ELL2_RO(sha3.NewShake256(), a[0], a[1]); err != nil {
				r.Fail("h2c.Edwards25519_XOF_ELL2_RO:error-on-valid-input", "%v", err)
			}
			if _, err := h2c.Edwards25519_XOF_ELL2_NU(sha3.NewShake128(), a[0], a[1]); err != nil {
				r.Fail("h2c.Edwards25519_XOF_ELL2_NU:error-on-valid-input", "%v", err)
			}
			if _, err := h2c.Ristretto255_XOF_R255MAP_RO(sha3.NewShake256(), a[0], a[1]); err != nil {
				r.Fail("h2c.Ristretto255_XOF_R255MAP_RO:error-on-valid-input", "%v", err)
			}
		})
	}}
	R["merlin.operations"] = c19Row{Nominal: [3]int{-2, -2, -2}, NMax: 700, Run: func(c c19Case, a [3][]byte, r *h.R) {
		c19NoPanic(r, "merlin.Transcript", func() {
			t := merlin.NewTranscript(string(a[0]))
			t.AppendMessage(string(a[1]), a[2])
			out := make([]byte, c.N)
			t.ExtractBytes(out, string(a[1]))
			cl := t.Clone()
			cl.AppendMessage("", nil)
			rng, err := t.BuildRng().RekeyWithWitnessBytes(string(a[0]), a[2]).Finalize(&c19Entropy{b: []byte{1}})
			if err != nil {
				r.Fail("merlin.TranscriptRngBuilder.Finalize:error-with-working-reader", "%v", err)
				return
			}
			buf := make([]byte, c.N)
			if n, err := rng.Read(buf); err != nil || n != len(buf) {
				r.Fail("merlin.transcriptRng.Read:short-or-error", "n=%d err=%v", n, err)
			}
		})
	}}
}

var c19RowNames []string

func init() {
	for k := range c19Rows {
		c19RowNames = append(c19RowNames, k)
	}
	sort.Strings(c19RowNames)
}

func c19Content(t *rapid.T, n int, label string) ([]byte, string) {
	k := rapid.IntRange(0, 9).Draw(t, label+"_ck")
	switch {
	case n == 32 && k <= 2:
		return h.GenPointBytes(t, label)
	case n == 32 && k <= 4:
		return h.Bytes256(t, label)
	case k == 5:
		return make([]byte, n), "zeros"
	case k == 6:
		return bytes.Repeat([]byte{0xff}, n), "ones"
	case k == 7 && n >= 32:
		b := h.UniformBytes(t, n, label)
		pt, _ := h.GenPointBytes(t, label)
		off := rapid.SampledFrom([]int{0, n - 32}).Draw(t, label+"_off")
		copy(b[off:], pt)
		return b, "embedded-point"
	case k == 8 && n >= 32:
		b := h.UniformBytes(t, n, label)
		sc, _ := h.Bytes256(t, label)
		off := rapid.SampledFrom([]int{0, n - 32, (n - 32) / 2}).Draw(t, label+"_off")
		copy(b[off:], sc)
		if rapid.Bool().Draw(t, label+"_mark") {
			b[n-1] |= 0x80
		}
		return b, "embedded-scalar"
	default:
		return h.UniformBytes(t, n, label), "uniform"
	}
}

func c19Gen(t *rapid.T) c19Case {
	name := rapid.SampledFrom(c19RowNames).Draw(t, "row")
	row := c19Rows[name]
	c := c19Case{Row: name}
	if row.NMax > 0 {
		c.N = rapid.IntRange(0, row.NMax).Draw(t, "n")
	}
	var valid [3][]byte
	useValid := row.Valid != nil && rapid.IntRange(0, 2).Draw(t, "valid") > 0
	if useValid {
		valid = row.Valid(uint64(rapid.IntRange(0, 1<<20).Draw(t, "vseed")))
		c.Cls = append(c.Cls, "from-valid")
	}
	for i, nom := range row.Nominal {
		if nom == -1 {
			continue
		}
		c.Nil[i] = rapid.Bool().Draw(t, "nil")
		if useValid && valid[i] != nil {
			b := append([]byte(nil), valid[i]...)
			switch rapid.IntRange(0, 5).Draw(t, "mut") {
			case 0, 1: // keep
			case 2: // flip a bit
				if len(b) > 0 {
					bit := rapid.IntRange(0, 8*len(b)-1).Draw(t, "bit")
					b[bit/8] ^= 1 << uint(bit%8)
					c.Cls = append(c.Cls, "bitflip")
				}
			case 3: // truncate / extend
				n := h.HostileLen(t, len(b), "len")
				for len(b) < n {
					b = append(b, 0)
				}
				b = b[:n]
				c.Cls = append(c.Cls, "relength")
			case 4: // overwrite tail 32 bytes with a boundary scalar
				if len(b) >= 32 {
					sc, _ := h.Bytes256(t, "sc")
					copy(b[len(b)-32:], sc)
					c.Cls = append(c.Cls, "tail-scalar")
				}
			case 5: // overwrite head 32 bytes with a hostile point string
				if len(b) >= 32 {
					pt, _ := h.GenPointBytes(t, "pt")
					copy(b[:32], pt)
					c.Cls = append(c.Cls, "head-point")
				}
			}
			c.Args[i] = b
			continue
		}
		n := nom
		if nom == -2 {
			n = h.MsgLen(t, 600, "free")
		} else {
			n = h.HostileLen(t, nom, "len")
		}
		b, cls := c19Content(t, n, fmt.Sprintf("a%d", i))
		if len(b) != n { // generators returning fixed 32 bytes
			for len(b) < n {
				b = append(b, b...)
			}
			b = b[:n]
		}
		c.Args[i] = b
		if nom >= 0 && n != nom {
			c.Cls = append(c.Cls, "wrong-length")
		} else {
			c.Cls = append(c.Cls, cls)
		}
	}
	return c
}

func c19Check(c c19Case) h.Result {
	r := h.NewR().Class("row:" + c.Row).Class(c.Cls...)
	row, ok := c19Rows[c.Row]
	if !ok {
		return r.Fail("harness:unknown-row", "%s", c.Row).Result()
	}
	nt := false
	for i, nom := range row.Nominal {
		if nom >= 0 && len(c.Args[i]) != nom {
			nt = true
		}
	}
	for _, cl := range c.Cls {
		if cl != "uniform" && cl != "from-valid" {
			nt = true
		}
	}
	r.NT(nt)
	a := [3][]byte{c.arg(0), c.arg(1), c.arg(2)}
	saved := [3][]byte{append([]byte(nil), a[0]...), append([]byte(nil), a[1]...), append([]byte(nil), a[2]...)}
	r.Eval(1)
	row.Run(c, a, r)
	for i := range a {
		if row.Nominal[i] != -1 && !bytes.Equal(a[i], saved[i]) && c.Row != "scalar.Scalar.ToBytes" {
			r.Fail(c.Row+":input-slice-modified", "argument %d", i)
		}
		if !c19CanaryIntact(a[i]) {
			r.Fail(c.Row+":wrote-into-spare-capacity-of-input-slice", "argument %d (len %d): bytes behind len() of the caller's slice were overwritten", i, len(a[i]))
		}
	}
	return r.Result()
}

func TestC19Untrusted(t *testing.T) { h.Run(t, c19Gen, c19Check) }

// Every row is also driven exhaustively over all lengths 0..2n+2 with two
// fill patterns (the "all other lengths" part of the quantifier).
const c19FillValid = 0xaa // sweep mode: well-formed content resized to the swept length

type c19LenCase struct {
	Row  string `json:"row"`
	Arg  int    `json:"arg"`
	Len  int    `json:"len"`
	Fill byte   `json:"fill"`
	N    int    `json:"n"`
}

func c19LenCheck(lc c19LenCase) h.Result {
	row := c19Rows[lc.Row]
	c := c19Case{Row: lc.Row, N: lc.N, Cls: []string{"length-sweep"}}
	for i, nom := range row.Nominal {
		switch {
		case nom == -1:
		case i == lc.Arg && lc.Fill == c19FillValid:
			// well-formed content truncated or zero-extended to the swept length
			b := append([]byte(nil), row.Valid(3)[i]...)
			for len(b) < lc.Len {
				b = append(b, 0)
			}
			c.Args[i] = b[:lc.Len]
		case i == lc.Arg:
			c.Args[i] = bytes.Repeat([]byte{lc.Fill}, lc.Len)
		case row.Valid != nil && row.Valid(3)[i] != nil:
			c.Args[i] = row.Valid(3)[i]
		case nom >= 0:
			c.Args[i] = bytes.Repeat([]byte{0x02}, nom)
		default:
			c.Args[i] = []byte("abc")
		}
	}
	return c19Check(c)
}

func TestC19LengthSweep(t *testing.T) {
	var cases []c19LenCase
	for _, name := range c19RowNames {
		row := c19Rows[name]
		for i, nom := range row.Nominal {
			if nom < 0 {
				continue
			}
			for l := 0; l <= 2*nom+2; l++ {
				for _, f := range []byte{0x00, 0x01, 0xff, c19FillValid} {
					if f == c19FillValid && (row.Valid == nil || row.Valid(3)[i] == nil) {
						continue
					}
					cases = append(cases, c19LenCase{Row: name, Arg: i, Len: l, Fill: f, N: l % (row.NMax + 1)})
				}
			}
		}
	}
	h.RunList(t, cases, c19LenCheck)
}

var _ = big.NewInt

// Coverage-guided variant of the same property (thorough tier).
func FuzzC19Untrusted(f *testing.F) { h.Fuzz(f, c19Gen, c19Check) }
