//go:build verif

package zeroreader_test

// C06 — internal/zeroreader (backend independent; listed for completeness).

import (
	"testing"

	"github.com/oasisprotocol/curve25519-voi/internal/zeroreader"
	"pgregory.net/rapid"
	h "verifh"
)

func c06ZeroReaderOps() []h.DiffOp {
	return []h.DiffOp{
		{Name: "read", Weight: 1,
			Covers: []string{"ZeroReader.Read"},
			Gen:    func(t *rapid.T, c *h.DiffCase) { h.DiffMsg(t, c, 300, "buf") },
			Exec: func(a *h.DiffArgs, o *h.DiffOut) {
				buf := a.B()
				n, err := zeroreader.ZeroReader{}.Read(buf)
				o.Err("read", err)
				o.Int("n", int64(n))
				o.Bytes("buf", buf)
			}},
	}
}

func TestC06ZeroReader(t *testing.T) {
	h.RunDiffOps(t, "internal/zeroreader", h.DiffBackend(""), c06ZeroReaderOps())
}
