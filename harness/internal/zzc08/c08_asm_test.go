//go:build verif

// Package zzc08 exists only through the build overlay.  C08 layer 3: worker
// executed under valgrind/callgrind; the driver compares the self instruction
// counts of the leaf assembly routines between secrets.
package zzc08

import (
	"crypto/sha512"
	"encoding/hex"
	"os"
	"strings"
	"testing"

	"github.com/oasisprotocol/curve25519-voi/curve"
	"github.com/oasisprotocol/curve25519-voi/curve/scalar"
	"github.com/oasisprotocol/curve25519-voi/primitives/ed25519"
	"github.com/oasisprotocol/curve25519-voi/primitives/merlin"
	"github.com/oasisprotocol/curve25519-voi/primitives/x25519"
)

//go:noinline
func c08AsmMark(i int) int { return i + 1 }

var c08AsmSink int

func c08AsmOp(op string, pub, sec []byte) {
	sc := func(b []byte) *scalar.Scalar {
		c := append([]byte(nil), b[:32]...)
		c[31] &= 0x7f
		s, _ := scalar.NewFromBits(c)
		return s
	}
	switch op {
	case "ed25519.Sign":
		priv := ed25519.NewKeyFromSeed(sec[:32])
		_ = ed25519.Sign(priv, pub)
	case "x25519.ScalarMult":
		var dst, in, base [32]byte
		copy(in[:], sec)
		copy(base[:], pub)
		x25519.ScalarMult(&dst, &in, &base)
	case "x25519.ScalarBaseMult":
		var dst, in [32]byte
		copy(in[:], sec)
		x25519.ScalarBaseMult(&dst, &in)
	case "curve.EdwardsPoint.Mul":
		d := sha512.Sum512(pub)
		ps, _ := scalar.NewFromBytesModOrderWide(d[:])
		p := curve.NewEdwardsPoint().MulBasepoint(curve.ED25519_BASEPOINT_TABLE, ps)
		curve.NewEdwardsPoint().Mul(p, sc(sec))
	case "curve.EdwardsPoint.MulBasepoint":
		curve.NewEdwardsPoint().MulBasepoint(curve.ED25519_BASEPOINT_TABLE, sc(sec))
	case "curve.EdwardsPoint.MultiscalarMul":
		curve.NewEdwardsPoint().MultiscalarMul([]*scalar.Scalar{sc(sec), sc(sec[32:])}, []*curve.EdwardsPoint{curve.ED25519_BASEPOINT_POINT, curve.ED25519_BASEPOINT_POINT})
	case "merlin.witness":
		t := merlin.NewTranscript("c08")
		t.AppendMessage("pub", pub)
		t.AppendMessage("secret", sec)
		var out [64]byte
		t.ExtractBytes(out[:], "x")
	default:
		panic("unknown op " + op)
	}
}

// TestC08AsmWorker is not a test by itself: the driver runs it under
//
//	valgrind --tool=callgrind --dump-before='*c08AsmMark*' ...
//
// with C08_OP and C08_ITEMS="pubhex:sechex,pubhex:sechex,...".
func TestC08AsmWorker(t *testing.T) {
	items := os.Getenv("C08_ITEMS")
	if items == "" {
		t.Skip("worker: C08_ITEMS not set")
	}
	op := os.Getenv("C08_OP")
	// warm-up outside the measured regions (lazy initialisation)
	c08AsmOp(op, make([]byte, 32), make([]byte, 64))
	for i, it := range strings.Split(items, ",") {
		parts := strings.Split(it, ":")
		pub, _ := hex.DecodeString(parts[0])
		sec, _ := hex.DecodeString(parts[1])
		c08AsmSink += c08AsmMark(i) // region boundary: profile dump happens on entry
		c08AsmOp(op, pub, sec)
	}
	c08AsmSink += c08AsmMark(-1)
}
