//go:build verif && amd64 && !purego && gc

package strobe

// Same constraint as keccakf_amd64.go: this build links the assembly permutation.
const c13KeccakImpl = "amd64-asm"
