//go:build verif

package strobe

// C13 - the STROBE layer driven directly (in-package): AD / meta-AD with the
// `more` flag, KEY, PRF, Clone and plain value copies on a forest of Strobe
// objects, in lock-step with verifref.Strobe (byte-at-a-time duplex written
// from the STROBE v1.0.2 specification over a textbook Keccak-f[1600]); and
// the Keccak-f[1600] permutation that this build configuration links
// (amd64 assembly, or the Go implementation under purego) against the
// reference permutation on raw 200-byte states.

import (
	"bytes"
	"encoding/binary"
	"fmt"
	"strings"
	"testing"

	"pgregory.net/rapid"
	h "verifh"
	ref "verifref"
)

// ------------------------------------------------------- STROBE histories

type c13sOp struct {
	K    string    `json:"k"`           // new ad mad key prf clone copy uninit
	I    int       `json:"i,omitempty"` // object selector (mod number of live objects)
	D    h.C13Data `json:"d"`           // data / protocol string
	N    int       `json:"n,omitempty"` // prf length
	More bool      `json:"more,omitempty"`
	G    int       `json:"g,omitempty"` // garbage pre-filled into the PRF destination
}

type c13sCase struct {
	Ops []c13sOp `json:"ops"`
}

const (
	c13sFlagsAD   = byte(flagA)
	c13sFlagsMAD  = byte(flagA | flagM)
	c13sFlagsKEY  = byte(flagA | flagC)
	c13sFlagsPRF  = byte(flagI | flagA | flagC)
	c13sMaxObjs   = 6
	c13sProtoMax  = 40
	c13sFinalSize = 32
)

func c13sGenLen(t *rapid.T, p h.C13Pos, huge *int) int {
	if rapid.IntRange(0, 99).Draw(t, "daim") < 40 {
		return h.C13AimLen(t, "d", p.P, rapid.IntRange(-3, 2).Draw(t, "dk"))
	}
	n, cls := h.C13Len(t, "d", *huge > 0)
	if cls == "huge" {
		*huge--
	}
	return n
}

func c13sGen(t *rapid.T) c13sCase {
	var ops []c13sOp
	var pos []h.C13Pos
	var cur []byte
	huge := 0
	if rapid.IntRange(0, 15).Draw(t, "hugeok") == 0 {
		huge = 1
	}
	newS := func() {
		n := rapid.SampledFrom([]int{0, 1, 11, 18, 40, 163, 164, 165, 166, 167, 330}).Draw(t, "plen")
		ops = append(ops, c13sOp{K: "new", D: h.C13Content(t, "p", n)})
		var p h.C13Pos
		p.Begin(false)
		p.Absorb(n)
		pos = append(pos, p)
		cur = append(cur, c13sFlagsMAD)
	}
	newS()
	nops := rapid.IntRange(1, 30).Draw(t, "nops")
	for len(ops) < nops+1 {
		i := rapid.IntRange(0, len(pos)-1).Draw(t, "i")
		g := rapid.SampledFrom([]int{0, 0xff, 0xa5, 0x01}).Draw(t, "g")
		switch x := rapid.IntRange(0, 99).Draw(t, "op"); {
		case x < 56: // ad / mad
			k, fl := "ad", c13sFlagsAD
			if rapid.Bool().Draw(t, "meta") {
				k, fl = "mad", c13sFlagsMAD
			}
			more := false
			switch m := rapid.IntRange(0, 99).Draw(t, "more"); {
			case m < 40:
				// continue the current operation when that is legal; make it legal
				// most of the time by following the object's current flags
				if cur[i] == c13sFlagsAD || cur[i] == c13sFlagsMAD {
					fl = cur[i]
					k = map[byte]string{c13sFlagsAD: "ad", c13sFlagsMAD: "mad"}[fl]
					more = true
				}
			case m < 43:
				more = true // possibly illegal: documented panic
			}
			p := pos[i]
			if !more {
				p.Begin(false)
			}
			n := c13sGenLen(t, p, &huge)
			ops = append(ops, c13sOp{K: k, I: i, D: h.C13Content(t, "d", n), More: more, G: g})
			if more && cur[i] != fl {
				// object is dropped by the checker after the expected panic
				pos = append(pos[:i:i], pos[i+1:]...)
				cur = append(cur[:i:i], cur[i+1:]...)
				if len(pos) == 0 {
					newS()
				}
				continue
			}
			p.Absorb(n)
			pos[i], cur[i] = p, fl
		case x < 68:
			p := h.C13Pos{}
			n := c13sGenLen(t, p, &huge)
			ops = append(ops, c13sOp{K: "key", I: i, D: h.C13Content(t, "d", n), G: g})
			p.Absorb(n)
			pos[i], cur[i] = p, c13sFlagsKEY
		case x < 84:
			p := h.C13Pos{}
			n := c13sGenLen(t, p, &huge)
			ops = append(ops, c13sOp{K: "prf", I: i, N: n, G: g})
			p.Absorb(n)
			pos[i], cur[i] = p, c13sFlagsPRF
		case x < 97:
			if len(pos) >= c13sMaxObjs {
				continue
			}
			k := "clone"
			if rapid.IntRange(0, 2).Draw(t, "valcopy") == 0 {
				k = "copy"
			}
			ops = append(ops, c13sOp{K: k, I: i})
			pos = append(pos, pos[i])
			cur = append(cur, cur[i])
		case x < 99:
			if len(pos) >= c13sMaxObjs {
				continue
			}
			newS()
		default:
			ops = append(ops, c13sOp{K: "uninit"})
		}
	}
	return c13sCase{Ops: ops}
}

func c13sSel(i, n int) int {
	if i < 0 {
		i = -i
	}
	return i % n
}

// nil and empty slices are the same zero-length data
func c13sNilIfEmpty(b []byte, g int) []byte {
	if len(b) == 0 && g&1 == 1 {
		return nil
	}
	return b
}

func c13sShort(b []byte) string {
	if len(b) > 48 {
		return fmt.Sprintf("%x...(%d)", b[:48], len(b))
	}
	return fmt.Sprintf("%x", b)
}

func c13sCheck(c c13sCase) h.Result {
	r := h.NewR()
	var lib []*Strobe
	var mod []*ref.Strobe
	var cur []byte
	var ev ref.StrobeEvents
	clones, illegal, huge := 0, 0, 0
	note := func(e ref.StrobeEvents) {
		ev.FrameStraddle += e.FrameStraddle
		ev.FrameEndsBlock += e.FrameEndsBlock
		ev.ForcedFSkipped += e.ForcedFSkipped
		ev.DataStraddle += e.DataStraddle
		ev.DataEndsBlock += e.DataEndsBlock
		ev.ZeroLenData += e.ZeroLenData
	}
	drop := func(i int) {
		note(mod[i].Ev)
		lib = append(lib[:i:i], lib[i+1:]...)
		mod = append(mod[:i:i], mod[i+1:]...)
		cur = append(cur[:i:i], cur[i+1:]...)
	}
	for si, op := range c.Ops {
		if op.K == "new" {
			proto := op.D.Bytes()
			s := New(string(proto))
			lib = append(lib, &s)
			mod = append(mod, ref.NewStrobe(proto))
			cur = append(cur, c13sFlagsMAD)
			continue
		}
		if op.K == "uninit" {
			// documented by the panic message: operations on a Strobe that did not
			// come from New are refused
			r.Eval(1)
			var z Strobe
			if p, _ := h.Catch(func() { z.AD([]byte{1}, false) }); !p {
				r.Fail("strobe.operate:uninitialized-state-accepted", "step %d", si)
			}
			continue
		}
		if len(lib) == 0 {
			continue
		}
		i := c13sSel(op.I, len(lib))
		if op.D.N >= 65536 || op.N >= 65536 {
			huge++
		}
		switch op.K {
		case "ad", "mad":
			fl := c13sFlagsAD
			if op.K == "mad" {
				fl = c13sFlagsMAD
			}
			data := c13sNilIfEmpty(op.D.Bytes(), op.G)
			call := func() {
				if op.K == "ad" {
					lib[i].AD(data, op.More)
				} else {
					lib[i].MetaAD(data, op.More)
				}
			}
			if op.More && cur[i] != fl {
				// STROBE: `more` continues the current operation, the flags must match
				illegal++
				r.Eval(1)
				p, v := h.Catch(call)
				if !p {
					r.Fail("strobe.operate:more-with-different-flags-accepted", "step %d flags %#x current %#x", si, fl, cur[i])
				} else if !strings.Contains(fmt.Sprint(v), "flag mismatch") {
					r.Fail("strobe.operate:more-with-different-flags-other-panic", "step %d panic %v", si, v)
				}
				drop(i)
				continue
			}
			call()
			if !bytes.Equal(data, op.D.Bytes()) {
				r.Fail("strobe."+strings.ToUpper(op.K)+":modified-input", "step %d", si)
			}
			mod[i].Operate(fl, op.D.Bytes(), 0, op.More)
			cur[i] = fl
		case "key":
			data := c13sNilIfEmpty(op.D.Bytes(), op.G)
			lib[i].KEY(data)
			// "side-effects are rude": the caller's key material is not modified
			if !bytes.Equal(data, op.D.Bytes()) {
				r.Fail("strobe.KEY:modified-input", "step %d", si)
			}
			mod[i].KEY(op.D.Bytes(), false)
			cur[i] = c13sFlagsKEY
		case "prf":
			n := op.N
			if n < 0 {
				n = -n
			}
			dest := c13sNilIfEmpty(bytes.Repeat([]byte{byte(op.G)}, n), op.G)
			lib[i].PRF(dest)
			want := mod[i].PRF(n, false)
			r.Eval(1)
			if !bytes.Equal(dest, want) {
				r.Fail("strobe.PRF:differs-from-spec", "step %d (%d bytes): got %s want %s", si, n, c13sShort(dest), c13sShort(want))
			}
			cur[i] = c13sFlagsPRF
		case "clone", "copy":
			clones++
			if op.K == "clone" {
				lib = append(lib, lib[i].Clone())
			} else {
				// "All the sub-fields are naively copy-able" (and merlin relies on it)
				cp := *lib[i]
				lib = append(lib, &cp)
			}
			mod = append(mod, mod[i].Clone())
			cur = append(cur, cur[i])
		}
	}
	// final sweep: every live object (all branches) must be where the model is
	for i := range lib {
		dest := bytes.Repeat([]byte{0x5a}, c13sFinalSize)
		lib[i].PRF(dest)
		want := mod[i].PRF(c13sFinalSize, false)
		r.Eval(1)
		if !bytes.Equal(dest, want) {
			r.Fail("strobe.PRF:differs-from-spec", "final sweep object %d: got %x want %x", i, dest, want)
		}
		note(mod[i].Ev)
	}
	flag := func(b bool, name string) {
		if b {
			r.Class(name)
		}
	}
	flag(ev.FrameStraddle > 0, "ev:boundary-between-framing-bytes")
	flag(ev.FrameEndsBlock > 0, "ev:framing-ends-block")
	flag(ev.ForcedFSkipped > 0, "ev:C-op-framing-ends-block(no forced F)")
	flag(ev.DataStraddle > 0, "ev:boundary-inside-data")
	flag(ev.DataEndsBlock > 0, "ev:data-ends-block")
	flag(ev.ZeroLenData > 0, "has:empty-data")
	flag(clones > 0, "has:clone/copy")
	flag(illegal > 0, "has:illegal-more")
	flag(huge > 0, "has:len>=65536")
	r.NT(ev.FrameStraddle+ev.FrameEndsBlock+ev.DataStraddle+ev.DataEndsBlock > 0 || clones > 0)
	return r.Result()
}

func TestC13StrobeOps(t *testing.T) {
	h.SetExtra(t, "keccak_impl", c13KeccakImpl)
	h.Run(t, c13sGen, c13sCheck)
}

// ------------------------------------------------ Keccak-f[1600] raw states

type c13kCase struct {
	Kind string `json:"kind"`
	St   h.Hex  `json:"st"`   // 200 bytes
	Off  int    `json:"off"`  // placement of the state inside a guarded buffer (multiple of 8)
	Iter int    `json:"iter"` // number of successive applications
}

func c13kGen(t *rapid.T) c13kCase {
	st := make([]byte, 200)
	kind := rapid.SampledFrom([]string{"uniform", "lanes", "uniform", "bit", "2bits", "byte", "lane", "samelanes", "dense", "uniform", "ones", "zero"}).Draw(t, "kind")
	switch kind {
	case "zero":
	case "ones":
		for i := range st {
			st[i] = 0xff
		}
	case "bit", "2bits":
		n := 1
		if kind == "2bits" {
			n = 2
		}
		for ; n > 0; n-- {
			b := rapid.IntRange(0, 1599).Draw(t, "bit")
			st[b/8] ^= 1 << uint(b%8)
		}
	case "byte":
		st[rapid.IntRange(0, 199).Draw(t, "at")] = byte(rapid.IntRange(1, 255).Draw(t, "v"))
	case "lane":
		l := rapid.IntRange(0, 24).Draw(t, "lane")
		copy(st[8*l:8*l+8], h.UniformBytes(t, 8, "v"))
	case "lanes":
		rnd := h.UniformBytes(t, 200, "v")
		mask := rapid.Uint32().Draw(t, "mask")
		for l := 0; l < 25; l++ {
			if mask>>uint(l)&1 == 1 {
				copy(st[8*l:8*l+8], rnd[8*l:])
			}
		}
	case "samelanes":
		v := h.UniformBytes(t, 8, "v")
		for l := 0; l < 25; l++ {
			copy(st[8*l:], v)
		}
	case "dense":
		for i := range st {
			st[i] = 0xff
		}
		for n := rapid.IntRange(1, 4).Draw(t, "n"); n > 0; n-- {
			b := rapid.IntRange(0, 1599).Draw(t, "bit")
			st[b/8] &^= 1 << uint(b%8)
		}
	default:
		copy(st, h.UniformBytes(t, 200, "v"))
	}
	return c13kCase{Kind: kind, St: st, Off: 8 * rapid.IntRange(0, 7).Draw(t, "off"),
		Iter: rapid.SampledFrom([]int{1, 1, 1, 2, 3, 5}).Draw(t, "iter")}
}

func c13kCheck(c c13kCase) h.Result {
	r := h.NewR().Class("state:"+c.Kind, "impl:"+c13KeccakImpl)
	if len(c.St) != 200 {
		return r.Fail("harness:bad-case", "state length %d", len(c.St)).Result()
	}
	iter := c.Iter
	if iter < 1 {
		iter = 1
	}
	if iter > 64 {
		iter = 64
	}
	off := (c.Off & 0x38)
	r.NT(!bytes.Equal(c.St, make([]byte, 200)))

	var want [200]byte
	copy(want[:], c.St)
	for i := 0; i < iter; i++ {
		ref.KeccakF1600(&want)
	}

	// byte-state entry point (what Strobe.runF calls), state placed inside a
	// guarded buffer: nothing outside the 200 bytes may be touched
	const guard = 64
	buf := bytes.Repeat([]byte{0xa5}, guard+64+200+guard)
	copy(buf[guard+off:], c.St)
	stp := (*[constN]byte)(buf[guard+off : guard+off+200])
	for i := 0; i < iter; i++ {
		keccakF1600Bytes(stp)
	}
	r.Eval(1)
	if !bytes.Equal(stp[:], want[:]) {
		r.Fail("strobe.keccakF1600Bytes:differs-from-FIPS202", "impl=%s iter=%d in=%x got=%x want=%x", c13KeccakImpl, iter, []byte(c.St), stp[:], want[:])
	}
	for i, b := range buf {
		if (i < guard+off || i >= guard+off+200) && b != 0xa5 {
			r.Fail("strobe.keccakF1600Bytes:wrote-outside-state", "impl=%s byte %d relative to state start", c13KeccakImpl, i-guard-off)
			break
		}
	}

	// lane entry point
	var a [26]uint64 // one guard word
	a[25] = 0xa5a5a5a5a5a5a5a5
	for i := 0; i < 25; i++ {
		a[i] = binary.LittleEndian.Uint64(c.St[8*i:])
	}
	for i := 0; i < iter; i++ {
		keccakF1600((*[25]uint64)(a[:25]))
	}
	r.Eval(1)
	for i := 0; i < 25; i++ {
		if a[i] != binary.LittleEndian.Uint64(want[8*i:]) {
			r.Fail("strobe.keccakF1600:differs-from-FIPS202", "impl=%s iter=%d in=%x lane %d got=%016x want=%016x", c13KeccakImpl, iter, []byte(c.St), i, a[i], binary.LittleEndian.Uint64(want[8*i:]))
			break
		}
	}
	if a[25] != 0xa5a5a5a5a5a5a5a5 {
		r.Fail("strobe.keccakF1600:wrote-outside-state", "impl=%s", c13KeccakImpl)
	}
	return r.Result()
}

func TestC13Keccak(t *testing.T) {
	h.SetExtra(t, "keccak_impl", c13KeccakImpl)
	h.Run(t, c13kGen, c13kCheck)
}

// TestC13KeccakBits enumerates every single-bit state, every single-0xff-byte
// state, the all-zero and the all-one state (exhaustive for those classes).
func TestC13KeccakBits(t *testing.T) {
	h.SetExtra(t, "keccak_impl", c13KeccakImpl)
	var cases []c13kCase
	mk := func(kind string, f func(st []byte)) {
		st := make([]byte, 200)
		f(st)
		cases = append(cases, c13kCase{Kind: kind, St: st, Off: 8 * (len(cases) % 8), Iter: 1})
	}
	mk("zero", func([]byte) {})
	mk("ones", func(st []byte) {
		for i := range st {
			st[i] = 0xff
		}
	})
	for b := 0; b < 1600; b++ {
		b := b
		mk("bit", func(st []byte) { st[b/8] = 1 << uint(b%8) })
	}
	for i := 0; i < 200; i++ {
		i := i
		mk("byte", func(st []byte) { st[i] = 0xff })
	}
	h.RunList(t, cases, c13kCheck)
}

// The same STROBE programs and Keccak inputs, four at a time, one goroutine
// each (h.RunPar): the permutation and the duplex code keep no hidden shared
// state (a package-level temporary in one Keccak implementation was a seeded
// defect; C18 reaches it through transcripts, this reaches it directly).
func TestC13ParStrobeOps(t *testing.T) { h.RunPar(t, 4, c13sGen, c13sCheck) }
func TestC13ParKeccak(t *testing.T)    { h.RunPar(t, 4, c13kGen, c13kCheck) }
