//go:build verif

package strobe

// C06 — all arithmetic backends are observationally identical: internal/strobe
// and the raw Keccak-f[1600] permutation entry points (keccakF1600 /
// keccakF1600Bytes exist under the same names in the assembly and the
// pure-Go build, hence in-package).

import (
	"encoding/binary"
	"fmt"
	"testing"

	"pgregory.net/rapid"
	h "verifh"
)

func c06GenState(t *rapid.T, c *h.DiffCase) {
	st := make([]byte, 200)
	switch rapid.IntRange(0, 7).Draw(t, "sk") {
	case 0: // all zero
	case 1:
		for i := range st {
			st[i] = 0xff
		}
	case 2: // single bit
		bit := rapid.IntRange(0, 1599).Draw(t, "bit")
		st[bit/8] = 1 << uint(bit%8)
	case 3: // single lane
		lane := rapid.IntRange(0, 24).Draw(t, "lane")
		copy(st[8*lane:], h.UniformBytes(t, 8, "lanev"))
	case 4: // all but one bit
		for i := range st {
			st[i] = 0xff
		}
		bit := rapid.IntRange(0, 1599).Draw(t, "bit")
		st[bit/8] ^= 1 << uint(bit%8)
	default:
		copy(st, h.UniformBytes(t, 200, "st"))
	}
	c.PutB(st)
}

var c06StrobeKinds = []string{"AD", "MetaAD", "KEY", "PRF", "Clone", "AD+more", "MetaAD+more"}

func c06StrobeOps() []h.DiffOp {
	return []h.DiffOp{
		{Name: "keccakf1600", Weight: 3,
			Covers: []string{"(unexported)keccakF1600", "(unexported)keccakF1600Bytes"},
			Gen: func(t *rapid.T, c *h.DiffCase) {
				c06GenState(t, c)
				c.PutN(rapid.IntRange(1, 3).Draw(t, "n"))
			},
			Exec: func(a *h.DiffArgs, o *h.DiffOut) {
				var st [25 * 8]byte
				copy(st[:], a.B())
				var lanes [25]uint64
				for i := range lanes {
					lanes[i] = binary.LittleEndian.Uint64(st[8*i:])
				}
				n := a.N()
				for i := 0; i < n && i < 8; i++ {
					keccakF1600Bytes(&st)
					keccakF1600(&lanes)
					o.Bytes("bytes", st[:])
				}
				var lb [200]byte
				for i := range lanes {
					binary.LittleEndian.PutUint64(lb[8*i:], lanes[i])
				}
				o.Bytes("lanes", lb[:])
			}},
		{Name: "strobe", Weight: 5,
			Covers: []string{"New", "Strobe.AD", "Strobe.MetaAD", "Strobe.KEY", "Strobe.PRF", "Strobe.Clone"},
			Gen: func(t *rapid.T, c *h.DiffCase) {
				c.PutB(h.Msg(t, 200, "proto"))
				n := rapid.IntRange(1, 10).Draw(t, "steps")
				c.PutN(n)
				last := ""
				for i := 0; i < n; i++ {
					k := rapid.IntRange(0, len(c06StrobeKinds)-1).Draw(t, "kind")
					name := c06StrobeKinds[k]
					// "more" continues the previous operation and is only legal after the same kind
					// (anything else panics by design); decided here from the program alone.
					if name == "AD+more" && last != "AD" {
						k, name = 0, "AD"
					}
					if name == "MetaAD+more" && last != "MetaAD" {
						k, name = 1, "MetaAD"
					}
					c.PutN(k)
					switch name {
					case "PRF":
						c.PutN(h.MsgLen(t, 500, "prflen"))
					case "Clone":
					default:
						c.PutB(h.Msg(t, 500, "data"))
					}
					switch name {
					case "AD", "AD+more":
						last = "AD"
					case "MetaAD", "MetaAD+more":
						last = "MetaAD"
					case "Clone":
					default:
						last = name
					}
				}
			},
			Exec: func(a *h.DiffArgs, o *h.DiffOut) {
				s := New(string(a.B()))
				st := &s
				n := a.N()
				var clones []*Strobe
				for i := 0; i < n && i < 32; i++ {
					k := a.N()
					if k < 0 || k >= len(c06StrobeKinds) {
						k = 0
					}
					switch c06StrobeKinds[k] {
					case "AD":
						st.AD(a.B(), false)
					case "AD+more":
						st.AD(a.B(), true)
					case "MetaAD":
						st.MetaAD(a.B(), false)
					case "MetaAD+more":
						st.MetaAD(a.B(), true)
					case "KEY":
						key := a.B()
						keyCopy := append([]byte{}, key...)
						st.KEY(key)
						o.Bool("key.untouched", string(key) == string(keyCopy))
					case "PRF":
						l := a.N()
						if l < 0 || l > 4096 {
							l = 32
						}
						dest := make([]byte, l)
						for j := range dest {
							dest[j] = 0xa5 // PRF must ignore previous contents
						}
						st.PRF(dest)
						o.Bytes("prf", dest)
					case "Clone":
						clones = append(clones, st.Clone())
					}
				}
				var fin [32]byte
				st.PRF(fin[:])
				o.Bytes("final", fin[:])
				for _, cl := range clones {
					cl.PRF(fin[:])
					o.Bytes("clone", fin[:])
				}
			}},
	}
}

func TestC06Strobe(t *testing.T) {
	// which permutation is linked is decided by build constraints only: amd64 && !purego && gc -> assembly
	impl := "keccakf=asm(amd64)"
	if h.DiffBuildTags() == "purego" || h.DiffBuildTags() == "purego,force32bit" {
		impl = "keccakf=go"
	}
	h.RunDiffOps(t, "internal/strobe", h.DiffBackend(fmt.Sprint(impl)), c06StrobeOps())
}
