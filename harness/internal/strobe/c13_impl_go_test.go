//go:build verif && (!amd64 || purego || !gc)

package strobe

// Same constraint as keccakf.go: this build links the Go permutation.
const c13KeccakImpl = "go"
