//go:build verif

package field

// C06 — all arithmetic backends are observationally identical: internal/field.
// Raw limbs are backend specific, so the workload enters through
// SetBytes/SetBytesWide (and, for the raw-limb constructors, through a value
// that each backend splits into its own limbs), runs generated register
// programs over the exported operations and compares canonical ToBytes
// outputs.  The interpreter tracks a representation weight per register
// (1 = output of a reducing operation, Add sums the weights) and applies an
// operation only when the weight is within the tightest documented headroom
// of all backends (32-bit: limbs below 2^(26|25 + 1.75), i.e. weight <= 3),
// so that no backend is ever driven outside its documented precondition.

import (
	"fmt"
	"testing"

	"pgregory.net/rapid"
	h "verifh"
	ref "verifref"
)

const (
	c06FeRegs = 6
	c06MaxW   = 3
)

var c06FeOpNames = []string{"add", "sub", "neg", "mul", "square", "square2", "pow2k", "mul121666", "invert", "sqrtratio", "invsqrt",
	"select", "swap", "assign", "cneg", "set", "zero", "one", "minusone", "batchinvert", "equal", "addself"}

func c06FeBytes(o *h.DiffOut, tag string, fe *Element) {
	var b [ElementSize]byte
	o.Err(tag, fe.ToBytes(b[:]))
	o.Bytes(tag, b[:])
}

func c06FeGenInput(t *rapid.T, c *h.DiffCase, label string) {
	switch rapid.IntRange(0, 7).Draw(t, label+"_k") {
	case 0: // p + small / p - small
		v := ref.FromLE(nil)
		v.Add(ref.P, ref.FromLE([]byte{byte(rapid.IntRange(0, 18).Draw(t, label+"_e"))}))
		if rapid.Bool().Draw(t, label+"_below") {
			v.Sub(ref.P, ref.FromLE([]byte{byte(rapid.IntRange(1, 40).Draw(t, label+"_e2"))}))
		}
		b := ref.ToLE(v, 32)
		if rapid.Bool().Draw(t, label+"_hi") {
			b[31] |= 0x80
		}
		c.PutB(b)
	case 1: // all limbs saturated in both radices: 2^255-1 .. and friends
		b := make([]byte, 32)
		for i := range b {
			b[i] = 0xff
		}
		b[0] = byte(rapid.IntRange(0xda, 0xff).Draw(t, label+"_b0"))
		if rapid.Bool().Draw(t, label+"_clr") {
			b[31] = 0x7f
		}
		c.PutB(b)
	default:
		h.DiffBytes32(t, c, label)
	}
}

func c06FieldOps() []h.DiffOp {
	return []h.DiffOp{
		{Name: "program", Weight: 12,
			Covers: []string{"Element.Add", "Element.Sub", "Element.Neg", "Element.Mul", "Element.Square", "Element.Square2", "Element.Pow2k",
				"Element.Mul121666", "Element.Invert", "Element.SqrtRatioI", "Element.InvSqrt", "Element.ConditionalSelect",
				"Element.ConditionalSwap", "Element.ConditionalAssign", "Element.ConditionalNegate", "Element.Set", "Element.Zero",
				"Element.One", "Element.MinusOne", "BatchInvert", "Element.Equal", "Element.IsNegative", "Element.IsZero",
				"Element.SetBytes", "Element.SetBytesWide", "Element.ToBytes"},
			Gen: func(t *rapid.T, c *h.DiffCase) {
				for i := 0; i < c06FeRegs-1; i++ {
					c06FeGenInput(t, c, fmt.Sprintf("r%d", i))
				}
				// last register from a 64-byte wide string
				lo, _ := h.Bytes256(t, "wlo")
				hi, _ := h.Bytes256(t, "whi")
				c.PutB(append(lo, hi...))
				n := rapid.IntRange(1, 24).Draw(t, "steps")
				c.PutN(n)
				for i := 0; i < n; i++ {
					c.PutN(rapid.IntRange(0, len(c06FeOpNames)-1).Draw(t, "opc"))
					c.PutN(rapid.IntRange(0, c06FeRegs-1).Draw(t, "d"))
					c.PutN(rapid.IntRange(0, c06FeRegs-1).Draw(t, "a"))
					c.PutN(rapid.IntRange(0, c06FeRegs-1).Draw(t, "b"))
					k := rapid.IntRange(0, 9).Draw(t, "kk")
					if k == 9 {
						k = rapid.IntRange(1, 260).Draw(t, "kbig")
					}
					c.PutN(k)
				}
			},
			Exec: func(a *h.DiffArgs, o *h.DiffOut) {
				var r [c06FeRegs]Element
				var w [c06FeRegs]int
				for i := 0; i < c06FeRegs-1; i++ {
					_, err := r[i].SetBytes(a.B())
					o.Err("setbytes", err)
					if err != nil {
						r[i].One()
					}
					w[i] = 1
				}
				if _, err := r[c06FeRegs-1].SetBytesWide(a.B()); err != nil {
					o.Err("setbyteswide", err)
					r[c06FeRegs-1].One()
				}
				w[c06FeRegs-1] = 1
				n := a.N()
				mod := func(x, m int) int { return ((x % m) + m) % m }
				for s := 0; s < n && s < 64; s++ {
					opc, d, x, y, k := mod(a.N(), len(c06FeOpNames)), mod(a.N(), c06FeRegs), mod(a.N(), c06FeRegs), mod(a.N(), c06FeRegs), mod(a.N(), 261)
					name := c06FeOpNames[opc]
					switch name {
					case "add":
						if w[x]+w[y] > c06MaxW {
							continue
						}
						r[d].Add(&r[x], &r[y])
						w[d] = w[x] + w[y]
					case "addself": // receiver aliases both operands
						if 2*w[d] > c06MaxW {
							continue
						}
						r[d].Add(&r[d], &r[d])
						w[d] = 2 * w[d]
					case "sub":
						r[d].Sub(&r[x], &r[y])
						w[d] = 1
					case "neg":
						r[d].Neg(&r[x])
						w[d] = 1
					case "mul":
						r[d].Mul(&r[x], &r[y])
						w[d] = 1
					case "square":
						r[d].Square(&r[x])
						w[d] = 1
					case "square2":
						if w[x] > 2 {
							continue
						}
						r[d].Square2(&r[x])
						w[d] = 1
					case "pow2k":
						if k == 0 {
							k = 1
						}
						r[d].Pow2k(&r[x], uint(k))
						w[d] = 1
					case "mul121666":
						r[d].Mul121666(&r[x])
						w[d] = 1
					case "invert":
						r[d].Invert(&r[x])
						w[d] = 1
					case "sqrtratio":
						_, ok := r[d].SqrtRatioI(&r[x], &r[y])
						o.Int("sqrtratio.ok", int64(ok))
						w[d] = 1
					case "invsqrt":
						t := r[x]
						_, ok := t.InvSqrt()
						o.Int("invsqrt.ok", int64(ok))
						r[d] = t
						w[d] = 1
					case "select":
						r[d].ConditionalSelect(&r[x], &r[y], k&1)
						if k&1 == 0 {
							w[d] = w[x]
						} else {
							w[d] = w[y]
						}
					case "swap":
						if d == x {
							continue
						}
						r[d].ConditionalSwap(&r[x], k&1)
						if k&1 == 1 {
							w[d], w[x] = w[x], w[d]
						}
						c06FeBytes(o, "swap.other", &r[x])
					case "assign":
						r[d].ConditionalAssign(&r[x], k&1)
						if k&1 == 1 {
							w[d] = w[x]
						}
					case "cneg":
						r[d].ConditionalNegate(k & 1)
						if k&1 == 1 {
							w[d] = 1
						}
					case "set":
						r[d].Set(&r[x])
						w[d] = w[x]
					case "zero":
						r[d].Zero()
						w[d] = 1
					case "one":
						r[d].One()
						w[d] = 1
					case "minusone":
						r[d].MinusOne()
						w[d] = 1
					case "batchinvert":
						// distinct registers d, x, y (BatchInvert works in place)
						set := []*Element{&r[d]}
						if x != d {
							set = append(set, &r[x])
						}
						if y != d && y != x {
							set = append(set, &r[y])
						}
						BatchInvert(set)
						// zero inputs are left untouched, the others are Mul outputs
						for _, i := range []int{d, x, y} {
							if r[i].IsZero() != 1 {
								w[i] = 1
							}
						}
						c06FeBytes(o, "bi.x", &r[x])
						c06FeBytes(o, "bi.y", &r[y])
					case "equal":
						o.Int("equal", int64(r[x].Equal(&r[y])))
						continue
					}
					o.Bytes("op", []byte(name))
					c06FeBytes(o, "d", &r[d])
				}
				for i := range r {
					c06FeBytes(o, "final", &r[i])
					o.Int("neg", int64(r[i].IsNegative()))
					o.Int("zero", int64(r[i].IsZero()))
					o.Bytes("inner", c06InnerValue(&r[i]))
				}
			}},
		{Name: "unary", Weight: 6,
			Covers: []string{"Element.SetBytes", "Element.ToBytes", "Element.Mul", "Element.Square", "Element.Square2", "Element.Neg", "Element.Invert",
				"Element.InvSqrt", "Element.Mul121666", "Element.Pow2k", "Element.IsNegative", "Element.IsZero", "Element.SqrtRatioI", "Element.Sub", "Element.Add"},
			Gen: func(t *rapid.T, c *h.DiffCase) {
				c06FeGenInput(t, c, "x")
				c06FeGenInput(t, c, "y")
			},
			Exec: func(a *h.DiffArgs, o *h.DiffOut) {
				var x, y, z Element
				_, err := x.SetBytes(a.B())
				o.Err("x", err)
				_, err = y.SetBytes(a.B())
				o.Err("y", err)
				if err != nil {
					return
				}
				c06FeBytes(o, "x", &x)
				c06FeBytes(o, "mul", z.Mul(&x, &y))
				c06FeBytes(o, "sq", z.Square(&x))
				c06FeBytes(o, "sq2", z.Square2(&x))
				c06FeBytes(o, "neg", z.Neg(&x))
				c06FeBytes(o, "sub", z.Sub(&x, &y))
				c06FeBytes(o, "add", z.Add(&x, &y))
				c06FeBytes(o, "addmul", z.Mul(&z, &z))
				c06FeBytes(o, "inv", z.Invert(&x))
				c06FeBytes(o, "m121666", z.Mul121666(&x))
				c06FeBytes(o, "pow2k", z.Pow2k(&x, 3))
				_, ok := z.SqrtRatioI(&x, &y)
				c06FeBytes(o, "sqrtratio", &z)
				o.Int("sqrtratio.ok", int64(ok))
				z.Set(&x)
				_, ok = z.InvSqrt()
				c06FeBytes(o, "invsqrt", &z)
				o.Int("invsqrt.ok", int64(ok))
				o.Int("isneg", int64(x.IsNegative()))
				o.Int("iszero", int64(x.IsZero()))
			}},
		{Name: "decode", Weight: 3,
			Covers: []string{"Element.SetBytes", "Element.SetBytesWide", "Element.ToBytes"},
			Gen: func(t *rapid.T, c *h.DiffCase) {
				if rapid.IntRange(0, 3).Draw(t, "hostile") == 0 {
					h.DiffSized(t, c, 32, "narrow")
					h.DiffSized(t, c, 64, "wide")
				} else {
					c06FeGenInput(t, c, "narrow")
					switch rapid.IntRange(0, 3).Draw(t, "wk") {
					case 0: // h2c shape: 48 big-endian bytes, reversed and zero extended
						b := make([]byte, 64)
						copy(b, h.UniformBytes(t, 48, "w48"))
						c.PutB(b)
					case 1:
						b := make([]byte, 64)
						for i := range b {
							b[i] = 0xff
						}
						b[rapid.IntRange(0, 63).Draw(t, "pos")] = byte(rapid.IntRange(0, 255).Draw(t, "val"))
						c.PutB(b)
					default:
						lo, _ := h.Bytes256(t, "wlo")
						hi, _ := h.Bytes256(t, "whi")
						c.PutB(append(lo, hi...))
					}
				}
				c.PutN(rapid.SampledFrom([]int{32, 32, 32, 0, 31, 33, 64}).Draw(t, "outlen"))
			},
			Exec: func(a *h.DiffArgs, o *h.DiffOut) {
				var x Element
				x.One()
				ret, err := x.SetBytes(a.B())
				o.Err("narrow", err)
				o.Bool("narrow.ret", ret != nil)
				c06FeBytes(o, "narrow", &x)
				var y Element
				y.One()
				ret, err = y.SetBytesWide(a.B())
				o.Err("wide", err)
				o.Bool("wide.ret", ret != nil)
				c06FeBytes(o, "wide", &y)
				n := a.N()
				if n < 0 || n > 128 {
					n = 32
				}
				out := make([]byte, n)
				o.Err("tobytes", x.ToBytes(out))
				o.Bytes("tobytes", out)
			}},
		{Name: "rawlimbs", Weight: 2,
			// NewElement51 / UnsafeInner exist only on the 64-bit backends, NewElement2625 only on the 32-bit one: each
			// backend splits the same value into its own limbs (c06FromLimbs) and reads them back (c06InnerValue).
			Covers: []string{"NewElement51", "NewElement2625", "Element.UnsafeInner"},
			Gen: func(t *rapid.T, c *h.DiffCase) {
				b, _ := h.Scalar255(t, "v") // any value below 2^255, including p .. 2^255-1
				c.PutB(b)
				c06FeGenInput(t, c, "y")
			},
			Exec: func(a *h.DiffArgs, o *h.DiffOut) {
				vb := a.B()
				if len(vb) != 32 {
					return
				}
				vb[31] &= 0x7f
				x := c06FromLimbs(ref.FromLE(vb))
				var y, z Element
				if _, err := y.SetBytes(a.B()); err != nil {
					return
				}
				c06FeBytes(o, "x", &x)
				o.Bytes("inner", c06InnerValue(&x))
				c06FeBytes(o, "mul", z.Mul(&x, &y))
				c06FeBytes(o, "sq", z.Square(&x))
				c06FeBytes(o, "sub", z.Sub(&y, &x))
				o.Bytes("inner.sub", c06InnerValue(&z))
			}},
		{Name: "constants", Weight: 1,
			Covers: []string{"One", "MinusOne", "Two", "SQRT_M1", "Element.One", "Element.MinusOne", "Element.Zero"},
			Gen:    func(t *rapid.T, c *h.DiffCase) { c06FeGenInput(t, c, "x") },
			Exec: func(a *h.DiffArgs, o *h.DiffOut) {
				var x, z Element
				if _, err := x.SetBytes(a.B()); err != nil {
					return
				}
				for i, k := range []*Element{&One, &MinusOne, &Two, &SQRT_M1} {
					kc := *k
					c06FeBytes(o, fmt.Sprintf("const%d", i), &kc)
					c06FeBytes(o, "mul", z.Mul(&kc, &x))
					c06FeBytes(o, "sq", z.Square(&kc))
					c06FeBytes(o, "sub", z.Sub(&x, &kc))
				}
				c06FeBytes(o, "one", z.One())
				c06FeBytes(o, "minusone", z.MinusOne())
				c06FeBytes(o, "zero", z.Zero())
			}},
	}
}

func TestC06Field(t *testing.T) {
	mul := "mul/pow2k=assembly(amd64)"
	if tags := h.DiffBuildTags(); tags != "" { // purego: field_u64_generic.go; force32bit: field_u32.go
		mul = "mul/pow2k=go"
	}
	h.RunDiffOps(t, "internal/field", h.DiffBackend("field-limbs="+c06Limbs+" "+mul), c06FieldOps())
}
