//go:build verif && !((amd64 || arm64 || ppc64le || ppc64 || s390x || force64bit) && !force32bit)

package field

import (
	"math/big"

	ref "verifref"
)

const c06Limbs = "10x25.5"

// c06FromLimbs builds the element of value v (< 2^255) through the raw-limb
// constructor of this backend (NewElement2625).
func c06FromLimbs(v *big.Int) Element {
	var l [10]uint32
	pos := uint(0)
	for i := range l {
		w := uint(26)
		if i%2 == 1 {
			w = 25
		}
		m := new(big.Int).Sub(new(big.Int).Lsh(big.NewInt(1), w), big.NewInt(1))
		l[i] = uint32(new(big.Int).And(new(big.Int).Rsh(v, pos), m).Uint64())
		pos += w
	}
	return NewElement2625(l[0], l[1], l[2], l[3], l[4], l[5], l[6], l[7], l[8], l[9])
}

// c06InnerValue: the 32-bit backend has no UnsafeInner; the value of the raw
// limbs is read directly (in-package) instead.
func c06InnerValue(fe *Element) []byte {
	v := new(big.Int)
	for i := 9; i >= 0; i-- {
		if i%2 == 1 {
			v.Lsh(v, 25)
		} else {
			v.Lsh(v, 26)
		}
		// limb i sits at bit ceil(25.5 i); Horner over the limb widths
		_ = i
		v.Add(v, new(big.Int).SetUint64(uint64(fe.inner[i])))
	}
	return ref.ToLE(v.Mod(v, ref.P), 32)
}
