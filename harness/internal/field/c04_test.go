//go:build verif

package field

// C04 — field arithmetic is exact modulo p = 2^255-19 for every representable
// input, on the backend this binary was built for (see c04_u64*_test.go /
// c04_u32_test.go for the limb layout, the documented headroom and the
// documented post-condition bounds).
//
// Oracle: limbs -> big.Int by the radix formula, compared mod p with verifref
// (math/big).  Three input families: (i) raw limbs anywhere in the documented
// headroom (TestC04Raw, TestC04Sqrt), (ii) representations reachable by random
// op programs under a bound-tracking interpreter (TestC04Prog), (iii) byte
// strings for narrow/wide decoding (TestC04Bytes).

import (
	"bytes"
	"fmt"
	"math/big"
	"testing"

	"pgregory.net/rapid"
	h "verifh"
	ref "verifref"
)

type c04Impl struct {
	Name  string
	Mul   func(out, a, b *Element)
	Pow2k func(out, a *Element, k uint)
	Post  []uint64 // inclusive per-limb bound documented for the outputs
}

// ---------------------------------------------------------------- helpers

func c04Val(e *Element) *big.Int { return c04Shape.Value(c04Limbs(e)) }

func c04Enc(e *Element) []byte {
	var out [ElementSize]byte
	if err := e.ToBytes(out[:]); err != nil {
		panic(err)
	}
	return out[:]
}

func c04SameLimbs(e *Element, l []uint64) bool {
	g := c04Limbs(e)
	for i := range g {
		if g[i] != l[i] {
			return false
		}
	}
	return true
}

// c04Exceeds returns the index of the first limb above its bound, or -1.
func c04Exceeds(e *Element, bound []uint64) int {
	for i, v := range c04Limbs(e) {
		if v > bound[i] {
			return i
		}
	}
	return -1
}

func c04MaxB(a, b []uint64) []uint64 {
	out := make([]uint64, len(a))
	for i := range a {
		out[i] = a[i]
		if b[i] > out[i] {
			out[i] = b[i]
		}
	}
	return out
}

func c04AnyNT(l []uint64) bool {
	for i, v := range l {
		if c04NTLimb(i, v) {
			return true
		}
	}
	return false
}

func c04MustInShape(s h.C04Shape, l []uint64, what string) {
	if !s.InRange(l) {
		panic(fmt.Sprintf("c04: malformed case: %s limbs %v outside the documented headroom", what, l))
	}
}

// c04Foreign is the result for a replayed case that was generated for the
// other limb backend (replay files are offered to every configuration).
func c04Foreign() h.Result { return h.NewR().Class("other-backend").Result() }

func c04GenK(t *rapid.T) uint {
	switch rapid.IntRange(0, 9).Draw(t, "kk") {
	case 0, 1, 2, 3:
		return uint(rapid.IntRange(1, 5).Draw(t, "k"))
	case 4, 5, 6:
		return rapid.SampledFrom([]uint{1, 2, 5, 10, 20, 50, 100, 250, 252, 255}).Draw(t, "k")
	case 7, 8:
		return uint(rapid.IntRange(1, 64).Draw(t, "k"))
	default:
		return uint(rapid.IntRange(1, 300).Draw(t, "k"))
	}
}

var c04Pow2 = func() []*big.Int { // 2^k as exponents: x^(2^k)
	out := make([]*big.Int, 301)
	for k := range out {
		out[k] = new(big.Int).Lsh(big.NewInt(1), uint(k))
	}
	return out
}()

func c04RefPow2k(x *big.Int, k uint) *big.Int { return ref.FPow(x, c04Pow2[k]) }

var c04Big121666 = big.NewInt(121666)

// ------------------------------------------------ (i) raw limbs: cheap ops

type c04RawCase struct {
	BE     string // limb backend the case was generated for ("u64"/"u32")
	A, B   []uint64
	ACls   string
	BCls   string
	K      uint
	Choice int
}

func c04GenRaw(t *rapid.T) c04RawCase {
	a, ac := h.C04GenLimbs(t, "a", c04Shape)
	b, bc := h.C04GenLimbs(t, "b", c04Shape)
	switch rapid.IntRange(0, 11).Draw(t, "rel") {
	case 0:
		b, bc = append([]uint64(nil), a...), ac
	case 1: // a different representation of the same value
		b, bc = h.C04Repr(t, "same", c04Shape, c04Shape.Value(a)), "same-value"
	case 2: // values one bit / one small step apart (Equal must see every byte)
		d := new(big.Int).Lsh(big.NewInt(1), uint(rapid.IntRange(0, 254).Draw(t, "bit")))
		if rapid.Bool().Draw(t, "minus") {
			d.Neg(d)
		}
		b, bc = h.C04Repr(t, "near", c04Shape, d.Add(d, c04Shape.Value(a))), "a+-2^k"
	}
	return c04RawCase{BE: c04Backend, A: a, B: b, ACls: ac, BCls: bc, K: c04GenK(t), Choice: rapid.IntRange(0, 1).Draw(t, "choice")}
}

func c04CheckRaw(c c04RawCase) h.Result {
	if c.BE != c04Backend {
		return c04Foreign()
	}
	r := h.NewR().Class("a:"+c.ACls, "b:"+c.BCls)
	c04MustInShape(c04Shape, c.A, "A")
	c04MustInShape(c04Shape, c.B, "B")
	if c.K < 1 || c.K > 300 || (c.Choice != 0 && c.Choice != 1) {
		panic("c04: malformed case")
	}
	avRaw, bvRaw := c04Shape.Value(c.A), c04Shape.Value(c.B)
	av, bv := ref.FMod(avRaw), ref.FMod(bvRaw)
	r.NT(c04AnyNT(c.A) || c04AnyNT(c.B) || avRaw.Cmp(ref.P) >= 0 || bvRaw.Cmp(ref.P) >= 0)
	if avRaw.Cmp(ref.P) >= 0 || bvRaw.Cmp(ref.P) >= 0 {
		r.Class("value>=p")
	}
	a, b := c04FromLimbs(c.A), c04FromLimbs(c.B)

	// chk compares one result with the mathematical value and the documented output bound.
	chk := func(name string, got *Element, want *big.Int, post []uint64) {
		r.Eval(1)
		if gv := ref.FMod(c04Val(got)); gv.Cmp(want) != 0 {
			r.Fail("field."+name+":wrong-value", "[%s] a=%v b=%v k=%d got limbs %v = %v, want %v", c04Backend, c.A, c.B, c.K, c04Limbs(got), gv, want)
		}
		if post != nil {
			if i := c04Exceeds(got, post); i >= 0 {
				r.Fail("field."+name+":output-bound", "[%s] a=%v b=%v k=%d limb %d of %v exceeds documented bound %d", c04Backend, c.A, c.B, c.K, i, c04Limbs(got), post[i])
			}
		}
		if !c04SameLimbs(&a, c.A) || !c04SameLimbs(&b, c.B) {
			r.Fail("field."+name+":modified-operand", "[%s] a=%v b=%v", c04Backend, c.A, c.B)
			a, b = c04FromLimbs(c.A), c04FromLimbs(c.B)
		}
	}
	var o Element
	mpost := c04Impls[0].Post

	// Add: limb-wise, no reduction; 2 * headroom still fits the word.
	o.Add(&a, &b)
	sum := make([]uint64, len(c.A))
	for i := range sum {
		sum[i] = c.A[i] + c.B[i]
	}
	chk("Add", &o, ref.FAdd(av, bv), sum)
	r.Eval(1)
	if !bytes.Equal(c04Enc(&o), ref.FEncode(ref.FAdd(av, bv))) { // encoding of an unreduced sum
		r.Fail("field.ToBytes:wrong-encoding", "[%s] of sum a=%v b=%v", c04Backend, c.A, c.B)
	}
	chk("Sub", o.Sub(&a, &b), ref.FSub(av, bv), c04PostReduce)
	chk("Sub", o.Sub(&b, &a), ref.FSub(bv, av), c04PostReduce)
	chk("Neg", o.Neg(&a), ref.FNeg(av), c04PostReduce)
	x := c04FromLimbs(c.A)
	chk("Sub(alias)", x.Sub(&x, &b), ref.FSub(av, bv), c04PostReduce)
	x = c04FromLimbs(c.B)
	chk("Sub(alias)", x.Sub(&a, &x), ref.FSub(av, bv), c04PostReduce)
	x = c04FromLimbs(c.A)
	chk("Neg(alias)", x.Neg(&x), ref.FNeg(av), c04PostReduce)

	// Mul / Pow2k: every implementation present in this build.
	prod, sq := ref.FMul(av, bv), ref.FSqr(av)
	pk := c04RefPow2k(av, c.K)
	for _, im := range c04Impls {
		im.Mul(&o, &a, &b)
		chk("Mul["+im.Name+"]", &o, prod, im.Post)
		im.Mul(&o, &b, &a)
		chk("Mul["+im.Name+"]", &o, prod, im.Post)
		x = c04FromLimbs(c.A)
		im.Mul(&x, &x, &b)
		chk("Mul["+im.Name+"](alias)", &x, prod, im.Post)
		x = c04FromLimbs(c.B)
		im.Mul(&x, &a, &x)
		chk("Mul["+im.Name+"](alias)", &x, prod, im.Post)
		x = c04FromLimbs(c.A)
		im.Mul(&x, &x, &x)
		chk("Mul["+im.Name+"](alias)", &x, sq, im.Post)
		im.Pow2k(&o, &a, 1)
		chk("Pow2k["+im.Name+"]", &o, sq, im.Post)
		im.Pow2k(&o, &a, c.K)
		chk("Pow2k["+im.Name+"]", &o, pk, im.Post)
		x = c04FromLimbs(c.A)
		im.Pow2k(&x, &x, c.K)
		chk("Pow2k["+im.Name+"](alias)", &x, pk, im.Post)
	}
	chk("Mul", o.Mul(&a, &b), prod, mpost)
	chk("Square", o.Square(&a), sq, mpost)
	chk("Square", o.Square(&b), ref.FSqr(bv), mpost)
	chk("Square2", o.Square2(&a), ref.FAdd(sq, sq), c04PostSquare2())
	x = c04FromLimbs(c.A)
	chk("Square2(alias)", x.Square2(&x), ref.FAdd(sq, sq), c04PostSquare2())
	chk("Pow2k", o.Pow2k(&a, c.K), pk, mpost)
	chk("Mul121666", o.Mul121666(&a), ref.FMul(av, c04Big121666), c04PostMul121666)
	x = c04FromLimbs(c.A)
	chk("Mul121666(alias)", x.Mul121666(&x), ref.FMul(av, c04Big121666), c04PostMul121666)

	// Conditional operations are exact limb copies.
	exact := func(name string, got *Element, want []uint64) {
		r.Eval(1)
		if !c04SameLimbs(got, want) {
			r.Fail("field."+name+":wrong-limbs", "[%s] a=%v b=%v choice=%d got %v", c04Backend, c.A, c.B, c.Choice, c04Limbs(got))
		}
	}
	sel, other := c.A, c.B
	if c.Choice == 1 {
		sel, other = c.B, c.A
	}
	o = c04FromLimbs(c.A) // garbage that must be overwritten
	o.Neg(&o)
	o.ConditionalSelect(&a, &b, c.Choice)
	exact("ConditionalSelect", &o, sel)
	x = c04FromLimbs(c.A)
	x.ConditionalAssign(&b, c.Choice)
	exact("ConditionalAssign", &x, sel)
	x, y := c04FromLimbs(c.A), c04FromLimbs(c.B)
	x.ConditionalSwap(&y, c.Choice)
	exact("ConditionalSwap", &x, sel)
	exact("ConditionalSwap", &y, other)
	x = c04FromLimbs(c.A)
	x.ConditionalNegate(c.Choice)
	if c.Choice == 0 {
		exact("ConditionalNegate", &x, c.A)
	} else {
		chk("ConditionalNegate", &x, ref.FNeg(av), c04PostReduce)
	}
	exact("Set", o.Set(&a), c.A)

	// Predicates and the canonical encoding.
	r.Eval(6)
	if got, want := a.Equal(&b) == 1, av.Cmp(bv) == 0; got != want {
		r.Fail("field.Equal:wrong", "[%s] a=%v b=%v got %v", c04Backend, c.A, c.B, got)
	}
	x = c04FromLimbs(c.A)
	if a.Equal(&x) != 1 {
		r.Fail("field.Equal:wrong", "[%s] a=%v not equal to itself", c04Backend, c.A)
	}
	if got, want := a.IsZero() == 1, av.Sign() == 0; got != want {
		r.Fail("field.IsZero:wrong", "[%s] a=%v got %v", c04Backend, c.A, got)
	}
	if got, want := a.IsNegative() == 1, av.Bit(0) == 1; got != want {
		r.Fail("field.IsNegative:wrong", "[%s] a=%v got %v", c04Backend, c.A, got)
	}
	enc := c04Enc(&a)
	if !bytes.Equal(enc, ref.FEncode(av)) {
		r.Fail("field.ToBytes:wrong-encoding", "[%s] a=%v got %x want %x", c04Backend, c.A, enc, ref.FEncode(av))
	}
	if _, err := x.SetBytes(enc); err != nil || ref.FMod(c04Val(&x)).Cmp(av) != 0 {
		r.Fail("field.SetBytes:roundtrip", "[%s] a=%v enc=%x err=%v", c04Backend, c.A, enc, err)
	}
	if !c04SameLimbs(&a, c.A) || !c04SameLimbs(&b, c.B) {
		r.Fail("field.observers:modified-operand", "[%s] a=%v b=%v", c04Backend, c.A, c.B)
	}
	return r.Result()
}

func TestC04Raw(t *testing.T) {
	h.SetExtra(t, "backend", c04Backend+"/"+c04Impls[0].Name)
	h.Run(t, c04GenRaw, c04CheckRaw)
}

// ------------------------------- ToBytes & friends over the whole machine word

type c04FullCase struct {
	BE  string
	A   []uint64
	Cls string
}

func c04GenFull(t *rapid.T) c04FullCase {
	a, cls := h.C04GenLimbs(t, "a", c04FullShape)
	return c04FullCase{BE: c04Backend, A: a, Cls: cls}
}

func c04CheckFull(c c04FullCase) h.Result {
	if c.BE != c04Backend {
		return c04Foreign()
	}
	r := h.NewR().Class(c.Cls)
	c04MustInShape(c04FullShape, c.A, "A")
	raw := c04Shape.Value(c.A)
	av := ref.FMod(raw)
	r.NT(c04AnyNT(c.A) || raw.Cmp(ref.P) >= 0)
	a := c04FromLimbs(c.A)
	r.Eval(3)
	if enc := c04Enc(&a); !bytes.Equal(enc, ref.FEncode(av)) {
		r.Fail("field.ToBytes:wrong-encoding", "[%s] limbs=%v got %x want %x", c04Backend, c.A, enc, ref.FEncode(av))
	}
	if got, want := a.IsZero() == 1, av.Sign() == 0; got != want {
		r.Fail("field.IsZero:wrong", "[%s] limbs=%v got %v", c04Backend, c.A, got)
	}
	if got, want := a.IsNegative() == 1, av.Bit(0) == 1; got != want {
		r.Fail("field.IsNegative:wrong", "[%s] limbs=%v got %v", c04Backend, c.A, got)
	}
	if !c04SameLimbs(&a, c.A) {
		r.Fail("field.ToBytes:modified-operand", "[%s] limbs=%v", c04Backend, c.A)
	}
	return r.Result()
}

func TestC04Encode(t *testing.T) { h.Run(t, c04GenFull, c04CheckFull) }

// --------------------------- (i) inversion, batch inversion, square-root ratio

type c04SqrtCase struct {
	BE    string
	U, V  []uint64
	Cls   string
	Batch [][]uint64
}

func c04GenSqrt(t *rapid.T) c04SqrtCase {
	c := c04SqrtCase{BE: c04Backend}
	kind := rapid.IntRange(0, 9).Draw(t, "kind")
	switch kind {
	case 0, 1, 2:
		c.U, _ = h.C04GenLimbs(t, "u", c04Shape)
		c.V, _ = h.C04GenLimbs(t, "v", c04Shape)
		c.Cls = "raw"
	default:
		// constructed ratio: u = f * r^2 * v with f in {1, -1, i, -i}: hits each
		// of the four sign branches by construction; optional zeros.
		rv := ref.FMod(ref.FromLE(h.UniformBytes(t, 32, "r")))
		if rapid.IntRange(0, 5).Draw(t, "rs") == 0 {
			rv = h.C04SpecialValue(t, "rs")
		}
		vv := ref.FMod(ref.FromLE(h.UniformBytes(t, 32, "vv")))
		if rapid.IntRange(0, 3).Draw(t, "vs") == 0 {
			vv = h.C04SpecialValue(t, "vs")
		}
		f := rapid.IntRange(0, 3).Draw(t, "f")
		uv := ref.FMul(ref.FSqr(rv), vv)
		switch f {
		case 1:
			uv = ref.FNeg(uv)
		case 2:
			uv = ref.FMul(uv, ref.SqrtM1)
		case 3:
			uv = ref.FNeg(ref.FMul(uv, ref.SqrtM1))
		}
		c.Cls = fmt.Sprintf("constructed:f%d", f)
		switch kind {
		case 3:
			uv = big.NewInt(0)
			c.Cls = "u=0"
		case 4:
			vv = big.NewInt(0)
			c.Cls = "v=0"
			if rapid.IntRange(0, 3).Draw(t, "both") == 0 {
				uv = big.NewInt(0)
				c.Cls = "u=v=0"
			}
		}
		c.U = h.C04Repr(t, "ur", c04Shape, uv)
		c.V = h.C04Repr(t, "vr", c04Shape, vv)
	}
	n := rapid.IntRange(0, 6).Draw(t, "nb")
	for i := 0; i < n; i++ {
		if rapid.IntRange(0, 3).Draw(t, "bz") == 0 {
			c.Batch = append(c.Batch, h.C04Repr(t, "bzr", c04Shape, big.NewInt(0)))
		} else {
			l, _ := h.C04GenLimbs(t, "bl", c04Shape)
			c.Batch = append(c.Batch, l)
		}
	}
	return c
}

func c04CheckSqrt(c c04SqrtCase) h.Result {
	if c.BE != c04Backend {
		return c04Foreign()
	}
	r := h.NewR().Class(c.Cls)
	c04MustInShape(c04Shape, c.U, "U")
	c04MustInShape(c04Shape, c.V, "V")
	uRaw, vRaw := c04Shape.Value(c.U), c04Shape.Value(c.V)
	uv, vv := ref.FMod(uRaw), ref.FMod(vRaw)
	mpost := c04Impls[0].Post
	spost := c04MaxB(mpost, c04PostReduce)

	wantSq, wantR := ref.SqrtRatioM1(uv, vv)
	if sq2, r2 := ref.SqrtRatioMath(uv, vv); sq2 != wantSq || r2.Cmp(wantR) != 0 {
		panic(fmt.Sprintf("c04: reference models disagree on u=%v v=%v", uv, vv))
	}
	switch {
	case uv.Sign() == 0 && vv.Sign() == 0:
		r.Class("ratio:0/0")
	case uv.Sign() == 0:
		r.Class("ratio:u=0")
	case vv.Sign() == 0:
		r.Class("ratio:v=0")
	case wantSq:
		r.Class("ratio:square")
	default:
		r.Class("ratio:nonsquare")
	}
	r.NT(c04AnyNT(c.U) || c04AnyNT(c.V) || uRaw.Cmp(ref.P) >= 0 || vRaw.Cmp(ref.P) >= 0 || uv.Sign() == 0 || vv.Sign() == 0 || !wantSq)

	u, v := c04FromLimbs(c.U), c04FromLimbs(c.V)
	val := func(name string, got *Element, want *big.Int, post []uint64) {
		r.Eval(1)
		if gv := ref.FMod(c04Val(got)); gv.Cmp(want) != 0 {
			r.Fail("field."+name+":wrong-value", "[%s] u=%v v=%v got limbs %v = %v, want %v", c04Backend, c.U, c.V, c04Limbs(got), gv, want)
		}
		if i := c04Exceeds(got, post); i >= 0 {
			r.Fail("field."+name+":output-bound", "[%s] u=%v v=%v limb %d of %v exceeds documented bound %d", c04Backend, c.U, c.V, i, c04Limbs(got), post[i])
		}
		if !c04SameLimbs(&u, c.U) || !c04SameLimbs(&v, c.V) {
			r.Fail("field."+name+":modified-operand", "[%s] u=%v v=%v", c04Backend, c.U, c.V)
			u, v = c04FromLimbs(c.U), c04FromLimbs(c.V)
		}
	}
	var o Element
	// Invert: x^(p-2); zero maps to zero.
	val("Invert", o.Invert(&u), ref.FInv(uv), mpost)
	val("Invert", o.Invert(&v), ref.FInv(vv), mpost)
	x := c04FromLimbs(c.U)
	val("Invert(alias)", x.Invert(&x), ref.FInv(uv), mpost)

	// SqrtRatioI: documented (flag, non-negative root) pair.
	sqrtChk := func(name string, got *Element, flag int) {
		val(name, got, wantR, spost)
		r.Eval(1)
		if (flag == 1) != wantSq || (flag != 0 && flag != 1) {
			r.Fail("field."+name+":wrong-flag", "[%s] u=%v v=%v flag=%d want square=%v", c04Backend, c.U, c.V, flag, wantSq)
		}
		if got.IsNegative() != 0 {
			r.Fail("field."+name+":negative-root", "[%s] u=%v v=%v root limbs %v", c04Backend, c.U, c.V, c04Limbs(got))
		}
	}
	ret, flag := o.SqrtRatioI(&u, &v)
	if ret != &o {
		r.Fail("field.SqrtRatioI:return", "did not return the receiver")
	}
	sqrtChk("SqrtRatioI", &o, flag)
	x = c04FromLimbs(c.U)
	_, flag = x.SqrtRatioI(&x, &v)
	sqrtChk("SqrtRatioI(alias-u)", &x, flag)
	x = c04FromLimbs(c.V)
	_, flag = x.SqrtRatioI(&u, &x)
	sqrtChk("SqrtRatioI(alias-v)", &x, flag)

	// InvSqrt(v) = SqrtRatioI(1, v)
	isq, ir := ref.SqrtRatioM1(big.NewInt(1), vv)
	x = c04FromLimbs(c.V)
	_, flag = x.InvSqrt()
	val("InvSqrt", &x, ir, spost)
	r.Eval(1)
	if (flag == 1) != isq || x.IsNegative() != 0 {
		r.Fail("field.InvSqrt:wrong-flag-or-sign", "[%s] v=%v flag=%d want %v", c04Backend, c.V, flag, isq)
	}

	// BatchInvert over {u, v, batch...}: non-zero elements replaced by their
	// inverse, zero elements left unchanged.
	all := [][]uint64{c.U, c.V}
	for i, l := range c.Batch {
		c04MustInShape(c04Shape, l, fmt.Sprintf("Batch[%d]", i))
		all = append(all, l)
	}
	els := make([]Element, len(all))
	ptrs := make([]*Element, len(all))
	for i := range all {
		els[i] = c04FromLimbs(all[i])
		ptrs[i] = &els[i]
	}
	BatchInvert(ptrs)
	zeros := 0
	for i := range all {
		r.Eval(1)
		w := ref.FMod(c04Shape.Value(all[i]))
		if w.Sign() == 0 {
			zeros++ // documented: "When an input Element is zero, its value is unchanged"
			if ref.FMod(c04Val(&els[i])).Sign() != 0 {
				r.Fail("field.BatchInvert:zero-changed", "[%s] element %d of %v became %v", c04Backend, i, all, c04Limbs(&els[i]))
			}
			if j := c04Exceeds(&els[i], c04MaxB(all[i], mpost)); j >= 0 {
				r.Fail("field.BatchInvert:output-bound", "[%s] element %d of %v: limb %d of %v", c04Backend, i, all, j, c04Limbs(&els[i]))
			}
			continue
		}
		if gv := ref.FMod(c04Val(&els[i])); gv.Cmp(ref.FInv(w)) != 0 {
			r.Fail("field.BatchInvert:wrong-value", "[%s] element %d of %v: got %v want %v", c04Backend, i, all, gv, ref.FInv(w))
		}
		if j := c04Exceeds(&els[i], mpost); j >= 0 {
			r.Fail("field.BatchInvert:output-bound", "[%s] element %d of %v: limb %d of %v", c04Backend, i, all, j, c04Limbs(&els[i]))
		}
	}
	if zeros > 0 {
		r.Class(fmt.Sprintf("batch-zeros:%d", zeros))
	}
	BatchInvert(nil)
	return r.Result()
}

func TestC04Sqrt(t *testing.T) { h.Run(t, c04GenSqrt, c04CheckSqrt) }

// -------------------------- (ii) reachable representations: op programs

type c04Op struct {
	Op   string   `json:"op"`
	D    int      `json:"d"`
	A    int      `json:"a"`
	B    int      `json:"b"`
	K    uint     `json:"k,omitempty"`
	C    int      `json:"c,omitempty"`
	L    []uint64 `json:"l,omitempty"`
	Data h.Hex    `json:"data,omitempty"`
}

type c04ProgCase struct {
	BE   string
	Init [][]uint64
	Ops  []c04Op
}

var c04OpNames = []string{
	"add", "add", "add", "add", "add", "sub", "sub", "sub", "neg", "neg",
	"mul", "mul", "mul", "mul", "square", "square", "square2", "square2", "pow2k", "mul121666",
	"select", "swap", "assign", "cneg", "set", "set", "one", "minusone", "zero",
	"setbytes", "setbyteswide", "raw", "raw", "invert", "sqrtratio", "invsqrt", "batchinv",
	"tobytes", "equal", "iszero", "isneg",
}

func c04GenProg(t *rapid.T) c04ProgCase {
	c := c04ProgCase{BE: c04Backend}
	nreg := rapid.IntRange(2, 5).Draw(t, "nreg")
	for i := 0; i < nreg; i++ {
		l, _ := h.C04GenLimbs(t, "init", c04Shape)
		c.Init = append(c.Init, l)
	}
	nops := rapid.IntRange(1, 40).Draw(t, "nops")
	heavy := 0
	for i := 0; i < nops; i++ {
		op := c04Op{Op: rapid.SampledFrom(c04OpNames).Draw(t, "op"),
			D: rapid.IntRange(0, nreg-1).Draw(t, "d"), A: rapid.IntRange(0, nreg-1).Draw(t, "a"), B: rapid.IntRange(0, nreg-1).Draw(t, "b")}
		switch op.Op {
		case "invert", "sqrtratio", "invsqrt", "batchinv":
			heavy++
			if heavy > 3 {
				op.Op = "mul"
			}
		}
		switch op.Op {
		case "mul":
			op.K = uint(rapid.IntRange(0, len(c04Impls)).Draw(t, "impl")) // len(c04Impls) = the method
		case "pow2k":
			op.K = c04GenK(t)
			op.C = rapid.IntRange(0, len(c04Impls)).Draw(t, "impl")
		case "select", "swap", "assign", "cneg":
			op.C = rapid.IntRange(0, 1).Draw(t, "choice")
		case "setbytes":
			op.Data, _ = h.Bytes256(t, "sb")
		case "setbyteswide":
			lo, _ := h.Bytes256(t, "lo")
			hi, _ := h.Bytes256(t, "hi")
			op.Data = append(append([]byte(nil), lo...), hi...)
		case "raw":
			op.L, _ = h.C04GenLimbs(t, "rawl", c04Shape)
		case "batchinv":
			op.K = uint(rapid.IntRange(0, 1<<uint(nreg)-1).Draw(t, "mask"))
		}
		c.Ops = append(c.Ops, op)
	}
	return c
}

func c04CheckProg(c c04ProgCase) h.Result {
	if c.BE != c04Backend {
		return c04Foreign()
	}
	r := h.NewR()
	n := len(c.Init)
	if n < 1 || n > 8 {
		panic("c04: malformed case")
	}
	regs := make([]Element, n)
	bnd := make([][]uint64, n) // tracked inclusive per-limb bounds (from documented post-conditions only)
	exp := make([]*big.Int, n) // expected value mod p, computed by the reference only
	for i, l := range c.Init {
		c04MustInShape(c04Shape, l, "Init")
		regs[i] = c04FromLimbs(l)
		bnd[i] = append([]uint64(nil), l...)
		exp[i] = ref.FMod(c04Shape.Value(l))
	}
	mpost := c04Impls[0].Post
	spost := c04MaxB(mpost, c04PostReduce)
	pre := func(idx ...int) bool { // documented precondition of Mul/Square/Pow2k/Sub/Neg: limbs inside the headroom
		for _, j := range idx {
			if !c04Shape.InRange(bnd[j]) {
				return false
			}
		}
		return true
	}
	nt := false
	use := func(idx ...int) { // operand actually carries excess bits?
		for _, j := range idx {
			if c04AnyNT(c04Limbs(&regs[j])) {
				nt = true
			}
		}
	}
	executed, skipped := 0, 0
	for pc, op := range c.Ops {
		if op.D < 0 || op.D >= n || op.A < 0 || op.A >= n || op.B < 0 || op.B >= n {
			panic("c04: malformed case (register index)")
		}
		d, a, b := op.D, op.A, op.B
		before := make([][]uint64, n)
		for i := range regs {
			before[i] = c04Limbs(&regs[i])
		}
		written := map[int]bool{d: true}
		fail := func(what, format string, args ...interface{}) {
			r.Fail("field.prog/"+op.Op+":"+what, "[%s] pc=%d op=%+v: %s", c04Backend, pc, op, fmt.Sprintf(format, args...))
		}
		ok := true
		switch op.Op {
		case "add":
			nb := make([]uint64, len(bnd[a]))
			for i := range nb {
				nb[i] = bnd[a][i] + bnd[b][i]
				if nb[i] < bnd[a][i] || nb[i] > c04Shape.Max[i] {
					ok = false // sum would leave the headroom later operations document
				}
			}
			if ok {
				use(a, b)
				regs[d].Add(&regs[a], &regs[b])
				exp[d], bnd[d] = ref.FAdd(exp[a], exp[b]), nb
			}
		case "sub":
			if ok = pre(a, b); ok {
				use(a, b)
				regs[d].Sub(&regs[a], &regs[b])
				exp[d], bnd[d] = ref.FSub(exp[a], exp[b]), c04PostReduce
			}
		case "neg":
			if ok = pre(a); ok {
				use(a)
				regs[d].Neg(&regs[a])
				exp[d], bnd[d] = ref.FNeg(exp[a]), c04PostReduce
			}
		case "mul":
			if ok = pre(a, b); ok {
				use(a, b)
				post := mpost
				if int(op.K) < len(c04Impls) {
					c04Impls[op.K].Mul(&regs[d], &regs[a], &regs[b])
					post = c04Impls[op.K].Post
				} else {
					regs[d].Mul(&regs[a], &regs[b])
				}
				exp[d], bnd[d] = ref.FMul(exp[a], exp[b]), post
			}
		case "square":
			if ok = pre(a); ok {
				use(a)
				regs[d].Square(&regs[a])
				exp[d], bnd[d] = ref.FSqr(exp[a]), mpost
			}
		case "square2":
			if ok = pre(a); ok {
				use(a)
				regs[d].Square2(&regs[a])
				s := ref.FSqr(exp[a])
				exp[d], bnd[d] = ref.FAdd(s, s), c04PostSquare2()
			}
		case "pow2k":
			if op.K < 1 || op.K > 300 {
				panic("c04: malformed case (k)")
			}
			if ok = pre(a); ok {
				use(a)
				post := mpost
				if op.C >= 0 && op.C < len(c04Impls) {
					c04Impls[op.C].Pow2k(&regs[d], &regs[a], op.K)
					post = c04Impls[op.C].Post
				} else {
					regs[d].Pow2k(&regs[a], op.K)
				}
				exp[d], bnd[d] = c04RefPow2k(exp[a], op.K), post
			}
		case "mul121666":
			if ok = pre(a); ok {
				use(a)
				regs[d].Mul121666(&regs[a])
				exp[d], bnd[d] = ref.FMul(exp[a], c04Big121666), c04PostMul121666
			}
		case "invert":
			if ok = pre(a); ok {
				use(a)
				if exp[a].Sign() == 0 {
					nt = true
				}
				regs[d].Invert(&regs[a])
				exp[d], bnd[d] = ref.FInv(exp[a]), mpost
			}
		case "sqrtratio":
			if ok = pre(a, b); ok {
				use(a, b)
				wsq, wr := ref.SqrtRatioM1(exp[a], exp[b])
				if !wsq || wr.Sign() == 0 {
					nt = true
				}
				_, flag := regs[d].SqrtRatioI(&regs[a], &regs[b])
				if (flag == 1) != wsq || (flag != 0 && flag != 1) {
					fail("wrong-flag", "flag=%d want square=%v (u=%v v=%v)", flag, wsq, exp[a], exp[b])
				}
				if regs[d].IsNegative() != 0 {
					fail("negative-root", "limbs %v", c04Limbs(&regs[d]))
				}
				exp[d], bnd[d] = wr, spost
			}
		case "invsqrt":
			if ok = pre(d); ok {
				use(d)
				wsq, wr := ref.SqrtRatioM1(big.NewInt(1), exp[d])
				if !wsq {
					nt = true
				}
				_, flag := regs[d].InvSqrt()
				if (flag == 1) != wsq {
					fail("wrong-flag", "flag=%d want square=%v (v=%v)", flag, wsq, exp[d])
				}
				exp[d], bnd[d] = wr, spost
			}
		case "batchinv":
			var idx []int
			for i := 0; i < n; i++ {
				if op.K>>uint(i)&1 == 1 {
					idx = append(idx, i)
				}
			}
			if ok = pre(idx...); ok {
				use(idx...)
				written = map[int]bool{}
				var ptrs []*Element
				for _, i := range idx {
					ptrs = append(ptrs, &regs[i])
					written[i] = true
				}
				BatchInvert(ptrs)
				for _, i := range idx {
					if exp[i].Sign() == 0 {
						nt = true // the value check below covers "zero stays zero"
					}
					exp[i], bnd[i] = ref.FInv(exp[i]), c04MaxB(bnd[i], mpost)
				}
			}
		case "select":
			if op.C != 0 && op.C != 1 {
				panic("c04: malformed case (choice)")
			}
			regs[d].ConditionalSelect(&regs[a], &regs[b], op.C)
			src := a
			if op.C == 1 {
				src = b
			}
			if !c04SameLimbs(&regs[d], before[src]) {
				fail("wrong-limbs", "got %v want %v", c04Limbs(&regs[d]), before[src])
			}
			exp[d], bnd[d] = exp[src], c04MaxB(bnd[a], bnd[b])
		case "assign":
			if op.C != 0 && op.C != 1 {
				panic("c04: malformed case (choice)")
			}
			regs[d].ConditionalAssign(&regs[a], op.C)
			if op.C == 1 {
				exp[d] = exp[a]
			}
			bnd[d] = c04MaxB(bnd[d], bnd[a])
		case "swap":
			if op.C != 0 && op.C != 1 {
				panic("c04: malformed case (choice)")
			}
			regs[d].ConditionalSwap(&regs[a], op.C)
			written[a] = true
			if op.C == 1 {
				exp[d], exp[a] = exp[a], exp[d]
				if !c04SameLimbs(&regs[d], before[a]) || !c04SameLimbs(&regs[a], before[d]) {
					fail("wrong-limbs", "swap did not exchange the limbs")
				}
			} else if !c04SameLimbs(&regs[d], before[d]) || !c04SameLimbs(&regs[a], before[a]) {
				fail("wrong-limbs", "swap with choice 0 changed the limbs")
			}
			m := c04MaxB(bnd[d], bnd[a])
			bnd[d], bnd[a] = m, m
		case "cneg":
			if op.C != 0 && op.C != 1 {
				panic("c04: malformed case (choice)")
			}
			if ok = pre(d); ok { // the negation is computed whatever the choice
				use(d)
				regs[d].ConditionalNegate(op.C)
				if op.C == 1 {
					exp[d] = ref.FNeg(exp[d])
				} else if !c04SameLimbs(&regs[d], before[d]) {
					fail("wrong-limbs", "choice 0 changed the limbs")
				}
				bnd[d] = c04MaxB(bnd[d], c04PostReduce)
			}
		case "set":
			regs[d].Set(&regs[a])
			exp[d], bnd[d] = exp[a], bnd[a]
		case "one":
			regs[d].One()
			exp[d], bnd[d] = big.NewInt(1), c04PostSetBytes
		case "minusone":
			regs[d].MinusOne()
			exp[d], bnd[d] = ref.FNeg(big.NewInt(1)), c04PostSetBytes
		case "zero":
			regs[d].Zero()
			exp[d], bnd[d] = big.NewInt(0), c04PostSetBytes
		case "setbytes":
			if len(op.Data) != 32 {
				panic("c04: malformed case (data)")
			}
			if _, err := regs[d].SetBytes(op.Data); err != nil {
				fail("error", "%v", err)
			}
			exp[d], bnd[d] = ref.FDecode(op.Data), c04PostSetBytes
		case "setbyteswide":
			if len(op.Data) != 64 {
				panic("c04: malformed case (data)")
			}
			if _, err := regs[d].SetBytesWide(op.Data); err != nil {
				fail("error", "%v", err)
			}
			exp[d], bnd[d] = ref.FMod(ref.FromLE(op.Data)), c04PostReduce
		case "raw":
			c04MustInShape(c04Shape, op.L, "raw")
			regs[d] = c04FromLimbs(op.L)
			exp[d], bnd[d] = ref.FMod(c04Shape.Value(op.L)), append([]uint64(nil), op.L...)
		case "tobytes":
			written = map[int]bool{}
			if enc := c04Enc(&regs[a]); !bytes.Equal(enc, ref.FEncode(exp[a])) {
				fail("wrong-encoding", "register %d limbs %v: got %x want %x", a, before[a], enc, ref.FEncode(exp[a]))
			}
		case "equal":
			written = map[int]bool{}
			if got, want := regs[a].Equal(&regs[b]) == 1, exp[a].Cmp(exp[b]) == 0; got != want {
				fail("wrong", "registers %d,%d limbs %v %v: got %v", a, b, before[a], before[b], got)
			}
		case "iszero":
			written = map[int]bool{}
			if got, want := regs[a].IsZero() == 1, exp[a].Sign() == 0; got != want {
				fail("wrong", "register %d limbs %v: got %v", a, before[a], got)
			}
		case "isneg":
			written = map[int]bool{}
			if got, want := regs[a].IsNegative() == 1, exp[a].Bit(0) == 1; got != want {
				fail("wrong", "register %d limbs %v: got %v", a, before[a], got)
			}
		default:
			panic("c04: malformed case (op " + op.Op + ")")
		}
		if !ok {
			skipped++
			r.Class("skip:" + op.Op)
			continue
		}
		executed++
		r.Eval(1)
		r.Class(op.Op)
		for i := range regs {
			if written[i] {
				if gv := ref.FMod(c04Val(&regs[i])); gv.Cmp(exp[i]) != 0 {
					fail("wrong-value", "register %d: inputs a=%v b=%v d=%v -> limbs %v = %v, want %v", i, before[a], before[b], before[d], c04Limbs(&regs[i]), gv, exp[i])
				}
				if j := c04Exceeds(&regs[i], bnd[i]); j >= 0 {
					fail("output-bound", "register %d: inputs a=%v b=%v d=%v -> limb %d of %v exceeds tracked bound %d", i, before[a], before[b], before[d], j, c04Limbs(&regs[i]), bnd[i][j])
				}
			} else if !c04SameLimbs(&regs[i], before[i]) {
				fail("modified-operand", "register %d changed from %v to %v", i, before[i], c04Limbs(&regs[i]))
			}
		}
		if r.Failed() {
			return r.NT(true).Result()
		}
	}
	// every register still encodes to the canonical form of its expected value
	for i := range regs {
		r.Eval(1)
		if enc := c04Enc(&regs[i]); !bytes.Equal(enc, ref.FEncode(exp[i])) {
			r.Fail("field.prog/final:wrong-encoding", "[%s] register %d limbs %v: got %x want %x", c04Backend, i, c04Limbs(&regs[i]), enc, ref.FEncode(exp[i]))
		}
	}
	if skipped > executed {
		r.Class("mostly-skipped")
	}
	return r.NT(nt && executed > 0).Result()
}

func TestC04Prog(t *testing.T) {
	h.SetExtra(t, "backend", c04Backend+"/"+c04Impls[0].Name)
	h.Run(t, c04GenProg, c04CheckProg)
}

// ------------------------------------ (iii) narrow / wide decoding, encoding

type c04BytesCase struct {
	In  h.Hex
	Cls string
}

func c04GenBytes(t *rapid.T) c04BytesCase {
	one := big.NewInt(1)
	switch rapid.IntRange(0, 13).Draw(t, "bk") {
	case 0, 1: // narrow: catalogue
		b, cls := h.Bytes256(t, "n")
		return c04BytesCase{In: b, Cls: "narrow:" + cls}
	case 2: // narrow: p + k, k = -3..18 (all values in [p, 2^255) and the first below), either bit 255
		v := new(big.Int).Add(ref.P, big.NewInt(int64(rapid.IntRange(-3, 18).Draw(t, "k"))))
		b := ref.ToLE(v, 32)
		if rapid.Bool().Draw(t, "msb") {
			b[31] |= 0x80
		}
		return c04BytesCase{In: b, Cls: "narrow:p+k"}
	case 3: // narrow: uniform with forced bit 255
		b := h.UniformBytes(t, 32, "n")
		b[31] |= 0x80
		return c04BytesCase{In: b, Cls: "narrow:bit255"}
	case 4:
		return c04BytesCase{In: h.UniformBytes(t, 32, "n"), Cls: "narrow:uniform"}
	case 5: // narrow: limb-boundary patterns of either backend
		w := rapid.SampledFrom([]uint{26, 51, 77, 102, 128, 153, 179, 204, 230, 255}).Draw(t, "pos")
		v := new(big.Int).Lsh(one, w)
		v.Add(v, big.NewInt(int64(rapid.IntRange(-2, 2).Draw(t, "e"))))
		if v.Sign() < 0 {
			v.SetInt64(0)
		}
		return c04BytesCase{In: ref.ToLE(v, 32), Cls: "narrow:limb-seam"}
	case 6, 7: // wide: hi/lo catalogue
		lo, lc := h.Bytes256(t, "lo")
		hi, hc := h.Bytes256(t, "hi")
		return c04BytesCase{In: append(append([]byte(nil), lo...), hi...), Cls: "wide:hi:" + hc + "/lo:" + lc}
	case 8: // wide: all ones with a few altered bytes
		b := bytes.Repeat([]byte{0xff}, 64)
		for i, n := 0, rapid.IntRange(0, 4).Draw(t, "n"); i < n; i++ {
			b[rapid.IntRange(0, 63).Draw(t, "i")] = rapid.Byte().Draw(t, "v")
		}
		return c04BytesCase{In: b, Cls: "wide:ones"}
	case 9: // wide: q*p + e
		q := new(big.Int).SetBytes(h.UniformBytes(t, 33, "q"))
		q.Rsh(q, uint(rapid.IntRange(7, 263).Draw(t, "sh")))
		v := new(big.Int).Mul(q, ref.P)
		v.Add(v, big.NewInt(int64(rapid.IntRange(-2, 20).Draw(t, "e"))))
		if v.Sign() < 0 {
			v.SetInt64(0)
		}
		v.And(v, new(big.Int).Sub(new(big.Int).Lsh(one, 512), one))
		return c04BytesCase{In: ref.ToLE(v, 64), Cls: "wide:qp+e"}
	case 10: // wide: hash-to-curve shape, 48 big-endian bytes zero-extended
		be := h.UniformBytes(t, 48, "h2c")
		if rapid.IntRange(0, 4).Draw(t, "ff") == 0 {
			be = bytes.Repeat([]byte{0xff}, 48)
		}
		b := make([]byte, 64)
		for i := range be {
			b[i] = be[47-i]
		}
		return c04BytesCase{In: b, Cls: "wide:h2c48"}
	case 11: // wide: the two bits SetBytes ignores, all four combinations
		b := h.UniformBytes(t, 64, "w")
		m := rapid.IntRange(0, 3).Draw(t, "msb")
		b[31] = b[31]&0x7f | byte(m&1)<<7
		b[63] = b[63]&0x7f | byte(m>>1)<<7
		if rapid.IntRange(0, 3).Draw(t, "sparse") == 0 {
			for i := range b {
				if i != 31 && i != 63 {
					b[i] = 0
				} else {
					b[i] &= 0x80
				}
			}
		}
		return c04BytesCase{In: b, Cls: fmt.Sprintf("wide:msb%d", m)}
	case 12:
		return c04BytesCase{In: h.UniformBytes(t, 64, "w"), Cls: "wide:uniform"}
	default: // wrong lengths
		n := rapid.SampledFrom([]int{0, 1, 16, 31, 33, 48, 63, 65, 96, 128}).Draw(t, "len")
		return c04BytesCase{In: h.UniformBytes(t, n, "x"), Cls: "length"}
	}
}

func c04CheckBytes(c c04BytesCase) h.Result {
	r := h.NewR().Class(c.Cls)
	in := append([]byte(nil), c.In...)
	marker := c04FromLimbs(c04Shape.Canonical(big.NewInt(0x1234567)))
	markerLimbs := c04Limbs(&marker)
	if len(in) != ElementSize {
		r.Eval(1)
		fe := marker
		ret, err := fe.SetBytes(in)
		if err == nil || ret != nil {
			r.Fail("field.SetBytes:accepted-wrong-length", "[%s] len=%d", c04Backend, len(in))
		}
		if !c04SameLimbs(&fe, markerLimbs) {
			r.Fail("field.SetBytes:receiver-modified-on-error", "[%s] len=%d", c04Backend, len(in))
		}
		out := make([]byte, len(in))
		if err := fe.ToBytes(out); err == nil {
			r.Fail("field.ToBytes:accepted-wrong-length", "[%s] len=%d", c04Backend, len(in))
		}
	}
	if len(in) != ElementWideSize {
		r.Eval(1)
		fe := marker
		ret, err := fe.SetBytesWide(in)
		if err == nil || ret != nil {
			r.Fail("field.SetBytesWide:accepted-wrong-length", "[%s] len=%d", c04Backend, len(in))
		}
		if !c04SameLimbs(&fe, markerLimbs) {
			r.Fail("field.SetBytesWide:receiver-modified-on-error", "[%s] len=%d", c04Backend, len(in))
		}
	}
	switch len(in) {
	case ElementSize:
		full := ref.FromLE(in)
		masked := new(big.Int).SetBit(new(big.Int).Set(full), 255, 0)
		want := ref.FMod(masked)
		r.NT(masked.Cmp(ref.P) >= 0 || full.Bit(255) == 1 || (c.Cls != "narrow:uniform" && c.Cls != "narrow:reduced" && c.Cls != "narrow:tiny"))
		if masked.Cmp(ref.P) >= 0 {
			r.Class("narrow:>=p")
		}
		if full.Bit(255) == 1 {
			r.Class("narrow:msb-set")
		}
		r.Eval(4)
		fe := marker
		ret, err := fe.SetBytes(in)
		if err != nil || ret != &fe {
			return r.Fail("field.SetBytes:rejected", "[%s] in=%x err=%v", c04Backend, in, err).Result()
		}
		if gv := ref.FMod(c04Val(&fe)); gv.Cmp(want) != 0 {
			r.Fail("field.SetBytes:wrong-value", "[%s] in=%x limbs %v = %v want %v", c04Backend, in, c04Limbs(&fe), gv, want)
		}
		if i := c04Exceeds(&fe, c04PostSetBytes); i >= 0 {
			r.Fail("field.SetBytes:output-bound", "[%s] in=%x limb %d of %v", c04Backend, in, i, c04Limbs(&fe))
		}
		if enc := c04Enc(&fe); !bytes.Equal(enc, ref.FEncode(want)) {
			r.Fail("field.ToBytes:wrong-encoding", "[%s] in=%x got %x want %x", c04Backend, in, enc, ref.FEncode(want))
		}
		// bit 255 is ignored: the flipped string decodes to an Equal element
		flip := append([]byte(nil), in...)
		flip[31] ^= 0x80
		var fe2 Element
		if _, err := fe2.SetBytes(flip); err != nil || fe.Equal(&fe2) != 1 {
			r.Fail("field.SetBytes:bit255-not-ignored", "[%s] in=%x", c04Backend, in)
		}
		if got, want := fe.IsZero() == 1, want.Sign() == 0; got != want {
			r.Fail("field.IsZero:wrong", "[%s] in=%x got %v", c04Backend, in, got)
		}
		if got, want := fe.IsNegative() == 1, want.Bit(0) == 1; got != want {
			r.Fail("field.IsNegative:wrong", "[%s] in=%x got %v", c04Backend, in, got)
		}
	case ElementWideSize:
		full := ref.FromLE(in)
		want := ref.FMod(full)
		r.NT(c.Cls != "wide:uniform")
		r.Eval(3)
		fe := marker
		ret, err := fe.SetBytesWide(in)
		if err != nil || ret != &fe {
			return r.Fail("field.SetBytesWide:rejected", "[%s] in=%x err=%v", c04Backend, in, err).Result()
		}
		if gv := ref.FMod(c04Val(&fe)); gv.Cmp(want) != 0 {
			r.Fail("field.SetBytesWide:wrong-value", "[%s] in=%x limbs %v = %v want %v", c04Backend, in, c04Limbs(&fe), gv, want)
		}
		if i := c04Exceeds(&fe, c04PostReduce); i >= 0 {
			r.Fail("field.SetBytesWide:output-bound", "[%s] in=%x limb %d of %v", c04Backend, in, i, c04Limbs(&fe))
		}
		if enc := c04Enc(&fe); !bytes.Equal(enc, ref.FEncode(want)) {
			r.Fail("field.ToBytes:wrong-encoding", "[%s] wide in=%x got %x want %x", c04Backend, in, enc, ref.FEncode(want))
		}
	default:
		r.NT(true)
	}
	if !bytes.Equal(in, c.In) {
		r.Fail("field.decoders:input-modified", "[%s] in=%x", c04Backend, []byte(c.In))
	}
	return r.Result()
}

func TestC04Bytes(t *testing.T) { h.Run(t, c04GenBytes, c04CheckBytes) }

// ------------------------------------------------- fixed points of the API

type c04ConstCase struct{ Name string }

func c04CheckConst(c c04ConstCase) h.Result {
	r := h.NewR().Class(c.Name).NT(true).Eval(1)
	m1 := ref.FNeg(big.NewInt(1))
	eq := func(e *Element, want *big.Int) {
		if gv := ref.FMod(c04Val(e)); gv.Cmp(want) != 0 {
			r.Fail("field."+c.Name+":wrong-value", "[%s] limbs %v = %v want %v", c04Backend, c04Limbs(e), gv, want)
		}
		if !bytes.Equal(c04Enc(e), ref.FEncode(want)) {
			r.Fail("field."+c.Name+":wrong-encoding", "[%s]", c04Backend)
		}
		if i := c04Exceeds(e, c04PostSetBytes); i >= 0 {
			r.Fail("field."+c.Name+":not-reduced", "[%s] limb %d of %v", c04Backend, i, c04Limbs(e))
		}
	}
	var e Element
	switch c.Name {
	case "One":
		eq(&One, big.NewInt(1))
		eq(e.One(), big.NewInt(1))
	case "MinusOne":
		eq(&MinusOne, m1)
		eq(e.MinusOne(), m1)
	case "Two":
		eq(&Two, big.NewInt(2))
	case "Zero":
		e = c04FromLimbs(c04Shape.Max)
		eq(e.Zero(), big.NewInt(0))
	case "SQRT_M1":
		// documented as "one of the square roots of -1" (which one is a matter for C20)
		if ref.FSqr(ref.FMod(c04Val(&SQRT_M1))).Cmp(m1) != 0 {
			r.Fail("field.SQRT_M1:not-a-root", "[%s] limbs %v", c04Backend, c04Limbs(&SQRT_M1))
		}
		if i := c04Exceeds(&SQRT_M1, c04PostSetBytes); i >= 0 {
			r.Fail("field.SQRT_M1:not-reduced", "[%s] limb %d of %v", c04Backend, i, c04Limbs(&SQRT_M1))
		}
	case "Pow2k(0)":
		// "given k > 0": k = 0 is outside the documented domain.  The code panics;
		// returning t^(2^0) = t would be just as right.  What must not happen is a
		// wrong value or a hang in the squaring loop (k-1 wrapping around; the
		// wrapper's CPU-time guard turns a hang into a violation).
		two := Two
		p, _ := h.Catch(func() { e.Pow2k(&two, 0) })
		if p {
			r.Class("Pow2k(0):panics")
		} else if ref.FMod(c04Val(&e)).Cmp(big.NewInt(2)) != 0 {
			r.Fail("field.Pow2k:k=0-wrong-value", "[%s] got %v", c04Backend, c04Limbs(&e))
		}
	default:
		panic("c04: malformed case")
	}
	return r.Result()
}

func TestC04Consts(t *testing.T) {
	var cases []c04ConstCase
	for _, n := range []string{"One", "MinusOne", "Two", "Zero", "SQRT_M1", "Pow2k(0)"} {
		cases = append(cases, c04ConstCase{Name: n})
	}
	h.RunList(t, cases, c04CheckConst)
}

// ------------------------------------------------ the same checks, concurrently
//
// Four generated cases at a time, one goroutine each: the value oracles above
// hold under concurrency exactly if the package keeps no hidden shared state
// (h.RunPar).  No public API reaches field.BatchInvert today, so the
// concurrency check of C18 cannot see it.
func TestC04ParSqrt(t *testing.T) { h.RunPar(t, 4, c04GenSqrt, c04CheckSqrt) }
func TestC04ParProg(t *testing.T) { h.RunPar(t, 4, c04GenProg, c04CheckProg) }
