//go:build verif && (amd64 || arm64 || ppc64le || ppc64 || s390x || force64bit) && !force32bit

package field

// C20, 64-bit backend (constraint of constants_u64.go / field_u64.go): radix 2^51.

import (
	"math/big"

	h "verifh"
	ref "verifref"
)

const c20Backend = "u64"

var c20BackendNames = []string{"low_51_bit_mask", "p_times_sixteen"}

func c20Int(e *Element) (*big.Int, bool) {
	l := h.C20Limbs(e)
	if len(l) != 5 {
		panic("c20: u64 backend must have 5 limbs")
	}
	for k, v := range e.inner {
		if v != l[k] {
			panic("c20: reflection reader disagrees with direct access")
		}
	}
	return ref.C20Radix51(l), ref.C20LimbsCanonical(l)
}

func c20CheckBackend(r *h.R, name string) bool {
	switch name {
	case "low_51_bit_mask":
		r.Eval(1)
		if new(big.Int).SetUint64(low_51_bit_mask).Cmp(new(big.Int).Sub(new(big.Int).Lsh(big.NewInt(1), 51), big.NewInt(1))) != 0 {
			r.Fail("field.low_51_bit_mask:wrong-value", "%#x", uint64(low_51_bit_mask))
		}
	case "p_times_sixteen":
		// "16 * p": limb 0 and limbs 1..4 of 16p in radix 2^51, limb-wise
		// 16 times the canonical limbs of p (2^51-19, 2^51-1 x4).
		r.Eval(2)
		l := []uint64{p_times_sixteen_0, p_times_sixteen_1234, p_times_sixteen_1234, p_times_sixteen_1234, p_times_sixteen_1234}
		if ref.C20Radix51(l).Cmp(new(big.Int).Mul(big.NewInt(16), ref.P)) != 0 {
			r.Fail("field.p_times_sixteen:wrong-value", "limbs=%v", l)
		}
		pl := new(big.Int).Set(ref.P)
		m := new(big.Int).SetUint64(1<<51 - 1)
		for k := range l {
			want := new(big.Int).And(new(big.Int).Rsh(pl, uint(51*k)), m)
			if want.Lsh(want, 4).Cmp(new(big.Int).SetUint64(l[k])) != 0 {
				r.Fail("field.p_times_sixteen:limb-is-not-16x-limb-of-p", "limb %d = %d", k, l[k])
			}
		}
	default:
		return false
	}
	return true
}
