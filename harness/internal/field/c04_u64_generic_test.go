//go:build verif && (purego || (!amd64 && force64bit) || arm64 || ppc64le || ppc64 || s390x) && !force32bit

package field

// feMul/fePow2k are thin wrappers around the portable code in this build.
var c04Impls = []c04Impl{
	{Name: "generic(method)", Mul: feMul, Pow2k: fePow2k, Post: c04PostTight},
	{Name: "generic", Mul: feMulGeneric, Pow2k: fePow2kGeneric, Post: c04PostTight},
}
