//go:build verif

package field

// C20 — field constants equal their definitions in both limb encodings.
// Raw limbs -> integer by the radix formula (c20Int, per backend); no
// library arithmetic on the value path.
//
// Coverage of package-level vars/consts:
//   constants_u64.go: SQRT_M1                               -> checked (square = -1 and the root 2^((p-1)/4))
//   constants_u32.go: SQRT_M1, constAPLUS2_OVER_FOUR        -> checked ((486662+2)/4)
//   field.go: One, MinusOne, Two                            -> checked (One is a 0/1 literal: trivial);
//             ElementSize, ElementWideSize                  -> checked (trivial sizes)
//   field_u64.go: low_51_bit_mask, p_times_sixteen_0, p_times_sixteen_1234 -> checked (u64 only; the u32
//             backend's 16p limbs and masks are function-local literals, unreachable here; C04 covers Sub/Neg)

import (
	"math/big"
	"testing"

	h "verifh"
	ref "verifref"
)

// Enc: limb encoding of the build that enumerated the case (part of the case identity).
type c20Case struct{ Name, Enc string }

func c20elem(r *h.R, sig string, e *Element, want *big.Int) {
	r.Eval(1)
	v, canon := c20Int(e)
	if !canon {
		r.Class("limbs-not-canonical")
	}
	if ref.FMod(v).Cmp(ref.FMod(want)) != 0 {
		r.Fail(sig+":wrong-value", "limbs=%v value=%v want=%v", h.C20Limbs(e), ref.FMod(v), ref.FMod(want))
	}
}

func c20Check(c c20Case) h.Result {
	r := h.NewR().Class(c20Backend, c.Name)
	sig := "field." + c.Name
	trivial := false
	switch c.Name {
	case "SQRT_M1":
		v, _ := c20Int(&SQRT_M1)
		r.Eval(1)
		if ref.FSqr(v).Cmp(ref.C20MinusOne) != 0 {
			r.Fail(sig+":square-is-not-minus-one", "value=%v", ref.FMod(v))
		}
		// the specific root: 2^((p-1)/4), the even one (dalek / RFC 9496 SQRT_M1)
		c20elem(r, sig, &SQRT_M1, ref.SqrtM1)
	case "One":
		trivial = true
		c20elem(r, sig, &One, big.NewInt(1))
	case "MinusOne":
		c20elem(r, sig, &MinusOne, ref.C20MinusOne)
	case "Two":
		c20elem(r, sig, &Two, big.NewInt(2))
	case "ElementSize":
		trivial = true
		r.Eval(1)
		if ElementSize != 32 {
			r.Fail(sig+":wrong-value", "%d", ElementSize)
		}
	case "ElementWideSize":
		trivial = true
		r.Eval(1)
		if ElementWideSize != 64 {
			r.Fail(sig+":wrong-value", "%d", ElementWideSize)
		}
	default:
		if !c20CheckBackend(r, c.Name) {
			r.Fail("harness:unknown-case", "%q", c.Name)
		}
	}
	return r.NT(!trivial).Result()
}

func TestC20FieldConstants(t *testing.T) {
	h.SetExtra(t, "backend", c20Backend)
	var cases []c20Case
	for _, n := range append([]string{"SQRT_M1", "One", "MinusOne", "Two", "ElementSize", "ElementWideSize"}, c20BackendNames...) {
		cases = append(cases, c20Case{Name: n, Enc: c20Backend})
	}
	h.RunList(t, cases, c20Check)
}
