//go:build verif && (amd64 || arm64 || ppc64le || ppc64 || s390x || force64bit) && !force32bit

package field

// C04 backend adapter: radix-2^51 limbs (5 x uint64).
//
// Documented headroom (field_u64.go): feMulGeneric / fePow2kGeneric require
// input limbs < 2^(51+b) with b < 3, i.e. < 2^54; Sub/Neg add 16p "to be larger
// than 54-bit b".  Generated limbs are therefore <= 2^54-1 everywhere except
// for ToBytes-based observers, where reduce() documents "input limbs are
// bounded by 2^64".

import (
	h "verifh"
)

const c04Backend = "u64"

var (
	c04Shape     = h.C04Shape51(1<<54 - 1)
	c04FullShape = h.C04Shape51(^uint64(0))

	// reduce(): l0 < 2^51 + 19*2^13, l1..4 < 2^51 + 2^13 (carry-out < 2^13).
	c04PostReduce = []uint64{1<<51 - 1 + 19*8191, 1<<51 - 1 + 8191, 1<<51 - 1 + 8191, 1<<51 - 1 + 8191, 1<<51 - 1 + 8191}
	// feMulGeneric / fePow2kGeneric / Mul121666: "fe[1] < 2^51 + 2^13", all other limbs masked to 51 bits.
	c04PostTight = []uint64{1<<51 - 1, 1<<51 - 1 + 8191, 1<<51 - 1, 1<<51 - 1, 1<<51 - 1}
	// SetBytes: plain 51-bit slices.
	c04PostSetBytes  = []uint64{1<<51 - 1, 1<<51 - 1, 1<<51 - 1, 1<<51 - 1, 1<<51 - 1}
	c04PostMul121666 = c04PostTight
)

// Square2 doubles the limbs of a squaring without reducing.
func c04PostSquare2() []uint64 {
	out := make([]uint64, 5)
	for i, v := range c04Impls[0].Post {
		out[i] = 2 * v
	}
	return out
}

func c04FromLimbs(l []uint64) Element { return NewElement51(l[0], l[1], l[2], l[3], l[4]) }

func c04Limbs(e *Element) []uint64 { return append([]uint64(nil), e.inner[:]...) }

// non-trivial rule: a limb with at least one excess bit beyond what the
// in-tree generators reach (>= 2^52).
func c04NTLimb(i int, v uint64) bool { return v >= 1<<52 }
