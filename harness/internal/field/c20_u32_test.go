//go:build verif && (386 || arm || mips || mipsle || wasm || mips64le || mips64 || riscv64 || loong64 || force32bit) && !force64bit

package field

// C20, 32-bit backend (constraint of constants_u32.go / field_u32.go): radix 2^25.5.

import (
	"math/big"

	h "verifh"
	ref "verifref"
)

const c20Backend = "u32"

var c20BackendNames = []string{"constAPLUS2_OVER_FOUR"}

func c20Int(e *Element) (*big.Int, bool) {
	l := h.C20Limbs(e)
	if len(l) != 10 {
		panic("c20: u32 backend must have 10 limbs")
	}
	for k, v := range e.inner {
		if uint64(v) != l[k] {
			panic("c20: reflection reader disagrees with direct access")
		}
	}
	return ref.C20Radix2625(l), ref.C20LimbsCanonical(l)
}

func c20CheckBackend(r *h.R, name string) bool {
	switch name {
	case "constAPLUS2_OVER_FOUR":
		// "(A+2)/4" with A = 486662
		c20elem(r, "field.constAPLUS2_OVER_FOUR", &constAPLUS2_OVER_FOUR, ref.C20APlus2Over4)
	default:
		return false
	}
	return true
}
