//go:build verif && (386 || arm || mips || mipsle || wasm || mips64le || mips64 || riscv64 || loong64 || force32bit) && !force64bit

package field

// C04 backend adapter: radix-2^25.5 limbs (10 x uint32).
//
// Documented headroom (field_u32.go, Mul): x[i], y[i] < 2^(26+b) for even i,
// < 2^(25+b) for odd i, with b < 1.752 so that 19*y[i] fits in a u32;
// squareInner: "Pre- and post- conditions identical to multiplication".
// floor(2^27.752) = 226039552, floor(2^26.752) = 113019776 (19*226039551 < 2^32).

import (
	h "verifh"
)

const c04Backend = "u32"

var (
	c04Shape     = h.C04Shape2625(226039552-1, 113019776-1)
	c04FullShape = h.C04Shape2625(1<<32-1, 1<<32-1)

	// reduce(): even limbs masked to 26 bits, odd limbs to 25 bits, except
	// "z[1] < 2^25.007" and "z[5] < 2^25.0004".
	c04PostReduce = []uint64{1<<26 - 1, 33717634, 1<<26 - 1, 1<<25 - 1, 1<<26 - 1, 33563736, 1<<26 - 1, 1<<25 - 1, 1<<26 - 1, 1<<25 - 1}

	c04PostSetBytes  = c04PostReduce
	c04PostMul121666 = c04PostReduce

	c04Impls = []c04Impl{
		{Name: "u32", Mul: func(out, a, b *Element) { out.Mul(a, b) }, Pow2k: func(out, a *Element, k uint) { out.Pow2k(a, k) }, Post: c04PostReduce},
	}
)

func c04PostSquare2() []uint64 { return c04PostReduce }

func c04FromLimbs(l []uint64) Element {
	for _, v := range l {
		if v > 1<<32-1 {
			panic("c04: limb does not fit 32 bits")
		}
	}
	return NewElement2625(uint32(l[0]), uint32(l[1]), uint32(l[2]), uint32(l[3]), uint32(l[4]),
		uint32(l[5]), uint32(l[6]), uint32(l[7]), uint32(l[8]), uint32(l[9]))
}

func c04Limbs(e *Element) []uint64 {
	out := make([]uint64, 10)
	for i, v := range e.inner {
		out[i] = uint64(v)
	}
	return out
}

// non-trivial rule: a limb above its nominal width.
func c04NTLimb(i int, v uint64) bool { return v >= uint64(1)<<c04Shape.W[i] }
