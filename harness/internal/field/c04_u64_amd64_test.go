//go:build verif && amd64 && !purego && !force32bit

package field

// Both implementations exist in this build: the assembly (used by the
// methods) and the portable Go code, exercised side by side.
var c04Impls = []c04Impl{
	{Name: "asm", Mul: feMul, Pow2k: fePow2k, Post: c04PostReduce}, // asm carries in parallel: same bounds as reduce()
	{Name: "generic", Mul: feMulGeneric, Pow2k: fePow2kGeneric, Post: c04PostTight},
}
