//go:build verif && (amd64 || arm64 || ppc64le || ppc64 || s390x || force64bit) && !force32bit

package field

import (
	"math/big"

	ref "verifref"
)

const c06Limbs = "5x51"

// c06FromLimbs builds the element of value v (< 2^255) through the raw-limb
// constructor of this backend (NewElement51).
func c06FromLimbs(v *big.Int) Element {
	var l [5]uint64
	m := new(big.Int).Sub(new(big.Int).Lsh(big.NewInt(1), 51), big.NewInt(1))
	for i := range l {
		l[i] = new(big.Int).And(new(big.Int).Rsh(v, uint(51*i)), m).Uint64()
	}
	return NewElement51(l[0], l[1], l[2], l[3], l[4])
}

// c06InnerValue reads the raw limbs back (UnsafeInner exists only on the
// 64-bit backends) and returns the canonical encoding of the value they
// represent.
func c06InnerValue(fe *Element) []byte {
	v := new(big.Int)
	in := fe.UnsafeInner()
	for i := 4; i >= 0; i-- {
		v.Lsh(v, 51)
		v.Add(v, new(big.Int).SetUint64(in[i]))
	}
	return ref.ToLE(v.Mod(v, ref.P), 32)
}
