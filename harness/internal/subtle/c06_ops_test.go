//go:build verif

package subtle_test

// C06 — all arithmetic backends are observationally identical: internal/subtle
// (backend independent; part of "every exported operation of every package").

import (
	"encoding/binary"
	"testing"

	"github.com/oasisprotocol/curve25519-voi/internal/subtle"
	"pgregory.net/rapid"
	h "verifh"
)

func c06SubtleOps() []h.DiffOp {
	return []h.DiffOp{
		{Name: "all", Weight: 1,
			Covers: []string{"ConstantTimeCompareByte", "ConstantTimeCompareBytes", "ConstantTimeSelectByte", "ConstantTimeSelectUint32",
				"ConstantTimeSelectUint64", "ConstantTimeSwapUint32", "ConstantTimeSwapUint64"},
			Gen: func(t *rapid.T, c *h.DiffCase) {
				x := h.UniformBytes(t, 8, "a")
				y := h.UniformBytes(t, 8, "b")
				switch rapid.IntRange(0, 4).Draw(t, "rel") {
				case 0:
					y = append([]byte{}, x...)
				case 1:
					y = append([]byte{}, x...)
					y[rapid.IntRange(0, 7).Draw(t, "pos")] ^= 1 << uint(rapid.IntRange(0, 7).Draw(t, "bit"))
				case 2:
					for i := range x {
						x[i], y[i] = 0xff, 0
					}
				}
				c.PutB(x)
				c.PutB(y)
				c.PutN(rapid.IntRange(0, 1).Draw(t, "choice")) // the documented domain of choice
				c.PutN(rapid.IntRange(0, 9).Draw(t, "len"))
			},
			Exec: func(a *h.DiffArgs, o *h.DiffOut) {
				x, y, choice, l := a.B(), a.B(), a.N()&1, a.N()
				if len(x) != 8 || len(y) != 8 {
					return
				}
				o.Int("cmpbyte", int64(subtle.ConstantTimeCompareByte(x[0], y[0])))
				o.Int("cmpbytes", int64(subtle.ConstantTimeCompareBytes(x, y)))
				if l >= 0 && l <= 8 {
					o.Int("cmpbytes.difflen", int64(subtle.ConstantTimeCompareBytes(x[:l], y)))
				}
				o.Int("selbyte", int64(subtle.ConstantTimeSelectByte(choice, x[0], y[0])))
				x32, y32 := binary.LittleEndian.Uint32(x), binary.LittleEndian.Uint32(y)
				x64, y64 := binary.LittleEndian.Uint64(x), binary.LittleEndian.Uint64(y)
				o.Int("sel32", int64(subtle.ConstantTimeSelectUint32(choice, x32, y32)))
				o.Int("sel64", int64(subtle.ConstantTimeSelectUint64(choice, x64, y64)))
				subtle.ConstantTimeSwapUint32(choice, &x32, &y32)
				o.Int("swap32.a", int64(x32))
				o.Int("swap32.b", int64(y32))
				subtle.ConstantTimeSwapUint64(choice, &x64, &y64)
				o.Int("swap64.a", int64(x64))
				o.Int("swap64.b", int64(y64))
			}},
	}
}

func TestC06Subtle(t *testing.T) {
	h.RunDiffOps(t, "internal/subtle", h.DiffBackend(""), c06SubtleOps())
}
