//go:build verif

package ed25519_test

// C02 — Ed25519 key generation and signing are RFC 8032-exact and always
// verifiable.  Shared pieces: entropy streams, option builders, generators.
//
// Oracles: verifref (math/big, RFC 8032 section 5.1 transcribed) and Go's
// crypto/ed25519.  The library under test is never used to compute an
// expected value.

import (
	"crypto"
	"crypto/sha512"
	"io"
	"math/big"

	"pgregory.net/rapid"
	h "verifh"
	ref "verifref"

	"github.com/oasisprotocol/curve25519-voi/primitives/ed25519"
)

// ---------------------------------------------------------------- entropy

// c02Ent describes an entropy stream as plain data.  The stream is infinite
// (periodic) unless Limit >= 0, in which case it ends with io.EOF after Limit
// bytes.  Every Read returns at most Chunk bytes (short reads: callers must
// use io.ReadFull semantics).
type c02Ent struct {
	Kind  int    // 0 zeros, 1 0xff, 2 counter from Seed, 3 short generated period, 4 long generated period, 5 Bytes repeated
	Seed  uint64 //
	Bytes h.Hex  // Kind 5 only
	Chunk int    // max bytes per Read, >= 1
	Limit int    // total bytes available, -1 = unbounded
	// EOFData (with Limit >= 0): the read that delivers byte number Limit returns
	// io.EOF together with the data (allowed by the io.Reader contract).
	EOFData bool `json:",omitempty"`
}

// Stream returns the first n bytes of the stream (ignoring Limit).
func (e c02Ent) Stream(n int) []byte {
	out := make([]byte, n)
	switch e.Kind {
	case 0:
	case 1:
		for i := range out {
			out[i] = 0xff
		}
	case 2:
		for i := range out {
			out[i] = byte(e.Seed) + byte(i)
		}
	case 3:
		pat := h.Expand(e.Seed, 1+int(e.Seed%61))
		for i := range out {
			out[i] = pat[i%len(pat)]
		}
	case 5:
		for i := range out {
			if len(e.Bytes) > 0 {
				out[i] = e.Bytes[i%len(e.Bytes)]
			}
		}
	default:
		pat := h.Expand(e.Seed, 251)
		for i := range out {
			out[i] = pat[i%len(pat)]
		}
	}
	return out
}

type c02Reader struct {
	e     c02Ent
	off   int
	reads int
}

func (e c02Ent) Reader() *c02Reader { return &c02Reader{e: e} }

func (r *c02Reader) Read(p []byte) (int, error) {
	if len(p) == 0 {
		return 0, nil
	}
	n := len(p)
	ch := r.e.Chunk
	if ch < 1 {
		ch = 1
	}
	if n > ch {
		n = ch
	}
	if r.e.Limit >= 0 {
		rem := r.e.Limit - r.off
		if rem <= 0 {
			return 0, io.EOF
		}
		if n > rem {
			n = rem
		}
	}
	s := r.e.Stream(r.off + n)
	copy(p, s[r.off:])
	r.off += n
	r.reads++
	if r.e.EOFData && r.e.Limit >= 0 && r.off == r.e.Limit {
		return n, io.EOF
	}
	return n, nil
}

func c02GenEnt(t *rapid.T, label string) c02Ent {
	e := c02Ent{
		Kind:  rapid.IntRange(0, 4).Draw(t, label+"_kind"),
		Seed:  rapid.Uint64().Draw(t, label+"_seed"),
		Chunk: rapid.SampledFrom([]int{1, 5, 7, 16, 31, 32, 33, 64, 4096}).Draw(t, label+"_chunk"),
		Limit: -1,
	}
	// the documented consumption is exactly 32 bytes (Z of the added-randomness
	// construction): a source holding just that much, ending with data+EOF or
	// with a separate EOF, is as good as an endless one
	switch rapid.IntRange(0, 5).Draw(t, label+"_lim") {
	case 0:
		e.Limit = rapid.SampledFrom([]int{32, 32, 33, 64}).Draw(t, label+"_limit")
		e.EOFData = true
	case 1:
		e.Limit = rapid.SampledFrom([]int{32, 33, 64}).Draw(t, label+"_limit")
	}
	return e
}

// ---------------------------------------------------------------- options

var c02PresetNames = []string{"nil", "Default", "StdLib", "FIPS", "ZIP215", "custom"}

// c02VOpts maps a selector to the library's VerifyOptions value.
func c02VOpts(sel int, f [5]bool) *ed25519.VerifyOptions {
	switch sel {
	case 0:
		return nil
	case 1:
		return ed25519.VerifyOptionsDefault
	case 2:
		return ed25519.VerifyOptionsStdLib
	case 3:
		return ed25519.VerifyOptionsFIPS_186_5
	case 4:
		return ed25519.VerifyOptionsZIP_215
	}
	return &ed25519.VerifyOptions{
		AllowSmallOrderA:   f[0],
		AllowSmallOrderR:   f[1],
		AllowNonCanonicalA: f[2],
		AllowNonCanonicalR: f[3],
		CofactorlessVerify: f[4],
	}
}

// c02RefFlags is the reference's restatement of the same selector.
func c02RefFlags(sel int, f [5]bool) ref.EdFlags {
	switch sel {
	case 0, 1:
		return ref.EdFlagsDefault
	case 2:
		return ref.EdFlagsStdLib
	case 3:
		return ref.EdFlagsFIPS
	case 4:
		return ref.EdFlagsZIP215
	}
	return ref.EdFlags{AllowSmallOrderA: f[0], AllowSmallOrderR: f[1], AllowNonCanonicalA: f[2], AllowNonCanonicalR: f[3], Cofactorless: f[4]}
}

func c02Cofactorless(sel int, f [5]bool) bool { return sel == 2 || (sel == 5 && f[4]) }
func c02IllegalPair(sel int, f [5]bool) bool  { return sel == 5 && f[3] && f[4] }

func c02GenFlags(t *rapid.T, legal bool) [5]bool {
	var f [5]bool
	for i := range f {
		f[i] = rapid.Bool().Draw(t, "flag")
	}
	if legal && f[3] && f[4] {
		if rapid.Bool().Draw(t, "drop") {
			f[3] = false
		} else {
			f[4] = false
		}
	}
	return f
}

func c02Variant(ph bool, ctx []byte) (ref.EdVariant, crypto.Hash, string) {
	switch {
	case ph:
		return ref.EdPh, crypto.SHA512, "ph"
	case len(ctx) > 0:
		return ref.EdCtx, crypto.Hash(0), "ctx"
	}
	return ref.EdPure, crypto.Hash(0), "pure"
}

// ---------------------------------------------------------------- seeds

// c02SearchSeed draws a seed.  Besides uniform and patterned seeds it searches
// a few hundred candidates (all derived from one rapid draw) for a clamped
// secret scalar with extreme bits: the only way to steer SHA-512 output.
func c02GenSeed(t *rapid.T, label string) ([]byte, string) {
	switch k := rapid.IntRange(0, 9).Draw(t, label+"_sk"); {
	case k <= 3:
		return h.UniformBytes(t, 32, label), "uniform"
	case k == 4:
		b := make([]byte, 32)
		switch rapid.IntRange(0, 3).Draw(t, label+"_pat") {
		case 0:
		case 1:
			for i := range b {
				b[i] = 0xff
			}
		case 2:
			for i := range b {
				b[i] = byte(i)
			}
		default:
			bit := rapid.IntRange(0, 255).Draw(t, label+"_bit")
			b[bit/8] = 1 << uint(bit%8)
		}
		return b, "pattern"
	default:
		crit := rapid.SampledFrom([]string{"a-max", "a-min", "amodL-max", "amodL-min", "a-nib8", "a-nib7", "a-lowones"}).Draw(t, label+"_crit")
		base := rapid.Uint64().Draw(t, label+"_base")
		n := rapid.SampledFrom([]int{64, 256, 1024}).Draw(t, label+"_n")
		var best []byte
		var bestScore *big.Int
		for i := 0; i < n; i++ {
			cand := h.Expand(base+uint64(i)*0x100000001b3, 32)
			a, _ := ref.EdExpand(cand)
			sc := c02Score(crit, a)
			if bestScore == nil || sc.Cmp(bestScore) > 0 {
				best, bestScore = cand, sc
			}
		}
		return best, "search:" + crit
	}
}

func c02Score(crit string, a *big.Int) *big.Int {
	switch crit {
	case "a-max", "r-max":
		return new(big.Int).Set(a)
	case "a-min", "r-min":
		return new(big.Int).Neg(a)
	case "amodL-max":
		return ref.SMod(a)
	case "amodL-min":
		return new(big.Int).Neg(ref.SMod(a))
	case "a-nib8", "a-nib7":
		// many nibbles >= 8 (carry chains in the signed radix-16 recoding),
		// or many nibbles equal to 7 (largest digit without carry)
		cnt := int64(0)
		for _, by := range ref.ToLE(a, 32) {
			for _, nb := range []byte{by & 15, by >> 4} {
				if (crit == "a-nib8" && nb >= 8) || (crit == "a-nib7" && nb == 7) {
					cnt++
				}
			}
		}
		return big.NewInt(cnt)
	default: // a-lowones: trailing ones above the three cleared bits
		cnt := int64(0)
		for i := 3; i < 255 && a.Bit(i) == 1; i++ {
			cnt++
		}
		return big.NewInt(cnt)
	}
}

// ---------------------------------------------------------------- messages

func c02GenCtx(t *rapid.T, label string) []byte {
	n := rapid.SampledFrom([]int{0, 0, 0, 1, 1, 17, 17, 255, 255, -1}).Draw(t, label+"_cl")
	if n < 0 {
		n = rapid.IntRange(2, 254).Draw(t, label+"_cn")
	}
	b := make([]byte, n)
	switch rapid.IntRange(0, 3).Draw(t, label+"_ck") {
	case 0:
	case 1:
		for i := range b {
			b[i] = 0xff
		}
	default:
		copy(b, h.Expand(rapid.Uint64().Draw(t, label+"_cs"), n))
	}
	return b
}

// c02GenMsg draws a message.  For ph the "message" is the 64-byte prehash.
// Otherwise lengths are 0..2000 concentrated on the places where one of the
// actually hashed strings (dom2||prefix||M, dom2||R||A||M, or M itself after
// the 1024-byte hedged header) crosses a SHA-512 block / padding boundary.
func c02GenMsg(t *rapid.T, label string, ph bool, dom2Len int) []byte {
	if ph {
		if rapid.Bool().Draw(t, label+"_phk") {
			d := sha512.Sum512(h.Msg(t, 300, label+"_pre"))
			return d[:]
		}
		b, _ := h.Bytes256(t, label+"_lo")
		b2, _ := h.Bytes256(t, label+"_hi")
		return append(b, b2...)
	}
	if rapid.IntRange(0, 2).Draw(t, label+"_mk") == 0 {
		return h.Msg(t, 2000, label)
	}
	blocks := rapid.IntRange(1, 15).Draw(t, label+"_blk")
	edge := rapid.SampledFrom([]int{-18, -17, -16, -15, -1, 0, 1}).Draw(t, label+"_edge")
	hdr := rapid.SampledFrom([]int{0, dom2Len + 32, dom2Len + 64}).Draw(t, label+"_hdr")
	n := blocks*128 + edge - hdr
	if n < 0 {
		n = 0
	}
	if n > 2000 {
		n = 2000
	}
	b := make([]byte, n)
	switch rapid.IntRange(0, 3).Draw(t, label+"_fill") {
	case 0:
	case 1:
		for i := range b {
			b[i] = 0xff
		}
	default:
		copy(b, h.Expand(rapid.Uint64().Draw(t, label+"_ms"), n))
	}
	return b
}

// c02SearchNonce rewrites the last two bytes of msg (searching 2^9 candidates)
// so that the deterministic nonce r = H(dom2||prefix||M) mod L is as small or
// as large as possible.
func c02SearchNonce(seed []byte, v ref.EdVariant, ctx, msg []byte, crit string, n int) []byte {
	if len(msg) < 2 {
		return msg
	}
	_, prefix := ref.EdExpand(seed)
	d2 := ref.Dom2(v, ctx)
	var best []byte
	var bestScore *big.Int
	for i := 0; i < n; i++ {
		cand := append([]byte(nil), msg...)
		cand[len(cand)-2] = byte(i)
		cand[len(cand)-1] = byte(i >> 8)
		hh := sha512.New()
		hh.Write(d2)
		hh.Write(prefix)
		hh.Write(cand)
		r := ref.SMod(ref.FromLE(hh.Sum(nil)))
		sc := c02Score(crit, r)
		if bestScore == nil || sc.Cmp(bestScore) > 0 {
			best, bestScore = cand, sc
		}
	}
	return best
}

func c02FlipBit(b []byte, bit int) []byte {
	out := append([]byte(nil), b...)
	bit %= 8 * len(out)
	out[bit/8] ^= 1 << uint(bit%8)
	return out
}

func c02MsgClass(n int) string {
	switch {
	case n == 0:
		return "len:0"
	case n < 48:
		return "len:1-47"
	case n < 112:
		return "len:48-111"
	case n <= 256:
		return "len:112-256"
	case n <= 1024:
		return "len:257-1024"
	}
	return "len:1025-2000"
}

func c02CtxClass(n int) string {
	switch {
	case n == 0:
		return "ctx:0"
	case n == 1:
		return "ctx:1"
	case n == 17:
		return "ctx:17"
	case n == 255:
		return "ctx:255"
	case n > 255:
		return "ctx:>255"
	}
	return "ctx:2-254"
}
