//go:build verif

package ed25519_test

// C02 (f): every invalid combination of options / context length / hash /
// message-hash length / key length / entropy failure yields (nil, err) and
// never a signature; every valid combination signs without error (control
// class, compared with crypto/ed25519).

import (
	"bytes"
	"crypto"
	stded "crypto/ed25519"
	"sort"
	"strings"
	"testing"

	"pgregory.net/rapid"
	h "verifh"

	"github.com/oasisprotocol/curve25519-voi/primitives/ed25519"
)

type c02BadCase struct {
	Seed    h.Hex
	Msg     h.Hex
	CtxLen  int
	CtxSeed uint64
	Hash    uint // crypto.Hash value: 0 and crypto.SHA512 (7) are the only legal ones
	Form    int  // opts passed as: 0 *ed25519.Options, 1 bare crypto.Hash, 2 *crypto/ed25519.Options{Hash} (only HashFunc() is honoured)
	Added   bool
	SelfV   bool
	VSel    int
	Flags   [5]bool // may be the illegal pair (AllowNonCanonicalR && CofactorlessVerify)
	KeyLen  int
	KeyPad  byte
	Ent     c02Ent // Limit in [0,32) = entropy source fails before 32 bytes
	PubBit  int    // >= 0: flip this bit of the public half of the private key (acts only with SelfVerify)
}

var c02MsgLens = []int{0, 1, 16, 20, 28, 32, 48, 63, 64, 64, 64, 65, 128, 2000}

func c02GenBad(t *rapid.T) c02BadCase {
	c := c02BadCase{KeyLen: 64, PubBit: -1}
	c.Seed = h.UniformBytes(t, 32, "seed")
	c.Form = rapid.SampledFrom([]int{0, 0, 0, 0, 1, 2}).Draw(t, "form")
	// a valid baseline
	if rapid.IntRange(0, 2).Draw(t, "ph") == 0 {
		c.Hash = uint(crypto.SHA512)
		c.Msg = h.UniformBytes(t, 64, "msg")
	} else {
		c.Msg = h.Expand(rapid.Uint64().Draw(t, "ms"), rapid.SampledFrom(c02MsgLens).Draw(t, "ml"))
	}
	c.CtxSeed = rapid.Uint64().Draw(t, "ctxseed")
	c.Ent = c02GenEnt(t, "ent")
	if c.Form == 0 {
		c.CtxLen = rapid.SampledFrom([]int{0, 0, 1, 17, 254, 255, 255}).Draw(t, "ctxlen")
		c.Added = rapid.Bool().Draw(t, "added")
		c.SelfV = rapid.Bool().Draw(t, "selfv")
		c.VSel = rapid.IntRange(0, 5).Draw(t, "vsel")
		if c.VSel == 5 {
			c.Flags = c02GenFlags(t, true)
		}
	}
	// break it in k ways
	k := rapid.SampledFrom([]int{0, 1, 1, 1, 1, 1, 2, 2, 3}).Draw(t, "nbreak")
	for i := 0; i < k; i++ {
		br := rapid.IntRange(0, 6).Draw(t, "breaker")
		if c.Form != 0 && (br == 0 || br == 1 || br == 5 || br == 6) {
			br = rapid.SampledFrom([]int{2, 3, 4}).Draw(t, "breaker2")
		}
		switch br {
		case 0: // illegal flag pair, even without SelfVerify
			c.VSel = 5
			c.Flags = c02GenFlags(t, false)
			c.Flags[3], c.Flags[4] = true, true
		case 1:
			c.CtxLen = rapid.SampledFrom([]int{256, 256, 257, 300, 300, 511, 512, 1024, 65791}).Draw(t, "longctx")
		case 2: // a hash other than 0 / SHA-512, with message lengths that match popular digest sizes
			c.Hash = uint(rapid.SampledFrom([]crypto.Hash{crypto.SHA256, crypto.SHA256, crypto.SHA384, crypto.SHA1, crypto.MD5, crypto.SHA224,
				crypto.SHA512_256, crypto.SHA512_224, crypto.SHA3_512, crypto.SHA3_256, crypto.BLAKE2b_512, crypto.BLAKE2b_256,
				crypto.Hash(20), crypto.Hash(255), crypto.Hash(1 << 16), crypto.Hash(7 + 256)}).Draw(t, "badhash"))
			if rapid.Bool().Draw(t, "relen") {
				c.Msg = h.Expand(rapid.Uint64().Draw(t, "ms2"), rapid.SampledFrom(c02MsgLens).Draw(t, "ml2"))
			}
		case 3: // Ed25519ph with a "hash" that is not 64 bytes long
			c.Hash = uint(crypto.SHA512)
			c.Msg = h.Expand(rapid.Uint64().Draw(t, "ms3"), rapid.SampledFrom([]int{0, 1, 32, 48, 63, 65, 127, 128, 2000}).Draw(t, "ml3"))
		case 4:
			c.KeyLen = rapid.SampledFrom([]int{0, 1, 31, 32, 33, 63, 65, 96, 128}).Draw(t, "keylen")
			c.KeyPad = rapid.Byte().Draw(t, "keypad")
		case 5: // entropy source dries up before 32 bytes
			c.Added = true
			c.Ent.Limit = rapid.SampledFrom([]int{0, 1, 16, 31}).Draw(t, "entlimit")
		case 6: // SelfVerify must notice a signature that does not verify (public half damaged)
			c.SelfV = true
			c.PubBit = rapid.IntRange(0, 255).Draw(t, "pubbit")
		}
	}
	return c
}

func c02CheckBad(c c02BadCase) h.Result {
	r := h.NewR()
	hash := crypto.Hash(c.Hash)
	isOpts := c.Form == 0
	var reasons []string
	if isOpts && c02IllegalPair(c.VSel, c.Flags) {
		reasons = append(reasons, "illegal-flag-pair")
	}
	if isOpts && c.CtxLen > 255 {
		reasons = append(reasons, "context-too-long")
	}
	if hash != crypto.Hash(0) && hash != crypto.SHA512 {
		reasons = append(reasons, "bad-hash")
	}
	if hash == crypto.SHA512 && len(c.Msg) != 64 {
		reasons = append(reasons, "ph-message-length")
	}
	if c.KeyLen != 64 {
		reasons = append(reasons, "key-length")
	}
	added, selfV := isOpts && c.Added, isOpts && c.SelfV
	if added && c.Ent.Limit >= 0 && c.Ent.Limit < 32 {
		reasons = append(reasons, "short-entropy")
	}
	flipPub := selfV && c.PubBit >= 0 && c.KeyLen == 64
	if flipPub {
		reasons = append(reasons, "self-verify-inconsistent-key")
	}
	sort.Strings(reasons)

	// the private key, built by the oracle side
	spriv := stded.NewKeyFromSeed(c.Seed)
	key := append([]byte(nil), spriv...)
	if flipPub {
		copy(key[32:], c02FlipBit(key[32:], c.PubBit))
	}
	for len(key) < c.KeyLen {
		key = append(key, c.KeyPad)
	}
	key = key[:c.KeyLen]
	key0 := append([]byte(nil), key...)

	ctx := ""
	if isOpts {
		ctx = string(h.Expand(c.CtxSeed, c.CtxLen))
	}
	var opts crypto.SignerOpts
	switch c.Form {
	case 0:
		opts = &ed25519.Options{Hash: hash, Context: ctx, AddedRandomness: c.Added, SelfVerify: c.SelfV, Verify: c02VOpts(c.VSel, c.Flags)}
	case 1:
		opts = hash
	default:
		opts = &stded.Options{Hash: hash}
	}
	form := []string{"form:*Options", "form:crypto.Hash", "form:foreign-SignerOpts"}[c.Form]
	msg := append([]byte(nil), c.Msg...)

	var sig []byte
	var err error
	r.Eval(1)
	if p, v := h.Catch(func() { sig, err = ed25519.PrivateKey(key).Sign(c.Ent.Reader(), msg, opts) }); p {
		return r.NT(true).Class(form, "panic").Fail("PrivateKey.Sign:panic", "reasons=%v keylen=%d ctxlen=%d hash=%d msglen=%d: %v", reasons, c.KeyLen, c.CtxLen, c.Hash, len(c.Msg), v).Result()
	}
	if !bytes.Equal(key, key0) || !bytes.Equal(msg, c.Msg) {
		return r.Fail("PrivateKey.Sign:input-modified", "reasons=%v", reasons).Result()
	}
	if len(reasons) > 0 {
		r.NT(true).Class(form, "invalid:"+strings.Join(reasons, "+"))
		for _, rs := range reasons {
			r.Class("reason:" + rs)
		}
		if sig != nil || err == nil {
			r.Fail("PrivateKey.Sign:signature-despite-"+reasons[0], "reasons=%v keylen=%d ctxlen=%d hash=%d msglen=%d added=%v selfverify=%v flags=%v entlimit=%d sig=%x err=%v",
				reasons, c.KeyLen, c.CtxLen, c.Hash, len(c.Msg), c.Added, c.SelfV, c.Flags, c.Ent.Limit, sig, err)
		}
		return r.Result()
	}

	// valid control: must sign, and sign correctly
	vname := "pure"
	if hash == crypto.SHA512 {
		vname = "ph"
	} else if len(ctx) > 0 {
		vname = "ctx"
	}
	r.Class(form, "valid", "variant:"+vname, c02CtxClass(len(ctx)))
	r.NT(len(ctx) > 0 || vname == "ph" || added || selfV || len(c.Msg) > 47)
	r.Eval(1)
	if err != nil || len(sig) != 64 {
		return r.Fail("PrivateKey.Sign:error-on-valid-input", "ctxlen=%d hash=%d msglen=%d added=%v selfverify=%v verify=%s flags=%v err=%v", c.CtxLen, c.Hash, len(c.Msg), c.Added, c.SelfV, c02PresetNames[c.VSel], c.Flags, err).Result()
	}
	sopts := &stded.Options{Hash: hash, Context: ctx}
	det, serr := spriv.Sign(nil, c.Msg, sopts)
	if serr != nil {
		return r.Fail("oracle:crypto/ed25519-sign-error", "%v", serr).Result()
	}
	r.Eval(1)
	if !added {
		if !bytes.Equal(sig, det) {
			r.Fail("PrivateKey.Sign:differs-from-rfc8032", "seed=%x ctxlen=%d hash=%d msglen=%d got=%x want=%x", []byte(c.Seed), c.CtxLen, c.Hash, len(c.Msg), sig, det)
		}
		return r.Result()
	}
	if bytes.Equal(sig[:32], det[:32]) {
		return r.Fail("PrivateKey.Sign:added-randomness-reuses-deterministic-nonce", "seed=%x", []byte(c.Seed)).Result()
	}
	if stded.VerifyWithOptions(stded.PublicKey(spriv[32:]), c.Msg, sig, sopts) != nil {
		r.Fail("PrivateKey.Sign:signature-rejected-by-crypto/ed25519", "seed=%x sig=%x", []byte(c.Seed), sig)
	}
	return r.Result()
}

func TestC02Invalid(t *testing.T) { h.Run(t, c02GenBad, c02CheckBad) }
