//go:build verif

package ed25519_test

// C02 (a), key side: NewKeyFromSeed and GenerateKey(reader) are RFC 8032
// 5.1.5 byte for byte (verifref and crypto/ed25519), GenerateKey consumes its
// entropy with ReadFull semantics and fails cleanly when the source dries up.

import (
	"bytes"
	stded "crypto/ed25519"
	"testing"

	"pgregory.net/rapid"
	h "verifh"
	ref "verifref"

	"github.com/oasisprotocol/curve25519-voi/primitives/ed25519"
)

type c02KeyCase struct {
	Seed  h.Hex // wrong lengths are the documented panic class of NewKeyFromSeed
	Cls   string
	Chunk int // GenerateKey reads Seed (repeated) in pieces of at most Chunk bytes
	Limit int // ... and the source ends after Limit bytes (-1: never)
	Bit   int
	// EOFData: the read delivering the last available byte also returns io.EOF
	EOFData bool `json:",omitempty"`
}

func c02GenKey(t *rapid.T) c02KeyCase {
	var c c02KeyCase
	c.Seed, c.Cls = c02GenSeed(t, "seed")
	if rapid.IntRange(0, 24).Draw(t, "badlen") == 0 {
		n := rapid.SampledFrom([]int{0, 1, 31, 33, 64}).Draw(t, "len")
		c.Seed = h.UniformBytes(t, n, "short")
		c.Cls = "bad-length"
	}
	c.Chunk = rapid.SampledFrom([]int{1, 2, 7, 16, 31, 32, 33, 64}).Draw(t, "chunk")
	c.Limit = -1
	switch rapid.IntRange(0, 9).Draw(t, "lim") {
	case 0:
		c.Limit = rapid.SampledFrom([]int{0, 1, 16, 31}).Draw(t, "limit")
	case 1:
		c.Limit = rapid.SampledFrom([]int{32, 33, 64}).Draw(t, "limit")
	case 2:
		c.Limit = rapid.SampledFrom([]int{32, 32, 33, 64}).Draw(t, "limit")
		c.EOFData = true
	}
	c.Bit = rapid.IntRange(0, 511).Draw(t, "bit")
	return c
}

func c02CheckKey(c c02KeyCase) h.Result {
	r := h.NewR().Class("seed:" + c.Cls)
	seed := append([]byte(nil), c.Seed...)
	if len(seed) != ed25519.SeedSize {
		r.NT(true).Eval(1)
		if p, _ := h.Catch(func() { ed25519.NewKeyFromSeed(seed) }); !p {
			r.Fail("ed25519.NewKeyFromSeed:no-panic-on-bad-seed-length", "len=%d", len(seed))
		}
		return r.Result()
	}
	r.NT(c.Cls != "uniform" || c.Chunk < 32 || c.Limit >= 0)
	wantPub := ref.EdPublicKey(c.Seed)
	spriv := stded.NewKeyFromSeed(c.Seed)
	if !bytes.Equal(wantPub, spriv[32:]) {
		return r.Fail("oracle:verifref-vs-crypto/ed25519-disagree", "seed=%x ref=%x std=%x", seed, wantPub, []byte(spriv[32:])).Result()
	}
	want := append(append([]byte(nil), c.Seed...), wantPub...)

	r.Eval(2)
	priv := ed25519.NewKeyFromSeed(seed)
	if !bytes.Equal(priv, want) {
		return r.Fail("ed25519.NewKeyFromSeed:differs-from-rfc8032", "seed=%x got=%x want=%x", seed, []byte(priv), want).Result()
	}
	if !bytes.Equal(seed, c.Seed) {
		return r.Fail("ed25519.NewKeyFromSeed:input-modified", "seed=%x", []byte(c.Seed)).Result()
	}

	// accessors
	r.Eval(4)
	pubI := priv.Public()
	pub, ok := pubI.(ed25519.PublicKey)
	if !ok || !bytes.Equal(pub, wantPub) {
		return r.Fail("PrivateKey.Public:wrong", "seed=%x got=%x", seed, []byte(pub)).Result()
	}
	if !bytes.Equal(priv.Seed(), c.Seed) {
		return r.Fail("PrivateKey.Seed:wrong", "seed=%x got=%x", seed, priv.Seed()).Result()
	}
	other := ed25519.PrivateKey(c02FlipBit(priv, c.Bit))
	if !priv.Equal(ed25519.PrivateKey(append([]byte(nil), priv...))) || priv.Equal(other) || priv.Equal(pub) {
		return r.Fail("PrivateKey.Equal:wrong", "seed=%x bit=%d", seed, c.Bit).Result()
	}
	opub := ed25519.PublicKey(c02FlipBit(pub, c.Bit%256))
	if !pub.Equal(ed25519.PublicKey(append([]byte(nil), pub...))) || pub.Equal(opub) || pub.Equal(priv) {
		return r.Fail("PublicKey.Equal:wrong", "seed=%x bit=%d", seed, c.Bit).Result()
	}

	// GenerateKey from a generated entropy reader
	ent := c02Ent{Kind: 5, Bytes: c.Seed, Chunk: c.Chunk, Limit: c.Limit, EOFData: c.EOFData}
	rd := ent.Reader()
	r.Eval(1)
	gpub, gpriv, err := ed25519.GenerateKey(rd)
	if c.Limit >= 0 && c.Limit < 32 {
		r.Class("entropy:short")
		if err == nil || gpub != nil || gpriv != nil {
			r.Fail("ed25519.GenerateKey:key-from-short-entropy", "limit=%d pub=%x err=%v", c.Limit, []byte(gpub), err)
		}
		return r.Result()
	}
	r.Class("entropy:ok")
	if err != nil {
		return r.Fail("ed25519.GenerateKey:error-on-good-entropy", "chunk=%d limit=%d err=%v", c.Chunk, c.Limit, err).Result()
	}
	if !bytes.Equal(gpriv, want) || !bytes.Equal(gpub, wantPub) {
		return r.Fail("ed25519.GenerateKey:differs-from-rfc8032", "entropy=%x chunk=%d got=%x want=%x", seed, c.Chunk, []byte(gpriv), want).Result()
	}
	// the two returned keys are independent values: writing to one (wiping the
	// private key, corrupting a copy of the public key in place) leaves the other
	gpub[0] ^= 0xff
	if !bytes.Equal(gpriv, want) {
		return r.Fail("ed25519.GenerateKey:public-key-aliases-private-key", "writing to the returned public key changed the private key").Result()
	}
	gpub[0] ^= 0xff
	for i := range gpriv {
		gpriv[i] = 0
	}
	if !bytes.Equal(gpub, wantPub) {
		return r.Fail("ed25519.GenerateKey:public-key-aliases-private-key", "wiping the returned private key changed the public key").Result()
	}
	return r.Result()
}

func TestC02KeyGen(t *testing.T) { h.Run(t, c02GenKey, c02CheckKey) }
