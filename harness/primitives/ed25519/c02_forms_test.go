//go:build verif

package ed25519_test

// C02 — the remaining ways of CALLING the signer: nil options (documented:
// "This routine will panic if opts is nil"), the package-level Sign with a
// private key of the wrong length (documented panic), and a foreign
// crypto.SignerOpts implementation that carries a context the library's
// type assertion cannot see.  For the last one nothing is documented; the only
// acceptable outcomes are an error, or a signature that is a valid RFC 8032
// signature under ONE definite variant (the requested context honoured, or
// plain Ed25519 / Ed25519ph because only HashFunc() was consulted) - which
// one is recorded, a signature valid under neither is a violation.

import (
	"crypto"
	stded "crypto/ed25519"
	"crypto/sha512"
	"testing"

	"github.com/oasisprotocol/curve25519-voi/primitives/ed25519"
	h "verifh"
)

type c02FormCase struct {
	V   int
	Len int
}

func c02CheckForm(c c02FormCase) h.Result {
	r := h.NewR().NT(true)
	seed := h.Expand(0xf02, 32)
	priv := ed25519.NewKeyFromSeed(seed)
	spub := stded.NewKeyFromSeed(seed).Public().(stded.PublicKey)
	msg := []byte("c02 forms")
	switch c.V {
	case 0:
		r.Class("opts=nil").Eval(1)
		if p, _ := h.Catch(func() { _, _ = priv.Sign(nil, msg, nil) }); !p {
			r.Fail("PrivateKey.Sign:documented-panic-missing", "opts == nil")
		}
	case 1:
		r.Class("opts=(*Options)(nil)").Eval(1)
		var sig []byte
		var err error
		if p, _ := h.Catch(func() { sig, err = priv.Sign(nil, msg, (*ed25519.Options)(nil)) }); !p && err == nil {
			// not refused: then it can only be a plain Ed25519 signature
			if !stded.Verify(spub, msg, sig) {
				r.Fail("PrivateKey.Sign:invalid-signature-with-typed-nil-options", "sig=%x", sig)
			}
		}
	case 2:
		r.Class("Sign(bad-key-length)").Eval(1)
		bad := make([]byte, c.Len)
		copy(bad, priv)
		if p, _ := h.Catch(func() { _ = ed25519.Sign(ed25519.PrivateKey(bad), msg) }); !p {
			r.Fail("ed25519.Sign:documented-panic-missing", "private key of %d bytes", c.Len)
		}
	case 3, 4:
		r.Class("foreign-SignerOpts-with-context").Eval(1)
		fo := &stded.Options{Context: "a context the library cannot see"}
		m := msg
		if c.V == 4 {
			d := sha512.Sum512(msg)
			fo.Hash, m = crypto.SHA512, d[:]
		}
		var sig []byte
		var err error
		if p, v := h.Catch(func() { sig, err = priv.Sign(nil, m, fo) }); p {
			return r.Fail("PrivateKey.Sign:panic", "foreign options: %v", v).Result()
		}
		if err != nil {
			r.Class("foreign-context:refused")
			return r.Result()
		}
		honoured := stded.VerifyWithOptions(spub, m, sig, fo) == nil
		ignored := stded.VerifyWithOptions(spub, m, sig, &stded.Options{Hash: fo.Hash}) == nil
		switch {
		case honoured:
			r.Class("foreign-context:honoured")
		case ignored:
			r.Class("foreign-context:ignored(only HashFunc consulted)")
		default:
			r.Fail("PrivateKey.Sign:signature-valid-under-no-variant", "foreign options %+v: sig=%x", fo, sig)
		}
	}
	return r.Result()
}

func TestC02Forms(t *testing.T) {
	cases := []c02FormCase{{V: 0}, {V: 1}, {V: 3}, {V: 4}}
	for _, n := range []int{0, 1, 31, 32, 63, 65, 96} {
		cases = append(cases, c02FormCase{V: 2, Len: n})
	}
	h.RunList(t, cases, c02CheckForm)
}
