//go:build verif

package ed25519_test

// C02 / C09 — the documented default entropy source: "If rand is nil,
// crypto/rand.Reader will be used".  Every other check hands the library a
// generated reader, so this branch needs its own, metamorphic, oracle: two
// calls give DIFFERENT but VALID results (the values come from the operating
// system and are not a function of the seed; the assertions hold for every
// value except with probability ~2^-128).

import (
	"bytes"
	stded "crypto/ed25519"
	"testing"

	"github.com/oasisprotocol/curve25519-voi/primitives/ed25519"
	h "verifh"
	ref "verifref"
)

type c02NilCase struct{ V int }

func c02CheckNil(c c02NilCase) h.Result {
	r := h.NewR().NT(true).Class([]string{"GenerateKey(nil)", "Sign(nil,hedged)", "Sign(nil,hedged,ctx)", "BatchVerifier.Verify(nil)", "BatchVerifier.VerifyBatchOnly(nil)"}[c.V])
	seed := h.Expand(0xc02, 32)
	priv := ed25519.NewKeyFromSeed(seed)
	pub := priv.Public().(ed25519.PublicKey)
	msg := []byte("c02 nil entropy")
	switch c.V {
	case 0:
		r.Eval(3)
		p1, k1, err1 := ed25519.GenerateKey(nil)
		p2, k2, err2 := ed25519.GenerateKey(nil)
		if err1 != nil || err2 != nil || len(k1) != 64 || len(k2) != 64 {
			return r.Fail("ed25519.GenerateKey(nil):error", "%v %v", err1, err2).Result()
		}
		if bytes.Equal(k1[:32], k2[:32]) || bytes.Equal(k1[:32], make([]byte, 32)) {
			r.Fail("ed25519.GenerateKey(nil):not-random", "seeds %x %x", k1[:32], k2[:32])
		}
		for _, kp := range []struct {
			p ed25519.PublicKey
			k ed25519.PrivateKey
		}{{p1, k1}, {p2, k2}} {
			if w := ref.EdPublicKey(kp.k[:32]); !bytes.Equal(kp.p, w) || !bytes.Equal(kp.k[32:], w) {
				r.Fail("ed25519.GenerateKey(nil):inconsistent-pair", "seed=%x pub=%x want=%x", kp.k[:32], []byte(kp.p), w)
			}
		}
	case 1, 2:
		r.Eval(4)
		opts := &ed25519.Options{AddedRandomness: true}
		so := &stded.Options{}
		if c.V == 2 {
			opts.Context, so.Context = "c02-nil", "c02-nil"
		}
		det, err := priv.Sign(nil, msg, &ed25519.Options{Context: opts.Context})
		if err != nil {
			return r.Fail("PrivateKey.Sign:error-on-valid-input", "%v", err).Result()
		}
		s1, err1 := priv.Sign(nil, msg, opts)
		s2, err2 := priv.Sign(nil, msg, opts)
		if err1 != nil || err2 != nil || len(s1) != 64 || len(s2) != 64 {
			return r.Fail("PrivateKey.Sign(nil,hedged):error", "%v %v", err1, err2).Result()
		}
		if bytes.Equal(s1[:32], s2[:32]) || bytes.Equal(s1[:32], det[:32]) || bytes.Equal(s2[:32], det[:32]) {
			r.Fail("PrivateKey.Sign(nil,hedged):not-random", "R1=%x R2=%x deterministic R=%x", s1[:32], s2[:32], det[:32])
		}
		// not the signature for all-zero entropy either (a nil reader must not become a zero reader)
		v := ref.EdPure
		if c.V == 2 {
			v = ref.EdCtx
		}
		if z := ref.EdSignHedged(seed, v, []byte(opts.Context), msg, make([]byte, 32)); bytes.Equal(s1, z) || bytes.Equal(s2, z) {
			r.Fail("PrivateKey.Sign(nil,hedged):zero-entropy", "signature equals the one for 32 zero bytes of entropy")
		}
		for _, s := range [][]byte{s1, s2} {
			if stded.VerifyWithOptions(stded.PublicKey(pub), msg, s, so) != nil {
				r.Fail("PrivateKey.Sign(nil,hedged):rejected-by-crypto/ed25519", "sig=%x", s)
			}
		}
	case 3, 4:
		r.Eval(4)
		for _, spoil := range []bool{false, true} {
			bv := ed25519.NewBatchVerifier()
			var want []bool
			for i := 0; i < 5; i++ {
				k := ed25519.NewKeyFromSeed(h.Expand(uint64(0xb00+i), 32))
				m := h.Expand(uint64(0xc00+i), 10+i)
				sig := ed25519.Sign(k, m)
				ok := true
				if spoil && i == 3 {
					m = append(m, 1)
					ok = false
				}
				bv.Add(k.Public().(ed25519.PublicKey), m, sig)
				want = append(want, ok)
			}
			if c.V == 4 {
				if got := bv.VerifyBatchOnly(nil); got != !spoil {
					r.Fail("BatchVerifier.VerifyBatchOnly(nil):wrong-decision", "spoiled=%v got=%v", spoil, got)
				}
				continue
			}
			all, each := bv.Verify(nil)
			if all != !spoil || len(each) != len(want) {
				r.Fail("BatchVerifier.Verify(nil):wrong-summary", "spoiled=%v all=%v each=%v", spoil, all, each)
				continue
			}
			for i := range want {
				if each[i] != want[i] {
					r.Fail("BatchVerifier.Verify(nil):wrong-entry", "spoiled=%v entry %d got %v", spoil, i, each[i])
				}
			}
		}
	}
	return r.Result()
}

func TestC02NilEntropy(t *testing.T) {
	var cases []c02NilCase
	for v := 0; v < 5; v++ {
		cases = append(cases, c02NilCase{V: v})
	}
	h.RunList(t, cases, c02CheckNil)
}
