//go:build verif

package ed25519_test

// C06 — all arithmetic backends are observationally identical:
// primitives/ed25519 (key generation, all signing variants with generated
// entropy, verification under every preset and arbitrary flag sets, expanded
// keys, batch verification with a generated entropy reader).

import (
	"crypto"
	"encoding/binary"
	"fmt"
	"testing"

	"github.com/oasisprotocol/curve25519-voi/primitives/ed25519"
	"pgregory.net/rapid"
	h "verifh"
)

var c06Presets = []*ed25519.VerifyOptions{nil, ed25519.VerifyOptionsDefault, ed25519.VerifyOptionsStdLib, ed25519.VerifyOptionsFIPS_186_5, ed25519.VerifyOptionsZIP_215}

func c06Flags(m int) *ed25519.VerifyOptions {
	return &ed25519.VerifyOptions{AllowSmallOrderA: m&1 != 0, AllowSmallOrderR: m&2 != 0, AllowNonCanonicalA: m&4 != 0,
		AllowNonCanonicalR: m&8 != 0, CofactorlessVerify: m&16 != 0}
}

func c06VOptsOut(o *h.DiffOut, tag string, v *ed25519.VerifyOptions) {
	m := 0
	for i, b := range []bool{v.AllowSmallOrderA, v.AllowSmallOrderR, v.AllowNonCanonicalA, v.AllowNonCanonicalR, v.CofactorlessVerify} {
		if b {
			m |= 1 << uint(i)
		}
	}
	o.Int(tag, int64(m))
}

// c06GenVariant appends ph (N), ctx (B); the message generator must produce 64
// bytes for ph most of the time (anything else is a documented error).
func c06GenVariant(t *rapid.T, c *h.DiffCase) (ph bool) {
	k := rapid.IntRange(0, 9).Draw(t, "variant")
	ph = k >= 7
	if ph {
		c.PutN(1)
	} else {
		c.PutN(0)
	}
	switch {
	case k < 4: // pure
		c.PutB(nil)
	default:
		n := rapid.SampledFrom([]int{1, 3, 32, 254, 255, 255, 256, 0}).Draw(t, "ctxlen")
		c.PutB(h.UniformBytes(t, n, "ctx"))
	}
	return ph
}

func c06GenMsg(t *rapid.T, c *h.DiffCase, ph bool) {
	if ph && rapid.IntRange(0, 9).Draw(t, "phlen") != 0 {
		c.PutB(h.UniformBytes(t, 64, "msg"))
		return
	}
	h.DiffMsg(t, c, 300, "msg")
}

func c06Opts(ph bool, ctx []byte) *ed25519.Options {
	o := &ed25519.Options{Context: string(ctx)}
	if ph {
		o.Hash = crypto.SHA512
	}
	return o
}

// c06VerifyAll runs every verification entry point on (pk, msg, sig).  A
// panic (documented for bad key / pre-hash / context lengths and incompatible
// flags) is part of the output.
func c06VerifyAll(o *h.DiffOut, pk, msg, sig []byte, ph bool, ctx []byte, flags int) {
	xpk, err := ed25519.NewExpandedPublicKey(pk)
	o.Err("expand", err)
	if xpk != nil {
		cy := xpk.CompressedY()
		o.Bytes("expand.y", cy[:])
	}
	if !ph && len(ctx) == 0 {
		o.Panics("verify", func() { o.Bool("verify", ed25519.Verify(pk, msg, sig)) })
		if xpk != nil {
			o.Panics("verifyexpanded", func() { o.Bool("verifyexpanded", ed25519.VerifyExpanded(xpk, msg, sig)) })
		}
	}
	vos := append([]*ed25519.VerifyOptions{}, c06Presets...)
	vos = append(vos, c06Flags(flags))
	for i, vo := range vos {
		opts := c06Opts(ph, ctx)
		opts.Verify = vo
		o.Panics(fmt.Sprintf("opts%d", i), func() { o.Bool("ok", ed25519.VerifyWithOptions(pk, msg, sig, opts)) })
		if xpk != nil {
			o.Panics(fmt.Sprintf("xopts%d", i), func() { o.Bool("ok", ed25519.VerifyExpandedWithOptions(xpk, msg, sig, opts)) })
		}
	}
}

func c06PutEdCase(c *h.DiffCase, ec h.EdCase) {
	if ec.Ph {
		c.PutN(1)
	} else {
		c.PutN(0)
	}
	c.PutB(ec.Ctx)
	c.PutB(ec.PK)
	c.PutB(ec.Msg)
	c.PutB(ec.Sig)
}

func c06Ed25519Ops() []h.DiffOp {
	return []h.DiffOp{
		{Name: "keygen", Weight: 3,
			Covers: []string{"NewKeyFromSeed", "GenerateKey", "PrivateKey.Public", "PrivateKey.Seed", "PrivateKey.Equal", "PublicKey.Equal", "NewExpandedPublicKey", "ExpandedPublicKey.CompressedY"},
			Gen: func(t *rapid.T, c *h.DiffCase) {
				if rapid.IntRange(0, 7).Draw(t, "hostile") == 0 {
					h.DiffSized(t, c, 32, "seed")
				} else {
					h.DiffEntropy(t, c, 32, "seed")
				}
			},
			Exec: func(a *h.DiffArgs, o *h.DiffOut) {
				seed := a.B()
				var priv ed25519.PrivateKey
				// documented: panics if len(seed) != SeedSize
				if o.Panics("newkey", func() { priv = ed25519.NewKeyFromSeed(seed) }) {
					return
				}
				o.Bytes("priv", priv)
				pub := priv.Public().(ed25519.PublicKey)
				o.Bytes("pub", pub)
				o.Bytes("seed", priv.Seed())
				gpub, gpriv, err := ed25519.GenerateKey(h.NewDiffReader(seed))
				o.Err("generate", err)
				o.Bytes("gpub", gpub)
				o.Bytes("gpriv", gpriv)
				o.Bool("priv.equal", priv.Equal(gpriv))
				o.Bool("pub.equal", pub.Equal(gpub))
				o.Bool("pub.equal.other", pub.Equal(priv))
				xpk, err := ed25519.NewExpandedPublicKey(pub)
				o.Err("expand", err)
				if xpk != nil {
					cy := xpk.CompressedY()
					o.Bytes("expand.y", cy[:])
				}
			}},
		{Name: "sign", Weight: 8,
			Covers: []string{"Sign", "PrivateKey.Sign", "Options.HashFunc", "Verify", "VerifyWithOptions", "VerifyExpanded", "VerifyExpandedWithOptions", "NewKeyFromSeed"},
			Gen: func(t *rapid.T, c *h.DiffCase) {
				h.DiffEntropy(t, c, 32, "seed")
				ph := c06GenVariant(t, c)
				c06GenMsg(t, c, ph)
				c.PutN(rapid.IntRange(0, 3).Draw(t, "rand|selfverify"))
				h.DiffEntropy(t, c, rapid.SampledFrom([]int{32, 32, 64, 0, 1, 31}).Draw(t, "zlen"), "z")
				c.PutN(rapid.IntRange(0, 31).Draw(t, "flags"))
			},
			Exec: func(a *h.DiffArgs, o *h.DiffOut) {
				seed := a.B()
				if len(seed) != 32 {
					return
				}
				priv := ed25519.NewKeyFromSeed(seed)
				ph, ctx, msg, mode := a.N() == 1, a.B(), a.B(), a.N()
				z, flags := a.B(), a.N()
				opts := c06Opts(ph, ctx)
				opts.AddedRandomness = mode&1 != 0
				opts.SelfVerify = mode&2 != 0
				o.Int("hashfunc", int64(opts.HashFunc()))
				var sig []byte
				var err error
				// Sign returns errors for bad options; a context above 255 bytes panics in dom2 construction only after validation
				if o.Panics("sign", func() { sig, err = priv.Sign(h.NewDiffReader(z), msg, opts) }) {
					return
				}
				o.Err("sign", err)
				o.Bytes("sig", sig)
				if !ph && len(ctx) == 0 {
					o.Bytes("sign.plain", ed25519.Sign(priv, msg))
					s2, err := priv.Sign(h.NewDiffReader(z), msg, crypto.Hash(0))
					o.Err("sign.hash0", err)
					o.Bytes("sign.hash0", s2)
				}
				if err != nil {
					return
				}
				pub := priv.Public().(ed25519.PublicKey)
				c06VerifyAll(o, pub, msg, sig, ph, ctx, flags)
				// a one-bit change must be rejected the same way everywhere
				if len(sig) == 64 {
					bad := append([]byte{}, sig...)
					bad[flags%64] ^= 1 << uint(flags%8)
					c06VerifyAll(o, pub, msg, bad, ph, ctx, flags)
				}
			}},
		{Name: "verify", Weight: 8,
			Covers: []string{"Verify", "VerifyWithOptions", "VerifyExpanded", "VerifyExpandedWithOptions", "NewExpandedPublicKey", "ExpandedPublicKey.CompressedY",
				"VerifyOptionsDefault", "VerifyOptionsStdLib", "VerifyOptionsFIPS_186_5", "VerifyOptionsZIP_215"},
			Gen: func(t *rapid.T, c *h.DiffCase) {
				c06PutEdCase(c, h.GenEdCase(t))
				c.PutN(rapid.IntRange(0, 31).Draw(t, "flags"))
			},
			Exec: func(a *h.DiffArgs, o *h.DiffOut) {
				ph, ctx, pk, msg, sig := a.N() == 1, a.B(), a.B(), a.B(), a.B()
				flags := a.N()
				if len(pk) != ed25519.PublicKeySize {
					// documented panic of the non-expanded entry points
					o.Panics("badkey", func() { ed25519.Verify(pk, msg, sig) })
					return
				}
				c06VerifyAll(o, pk, msg, sig, ph, ctx, flags)
			}},
		{Name: "batch", Weight: 4,
			Covers: []string{"NewBatchVerifier", "NewBatchVerifierWithCapacity", "BatchVerifier.Add", "BatchVerifier.AddWithOptions", "BatchVerifier.AddExpanded",
				"BatchVerifier.AddExpandedWithOptions", "BatchVerifier.ForceNoPublicKeyExpansion", "BatchVerifier.Reset", "BatchVerifier.Verify", "BatchVerifier.VerifyBatchOnly"},
			Gen: func(t *rapid.T, c *h.DiffCase) {
				// n library-signed entries (derived from a seed inside exec) + up to 2 reference-built edge entries
				k := rapid.IntRange(0, 49).Draw(t, "sizeclass")
				n := 0
				switch {
				case k < 30:
					n = rapid.IntRange(0, 6).Draw(t, "n")
				case k < 45:
					n = rapid.IntRange(7, 40).Draw(t, "n")
				case k < 48: // the batch switches from expanded keys to Pippenger at 94 entries
					n = rapid.SampledFrom([]int{92, 93, 94, 95}).Draw(t, "n")
				default:
					n = rapid.SampledFrom([]int{250, 400}).Draw(t, "n")
				}
				c.PutN(n)
				c.PutB(h.UniformBytes(t, 8, "seed"))
				c.PutN(rapid.IntRange(-1, n).Draw(t, "corrupt")) // index of a corrupted entry, -1/n = none
				c.PutN(rapid.IntRange(0, 3).Draw(t, "mode"))     // bit0: ForceNoPublicKeyExpansion, bit1: with capacity
				ne := rapid.IntRange(0, 2).Draw(t, "edge")
				c.PutN(ne)
				for i := 0; i < ne; i++ {
					c06PutEdCase(c, h.GenEdCase(t))
					c.PutN(rapid.IntRange(0, 15).Draw(t, "flags")) // never cofactorless here (separately below)
				}
				c.PutN(rapid.IntRange(0, 9).Draw(t, "cofactorless"))
				h.DiffEntropy(t, c, 32, "rand")
			},
			Exec: func(a *h.DiffArgs, o *h.DiffOut) {
				n := a.N()
				if n < 0 || n > 1000 {
					n = 0
				}
				seedB := a.B()
				var seed uint64
				if len(seedB) >= 8 {
					seed = binary.LittleEndian.Uint64(seedB)
				}
				corrupt, mode, ne := a.N(), a.N(), a.N()
				var v *ed25519.BatchVerifier
				if mode&2 != 0 {
					v = ed25519.NewBatchVerifierWithCapacity(n)
				} else {
					v = ed25519.NewBatchVerifier()
				}
				if mode&1 != 0 {
					v.ForceNoPublicKeyExpansion()
				}
				for i := 0; i < n; i++ {
					priv := ed25519.NewKeyFromSeed(h.Expand(seed+uint64(i/3), 32)) // keys repeat
					pub := priv.Public().(ed25519.PublicKey)
					msg := h.Expand(seed^uint64(i), i%70)
					var opts *ed25519.Options
					switch i % 5 {
					case 3:
						opts = c06Opts(false, []byte("c06 batch ctx"))
					case 4:
						opts = c06Opts(true, nil)
						msg = h.Expand(seed^uint64(i), 64)
					default:
						opts = c06Opts(false, nil)
					}
					opts.Verify = c06Presets[i%len(c06Presets)]
					if opts.Verify == ed25519.VerifyOptionsStdLib {
						opts.Verify = ed25519.VerifyOptionsZIP_215 // StdLib is cofactorless: not batchable
					}
					sig, err := priv.Sign(h.NewDiffReader(nil), msg, opts)
					if err != nil {
						o.Err("sign", err)
						continue
					}
					if i == corrupt {
						sig[(i*7)%64] ^= 0x04
					}
					switch i % 4 {
					case 0:
						if i%5 < 3 && opts.Verify == nil {
							v.Add(pub, msg, sig)
						} else {
							v.AddWithOptions(pub, msg, sig, opts)
						}
					case 1:
						v.AddWithOptions(pub, msg, sig, opts)
					case 2:
						xpk, _ := ed25519.NewExpandedPublicKey(pub)
						if i%5 < 3 && opts.Verify == nil {
							v.AddExpanded(xpk, msg, sig)
						} else {
							v.AddExpandedWithOptions(xpk, msg, sig, opts)
						}
					default:
						xpk, _ := ed25519.NewExpandedPublicKey(pub)
						v.AddExpandedWithOptions(xpk, msg, sig, opts)
					}
				}
				for i := 0; i < ne && i < 4; i++ {
					ph, ctx, pk, msg, sig := a.N() == 1, a.B(), a.B(), a.B(), a.B()
					opts := c06Opts(ph, ctx)
					opts.Verify = c06Flags(a.N() & 15)
					if len(pk) != ed25519.PublicKeySize {
						continue
					}
					v.AddWithOptions(pk, msg, sig, opts)
				}
				if a.N() == 0 && n > 0 { // one cofactorless entry forces the serial path
					priv := ed25519.NewKeyFromSeed(h.Expand(seed, 32))
					opts := c06Opts(false, nil)
					opts.Verify = ed25519.VerifyOptionsStdLib
					msg := []byte("cofactorless")
					sig, _ := priv.Sign(h.NewDiffReader(nil), msg, opts)
					v.AddWithOptions(priv.Public().(ed25519.PublicKey), msg, sig, opts)
				}
				rnd := a.B()
				o.Bool("batchonly", v.VerifyBatchOnly(h.NewDiffReader(rnd)))
				ok, valid := v.Verify(h.NewDiffReader(rnd))
				o.Bool("verify", ok)
				vb := make([]byte, len(valid))
				for i, b := range valid {
					if b {
						vb[i] = 1
					}
				}
				o.Bytes("valid", vb)
				v.Reset()
				ok, valid = v.Verify(h.NewDiffReader(rnd))
				o.Bool("reset.verify", ok)
				o.Int("reset.valid", int64(len(valid)))
				o.Bool("reset.batchonly", v.VerifyBatchOnly(h.NewDiffReader(rnd)))
			}},
		{Name: "presets", Weight: 1,
			Covers: []string{"VerifyOptionsDefault", "VerifyOptionsStdLib", "VerifyOptionsFIPS_186_5", "VerifyOptionsZIP_215", "Options.HashFunc"},
			Exec: func(a *h.DiffArgs, o *h.DiffOut) {
				c06VOptsOut(o, "default", ed25519.VerifyOptionsDefault)
				c06VOptsOut(o, "stdlib", ed25519.VerifyOptionsStdLib)
				c06VOptsOut(o, "fips", ed25519.VerifyOptionsFIPS_186_5)
				c06VOptsOut(o, "zip215", ed25519.VerifyOptionsZIP_215)
				o.Int("hash0", int64((&ed25519.Options{}).HashFunc()))
				o.Int("hash512", int64((&ed25519.Options{Hash: crypto.SHA512}).HashFunc()))
			}},
	}
}

func TestC06Ed25519(t *testing.T) {
	h.RunDiffOps(t, "primitives/ed25519", h.DiffBackend(""), c06Ed25519Ops())
}
