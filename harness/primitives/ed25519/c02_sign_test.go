//go:build verif

package ed25519_test

// C02 (a)-(e): byte-exact deterministic signing for pure/ctx/ph against two
// independent oracles, canonical R and S<L, verifiability under every preset
// (singly and in a batch), metamorphic rejection after single-bit changes, and
// the added-randomness construction.

import (
	"bytes"
	"crypto"
	stded "crypto/ed25519"
	"testing"

	"pgregory.net/rapid"
	h "verifh"
	ref "verifref"

	"github.com/oasisprotocol/curve25519-voi/primitives/ed25519"
)

type c02Other struct {
	Seed    h.Hex
	Msg     h.Hex
	Ctx     h.Hex
	Ph      bool
	VSel    int // 0 nil, 1 Default, 3 FIPS, 4 ZIP215 (never cofactorless)
	Corrupt int // 0 honest, 1 message changed, 2 S bit flipped, 3 R bit flipped, 4 signed by another key
	Bit     int
}

type c02SignCase struct {
	Seed     h.Hex
	SeedCls  string
	Msg      h.Hex // for ph: the 64-byte prehash
	MsgCls   string
	Ctx      h.Hex
	Ph       bool
	Added    bool
	SelfV    bool
	VSel     int     // Options.Verify: 0 nil, 1 Default, 2 StdLib, 3 FIPS, 4 ZIP215, 5 custom flags
	Flags    [5]bool // custom (always a legal combination here)
	Ent1     c02Ent
	Ent2     c02Ent
	Chunk1b  int   // re-read of Ent1 with another short-read size
	SigBits  []int // signature bits to flip (0..511)
	MsgBit   int
	KeyBit   int
	CtxBit   int
	Others   []c02Other
	BatchEnt c02Ent
	NoExpand bool
	Deep     bool // also run the (slow) reference verifiers
}

func c02GenSign(t *rapid.T) c02SignCase {
	var c c02SignCase
	c.Seed, c.SeedCls = c02GenSeed(t, "seed")
	c.Ctx = c02GenCtx(t, "ctx")
	c.Ph = rapid.IntRange(0, 3).Draw(t, "ph") == 0
	v, _, _ := c02Variant(c.Ph, c.Ctx)
	d2 := len(ref.Dom2(v, c.Ctx))
	c.Msg = c02GenMsg(t, "msg", c.Ph, d2)
	c.MsgCls = "plain"
	if rapid.IntRange(0, 5).Draw(t, "rsearch") == 0 && len(c.Msg) >= 2 {
		crit := rapid.SampledFrom([]string{"r-min", "r-max"}).Draw(t, "rcrit")
		c.Msg = c02SearchNonce(c.Seed, v, c.Ctx, c.Msg, crit, 512)
		c.MsgCls = "search:" + crit
	}
	c.Added = rapid.IntRange(0, 2).Draw(t, "added") == 0
	c.SelfV = rapid.IntRange(0, 2).Draw(t, "selfv") == 0
	c.VSel = rapid.IntRange(0, 5).Draw(t, "vsel")
	if c.VSel == 5 {
		c.Flags = c02GenFlags(t, true)
	}
	c.Ent1 = c02GenEnt(t, "e1")
	c.Ent2 = c02GenEnt(t, "e2")
	if rapid.IntRange(0, 7).Draw(t, "sameent") == 0 {
		c.Ent2 = c.Ent1
		c.Ent2.Chunk = 3
	}
	c.Chunk1b = rapid.SampledFrom([]int{1, 3, 32, 64}).Draw(t, "chunk1b")
	nb := rapid.IntRange(3, 6).Draw(t, "nsigbits")
	for i := 0; i < nb; i++ {
		if rapid.Bool().Draw(t, "sbk") {
			c.SigBits = append(c.SigBits, rapid.SampledFrom([]int{0, 1, 7, 8, 248, 252, 253, 254, 255, 256, 257, 263, 264, 500, 504, 507, 508, 509, 510, 511}).Draw(t, "sigbit"))
		} else {
			c.SigBits = append(c.SigBits, rapid.IntRange(0, 511).Draw(t, "sigbit"))
		}
	}
	c.MsgBit = rapid.IntRange(0, 1<<20).Draw(t, "msgbit")
	c.KeyBit = rapid.IntRange(0, 255).Draw(t, "keybit")
	if rapid.IntRange(0, 3).Draw(t, "keytop") == 0 {
		c.KeyBit = 255 - rapid.IntRange(0, 7).Draw(t, "keyhi")
	}
	c.CtxBit = rapid.IntRange(0, 1<<12).Draw(t, "ctxbit")
	no := rapid.IntRange(0, 3).Draw(t, "nothers")
	for i := 0; i < no; i++ {
		var o c02Other
		o.Seed = h.UniformBytes(t, 32, "oseed")
		if rapid.IntRange(0, 3).Draw(t, "osame") == 0 {
			o.Seed = append(h.Hex(nil), c.Seed...)
		}
		o.Ph = rapid.IntRange(0, 3).Draw(t, "oph") == 0
		if rapid.Bool().Draw(t, "octx") {
			o.Ctx = h.UniformBytes(t, rapid.SampledFrom([]int{1, 9, 255}).Draw(t, "octxn"), "octxb")
		}
		if o.Ph {
			o.Msg = h.UniformBytes(t, 64, "omsg")
		} else {
			o.Msg = h.Msg(t, 200, "omsg")
		}
		o.VSel = rapid.SampledFrom([]int{0, 1, 3, 4}).Draw(t, "ovsel")
		if rapid.IntRange(0, 3).Draw(t, "ocorrupt") == 0 {
			o.Corrupt = rapid.IntRange(1, 4).Draw(t, "ocorr")
		}
		o.Bit = rapid.IntRange(0, 255).Draw(t, "obit")
		c.Others = append(c.Others, o)
	}
	c.BatchEnt = c02GenEnt(t, "be")
	c.BatchEnt.Limit, c.BatchEnt.EOFData = -1, false // how much a batch verifier reads is not documented: endless source
	c.NoExpand = rapid.Bool().Draw(t, "noexpand")
	c.Deep = rapid.IntRange(0, 7).Draw(t, "deep") == 0
	return c
}

// c02Selectors are the verification configurations every produced signature
// must pass: nil, the four presets, and the case's own custom flag set.
func c02Selectors(c *c02SignCase) []int {
	s := []int{0, 1, 2, 3, 4}
	if c.VSel == 5 {
		s = append(s, 5)
	}
	return s
}

func c02CheckSign(c c02SignCase) h.Result {
	r := h.NewR()
	variant, hash, vname := c02Variant(c.Ph, c.Ctx)
	// private copies are handed to the library; the case itself stays pristine
	seed, msg, ctx := append([]byte(nil), c.Seed...), append([]byte(nil), c.Msg...), append([]byte(nil), c.Ctx...)
	oseed, omsg, octx := []byte(c.Seed), []byte(c.Msg), []byte(c.Ctx) // oracle side
	d2len := len(ref.Dom2(variant, ctx))
	r.Class("variant:"+vname, c02CtxClass(len(ctx)), c02MsgClass(len(msg)), "seed:"+c.SeedCls, "msg:"+c.MsgCls,
		"verify:"+c02PresetNames[c.VSel])
	if c.Added {
		r.Class("added-randomness")
	}
	if c.SelfV {
		r.Class("self-verify")
	}
	multiBlock := d2len+32+len(msg) > 111
	if multiBlock {
		r.Class("multi-block")
	}
	r.NT(len(ctx) > 0 || c.Ph || c.Added || c.SelfV || multiBlock)

	id := func() string {
		return "seed=" + c.Seed.String() + " variant=" + vname
	}

	// ---- (a) key derivation (second oracle here: crypto/ed25519; verifref in TestC02KeyGen)
	priv := ed25519.NewKeyFromSeed(append([]byte(nil), seed...))
	spriv := stded.NewKeyFromSeed(oseed)
	spub := []byte(spriv[32:]) // oracle-side public key
	r.Eval(1)
	if !bytes.Equal(priv, spriv) {
		return r.Fail("ed25519.NewKeyFromSeed:differs-from-crypto/ed25519", "%s got=%x want=%x", id(), []byte(priv), []byte(spriv)).Result()
	}
	pub := ed25519.PublicKey(append([]byte(nil), priv[32:]...))

	vo := c02VOpts(c.VSel, c.Flags)
	mkOpts := func(added bool) *ed25519.Options {
		return &ed25519.Options{Hash: hash, Context: string(ctx), AddedRandomness: added, SelfVerify: c.SelfV, Verify: vo}
	}

	// ---- (a) deterministic signing, two oracles
	det, err := priv.Sign(c.Ent1.Reader(), msg, mkOpts(false))
	r.Eval(1)
	if err != nil || det == nil {
		return r.Fail("PrivateKey.Sign:error-on-valid-input", "%s ctxlen=%d msglen=%d selfverify=%v verify=%s err=%v", id(), len(ctx), len(msg), c.SelfV, c02PresetNames[c.VSel], err).Result()
	}
	// Reference signature.  Deep cases use ref.EdSign (recomputes A = [a]B itself);
	// the others use the cheaper ref.C02SignWithPub with A taken from crypto/ed25519
	// (A itself is compared with the math/big reference in TestC02KeyGen).
	refSign := func(z []byte) []byte {
		if c.Deep {
			if z == nil {
				return ref.EdSign(oseed, variant, octx, omsg)
			}
			return ref.EdSignHedged(oseed, variant, octx, omsg, z)
		}
		return ref.C02SignWithPub(oseed, spub, variant, octx, omsg, z)
	}
	want := refSign(nil)
	swant, serr := spriv.Sign(nil, omsg, &stded.Options{Hash: hash, Context: string(octx)})
	if serr != nil || !bytes.Equal(want, swant) {
		return r.Fail("oracle:verifref-vs-crypto/ed25519-disagree", "%s ref=%x std=%x err=%v", id(), want, swant, serr).Result()
	}
	r.Eval(2)
	if !bytes.Equal(det, want) {
		return r.Fail("PrivateKey.Sign:differs-from-rfc8032", "%s ctxlen=%d msglen=%d got=%x want=%x", id(), len(ctx), len(msg), det, want).Result()
	}
	// same result through the other entry points
	if variant == ref.EdPure {
		r.Eval(1)
		if got := ed25519.Sign(priv, msg); !bytes.Equal(got, want) {
			return r.Fail("ed25519.Sign:differs-from-rfc8032", "%s msglen=%d got=%x want=%x", id(), len(msg), got, want).Result()
		}
	}
	if len(ctx) == 0 {
		// opts as a bare crypto.Hash value (crypto.Hash(0) / crypto.SHA512)
		r.Eval(1)
		got, err := priv.Sign(c.Ent1.Reader(), msg, crypto.SignerOpts(hash))
		if err != nil || !bytes.Equal(got, want) {
			return r.Fail("PrivateKey.Sign:bare-hash-opts-differs-from-rfc8032", "%s hash=%d msglen=%d got=%x want=%x err=%v", id(), uint(hash), len(msg), got, want, err).Result()
		}
	}

	// ---- (e) added randomness
	sigs := [][]byte{det}
	names := []string{"deterministic"}
	if c.Added {
		z1, z2 := c.Ent1.Stream(32), c.Ent2.Stream(32)
		hed1, err := priv.Sign(c.Ent1.Reader(), msg, mkOpts(true))
		r.Eval(1)
		if err != nil || hed1 == nil {
			return r.Fail("PrivateKey.Sign:error-on-valid-input", "added randomness; %s err=%v", id(), err).Result()
		}
		// same entropy (delivered in different pieces) => same signature
		e1b := c.Ent1
		e1b.Chunk = c.Chunk1b
		hed1b, err := priv.Sign(e1b.Reader(), msg, mkOpts(true))
		r.Eval(1)
		if err != nil || !bytes.Equal(hed1, hed1b) {
			return r.Fail("PrivateKey.Sign:added-randomness-not-a-function-of-entropy", "%s z=%x sig1=%x sig2=%x err=%v", id(), z1, hed1, hed1b, err).Result()
		}
		// the documented construction, evaluated by the reference
		r.Eval(1)
		if hw := refSign(z1); !bytes.Equal(hed1, hw) {
			return r.Fail("PrivateKey.Sign:added-randomness-differs-from-construction", "%s ctxlen=%d msglen=%d z=%x got=%x want=%x", id(), len(ctx), len(msg), z1, hed1, hw).Result()
		}
		// never the deterministic nonce
		r.Eval(1)
		if bytes.Equal(hed1[:32], det[:32]) {
			return r.Fail("PrivateKey.Sign:added-randomness-reuses-deterministic-nonce", "%s z=%x R=%x", id(), z1, hed1[:32]).Result()
		}
		// other entropy => other R
		hed2, err := priv.Sign(c.Ent2.Reader(), msg, mkOpts(true))
		r.Eval(1)
		if err != nil || hed2 == nil {
			return r.Fail("PrivateKey.Sign:error-on-valid-input", "added randomness (2); %s err=%v", id(), err).Result()
		}
		if bytes.Equal(z1, z2) {
			if !bytes.Equal(hed1, hed2) {
				return r.Fail("PrivateKey.Sign:added-randomness-not-a-function-of-entropy", "%s z=%x", id(), z1).Result()
			}
		} else {
			if bytes.Equal(hed1[:32], hed2[:32]) {
				return r.Fail("PrivateKey.Sign:added-randomness-ignores-entropy", "%s z1=%x z2=%x R=%x", id(), z1, z2, hed1[:32]).Result()
			}
			if bytes.Equal(hed2[:32], det[:32]) {
				return r.Fail("PrivateKey.Sign:added-randomness-reuses-deterministic-nonce", "%s z=%x", id(), z2).Result()
			}
		}
		sigs = append(sigs, hed1, hed2)
		names = append(names, "hedged", "hedged2")
	}

	// ---- (b) canonical R, S < L; (c) verifies under every preset, singly
	sels := c02Selectors(&c)
	// "verifies" means through EVERY verification entry point: the plain one and
	// the one that takes a precomputed (expanded) public key are siblings with
	// their own copies of the variant handling
	verify := func(sel int, pk, m, s, cx []byte, hs crypto.Hash) bool {
		o := &ed25519.Options{Hash: hs, Context: string(cx), Verify: c02VOpts(sel, c.Flags)}
		plain := ed25519.VerifyWithOptions(ed25519.PublicKey(pk), m, s, o)
		if epk, err := ed25519.NewExpandedPublicKey(ed25519.PublicKey(pk)); err == nil {
			if ed25519.VerifyExpandedWithOptions(epk, m, s, o) != plain {
				r.Fail("ed25519.VerifyExpandedWithOptions:differs-from-plain", "%s preset=%s pk=%x ctx=%x msglen=%d sig=%x plain=%v", id(), c02PresetNames[sel], pk, cx, len(m), s, plain)
			}
		}
		return plain
	}
	for i, sig := range sigs {
		r.Eval(2)
		if len(sig) != ed25519.SignatureSize {
			return r.Fail("PrivateKey.Sign:bad-signature-length", "%s %s len=%d", id(), names[i], len(sig)).Result()
		}
		if di := ref.Decode(sig[:32]); !di.OK || !di.Canonical {
			return r.Fail("PrivateKey.Sign:non-canonical-R", "%s %s sig=%x", id(), names[i], sig).Result()
		}
		if ref.FromLE(sig[32:]).Cmp(ref.L) >= 0 {
			return r.Fail("PrivateKey.Sign:S-not-below-L", "%s %s sig=%x", id(), names[i], sig).Result()
		}
		for _, sel := range sels {
			r.Eval(1)
			if !verify(sel, pub, msg, sig, ctx, hash) {
				return r.Fail("ed25519.VerifyWithOptions:rejects-own-signature", "%s %s preset=%s ctxlen=%d msglen=%d sig=%x", id(), names[i], c02PresetNames[sel], len(ctx), len(msg), sig).Result()
			}
		}
		if variant == ref.EdPure {
			r.Eval(1)
			if !ed25519.Verify(pub, msg, sig) {
				return r.Fail("ed25519.Verify:rejects-own-signature", "%s %s sig=%x", id(), names[i], sig).Result()
			}
		}
		// independent verifiers: crypto/ed25519 always, verifref when Deep (hedged2: stdlib only)
		r.Eval(1)
		if err := stded.VerifyWithOptions(spub, omsg, sig, &stded.Options{Hash: hash, Context: string(octx)}); err != nil {
			return r.Fail("PrivateKey.Sign:signature-rejected-by-crypto/ed25519", "%s %s sig=%x", id(), names[i], sig).Result()
		}
		if c.Deep && i < 2 {
			facts := ref.EdAnalyse(variant, octx, spub, omsg, sig)
			for _, sel := range sels {
				r.Eval(1)
				if !facts.Decide(c02RefFlags(sel, c.Flags)) {
					return r.Fail("PrivateKey.Sign:signature-rejected-by-reference", "%s %s preset=%s sig=%x", id(), names[i], c02PresetNames[sel], sig).Result()
				}
			}
			if i == len(sigs)-1 || i == 1 {
				r.Eval(2)
				if !ref.EdVerifyRFC8032(variant, octx, spub, omsg, sig) || !ref.EdVerifyZIP215(variant, octx, spub, omsg, sig) {
					return r.Fail("PrivateKey.Sign:signature-rejected-by-reference", "%s %s separately coded RFC 8032 / ZIP-215 verifier; sig=%x", id(), names[i], sig).Result()
				}
			}
		}
	}

	// ---- (d) metamorphic rejection (honest key): the signature under test is the
	// hedged one when there is one, the deterministic one otherwise.
	sut := sigs[0]
	if c.Added {
		sut = sigs[1]
	}
	type mut struct {
		what         string
		pk, m, s, cx []byte
		hs           crypto.Hash
	}
	var muts []mut
	add := func(what string, pk, m, s, cx []byte, hs crypto.Hash) {
		muts = append(muts, mut{what: what, pk: pk, m: m, s: s, cx: cx, hs: hs})
	}
	if len(msg) > 0 {
		add("message-bit", pub, c02FlipBit(msg, c.MsgBit), sut, ctx, hash)
	}
	if !c.Ph {
		add("message-extended", pub, append(append([]byte(nil), msg...), 0), sut, ctx, hash)
		if len(msg) > 0 {
			add("message-truncated", pub, msg[:len(msg)-1], sut, ctx, hash)
		}
	}
	add("key-bit", c02FlipBit(pub, c.KeyBit), msg, sut, ctx, hash)
	if len(ctx) > 0 {
		add("context-bit", pub, msg, sut, c02FlipBit(ctx, c.CtxBit), hash)
		add("context-truncated", pub, msg, sut, ctx[:len(ctx)-1], hash)
	}
	if len(ctx) < ed25519.ContextMaxSize {
		add("context-extended", pub, msg, sut, append(append([]byte(nil), ctx...), 0), hash)
	}
	if len(msg) == 64 {
		other := crypto.SHA512
		if c.Ph {
			other = crypto.Hash(0)
		}
		add("variant-switched", pub, msg, sut, ctx, other)
	}
	for _, b := range c.SigBits {
		add("signature-bit", pub, msg, c02FlipBit(sut, b), ctx, hash)
	}
	for _, m := range muts {
		for _, sel := range sels {
			r.Eval(1)
			if verify(sel, m.pk, m.m, m.s, m.cx, m.hs) {
				return r.Fail("ed25519.VerifyWithOptions:accepts-after-"+m.what+"-change", "%s preset=%s pk=%x ctx=%x msglen=%d sig=%x (original sig=%x)", id(), c02PresetNames[sel], m.pk, m.cx, len(m.m), m.s, sut).Result()
			}
		}
	}

	// ---- (c) in a batch together with other entries
	type bent struct {
		pk, m, s, cx []byte
		hs           crypto.Hash
		sel          int
		want         bool
		what         string
	}
	var batch []bent
	for i, sig := range sigs {
		for _, sel := range sels {
			if c02Cofactorless(sel, c.Flags) {
				continue
			}
			if i > 0 && sel != 1 && sel != c.VSel {
				continue // hedged signatures: Default preset and the case's own
			}
			batch = append(batch, bent{pub, msg, sig, ctx, hash, sel, true, names[i]})
		}
	}
	for _, o := range c.Others {
		if (o.Ph && len(o.Msg) != 64) || len(o.Ctx) > 255 || len(o.Seed) != 32 {
			continue // documented panic classes, not this property's
		}
		_, ohash, _ := c02Variant(o.Ph, o.Ctx)
		opriv := stded.NewKeyFromSeed(o.Seed)
		osig, err := opriv.Sign(nil, o.Msg, &stded.Options{Hash: ohash, Context: string(o.Ctx)})
		if err != nil {
			return r.Fail("oracle:crypto/ed25519-sign-error", "%v", err).Result()
		}
		e := bent{[]byte(opriv[32:]), []byte(o.Msg), osig, []byte(o.Ctx), ohash, o.VSel, true, "other"}
		switch o.Corrupt {
		case 1:
			if len(e.m) > 0 {
				e.m = c02FlipBit(e.m, o.Bit)
			} else {
				e.m = []byte{0}
			}
			e.want = false
		case 2:
			e.s = c02FlipBit(e.s, 256+o.Bit)
			e.want = false
		case 3:
			e.s = c02FlipBit(e.s, o.Bit)
			e.want = false
		case 4:
			if !bytes.Equal(e.pk, spub) {
				e.pk = spub
				e.want = false
			}
		}
		if !e.want {
			e.what = "corrupted-other"
		}
		batch = append(batch, e)
	}
	// One verifier for all the batches of this case, reset in between (a fresh
	// verifier for every other case): state recycled by Reset must not leak
	// from one batch into the next.  The order is chosen so that a batch with
	// cofactor-less entries is followed by a purely cofactored one.
	sharedBV := ed25519.NewBatchVerifier()
	runBatch := func(entries []bent, label string) bool {
		bv := sharedBV.Reset()
		if len(c.Msg)%2 == 1 {
			bv = ed25519.NewBatchVerifier()
		}
		if c.NoExpand {
			bv.ForceNoPublicKeyExpansion()
		}
		allWant, anyCofactorless := true, false
		for _, e := range entries {
			bv.AddWithOptions(ed25519.PublicKey(e.pk), e.m, e.s, &ed25519.Options{Hash: e.hs, Context: string(e.cx), Verify: c02VOpts(e.sel, c.Flags)})
			allWant = allWant && e.want
			anyCofactorless = anyCofactorless || c02Cofactorless(e.sel, c.Flags)
		}
		r.Eval(2 + len(entries))
		all, bits := bv.Verify(c.BatchEnt.Reader())
		if len(bits) != len(entries) {
			r.Fail("BatchVerifier.Verify:wrong-result-length", "%s %s got %d want %d", id(), label, len(bits), len(entries))
			return false
		}
		for i, e := range entries {
			if bits[i] != e.want {
				if e.want {
					r.Fail("BatchVerifier.Verify:rejects-valid-entry", "%s %s entry %d (%s, preset=%s) of %d sig=%x", id(), label, i, e.what, c02PresetNames[e.sel], len(entries), e.s)
				} else {
					r.Fail("BatchVerifier.Verify:accepts-invalid-entry", "%s %s entry %d (%s, preset=%s) of %d sig=%x", id(), label, i, e.what, c02PresetNames[e.sel], len(entries), e.s)
				}
				return false
			}
		}
		if all != allWant {
			r.Fail("BatchVerifier.Verify:wrong-summary-bit", "%s %s got %v want %v (%d entries)", id(), label, all, allWant, len(entries))
			return false
		}
		// VerifyBatchOnly: true iff every entry is valid; documented to return
		// false whenever an entry asks for cofactor-less verification.
		bo := bv.VerifyBatchOnly(c.BatchEnt.Reader())
		if bo != (allWant && !anyCofactorless) {
			r.Fail("BatchVerifier.VerifyBatchOnly:wrong-result", "%s %s got %v want %v (cofactorless entry: %v, %d entries)", id(), label, bo, allWant && !anyCofactorless, anyCofactorless, len(entries))
			return false
		}
		return true
	}
	if !runBatch(batch, "cofactored-batch") {
		return r.Result()
	}
	// The same batch plus entries that ask for cofactor-less verification
	// (StdLib preset, and the custom flag set when it is cofactor-less).
	withCl := append([]bent(nil), batch...)
	for i, sig := range sigs {
		if i > 1 {
			break
		}
		withCl = append(withCl, bent{pub, msg, sig, ctx, hash, 2, true, names[i] + "/StdLib"})
		if c.VSel == 5 && c.Flags[4] {
			withCl = append(withCl, bent{pub, msg, sig, ctx, hash, 5, true, names[i] + "/custom-cofactorless"})
		}
	}
	if len(c.Others) > 0 && c.Others[0].Corrupt == 0 {
		// rotate so that the cofactor-less entries are not always last
		withCl = append(withCl[len(withCl)-1:], withCl[:len(withCl)-1]...)
	}
	if !runBatch(withCl, "mixed-batch") {
		return r.Result()
	}
	if c.VSel == 5 && c.Flags[4] {
		// Only the custom cofactor-less flag set, without StdLib entries: when it
		// also rejects small-order R the entry carries a decompressed R, so the
		// documented "false" of VerifyBatchOnly cannot come about by accident.
		onlyCustom := append([]bent(nil), batch...)
		onlyCustom = append(onlyCustom, bent{pub, msg, sut, ctx, hash, 5, true, "custom-cofactorless"})
		if !runBatch(onlyCustom, "custom-cofactorless-batch") {
			return r.Result()
		}
	}

	// ... and once more the purely cofactored batch on the recycled verifier
	if !runBatch(batch, "cofactored-batch-after-reset") {
		return r.Result()
	}

	// inputs must not have been modified
	if !bytes.Equal(seed, c.Seed) || !bytes.Equal(msg, c.Msg) || !bytes.Equal(ctx, c.Ctx) || !bytes.Equal(priv, spriv) || !bytes.Equal(pub, spub) {
		r.Fail("PrivateKey.Sign:input-modified", "%s", id())
	}
	return r.Result()
}

func TestC02Sign(t *testing.T) { h.Run(t, c02GenSign, c02CheckSign) }
