//go:build verif

package ed25519_test

// C01 — Ed25519 verification decides exactly the configured specification
// predicate.
//
// Every case (variant, context, key bytes, message, signature bytes) is
// analysed ONCE by the math/big reference (ref.EdAnalyse: length, S < L,
// decodability / canonicity / small order of A and R, the cofactored and the
// cofactorless equation with k over the bytes as sent) and then the library
// is asked under all 32 VerifyOptions combinations:
//   - the 24 legal ones must return facts.Decide(flags) — literally the
//     predicate of the property statement;
//   - the 8 containing AllowNonCanonicalR && CofactorlessVerify must panic
//     (documented as incompatible);
//   - the presets: Default (also Options.Verify == nil and plain Verify),
//     StdLib == Go's crypto/ed25519, FIPS 186-5 == ref.EdVerifyRFC8032,
//     ZIP-215 == ref.EdVerifyZIP215 (both written separately from the
//     predicate; disagreement between the references is a harness error, never
//     a violation);
//   - VerifyExpandedWithOptions must give the same bit / the same panic.
// Inputs violating a documented precondition (key length, pre-hash length,
// context length, nil options) must panic, exactly then.

import (
	"bytes"
	"crypto"
	stded "crypto/ed25519"
	"fmt"
	"io"
	"math/big"
	"strings"
	"sync"
	"testing"

	"github.com/oasisprotocol/curve25519-voi/primitives/ed25519"
	h "verifh"
	ref "verifref"
)

var c01HarnessErrOnce sync.Once

// c01OracleDisagree reports an inconsistency between the independent
// references.  It is surfaced as a harness error (exit 2), not a violation.
func c01OracleDisagree(what string, c h.EdCase) {
	c01HarnessErrOnce.Do(func() {
		fmt.Printf("VERIF-HARNESS-ERROR C01 oracle self-check failed: %s ph=%v ctx=%x pk=%x msg=%x sig=%x\n",
			what, c.Ph, []byte(c.Ctx), []byte(c.PK), []byte(c.Msg), []byte(c.Sig))
	})
}

func c01Flags(m int) (ref.EdFlags, *ed25519.VerifyOptions) {
	fl := ref.EdFlags{
		AllowSmallOrderA:   m&1 != 0,
		AllowSmallOrderR:   m&2 != 0,
		AllowNonCanonicalA: m&4 != 0,
		AllowNonCanonicalR: m&8 != 0,
		Cofactorless:       m&16 != 0,
	}
	vo := &ed25519.VerifyOptions{
		AllowSmallOrderA:   fl.AllowSmallOrderA,
		AllowSmallOrderR:   fl.AllowSmallOrderR,
		AllowNonCanonicalA: fl.AllowNonCanonicalA,
		AllowNonCanonicalR: fl.AllowNonCanonicalR,
		CofactorlessVerify: fl.Cofactorless,
	}
	return fl, vo
}

var c01FlagNames = []string{"SmallOrderA", "SmallOrderR", "NonCanonicalA", "NonCanonicalR", "Cofactorless"}

var c01NoiseKey = ed25519.NewKeyFromSeed(bytes.Repeat([]byte{0x42}, 32))

type c01FailingReader struct{}

func (c01FailingReader) Read(p []byte) (int, error) { return 0, io.ErrUnexpectedEOF }

func c01Check(c h.EdCase) h.Result {
	r := h.NewR().Class("key:"+c.KeyCls, "sig:"+c.SigCls, "S:"+c.SCls, "mod:"+c.ModCls)
	pk, msg, sig := []byte(c.PK), []byte(c.Msg), []byte(c.Sig)
	pk0, msg0, sig0 := append([]byte(nil), pk...), append([]byte(nil), msg...), append([]byte(nil), sig...)
	hash := crypto.Hash(0)
	if c.Ph {
		hash = crypto.SHA512
	}
	ctxStr := string(c.Ctx)
	variant := c.Variant()
	r.Class(fmt.Sprintf("variant:%d", int(variant)))
	in := func() string {
		return fmt.Sprintf("ph=%v ctx=%x pk=%x msg=%x sig=%x", c.Ph, []byte(c.Ctx), pk, msg, sig)
	}

	// Verification is a function of its inputs only: what other calls did before
	// (here: a hedged context signing that FAILS while reading its entropy, on
	// every fourth case) must not influence the decision.
	if len(sig) > 0 && sig[0]&3 == 0 {
		r.Class("after-failed-sign")
		_, _ = c01NoiseKey.Sign(c01FailingReader{}, bytes.Repeat([]byte{7}, 64), &ed25519.Options{Hash: crypto.SHA512, Context: "c01-noise", AddedRandomness: true})
		_, _ = c01NoiseKey.Sign(c01FailingReader{}, []byte("noise"), &ed25519.Options{Context: "c01-noise", AddedRandomness: true})
	}

	// Documented panics of VerifyWithOptions: key length, pre-hash length,
	// context length (and nil options / the incompatible flag pair below).
	// VerifyExpandedWithOptions documents the same minus the key length.
	optPanic := (c.Ph && len(msg) != 64) || len(c.Ctx) > ed25519.ContextMaxSize
	keyPanic := len(pk) != ed25519.PublicKeySize
	docPanic := optPanic || keyPanic

	var facts ref.EdFacts
	if !keyPanic {
		facts = ref.EdAnalyse(variant, c.Ctx, pk, msg, sig)
	}
	if docPanic {
		r.Class("documented-panic")
	}

	epk, eerr := ed25519.NewExpandedPublicKey(pk)
	if eerr != nil {
		epk = nil
		r.Class("expanded-key:error")
	}
	if !keyPanic {
		r.Eval(1)
		// The expanded key must carry the bytes as sent.  (That a key the
		// constructor refuses is rejected by plain verification under every
		// flag set is asserted after the flag loop.)
		if epk != nil {
			cy := epk.CompressedY()
			if !bytes.Equal(cy[:], pk) {
				r.Fail("ed25519.ExpandedPublicKey.CompressedY:changed-bytes", "%s got=%x", in(), cy[:])
			}
		}
	}

	// one library call, with the panic outcome
	type outcome struct {
		panicked bool
		ok       bool
		pv       interface{}
	}
	plain := func(o *ed25519.Options) (out outcome) {
		out.panicked, out.pv = h.Catch(func() { out.ok = ed25519.VerifyWithOptions(pk, msg, sig, o) })
		return
	}
	expanded := func(o *ed25519.Options) (out outcome) {
		out.panicked, out.pv = h.Catch(func() { out.ok = ed25519.VerifyExpandedWithOptions(epk, msg, sig, o) })
		return
	}
	// judge compares one outcome with the expectation.  mayPanic: the flag set
	// is the documented INCOMPATIBLE pair; the documentation does not say how the
	// refusal is signalled (the panic list of VerifyWithOptions names lengths and
	// nil options only), so a panic and a plain false are both fine - only an
	// acceptance is not.
	judge := func(fn, cfg string, got outcome, wantPanic, mayPanic, want bool) {
		r.Eval(1)
		switch {
		case mayPanic && !wantPanic:
			if got.panicked {
				r.Class("incompatible-flag-pair:panics")
			} else if got.ok {
				r.Fail("ed25519."+fn+":accepts-under-incompatible-flag-pair", "config=%s %s", cfg, in())
			} else {
				r.Class("incompatible-flag-pair:returns-false")
			}
		case wantPanic && !got.panicked:
			r.Fail("ed25519."+fn+":documented-panic-missing", "config=%s %s returned %v", cfg, in(), got.ok)
		case !wantPanic && got.panicked:
			r.Fail("ed25519."+fn+":undocumented-panic", "config=%s %s panic=%v", cfg, in(), got.pv)
		case wantPanic:
		case got.ok && !want:
			r.Fail("ed25519."+fn+":accepts-what-the-predicate-rejects", "config=%s %s facts=%+v", cfg, in(), facts)
		case !got.ok && want:
			r.Fail("ed25519."+fn+":rejects-what-the-predicate-accepts", "config=%s %s facts=%+v", cfg, in(), facts)
		}
	}
	both := func(cfg string, o *ed25519.Options, illegal, want bool) {
		judge("VerifyWithOptions", cfg, plain(o), docPanic, illegal, want)
		if epk != nil {
			judge("VerifyExpandedWithOptions", cfg, expanded(o), optPanic, illegal, want)
		}
	}

	// ---- all 32 flag combinations
	var table [32]bool
	accepts := 0
	for m := 0; m < 32; m++ {
		fl, vo := c01Flags(m)
		illegal := fl.AllowNonCanonicalR && fl.Cofactorless
		want := false
		if !illegal && !keyPanic {
			want = facts.Decide(fl)
			table[m] = want
			if want {
				accepts++
			}
		}
		both(fmt.Sprintf("flags=%05b", m), &ed25519.Options{Hash: hash, Context: ctxStr, Verify: vo}, illegal, want)
		if r.Failed() {
			return r.Result()
		}
	}

	if eerr != nil && accepts > 0 {
		r.Fail("ed25519.NewExpandedPublicKey:refuses-key-the-plain-API-accepts", "%s err=%v", in(), eerr)
		return r.Result()
	}

	// ---- presets
	var wDef, wStd, wFIPS, wZIP bool
	if !keyPanic {
		wDef, wStd = facts.Decide(ref.EdFlagsDefault), facts.Decide(ref.EdFlagsStdLib)
		wFIPS, wZIP = facts.Decide(ref.EdFlagsFIPS), facts.Decide(ref.EdFlagsZIP215)
	}
	if !docPanic {
		// separately written references for the presets (oracle self-check)
		if got := ref.EdVerifyRFC8032(variant, c.Ctx, pk, msg, sig); got != wFIPS {
			c01OracleDisagree(fmt.Sprintf("EdVerifyRFC8032=%v predicate(FIPS flags)=%v", got, wFIPS), c)
			return r.Result()
		}
		if got := ref.EdVerifyZIP215(variant, c.Ctx, pk, msg, sig); got != wZIP {
			c01OracleDisagree(fmt.Sprintf("EdVerifyZIP215=%v predicate(ZIP-215 flags)=%v", got, wZIP), c)
			return r.Result()
		}
		var std bool
		if variant == ref.EdPure {
			std = stded.Verify(stded.PublicKey(pk), msg, sig)
		} else {
			std = stded.VerifyWithOptions(stded.PublicKey(pk), msg, sig, &stded.Options{Hash: hash, Context: ctxStr}) == nil
		}
		if std != wStd {
			c01OracleDisagree(fmt.Sprintf("crypto/ed25519=%v predicate(StdLib flags)=%v", std, wStd), c)
			return r.Result()
		}
	}
	both("preset=Default", &ed25519.Options{Hash: hash, Context: ctxStr, Verify: ed25519.VerifyOptionsDefault}, false, wDef)
	both("preset=nil", &ed25519.Options{Hash: hash, Context: ctxStr}, false, wDef)
	both("preset=StdLib", &ed25519.Options{Hash: hash, Context: ctxStr, Verify: ed25519.VerifyOptionsStdLib}, false, wStd)
	both("preset=FIPS_186_5", &ed25519.Options{Hash: hash, Context: ctxStr, Verify: ed25519.VerifyOptionsFIPS_186_5}, false, wFIPS)
	both("preset=ZIP_215", &ed25519.Options{Hash: hash, Context: ctxStr, Verify: ed25519.VerifyOptionsZIP_215}, false, wZIP)
	if variant == ref.EdPure {
		var o outcome
		o.panicked, o.pv = h.Catch(func() { o.ok = ed25519.Verify(pk, msg, sig) })
		judge("Verify", "default", o, keyPanic, false, wDef)
		if epk != nil {
			o = outcome{}
			o.panicked, o.pv = h.Catch(func() { o.ok = ed25519.VerifyExpanded(epk, msg, sig) })
			judge("VerifyExpanded", "default", o, false, false, wDef)
		}
	}
	// nil options: documented panic
	judge("VerifyWithOptions", "opts=nil", plain(nil), true, false, false)
	if epk != nil {
		judge("VerifyExpandedWithOptions", "opts=nil", expanded(nil), true, false, false)
	}

	// verification must not write to its inputs
	if !bytes.Equal(pk, pk0) || !bytes.Equal(msg, msg0) || !bytes.Equal(sig, sig0) {
		r.Fail("ed25519.VerifyWithOptions:modified-input", "before: pk=%x msg=%x sig=%x after: %s", pk0, msg0, sig0, in())
	}
	// ... nor the option PRESETS, which are package-level objects shared by every
	// caller (the decisions above were taken through them): still the documented
	// flag sets
	for _, p := range []struct {
		name string
		got  *ed25519.VerifyOptions
		want ref.EdFlags
	}{
		{"VerifyOptionsDefault", ed25519.VerifyOptionsDefault, ref.EdFlagsDefault},
		{"VerifyOptionsStdLib", ed25519.VerifyOptionsStdLib, ref.EdFlagsStdLib},
		{"VerifyOptionsFIPS_186_5", ed25519.VerifyOptionsFIPS_186_5, ref.EdFlagsFIPS},
		{"VerifyOptionsZIP_215", ed25519.VerifyOptionsZIP_215, ref.EdFlagsZIP215},
	} {
		if p.got == nil || (ref.EdFlags{AllowSmallOrderA: p.got.AllowSmallOrderA, AllowSmallOrderR: p.got.AllowSmallOrderR,
			AllowNonCanonicalA: p.got.AllowNonCanonicalA, AllowNonCanonicalR: p.got.AllowNonCanonicalR, Cofactorless: p.got.CofactorlessVerify}) != p.want {
			r.Fail("ed25519."+p.name+":modified", "now %+v, documented %+v", p.got, p.want)
		}
	}

	// ---- classification / non-trivial rule
	switch {
	case docPanic:
	case accepts == 0:
		r.Class("accept:none")
	case accepts == 24:
		r.Class("accept:all24")
	default:
		r.Class("accept:some")
	}
	if !docPanic {
		for b := 0; b < 5; b++ { // which flags are decisive for this input
			for m := 0; m < 32; m++ {
				m2 := m ^ (1 << uint(b))
				if (m&8 != 0 && m&16 != 0) || (m2&8 != 0 && m2&16 != 0) {
					continue
				}
				if table[m] != table[m2] {
					r.Class("decisive:" + c01FlagNames[b])
					break
				}
			}
		}
		for _, p := range []struct {
			n string
			v bool
		}{{"Default", wDef}, {"StdLib", wStd}, {"FIPS", wFIPS}, {"ZIP215", wZIP}} {
			if p.v {
				r.Class("accepted-by:" + p.n)
			}
		}
	}
	plainKey := c.KeyCls == "honest" || strings.HasPrefix(c.KeyCls, "bytes:uniform")
	plainSig := c.SigCls == "honest" || strings.HasPrefix(c.SigCls, "random:uniform")
	r.NT(docPanic || accepts > 0 || !plainKey || !plainSig || c.ModCls != "none" || !strings.HasPrefix(c.SCls, "valid"))
	return r.Result()
}

// TestC01Verify: constructed keys/signatures (honest, mixed-order, small-order
// in every encoding, torsion on R, boundary and malleable S, forged fields,
// cross-variant, wrong lengths) under every flag combination.
func TestC01Verify(t *testing.T) { h.Run(t, h.GenEdCase, c01Check) }

// TestC01Panics: inputs violating a documented precondition; the expected
// outcome is the panic (same check function, different generator).
func TestC01Panics(t *testing.T) { h.Run(t, h.GenEdPanicCase, c01Check) }

// c01MatrixCases enumerates every encoding of every small-order point as A
// and as R (14 x 14 strings) with S = 0 under four variant/message choices and
// with S = L, plus every non-canonical point string as A and as R against an
// honest counterpart.  Deterministic: identical at every seed.
func c01MatrixCases() []h.EdCase {
	encs, _ := h.EdSmallOrderEncodings()
	var cases []h.EdCase
	zero := make([]byte, 32)
	lbytes := ref.ToLE(ref.L, 32)
	type vr struct {
		ph  bool
		ctx []byte
		msg []byte
	}
	m64 := h.Expand(0xc01, 64)
	variants := []vr{
		{false, nil, []byte("c01 small-order matrix")},
		{false, nil, []byte{}},
		{false, []byte("ctx"), []byte("c01 small-order matrix")},
		{true, nil, m64},
	}
	for _, a := range encs {
		for _, rr := range encs {
			for vi, v := range variants {
				for si, s := range [][]byte{zero, lbytes} {
					if si == 1 && vi != 0 {
						continue
					}
					cases = append(cases, h.EdCase{Ph: v.ph, Ctx: h.Hex(v.ctx), PK: h.Hex(a), Msg: h.Hex(v.msg),
						Sig:    h.Hex(append(append([]byte(nil), rr...), s...)),
						KeyCls: "small/enum", SigCls: "smallR/enum", SCls: []string{"S=0", "S=L"}[si], ModCls: "none"})
				}
			}
		}
	}
	// every non-canonical string (26) and every y >= p string (38, on the curve
	// or not) as A with an honestly shaped signature, and as R for an honest key.
	var strs [][]byte
	strs = append(strs, h.AllNonCanonicalPointStrings()...)
	for _, y := range h.NonCanonicalYs() {
		for s := byte(0); s < 2; s++ {
			b := ref.ToLE(y, 32)
			b[31] |= s << 7
			strs = append(strs, b)
		}
	}
	seed := h.Expand(0xc0100, 32)
	a, _ := ref.EdExpand(seed)
	hpk := ref.EdPublicKey(seed)
	msg := []byte("c01 non-canonical strings")
	for _, s := range strs {
		// as A: signature R = [7]B, S = 7 (valid iff [k]A is small order)
		sg := append(ref.MulBase(ref.FromLE([]byte{7})).Encode(), ref.ToLE(ref.FromLE([]byte{7}), 32)...) // R = [7]B, S = 7
		cases = append(cases, h.EdCase{PK: h.Hex(s), Msg: h.Hex(msg), Sig: h.Hex(sg), Ctx: h.Hex{},
			KeyCls: "noncanon/enum", SigCls: "honest", SCls: "valid", ModCls: "none"})
		// as R with S = k*a: valid iff R is small order (and the flags admit it)
		k := ref.EdChallenge(ref.EdPure, nil, s, hpk, msg)
		sg = append(append([]byte(nil), s...), ref.SEncode(ref.SMul(k, a))...)
		cases = append(cases, h.EdCase{PK: h.Hex(hpk), Msg: h.Hex(msg), Sig: h.Hex(sg), Ctx: h.Hex{},
			KeyCls: "honest", SigCls: "noncanonR/enum", SCls: "valid", ModCls: "none"})
	}
	// S < L boundary with a signature that is valid whenever S is admitted:
	// A small order (so S = r is free), R = [r]B, S in {r, r+L, r+2L}.  r short
	// makes r+L share the top words of L; r near L walks the word-wise
	// comparison from below.
	two := func(k uint) *big.Int { return new(big.Int).Lsh(big.NewInt(1), k) }
	sub := func(a *big.Int, d int64) *big.Int { return new(big.Int).Sub(a, big.NewInt(d)) }
	o0 := new(big.Int).SetUint64(0x5812631a5cf5d3ed)
	rs := []*big.Int{
		big.NewInt(1), big.NewInt(2), two(63), sub(two(64), 1), two(64), sub(two(64), -1), two(120), two(124), sub(two(125), 1),
		two(127), sub(two(128), 1), two(128), two(191), two(192), sub(two(252), 1), two(252), sub(two(252), -1),
		sub(ref.L, 1), sub(ref.L, 2), new(big.Int).Sub(ref.L, o0), sub(new(big.Int).Sub(ref.L, o0), 1), sub(new(big.Int).Sub(ref.L, o0), -1),
		new(big.Int).Sub(ref.L, two(64)), sub(new(big.Int).Sub(ref.L, two(64)), -1), new(big.Int).Sub(ref.L, two(124)),
	}
	ts := ref.Torsion8()
	for ri, rv := range rs {
		A := ts[[]int{0, 1, 4, 2}[ri%4]]
		Renc := ref.MulBase(rv).Encode()
		for m := int64(0); m < 3; m++ {
			S := new(big.Int).Add(rv, new(big.Int).Mul(big.NewInt(m), ref.L))
			cases = append(cases, h.EdCase{PK: h.Hex(A.Encode()), Msg: h.Hex(msg), Ctx: h.Hex{},
				Sig:    h.Hex(append(append([]byte(nil), Renc...), ref.ToLE(S, 32)...)),
				KeyCls: "small/enum", SigCls: "honest", SCls: []string{"valid/enum", "S+L/enum", "S+2L/enum"}[m], ModCls: "none"})
		}
	}
	return cases
}

func c01MatrixPart(t *testing.T, part, parts int) {
	var sel []h.EdCase
	for i, c := range c01MatrixCases() {
		if i%parts == part {
			sel = append(sel, c)
		}
	}
	h.RunList(t, sel, c01Check)
}

// The enumeration is split over four tests only so that the driver can run
// the parts as parallel processes; together they cover c01MatrixCases().
func TestC01SmallOrderMatrix0(t *testing.T) { c01MatrixPart(t, 0, 4) }
func TestC01SmallOrderMatrix1(t *testing.T) { c01MatrixPart(t, 1, 4) }
func TestC01SmallOrderMatrix2(t *testing.T) { c01MatrixPart(t, 2, 4) }
func TestC01SmallOrderMatrix3(t *testing.T) { c01MatrixPart(t, 3, 4) }
