//go:build verif

package ecvrf

// C15 — ProveWithAddedRandomness(nil, ...): "If rand is nil,
// crypto/rand.Reader will be used".  rand != nil is also what selects the
// hedged nonce, so a dropped nil substitution would silently return the
// deterministic proof.  Metamorphic oracle: two calls give different proofs,
// both valid under the reference verifier with the deterministic proof's
// beta, neither equal to the deterministic proof.  Also: private keys of the
// wrong length are refused (panic for Prove*, error for the randomized
// provers), never "proved".

import (
	"bytes"
	"testing"

	"github.com/oasisprotocol/curve25519-voi/primitives/ed25519"
	h "verifh"
	ref "verifref"
)

type c15NilCase struct {
	V10 bool
	Len int // private key length for the bad-length cases; 64 = nil-entropy case
}

func c15CheckNil(c c15NilCase) h.Result {
	fn := c15Format(c.V10)
	r := h.NewR().NT(true)
	seed := h.Expand(0xc15, 32)
	sk, pk := c15Key(seed)
	alpha := []byte("c15 nil entropy")
	if c.Len != 64 {
		r.Class("bad-private-key-length").Eval(2)
		bad := make([]byte, c.Len)
		copy(bad, sk)
		var pi []byte
		if p, _ := h.Catch(func() { pi = fn.prove(ed25519.PrivateKey(bad), alpha) }); !p && pi != nil {
			if ok, _, _ := ref.VrfVerify(pk, pi, alpha, fn.f); ok || len(pi) == ProofSize {
				r.Fail("ecvrf.Prove"+fn.name+":proof-from-malformed-key", "len=%d pi=%x", c.Len, pi)
			}
		}
		var err error
		pi = nil
		if p, v := h.Catch(func() { pi, err = fn.proveR(&h.C15Reader{Data: bytes.Repeat([]byte{7}, 64)}, ed25519.PrivateKey(bad), alpha) }); p {
			r.Class("randomized-prover-panics-on-bad-key-length")
			_ = v
		} else if err == nil || pi != nil {
			r.Fail("ecvrf.ProveWithAddedRandomness"+fn.name+":proof-from-malformed-key", "len=%d pi=%x err=%v", c.Len, pi, err)
		}
		return r.Result()
	}
	r.Class("ProveWithAddedRandomness(nil)").Eval(4)
	det := fn.prove(sk, alpha)
	_, wantBeta, _ := ref.VrfVerify(pk, det, alpha, fn.f)
	p1, e1 := fn.proveR(nil, sk, alpha)
	p2, e2 := fn.proveR(nil, sk, alpha)
	if e1 != nil || e2 != nil {
		return r.Fail("ecvrf.ProveWithAddedRandomness"+fn.name+"(nil):error", "%v %v", e1, e2).Result()
	}
	if bytes.Equal(p1, p2) || bytes.Equal(p1, det) || bytes.Equal(p2, det) {
		r.Fail("ecvrf.ProveWithAddedRandomness"+fn.name+"(nil):not-random", "p1=%x p2=%x deterministic=%x", p1, p2, det)
	}
	for _, p := range [][]byte{p1, p2} {
		if ok, beta, why := ref.VrfVerify(pk, p, alpha, fn.f); !ok || !bytes.Equal(beta, wantBeta) {
			r.Fail("ecvrf.ProveWithAddedRandomness"+fn.name+"(nil):invalid-proof", "%v pi=%x", why, p)
		}
		if !bytes.Equal(p[:32], det[:32]) {
			r.Fail("ecvrf.ProveWithAddedRandomness"+fn.name+"(nil):gamma-not-xH", "Gamma=%x want=%x", p[:32], det[:32])
		}
	}
	return r.Result()
}

func TestC15NilEntropy(t *testing.T) {
	var cases []c15NilCase
	for _, v10 := range []bool{false, true} {
		for _, n := range []int{64, 0, 31, 32, 63, 65, 96} {
			cases = append(cases, c15NilCase{V10: v10, Len: n})
		}
	}
	h.RunList(t, cases, c15CheckNil)
}
