//go:build verif

package ecvrf

// C15 — the verifier on hostile public keys and proofs, and uniqueness under
// adversarial (torsion-shifted) proofs.  Every verdict and every beta is
// decided by the reference (RFC 9381 5.3 with validate_key, 5.4.4, 5.2).

import (
	"bytes"
	"fmt"
	"math/big"
	"testing"

	"pgregory.net/rapid"
	h "verifh"
	ref "verifref"
)

// ------------------------------------------------------------- rejections

type c15RejCase struct {
	Seed  h.Hex
	Alpha h.Hex
	V10   bool
	// public key handed to Verify
	PkKind string
	PkArg  int
	PkRaw  h.Hex // for kinds that carry their own bytes
	// proof handed to Verify / ProofToHash
	PiKind string
	PiArg  int
	PiRaw  h.Hex
}

var c15PkKinds = []string{"honest", "honest", "honest", "other", "noncanonical", "small-order", "small-order-flipsign", "mixed-order", "bitflip", "wrong-length", "bytes"}
var c15PiKinds = []string{"honest", "honest", "bitflip", "bitflip", "s+L", "s-boundary", "c-replaced", "gamma-noncanonical", "gamma-torsion", "gamma-shifted",
	"gamma-bytes", "wrong-length", "zero", "s-zero"}

func c15GenRej(t *rapid.T) c15RejCase {
	c := c15RejCase{Seed: c15GenSeed(t, "seed"), Alpha: h.C15Alpha(t, "alpha"), V10: rapid.Bool().Draw(t, "v10")}
	c.PkKind = rapid.SampledFrom(c15PkKinds).Draw(t, "pkkind")
	c.PkArg = rapid.IntRange(0, 1<<16).Draw(t, "pkarg")
	if c.PkKind == "bytes" {
		c.PkRaw, _ = h.GenPointBytes(t, "pkraw")
	}
	c.PiKind = rapid.SampledFrom(c15PiKinds).Draw(t, "pikind")
	c.PiArg = rapid.IntRange(0, 1<<16).Draw(t, "piarg")
	if c.PiKind == "gamma-bytes" {
		c.PiRaw, _ = h.GenPointBytes(t, "piraw")
	}
	return c
}

var c15SBoundary = func() []*big.Int {
	one := big.NewInt(1)
	p2 := func(k uint) *big.Int { return new(big.Int).Lsh(one, k) }
	return []*big.Int{
		new(big.Int).Sub(ref.L, one), new(big.Int).Set(ref.L), new(big.Int).Add(ref.L, one),
		p2(252), new(big.Int).Sub(p2(252), one), p2(253), new(big.Int).Sub(p2(253), one), p2(255), new(big.Int).Sub(p2(256), one),
		new(big.Int).Mul(ref.L, big.NewInt(2)), new(big.Int).Mul(ref.L, big.NewInt(8)), new(big.Int).Mul(ref.L, big.NewInt(15)),
		// same top 128 bits as L, differing only in the low words
		new(big.Int).Add(new(big.Int).Lsh(new(big.Int).Rsh(ref.L, 128), 128), big.NewInt(0)),
		new(big.Int).Add(ref.L, p2(64)), new(big.Int).Sub(ref.L, p2(64)),
	}
}()

// c15BuildPk materialises the public-key string of the case.
func c15BuildPk(c c15RejCase, honest []byte) []byte {
	T := ref.Torsion8()
	switch c.PkKind {
	case "honest":
		return append([]byte(nil), honest...)
	case "other":
		s := h.Expand(uint64(c.PkArg)+1, 32)
		return ref.EdPublicKey(s)
	case "noncanonical":
		l := h.AllNonCanonicalPointStrings()
		return append([]byte(nil), l[c.PkArg%len(l)]...)
	case "small-order":
		return T[c.PkArg%8].Encode()
	case "small-order-flipsign":
		b := T[c.PkArg%8].Encode()
		b[31] ^= 0x80
		return b
	case "mixed-order":
		di := ref.Decode(honest)
		return ref.Add(di.P, T[1+c.PkArg%7]).Encode()
	case "bitflip":
		b := append([]byte(nil), honest...)
		bit := c.PkArg % 256
		b[bit/8] ^= 1 << uint(bit%8)
		return b
	case "wrong-length":
		n := []int{0, 1, 31, 33, 64, 80}[c.PkArg%6]
		b := make([]byte, n)
		copy(b, honest)
		if n > 32 {
			copy(b[32:], honest)
		}
		return b
	case "bytes":
		return append([]byte(nil), c.PkRaw...)
	}
	panic("unknown pk kind " + c.PkKind)
}

// c15BuildPi materialises the proof string of the case from the honest proof.
func c15BuildPi(c c15RejCase, honest []byte) []byte {
	T := ref.Torsion8()
	pi := append([]byte(nil), honest...)
	switch c.PiKind {
	case "honest":
	case "bitflip":
		bit := c.PiArg % 640
		pi[bit/8] ^= 1 << uint(bit%8)
	case "s+L":
		s := ref.FromLE(pi[48:])
		k := 1 + c.PiArg%15
		s.Add(s, new(big.Int).Mul(ref.L, big.NewInt(int64(k))))
		if s.BitLen() > 256 {
			s = ref.FromLE(honest[48:])
			s.Add(s, ref.L)
		}
		copy(pi[48:], ref.ToLE(s, 32))
	case "s-boundary":
		copy(pi[48:], ref.ToLE(c15SBoundary[c.PiArg%len(c15SBoundary)], 32))
	case "s-zero":
		for i := 48; i < 80; i++ {
			pi[i] = 0
		}
	case "c-replaced":
		copy(pi[32:48], h.Expand(uint64(c.PiArg), 16))
		if c.PiArg%4 == 0 {
			for i := 32; i < 48; i++ {
				pi[i] = byte(0xff * (c.PiArg / 4 % 2))
			}
		}
	case "gamma-noncanonical":
		l := h.AllNonCanonicalPointStrings()
		copy(pi[:32], l[c.PiArg%len(l)])
	case "gamma-torsion":
		copy(pi[:32], T[c.PiArg%8].Encode())
	case "gamma-shifted": // Gamma + T without re-deriving (c, s): breaks the equation
		di := ref.Decode(pi[:32])
		copy(pi[:32], ref.Add(di.P, T[1+c.PiArg%7]).Encode())
	case "gamma-bytes":
		copy(pi[:32], c.PiRaw)
	case "wrong-length":
		n := []int{0, 1, 32, 48, 79, 81, 96, 160}[c.PiArg%8]
		b := make([]byte, n)
		copy(b, honest)
		if n > 80 {
			copy(b[80:], honest)
		}
		return b
	case "zero":
		for i := range pi {
			pi[i] = 0
		}
		if c.PiArg%2 == 1 {
			pi[0] = 1 // Gamma = identity, c = 0, s = 0: U = V = identity
		}
	default:
		panic("unknown pi kind " + c.PiKind)
	}
	return pi
}

func c15CheckRej(c c15RejCase) h.Result {
	fn := c15Format(c.V10)
	r := h.NewR().Class("format:rfc9381"+fn.name, "pk:"+c.PkKind, "pi:"+c.PiKind)
	r.NT(c.PkKind != "honest" || c.PiKind != "honest" || c.V10)
	honestPk := ref.EdPublicKey(c.Seed)
	honestPi := ref.VrfProve(c.Seed, honestPk, c.Alpha, nil, fn.f)
	pk := c15BuildPk(c, honestPk)
	pi := c15BuildPi(c, honestPi)
	c15Compare(r, fn, pk, pi, c.Alpha, c.PkKind+"/"+c.PiKind)
	return r.Result()
}

// c15Compare decides ProofToHash(pi) and Verify(pk, pi, alpha) against the
// reference for arbitrary byte strings.
func c15Compare(r *h.R, fn c15Fns, pk, pi, alphaIn []byte, what string) {
	pk0, pi0, alpha := append([]byte(nil), pk...), append([]byte(nil), pi...), append([]byte(nil), alphaIn...)

	// ProofToHash == decode_proof + hash, independent of any key
	r.Eval(1)
	wantPth, wantDec := ref.VrfProofToHash(pi)
	var gotPth []byte
	var err error
	if p, v := h.Catch(func() { gotPth, err = ProofToHash(pi) }); p {
		r.Fail("ecvrf.ProofToHash:panic", "pi=%x: %v", pi, v)
		return
	}
	switch {
	case wantDec && err != nil:
		r.Fail("ecvrf.ProofToHash:valid-proof-string-rejected", "pi=%x err=%v", pi, err)
	case !wantDec && err == nil:
		r.Fail("ecvrf.ProofToHash:invalid-proof-string-accepted", "%s pi=%x (80 bytes, Gamma canonical and on the curve, s<L required)", what, pi)
	case wantDec && !bytes.Equal(gotPth, wantPth):
		r.Fail("ecvrf.ProofToHash:wrong-beta", "pi=%x got=%x want=%x", pi, gotPth, wantPth)
	}
	if wantDec {
		r.Class("proof-decodes")
		// the decoded triple itself (c is 16 bytes, s is the full 32)
		g, cc, ss, derr := decodeProof(pi)
		if derr != nil {
			r.Fail("ecvrf.decodeProof:valid-proof-string-rejected", "pi=%x", pi)
		} else {
			_, rc, rs, _ := ref.VrfDecodeProof(pi)
			var cb, sb [32]byte
			_ = cc.ToBytes(cb[:])
			_ = ss.ToBytes(sb[:])
			mb, _ := g.MarshalBinary()
			if !bytes.Equal(cb[:], ref.ToLE(rc, 32)) || !bytes.Equal(sb[:], ref.ToLE(rs, 32)) || !bytes.Equal(mb, pi[:32]) {
				r.Fail("ecvrf.decodeProof:wrong-components", "pi=%x c=%x s=%x gamma=%x", pi, cb[:], sb[:], mb)
			}
		}
	} else {
		r.Class("proof-undecodable")
	}

	// Verify
	r.Eval(1)
	wantOK, wantBeta, why := ref.VrfVerify(pk, pi, alphaIn, fn.f)
	r.Class("ref:" + string(why))
	var gotOK bool
	var gotBeta []byte
	if p, v := h.Catch(func() { gotOK, gotBeta = fn.verify(pk, pi, alpha) }); p {
		r.Fail("ecvrf.Verify"+fn.name+":panic", "pk=%x pi=%x: %v", pk, pi, v)
		return
	}
	switch {
	case gotOK && !wantOK:
		r.Fail("ecvrf.Verify"+fn.name+":accepted-invalid("+string(why)+")", "%s pk=%x pi=%x alpha=%x", what, pk, pi, alphaIn)
	case !gotOK && wantOK:
		r.Fail("ecvrf.Verify"+fn.name+":rejected-valid", "%s pk=%x pi=%x alpha=%x", what, pk, pi, alphaIn)
	case gotOK && !bytes.Equal(gotBeta, wantBeta):
		r.Fail("ecvrf.Verify"+fn.name+":wrong-beta", "pk=%x pi=%x got=%x want=%x", pk, pi, gotBeta, wantBeta)
	}
	if !bytes.Equal(pk, pk0) || !bytes.Equal(pi, pi0) || !bytes.Equal(alpha, alphaIn) {
		r.Fail("ecvrf.Verify"+fn.name+":input-modified", "")
	}
}

func TestC15VerifyRejects(t *testing.T) { h.Run(t, c15GenRej, c15CheckRej) }

// Every non-canonical point string and every small-order point (both sign
// bits), as public key and as Gamma, with an otherwise honest proof: list.
func TestC15EncodingList(t *testing.T) {
	var cases []c15RejCase
	seed := h.Hex(bytes.Repeat([]byte{0x5a}, 32))
	nc := len(h.AllNonCanonicalPointStrings())
	for _, v10 := range []bool{false, true} {
		for i := 0; i < nc; i++ {
			cases = append(cases,
				c15RejCase{Seed: seed, Alpha: h.Hex("list"), V10: v10, PkKind: "noncanonical", PkArg: i, PiKind: "honest"},
				c15RejCase{Seed: seed, Alpha: h.Hex("list"), V10: v10, PkKind: "honest", PiKind: "gamma-noncanonical", PiArg: i})
		}
		for i := 0; i < 8; i++ {
			cases = append(cases,
				c15RejCase{Seed: seed, Alpha: h.Hex("list"), V10: v10, PkKind: "small-order", PkArg: i, PiKind: "honest"},
				c15RejCase{Seed: seed, Alpha: h.Hex("list"), V10: v10, PkKind: "small-order-flipsign", PkArg: i, PiKind: "honest"},
				c15RejCase{Seed: seed, Alpha: h.Hex("list"), V10: v10, PkKind: "small-order", PkArg: i, PiKind: "zero", PiArg: 1},
				c15RejCase{Seed: seed, Alpha: h.Hex("list"), V10: v10, PkKind: "honest", PiKind: "gamma-torsion", PiArg: i})
		}
		for i := range c15SBoundary {
			cases = append(cases, c15RejCase{Seed: seed, Alpha: h.Hex("list"), V10: v10, PkKind: "honest", PiKind: "s-boundary", PiArg: i})
		}
		for _, n := range []int{0, 1, 2, 3, 4, 5, 6, 7} {
			cases = append(cases, c15RejCase{Seed: seed, Alpha: h.Hex("list"), V10: v10, PkKind: "honest", PiKind: "wrong-length", PiArg: n})
		}
		for n := 0; n < 6; n++ {
			cases = append(cases, c15RejCase{Seed: seed, Alpha: h.Hex("list"), V10: v10, PkKind: "wrong-length", PkArg: n, PiKind: "honest"})
		}
	}
	h.RunList(t, cases, c15CheckRej)
}

// ------------------------------------------------- adversarial uniqueness

// c15AdvCase: the adversary knows the secret scalar x (from Seed) and forges
// two proofs for the key string pk' = ([x]B + T[JK]).Encode() and Alpha, with
// Gamma shifted by T[JGa] resp. T[JGb] and independent nonces.  With
// SmallKey the key is the small-order point T[JK] itself (x = 0: a forgery
// that needs no secret).  Both proofs satisfy the verification equations by
// construction; the reference decides acceptance (key validation rejects the
// small-order keys) and the single admissible beta.
type c15AdvCase struct {
	Seed     h.Hex
	Alpha    h.Hex
	V10      bool
	SmallKey bool
	JK       int
	JGa, JGb int
	Ka, Kb   h.Hex // nonce seeds (little-endian, reduced mod L)
}

func c15GenAdv(t *rapid.T) c15AdvCase {
	c := c15AdvCase{Seed: c15GenSeed(t, "seed"), Alpha: h.C15Alpha(t, "alpha"), V10: rapid.Bool().Draw(t, "v10")}
	switch rapid.IntRange(0, 9).Draw(t, "kind") {
	case 0, 1, 2: // small-order key forgeries
		c.SmallKey = true
		c.JK = rapid.IntRange(0, 7).Draw(t, "jk")
		c.JGa = rapid.IntRange(0, 7).Draw(t, "jga")
		c.JGb = rapid.IntRange(0, 7).Draw(t, "jgb")
	case 3, 4: // mixed-order key, possibly shifted Gamma
		c.JK = rapid.IntRange(1, 7).Draw(t, "jk")
		c.JGa = rapid.IntRange(0, 7).Draw(t, "jga")
		c.JGb = rapid.IntRange(0, 7).Draw(t, "jgb")
	default: // honest key, torsion-shifted Gamma
		c.JGa = rapid.IntRange(1, 7).Draw(t, "jga")
		c.JGb = rapid.IntRange(0, 7).Draw(t, "jgb")
	}
	c.Ka = h.UniformBytes(t, 32, "ka")
	c.Kb = h.UniformBytes(t, 32, "kb")
	return c
}

func c15CheckAdv(c c15AdvCase) h.Result {
	fn := c15Format(c.V10)
	T := ref.Torsion8()
	kind := "honest-key"
	x, _ := ref.VrfSecret(c.Seed)
	var pk []byte
	switch {
	case c.SmallKey:
		kind = "small-order-key"
		x = big.NewInt(0)
		pk = T[c.JK%8].Encode()
	case c.JK%8 != 0:
		kind = "mixed-order-key"
		pk = ref.Add(ref.MulBase(x), T[c.JK%8]).Encode()
	default:
		pk = ref.MulBase(x).Encode()
	}
	r := h.NewR().Class("format:rfc9381"+fn.name, "adv:"+kind, fmt.Sprintf("gamma-shift-order:%d", c15OrdOf(c.JGa))).NT(true)

	type forged struct {
		pi   []byte
		beta []byte
	}
	var proofs []forged
	for i, p := range []struct {
		jg int
		k  []byte
	}{{c.JGa, c.Ka}, {c.JGb, c.Kb}} {
		pi, _, ok := h.C15Forge(x, pk, c.Alpha, c.JK, p.jg, ref.FromLE(p.k), fn.f, 400)
		if !ok {
			// probability (1-1/8)^400 ~ 1e-23: treat as harness failure
			panic("c15: adversary found no proof in 400 nonces")
		}
		wantOK, wantBeta, why := ref.VrfVerify(pk, pi, c.Alpha, fn.f)
		if wantOK == c.SmallKey || (c.SmallKey && why != "small-order-pk") {
			panic(fmt.Sprintf("c15: forged proof %d: reference verdict %v (%s) unexpected for %s", i, wantOK, why, kind))
		}
		r.Eval(2)
		var gotOK bool
		var gotBeta []byte
		if pp, v := h.Catch(func() { gotOK, gotBeta = fn.verify(pk, pi, c.Alpha) }); pp {
			return r.Fail("ecvrf.Verify"+fn.name+":panic", "pk=%x pi=%x: %v", pk, pi, v).Result()
		}
		if c.SmallKey {
			if gotOK {
				r.Fail("ecvrf.Verify"+fn.name+":accepted-invalid(small-order-pk)", "forgery without any secret accepted: pk=%x (T[%d]) pi=%x alpha=%x", pk, c.JK%8, pi, []byte(c.Alpha))
			}
		} else {
			if !gotOK {
				r.Fail("ecvrf.Verify"+fn.name+":rejected-valid", "%s, Gamma shifted by T[%d]: pk=%x pi=%x alpha=%x", kind, p.jg%8, pk, pi, []byte(c.Alpha))
			} else if !bytes.Equal(gotBeta, wantBeta) {
				r.Fail("ecvrf.Verify"+fn.name+":wrong-beta", "%s, Gamma shifted by T[%d]: pk=%x pi=%x got=%x want=%x", kind, p.jg%8, pk, pi, gotBeta, wantBeta)
			}
			proofs = append(proofs, forged{pi, gotBeta})
		}
		// proof_to_hash is key-independent and must agree
		wantPth, _ := ref.VrfProofToHash(pi)
		if gotPth, err := ProofToHash(pi); err != nil || !bytes.Equal(gotPth, wantPth) {
			r.Fail("ecvrf.ProofToHash:wrong-beta", "pi=%x got=%x err=%v want=%x", pi, gotPth, err, wantPth)
		}
	}
	// uniqueness, stated directly on the library's outputs
	if len(proofs) == 2 {
		r.Eval(1)
		if !bytes.Equal(proofs[0].pi, proofs[1].pi) {
			r.Class("two-distinct-verifying-proofs")
		}
		if !bytes.Equal(proofs[0].beta, proofs[1].beta) {
			r.Fail("ecvrf.Verify"+fn.name+":beta-not-unique", "pk=%x alpha=%x: pi1=%x -> %x ; pi2=%x -> %x", pk, []byte(c.Alpha), proofs[0].pi, proofs[0].beta, proofs[1].pi, proofs[1].beta)
		}
		if kind == "honest-key" {
			// and equal to the honest prover's output
			sk, _ := c15Key(c.Seed)
			hp := fn.prove(sk, c.Alpha)
			if okh, bh := fn.verify(pk, hp, c.Alpha); !okh || !bytes.Equal(bh, proofs[0].beta) {
				r.Fail("ecvrf.Verify"+fn.name+":beta-not-unique", "honest proof %x -> (%v, %x), adversarial proof %x -> %x", hp, okh, bh, proofs[0].pi, proofs[0].beta)
			}
		}
	}
	return r.Result()
}

func c15OrdOf(j int) int {
	switch {
	case j%8 == 0:
		return 1
	case j%2 == 1:
		return 8
	case j%4 == 2:
		return 4
	}
	return 2
}

func TestC15Uniqueness(t *testing.T) { h.Run(t, c15GenAdv, c15CheckAdv) }

// All 8 x 8 (key torsion, Gamma torsion) combinations for small-order keys,
// and all 7 Gamma shifts for an honest key, in both formats: decided on every
// run.
func TestC15TorsionList(t *testing.T) {
	var cases []c15AdvCase
	seed := h.Hex(bytes.Repeat([]byte{0xc3}, 32))
	ka, kb := h.Hex(h.Expand(11, 32)), h.Hex(h.Expand(12, 32))
	for _, v10 := range []bool{false, true} {
		for jk := 0; jk < 8; jk++ {
			for jg := 0; jg < 8; jg++ {
				cases = append(cases, c15AdvCase{Seed: seed, Alpha: h.Hex("torsion"), V10: v10, SmallKey: true, JK: jk, JGa: jg, JGb: (jg + 3) % 8, Ka: ka, Kb: kb})
			}
		}
		for jg := 1; jg < 8; jg++ {
			cases = append(cases, c15AdvCase{Seed: seed, Alpha: h.Hex("torsion"), V10: v10, JGa: jg, JGb: 0, Ka: ka, Kb: kb})
			cases = append(cases, c15AdvCase{Seed: seed, Alpha: h.Hex("torsion"), V10: v10, JK: jg, JGa: jg, JGb: 8 - jg, Ka: ka, Kb: kb})
		}
	}
	h.RunList(t, cases, c15CheckAdv)
}

// FuzzC15Verify (thorough tier only): Go's native mutator over (pk, pi, alpha,
// format) with the reference inside the target, seeded with honest triples,
// adversarial torsion-shifted proofs, small-order-key forgeries, s+L and the
// non-canonical point strings.
func FuzzC15Verify(f *testing.F) {
	T := ref.Torsion8()
	for i, v10 := range []bool{false, true} {
		fn := c15Format(v10)
		seed := bytes.Repeat([]byte{byte(0x31 + i)}, 32)
		alpha := []byte("fuzz seed")
		pk := ref.EdPublicKey(seed)
		pi := ref.VrfProve(seed, pk, alpha, nil, fn.f)
		f.Add(pk, pi, alpha, v10)
		f.Add(pk, pi, []byte{}, v10)
		x, _ := ref.VrfSecret(seed)
		if fp, _, ok := h.C15Forge(x, pk, alpha, 0, 1, big.NewInt(77), fn.f, 400); ok {
			f.Add(pk, fp, alpha, v10)
		}
		mk := ref.Add(ref.MulBase(x), T[3]).Encode()
		if fp, _, ok := h.C15Forge(x, mk, alpha, 3, 5, big.NewInt(78), fn.f, 400); ok {
			f.Add(mk, fp, alpha, v10)
		}
		for j := 0; j < 8; j++ {
			if fp, _, ok := h.C15Forge(big.NewInt(0), T[j].Encode(), alpha, j, (j+1)%8, big.NewInt(79), fn.f, 400); ok {
				f.Add(T[j].Encode(), fp, alpha, v10)
			}
		}
		sl := append([]byte(nil), pi...)
		s := ref.FromLE(sl[48:])
		copy(sl[48:], ref.ToLE(s.Add(s, ref.L), 32))
		f.Add(pk, sl, alpha, v10)
		for _, nc := range h.AllNonCanonicalPointStrings() {
			f.Add(nc, pi, alpha, v10)
			f.Add(pk, append(append([]byte(nil), nc...), pi[32:]...), alpha, v10)
		}
	}
	f.Fuzz(func(t *testing.T, pk, pi, alpha []byte, v10 bool) {
		if len(pk) > 200 || len(pi) > 400 || len(alpha) > 2000 {
			return
		}
		r := h.NewR()
		c15Compare(r, c15Format(v10), pk, pi, alpha, "fuzz")
		if res := r.Result(); res.Viol != nil {
			t.Fatalf("VERIF-FUZZ-VIOLATION sig=%s pk=%x pi=%x alpha=%x v10=%v detail=%s", res.Viol.Sig, pk, pi, alpha, v10, res.Viol.Detail)
		}
	})
}
