//go:build verif

package ecvrf_test

// C06 — all arithmetic backends are observationally identical: extra/ecvrf.

import (
	"testing"

	"github.com/oasisprotocol/curve25519-voi/primitives/ed25519"
	"github.com/oasisprotocol/curve25519-voi/primitives/ed25519/extra/ecvrf"
	"pgregory.net/rapid"
	h "verifh"
	ref "verifref"
)

func c06EcvrfOps() []h.DiffOp {
	return []h.DiffOp{
		{Name: "prove", Weight: 5,
			Covers: []string{"Prove", "Prove_v10", "ProveWithAddedRandomness", "ProveWithAddedRandomness_v10", "ProofToHash", "Verify", "Verify_v10"},
			Gen: func(t *rapid.T, c *h.DiffCase) {
				h.DiffEntropy(t, c, 32, "seed")
				h.DiffMsg(t, c, 300, "alpha")
				h.DiffEntropy(t, c, rapid.SampledFrom([]int{32, 64, 0, 1}).Draw(t, "zlen"), "z")
				c.PutN(rapid.IntRange(0, 639).Draw(t, "flipbit"))
			},
			Exec: func(a *h.DiffArgs, o *h.DiffOut) {
				seed, alpha, z, flip := a.B(), a.B(), a.B(), a.N()
				if len(seed) != 32 {
					return
				}
				sk := ed25519.NewKeyFromSeed(seed)
				pk := sk.Public().(ed25519.PublicKey)
				pi := ecvrf.Prove(sk, alpha)
				o.Bytes("pi", pi)
				pi10 := ecvrf.Prove_v10(sk, alpha)
				o.Bytes("pi.v10", pi10)
				pir, err := ecvrf.ProveWithAddedRandomness(h.NewDiffReader(z), sk, alpha)
				o.Err("pi.rand", err)
				o.Bytes("pi.rand", pir)
				pir10, err := ecvrf.ProveWithAddedRandomness_v10(h.NewDiffReader(z), sk, alpha)
				o.Err("pi.rand.v10", err)
				o.Bytes("pi.rand.v10", pir10)
				for i, p := range [][]byte{pi, pi10, pir, pir10} {
					beta, err := ecvrf.ProofToHash(p)
					o.Err("beta", err)
					o.Bytes("beta", beta)
					ok, b2 := ecvrf.Verify(pk, p, alpha)
					o.Bool("verify", ok)
					o.Bytes("verify.beta", b2)
					ok, b2 = ecvrf.Verify_v10(pk, p, alpha)
					o.Bool("verify.v10", ok)
					o.Bytes("verify.v10.beta", b2)
					if i == 0 && len(p) == ecvrf.ProofSize {
						bad := append([]byte{}, p...)
						bad[(flip/8)%len(bad)] ^= 1 << uint(flip%8)
						ok, b2 = ecvrf.Verify(pk, bad, alpha)
						o.Bool("tampered", ok)
						o.Bytes("tampered.beta", b2)
						ok, _ = ecvrf.Verify(pk, p, append(alpha, 0))
						o.Bool("otheralpha", ok)
					}
				}
			}},
		{Name: "verify", Weight: 4,
			Covers: []string{"Verify", "Verify_v10", "ProofToHash"},
			Gen: func(t *rapid.T, c *h.DiffCase) {
				// public key: any point string (small order, non-canonical, invalid); proof: gamma || c (16) || s (32) from catalogues
				if rapid.IntRange(0, 9).Draw(t, "hostilepk") == 0 {
					h.DiffSized(t, c, 32, "pk")
				} else {
					b, _ := h.GenPointBytes(t, "pk")
					c.PutB(b)
				}
				if rapid.IntRange(0, 7).Draw(t, "hostilepi") == 0 {
					h.DiffSized(t, c, 80, "pi")
				} else {
					g, _ := h.GenPointBytes(t, "gamma")
					s, _ := h.Bytes256(t, "s")
					if rapid.Bool().Draw(t, "reduce") {
						s = ref.SEncode(ref.FromLE(s))
					}
					pi := append(append(g, h.UniformBytes(t, 16, "c")...), s...)
					c.PutB(pi)
				}
				h.DiffMsg(t, c, 100, "alpha")
			},
			Exec: func(a *h.DiffArgs, o *h.DiffOut) {
				pk, pi, alpha := a.B(), a.B(), a.B()
				beta, err := ecvrf.ProofToHash(pi)
				o.Err("beta", err)
				o.Bytes("beta", beta)
				// a wrong-length public key is recorded (whatever the library does with it: same everywhere)
				o.Panics("verify", func() {
					ok, b := ecvrf.Verify(pk, pi, alpha)
					o.Bool("ok", ok)
					o.Bytes("beta", b)
				})
				o.Panics("verify.v10", func() {
					ok, b := ecvrf.Verify_v10(pk, pi, alpha)
					o.Bool("ok", ok)
					o.Bytes("beta", b)
				})
			}},
	}
}

func TestC06Ecvrf(t *testing.T) {
	h.RunDiffOps(t, "primitives/ed25519/extra/ecvrf", h.DiffBackend(""), c06EcvrfOps())
}
