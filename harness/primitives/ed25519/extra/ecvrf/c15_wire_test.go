//go:build verif

package ecvrf

// C15 — multi-step use on a shared wire buffer: the verifier is handed
// sub-slices of one pk || pi || alpha buffer (so every argument has spare
// capacity that belongs to the caller).  Verification must not write to the
// buffer; "verification returns exactly the output that proof-to-hash gives"
// must hold for ProofToHash called AFTER Verify on the same bytes; and a
// second verification of the same triple must give the same answer.

import (
	"bytes"
	"testing"

	"pgregory.net/rapid"
	h "verifh"
	ref "verifref"
)

type c15WireCase struct {
	Seed  h.Hex
	Alpha h.Hex
	V10   bool
	Flip  int // -1: honest proof; otherwise flip this bit of the proof
}

func c15GenWire(t *rapid.T) c15WireCase {
	c := c15WireCase{Seed: c15GenSeed(t, "seed"), Alpha: h.C15Alpha(t, "alpha"), V10: rapid.Bool().Draw(t, "v10"), Flip: -1}
	if rapid.IntRange(0, 3).Draw(t, "flip") == 0 {
		c.Flip = rapid.IntRange(0, 639).Draw(t, "bit")
	}
	return c
}

func c15CheckWire(c c15WireCase) h.Result {
	r := h.NewR().NT(true)
	fm := c15Format(c.V10)
	r.Class("format" + fm.name)
	if len(c.Alpha) == 0 {
		r.Class("empty-alpha")
	}
	_, pk := c15Key(c.Seed)
	pi := ref.VrfProve(c.Seed, pk, c.Alpha, nil, fm.f)
	if c.Flip >= 0 {
		pi[c.Flip/8] ^= 1 << uint(c.Flip%8)
		r.Class("altered-proof")
	}
	wantOK, wantBeta, _ := ref.VrfVerify(pk, pi, c.Alpha, fm.f)
	if !wantOK {
		wantBeta = nil
	}
	// one wire buffer, arguments are windows into it
	wire := append(append(append([]byte(nil), pk...), pi...), c.Alpha...)
	wire = append(wire, bytes.Repeat([]byte{0xc5}, 64)...)
	orig := append([]byte(nil), wire...)
	wpk, wpi, walpha := wire[:32], wire[32:112], wire[112:112+len(c.Alpha)]
	for round := 0; round < 2; round++ {
		r.Eval(1)
		ok, beta := fm.verify(wpk, wpi, walpha)
		if ok != wantOK || !bytes.Equal(beta, wantBeta) {
			return r.Fail("ecvrf.Verify"+fm.name+":wrong-result-on-shared-buffer", "round %d: got (%v,%x) want (%v,%x)", round, ok, beta, wantOK, wantBeta).Result()
		}
		if !bytes.Equal(wire, orig) {
			return r.Fail("ecvrf.Verify"+fm.name+":wrote-to-caller-buffer", "round %d: the pk||pi||alpha buffer was modified by verification", round).Result()
		}
		r.Eval(1)
		b2, err := ProofToHash(wpi)
		if ok && (err != nil || !bytes.Equal(b2, beta)) {
			return r.Fail("ecvrf.ProofToHash:differs-from-Verify-output", "round %d: err=%v got %x want %x", round, err, b2, beta).Result()
		}
		if !bytes.Equal(wire, orig) {
			return r.Fail("ecvrf.ProofToHash:wrote-to-caller-buffer", "round %d", round).Result()
		}
	}
	return r.Result()
}

func TestC15WireBuffer(t *testing.T) { h.Run(t, c15GenWire, c15CheckWire) }
