//go:build verif

package ecvrf

// C15 — multi-step use on a shared wire buffer: the verifier is handed
// sub-slices of one pk || pi || alpha buffer (so every argument has spare
// capacity that belongs to the caller).  Verification must not write to the
// buffer; "verification returns exactly the output that proof-to-hash gives"
// must hold for ProofToHash called AFTER Verify on the same bytes; and a
// second verification of the same triple must give the same answer.

import (
	"bytes"
	"testing"

	"github.com/oasisprotocol/curve25519-voi/primitives/ed25519"
	"pgregory.net/rapid"
	h "verifh"
	ref "verifref"
)

type c15WireCase struct {
	Seed  h.Hex
	Alpha h.Hex
	V10   bool
	Flip  int // -1: honest proof; otherwise flip this bit of the proof
}

func c15GenWire(t *rapid.T) c15WireCase {
	c := c15WireCase{Seed: c15GenSeed(t, "seed"), Alpha: h.C15Alpha(t, "alpha"), V10: rapid.Bool().Draw(t, "v10"), Flip: -1}
	if rapid.IntRange(0, 3).Draw(t, "flip") == 0 {
		c.Flip = rapid.IntRange(0, 639).Draw(t, "bit")
	}
	return c
}

func c15CheckWire(c c15WireCase) h.Result {
	r := h.NewR().NT(true)
	fm := c15Format(c.V10)
	r.Class("format" + fm.name)
	if len(c.Alpha) == 0 {
		r.Class("empty-alpha")
	}
	_, pk := c15Key(c.Seed)
	pi := ref.VrfProve(c.Seed, pk, c.Alpha, nil, fm.f)
	if c.Flip >= 0 {
		pi[c.Flip/8] ^= 1 << uint(c.Flip%8)
		r.Class("altered-proof")
	}
	wantOK, wantBeta, _ := ref.VrfVerify(pk, pi, c.Alpha, fm.f)
	if !wantOK {
		wantBeta = nil
	}
	// one wire buffer, arguments are windows into it
	wire := append(append(append([]byte(nil), pk...), pi...), c.Alpha...)
	wire = append(wire, bytes.Repeat([]byte{0xc5}, 64)...)
	orig := append([]byte(nil), wire...)
	wpk, wpi, walpha := wire[:32], wire[32:112], wire[112:112+len(c.Alpha)]
	for round := 0; round < 2; round++ {
		r.Eval(1)
		ok, beta := fm.verify(wpk, wpi, walpha)
		if ok != wantOK || !bytes.Equal(beta, wantBeta) {
			return r.Fail("ecvrf.Verify"+fm.name+":wrong-result-on-shared-buffer", "round %d: got (%v,%x) want (%v,%x)", round, ok, beta, wantOK, wantBeta).Result()
		}
		if !bytes.Equal(wire, orig) {
			return r.Fail("ecvrf.Verify"+fm.name+":wrote-to-caller-buffer", "round %d: the pk||pi||alpha buffer was modified by verification", round).Result()
		}
		r.Eval(1)
		b2, err := ProofToHash(wpi)
		if ok && (err != nil || !bytes.Equal(b2, beta)) {
			return r.Fail("ecvrf.ProofToHash:differs-from-Verify-output", "round %d: err=%v got %x want %x", round, err, b2, beta).Result()
		}
		if !bytes.Equal(wire, orig) {
			return r.Fail("ecvrf.ProofToHash:wrote-to-caller-buffer", "round %d", round).Result()
		}
	}
	return r.Result()
}

func TestC15WireBuffer(t *testing.T) { h.Run(t, c15GenWire, c15CheckWire) }

// ---- the proving side on a shared buffer
//
// The prover takes Y = sk[32:] out of the caller's private key and hands it to
// hash-to-curve and the challenge; alpha is the caller's as well.  With
// sk = wire[:64] and alpha = wire[64:64+n] of ONE buffer (canary behind) an
// append to either would overwrite the caller's bytes; the proof must be the
// reference's and the buffer untouched, for all four provers.

type c15ProveWireCase struct {
	Seed  h.Hex
	Alpha h.Hex
	Ent   h.Hex
}

func c15GenProveWire(t *rapid.T) c15ProveWireCase {
	ent, _ := h.C15Entropy(t, "ent")
	return c15ProveWireCase{Seed: c15GenSeed(t, "seed"), Alpha: h.C15Alpha(t, "alpha"), Ent: ent}
}

func c15CheckProveWire(c c15ProveWireCase) h.Result {
	r := h.NewR().NT(true)
	if len(c.Alpha) == 0 {
		r.Class("empty-alpha")
	}
	sk, pk := c15Key(c.Seed)
	wire := append(append([]byte(nil), sk...), c.Alpha...)
	wire = append(wire, bytes.Repeat([]byte{0xc5}, 96)...)
	orig := append([]byte(nil), wire...)
	wsk, walpha := ed25519.PrivateKey(wire[:64]), wire[64:64+len(c.Alpha)]
	for _, v10 := range []bool{false, true} {
		fm := c15Format(v10)
		want := ref.VrfProve(c.Seed, pk, c.Alpha, nil, fm.f)
		r.Eval(2)
		if got := fm.prove(wsk, walpha); !bytes.Equal(got, want) {
			return r.Fail("ecvrf.Prove"+fm.name+":wrong-proof-on-shared-buffer", "got %x want %x", got, want).Result()
		}
		if !bytes.Equal(wire, orig) {
			return r.Fail("ecvrf.Prove"+fm.name+":wrote-to-caller-buffer", "the sk||alpha buffer was modified by proving").Result()
		}
		got, err := fm.proveR(&h.C15Reader{Data: append([]byte(nil), c.Ent...)}, wsk, walpha)
		if err != nil || len(got) != ProofSize {
			return r.Fail("ecvrf.ProveWithAddedRandomness"+fm.name+":spurious-error", "%v", err).Result()
		}
		if ok, _, why := ref.VrfVerify(pk, got, c.Alpha, fm.f); !ok {
			return r.Fail("ecvrf.ProveWithAddedRandomness"+fm.name+":invalid-proof-on-shared-buffer", "%v pi=%x", why, got).Result()
		}
		if !bytes.Equal(wire, orig) {
			return r.Fail("ecvrf.ProveWithAddedRandomness"+fm.name+":wrote-to-caller-buffer", "the sk||alpha buffer was modified by proving").Result()
		}
	}
	return r.Result()
}

func TestC15ProveWireBuffer(t *testing.T) { h.Run(t, c15GenProveWire, c15CheckProveWire) }

// ---- "any altered proof bit" as a sweep: every one of the 640 bits of two
// honest proofs per format, and every bit of the public key, against the
// reference verifier's verdict.

type c15BitCase struct {
	V10   bool
	Which int // 0: proof bit, 1: public-key bit
	Bit   int
	Key   int
}

func c15CheckBit(c c15BitCase) h.Result {
	r := h.NewR().NT(true)
	fm := c15Format(c.V10)
	seed := h.Expand(uint64(0x15b17+c.Key), 32)
	_, pk := c15Key(seed)
	alpha := h.Expand(uint64(0xa1fa+c.Key), 5+60*c.Key)
	pi := ref.VrfProve(seed, pk, alpha, nil, fm.f)
	pk = append([]byte(nil), pk...)
	if c.Which == 0 {
		pi[c.Bit/8] ^= 1 << uint(c.Bit%8)
		r.Class("proof-bit")
	} else {
		pk[c.Bit/8] ^= 1 << uint(c.Bit%8)
		r.Class("public-key-bit")
	}
	wantOK, wantBeta, _ := ref.VrfVerify(pk, pi, alpha, fm.f)
	if !wantOK {
		wantBeta = nil
	}
	r.Eval(1)
	ok, beta := fm.verify(pk, pi, alpha)
	if ok != wantOK || !bytes.Equal(beta, wantBeta) {
		r.Fail("ecvrf.Verify"+fm.name+":altered-bit-wrong-verdict", "which=%d bit=%d: got (%v,%x) reference (%v,%x)", c.Which, c.Bit, ok, beta, wantOK, wantBeta)
	}
	if ok {
		// an accepted alteration would have to be one the reference accepts too; count it
		r.Class("alteration-accepted-by-both")
	}
	return r.Result()
}

// The sweep is cut into eight tests so that the driver can run the parts in
// parallel (the reference verifier costs ~30 ms per case).
func c15BitSweep(t *testing.T, part int) {
	var cases []c15BitCase
	n := 0
	for _, v10 := range []bool{false, true} {
		for b := 0; b < 640+256; b++ {
			if n++; n%8 != part {
				continue
			}
			if b < 640 {
				cases = append(cases, c15BitCase{V10: v10, Which: 0, Bit: b})
			} else {
				cases = append(cases, c15BitCase{V10: v10, Which: 1, Bit: b - 640})
			}
		}
	}
	h.RunList(t, cases, c15CheckBit)
}

func TestC15BitSweep0(t *testing.T) { c15BitSweep(t, 0) }
func TestC15BitSweep1(t *testing.T) { c15BitSweep(t, 1) }
func TestC15BitSweep2(t *testing.T) { c15BitSweep(t, 2) }
func TestC15BitSweep3(t *testing.T) { c15BitSweep(t, 3) }
func TestC15BitSweep4(t *testing.T) { c15BitSweep(t, 4) }
func TestC15BitSweep5(t *testing.T) { c15BitSweep(t, 5) }
func TestC15BitSweep6(t *testing.T) { c15BitSweep(t, 6) }
func TestC15BitSweep7(t *testing.T) { c15BitSweep(t, 7) }
