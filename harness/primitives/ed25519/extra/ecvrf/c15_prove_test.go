//go:build verif

package ecvrf

// C15 — ECVRF proofs are complete, unique and specification-exact.
// Oracle: verifref's transcription of RFC 9381 section 5 for
// ECVRF-EDWARDS25519-SHA512-ELL2 (and the draft-10 challenge), which replays
// the RFC's appendix B.3 vectors in its self-test.  Keys are built from the
// reference (seed || reference public key), never by the library.
//
// This file: the honest prover (deterministic and with added randomness,
// both challenge formats), completeness, exactness, and the "any other key /
// input / format does not verify" neighbours.

import (
	"bytes"
	"io"
	"testing"

	"github.com/oasisprotocol/curve25519-voi/primitives/ed25519"

	"pgregory.net/rapid"
	h "verifh"
	ref "verifref"
)

type c15Fns struct {
	name     string
	f        ref.VrfFormat
	prove    func(ed25519.PrivateKey, []byte) []byte
	proveR   func(io.Reader, ed25519.PrivateKey, []byte) ([]byte, error)
	verify   func(ed25519.PublicKey, []byte, []byte) (bool, []byte)
	otherVer func(ed25519.PublicKey, []byte, []byte) (bool, []byte)
}

func c15Format(v10 bool) c15Fns {
	if v10 {
		return c15Fns{"_v10", ref.VrfDraft10, Prove_v10, ProveWithAddedRandomness_v10, Verify_v10, Verify}
	}
	return c15Fns{"", ref.VrfRFC9381, Prove, ProveWithAddedRandomness, Verify, Verify_v10}
}

func c15Key(seed []byte) (ed25519.PrivateKey, ed25519.PublicKey) {
	pk := ref.EdPublicKey(seed)
	sk := append(append([]byte(nil), seed...), pk...)
	return ed25519.PrivateKey(sk), ed25519.PublicKey(pk)
}

type c15ProveCase struct {
	Seed     h.Hex
	Alpha    h.Hex
	V10      bool
	Entropy  h.Hex // bytes served by the entropy reader
	EntCls   string
	Chunk    int   // max bytes per Read (0 = unlimited)
	Short    int   // if > 0 the stream ends after Short (< 32) bytes
	Seed2    h.Hex // an unrelated key
	AlphaBit int   // which bit of alpha to flip for the neighbour (if alpha non-empty)
}

func c15GenSeed(t *rapid.T, label string) []byte {
	switch rapid.IntRange(0, 9).Draw(t, label+"_sk") {
	case 0:
		return make([]byte, 32)
	case 1:
		return bytes.Repeat([]byte{0xff}, 32)
	default:
		return h.UniformBytes(t, 32, label)
	}
}

func c15GenProve(t *rapid.T) c15ProveCase {
	c := c15ProveCase{Seed: c15GenSeed(t, "seed"), Alpha: h.C15Alpha(t, "alpha"), V10: rapid.Bool().Draw(t, "v10")}
	c.Entropy, c.EntCls = h.C15Entropy(t, "ent")
	c.Chunk = rapid.SampledFrom([]int{0, 0, 1, 7, 31, 32, 33}).Draw(t, "chunk")
	if rapid.IntRange(0, 5).Draw(t, "short") == 0 {
		c.Short = rapid.SampledFrom([]int{1, 16, 31}).Draw(t, "shortn")
	}
	c.Seed2 = h.UniformBytes(t, 32, "seed2")
	c.AlphaBit = rapid.IntRange(0, 1<<20).Draw(t, "abit")
	return c
}

func c15CheckProve(c c15ProveCase) h.Result {
	fn := c15Format(c.V10)
	r := h.NewR().Class("format:rfc9381"+fn.name, "entropy:"+c.EntCls)
	r.NT(true) // every case exercises added randomness (and half of them v10)
	sk, pk := c15Key(c.Seed)
	alpha := append([]byte(nil), c.Alpha...)

	wantPi := ref.VrfProve(c.Seed, pk, c.Alpha, nil, fn.f)
	wantBeta, ok := ref.VrfProofToHash(wantPi)
	if !ok {
		panic("c15: reference proof does not decode")
	}

	// exactness of the deterministic prover
	r.Eval(1)
	pi := fn.prove(sk, alpha)
	if !bytes.Equal(pi, wantPi) {
		what := "s"
		switch {
		case len(pi) != 80:
			what = "length"
		case !bytes.Equal(pi[:32], wantPi[:32]):
			what = "Gamma"
		case !bytes.Equal(pi[32:48], wantPi[32:48]):
			what = "c"
		}
		r.Fail("ecvrf.Prove"+fn.name+":not-rfc-exact", "differs in %s: seed=%x alpha=%x got=%x want=%x", what, []byte(c.Seed), []byte(c.Alpha), pi, wantPi)
		return r.Result()
	}
	if !bytes.Equal(alpha, c.Alpha) || !bytes.Equal(sk[:32], c.Seed) || !bytes.Equal(sk[32:], pk) {
		r.Fail("ecvrf.Prove"+fn.name+":input-modified", "")
	}
	// completeness, and Verify returns exactly proof_to_hash
	r.Eval(2)
	okv, beta := fn.verify(pk, pi, alpha)
	if !okv {
		r.Fail("ecvrf.Verify"+fn.name+":honest-proof-rejected", "seed=%x alpha=%x pi=%x", []byte(c.Seed), []byte(c.Alpha), pi)
	} else if !bytes.Equal(beta, wantBeta) {
		r.Fail("ecvrf.Verify"+fn.name+":wrong-beta", "seed=%x alpha=%x got=%x want=%x", []byte(c.Seed), []byte(c.Alpha), beta, wantBeta)
	}
	pth, err := ProofToHash(pi)
	if err != nil || !bytes.Equal(pth, wantBeta) {
		r.Fail("ecvrf.ProofToHash:wrong-beta", "pi=%x got=%x err=%v want=%x", pi, pth, err, wantBeta)
	}
	// the two challenge formats never cross-verify
	r.Eval(1)
	if okx, _ := fn.otherVer(pk, pi, alpha); okx {
		if okr, _, _ := ref.VrfVerify(pk, pi, c.Alpha, 1-fn.f); !okr {
			r.Fail("ecvrf.Verify:cross-format-accepted", "proof made by Prove%s verified by the other format: seed=%x alpha=%x", fn.name, []byte(c.Seed), []byte(c.Alpha))
		}
	}
	// another key, another input
	r.Eval(2)
	_, pk2 := c15Key(c.Seed2)
	if !bytes.Equal(pk2, pk) {
		if ok2, _ := fn.verify(pk2, pi, alpha); ok2 {
			r.Fail("ecvrf.Verify"+fn.name+":other-key-accepted", "seed=%x seed2=%x alpha=%x", []byte(c.Seed), []byte(c.Seed2), []byte(c.Alpha))
		}
	}
	var alpha2 []byte
	if len(c.Alpha) == 0 || c.AlphaBit%3 == 0 {
		alpha2 = append(append([]byte(nil), c.Alpha...), byte(c.AlphaBit))
	} else {
		alpha2 = append([]byte(nil), c.Alpha...)
		bit := c.AlphaBit % (8 * len(alpha2))
		alpha2[bit/8] ^= 1 << uint(bit%8)
	}
	if ok3, _ := fn.verify(pk, pi, alpha2); ok3 {
		if okr, _, _ := ref.VrfVerify(pk, pi, alpha2, fn.f); !okr {
			r.Fail("ecvrf.Verify"+fn.name+":other-alpha-accepted", "seed=%x alpha=%x alpha2=%x", []byte(c.Seed), []byte(c.Alpha), alpha2)
		}
	}

	// added randomness
	ent := append([]byte(nil), c.Entropy...)
	if c.Short > 0 {
		ent = ent[:c.Short]
		r.Class("entropy-short")
	}
	// a quarter of the streams hold exactly the 32 bytes the construction
	// hashes and end with data+EOF in the same Read (legal for an io.Reader)
	exact := c.Short == 0 && len(ent) >= 32 && ent[0]&3 == 3
	if exact {
		ent = ent[:32]
		r.Class("entropy-exactly-32-bytes-then-EOF-with-data")
	}
	rd := &h.C15Reader{Data: ent, Chunk: c.Chunk, EOFData: exact}
	r.Eval(4)
	piR, err := fn.proveR(rd, sk, alpha)
	if c.Short > 0 {
		// fewer than the 32 bytes the construction hashes: the only
		// acceptable outcome is an error and no proof
		if err == nil || piR != nil {
			r.Fail("ecvrf.ProveWithAddedRandomness"+fn.name+":short-entropy-accepted", "stream of %d bytes, got pi=%x err=%v", c.Short, piR, err)
		}
		return r.Result()
	}
	if err != nil {
		return r.Fail("ecvrf.ProveWithAddedRandomness"+fn.name+":spurious-error", "chunk=%d: %v", c.Chunk, err).Result()
	}
	// What is documented (and what the property states) for the randomized
	// prover: the result is a valid proof for the same (key, alpha) -- decided
	// here by the reference verifier --, Gamma = x*H as for every RFC 9381
	// proof, the proof varies with the entropy and beta does not.  HOW the
	// entropy enters the nonce is not documented, so agreement with a mirror
	// of the current construction is recorded as a class, not asserted.
	if len(piR) != ProofSize {
		return r.Fail("ecvrf.ProveWithAddedRandomness"+fn.name+":bad-proof", "length %d", len(piR)).Result()
	}
	if refOK, refBeta, why := ref.VrfVerify(pk, piR, c.Alpha, fn.f); !refOK || !bytes.Equal(refBeta, wantBeta) {
		r.Fail("ecvrf.ProveWithAddedRandomness"+fn.name+":invalid-proof", "reference verifier: %v (%s): seed=%x alpha=%x entropy=%x pi=%x",
			refOK, why, []byte(c.Seed), []byte(c.Alpha), []byte(c.Entropy[:32]), piR)
		return r.Result()
	}
	if !bytes.Equal(piR[:32], wantPi[:32]) {
		r.Fail("ecvrf.ProveWithAddedRandomness"+fn.name+":gamma-not-xH", "Gamma=%x want=%x", piR[:32], wantPi[:32])
	}
	if bytes.Equal(piR, pi) {
		r.Fail("ecvrf.ProveWithAddedRandomness"+fn.name+":entropy-ignored", "proof equals the deterministic one")
	}
	ent2 := make([]byte, len(c.Entropy))
	for i := range ent2 {
		ent2[i] = ^c.Entropy[i]
	}
	if exact {
		ent2 = ent2[:32]
	}
	piR2, err := fn.proveR(&h.C15Reader{Data: ent2, Chunk: c.Chunk, EOFData: exact}, sk, alpha)
	if err != nil {
		return r.Fail("ecvrf.ProveWithAddedRandomness"+fn.name+":spurious-error", "chunk=%d: %v", c.Chunk, err).Result()
	}
	if bytes.Equal(piR2, piR) {
		r.Fail("ecvrf.ProveWithAddedRandomness"+fn.name+":entropy-ignored", "two entropy streams differing in every byte give the same proof %x", piR)
	}
	for _, p := range [][]byte{piR, piR2} {
		okr, betaR := fn.verify(pk, p, alpha)
		if !okr {
			r.Fail("ecvrf.Verify"+fn.name+":randomized-proof-rejected", "seed=%x alpha=%x pi=%x", []byte(c.Seed), []byte(c.Alpha), p)
		} else if !bytes.Equal(betaR, wantBeta) {
			// uniqueness: another verifying proof for the same (key, alpha)
			r.Fail("ecvrf.Verify"+fn.name+":beta-not-unique", "randomized proof gives beta=%x, deterministic %x", betaR, wantBeta)
		}
		if pthR, err := ProofToHash(p); err != nil || !bytes.Equal(pthR, wantBeta) {
			r.Fail("ecvrf.ProofToHash:beta-not-unique", "randomized proof: got=%x err=%v want=%x", pthR, err, wantBeta)
		}
	}
	if c.Chunk == 0 {
		if bytes.Equal(piR, ref.VrfProve(c.Seed, pk, c.Alpha, c.Entropy[:32], fn.f)) {
			r.Class("hedged:equals-mirror-of-current-construction")
		} else {
			r.Class("hedged:differs-from-mirror-of-current-construction")
		}
	}
	return r.Result()
}

func TestC15ProveVerify(t *testing.T) { h.Run(t, c15GenProve, c15CheckProve) }

// The RFC 9381 appendix B.3 inputs (and the draft-10 twins) as a fixed list:
// the check function itself compares with the reference, which in turn is
// pinned to the published pi/beta values by its self-test.
func TestC15RFCInputs(t *testing.T) {
	var cases []c15ProveCase
	for _, v := range []struct{ sk, alpha string }{
		{"9d61b19deffd5a60ba844af492ec2cc44449c5697b326919703bac031cae7f60", ""},
		{"4ccd089b28ff96da9db6c346ec114e0f5b8a319f35aba624da8cf6ed4fb8a6fb", "72"},
		{"c5aa8df43f9f837bedb7442f31dcb7b166d38535076f094b85ce3a2e0b4458f7", "af82"},
	} {
		for _, v10 := range []bool{false, true} {
			var seed, alpha h.Hex
			if err := seed.UnmarshalJSON([]byte(`"` + v.sk + `"`)); err != nil {
				t.Fatal(err)
			}
			if err := alpha.UnmarshalJSON([]byte(`"` + v.alpha + `"`)); err != nil {
				t.Fatal(err)
			}
			cases = append(cases, c15ProveCase{Seed: seed, Alpha: alpha, V10: v10, Entropy: bytes.Repeat([]byte{0x42}, 64), EntCls: "fixed",
				Seed2: bytes.Repeat([]byte{7}, 32), AlphaBit: 5})
		}
	}
	h.RunList(t, cases, c15CheckProve)
}
