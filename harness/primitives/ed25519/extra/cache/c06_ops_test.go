//go:build verif

package cache_test

// C06 — all arithmetic backends are observationally identical: extra/cache
// (sequential histories over a small LRU; concurrency is C18's subject).

import (
	"encoding/binary"
	"testing"

	"github.com/oasisprotocol/curve25519-voi/curve"
	"github.com/oasisprotocol/curve25519-voi/primitives/ed25519"
	"github.com/oasisprotocol/curve25519-voi/primitives/ed25519/extra/cache"
	"pgregory.net/rapid"
	h "verifh"
)

var c06CacheKinds = []string{"verify", "verifyopts", "addpublickey", "batchadd", "batchaddopts", "get", "put"}

func c06CacheOps() []h.DiffOp {
	return []h.DiffOp{
		{Name: "history", Weight: 1,
			Covers: []string{"NewLRUCache", "NewVerifier", "Verifier.Verify", "Verifier.VerifyWithOptions", "Verifier.AddPublicKey", "Verifier.Add",
				"Verifier.AddWithOptions", "(interface)Cache.Get", "(interface)Cache.Put"},
			Gen: func(t *rapid.T, c *h.DiffCase) {
				c.PutN(rapid.IntRange(1, 4).Draw(t, "capacity"))
				c.PutB(h.UniformBytes(t, 8, "seed"))
				// a few odd public keys (small order, non-canonical, invalid, wrong length) next to the derived good ones
				for i := 0; i < 2; i++ {
					if rapid.IntRange(0, 5).Draw(t, "hostile") == 0 {
						h.DiffSized(t, c, 32, "oddkey")
					} else {
						b, _ := h.GenPointBytes(t, "oddkey")
						c.PutB(b)
					}
				}
				n := rapid.IntRange(1, 16).Draw(t, "steps")
				c.PutN(n)
				for i := 0; i < n; i++ {
					c.PutN(rapid.IntRange(0, len(c06CacheKinds)-1).Draw(t, "kind"))
					c.PutN(rapid.IntRange(0, 6).Draw(t, "key")) // 0..4 derived keys, 5..6 odd keys
					c.PutN(rapid.IntRange(0, 3).Draw(t, "sigmode"))
				}
				h.DiffEntropy(t, c, 32, "rand")
			},
			Exec: func(a *h.DiffArgs, o *h.DiffOut) {
				capacity := a.N()
				if capacity < 1 || capacity > 64 {
					capacity = 1
				}
				seedB := a.B()
				var seed uint64
				if len(seedB) >= 8 {
					seed = binary.LittleEndian.Uint64(seedB)
				}
				odd := [][]byte{a.B(), a.B()}
				lru := cache.NewLRUCache(capacity)
				v := cache.NewVerifier(lru)
				bv := ed25519.NewBatchVerifier()
				privs := make([]ed25519.PrivateKey, 5)
				for i := range privs {
					privs[i] = ed25519.NewKeyFromSeed(h.Expand(seed+uint64(i), 32))
				}
				n := a.N()
				for i := 0; i < n && i < 64; i++ {
					kind, ki, sm := a.N(), a.N(), a.N()
					if kind < 0 || kind >= len(c06CacheKinds) {
						kind = 0
					}
					if ki < 0 || ki > 6 {
						ki = 0
					}
					msg := h.Expand(seed^uint64(i), 10+i)
					opts := &ed25519.Options{}
					if sm&2 != 0 {
						opts.Context = "c06 cache"
					}
					var pk, sig []byte
					if ki < 5 {
						pk = privs[ki].Public().(ed25519.PublicKey)
						sig, _ = privs[ki].Sign(h.NewDiffReader(nil), msg, opts)
					} else {
						pk = odd[ki-5]
						sig, _ = privs[0].Sign(h.NewDiffReader(nil), msg, opts)
					}
					if sm&1 != 0 && len(sig) == 64 {
						sig[40] ^= 0x10
					}
					switch c06CacheKinds[kind] {
					case "verify":
						o.Panics("verify", func() { o.Bool("ok", v.Verify(pk, msg, sig)) })
					case "verifyopts":
						o.Panics("verifyopts", func() { o.Bool("ok", v.VerifyWithOptions(pk, msg, sig, opts)) })
					case "addpublickey":
						v.AddPublicKey(pk)
					case "batchadd":
						o.Panics("batchadd", func() { v.Add(bv, pk, msg, sig) })
					case "batchaddopts":
						o.Panics("batchaddopts", func() { v.AddWithOptions(bv, pk, msg, sig, opts) })
					case "get":
						var cy curve.CompressedEdwardsY
						if _, err := cy.SetBytes(pk); err == nil {
							x := lru.Get(&cy)
							o.Bool("get.hit", x != nil)
							if x != nil {
								y := x.CompressedY()
								o.Bytes("get.y", y[:])
							}
						}
					case "put":
						var cy curve.CompressedEdwardsY
						if _, err := cy.SetBytes(pk); err == nil {
							if x, err := ed25519.NewExpandedPublicKey(pk); err == nil {
								lru.Put(&cy, x)
							}
						}
					}
				}
				rnd := a.B()
				o.Panics("batch", func() {
					ok, valid := bv.Verify(h.NewDiffReader(rnd))
					o.Bool("batch.ok", ok)
					vb := make([]byte, len(valid))
					for i, b := range valid {
						if b {
							vb[i] = 1
						}
					}
					o.Bytes("batch.valid", vb)
				})
				// final cache contents, observed through Get on every key used
				for i := range privs {
					var cy curve.CompressedEdwardsY
					cy.SetBytes(privs[i].Public().(ed25519.PublicKey))
					o.Bool("final.hit", lru.Get(&cy) != nil)
				}
				// documented: capacity must be positive
				o.Panics("zerocapacity", func() { cache.NewLRUCache(0) })
			}},
	}
}

func TestC06Cache(t *testing.T) {
	h.RunDiffOps(t, "primitives/ed25519/extra/cache", h.DiffBackend(""), c06CacheOps())
}
