//go:build verif

package cache

// C18 (b) — the LRU key cache is linearizable and structurally consistent.
//
// A case is a generated concurrent program over ONE lruCache: capacity 1..3,
// a key universe larger than the capacity, an optional sequential prefill and
// 2..4 goroutines with 3..8 calls of {Get(k), Put(k, v_i)} each, every Put
// carrying its own *ExpandedPublicKey (distinct pointer = value identity;
// its CompressedY() is the key, as the cache's eviction path requires), plus
// generated yield points and GOMAXPROCS in {1,2,4,16}.  The child process
// runs the program many times; each run records call/return stamps from one
// atomic logical clock (an op's interval therefore contains its real
// duration, and "a returned before b was called" is a fact, not a clock
// reading) and then
//   - checks the recorded history + a final ordered snapshot of the recency
//     list for linearizability against the sequential LRU model with
//     porcupine (an "illegal" verdict is confirmed by an independent
//     brute-force checker before it is reported),
//   - checks that Get never returned an expanded key of another public key,
//   - checks the structural invariants after quiescence.
// The race detector watches all of it.  Schedules cannot be replayed: the
// replay file carries the program and (in the detail) the offending history;
// replaying re-runs the program 20x as often as a normal run (3000 / 12000 times).

import (
	"fmt"
	"os"
	"strings"
	"sync"
	"sync/atomic"
	"testing"

	"github.com/oasisprotocol/curve25519-voi/curve"
	"github.com/oasisprotocol/curve25519-voi/primitives/ed25519"
	"pgregory.net/rapid"
	h "verifh"
)

type c18HOp struct {
	Put  bool
	K    int
	Y    int // yield kind before the call (see C18Perturb)
	Spin int
}

type c18HCase struct {
	Cap   int
	NKeys int
	Procs int
	// Lockstep: the goroutines rendezvous before every call, so that their i-th
	// calls hit the cache at (nearly) the same instant (maximises real overlap
	// inside the critical sections); otherwise they only start together.
	Lockstep bool
	Prefill  []c18HOp
	G        [][]c18HOp
}

func c18GenHOp(t *rapid.T, nkeys int, putBias int) c18HOp {
	op := c18HOp{}
	op.Put = rapid.IntRange(0, 9).Draw(t, "put") < putBias
	// half of the traffic goes to two hot keys so that same-key calls collide
	if rapid.IntRange(0, 1).Draw(t, "hot") == 0 {
		op.K = rapid.IntRange(0, 1).Draw(t, "k") % nkeys
	} else {
		op.K = rapid.IntRange(0, nkeys-1).Draw(t, "k")
	}
	op.Y = rapid.SampledFrom([]int{0, 0, 0, 1, 2, 3}).Draw(t, "y")
	if op.Y&2 != 0 {
		op.Spin = rapid.IntRange(1, 400).Draw(t, "spin")
	}
	return op
}

func c18GenHistory(t *rapid.T) c18HCase {
	c := c18HCase{}
	c.Cap = rapid.IntRange(1, 3).Draw(t, "cap")
	c.NKeys = rapid.IntRange(c.Cap+1, 6).Draw(t, "nkeys")
	c.Procs = rapid.SampledFrom([]int{1, 2, 4, 4, 16, 16}).Draw(t, "procs")
	c.Lockstep = rapid.IntRange(0, 2).Draw(t, "lockstep") == 0
	putBias := rapid.IntRange(3, 7).Draw(t, "putbias")
	npre := rapid.IntRange(0, c.Cap+1).Draw(t, "npre")
	for i := 0; i < npre; i++ {
		op := c18GenHOp(t, c.NKeys, 10)
		op.Y, op.Spin = 0, 0
		c.Prefill = append(c.Prefill, op)
	}
	ng := rapid.IntRange(2, 4).Draw(t, "goroutines")
	for g := 0; g < ng; g++ {
		n := rapid.IntRange(3, 8).Draw(t, "nops")
		var ops []c18HOp
		for i := 0; i < n; i++ {
			ops = append(ops, c18GenHOp(t, c.NKeys, putBias))
		}
		c.G = append(c.G, ops)
	}
	return c
}

func c18HValid(c c18HCase) bool {
	if c.Cap < 1 || c.Cap > 3 || c.NKeys <= c.Cap || c.NKeys > 6 || len(c.G) < 1 || len(c.G) > 8 || c.Procs < 1 || c.Procs > 64 {
		return false
	}
	n := len(c.Prefill)
	for _, g := range c.G {
		n += len(g)
	}
	if n > 60 {
		return false
	}
	for _, g := range append([][]c18HOp{c.Prefill}, c.G...) {
		for _, op := range g {
			if op.K < 0 || op.K >= c.NKeys {
				return false
			}
		}
	}
	return true
}

// distinct keys that are Put somewhere: more of them than the capacity means
// that at least one eviction must happen in every run of the program.
func c18HDistinctPutKeys(c c18HCase) int {
	seen := map[int]bool{}
	for _, g := range append([][]c18HOp{c.Prefill}, c.G...) {
		for _, op := range g {
			if op.Put {
				seen[op.K] = true
			}
		}
	}
	return len(seen)
}

func c18Bucket(n int) string {
	switch {
	case n == 0:
		return "0"
	case n <= 3:
		return "1-3"
	case n <= 15:
		return "4-15"
	}
	return "16+"
}

func c18CheckHistory(c c18HCase) h.Result {
	r := h.NewR()
	if !c18HValid(c) {
		return r.Class("invalid-case").Result()
	}
	reps := 150
	if !strings.HasPrefix(os.Getenv("VERIF_CONFIG"), "race") {
		reps = 600 // uninstrumented code is several times faster
	}
	reps = C18Reps(reps, 20*reps)
	rep, viol := C18Spawn("history", "TestC18ChildHistory", c, c.Procs, reps)
	r.Class(fmt.Sprintf("cap:%d", c.Cap), fmt.Sprintf("procs:%d", c.Procs), fmt.Sprintf("goroutines:%d", len(c.G)), fmt.Sprintf("lockstep:%v", c.Lockstep))
	if viol != nil {
		r.NT(true)
		r.Fail(viol.Sig, "%s", viol.Detail)
		return r.Result()
	}
	r.Eval(rep.Linearized + rep.InvariantsOK)
	// evidence: how much real overlap and how many evictions the runs had
	r.Class(C18CPUBucket(rep.MaxRepCPUms))
	if rep.PutReplaces > 0 {
		r.Class("put-on-resident-key:replaces-value(histories explained only that way)")
	}
	r.Class("overlap-pairs(max over reps):"+c18Bucket(rep.MaxOverlap), "evictions(min over reps):"+c18Bucket(rep.MinEvict))
	switch {
	case rep.RepsOverlap == 0:
		r.Class("reps-with-overlap:none(VACUOUS-for-concurrency)")
	case rep.RepsOverlap*2 < rep.Reps:
		r.Class("reps-with-overlap:<50%")
	default:
		r.Class("reps-with-overlap:>=50%")
	}
	if c18HDistinctPutKeys(c) > c.Cap {
		r.Class("eviction-forced-by-program")
	}
	// non-trivial: at least one run had >= 1 eviction and >= 1 overlapping pair of calls
	r.NT(rep.RepsNT > 0)
	return r.Result()
}

// TestC18History is the property (parent side).
func TestC18History(t *testing.T) {
	if C18IsChild("history") || C18IsChild("workload") {
		t.Skip("child process")
	}
	h.Run(t, c18GenHistory, c18CheckHistory)
}

// ---- child side ----

var c18HKeySeeds = [6]byte{11, 22, 33, 44, 55, 66}

type c18HEnv struct {
	keys  [6]curve.CompressedEdwardsY
	proto [6]*ed25519.ExpandedPublicKey
}

func c18HNewEnv() *c18HEnv {
	e := &c18HEnv{}
	for i := range e.keys {
		var seed [32]byte
		for j := range seed {
			seed[j] = c18HKeySeeds[i] + byte(j)
		}
		pub := ed25519.NewKeyFromSeed(seed[:]).Public().(ed25519.PublicKey)
		if _, err := e.keys[i].SetBytes(pub); err != nil {
			panic(err)
		}
		x, err := ed25519.NewExpandedPublicKey(pub)
		if err != nil {
			panic(err)
		}
		e.proto[i] = x
	}
	return e
}

// c18HRun executes the program once and returns the recorded history
// (including the final snapshot), or a violation found while running.
func c18HRun(c c18HCase, env *c18HEnv, rep int) (hist []c18Rec, viol *C18Viol) {
	cacheIface := NewLRUCache(c.Cap)
	// The structural part below reads the fields of the repository's LRU.  A tree whose constructor hands out another
	// implementation of the Cache interface (for some capacities, say) is not wrong for that: the history is then judged
	// as a black box (Get/Put records plus quiescent Gets of every key), without the structural invariants.
	lru, _ := cacheIface.(*lruCache)

	// Every Put gets its own value: a distinct pointer to a copy of the key's
	// expanded public key (so CompressedY() is the key).  Value ids start at 1.
	ptrID := map[*ed25519.ExpandedPublicKey]int{}
	nextID := 1
	type prepared struct {
		op  c18HOp
		val *ed25519.ExpandedPublicKey
		id  int
	}
	prep := func(ops []c18HOp) []prepared {
		out := make([]prepared, len(ops))
		for i, op := range ops {
			out[i].op = op
			if op.Put {
				cp := *env.proto[op.K]
				out[i].val, out[i].id = &cp, nextID
				ptrID[&cp] = nextID
				nextID++
			}
		}
		return out
	}
	pre := prep(c.Prefill)
	progs := make([][]prepared, len(c.G))
	for g := range c.G {
		progs[g] = prep(c.G[g])
	}

	var clk int64
	var wrongKey int32
	exec := func(client int, p prepared) c18Rec {
		rec := c18Rec{Client: client, In: c18In{Op: c18OpGet, K: p.op.K}}
		// private copy: the callee gets a pointer to a buffer that the caller
		// REUSES (overwrites) as soon as the call has returned - the cache must
		// have copied whatever it wants to remember about the key
		kp := new(curve.CompressedEdwardsY)
		*kp = env.keys[p.op.K]
		scribble := func() {
			for i := range kp {
				kp[i] = 0xee
			}
		}
		if p.op.Put {
			rec.In.Op, rec.In.Val = c18OpPut, p.id
			rec.Call = atomic.AddInt64(&clk, 1)
			cacheIface.Put(kp, p.val)
			rec.Ret = atomic.AddInt64(&clk, 1)
			scribble()
			return rec
		}
		rec.Call = atomic.AddInt64(&clk, 1)
		got := cacheIface.Get(kp)
		rec.Ret = atomic.AddInt64(&clk, 1)
		scribble()
		switch {
		case got == nil:
			rec.Out.Val = c18Miss
		default:
			id, ok := ptrID[got] // read-only during the concurrent phase
			if !ok {
				id = c18Foreign
			}
			rec.Out.Val = id
			if got.CompressedY() != env.keys[p.op.K] {
				atomic.StoreInt32(&wrongKey, 1)
			}
		}
		return rec
	}

	for _, p := range pre {
		hist = append(hist, exec(0, p))
	}
	per := make([][]c18Rec, len(progs))
	panics := make([]string, len(progs))
	bar := C18NewBarrier(len(progs))
	var rounds []*C18StartBarrier
	if c.Lockstep {
		lens := make([]int, len(progs))
		for g := range progs {
			lens[g] = len(progs[g])
		}
		rounds = C18RoundBarriers(lens)
	}
	var wg sync.WaitGroup
	for g := range progs {
		wg.Add(1)
		go func(g int) {
			defer wg.Done()
			defer func() {
				if r := recover(); r != nil {
					panics[g] = fmt.Sprint(r)
					C18AbortBarriers(rounds)
				}
			}()
			recs := make([]c18Rec, 0, len(progs[g]))
			bar.Wait()
			for i, p := range progs[g] {
				if rounds != nil {
					rounds[i].Wait()
				}
				C18Perturb(p.op.Y, p.op.Spin, rep)
				recs = append(recs, exec(g, p))
				per[g] = recs
			}
		}(g)
	}
	wg.Wait()
	for g := range per {
		hist = append(hist, per[g]...)
	}
	for g, p := range panics {
		if p != "" {
			return hist, &C18Viol{Sig: "lruCache:panic-under-concurrency", Detail: fmt.Sprintf("goroutine %d panicked: %s\nhistory so far:\n%s", g, p, c18DumpHistory(hist))}
		}
	}
	if atomic.LoadInt32(&wrongKey) != 0 {
		return hist, &C18Viol{Sig: "lruCache.Get:returned-key-of-different-public-key", Detail: c18DumpHistory(hist)}
	}

	// ---- quiescence: structural invariants (no call is in flight any more) ----
	bad := func(format string, a ...interface{}) *C18Viol {
		return &C18Viol{Sig: "lruCache:structural-invariant-broken", Detail: fmt.Sprintf(format, a...) + "\nhistory:\n" + c18DumpHistory(hist)}
	}
	if lru == nil {
		resident := 0
		for i := 0; i < c.NKeys; i++ {
			key := env.keys[i]
			rec := c18Rec{Client: 0, In: c18In{Op: c18OpGet, K: i}}
			rec.Call = atomic.AddInt64(&clk, 1)
			got := cacheIface.Get(&key)
			rec.Ret = atomic.AddInt64(&clk, 1)
			switch {
			case got == nil:
				rec.Out.Val = c18Miss
			default:
				resident++
				id, ok := ptrID[got]
				if !ok {
					id = c18Foreign
				}
				rec.Out.Val = id
				if got.CompressedY() != key {
					return hist, &C18Viol{Sig: "lruCache.Get:returned-key-of-different-public-key", Detail: c18DumpHistory(hist)}
				}
			}
			hist = append(hist, rec)
		}
		if resident > c.Cap {
			return hist, &C18Viol{Sig: "cache:holds-more-than-its-capacity", Detail: fmt.Sprintf("%d keys resident after quiescence, capacity %d (opaque cache type %T)\nhistory:\n%s", resident, c.Cap, cacheIface, c18DumpHistory(hist))}
		}
		return hist, nil
	}
	if len(lru.store) != lru.list.Len() {
		return hist, bad("len(store)=%d != list.Len()=%d (capacity %d)", len(lru.store), lru.list.Len(), c.Cap)
	}
	if lru.list.Len() > c.Cap {
		return hist, bad("list.Len()=%d exceeds capacity %d", lru.list.Len(), c.Cap)
	}
	var snap []byte
	n := 0
	for e := lru.list.Front(); e != nil; e = e.Next() {
		n++
		if n > lru.list.Len() {
			return hist, bad("recency list is longer than its Len()")
		}
		ent, ok := e.Value.(*lruEntry)
		if !ok || ent == nil || ent.publicKey == nil {
			return hist, bad("list element %d holds %T", n, e.Value)
		}
		if ent.element != e {
			return hist, bad("list element %d: entry.element does not point back to the element", n)
		}
		ky := ent.publicKey.CompressedY()
		if lru.store[ky] != ent {
			return hist, bad("list element %d (key %x): store maps the key to a different entry (or none)", n, ky[:4])
		}
		ki := -1
		for i := 0; i < c.NKeys; i++ {
			if env.keys[i] == ky {
				ki = i
			}
		}
		id, known := ptrID[ent.publicKey]
		if ki < 0 || !known {
			return hist, bad("list element %d holds a key/value that no Put supplied", n)
		}
		snap = append(snap, byte(ki), byte(id))
	}
	if n != lru.list.Len() {
		return hist, bad("recency list has %d reachable elements, Len()=%d", n, lru.list.Len())
	}
	for k, ent := range lru.store {
		if ent == nil || ent.publicKey == nil || ent.publicKey.CompressedY() != k {
			return hist, bad("store[%x] holds an entry of a different key", k[:4])
		}
		if ent.element == nil || ent.element.Value != interface{}(ent) {
			return hist, bad("store[%x]: entry.element does not hold the entry", k[:4])
		}
	}
	// the final snapshot is an observation made after everything returned
	sc := atomic.AddInt64(&clk, 1)
	hist = append(hist, c18Rec{Client: 0, In: c18In{Op: c18OpSnap}, Out: c18Out{Snap: string(snap)}, Call: sc, Ret: atomic.AddInt64(&clk, 1)})
	// Get(k) after quiescence returns exactly what the index holds for k (done
	// last: it reorders the list) and nil for non-resident keys.
	for i := 0; i < c.NKeys; i++ {
		key := env.keys[i]
		var want *ed25519.ExpandedPublicKey
		if ent := lru.store[key]; ent != nil {
			want = ent.publicKey
		}
		if got := cacheIface.Get(&key); got != want {
			return hist, bad("after quiescence Get(k%d) = %p, the index holds %p", i, got, want)
		}
	}
	if len(lru.store) != lru.list.Len() || lru.list.Len() > c.Cap {
		return hist, bad("after the final Gets: len(store)=%d list.Len()=%d capacity %d", len(lru.store), lru.list.Len(), c.Cap)
	}
	return hist, nil
}

// TestC18ChildHistory is the child side: it only runs when re-executed by
// C18Spawn.
func TestC18ChildHistory(t *testing.T) {
	if !C18IsChild("history") {
		t.Skip("not a child process")
	}
	var c c18HCase
	reps := C18ChildInput(&c)
	if !c18HValid(c) {
		panic("c18 child: invalid case")
	}
	env := c18HNewEnv()
	rep := C18Report{MinEvict: 1 << 30}
	for i := 0; i < reps; i++ {
		var (
			hist []c18Rec
			viol *C18Viol
		)
		C18Guard(&rep, fmt.Sprintf("history repetition %d", i), func() { hist, viol = c18HRun(c, env, i) })
		if viol != nil {
			rep.Viol = viol
			break
		}
		rep.InvariantsOK++
		ok, ev := c18CheckPorcupine(c.Cap, hist)
		if !ok {
			// not explained with "Put keeps the resident value": try "Put replaces it"
			c18PutReplaces = true
			ok, ev = c18CheckPorcupine(c.Cap, hist)
			bruteReplace := ok || c18CheckBrute(c.Cap, hist)
			c18PutReplaces = false
			if !ok {
				if bruteReplace || c18CheckBrute(c.Cap, hist) {
					// the two checkers disagree: a tool problem, never an alarm
					fmt.Printf("VERIF-HARNESS-ERROR c18: porcupine refused a history that the brute-force checker accepts:\n%s\n", c18DumpHistory(hist))
					t.FailNow()
				}
				rep.Viol = &C18Viol{Sig: "lruCache:history-not-linearizable",
					Detail: fmt.Sprintf("capacity %d, repetition %d: no sequential LRU execution explains this history under either value policy of Put (porcupine and the brute-force checker agree); [call,return] are logical clock stamps:\n%s", c.Cap, i, c18DumpHistory(hist))}
				break
			}
			rep.PutReplaces++
		}
		rep.Linearized++
		if ev < 0 {
			// porcupine did not return a linearization: fall back to the lower bound
			ev = c18HDistinctPutKeys(c) - c.Cap
			if ev < 0 {
				ev = 0
			}
		}
		ov := c18Overlap(hist)
		if ov > 0 {
			rep.RepsOverlap++
		}
		if ov > rep.MaxOverlap {
			rep.MaxOverlap = ov
		}
		rep.SumOverlap += ov
		if ev < rep.MinEvict {
			rep.MinEvict = ev
		}
		if ev > rep.MaxEvict {
			rep.MaxEvict = ev
		}
		if ev > 0 && ov > 0 {
			rep.RepsNT++
		}
		rep.Reps++
	}
	if rep.MinEvict == 1<<30 {
		rep.MinEvict = 0
	}
	C18ChildEmit(rep)
	if rep.Viol != nil {
		t.Fail()
	}
}
