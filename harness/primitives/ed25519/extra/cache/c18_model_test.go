//go:build verif

package cache

// C18 — sequential LRU model used as the porcupine specification, an
// independent brute-force linearizability checker used to confirm every
// porcupine verdict of "illegal" (so that a checker bug can never turn into an
// alarm against the library), and the self-tests of both.
//
// The model mirrors what lru.go documents/does:
//   - Get(k): a resident key returns the value stored by the Put that made it
//     resident and becomes the most recently used key; a miss returns nil and
//     changes nothing.
//   - Put(k, v): a resident key is refreshed ("Already in the cache, and now
//     marked as most-recently-used"); lru.go keeps the resident value, but an
//     atomic map may just as well replace it (both values belong to the same
//     public key), so the value policy is a parameter (c18PutReplaces) and a
//     history is judged under both before it is called illegal; a
//     non-resident key is inserted as the most recently used key after
//     evicting the least recently used key if the cache is full.
//   - Snapshot (harness-only observation made after quiescence): the ordered
//     list of (key, value id), most recently used first.
//
// A state is a string of (key byte, value-id byte) pairs, most recently used
// first: strings are immutable and comparable, which is what porcupine wants.

import (
	"fmt"
	"math/rand"
	"sort"
	"strings"
	"testing"

	"github.com/anishathalye/porcupine"
	h "verifh"
	ref "verifref"
)

const (
	c18OpGet  = 0
	c18OpPut  = 1
	c18OpSnap = 2

	c18Miss    = -1 // Get returned nil
	c18Foreign = -2 // Get returned a pointer that no Put of this history supplied
)

// c18In is the input of one recorded call.
type c18In struct {
	Op  int // c18OpGet / c18OpPut / c18OpSnap
	K   int // key index
	Val int // value id supplied by a Put
}

// c18Out is the output of one recorded call: the value id returned by Get
// (c18Miss for nil), nothing for Put, the observed state for Snapshot.
type c18Out struct {
	Val  int
	Snap string
}

// c18Rec is one completed call with its logical call/return timestamps.
type c18Rec struct {
	Client    int
	In        c18In
	Out       c18Out
	Call, Ret int64
}

func c18StateFind(s string, k int) int {
	for i := 0; i+1 < len(s); i += 2 {
		if int(s[i]) == k {
			return i
		}
	}
	return -1
}

// c18ModelStep is the sequential specification.  evicted reports whether the
// step evicted an entry (used only for the eviction statistics).
func c18ModelStep(capacity int, s string, in c18In, out c18Out) (ok bool, ns string, evicted bool) {
	switch in.Op {
	case c18OpGet:
		i := c18StateFind(s, in.K)
		if i < 0 {
			return out.Val == c18Miss, s, false
		}
		if out.Val != int(s[i+1]) {
			return false, s, false
		}
		return true, s[i:i+2] + s[:i] + s[i+2:], false
	case c18OpPut:
		i := c18StateFind(s, in.K)
		if i >= 0 {
			if c18PutReplaces {
				return true, string([]byte{byte(in.K), byte(in.Val)}) + s[:i] + s[i+2:], false
			}
			return true, s[i:i+2] + s[:i] + s[i+2:], false
		}
		if len(s)/2 == capacity {
			s = s[:len(s)-2]
			evicted = true
		}
		return true, string([]byte{byte(in.K), byte(in.Val)}) + s, evicted
	case c18OpSnap:
		return out.Snap == s, s, false
	}
	panic("c18: bad op")
}

// c18PutReplaces selects the value policy of Put on a resident key: keep the
// resident value (false, what lru.go does) or replace it (true).  Only the
// checking code, which runs on one goroutine after quiescence, touches it.
var c18PutReplaces bool

func c18PorcupineModel(capacity int) porcupine.Model {
	return porcupine.Model{
		Init: func() interface{} { return "" },
		Step: func(state, input, output interface{}) (bool, interface{}) {
			ok, ns, _ := c18ModelStep(capacity, state.(string), input.(c18In), output.(c18Out))
			return ok, ns
		},
		Equal: func(a, b interface{}) bool { return a.(string) == b.(string) },
		DescribeOperation: func(input, output interface{}) string {
			return c18DescribeOp(input.(c18In), output.(c18Out))
		},
		DescribeState: func(state interface{}) string { return c18DescribeState(state.(string)) },
	}
}

func c18DescribeState(s string) string {
	var sb strings.Builder
	sb.WriteString("[")
	for i := 0; i+1 < len(s); i += 2 {
		if i > 0 {
			sb.WriteString(" ")
		}
		fmt.Fprintf(&sb, "k%d=v%d", s[i], s[i+1])
	}
	sb.WriteString("]")
	return sb.String()
}

func c18DescribeOp(in c18In, out c18Out) string {
	switch in.Op {
	case c18OpGet:
		switch out.Val {
		case c18Miss:
			return fmt.Sprintf("Get(k%d)->nil", in.K)
		case c18Foreign:
			return fmt.Sprintf("Get(k%d)->FOREIGN-POINTER", in.K)
		}
		return fmt.Sprintf("Get(k%d)->v%d", in.K, out.Val)
	case c18OpPut:
		return fmt.Sprintf("Put(k%d,v%d)", in.K, in.Val)
	}
	return "Snapshot->" + c18DescribeState(out.Snap)
}

// c18DumpHistory renders a history, ordered by call time, one op per line.
func c18DumpHistory(hist []c18Rec) string {
	hs := append([]c18Rec(nil), hist...)
	sort.SliceStable(hs, func(i, j int) bool { return hs[i].Call < hs[j].Call })
	var sb strings.Builder
	for _, r := range hs {
		fmt.Fprintf(&sb, "[%d,%d] g%d %s\n", r.Call, r.Ret, r.Client, c18DescribeOp(r.In, r.Out))
	}
	return sb.String()
}

// c18CheckPorcupine checks a history against the model.  It returns whether the
// history is linearizable and, if it is, the number of evictions along the
// linearization porcupine found (-1 when porcupine did not hand one out).
func c18CheckPorcupine(capacity int, hist []c18Rec) (ok bool, evictions int) {
	ops := make([]porcupine.Operation, len(hist))
	for i, r := range hist {
		ops[i] = porcupine.Operation{ClientId: r.Client, Input: r.In, Call: r.Call, Output: r.Out, Return: r.Ret}
	}
	res, info := porcupine.CheckOperationsVerbose(c18PorcupineModel(capacity), ops, 0)
	if res != porcupine.Ok {
		return false, -1
	}
	evictions = -1
	if pl := info.PartialLinearizations(); len(pl) == 1 && len(pl[0]) >= 1 && len(pl[0][0]) == len(hist) {
		s, n, good := "", 0, true
		for _, id := range pl[0][0] {
			if id < 0 || id >= len(hist) {
				good = false
				break
			}
			st, ns, ev := c18ModelStep(capacity, s, hist[id].In, hist[id].Out)
			if !st {
				good = false
				break
			}
			if ev {
				n++
			}
			s = ns
		}
		if good {
			evictions = n
		}
	}
	return true, evictions
}

// c18CheckBrute is an independent (Wing & Gong style) linearizability check:
// depth-first search over "which pending call takes effect next", with
// memoisation on (set of linearized calls, state).  An op may be linearized
// next iff no other not-yet-linearized op returned strictly before it was
// called (closed intervals, like porcupine).  Histories here have <= 64 ops.
func c18CheckBrute(capacity int, hist []c18Rec) bool {
	n := len(hist)
	if n > 64 {
		panic("c18: history too long for the brute-force checker")
	}
	type memoKey struct {
		done uint64
		s    string
	}
	seen := map[memoKey]bool{}
	var rec func(done uint64, s string) bool
	rec = func(done uint64, s string) bool {
		if done == (uint64(1)<<uint(n))-1 || (n == 64 && done == ^uint64(0)) {
			return true
		}
		mk := memoKey{done, s}
		if seen[mk] {
			return false
		}
		seen[mk] = true
		// earliest return among the pending ops
		minRet := int64(1) << 62
		for i := 0; i < n; i++ {
			if done&(1<<uint(i)) == 0 && hist[i].Ret < minRet {
				minRet = hist[i].Ret
			}
		}
		for i := 0; i < n; i++ {
			if done&(1<<uint(i)) != 0 || hist[i].Call > minRet {
				continue
			}
			ok, ns, _ := c18ModelStep(capacity, s, hist[i].In, hist[i].Out)
			if ok && rec(done|1<<uint(i), ns) {
				return true
			}
		}
		return false
	}
	return rec(0, "")
}

// c18Overlap counts the pairs of calls of different clients whose
// [call, return] intervals intersect.
func c18Overlap(hist []c18Rec) int {
	n := 0
	for i := range hist {
		for j := i + 1; j < len(hist); j++ {
			a, b := hist[i], hist[j]
			if a.Client != b.Client && a.Call < b.Ret && b.Call < a.Ret {
				n++
			}
		}
	}
	return n
}

// ---- self-tests of the model and of both checkers (run as a LIST test) ----

type c18SelfCase struct {
	Name string
}

func c18SelfCheck(c c18SelfCase) h.Result {
	r := h.NewR().Class("self:" + c.Name).NT(true)
	switch c.Name {
	case "model-vs-verifref":
		// The string model and verifref.LRU were written independently; they must
		// agree on every step of random sequential programs.
		rng := rand.New(rand.NewSource(18))
		for iter := 0; iter < 3000; iter++ {
			capacity := 1 + rng.Intn(3)
			m := ref.NewLRU[int, int](capacity)
			s := ""
			for step := 0; step < 40; step++ {
				k := rng.Intn(capacity + 3)
				r.Eval(1)
				if rng.Intn(2) == 0 {
					v, ok := m.Get(k)
					want := c18Miss
					if ok {
						want = v
					}
					good, ns, _ := c18ModelStep(capacity, s, c18In{Op: c18OpGet, K: k}, c18Out{Val: want})
					if !good {
						return r.Fail("harness:model-disagrees-with-verifref", "Get(k%d) want v%d in state %s", k, want, c18DescribeState(s)).Result()
					}
					// and a different answer must be refused
					if bad, _, _ := c18ModelStep(capacity, s, c18In{Op: c18OpGet, K: k}, c18Out{Val: want + 7}); bad {
						return r.Fail("harness:model-accepts-wrong-get", "state %s", c18DescribeState(s)).Result()
					}
					s = ns
				} else {
					id := step + 1
					_, did := m.Put(k, id)
					_, ns, ev := c18ModelStep(capacity, s, c18In{Op: c18OpPut, K: k, Val: id}, c18Out{})
					if ev != did {
						return r.Fail("harness:model-disagrees-with-verifref", "Put(k%d) eviction %v vs %v", k, ev, did).Result()
					}
					s = ns
				}
				keys := m.Keys()
				if len(keys)*2 != len(s) {
					return r.Fail("harness:model-disagrees-with-verifref", "len %d vs %s", len(keys), c18DescribeState(s)).Result()
				}
				for i, k := range keys {
					v, _ := m.Peek(k)
					if int(s[2*i]) != k || int(s[2*i+1]) != v {
						return r.Fail("harness:model-disagrees-with-verifref", "order %v vs %s", keys, c18DescribeState(s)).Result()
					}
				}
			}
		}
	case "checkers-known-histories":
		type kh struct {
			capacity int
			hist     []c18Rec
			want     bool
		}
		g := func(cl int, k int, out int, call, ret int64) c18Rec {
			return c18Rec{Client: cl, In: c18In{Op: c18OpGet, K: k}, Out: c18Out{Val: out}, Call: call, Ret: ret}
		}
		p := func(cl int, k, v int, call, ret int64) c18Rec {
			return c18Rec{Client: cl, In: c18In{Op: c18OpPut, K: k, Val: v}, Call: call, Ret: ret}
		}
		sn := func(s string, call, ret int64) c18Rec {
			return c18Rec{Client: 0, In: c18In{Op: c18OpSnap}, Out: c18Out{Snap: s}, Call: call, Ret: ret}
		}
		st := func(kv ...int) string {
			b := make([]byte, len(kv))
			for i, x := range kv {
				b[i] = byte(x)
			}
			return string(b)
		}
		list := []kh{
			// sequential, legal: put, hit, miss
			{2, []c18Rec{p(0, 1, 1, 1, 2), g(1, 1, 1, 3, 4), g(1, 2, c18Miss, 5, 6)}, true},
			// stale read: Get returns a value never resident under that key
			{2, []c18Rec{p(0, 1, 1, 1, 2), g(1, 1, 2, 3, 4)}, false},
			// resident Put must not replace the value
			{2, []c18Rec{p(0, 1, 1, 1, 2), p(0, 1, 2, 3, 4), g(1, 1, 2, 5, 6)}, false},
			{2, []c18Rec{p(0, 1, 1, 1, 2), p(0, 1, 2, 3, 4), g(1, 1, 1, 5, 6)}, true},
			// ... unless the two Puts overlap: then either order is a valid explanation
			{2, []c18Rec{p(0, 1, 1, 1, 4), p(1, 1, 2, 2, 3), g(1, 1, 2, 5, 6)}, true},
			{2, []c18Rec{p(0, 1, 1, 1, 4), p(1, 1, 2, 2, 3), g(1, 1, 1, 5, 6)}, true},
			// LRU order: get(1) refreshes 1, so put(3) evicts 2
			{2, []c18Rec{p(0, 1, 1, 1, 2), p(0, 2, 2, 3, 4), g(0, 1, 1, 5, 6), p(0, 3, 3, 7, 8), g(0, 2, c18Miss, 9, 10), g(0, 1, 1, 11, 12)}, true},
			// FIFO eviction (get did not refresh) is refused
			{2, []c18Rec{p(0, 1, 1, 1, 2), p(0, 2, 2, 3, 4), g(0, 1, 1, 5, 6), p(0, 3, 3, 7, 8), g(0, 1, c18Miss, 9, 10)}, false},
			// a resident Put refreshes recency
			{2, []c18Rec{p(0, 1, 1, 1, 2), p(0, 2, 2, 3, 4), p(0, 1, 9, 5, 6), p(0, 3, 3, 7, 8), g(0, 1, 1, 9, 10), g(0, 2, c18Miss, 11, 12)}, true},
			// capacity overflow: three keys resident in a capacity-2 cache
			{2, []c18Rec{p(0, 1, 1, 1, 2), p(0, 2, 2, 3, 4), p(0, 3, 3, 5, 6), g(0, 1, 1, 7, 8)}, false},
			// a miss that is only explicable while the Put is still pending
			{1, []c18Rec{p(0, 1, 1, 1, 10), g(1, 1, c18Miss, 2, 3), g(1, 1, 1, 4, 5)}, true},
			// ... but a miss after a hit with no eviction in between is not
			{1, []c18Rec{p(0, 1, 1, 1, 10), g(1, 1, 1, 2, 3), g(1, 1, c18Miss, 4, 5)}, false},
			// real-time order: the Put returned before the Get was called
			{1, []c18Rec{p(0, 1, 1, 1, 2), g(1, 1, c18Miss, 3, 4)}, false},
			// closed intervals: equal stamps count as concurrent
			{1, []c18Rec{p(0, 1, 1, 1, 3), g(1, 1, c18Miss, 3, 4)}, true},
			// snapshots pin the final order
			{2, []c18Rec{p(0, 1, 1, 1, 2), p(0, 2, 2, 3, 4), g(0, 1, 1, 5, 6), sn(st(1, 1, 2, 2), 7, 8)}, true},
			{2, []c18Rec{p(0, 1, 1, 1, 2), p(0, 2, 2, 3, 4), g(0, 1, 1, 5, 6), sn(st(2, 2, 1, 1), 7, 8)}, false},
			// duplicate element / foreign pointer
			{2, []c18Rec{p(0, 1, 1, 1, 2), sn(st(1, 1, 1, 1), 3, 4)}, false},
			{2, []c18Rec{p(0, 1, 1, 1, 2), g(0, 1, c18Foreign, 3, 4)}, false},
			// two overlapping Puts to a full capacity-1 cache then a hit on either is fine, on both is not
			{1, []c18Rec{p(0, 1, 1, 1, 4), p(1, 2, 2, 2, 5), g(0, 1, 1, 6, 7), g(0, 2, 2, 8, 9)}, false},
			{1, []c18Rec{p(0, 1, 1, 1, 4), p(1, 2, 2, 2, 5), g(0, 1, c18Miss, 6, 7), g(0, 2, 2, 8, 9)}, true},
		}
		for i, k := range list {
			r.Eval(2)
			po, _ := c18CheckPorcupine(k.capacity, k.hist)
			br := c18CheckBrute(k.capacity, k.hist)
			if po != k.want || br != k.want {
				return r.Fail("harness:linearizability-checker-wrong", "known history %d: porcupine=%v brute=%v want=%v\n%s", i, po, br, k.want, c18DumpHistory(k.hist)).Result()
			}
		}
	case "checkers-agree-random":
		// random (mostly illegal) concurrent histories: porcupine and the brute-force
		// checker must give the same verdict on all of them, and both must accept
		// histories produced by running the model under a random interleaving.
		rng := rand.New(rand.NewSource(1818))
		legal, illegal := 0, 0
		for iter := 0; iter < 1500; iter++ {
			capacity := 1 + rng.Intn(3)
			nkeys := capacity + 1 + rng.Intn(2)
			ncl := 2 + rng.Intn(3)
			// simulate: each client has a program; a global random scheduler picks
			// call / effect / return events; effect applies the model.
			type pend struct {
				rec   c18Rec
				phase int // 0 not called, 1 called, 2 took effect
			}
			var hist []c18Rec
			progLen := 2 + rng.Intn(5)
			cur := make([]pend, ncl)
			left := make([]int, ncl)
			for i := range left {
				left[i] = progLen
			}
			s, clk, nextID := "", int64(0), 1
			for {
				alive := []int{}
				for i := 0; i < ncl; i++ {
					if left[i] > 0 || cur[i].phase != 0 {
						alive = append(alive, i)
					}
				}
				if len(alive) == 0 {
					break
				}
				i := alive[rng.Intn(len(alive))]
				c := &cur[i]
				switch c.phase {
				case 0:
					left[i]--
					clk++
					in := c18In{Op: rng.Intn(2), K: rng.Intn(nkeys)}
					if in.Op == c18OpPut {
						in.Val = nextID
						nextID++
					}
					c.rec = c18Rec{Client: i, In: in, Call: clk}
					c.phase = 1
				case 1:
					if c.rec.In.Op == c18OpGet {
						c.rec.Out.Val = c18Miss
						if j := c18StateFind(s, c.rec.In.K); j >= 0 {
							c.rec.Out.Val = int(s[j+1])
						}
					}
					_, s, _ = c18ModelStep(capacity, s, c.rec.In, c.rec.Out)
					c.phase = 2
				case 2:
					clk++
					c.rec.Ret = clk
					hist = append(hist, c.rec)
					c.phase = 0
				}
			}
			clk++
			hist = append(hist, c18Rec{Client: 0, In: c18In{Op: c18OpSnap}, Out: c18Out{Snap: s}, Call: clk, Ret: clk + 1})
			r.Eval(2)
			po, _ := c18CheckPorcupine(capacity, hist)
			br := c18CheckBrute(capacity, hist)
			if !po || !br {
				return r.Fail("harness:linearizability-checker-wrong", "model-generated history refused: porcupine=%v brute=%v cap=%d\n%s", po, br, capacity, c18DumpHistory(hist)).Result()
			}
			// corrupt one output / snapshot and compare the verdicts
			mut := append([]c18Rec(nil), hist...)
			j := rng.Intn(len(mut))
			switch mut[j].In.Op {
			case c18OpGet:
				if mut[j].Out.Val == c18Miss {
					mut[j].Out.Val = 1 + rng.Intn(nextID)
				} else if rng.Intn(2) == 0 {
					mut[j].Out.Val = c18Miss
				} else {
					mut[j].Out.Val = 1 + rng.Intn(nextID)
				}
			case c18OpPut:
				mut[j].In.K = (mut[j].In.K + 1) % nkeys
			case c18OpSnap:
				if len(s) >= 4 {
					mut[j].Out.Snap = s[2:4] + s[:2] + s[4:]
				} else {
					mut[j].Out.Snap = s + "\x00\x63"
				}
			}
			po, _ = c18CheckPorcupine(capacity, mut)
			br = c18CheckBrute(capacity, mut)
			if po != br {
				return r.Fail("harness:linearizability-checkers-disagree", "porcupine=%v brute=%v cap=%d\n%s", po, br, capacity, c18DumpHistory(mut)).Result()
			}
			if po {
				legal++
			} else {
				illegal++
			}
		}
		if legal == 0 || illegal < 300 {
			return r.Fail("harness:checker-selftest-vacuous", "legal=%d illegal=%d", legal, illegal).Result()
		}
	}
	return r.Result()
}

// TestC18ModelSelf validates the trusted pieces of the history check.
func TestC18ModelSelf(t *testing.T) {
	h.RunList(t, []c18SelfCase{{"model-vs-verifref"}, {"checkers-known-histories"}, {"checkers-agree-random"}}, c18SelfCheck)
}
