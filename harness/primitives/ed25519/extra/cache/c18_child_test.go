//go:build verif

package cache

// C18 — process isolation for the concurrency checks.
//
// A concurrency defect shows up as a race-detector report on stderr, as a
// runtime fatal error that cannot be recovered ("concurrent map read and map
// write", "all goroutines are asleep - deadlock!", "sync: unlock of unlocked
// mutex"), as a panic in a worker goroutine, or as a wrong result.  Only the
// last two can be observed from inside the process that ran the workload, so
// every generated case is executed in a CHILD process (this same test binary,
// re-executed with -test.run=<child test> and the case on stdin) and the
// parent — the rapid property — classifies the child's complete output.  The
// child repeats the workload VERIF_C18_REPS times under varying perturbation.
//
// Identifiers starting with C18 are exported (from this _test file) to the
// external test package cache_test, which holds the API-level workload.

import (
	"bytes"
	"context"
	"encoding/json"
	"fmt"
	"io"
	"os"
	"os/exec"
	"runtime"
	"strconv"
	"strings"
	"sync"
	"sync/atomic"
	"syscall"
	"time"

	h "verifh"
)

const c18ReportPrefix = "C18-REPORT "

// C18Viol is a violation found by the child itself.
type C18Viol struct {
	Sig    string `json:"sig"`
	Detail string `json:"detail"`
}

// C18Report is what a child prints as its last line.
type C18Report struct {
	Viol *C18Viol `json:"viol,omitempty"`
	Reps int      `json:"reps"` // repetitions completed
	// history statistics (part b)
	RepsOverlap  int `json:"reps_overlap,omitempty"`  // repetitions with >= 1 overlapping pair of calls
	MaxOverlap   int `json:"max_overlap,omitempty"`   // largest number of overlapping pairs in one repetition
	SumOverlap   int `json:"sum_overlap,omitempty"`   // overlapping pairs over all repetitions
	MinEvict     int `json:"min_evict,omitempty"`     // fewest evictions along a found linearization
	MaxEvict     int `json:"max_evict,omitempty"`     // most evictions along a found linearization
	RepsNT       int `json:"reps_nt,omitempty"`       // repetitions with >= 1 eviction AND >= 1 overlapping pair
	Linearized   int `json:"linearized,omitempty"`    // histories accepted by porcupine
	InvariantsOK int `json:"invariants_ok,omitempty"` // quiescent structural checks passed
	// workload statistics (part a)
	RepsParallel int `json:"reps_parallel,omitempty"` // repetitions in which >= 2 goroutines' run intervals intersected (wall clock, evidence only)
	Compared     int `json:"compared,omitempty"`      // results compared with the sequential ones
	MaxRepCPUms  int `json:"max_rep_cpu_ms,omitempty"` // most CPU time one repetition took (margin to C18RepBudget)
	PutReplaces  int `json:"put_replaces,omitempty"`   // histories only explained by "Put replaces a resident value"
}

// C18RepBudget bounds the CPU time the child process may burn on ONE
// repetition (or on the sequential pass) before the goroutines are declared
// stuck: a library call that spins for ever would otherwise surface only as
// the 30-minute harness limit.  CPU time of the process (getrusage), not wall
// time, so load cannot trip it; legitimate repetitions take well under ten
// CPU-seconds even with race instrumentation (see max-rep-cpu classes).
const C18RepBudget = 300 * time.Second

// C18Guard runs f (which joins the goroutines of one repetition) under the
// budget.  When f does not come back the child emits a report carrying the
// violation and exits at once (the stuck goroutines cannot be stopped).
func C18Guard(rep *C18Report, what string, f func()) {
	c0 := h.ProcCPU()
	if h.Returns(C18RepBudget, f) {
		if ms := int((h.ProcCPU() - c0) / time.Millisecond); ms > rep.MaxRepCPUms {
			rep.MaxRepCPUms = ms
		}
		return
	}
	rep.Viol = &C18Viol{Sig: "api:no-return-under-concurrency", Detail: fmt.Sprintf("%s: the calls had not returned after the process burned %v of CPU time on them (they take milliseconds)", what, C18RepBudget)}
	C18ChildEmit(*rep)
	os.Stdout.Sync()
	os.Exit(1)
}

// C18CPUBucket labels MaxRepCPUms for the class histogram.
func C18CPUBucket(ms int) string {
	switch {
	case ms < 1000:
		return "max-rep-cpu:<1s"
	case ms < 10000:
		return "max-rep-cpu:1-10s"
	case ms < 60000:
		return "max-rep-cpu:10-60s"
	}
	return "max-rep-cpu:>=60s(budget 300s)"
}

// C18IsChild reports whether this process is a child and for which kind.
func C18IsChild(kind string) bool { return os.Getenv("VERIF_C18_CHILD") == kind }

// C18ChildInput reads the case (stdin) and the repetition count.
func C18ChildInput(v interface{}) (reps int) {
	// A child must not outlive its parent (killed by the driver's time limit,
	// or gone after reporting): without this a child spinning in a broken
	// library call would burn a core for ever.  The kernel delivers SIGKILL
	// when the parent goes away (PR_SET_PDEATHSIG); no goroutine or timer of
	// ours is involved, so the Go runtime's deadlock detector ("all goroutines
	// are asleep"), which the parent relies on, is not masked.
	parent := os.Getppid()
	syscall.RawSyscall(syscall.SYS_PRCTL, syscall.PR_SET_PDEATHSIG, uintptr(syscall.SIGKILL), 0)
	if os.Getppid() != parent {
		os.Exit(3) // the parent went away before the request took effect
	}
	b, err := io.ReadAll(os.Stdin)
	if err != nil {
		panic(err)
	}
	if err := json.Unmarshal(b, v); err != nil {
		panic(fmt.Sprintf("c18 child: bad case on stdin: %v", err))
	}
	reps, _ = strconv.Atoi(os.Getenv("VERIF_C18_REPS"))
	if reps <= 0 {
		reps = 1
	}
	return reps
}

// C18ChildEmit prints the report line.
func C18ChildEmit(rep C18Report) {
	b, _ := json.Marshal(rep)
	os.Stdout.Sync()
	fmt.Fprintf(os.Stdout, "\n%s%s\n", c18ReportPrefix, b)
}

// C18Reps is the number of repetitions a child should make: def in a normal
// run, replay when the driver replays a saved case ("replay re-runs the
// workload many times and re-checks").
func C18Reps(def, replay int) int {
	if os.Getenv("VERIF_REPLAY") != "" {
		return replay
	}
	return def
}

// C18Harness aborts the whole test process with a harness error (never a
// violation): the driver maps this to exit status 2.
func C18Harness(format string, a ...interface{}) {
	fmt.Printf("VERIF-HARNESS-ERROR c18: %s\n", strings.ReplaceAll(fmt.Sprintf(format, a...), "\n", " | "))
	os.Stdout.Sync()
	os.Exit(3)
}

func c18Tail(s string, n int) string {
	if len(s) > n {
		return "..." + s[len(s)-n:]
	}
	return s
}

func c18Section(out, marker string, max int) string {
	i := strings.Index(out, marker)
	if i < 0 {
		return ""
	}
	s := out[i:]
	if len(s) > max {
		s = s[:max] + "\n...(truncated)"
	}
	return s
}

// C18Spawn runs child test `test` of kind `kind` on the JSON-serialised case
// with the given GOMAXPROCS and repetition count and classifies the outcome:
// a violation (never nil Report then), a clean report, or a harness error
// (process abort).  The classification uses only facts: race reports, runtime
// fatal errors that name a synchronisation defect, the child's own verdict.
// There is no deadline that could turn a slow machine into an alarm: the
// 30-minute limit below only converts a hang into a harness error.
func C18Spawn(kind, test string, c interface{}, procs, reps int) (C18Report, *h.Violation) {
	js, err := json.Marshal(c)
	if err != nil {
		C18Harness("cannot serialise case: %v", err)
	}
	exe, err := os.Executable()
	if err != nil {
		C18Harness("os.Executable: %v", err)
	}
	ctx, cancel := context.WithTimeout(context.Background(), 30*time.Minute)
	defer cancel()
	cmd := exec.CommandContext(ctx, exe, "-test.run", "^"+test+"$", "-test.count", "1", "-test.timeout", "0")
	var env []string
	for _, kv := range os.Environ() {
		k := kv
		if i := strings.IndexByte(kv, '='); i >= 0 {
			k = kv[:i]
		}
		switch k {
		case "VERIF_REPLAY", "VERIF_STATS_DIR", "VERIF_REPLAY_DIR", "VERIF_DIFF_DIR", "GOMAXPROCS", "GORACE", "VERIF_C18_CHILD", "VERIF_C18_REPS", "GOTRACEBACK":
			continue
		}
		env = append(env, kv)
	}
	env = append(env, "VERIF_C18_CHILD="+kind, "VERIF_C18_REPS="+strconv.Itoa(reps), "GOMAXPROCS="+strconv.Itoa(procs),
		"GORACE=atexit_sleep_ms=0 halt_on_error=0 history_size=2", "GOTRACEBACK=single")
	cmd.Env = env
	cmd.Stdin = bytes.NewReader(js)
	var buf bytes.Buffer
	cmd.Stdout = &buf
	cmd.Stderr = &buf
	runErr := cmd.Run()
	out := buf.String()

	var rep C18Report
	haveRep := false
	if i := strings.LastIndex(out, "\n"+c18ReportPrefix); i >= 0 {
		line := out[i+1+len(c18ReportPrefix):]
		if j := strings.IndexByte(line, '\n'); j >= 0 {
			line = line[:j]
		}
		if json.Unmarshal([]byte(line), &rep) == nil {
			haveRep = true
		}
	}
	repTxt := fmt.Sprintf("(child completed %d repetitions)", rep.Reps)
	switch {
	case strings.Contains(out, "WARNING: DATA RACE"):
		return rep, h.Violf("race:data-race", "the race detector reported a data race %s\n%s", repTxt, c18Section(out, "WARNING: DATA RACE", 7000))
	case strings.Contains(out, "fatal error: concurrent map"):
		return rep, h.Violf("runtime:concurrent-map-access", "%s", c18Section(out, "fatal error: concurrent map", 5000))
	case strings.Contains(out, "all goroutines are asleep"):
		return rep, h.Violf("runtime:deadlock", "%s", c18Section(out, "fatal error: all goroutines are asleep", 5000))
	case strings.Contains(out, "fatal error: sync:"):
		return rep, h.Violf("runtime:sync-misuse", "%s", c18Section(out, "fatal error: sync:", 5000))
	}
	if haveRep && rep.Viol != nil {
		return rep, &h.Violation{Sig: rep.Viol.Sig, Detail: rep.Viol.Detail}
	}
	if runErr == nil && haveRep {
		return rep, nil
	}
	C18Harness("child %s failed without a recognised concurrency defect: err=%v report=%v output tail: %s", test, runErr, haveRep, c18Tail(out, 3000))
	return rep, nil
}

// ---- perturbation shared by both child kinds ----

var c18Sink uint64

// C18Perturb is a generated yield point: bit 0 of y = runtime.Gosched(), bit 1
// = a short spin of `spin` iterations (varied with the repetition number so
// that the repetitions of one case do not all line up the same way).
func C18Perturb(y, spin, rep int) {
	if y&2 != 0 {
		n := (spin * (1 + rep%7)) & 0x3fff
		var x uint64
		for i := 0; i < n; i++ {
			x += uint64(i) ^ (x << 1)
		}
		if x == 0xdeadbeefdeadbeef {
			atomic.AddUint64(&c18Sink, 1)
		}
	}
	if y&1 != 0 {
		runtime.Gosched()
	}
}

// C18StartBarrier makes n goroutines leave together: each announces itself and
// then spins for a while (yielding, so that it also works with GOMAXPROCS=1)
// until all have arrived; a waiter that has spun long enough parks on a
// condition variable, so that a goroutine stuck forever inside the library
// still ends in the runtime's "all goroutines are asleep" report instead of a
// livelock of spinning waiters.
type C18StartBarrier struct {
	n       int32
	arrived int32
	abort   *int32 // shared by the barriers of one run: set when a participant died
	mu      sync.Mutex
	cond    *sync.Cond
}

func c18NewBarrier(n int, abort *int32) *C18StartBarrier {
	b := &C18StartBarrier{n: int32(n), abort: abort}
	b.cond = sync.NewCond(&b.mu)
	return b
}

func C18NewBarrier(n int) *C18StartBarrier { return c18NewBarrier(n, new(int32)) }

func (b *C18StartBarrier) done() bool {
	return atomic.LoadInt32(&b.arrived) >= b.n || atomic.LoadInt32(b.abort) != 0
}

func (b *C18StartBarrier) wake() {
	b.mu.Lock()
	b.cond.Broadcast()
	b.mu.Unlock()
}

func (b *C18StartBarrier) Wait() {
	if atomic.AddInt32(&b.arrived, 1) >= b.n {
		b.wake()
		return
	}
	single := runtime.GOMAXPROCS(0) == 1
	for i := 0; i < 20000; i++ {
		if b.done() {
			return
		}
		if i&15 == 15 || single {
			runtime.Gosched()
		}
	}
	b.mu.Lock()
	for !b.done() {
		b.cond.Wait()
	}
	b.mu.Unlock()
}

// C18AbortBarriers releases everybody waiting (now or later) on these
// barriers: used when a worker goroutine panicked and will never arrive.
func C18AbortBarriers(bars []*C18StartBarrier) {
	for _, b := range bars {
		atomic.StoreInt32(b.abort, 1)
	}
	for _, b := range bars {
		b.wake()
	}
}

// C18RoundBarriers returns one barrier per op index for lock-step cases: the
// goroutines that still have an op at index i rendezvous before it, so that
// their i-th calls enter the library at (nearly) the same instant.  lens are
// the op counts per goroutine.
func C18RoundBarriers(lens []int) []*C18StartBarrier {
	max := 0
	for _, n := range lens {
		if n > max {
			max = n
		}
	}
	out := make([]*C18StartBarrier, max)
	abort := new(int32)
	for i := range out {
		k := 0
		for _, n := range lens {
			if n > i {
				k++
			}
		}
		out[i] = c18NewBarrier(k, abort)
	}
	return out
}
