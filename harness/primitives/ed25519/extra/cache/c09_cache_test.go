//go:build verif

package cache

// C09 — verification through the caching verifier returns the same decision as
// plain verification, under any history of cache hits, misses and evictions;
// and the LRU cache behind it keeps its structural invariants after every
// step:
//
//	len(store) == list.Len() <= capacity
//	every list element's entry points back at the element, and the index maps
//	   the entry's key (the expanded key's CompressedY) to that same entry
//	the recency order (front = most recent) equals the sequential model
//	   verifref.LRU (Get refreshes; Put of a resident key refreshes and keeps
//	   the old value; eviction of the least recently used)
//	Get(k) returns an expanded key whose CompressedY() is k
//
// Histories are over {Verify, VerifyWithOptions, Add / AddWithOptions (to a
// BatchVerifier, through the cache), AddPublicKey} plus direct Get / Put on the
// cache and Verify / VerifyBatchOnly / Reset of that batch, with capacity 1..4
// and a universe of 6 keys (some undecodable or of the wrong length).

import (
	"bytes"
	"crypto"
	"fmt"
	"testing"

	"github.com/oasisprotocol/curve25519-voi/curve"
	"github.com/oasisprotocol/curve25519-voi/primitives/ed25519"
	"pgregory.net/rapid"
	h "verifh"
	ref "verifref"
)

func c09Options(o h.C09Opt) *ed25519.Options {
	opts := &ed25519.Options{Context: string(o.Ctx)}
	switch o.Hash {
	case 1:
		opts.Hash = crypto.SHA512
	case 2:
		opts.Hash = crypto.SHA256
	case 3:
		opts.Hash = crypto.SHA384
	}
	switch o.Preset {
	case -1:
		opts.Verify = nil
	case 1:
		opts.Verify = ed25519.VerifyOptionsDefault
	case 2:
		opts.Verify = ed25519.VerifyOptionsStdLib
	case 3:
		opts.Verify = ed25519.VerifyOptionsFIPS_186_5
	case 4:
		opts.Verify = ed25519.VerifyOptionsZIP_215
	default:
		opts.Verify = &ed25519.VerifyOptions{
			AllowSmallOrderA:   o.Flags&h.C09SmallA != 0,
			AllowSmallOrderR:   o.Flags&h.C09SmallR != 0,
			AllowNonCanonicalA: o.Flags&h.C09NonCanonA != 0,
			AllowNonCanonicalR: o.Flags&h.C09NonCanonR != 0,
			CofactorlessVerify: o.Flags&h.C09Cofactorless != 0,
		}
	}
	return opts
}

func c09Copy(b []byte) []byte { return append([]byte{}, b...) }

type c09CacheOp struct {
	K   string       `json:"k"` // verify | verifyopts | add | addopts | addpk | get | put | bverify | bonly | breset
	Ent int          `json:"ent"`
	Key int          `json:"key"`
	Rnd h.C09Entropy `json:"rnd"`
}

type c09CacheCase struct {
	Pool     h.C09Pool    `json:"pool"`
	Capacity int          `json:"capacity"`
	Ops      []c09CacheOp `json:"ops"`
}

type c09Val struct{ p *ed25519.ExpandedPublicKey }

func c09CheckCache(c c09CacheCase) h.Result {
	r := h.NewR()
	if c.Capacity <= 0 || len(c.Pool.Keys) == 0 {
		return r.Result()
	}
	// The structural invariants read the fields of the repository's LRU.  A constructor that hands out another
	// implementation of the Cache interface is not wrong for that: the history is then judged through Get/Put and the
	// verification results only (class opaque-cache-type), which still shows a wrong eviction order or a wrong value.
	ci := NewLRUCache(c.Capacity)
	lc, _ := ci.(*lruCache)
	if lc == nil {
		r.Class("opaque-cache-type")
	}
	v := NewVerifier(ci)
	model := ref.NewLRU[string, *c09Val](c.Capacity)
	bv := ed25519.NewBatchVerifier()
	var bwant, bcofl []bool
	built := make([]*h.C09Built, len(c.Pool.Ents))
	get := func(i int) *h.C09Built {
		if built[i] == nil {
			b := c.Pool.Build(i)
			built[i] = &b
		}
		return built[i]
	}
	keyBytes := make([][]byte, len(c.Pool.Keys))
	for i := range c.Pool.Keys {
		keyBytes[i] = c.Pool.Keys[i].Bytes()
	}
	evictions := 0

	// single verification (the oracle); opts == nil means &ed25519.Options{}
	// as used by Verifier.Verify / Verifier.Add.
	type sres struct{ ok, panicked bool }
	memo := map[[2]int]sres{}
	single := func(i int, own bool) sres {
		k := [2]int{i, 0}
		if own {
			k[1] = 1
		}
		if s, hit := memo[k]; hit {
			return s
		}
		b := get(i)
		opts := &ed25519.Options{}
		if own {
			opts = c09Options(b.Opt)
		}
		var s sres
		pk, msg, sig := c09Copy(b.PK), c09Copy(b.Msg), c09Copy(b.Sig)
		s.panicked, _ = h.Catch(func() { s.ok = ed25519.VerifyWithOptions(pk, msg, sig, opts) })
		s.ok = s.ok && !s.panicked
		memo[k] = s
		return s
	}

	// upsert mirrors Verifier.upsertPublicKey on the model and returns the class.
	upsert := func(pk []byte) (cls string, inserted bool) {
		if len(pk) != 32 {
			return "wronglen", false
		}
		k := string(pk)
		if _, ok := model.Get(k); ok {
			return "hit", false
		}
		if !ref.Decode(pk).OK {
			return "miss-undecodable", false
		}
		if _, did := model.Put(k, &c09Val{}); did {
			evictions++
			return "miss+evict", true
		}
		return "miss", true
	}
	// after a library-side insertion, learn which object was stored
	learn := func(pk []byte) {
		var ck curve.CompressedEdwardsY
		copy(ck[:], pk)
		if lc == nil {
			return
		}
		if ent := lc.store[ck]; ent != nil {
			if val, ok := model.Peek(string(pk)); ok && val.p == nil {
				val.p = ent.publicKey
			}
		}
	}

	inv := func(opi int, what string) bool {
		r.Eval(1)
		if lc == nil {
			return true
		}
		if len(lc.store) != lc.list.Len() {
			r.Fail("lruCache:store-list-size-mismatch", "after op %d (%s): len(store)=%d list.Len()=%d", opi, what, len(lc.store), lc.list.Len())
			return false
		}
		if lc.list.Len() > c.Capacity {
			r.Fail("lruCache:over-capacity", "after op %d (%s): %d > %d", opi, what, lc.list.Len(), c.Capacity)
			return false
		}
		want := model.Keys()
		if len(want) != lc.list.Len() {
			r.Fail("lruCache:resident-set-differs-from-model", "after op %d (%s): %d resident, model %d", opi, what, lc.list.Len(), len(want))
			return false
		}
		i := 0
		for e := lc.list.Front(); e != nil; e = e.Next() {
			ent, ok := e.Value.(*lruEntry)
			if !ok || ent == nil || ent.element != e || ent.publicKey == nil {
				r.Fail("lruCache:element-entry-inconsistent", "after op %d (%s): position %d", opi, what, i)
				return false
			}
			k := ent.publicKey.CompressedY()
			if lc.store[k] != ent {
				r.Fail("lruCache:index-inconsistent", "after op %d (%s): key %x at position %d does not map to its entry", opi, what, k[:], i)
				return false
			}
			if string(k[:]) != want[i] {
				r.Fail("lruCache:recency-order-differs-from-model", "after op %d (%s): position %d holds %x, model %x", opi, what, i, k[:], []byte(want[i]))
				return false
			}
			if val, _ := model.Peek(want[i]); val == nil || (val.p != nil && val.p != ent.publicKey) {
				r.Fail("lruCache:resident-value-replaced", "after op %d (%s): key %x", opi, what, k[:])
				return false
			}
			i++
		}
		return true
	}

	checkBatch := func(opi int, only bool, rnd h.C09Entropy) bool {
		n := len(bwant)
		all, anyCofl := n > 0, false
		for i := range bwant {
			all = all && bwant[i]
			anyCofl = anyCofl || bcofl[i]
		}
		r.Eval(1)
		if only {
			var ok bool
			if p, pv := h.Catch(func() { ok = bv.VerifyBatchOnly(rnd.Reader()) }); p {
				r.Fail("BatchVerifier.VerifyBatchOnly:panic", "op %d: %v", opi, pv)
				return false
			}
			if ok != (all && !anyCofl) {
				r.Fail("cache.Verifier.Add:batch-only-wrong-decision", "op %d n=%d: got %v want %v", opi, n, ok, all && !anyCofl)
				return false
			}
			return true
		}
		var ok bool
		var valid []bool
		if p, pv := h.Catch(func() { ok, valid = bv.Verify(rnd.Reader()) }); p {
			r.Fail("BatchVerifier.Verify:panic", "op %d: %v", opi, pv)
			return false
		}
		if len(valid) != n || ok != all {
			r.Fail("cache.Verifier.Add:batch-summary-wrong", "op %d n=%d: ok=%v len(valid)=%d want ok=%v", opi, n, ok, len(valid), all)
			return false
		}
		for i := range valid {
			if valid[i] != bwant[i] {
				r.Fail("cache.Verifier.Add:batch-entry-differs-from-single", "op %d entry %d: batch %v single %v", opi, i, valid[i], bwant[i])
				return false
			}
		}
		return true
	}

	for opi, op := range c.Ops {
		switch op.K {
		case "verify", "verifyopts", "add", "addopts":
			if op.Ent < 0 || op.Ent >= len(c.Pool.Ents) {
				continue
			}
			b := get(op.Ent)
			ent := c.Pool.Ents[op.Ent]
			own := op.K == "verifyopts" || op.K == "addopts"
			want := single(op.Ent, own)
			pk, msg, sig := c09Copy(b.PK), c09Copy(b.Msg), c09Copy(b.Sig)
			cls, inserted := upsert(b.PK)
			decodable := len(b.PK) == 32 && ref.Decode(b.PK).OK
			switch op.K {
			case "verify", "verifyopts":
				var got bool
				gotPanic, pv := h.Catch(func() {
					if own {
						got = v.VerifyWithOptions(pk, msg, sig, c09Options(b.Opt))
					} else {
						got = v.Verify(pk, msg, sig)
					}
				})
				r.Eval(1)
				r.Class(op.K+"/"+cls, fmt.Sprintf("decision/accept:%v", want.ok))
				if gotPanic {
					r.Class("decision/panic")
				}
				if gotPanic && !want.panicked {
					return r.Fail("cache.Verifier.VerifyWithOptions:panic-where-plain-does-not", "op %d entry %d (%s): %v", opi, op.Ent, ent.Cls, pv).Result()
				}
				if decodable && gotPanic != want.panicked {
					return r.Fail("cache.Verifier.VerifyWithOptions:panic-differs-from-plain", "op %d entry %d (%s): cached panic=%v plain panic=%v",
						opi, op.Ent, ent.Cls, gotPanic, want.panicked).Result()
				}
				if (got && !gotPanic) != want.ok {
					return r.Fail("cache.Verifier.VerifyWithOptions:differs-from-plain", "op %d entry %d (%s) %s own=%v: cached %v plain %v pk=%x msg=%x sig=%x opt=%+v",
						opi, op.Ent, ent.Cls, cls, own, got, want.ok, b.PK, b.Msg, b.Sig, b.Opt).Result()
				}
			default:
				if p, pv := h.Catch(func() {
					if own {
						v.AddWithOptions(bv, pk, msg, sig, c09Options(b.Opt))
					} else {
						v.Add(bv, pk, msg, sig)
					}
				}); p {
					return r.Fail("cache.Verifier.AddWithOptions:panic", "op %d entry %d (%s): %v", opi, op.Ent, ent.Cls, pv).Result()
				}
				r.Class(op.K + "/" + cls)
				bwant = append(bwant, want.ok)
				bcofl = append(bcofl, own && b.Opt.Cofactorless())
			}
			if inserted {
				learn(b.PK)
			}
			if !bytes.Equal(pk, b.PK) || !bytes.Equal(msg, b.Msg) || !bytes.Equal(sig, b.Sig) {
				return r.Fail("cache.Verifier:input-modified", "op %d", opi).Result()
			}
		case "addpk":
			if op.Key < 0 || op.Key >= len(keyBytes) {
				continue
			}
			pk := c09Copy(keyBytes[op.Key])
			cls, inserted := upsert(pk)
			r.Class("addpk/" + cls)
			if p, pv := h.Catch(func() { v.AddPublicKey(pk) }); p {
				return r.Fail("cache.Verifier.AddPublicKey:panic", "op %d key %x: %v", opi, pk, pv).Result()
			}
			if inserted {
				learn(pk)
			}
		case "get", "put":
			if op.Key < 0 || op.Key >= len(keyBytes) || len(keyBytes[op.Key]) != 32 {
				continue
			}
			pk := keyBytes[op.Key]
			// the key buffer is the caller's and is reused (overwritten) after the
			// call: the cache must not remember the pointer
			ckp := new(curve.CompressedEdwardsY)
			copy(ckp[:], pk)
			if op.K == "get" {
				got := ci.Get(ckp)
				for i := range ckp {
					ckp[i] = 0xee
				}
				val, ok := model.Get(string(pk))
				r.Eval(1)
				r.Class(fmt.Sprintf("get/hit:%v", ok))
				if (got != nil) != ok || (ok && val.p != nil && got != val.p) {
					return r.Fail("lruCache.Get:differs-from-model", "op %d key %x: got %v, model resident=%v", opi, pk, got != nil, ok).Result()
				}
				if got != nil {
					if cy := got.CompressedY(); !bytes.Equal(cy[:], pk) {
						return r.Fail("lruCache.Get:wrong-key-returned", "op %d asked %x got %x", opi, pk, cy[:]).Result()
					}
				}
			} else {
				xk, err := ed25519.NewExpandedPublicKey(pk)
				if err != nil {
					continue
				}
				_, resident := model.Peek(string(pk))
				_, did := model.Put(string(pk), &c09Val{p: xk})
				if did {
					evictions++
				}
				r.Class(fmt.Sprintf("put/resident:%v/evict:%v", resident, did))
				ci.Put(ckp, xk)
				for i := range ckp {
					ckp[i] = 0xee
				}
			}
		case "bverify", "bonly":
			r.Class(op.K)
			if len(bwant) > 0 {
				r.Class(op.K + "/non-empty")
			}
			if !checkBatch(opi, op.K == "bonly", op.Rnd) {
				return r.Result()
			}
		case "breset":
			bv.Reset()
			bwant, bcofl = nil, nil
		default:
			continue
		}
		if !inv(opi, op.K) {
			return r.Result()
		}
	}
	// Finally: every key of the universe through Get (mirrored in the model).
	for ki, pk := range keyBytes {
		if len(pk) != 32 {
			continue
		}
		var ck curve.CompressedEdwardsY
		copy(ck[:], pk)
		got := ci.Get(&ck)
		val, ok := model.Get(string(pk))
		r.Eval(1)
		if (got != nil) != ok || (ok && val.p != nil && got != val.p) {
			return r.Fail("lruCache.Get:differs-from-model", "final get key %d %x: got %v, model resident=%v", ki, pk, got != nil, ok).Result()
		}
		if got != nil {
			if cy := got.CompressedY(); cy != ck {
				return r.Fail("lruCache.Get:wrong-key-returned", "final get asked %x got %x", pk, cy[:]).Result()
			}
		}
		if !inv(len(c.Ops)+ki, "final get") {
			return r.Result()
		}
	}
	if len(bwant) > 0 && !checkBatch(len(c.Ops), false, h.C09Entropy{Kind: 2}) {
		return r.Result()
	}
	if evictions > 0 {
		r.Class("history:evictions")
	}
	return r.NT(evictions > 0).Result()
}

func c09GenCache(t *rapid.T) c09CacheCase {
	kinds := []string{"honest", "honest", "honest", "mixed", "small", "small-nc", "undecodable", "wronglen", "ncbig"}
	var pre []string
	neg := rapid.IntRange(0, 2).Draw(t, "negkey") == 0 // universe contains A and -A (same y, other sign bit)
	for i := 0; i < 4; i++ {
		if neg && i == 3 {
			break
		}
		pre = append(pre, rapid.SampledFrom(kinds).Draw(t, "kind"))
	}
	pool, _ := h.C09GenPool(t, h.C09PoolCfg{ND: rapid.IntRange(3, 6).Draw(t, "nd"), NO: rapid.IntRange(0, 3).Draw(t, "no"),
		NSpec: rapid.IntRange(2, 6).Draw(t, "nspec"), MaxKeys: 6, Kinds: pre, NegOf0: neg})
	c := c09CacheCase{Pool: pool, Capacity: rapid.IntRange(1, 4).Draw(t, "capacity")}
	n := rapid.IntRange(4, 40).Draw(t, "nops")
	ops := []string{"verify", "verify", "verify", "verifyopts", "verifyopts", "verifyopts", "verifyopts", "add", "addopts", "addopts",
		"addpk", "addpk", "addpk", "get", "get", "put", "put", "bverify", "bonly", "breset"}
	for i := 0; i < n; i++ {
		op := c09CacheOp{K: rapid.SampledFrom(ops).Draw(t, "op")}
		switch op.K {
		case "verify", "verifyopts", "add", "addopts":
			op.Ent = rapid.IntRange(0, len(pool.Ents)-1).Draw(t, "ent")
		case "addpk", "get", "put":
			op.Key = rapid.IntRange(0, len(pool.Keys)-1).Draw(t, "key")
		case "bverify", "bonly":
			op.Rnd = h.C09GenEntropy(t, "rnd")
		}
		c.Ops = append(c.Ops, op)
	}
	return c
}

func TestC09Cache(t *testing.T) { h.Run(t, c09GenCache, c09CheckCache) }

// Native coverage-guided fuzzing of the same generator and oracle (thorough tier).
func FuzzC09Cache(f *testing.F) { h.Fuzz(f, c09GenCache, c09CheckCache) }
