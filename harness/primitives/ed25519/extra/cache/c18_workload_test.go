//go:build verif

package cache_test

// C18 (a) — any number of goroutines may use the API and shared precomputed
// objects concurrently and obtain exactly the sequential results, race-free.
//
// A case is N in 2..16 goroutines, each with a generated []Op over the public
// API (see c18Kinds), generated yield points, GOMAXPROCS in {1,2,4,16}, the
// capacity (1..3) of a SHARED cache.Verifier and one seed from which every
// key, message, scalar and entropy stream is derived.  The child process
//  1. builds the immutable material sequentially: Ed25519 keys and pure/ctx/ph
//     signatures with the STANDARD LIBRARY's crypto/ed25519, the undecodable
//     key with verifref (inputs never come from the library under test,
//     except sr25519 key pairs / signatures in "warm" cases),
//  2. (warm cases) executes every op once, sequentially, against PRIVATE
//     instances of the shared objects: these are the expected results (every
//     op is a pure function of its arguments: entropy comes from seeded
//     readers); cold cases do this after the first concurrent run, so that
//     the goroutines' calls are the first ones the process makes,
//  3. repeats: create FRESH shared instances (two ExpandedPublicKeys, the
//     caching verifier, an sr25519 SigningContext, a Merlin base transcript),
//     release the goroutines together and let them run their ops, then
//     compare every result with the expected one.
// Fresh instances matter: a lazily initialised field inside a shared object
// would otherwise be initialised by the sequential pass and never race.
// The parent classifies the child's output (race reports, fatal errors,
// mismatches, worker panics).  Unless the case asks for lock-step rounds, no
// harness synchronisation happens between the start barrier and the final
// join, so the race detector judges the library's own synchronisation only;
// in lock-step cases the goroutines rendezvous before every op index (calls
// of one round are still unordered among themselves), which lines the calls
// up and opens the narrow windows that free-running goroutines rarely hit.
// The test runs both with -race (configs race, race-purego) and without
// instrumentation (config default: ~10x more repetitions at real timing).

import (
	"bytes"
	"crypto"
	stded "crypto/ed25519"
	"crypto/sha512"
	"encoding/binary"
	"fmt"
	"os"
	"strings"
	"sync"
	"testing"
	"time"

	"github.com/oasisprotocol/curve25519-voi/curve"
	"github.com/oasisprotocol/curve25519-voi/curve/scalar"
	"github.com/oasisprotocol/curve25519-voi/primitives/ed25519"
	"github.com/oasisprotocol/curve25519-voi/primitives/ed25519/extra/cache"
	"github.com/oasisprotocol/curve25519-voi/primitives/ed25519/extra/ecvrf"
	"github.com/oasisprotocol/curve25519-voi/primitives/h2c"
	"github.com/oasisprotocol/curve25519-voi/primitives/merlin"
	"github.com/oasisprotocol/curve25519-voi/primitives/sr25519"
	"github.com/oasisprotocol/curve25519-voi/primitives/x25519"
	"golang.org/x/crypto/sha3"
	"pgregory.net/rapid"
	h "verifh"
	ref "verifref"
)

var c18Kinds = []string{"sign", "verify", "vexp", "vcache", "batch", "keygen", "x25519", "x25519base", "mulbase", "triple", "srsign", "srverify", "h2c", "merlin", "vrfprove", "vrfverify", "pointuse", "nilrand"}

type c18Op struct {
	Kind string
	K    int    // key selector (0..7; 6 = undecodable key, 7 = small-order key where a public key is an input)
	M    int    // message selector 0..3
	Var  int    // 0 Ed25519, 1 Ed25519ctx, 2 Ed25519ph
	VOpt int    // 0 Verify=nil, 1 Default, 2 StdLib, 3 FIPS 186-5, 4 ZIP-215
	Bad  int    // 0 valid signature, 1 bit flipped in R, 2 bit flipped in S, 3 signature of another message
	X    uint64 // free selector (batch shape, scalar seed, suite, entropy seed ...)
	Y    int    // yield kind before the op
	Spin int
}

type c18WCase struct {
	Procs    int
	CacheCap int
	Seed     uint64
	// Cold: apart from constructing the fresh shared instances, the goroutines'
	// calls are the FIRST calls into the library made by the process (material
	// comes from the standard library and verifref, expected results are
	// computed after the first concurrent run), so that a package-level table
	// or constant that is initialised lazily instead of "only during init" is
	// initialised under concurrency.  Warm: expected results first, valid
	// sr25519 signatures available as inputs, shared sr25519 KeyPair objects.
	Cold bool
	// Lockstep: the goroutines rendezvous (harness barrier) before every op
	// index, so that their i-th calls enter the library at (nearly) the same
	// instant; otherwise they only start together and nothing in the harness
	// synchronises them until the final join.
	Lockstep bool
	Shape    string // generator shape (label only)
	G        [][]c18Op
}

var c18MixedKinds = []string{
	"vcache", "vcache", "vcache", "vcache", "vexp", "vexp", "vexp", "batch", "batch", "sign", "sign", "verify", "verify",
	"keygen", "x25519", "x25519base", "mulbase", "mulbase", "triple", "triple", "srsign", "srverify", "h2c", "h2c", "merlin", "vrfprove", "vrfverify", "pointuse", "pointuse", "nilrand"}

func c18GenOp(t *rapid.T, kinds []string, keys []int, badOneIn int) c18Op {
	op := c18Op{}
	op.Kind = rapid.SampledFrom(kinds).Draw(t, "kind")
	op.K = rapid.SampledFrom(keys).Draw(t, "k")
	op.M = rapid.IntRange(0, 3).Draw(t, "m")
	op.Var = rapid.SampledFrom([]int{0, 0, 0, 1, 2}).Draw(t, "var")
	op.VOpt = rapid.IntRange(0, 4).Draw(t, "vopt")
	if rapid.IntRange(1, badOneIn).Draw(t, "isbad") == 1 {
		op.Bad = rapid.IntRange(1, 3).Draw(t, "bad")
	}
	op.X = rapid.Uint64().Draw(t, "x")
	op.Y = rapid.SampledFrom([]int{0, 0, 1, 2, 3}).Draw(t, "y")
	if op.Y&2 != 0 {
		op.Spin = rapid.IntRange(1, 3000).Draw(t, "spin")
	}
	return op
}

// Three shapes of workload:
//   - mixed: everything, 2..16 goroutines x 1..6 ops;
//   - cache-storm: 2..8 goroutines hammer the shared caching verifier (and the
//     shared expanded keys) with mostly VALID signatures of a few keys, more
//     keys than capacity: a verifier that hands out another key's expanded key
//     turns true into false;
//   - sign-storm: many goroutines sign / derive keys / multiply the basepoint
//     (package-level tables, hashing, scalar recoding) with distinct inputs.
func c18GenWorkload(t *rapid.T) c18WCase {
	c := c18WCase{}
	c.Procs = rapid.SampledFrom([]int{1, 2, 4, 4, 16, 16}).Draw(t, "procs")
	c.CacheCap = rapid.IntRange(1, 3).Draw(t, "cachecap")
	c.Seed = rapid.Uint64().Draw(t, "seed")
	c.Cold = rapid.IntRange(0, 2).Draw(t, "cold") == 0
	c.Lockstep = rapid.IntRange(0, 2).Draw(t, "lockstep") == 0
	shape := rapid.SampledFrom([]string{"mixed", "mixed", "mixed", "mixed", "mixed", "cache-storm", "cache-storm", "sign-storm", "multiscalar-storm", "lattice-storm"}).Draw(t, "shape")
	c.Shape = shape
	var (
		ng, minOps, maxOps int
		kinds              []string
		keys               []int
		badOneIn           int
	)
	switch shape {
	case "mixed":
		ng = rapid.SampledFrom([]int{2, 2, 3, 3, 4, 4, 5, 6, 8, 10, 12, 16}).Draw(t, "goroutines")
		minOps, maxOps = 1, 6
		if ng > 8 {
			maxOps = 4
		}
		kinds, keys, badOneIn = c18MixedKinds, []int{0, 0, 1, 1, 2, 3, 4, 5, 6, 7}, 3
	case "cache-storm":
		ng = rapid.SampledFrom([]int{2, 3, 4, 4, 6, 8}).Draw(t, "goroutines")
		minOps, maxOps = 4, 10
		kinds = []string{"vcache", "vcache", "vcache", "vcache", "vcache", "vcache", "batch", "vexp"}
		nk := rapid.IntRange(2, 4).Draw(t, "nkeys")
		first := rapid.IntRange(0, 2).Draw(t, "firstkey")
		for i := 0; i < nk; i++ {
			keys = append(keys, first+i)
		}
		badOneIn = 8
	case "sign-storm":
		ng = rapid.SampledFrom([]int{4, 8, 12, 16}).Draw(t, "goroutines")
		minOps, maxOps = 2, 5
		kinds, keys, badOneIn = []string{"sign", "sign", "sign", "keygen", "mulbase", "x25519base", "srsign", "verify", "nilrand", "nilrand"}, []int{0, 1, 2, 3, 4, 5}, 6
	case "multiscalar-storm":
		// every goroutine verifies LARGE batches (>= 95 entries: the Pippenger
		// multiscalar path and whatever scratch state it uses) at the same time
		ng = rapid.SampledFrom([]int{4, 6, 8, 12, 16}).Draw(t, "goroutines")
		minOps, maxOps = 2, 4
		kinds, keys, badOneIn = []string{"batch", "batch", "batch", "verify"}, []int{0, 1, 2, 3, 4, 5}, 12
	case "lattice-storm":
		// every goroutine runs the verification equation [a]A + [b]B - C with
		// scalars a of every size class at the same time: the embedded lattice
		// reduction takes its rare branches (whole-limb shifts, early exits) only
		// for particular a, which hashed challenges practically never produce
		ng = rapid.SampledFrom([]int{2, 4, 8, 8, 16}).Draw(t, "goroutines")
		minOps, maxOps = 3, 8
		kinds, keys, badOneIn = []string{"triple", "triple", "triple", "triple", "verify", "srverify"}, []int{0, 1, 2, 3, 4, 5}, 12
	}
	for g := 0; g < ng; g++ {
		n := rapid.IntRange(minOps, maxOps).Draw(t, "nops")
		var ops []c18Op
		for i := 0; i < n; i++ {
			op := c18GenOp(t, kinds, keys, badOneIn)
			if shape == "multiscalar-storm" {
				op.X -= ((op.X >> 44) % 6) << 44 // select the large-batch plan
			}
			ops = append(ops, op)
		}
		c.G = append(c.G, ops)
	}
	return c
}

// c18WReps is the number of repetitions of a case: an op budget divided by the
// size of the case (race-instrumented code is ~10x slower, so the budget is
// smaller there); a replay repeats much more.
func c18WReps(c c18WCase) int {
	n := 0
	for _, g := range c.G {
		n += len(g)
	}
	if n == 0 {
		n = 1
	}
	budget, lo, hi := 250, 3, 30
	if !strings.HasPrefix(os.Getenv("VERIF_CONFIG"), "race") {
		budget, lo, hi = 2000, 10, 300
	}
	reps := budget / n
	if reps < lo {
		reps = lo
	}
	if reps > hi {
		reps = hi
	}
	replay := 20 * reps
	if replay < 200 {
		replay = 200
	}
	return cache.C18Reps(reps, replay)
}

func c18WValid(c c18WCase) bool {
	if c.Procs < 1 || c.Procs > 64 || c.CacheCap < 1 || c.CacheCap > 3 || len(c.G) < 1 || len(c.G) > 32 {
		return false
	}
	known := map[string]bool{}
	for _, k := range c18Kinds {
		known[k] = true
	}
	for _, g := range c.G {
		if len(g) > 64 {
			return false
		}
		for _, op := range g {
			if !known[op.Kind] || op.K < 0 || op.K > 7 || op.M < 0 || op.M > 3 || op.Var < 0 || op.Var > 2 || op.VOpt < 0 || op.VOpt > 4 || op.Bad < 0 || op.Bad > 3 {
				return false
			}
		}
	}
	return true
}

// ---- which shared object does an op touch (decides non-triviality; a pure function of the case) ----

type c18BatchEntry struct {
	K    int // key selector 0..7
	Mode int // 0 AddWithOptions, 1 AddExpandedWithOptions(shared expanded key K%2), 2 shared cache.Verifier.AddWithOptions
	Bad  int
}

func c18Mix(x uint64) uint64 {
	x += 0x9e3779b97f4a7c15
	x = (x ^ (x >> 30)) * 0xbf58476d1ce4e5b9
	x = (x ^ (x >> 27)) * 0x94d049bb133111eb
	return x ^ (x >> 31)
}

func c18BatchPlan(op c18Op) []c18BatchEntry {
	n := 2 + int(op.X%3)
	if (op.X>>44)%6 == 0 {
		// large batch: >= 95 entries = >= 191 terms, the multiscalar
		// multiplication switches from Straus to Pippenger (shared scratch state,
		// if any, is exercised concurrently)
		n = 95 + int(op.X%4)
	}
	badAt := int((op.X >> 20) % uint64(n))
	out := make([]c18BatchEntry, n)
	for j := 0; j < n; j++ {
		e := c18BatchEntry{}
		x := op.X
		jj := uint(j)
		if j >= 8 {
			x, jj = c18Mix(op.X+uint64(j)), 0
		}
		e.K = (op.K + int((x>>(8+3*jj))&7)) % 8
		if n >= 95 {
			// large batches use the six valid keys only: one hostile key would make
			// the verifier skip the multiscalar multiplication altogether
			e.K = (op.K%6 + int((x>>(8+3*jj))&7)) % 6
		}
		e.Mode = int((x >> (32 + 2*jj)) % 3)
		if e.Mode == 1 {
			e.K %= 2
		}
		if j == badAt {
			e.Bad = op.Bad
		}
		out[j] = e
	}
	return out
}

func c18Touches(op c18Op) []string {
	switch op.Kind {
	case "vexp":
		return []string{fmt.Sprintf("expanded-key-%d", op.K%2)}
	case "vcache":
		return []string{"cache-verifier"}
	case "batch":
		var out []string
		for _, e := range c18BatchPlan(op) {
			switch e.Mode {
			case 1:
				out = append(out, fmt.Sprintf("expanded-key-%d", e.K%2))
			case 2:
				out = append(out, "cache-verifier")
			}
		}
		return out
	case "srsign", "srverify":
		return []string{"sr25519-signing-context"}
	case "merlin":
		return []string{"merlin-base-transcript"}
	case "nilrand":
		return []string{"default-entropy-source(crypto/rand through the library)"}
	case "mulbase":
		return []string{"ED25519_BASEPOINT_TABLE(explicit)"}
	case "triple":
		return []string{"triple-scalar-mul(code path and package-level tables)"}
	case "vrfprove", "vrfverify":
		return []string{"ecvrf(package-level suite strings and padding)"}
	case "pointuse":
		if op.X%9 >= 7 {
			return []string{fmt.Sprintf("shared-ristretto-point-%d(read-only operand)", op.K%2)}
		}
		return []string{fmt.Sprintf("shared-edwards-point-%d(read-only operand)", op.K%3)}
	case "h2c":
		if op.X%8 >= 6 {
			return []string{"h2c(shared DST > 255 bytes)"}
		}
	case "x25519":
		if op.X&1 == 1 {
			return []string{"x25519.Basepoint"}
		}
	}
	return nil
}

// c18SharedUse maps each shared object to the number of goroutines touching it.
func c18SharedUse(c c18WCase) map[string]int {
	use := map[string]int{}
	for _, g := range c.G {
		mine := map[string]bool{}
		for _, op := range g {
			for _, o := range c18Touches(op) {
				mine[o] = true
			}
		}
		for o := range mine {
			use[o]++
		}
	}
	return use
}

func c18CheckWorkload(c c18WCase) h.Result {
	r := h.NewR()
	if !c18WValid(c) {
		return r.Class("invalid-case").Result()
	}
	reps := c18WReps(c)
	rep, viol := cache.C18Spawn("workload", "TestC18ChildWorkload", c, c.Procs, reps)
	ng := len(c.G)
	switch {
	case ng <= 2:
		r.Class("goroutines:2")
	case ng <= 4:
		r.Class("goroutines:3-4")
	case ng <= 8:
		r.Class("goroutines:5-8")
	default:
		r.Class("goroutines:9-16")
	}
	r.Class(fmt.Sprintf("procs:%d", c.Procs), "shape:"+c.Shape, fmt.Sprintf("lockstep:%v", c.Lockstep))
	if c.Cold {
		r.Class("cold(first library calls are concurrent)")
	} else {
		r.Class("warm(sequential pass first)")
	}
	nt := false
	for o, n := range c18SharedUse(c) {
		if n >= 2 {
			nt = true
			r.Class("shared-by>=2:" + o)
		}
	}
	kinds := map[string]bool{}
	for _, g := range c.G {
		for _, op := range g {
			kinds[op.Kind] = true
		}
	}
	for k := range kinds {
		r.Class("op:" + k)
	}
	r.NT(nt)
	if viol != nil {
		r.NT(true)
		r.Fail(viol.Sig, "%s", viol.Detail)
		return r.Result()
	}
	r.Eval(rep.Compared)
	r.Class(cache.C18CPUBucket(rep.MaxRepCPUms))
	switch {
	case rep.RepsParallel == 0:
		r.Class("goroutine-run-intervals-intersected:never")
	case rep.RepsParallel < rep.Reps:
		r.Class("goroutine-run-intervals-intersected:some-reps")
	default:
		r.Class("goroutine-run-intervals-intersected:every-rep")
	}
	return r.Result()
}

// TestC18Workload is the property (parent side).
func TestC18Workload(t *testing.T) {
	if cache.C18IsChild("history") || cache.C18IsChild("workload") {
		t.Skip("child process")
	}
	h.Run(t, c18GenWorkload, c18CheckWorkload)
}

// ---- child side ----

// c18Stream is an endless deterministic entropy stream (splitmix64).
type c18Stream struct {
	x   uint64
	buf [8]byte
	n   int
}

func c18NewStream(seed uint64) *c18Stream { return &c18Stream{x: seed} }

func (s *c18Stream) Read(p []byte) (int, error) {
	for i := range p {
		if s.n == 0 {
			s.x += 0x9e3779b97f4a7c15
			z := s.x
			z = (z ^ (z >> 30)) * 0xbf58476d1ce4e5b9
			z = (z ^ (z >> 27)) * 0x94d049bb133111eb
			z ^= z >> 31
			binary.LittleEndian.PutUint64(s.buf[:], z)
			s.n = 8
		}
		p[i] = s.buf[8-s.n]
		s.n--
	}
	return len(p), nil
}

type c18SigKey struct{ K, M, Var int }

// c18Mat is the immutable material of a case: built sequentially, only read afterwards.
type c18Mat struct {
	seed   uint64
	std    [6]stded.PrivateKey // the same keys as crypto/ed25519 values (ground truth)
	privs  [6]ed25519.PrivateKey
	pubs   [8]ed25519.PublicKey
	msgs   [4][]byte
	phs    [4][]byte
	sigs   map[c18SigKey][]byte
	srKP   [2]*sr25519.KeyPair
	srPK   [2]*sr25519.PublicKey
	srSigs map[c18SigKey][]byte
	// ECVRF proofs (from the reference, so that cold cases stay cold) shared by
	// the goroutines, and a DST longer than 255 bytes (the hash-to-curve code
	// then goes through its package-level "oversize" prefix) shared likewise
	vrf     map[c18SigKey][]byte
	longDST []byte
}

const c18Ctx = "c18 context"

func c18Opts(variant, vopt int, added, selfVerify bool) *ed25519.Options {
	o := &ed25519.Options{AddedRandomness: added, SelfVerify: selfVerify}
	switch variant {
	case 1:
		o.Context = c18Ctx
	case 2:
		o.Hash = crypto.SHA512
		o.Context = c18Ctx
	}
	switch vopt {
	case 1:
		o.Verify = ed25519.VerifyOptionsDefault
	case 2:
		o.Verify = ed25519.VerifyOptionsStdLib
	case 3:
		o.Verify = ed25519.VerifyOptionsFIPS_186_5
	case 4:
		o.Verify = ed25519.VerifyOptionsZIP_215
	}
	return o
}

func (m *c18Mat) msg(mi, variant int) []byte {
	if variant == 2 {
		return m.phs[mi]
	}
	return m.msgs[mi]
}

// c18NewMat builds the inputs.  Ed25519 keys and signatures (pure, ctx, ph) come
// from the standard library's crypto/ed25519, the undecodable key from the
// reference decoder: with Cold set nothing here calls the library under test.
func c18NewMat(c c18WCase) *c18Mat {
	m := &c18Mat{seed: c.Seed, sigs: map[c18SigKey][]byte{}, srSigs: map[c18SigKey][]byte{}, vrf: map[c18SigKey][]byte{},
		longDST: h.Expand(c.Seed^0x3000, 300)}
	var std [6]stded.PrivateKey
	for i := range m.privs {
		std[i] = stded.NewKeyFromSeed(h.Expand(c.Seed^uint64(0x1000+i), 32))
		m.std[i] = std[i]
		m.privs[i] = ed25519.PrivateKey(append([]byte(nil), std[i]...)) // same 64-byte layout: seed || public key (RFC 8032)
		m.pubs[i] = ed25519.PublicKey(append([]byte(nil), std[i][32:]...))
	}
	// key 6: a string that is not a point (first y >= 2 off the curve, by the reference decoder); key 7: the identity (small order)
	for y := byte(2); ; y++ {
		cand := make([]byte, 32)
		cand[0] = y
		if !ref.Decode(cand).OK {
			m.pubs[6] = cand
			break
		}
	}
	m.pubs[7] = make([]byte, 32)
	m.pubs[7][0] = 1
	lens := [4]int{0, 1 + int(c.Seed%40), 64, 130 + int((c.Seed>>8)%100)}
	for i := range m.msgs {
		m.msgs[i] = h.Expand(c.Seed^uint64(0x2000+i), lens[i])
		d := sha512.Sum512(m.msgs[i])
		m.phs[i] = d[:]
	}
	// signatures needed by the ops of this case
	needEd := func(k, mi, variant int) {
		key := c18SigKey{k, mi, variant}
		if _, ok := m.sigs[key]; ok {
			return
		}
		so := &stded.Options{}
		switch variant {
		case 1:
			so.Context = c18Ctx
		case 2:
			so.Hash, so.Context = crypto.SHA512, c18Ctx
		}
		sig, err := std[k].Sign(nil, m.msg(mi, variant), so)
		if err != nil {
			panic(err)
		}
		m.sigs[key] = sig
	}
	for _, g := range c.G {
		for _, op := range g {
			switch op.Kind {
			case "verify", "vcache":
				needEd(c18SigningKey(op.K), op.M, op.Var)
				needEd(c18SigningKey(op.K), (op.M+1)%4, op.Var)
			case "vexp":
				needEd(op.K%2, op.M, op.Var)
				needEd(op.K%2, (op.M+1)%4, op.Var)
			case "batch":
				for _, e := range c18BatchPlan(op) {
					needEd(c18SigningKey(e.K), op.M, op.Var)
					needEd(c18SigningKey(e.K), (op.M+1)%4, op.Var)
				}
			case "vrfverify":
				for _, mi := range []int{op.M, (op.M + 1) % 4} {
					key := c18SigKey{op.K % 6, mi, int(op.X>>3) & 1}
					if _, ok := m.vrf[key]; !ok {
						f := ref.VrfRFC9381
						if key.Var == 1 {
							f = ref.VrfDraft10
						}
						m.vrf[key] = ref.VrfProve(std[key.K].Seed(), m.pubs[key.K], m.msgs[mi], nil, f)
					}
				}
			case "srverify":
				// placeholder (a well-formed but invalid signature); replaced by c18MatWarm in warm cases
				for _, mi := range []int{op.M, (op.M + 1) % 4} {
					b := h.Expand(c.Seed^uint64(0x5000+mi+4*(op.K%2)), 64)
					b[31] &= 0x7f
					b[63] = b[63]&0x0f | 0x80 // s < 2^252 and the schnorrkel marker bit
					m.srSigs[c18SigKey{op.K % 2, mi, 0}] = b
				}
			}
		}
	}
	return m
}

// srKeyPair derives sr25519 key pair i (only the library can do that).  Warm
// cases derive both once, sequentially, and the goroutines share the KeyPair
// objects; in cold cases every srsign/srverify op derives its own.
func (m *c18Mat) srKeyPair(i int) *sr25519.KeyPair {
	msk, err := sr25519.NewMiniSecretKeyFromBytes(h.Expand(m.seed^uint64(0x3000+i), 32))
	if err != nil {
		panic(err)
	}
	if i == 0 {
		return msk.ExpandEd25519().KeyPair()
	}
	return msk.ExpandUniform().KeyPair()
}

func (m *c18Mat) warm(c c18WCase) {
	for i := range m.srKP {
		m.srKP[i] = m.srKeyPair(i)
		m.srPK[i] = m.srKP[i].PublicKey()
	}
	sctx := sr25519.NewSigningContext([]byte(c18Ctx))
	for key := range m.srSigs {
		sig, err := m.srKP[key.K].Sign(c18NewStream(c.Seed^0x77), sctx.NewTranscriptBytes(m.msgs[key.M]))
		if err != nil {
			panic(err)
		}
		b, err := sig.MarshalBinary()
		if err != nil {
			panic(err)
		}
		m.srSigs[key] = b
	}
}

// hostile key selectors (6, 7) have no private key: their "signatures" are key 0's.
func c18SigningKey(k int) int {
	if k >= 6 {
		return 0
	}
	return k
}

// c18BadSig returns the signature an op presents: valid, or damaged as op.Bad says.
// Unaltered signatures (bad 0 and 3) are handed out as THE stored slice in
// half of the ops, not a copy: goroutines that verify the same signature then
// pass the very same bytes (as they already do for public keys and
// messages).  Inputs are read-only for the library, so this must be
// invisible; the child compares all shared inputs with pristine copies at the
// end (c18MatSnapshot).
func c18BadSig(sigs map[c18SigKey][]byte, k, mi, variant, bad int, x uint64) []byte {
	share := (x>>52)&1 == 0
	if bad == 3 {
		if share {
			return sigs[c18SigKey{k, (mi + 1) % 4, variant}]
		}
		return append([]byte(nil), sigs[c18SigKey{k, (mi + 1) % 4, variant}]...)
	}
	if bad == 0 && share {
		return sigs[c18SigKey{k, mi, variant}]
	}
	sig := append([]byte(nil), sigs[c18SigKey{k, mi, variant}]...)
	switch bad {
	case 1:
		sig[int(x>>40)%32] ^= 1 << (uint(x>>48) % 8)
	case 2:
		sig[32+int(x>>40)%31] ^= 1 << (uint(x>>48) % 8) // stays < 2^253: a canonical but wrong S most of the time
	}
	return sig
}

// c18MatSnapshot serialises every input buffer the goroutines share (keys,
// messages, digests, signatures) in a fixed order.
func c18MatSnapshot(m *c18Mat) []byte {
	var out []byte
	add := func(b []byte) {
		out = binary.LittleEndian.AppendUint32(out, uint32(len(b)))
		out = append(out, b...)
	}
	for i := range m.privs {
		add(m.privs[i])
	}
	for i := range m.pubs {
		add(m.pubs[i])
	}
	for i := range m.msgs {
		add(m.msgs[i])
		add(m.phs[i])
	}
	add(m.longDST)
	for _, tab := range []map[c18SigKey][]byte{m.sigs, m.srSigs, m.vrf} {
		for k := 0; k < 8; k++ {
			for mi := 0; mi < 4; mi++ {
				for v := 0; v < 3; v++ {
					if b, ok := tab[c18SigKey{k, mi, v}]; ok {
						add(b)
					}
				}
			}
		}
	}
	add(x25519.Basepoint)
	return out
}

// c18Shared holds the instances that the goroutines of one run share.
type c18Shared struct {
	exp  [2]*ed25519.ExpandedPublicKey
	ver  *cache.Verifier
	sctx *sr25519.SigningContext
	base *merlin.Transcript
	// points that the goroutines only READ (operands of additions and
	// multiplications, serialised, compared): freshly computed, so in a
	// projective representation with Z != 1 and never serialised before
	pts  [3]*curve.EdwardsPoint
	rpts [2]*curve.RistrettoPoint
}

func c18NewShared(c c18WCase, m *c18Mat) *c18Shared {
	s := &c18Shared{}
	for i := range s.exp {
		x, err := ed25519.NewExpandedPublicKey(m.pubs[i])
		if err != nil {
			panic(err)
		}
		s.exp[i] = x
	}
	s.ver = cache.NewVerifier(cache.NewLRUCache(c.CacheCap))
	s.sctx = sr25519.NewSigningContext([]byte(c18Ctx))
	s.base = merlin.NewTranscript("c18 base")
	s.base.AppendMessage("seed", h.Expand(c.Seed^0x4000, 48))
	for i := range s.pts {
		sc, err := scalar.NewFromBytesModOrderWide(h.Expand(c.Seed^uint64(0x6000+i), 64))
		if err != nil {
			panic(err)
		}
		s.pts[i] = curve.NewEdwardsPoint().MulBasepoint(curve.ED25519_BASEPOINT_TABLE, sc)
		if i < len(s.rpts) {
			s.rpts[i] = curve.NewRistrettoPoint().MulBasepoint(curve.RISTRETTO_BASEPOINT_TABLE, sc)
		}
	}
	return s
}

func c18Bool(b bool) []byte {
	if b {
		return []byte{1}
	}
	return []byte{0}
}

// c18LatticeScalar derives a scalar whose SIZE CLASS is chosen by x: the
// lattice reduction inside the triple multiplication branches on the
// magnitude of a (quotients of >= 32 bits, whole-limb shifts, immediate
// exits), and uniformly random scalars take only the common branches.
func c18LatticeScalar(x uint64) *scalar.Scalar {
	raw := h.Expand(x^0x20, 32)
	var b [32]byte
	top := func(bits int) { // keep the low `bits` bits of raw and set bit bits-1
		for i := 0; i < 32; i++ {
			switch {
			case 8*i+8 <= bits:
				b[i] = raw[i]
			case 8*i < bits:
				b[i] = raw[i] & byte(1<<uint(bits-8*i)-1)
			}
		}
		b[(bits-1)/8] |= 1 << uint((bits-1)%8)
	}
	switch (x >> 8) % 8 {
	case 0, 1: // uniform
		s, err := scalar.NewFromBytesModOrderWide(h.Expand(x^0x23, 64))
		if err != nil {
			panic(err)
		}
		return s
	case 2, 3, 4: // 120..200 significant bits
		top(120 + int((x>>16)%81))
	case 5: // 2^n + small, n in 120..200
		n := 120 + int((x>>16)%81)
		b[n/8] |= 1 << uint(n%8)
		b[0], b[1] = raw[0], raw[1]
	case 6: // tiny
		copy(b[:4], raw[:4])
	case 7: // 1..252 significant bits, any size
		top(1 + int((x>>16)%252))
	}
	s, err := scalar.NewFromBits(b[:])
	if err != nil {
		panic(err)
	}
	return s
}

// c18GroundTruth judges the SEQUENTIAL result of an op against facts that do
// not come from the library: keys and signatures are crypto/ed25519's, so an
// unaltered signature of a valid key verifies under every preset and an
// altered one under none; deterministic signatures and derived keys are the
// standard library's.  Without this the oracle "concurrent = sequential" would
// be blind to a package-level table corrupted for good by a racy start-up: the
// sequential pass would compute the same wrong answer.
func c18GroundTruth(op c18Op, m *c18Mat, seq []byte) (ok bool, what string) {
	switch op.Kind {
	case "verify", "vcache", "vexp":
		valid := op.Bad == 0 && (op.Kind == "vexp" || op.K < 6)
		if !bytes.Equal(seq, c18Bool(valid)) {
			return false, fmt.Sprintf("signature made by crypto/ed25519 (alteration %d, key selector %d): expected %v", op.Bad, op.K, valid)
		}
	case "sign":
		if op.X&1 == 1 || bytes.HasPrefix(seq, []byte("ERR:")) {
			return true, "" // added randomness: not a function of the key and message alone
		}
		so := &stded.Options{}
		switch op.Var {
		case 1:
			so.Context = c18Ctx
		case 2:
			so.Hash, so.Context = crypto.SHA512, c18Ctx
		}
		w, err := m.std[op.K%6].Sign(nil, m.msg(op.M, op.Var), so)
		if err != nil || !bytes.Equal(seq, w) {
			return false, fmt.Sprintf("deterministic signature differs from crypto/ed25519's: got %x want %x (%v)", seq, w, err)
		}
	case "pointuse":
		if op.X%9 <= 1 {
			if w := ref.MulBase(ref.SMod(ref.FromLE(h.Expand(m.seed^uint64(0x6000+op.K%3), 64)))).Encode(); !bytes.Equal(seq, w) {
				return false, fmt.Sprintf("shared point %d serialises as %x, the reference says %x", op.K%3, seq, w)
			}
		}
	case "vrfprove":
		if (op.X>>1)&2 == 0 && len(seq) >= 80 {
			f := ref.VrfRFC9381
			if (op.X>>1)&1 == 1 {
				f = ref.VrfDraft10
			}
			if w := ref.VrfProve(m.std[op.K%6].Seed(), m.pubs[op.K%6], m.msgs[op.M], nil, f); !bytes.Equal(seq[:80], w) {
				return false, fmt.Sprintf("deterministic proof differs from the reference: got %x want %x", seq[:80], w)
			}
		}
	case "vrfverify":
		if valid := op.Bad == 0; len(seq) < 1 || (seq[0] == c18Bool(true)[0]) != valid {
			return false, fmt.Sprintf("reference-made proof (alteration %d): expected %v", op.Bad, valid)
		}
	case "keygen":
		if w := stded.NewKeyFromSeed(h.Expand(m.seed^op.X, 32)); !bytes.Equal(seq, w) {
			return false, fmt.Sprintf("derived key differs from crypto/ed25519's: got %x want %x", seq, []byte(w))
		}
	case "nilrand":
		if string(seq) != "OK" {
			return false, string(seq)
		}
	}
	return true, ""
}

// c18Exec performs one op.  It reads m (immutable), uses sh (shared between
// goroutines in the concurrent phase) and owns everything else.
func c18Exec(op c18Op, m *c18Mat, sh *c18Shared) []byte {
	switch op.Kind {
	case "sign":
		k := op.K % 6
		sig, err := m.privs[k].Sign(c18NewStream(m.seed^op.X), m.msg(op.M, op.Var), c18Opts(op.Var, op.VOpt, op.X&1 == 1, op.X&2 == 2))
		if err != nil {
			return []byte("ERR:" + err.Error())
		}
		return sig
	case "verify":
		sig := c18BadSig(m.sigs, c18SigningKey(op.K), op.M, op.Var, op.Bad, op.X)
		if op.VOpt == 0 && op.Var == 0 && op.X&4 == 4 {
			return c18Bool(ed25519.Verify(m.pubs[op.K], m.msg(op.M, op.Var), sig))
		}
		return c18Bool(ed25519.VerifyWithOptions(m.pubs[op.K], m.msg(op.M, op.Var), sig, c18Opts(op.Var, op.VOpt, false, false)))
	case "vexp":
		k := op.K % 2
		sig := c18BadSig(m.sigs, k, op.M, op.Var, op.Bad, op.X)
		return c18Bool(ed25519.VerifyExpandedWithOptions(sh.exp[k], m.msg(op.M, op.Var), sig, c18Opts(op.Var, op.VOpt, false, false)))
	case "vcache":
		sig := c18BadSig(m.sigs, c18SigningKey(op.K), op.M, op.Var, op.Bad, op.X)
		if op.VOpt == 0 && op.Var == 0 && op.X&4 == 4 {
			return c18Bool(sh.ver.Verify(m.pubs[op.K], m.msg(op.M, op.Var), sig))
		}
		return c18Bool(sh.ver.VerifyWithOptions(m.pubs[op.K], m.msg(op.M, op.Var), sig, c18Opts(op.Var, op.VOpt, false, false)))
	case "batch":
		bv := ed25519.NewBatchVerifier()
		if op.X&(1<<60) != 0 {
			bv = ed25519.NewBatchVerifierWithCapacity(2)
		}
		opts := c18Opts(op.Var, op.VOpt, false, false)
		msg := m.msg(op.M, op.Var)
		for _, e := range c18BatchPlan(op) {
			sig := c18BadSig(m.sigs, c18SigningKey(e.K), op.M, op.Var, e.Bad, op.X)
			switch e.Mode {
			case 0:
				bv.AddWithOptions(m.pubs[e.K], msg, sig, opts)
			case 1:
				bv.AddExpandedWithOptions(sh.exp[e.K%2], msg, sig, opts)
			case 2:
				sh.ver.AddWithOptions(bv, m.pubs[e.K], msg, sig, opts)
			}
		}
		rd := c18NewStream(m.seed ^ op.X ^ 0xb)
		if op.X&(1<<61) != 0 {
			return c18Bool(bv.VerifyBatchOnly(rd))
		}
		ok, valid := bv.Verify(rd)
		out := c18Bool(ok)
		for _, v := range valid {
			out = append(out, c18Bool(v)...)
		}
		return out
	case "keygen":
		return ed25519.NewKeyFromSeed(h.Expand(m.seed^op.X, 32))
	case "nilrand":
		// The documented default entropy source ("if rand is nil, crypto/rand.Reader will be used") from many
		// goroutines at once.  The values are the operating system's, so the op reports a VERDICT, not the value:
		// the generated pair is consistent by facts that do not come from the call itself.  (Whatever sits between
		// the callers and crypto/rand - a buffer, a pool - is shared by all of them.)
		switch op.X % 4 {
		case 0, 1:
			pub, priv, err := x25519.GenerateKey(nil)
			if err != nil || priv == nil || pub == nil {
				return []byte(fmt.Sprintf("BAD: x25519.GenerateKey(nil): %v", err))
			}
			var dst, in [32]byte
			copy(in[:], priv[:])
			x25519.ScalarBaseMult(&dst, &in)
			if !bytes.Equal(dst[:], pub[:]) {
				return []byte(fmt.Sprintf("BAD: x25519.GenerateKey(nil): public %x is not the base multiple %x of the private key", pub[:], dst[:]))
			}
			if bytes.Equal(priv[:], make([]byte, 32)) {
				return []byte("BAD: x25519.GenerateKey(nil): all-zero private key")
			}
			return []byte("OK")
		case 2:
			pub, priv, err := ed25519.GenerateKey(nil)
			if err != nil || len(priv) != 64 || len(pub) != 32 {
				return []byte(fmt.Sprintf("BAD: ed25519.GenerateKey(nil): %v", err))
			}
			if w := stded.NewKeyFromSeed(priv[:32]); !bytes.Equal(w, priv) || !bytes.Equal(w[32:], pub) {
				return []byte("BAD: ed25519.GenerateKey(nil): not the RFC 8032 key of its own seed")
			}
			return []byte("OK")
		default:
			kp, err := sr25519.GenerateKeyPair(nil)
			if err != nil || kp == nil {
				return []byte(fmt.Sprintf("BAD: sr25519.GenerateKeyPair(nil): %v", err))
			}
			b, err := kp.MarshalBinary()
			if err != nil {
				return []byte("BAD: sr25519 KeyPair.MarshalBinary: " + err.Error())
			}
			if _, err := sr25519.NewKeyPairFromBytes(b); err != nil {
				return []byte("BAD: sr25519.GenerateKeyPair(nil): the pair does not decode: " + err.Error())
			}
			return []byte("OK")
		}
	case "x25519":
		sc := h.Expand(m.seed^op.X^0xc, 32)
		var pt []byte
		switch {
		case op.X&1 == 1:
			pt = x25519.Basepoint // the shared package-level slice (selects the precomputed path)
		case op.X&6 == 6:
			pt = make([]byte, 32) // low-order point: documented error
		default:
			pt = h.Expand(m.seed^op.X^0xd, 32)
		}
		out, err := x25519.X25519(sc, pt)
		if err != nil {
			return []byte("ERR")
		}
		return out
	case "x25519base":
		var dst, in [32]byte
		copy(in[:], h.Expand(m.seed^op.X^0xe, 32))
		x25519.ScalarBaseMult(&dst, &in)
		return dst[:]
	case "mulbase":
		s, err := scalar.NewFromBytesModOrderWide(h.Expand(m.seed^op.X^0xf, 64))
		if err != nil {
			panic(err)
		}
		var (
			p curve.EdwardsPoint
			c curve.CompressedEdwardsY
		)
		if op.X&1 == 1 {
			s2, err := scalar.NewFromBytesModOrderWide(h.Expand(m.seed^op.X^0x10, 64))
			if err != nil {
				panic(err)
			}
			p.DoubleScalarMulBasepointVartime(s, curve.ED25519_BASEPOINT_POINT, s2)
		} else {
			p.MulBasepoint(curve.ED25519_BASEPOINT_TABLE, s)
		}
		c.SetEdwardsPoint(&p)
		return append([]byte(nil), c[:]...)
	case "triple":
		// res = [a]A + [b]B - C through the verification equation routine, with a
		// from c18LatticeScalar (all size classes), A a valid public key point
		a := c18LatticeScalar(m.seed ^ op.X)
		b, err := scalar.NewFromBytesModOrderWide(h.Expand(m.seed^op.X^0x21, 64))
		if err != nil {
			panic(err)
		}
		var (
			cA      curve.CompressedEdwardsY
			A, C, p curve.EdwardsPoint
			c       curve.CompressedEdwardsY
		)
		copy(cA[:], m.pubs[op.K%6])
		if _, err := A.SetCompressedY(&cA); err != nil {
			panic(err)
		}
		cs, err := scalar.NewFromBytesModOrderWide(h.Expand(m.seed^op.X^0x22, 64))
		if err != nil {
			panic(err)
		}
		C.MulBasepoint(curve.ED25519_BASEPOINT_TABLE, cs)
		if op.X&1 == 1 {
			p.ExpandedTripleScalarMulBasepointVartime(a, curve.NewExpandedEdwardsPoint(&A), b, &C)
		} else {
			p.TripleScalarMulBasepointVartime(a, &A, b, &C)
		}
		c.SetEdwardsPoint(&p)
		return append([]byte(nil), c[:]...)
	case "srsign":
		kp := m.srKP[op.K%2]
		if kp == nil {
			kp = m.srKeyPair(op.K % 2)
		}
		sig, err := kp.Sign(c18NewStream(m.seed^op.X^0x11), sh.sctx.NewTranscriptBytes(m.msgs[op.M]))
		if err != nil {
			return []byte("ERR")
		}
		b, err := sig.MarshalBinary()
		if err != nil {
			return []byte("ERR-MARSHAL")
		}
		return b
	case "srverify":
		b := c18BadSig(m.srSigs, op.K%2, op.M, 0, op.Bad, op.X)
		sig, err := sr25519.NewSignatureFromBytes(b)
		if err != nil {
			return []byte("ERR-PARSE")
		}
		pk := m.srPK[op.K%2]
		if pk == nil {
			pk = m.srKeyPair(op.K % 2).PublicKey()
		}
		single := pk.Verify(sh.sctx.NewTranscriptBytes(m.msgs[op.M]), sig)
		if op.X&8 == 0 {
			return c18Bool(single)
		}
		// ... and the same entry (two or three times) through an sr25519 batch
		// verifier of its own: batch verification must not share hidden state
		// between verifiers that run at the same time
		bv := sr25519.NewBatchVerifier()
		for j := 0; j < 2+int(op.X>>4)%2; j++ {
			bv.Add(pk, sh.sctx.NewTranscriptBytes(m.msgs[op.M]), sig)
		}
		rd := c18NewStream(m.seed ^ op.X ^ 0x5b)
		out := c18Bool(single)
		if op.X&64 == 0 {
			out = append(out, c18Bool(bv.VerifyBatchOnly(rd))...)
		} else {
			all, each := bv.Verify(rd)
			out = append(out, c18Bool(all)...)
			for _, e := range each {
				out = append(out, c18Bool(e)...)
			}
		}
		return out
	case "pointuse":
		// the shared point is a read-only operand: whatever a call does with it
		// (normalise, cache, ...) must not be visible to the other goroutines
		enc := func(p *curve.EdwardsPoint) []byte {
			var c curve.CompressedEdwardsY
			c.SetEdwardsPoint(p)
			return append([]byte(nil), c[:]...)
		}
		ls, err := scalar.NewFromBytesModOrderWide(h.Expand(m.seed^op.X^0x41, 64))
		if err != nil {
			panic(err)
		}
		P := sh.pts[op.K%3]
		switch op.X % 9 {
		case 0:
			b, err := P.MarshalBinary()
			if err != nil {
				return []byte("ERR")
			}
			return b
		case 1:
			return enc(P)
		case 2:
			local := curve.NewEdwardsPoint().MulBasepoint(curve.ED25519_BASEPOINT_TABLE, ls)
			return enc(curve.NewEdwardsPoint().Add(local, P))
		case 3:
			local := curve.NewEdwardsPoint().MulBasepoint(curve.ED25519_BASEPOINT_TABLE, ls)
			return append(c18Bool(P.Equal(local) == 1), c18Bool(P.IsSmallOrder())...)
		case 4:
			return enc(curve.NewEdwardsPoint().MulByCofactor(P))
		case 5:
			return enc(curve.NewEdwardsPoint().Mul(P, ls))
		case 6:
			var mp curve.MontgomeryPoint
			mp.SetEdwards(P)
			return append([]byte(nil), mp[:]...)
		case 7:
			b, err := sh.rpts[op.K%2].MarshalBinary()
			if err != nil {
				return []byte("ERR")
			}
			return b
		default:
			var c curve.CompressedRistretto
			c.SetRistrettoPoint(curve.NewRistrettoPoint().Add(sh.rpts[op.K%2], sh.rpts[(op.K+1)%2]))
			return append([]byte(nil), c[:]...)
		}
	case "vrfprove":
		sk := m.privs[op.K%6]
		var (
			pi  []byte
			err error
		)
		switch (op.X >> 1) & 3 {
		case 0:
			pi = ecvrf.Prove(sk, m.msgs[op.M])
		case 1:
			pi = ecvrf.Prove_v10(sk, m.msgs[op.M])
		case 2:
			pi, err = ecvrf.ProveWithAddedRandomness(c18NewStream(m.seed^op.X^0x31), sk, m.msgs[op.M])
		default:
			pi, err = ecvrf.ProveWithAddedRandomness_v10(c18NewStream(m.seed^op.X^0x31), sk, m.msgs[op.M])
		}
		if err != nil {
			return []byte("ERR")
		}
		beta, err := ecvrf.ProofToHash(pi)
		if err != nil {
			return []byte("ERR-HASH")
		}
		return append(pi, beta...)
	case "vrfverify":
		v10 := int(op.X>>3) & 1
		pi := c18BadSig(m.vrf, op.K%6, op.M, v10, op.Bad, op.X)
		var (
			ok   bool
			beta []byte
		)
		if v10 == 1 {
			ok, beta = ecvrf.Verify_v10(m.pubs[op.K%6], pi, m.msgs[op.M])
		} else {
			ok, beta = ecvrf.Verify(m.pubs[op.K%6], pi, m.msgs[op.M])
		}
		return append(c18Bool(ok), beta...)
	case "h2c":
		dst := []byte("c18-h2c-dst")
		if op.X%8 >= 6 {
			dst = m.longDST // THE shared slice
		}
		msg := m.msgs[op.M]
		var (
			ep  *curve.EdwardsPoint
			rp  *curve.RistrettoPoint
			err error
		)
		switch op.X % 6 {
		case 0:
			ep, err = h2c.Edwards25519_XMD_SHA512_ELL2_RO(dst, msg)
		case 1:
			ep, err = h2c.Edwards25519_XMD_SHA512_ELL2_NU(dst, msg)
		case 2:
			ep, err = h2c.Edwards25519_XOF_ELL2_RO(sha3.NewShake256(), dst, msg)
		case 3:
			ep, err = h2c.Edwards25519_XOF_ELL2_NU(sha3.NewShake128(), dst, msg)
		case 4:
			rp, err = h2c.Ristretto255_XMD_R255MAP_RO(crypto.SHA512, dst, msg)
		case 5:
			rp, err = h2c.Ristretto255_XOF_R255MAP_RO(sha3.NewShake256(), dst, msg)
		}
		if err != nil {
			return []byte("ERR")
		}
		if ep != nil {
			var c curve.CompressedEdwardsY
			c.SetEdwardsPoint(ep)
			return append([]byte(nil), c[:]...)
		}
		var c curve.CompressedRistretto
		c.SetRistrettoPoint(rp)
		return append([]byte(nil), c[:]...)
	case "merlin":
		t := sh.base.Clone()
		t.AppendMessage("msg", m.msgs[op.M])
		out := make([]byte, 48)
		t.ExtractBytes(out[:32], "challenge")
		rng, err := t.BuildRng().RekeyWithWitnessBytes("witness", h.Expand(m.seed^op.X^0x12, 32)).Finalize(c18NewStream(m.seed ^ op.X ^ 0x13))
		if err != nil {
			return []byte("ERR")
		}
		if _, err := rng.Read(out[32:]); err != nil {
			return []byte("ERR-READ")
		}
		return out
	}
	panic("c18: unknown op kind " + op.Kind)
}

// TestC18ChildWorkload is the child side: it only runs when re-executed by C18Spawn.
func TestC18ChildWorkload(t *testing.T) {
	if !cache.C18IsChild("workload") {
		t.Skip("not a child process")
	}
	var c c18WCase
	reps := cache.C18ChildInput(&c)
	if !c18WValid(c) {
		panic("c18 child: invalid case")
	}
	m := c18NewMat(c)
	if !c.Cold {
		m.warm(c)
	}

	// expected results: every op once, sequentially, with private "shared" instances
	var want [][][]byte
	sequential := func() {
		seqShared := c18NewShared(c, m)
		want = make([][][]byte, len(c.G))
		for g := range c.G {
			want[g] = make([][]byte, len(c.G[g]))
			for i, op := range c.G[g] {
				want[g][i] = c18Exec(op, m, seqShared)
			}
		}
	}
	pristine := c18MatSnapshot(m)
	rep := cache.C18Report{}
	if !c.Cold {
		cache.C18Guard(&rep, "sequential pass", sequential)
	}

	for r := 0; r < reps && rep.Viol == nil; r++ {
		sh := c18NewShared(c, m) // fresh shared instances every run
		got := make([][][]byte, len(c.G))
		panics := make([]string, len(c.G))
		t0 := make([]time.Time, len(c.G))
		t1 := make([]time.Time, len(c.G))
		bar := cache.C18NewBarrier(len(c.G))
		var rounds []*cache.C18StartBarrier
		if c.Lockstep {
			lens := make([]int, len(c.G))
			for g := range c.G {
				lens[g] = len(c.G[g])
			}
			rounds = cache.C18RoundBarriers(lens)
		}
		var wg sync.WaitGroup
		for g := range c.G {
			got[g] = make([][]byte, len(c.G[g]))
			wg.Add(1)
			go func(g int) {
				defer wg.Done()
				cur := -1
				defer func() {
					if p := recover(); p != nil {
						panics[g] = fmt.Sprintf("op %d: %v", cur, p)
						cache.C18AbortBarriers(rounds)
					}
				}()
				bar.Wait()
				t0[g] = time.Now()
				for i, op := range c.G[g] {
					cur = i
					if rounds != nil {
						rounds[i].Wait()
					}
					cache.C18Perturb(op.Y, op.Spin, r)
					got[g][i] = c18Exec(op, m, sh)
				}
				t1[g] = time.Now()
			}(g)
		}
		cache.C18Guard(&rep, fmt.Sprintf("concurrent repetition %d", r), wg.Wait)
		if want == nil {
			cache.C18Guard(&rep, "sequential pass", sequential) // cold case: the first concurrent run came first
		}
		for g := range c.G {
			if panics[g] != "" {
				rep.Viol = &cache.C18Viol{Sig: "api:panic-under-concurrency", Detail: fmt.Sprintf("repetition %d goroutine %d %s (the same op does not panic sequentially)", r, g, panics[g])}
				break
			}
			for i := range c.G[g] {
				rep.Compared++
				if !bytes.Equal(got[g][i], want[g][i]) {
					rep.Viol = &cache.C18Viol{Sig: c.G[g][i].Kind + ":concurrent-result-differs-from-sequential",
						Detail: fmt.Sprintf("repetition %d goroutine %d op %d %+v: concurrent=%x sequential=%x", r, g, i, c.G[g][i], got[g][i], want[g][i])}
					break
				}
			}
			if rep.Viol != nil {
				break
			}
		}
		// evidence only (wall clock, not an oracle): did two goroutines really run at the same time?
		par := false
		for a := range c.G {
			for b := a + 1; b < len(c.G); b++ {
				if !t0[a].IsZero() && !t1[a].IsZero() && !t0[b].IsZero() && !t1[b].IsZero() && t0[a].Before(t1[b]) && t0[b].Before(t1[a]) {
					par = true
				}
			}
		}
		if par {
			rep.RepsParallel++
		}
		if rep.Viol == nil {
			rep.Reps++
		}
	}
	if rep.Viol == nil && want != nil {
		for g := range c.G {
			for i, op := range c.G[g] {
				if ok, what := c18GroundTruth(op, m, want[g][i]); !ok && rep.Viol == nil {
					rep.Viol = &cache.C18Viol{Sig: op.Kind + ":sequential-result-contradicts-crypto/ed25519",
						Detail: fmt.Sprintf("goroutine %d op %d %+v, evaluated sequentially AFTER the concurrent runs: %s", g, i, op, what)}
				}
			}
		}
	}
	if rep.Viol == nil && !bytes.Equal(c18MatSnapshot(m), pristine) {
		rep.Viol = &cache.C18Viol{Sig: "api:shared-input-buffer-modified", Detail: "a key, message or signature buffer that the goroutines passed as (read-only) input differs from its pristine copy after the run"}
	}
	cache.C18ChildEmit(rep)
	if rep.Viol != nil {
		t.Fail()
	}
}
