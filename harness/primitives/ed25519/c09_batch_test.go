//go:build verif

package ed25519_test

// C09 — batch verification agrees with single verification, for every history
// of {Add, AddWithOptions, AddExpanded, AddExpandedWithOptions (incl. a nil
// key), ForceNoPublicKeyExpansion, Reset, Verify, VerifyBatchOnly}.
//
// Model: the list of entries added since the last Reset, each with
//
//	expected_i := single VerifyWithOptions / Verify on the same inputs
//	              (a documented panic of single verification  =>  false)
//
// After Verify:           (ok, valid) == (n > 0 && AND expected, expected); (false, empty) for n = 0.
// After VerifyBatchOnly:  n > 0 && no entry requests cofactorless verification && AND expected
// (batch_verify.go: "Calling VerifyBatchOnly on an empty batch, or a batch
// containing any entries that specify cofactor-less verification will return
// false"; "returning true if all entries are valid and false if any one entry
// is invalid").
//
// Keys, messages and signatures come from the hand-signed pool of
// verifh.C09GenPool (torsion-laden A and R, small order, non-canonical
// spellings, S+L, cancelling pairs, forged, wrong lengths, illegal options).

import (
	"bytes"
	"crypto"
	"fmt"
	"testing"

	"github.com/oasisprotocol/curve25519-voi/primitives/ed25519"
	"pgregory.net/rapid"
	h "verifh"
)

// c09Options materialises the neutral option description.
func c09Options(o h.C09Opt) *ed25519.Options {
	opts := &ed25519.Options{Context: string(o.Ctx)}
	switch o.Hash {
	case 1:
		opts.Hash = crypto.SHA512
	case 2:
		opts.Hash = crypto.SHA256
	case 3:
		opts.Hash = crypto.SHA384
	}
	switch o.Preset {
	case -1:
		opts.Verify = nil
	case 1:
		opts.Verify = ed25519.VerifyOptionsDefault
	case 2:
		opts.Verify = ed25519.VerifyOptionsStdLib
	case 3:
		opts.Verify = ed25519.VerifyOptionsFIPS_186_5
	case 4:
		opts.Verify = ed25519.VerifyOptionsZIP_215
	default:
		opts.Verify = &ed25519.VerifyOptions{
			AllowSmallOrderA:   o.Flags&h.C09SmallA != 0,
			AllowSmallOrderR:   o.Flags&h.C09SmallR != 0,
			AllowNonCanonicalA: o.Flags&h.C09NonCanonA != 0,
			AllowNonCanonicalR: o.Flags&h.C09NonCanonR != 0,
			CofactorlessVerify: o.Flags&h.C09Cofactorless != 0,
		}
	}
	return opts
}

// c09Single is the oracle: plain single-signature verification.  own selects
// the entry's own options, otherwise the package default (plain Verify).
func c09Single(b *h.C09Built, own bool) (ok, panicked bool) {
	pk, msg, sig := c09Copy(b.PK), c09Copy(b.Msg), c09Copy(b.Sig)
	panicked, _ = h.Catch(func() {
		if own {
			ok = ed25519.VerifyWithOptions(pk, msg, sig, c09Options(b.Opt))
		} else {
			ok = ed25519.Verify(pk, msg, sig)
		}
	})
	return ok && !panicked, panicked
}

func c09Copy(b []byte) []byte { return append([]byte{}, b...) }

func c09SizeClass(n int) string {
	switch {
	case n <= 2, n >= 93 && n <= 95:
		return fmt.Sprintf("n=%d", n)
	case n < 93:
		return "n=3..92"
	case n < 249:
		return "n=96..248"
	case n <= 251:
		return "n=249..251"
	case n < 399:
		return "n=252..398"
	case n <= 401:
		return "n=399..401"
	}
	return "n>=402"
}

// c09Major is the leading component of a generator class label.
func c09Major(cls string) string {
	for i := 0; i < len(cls); i++ {
		if cls[i] == '/' {
			return cls[:i]
		}
	}
	return cls
}

func c09Verdict(ok bool) string {
	if ok {
		return "accept"
	}
	return "reject"
}

type c09Op struct {
	K      string       `json:"k"`   // add | force | reset | verify | batchonly
	API    int          `json:"api"` // 0 Add, 1 AddWithOptions, 2 AddExpanded, 3 AddExpandedWithOptions, 4 rotate 0..3, 5 alternate 1/3
	Lo     int          `json:"lo"`  // add: entries Pool.Ents[Lo + (Start+i*Stride) mod Span], i < Count
	Span   int          `json:"span"`
	Start  int          `json:"start"`
	Stride int          `json:"stride"`
	Count  int          `json:"count"`
	NilKey bool         `json:"nilkey"` // expanded APIs: pass a nil *ExpandedPublicKey
	Ent    h.C09Entropy `json:"ent"`
}

type c09BatchCase struct {
	Pool h.C09Pool `json:"pool"`
	Cap  int       `json:"cap"` // > 0: NewBatchVerifierWithCapacity
	Ops  []c09Op   `json:"ops"`
	// Scribble: the buffers handed to Add* are the caller's and are reused
	// (overwritten) right after each Add returns - an entry is what was added,
	// not whatever the caller's buffers hold when Verify runs.
	Scribble bool `json:"scribble,omitempty"`
	// OneBuffer: the caller keeps ONE public-key buffer, ONE message buffer and
	// ONE signature buffer for the whole history and copies each entry into them
	// before the Add (what a loop decoding entries from the wire does).  The
	// slices handed to consecutive Adds are then the same objects with different
	// contents: a verifier that remembers a slice instead of its contents
	// compares the buffer with itself.
	OneBuffer bool `json:"onebuffer,omitempty"`
}

// c09Env holds the per-case derived data shared by the batch and cache checks.
type c09Env struct {
	pool  *h.C09Pool
	built []*h.C09Built
	memo  map[[2]int][2]bool // (entry, own) -> (expected, panicked)
	exp   map[int]*ed25519.ExpandedPublicKey
}

func c09NewEnv(p *h.C09Pool) *c09Env {
	return &c09Env{pool: p, built: make([]*h.C09Built, len(p.Ents)), memo: map[[2]int][2]bool{}, exp: map[int]*ed25519.ExpandedPublicKey{}}
}

func (e *c09Env) get(i int) *h.C09Built {
	if e.built[i] == nil {
		b := e.pool.Build(i)
		e.built[i] = &b
	}
	return e.built[i]
}

func (e *c09Env) expected(i int, own bool) (ok, panicked bool) {
	k := [2]int{i, 0}
	if own {
		k[1] = 1
	}
	if v, hit := e.memo[k]; hit {
		return v[0], v[1]
	}
	ok, panicked = c09Single(e.get(i), own)
	e.memo[k] = [2]bool{ok, panicked}
	return
}

// expanded returns the (shared, per key) expanded public key, nil if the key
// cannot be expanded.
func (e *c09Env) expanded(key int) *ed25519.ExpandedPublicKey {
	if x, ok := e.exp[key]; ok {
		return x
	}
	x, err := ed25519.NewExpandedPublicKey(e.pool.Keys[key].Bytes())
	if err != nil {
		x = nil
	}
	e.exp[key] = x
	return x
}

type c09Model struct {
	want, cofl []bool
}

func (m *c09Model) all() bool {
	for _, w := range m.want {
		if !w {
			return false
		}
	}
	return len(m.want) > 0
}

func (m *c09Model) anyCofl() bool {
	for _, c := range m.cofl {
		if c {
			return true
		}
	}
	return false
}

func c09CheckBatch(c c09BatchCase) h.Result {
	r := h.NewR()
	env := c09NewEnv(&c.Pool)
	var v *ed25519.BatchVerifier
	if c.Cap > 0 {
		v = ed25519.NewBatchVerifierWithCapacity(c.Cap)
	} else {
		v = ed25519.NewBatchVerifier()
	}
	var m c09Model
	nt := false
	if c.Scribble {
		r.Class("caller-reuses-buffers")
	}
	if c.OneBuffer {
		r.Class("caller-has-one-buffer-per-argument")
	}
	onePK, oneMsg, oneSig := make([]byte, 0, 64), make([]byte, 0, 4096), make([]byte, 0, 256)
	// ... and ONE Options object (with ONE custom VerifyOptions object) whose fields it overwrites before every call:
	// whatever the verifier derives from the options belongs to the entry, not to the pointer it was handed
	oneOpts, oneVO := &ed25519.Options{}, &ed25519.VerifyOptions{}
	optsFor := func(o h.C09Opt) *ed25519.Options {
		fresh := c09Options(o)
		if !c.OneBuffer {
			return fresh
		}
		*oneOpts = *fresh
		if o.Preset == 0 && fresh.Verify != nil {
			*oneVO = *fresh.Verify
			oneOpts.Verify = oneVO
		}
		return oneOpts
	}
	resets, verifiesSinceChange := 0, 0
	type held struct {
		ent          int
		pk, msg, sig []byte
	}
	var keep []held
	for opi, op := range c.Ops {
		switch op.K {
		case "force":
			if ret := v.ForceNoPublicKeyExpansion(); ret != v {
				return r.Fail("BatchVerifier.ForceNoPublicKeyExpansion:wrong-return", "op %d", opi).Result()
			}
			r.Class("op:force")
		case "reset":
			if ret := v.Reset(); ret != v {
				return r.Fail("BatchVerifier.Reset:wrong-return", "op %d", opi).Result()
			}
			m = c09Model{}
			keep = keep[:0]
			resets++
			verifiesSinceChange = 0
			r.Class("op:reset")
		case "add":
			if op.Span <= 0 || op.Lo < 0 || op.Lo+op.Span > len(c.Pool.Ents) {
				continue
			}
			if resets > 0 {
				nt = true // reuse after Reset
				r.Class("reuse-after-reset")
			}
			for i := 0; i < op.Count; i++ {
				idx := op.Lo + (((op.Start+i*op.Stride)%op.Span)+op.Span)%op.Span
				api := op.API
				switch api {
				case 4:
					api = (op.Start + i) & 3
				case 5:
					api = 1 + 2*((op.Start+i)&1)
				}
				api &= 3
				own := api == 1 || api == 3
				b := env.get(idx)
				ent := c.Pool.Ents[idx]
				want, _ := env.expected(idx, own)
				cofl := own && b.Opt.Cofactorless()
				hd := held{idx, c09Copy(b.PK), c09Copy(b.Msg), c09Copy(b.Sig)}
				keep = append(keep, hd)
				var xk *ed25519.ExpandedPublicKey
				if api >= 2 {
					xk = env.expanded(ent.Key)
					if op.NilKey {
						xk = nil
						if (op.Lo+i)&1 == 1 {
							// ... or the zero value of the exported struct: never produced by
							// NewExpandedPublicKey, guarded by its validity flag - no key at all
							xk = &ed25519.ExpandedPublicKey{}
							want = false
						}
					}
					if xk == nil {
						want = false
					}
				}
				apk, amsg, asig := hd.pk, hd.msg, hd.sig
				if c.Scribble {
					apk, amsg, asig = c09Copy(b.PK), c09Copy(b.Msg), c09Copy(b.Sig)
				}
				if c.OneBuffer && len(b.PK) <= cap(onePK) && len(b.Msg) <= cap(oneMsg) && len(b.Sig) <= cap(oneSig) {
					onePK, oneMsg, oneSig = append(onePK[:0], b.PK...), append(oneMsg[:0], b.Msg...), append(oneSig[:0], b.Sig...)
					apk, amsg, asig = onePK, oneMsg, oneSig
					if b.PK == nil {
						apk = nil
					}
					if b.Sig == nil {
						asig = nil
					}
				}
				if p, pv := h.Catch(func() {
					switch api {
					case 0:
						v.Add(apk, amsg, asig)
					case 1:
						v.AddWithOptions(apk, amsg, asig, optsFor(b.Opt))
					case 2:
						v.AddExpanded(xk, amsg, asig)
					default:
						v.AddExpandedWithOptions(xk, amsg, asig, optsFor(b.Opt))
					}
					if c.Scribble {
						for _, buf := range [][]byte{apk, amsg, asig} {
							for j := range buf {
								buf[j] ^= 0x5a
							}
						}
					}
				}); p {
					return r.Fail("BatchVerifier.Add:panic", "op %d api %d entry %d (%s): %v", opi, api, idx, ent.Cls, pv).Result()
				}
				m.want = append(m.want, want)
				m.cofl = append(m.cofl, cofl)
				if !want || cofl || ent.I != 0 || c.Pool.Keys[ent.Key].J != 0 {
					nt = true
				}
				if i < 4 {
					r.Class(fmt.Sprintf("add:api%d", api), "entry:"+c09Major(ent.Cls)+"/"+c09Verdict(want))
					if api >= 2 && xk == nil {
						r.Class("add:nil-expanded-key")
					}
				}
			}
			verifiesSinceChange = 0
		case "verify", "batchonly":
			n := len(m.want)
			if n >= 93 {
				nt = true
			}
			if verifiesSinceChange > 0 {
				nt = true
				r.Class("repeat-verify")
			}
			verifiesSinceChange++
			r.Eval(1)
			if op.K == "verify" {
				var ok bool
				var valid []bool
				if p, pv := h.Catch(func() { ok, valid = v.Verify(op.Ent.Reader()) }); p {
					return r.Fail("BatchVerifier.Verify:panic", "op %d n=%d: %v", opi, n, pv).Result()
				}
				r.Class("op:verify", "size:"+c09SizeClass(n)+"/"+c09Verdict(ok))
				if n == 0 {
					if ok || len(valid) != 0 {
						return r.Fail("BatchVerifier.Verify:empty-batch", "op %d: got (%v, %v)", opi, ok, valid).Result()
					}
					continue
				}
				if len(valid) != n {
					return r.Fail("BatchVerifier.Verify:wrong-length", "op %d: len(valid)=%d n=%d", opi, len(valid), n).Result()
				}
				for i := range valid {
					if valid[i] != m.want[i] {
						e := c.Pool.Ents[keep[i].ent]
						return r.Fail("BatchVerifier.Verify:entry-differs-from-single", "op %d n=%d entry %d (pool %d, %s): batch %v single %v",
							opi, n, i, keep[i].ent, e.Cls, valid[i], m.want[i]).Result()
					}
				}
				if ok != m.all() {
					return r.Fail("BatchVerifier.Verify:summary-not-conjunction", "op %d n=%d: ok=%v want %v", opi, n, ok, m.all()).Result()
				}
			} else {
				var ok bool
				if p, pv := h.Catch(func() { ok = v.VerifyBatchOnly(op.Ent.Reader()) }); p {
					return r.Fail("BatchVerifier.VerifyBatchOnly:panic", "op %d n=%d: %v", opi, n, pv).Result()
				}
				want := m.all() && !m.anyCofl()
				r.Class("op:batchonly", "size:"+c09SizeClass(n)+"/"+c09Verdict(ok))
				if ok != want {
					return r.Fail("BatchVerifier.VerifyBatchOnly:wrong-decision", "op %d n=%d: got %v want %v (all=%v anyCofactorless=%v)",
						opi, n, ok, want, m.all(), m.anyCofl()).Result()
				}
			}
			// the caller's buffers are never written
			for _, hd := range keep {
				b := env.get(hd.ent)
				if !bytes.Equal(hd.pk, b.PK) || !bytes.Equal(hd.msg, b.Msg) || !bytes.Equal(hd.sig, b.Sig) {
					return r.Fail("BatchVerifier:input-modified", "op %d pool entry %d", opi, hd.ent).Result()
				}
			}
		}
	}
	return r.NT(nt).Result()
}

// ---- history generator ----

func c09GenSize(t *rapid.T, allowBig, allowMid bool) int {
	x := rapid.IntRange(0, 99).Draw(t, "sizeclass")
	switch {
	case x < 4:
		return 0
	case x < 12:
		return 1
	case x < 20:
		return 2
	case x < 62:
		return rapid.IntRange(3, 24).Draw(t, "n")
	case x < 68:
		return rapid.IntRange(25, 92).Draw(t, "n")
	case x < 90:
		if allowMid {
			return rapid.SampledFrom([]int{93, 94, 95, 96}).Draw(t, "n")
		}
	case x < 92:
		if allowMid {
			return rapid.IntRange(97, 200).Draw(t, "n")
		}
	default:
		if allowBig {
			return rapid.SampledFrom([]int{249, 250, 251, 399, 400, 401, 402, 440}).Draw(t, "n")
		}
	}
	return rapid.IntRange(1, 12).Draw(t, "n")
}

func c09GenBatch(t *rapid.T) c09BatchCase {
	kinds := []string{"small", "small-nc", "undecodable", "wronglen", "ncbig", "honest", "mixed"}
	var pre []string
	for i, n := 0, rapid.IntRange(0, 3).Draw(t, "prekeys"); i < n; i++ {
		pre = append(pre, rapid.SampledFrom(kinds).Draw(t, "prekind"))
	}
	cfg := h.C09PoolCfg{ND: rapid.IntRange(2, 5).Draw(t, "nd"), NO: rapid.IntRange(0, 3).Draw(t, "no"),
		NSpec: rapid.IntRange(1, 6).Draw(t, "nspec"), MaxKeys: rapid.IntRange(3, 8).Draw(t, "maxkeys"), Kinds: pre}
	pool, groups := h.C09GenPool(t, cfg)
	c := c09BatchCase{Pool: pool}
	c.Scribble = rapid.IntRange(0, 3).Draw(t, "scribble") == 0
	c.OneBuffer = !c.Scribble && rapid.IntRange(0, 2).Draw(t, "onebuffer") == 0
	if rapid.IntRange(0, 3).Draw(t, "withcap") == 0 {
		c.Cap = rapid.SampledFrom([]int{1, 2, 64, 94, 95, 500}).Draw(t, "cap")
	}
	nGoodD, nGood, nAll := pool.ND, pool.ND+pool.NO, len(pool.Ents)
	emitGood := func(n int, ownOnly bool) {
		if n <= 0 {
			return
		}
		op := c09Op{K: "add", Count: n, Start: rapid.IntRange(0, 1000).Draw(t, "start"), Stride: rapid.SampledFrom([]int{1, 1, 2, 3, 7}).Draw(t, "stride")}
		if ownOnly {
			op.Span = nGood
			op.API = rapid.SampledFrom([]int{1, 3, 5}).Draw(t, "api")
		} else {
			op.Span = nGoodD
			op.API = rapid.SampledFrom([]int{0, 1, 2, 3, 4, 4, 5}).Draw(t, "api")
		}
		c.Ops = append(c.Ops, op)
	}
	emitGroup := func(g []int) {
		own := rapid.IntRange(0, 4).Draw(t, "grpown") != 0
		for _, idx := range g {
			op := c09Op{K: "add", Lo: idx, Span: 1, Count: 1, Stride: 1}
			if own {
				op.API = rapid.SampledFrom([]int{1, 3}).Draw(t, "api")
			} else {
				op.API = rapid.IntRange(0, 3).Draw(t, "api")
			}
			if op.API >= 2 && rapid.IntRange(0, 11).Draw(t, "nilkey") == 0 {
				op.NilKey = true
			}
			c.Ops = append(c.Ops, op)
		}
	}
	emitAny := func(n int) {
		if n <= 0 {
			return
		}
		c.Ops = append(c.Ops, c09Op{K: "add", Span: nAll, Count: n, Start: rapid.IntRange(0, 1000).Draw(t, "start"),
			Stride: rapid.SampledFrom([]int{1, 2, 3, 5, 7}).Draw(t, "stride"), API: rapid.SampledFrom([]int{0, 1, 1, 2, 3, 3, 4, 5, 5}).Draw(t, "api")})
	}
	emitVerifies := func() {
		for i, k := 0, rapid.IntRange(1, 3).Draw(t, "nverify"); i < k; i++ {
			kind := "verify"
			if rapid.IntRange(0, 2).Draw(t, "vkind") == 0 {
				kind = "batchonly"
			}
			c.Ops = append(c.Ops, c09Op{K: kind, Ent: h.C09GenEntropy(t, "ent")})
		}
	}
	nseg := rapid.IntRange(1, 4).Draw(t, "segments")
	usedBig, usedMid := false, 0
	prevDirty := false
	for s := 0; s < nseg; s++ {
		if rapid.IntRange(0, 6).Draw(t, "force") == 0 {
			c.Ops = append(c.Ops, c09Op{K: "force"})
		}
		n := c09GenSize(t, !usedBig, usedMid < 2)
		if n >= 249 {
			usedBig = true
		} else if n >= 93 {
			usedMid++
		}
		comp := rapid.IntRange(0, 9).Draw(t, "composition")
		if prevDirty && rapid.IntRange(0, 2).Draw(t, "cleanafterdirty") != 0 {
			comp = rapid.IntRange(0, 1).Draw(t, "cleancomp")
			if n == 0 {
				n = rapid.IntRange(1, 6).Draw(t, "n")
			}
		}
		switch {
		case comp == 0: // all good, any API
			emitGood(n, false)
			prevDirty = false
		case comp == 1: // all good under their own options
			emitGood(n, true)
			prevDirty = false
		case comp <= 6: // good entries around one special group
			g := groups[rapid.IntRange(0, len(groups)-1).Draw(t, "group")]
			rest := n - len(g)
			if rest < 0 {
				rest = 0
			}
			before := rapid.IntRange(0, rest).Draw(t, "before")
			ownOnly := rapid.Bool().Draw(t, "ownonly")
			emitGood(before, ownOnly)
			if rapid.IntRange(0, 19).Draw(t, "midforce") == 0 {
				c.Ops = append(c.Ops, c09Op{K: "force"})
			}
			emitGroup(g)
			emitGood(rest-before, ownOnly)
			prevDirty = true
		case comp <= 8: // anything
			emitAny(n)
			prevDirty = true
		default: // specials only
			for i, k := 0, rapid.IntRange(1, 3).Draw(t, "nspecials"); i < k; i++ {
				emitGroup(groups[rapid.IntRange(0, len(groups)-1).Draw(t, "group")])
			}
			prevDirty = true
		}
		emitVerifies()
		if rapid.IntRange(0, 3).Draw(t, "more") == 0 {
			switch rapid.IntRange(0, 2).Draw(t, "morekind") {
			case 0:
				emitGood(rapid.IntRange(1, 3).Draw(t, "n"), false)
			case 1:
				emitGroup(groups[rapid.IntRange(0, len(groups)-1).Draw(t, "group")])
				prevDirty = true
			default:
				emitAny(rapid.IntRange(1, 3).Draw(t, "n"))
				prevDirty = true
			}
			emitVerifies()
		}
		if s+1 < nseg && rapid.IntRange(0, 6).Draw(t, "reset") != 0 {
			c.Ops = append(c.Ops, c09Op{K: "reset"})
			if rapid.IntRange(0, 9).Draw(t, "doublereset") == 0 {
				c.Ops = append(c.Ops, c09Op{K: "reset"})
			}
		}
	}
	return c
}

func TestC09Batch(t *testing.T) { h.Run(t, c09GenBatch, c09CheckBatch) }

// Native coverage-guided fuzzing of the same generator and oracle (thorough tier).
func FuzzC09Batch(f *testing.F) { h.Fuzz(f, c09GenBatch, c09CheckBatch) }

// ---- deterministic sweep over the size thresholds ----

// c09FixedPool is a small hand-written pool (no randomness): four entries that
// are valid under any cofactored option set and under the default options, a
// cancelling pair, cofactorless entries and malformed ones.
func c09FixedPool() h.C09Pool {
	sc := func(v byte) h.Hex { return h.Hex{v, 0, 0, 0} }
	p := h.C09Pool{
		Keys: []h.C09Key{{Kind: "honest", A: sc(5)}, {Kind: "mixed", A: sc(7), J: 3}, {Kind: "honest", A: sc(11)}},
		ND:   4,
	}
	e := func(key int, r byte, i int, opt h.C09Opt, cls string) h.C09Ent {
		return h.C09Ent{Key: key, SKey: key, R: sc(r), I: i, MsgSeed: uint64(r)*977 + uint64(key), MsgLen: 10 + int(r), Opt: opt, Cls: cls}
	}
	p.Ents = []h.C09Ent{
		e(0, 3, 0, h.C09Opt{Preset: 1}, "good"),
		e(1, 4, 5, h.C09Opt{Preset: 3}, "good/torsion-R/mixed-A"),
		e(2, 9, 0, h.C09Opt{Preset: 4}, "good"),
		e(0, 0, 2, h.C09Opt{Preset: -1}, "good/small-R"),
		e(0, 6, 0, h.C09Opt{Preset: 1}, "cancel+"),
		e(2, 8, 0, h.C09Opt{Preset: 1}, "cancel-"),
		e(0, 10, 0, h.C09Opt{Preset: 2}, "cofactorless/valid"),
		e(0, 12, 1, h.C09Opt{Preset: 2}, "cofactorless/torsion-R"),
		e(0, 13, 0, h.C09Opt{Preset: 1}, "S+L"),
		e(2, 14, 0, h.C09Opt{Preset: 1}, "sig-length"),
	}
	p.Ents[4].SMode, p.Ents[4].Delta = 2, 3
	p.Ents[5].SMode, p.Ents[5].Delta = 2, -3
	p.Ents[8].SMode = 1
	p.Ents[9].Mut = 4
	return p
}

func c09FixedCases() []c09BatchCase {
	pool := c09FixedPool()
	var cases []c09BatchCase
	specials := [][]int{nil, {4, 5}, {6}, {7}, {8}, {9}}
	for _, n := range []int{1, 2, 93, 94, 95, 96, 249, 250, 251, 399, 400, 401} {
		for si, sp := range specials {
			for _, force := range []bool{false, true} {
				if force && n > 96 && si > 1 {
					continue // beyond 94 entries nothing is expanded anyway
				}
				if len(sp) > n {
					continue
				}
				c := c09BatchCase{Pool: pool}
				if force {
					c.Ops = append(c.Ops, c09Op{K: "force"})
				}
				good := n - len(sp)
				before := good / 2
				api := []int{4, 1, 3, 0, 5, 2}[(si+n)%6]
				if before > 0 {
					c.Ops = append(c.Ops, c09Op{K: "add", API: api, Span: pool.ND, Start: n, Stride: 1, Count: before})
				}
				for _, idx := range sp {
					c.Ops = append(c.Ops, c09Op{K: "add", API: 1 + 2*(n&1), Lo: idx, Span: 1, Stride: 1, Count: 1})
				}
				if good-before > 0 {
					c.Ops = append(c.Ops, c09Op{K: "add", API: api, Span: pool.ND, Start: n + 1, Stride: 3, Count: good - before})
				}
				ent := h.C09Entropy{Kind: (n + si) % 5, Seed: uint64(n*31 + si), Chunk: []int{0, 7, 32}[n%3]}
				c.Ops = append(c.Ops, c09Op{K: "verify", Ent: ent}, c09Op{K: "batchonly", Ent: ent}, c09Op{K: "verify", Ent: h.C09Entropy{Kind: 2, Seed: 1}},
					c09Op{K: "reset"},
					c09Op{K: "add", API: api, Span: pool.ND, Start: 1, Stride: 1, Count: 3},
					c09Op{K: "batchonly", Ent: ent}, c09Op{K: "verify", Ent: ent})
				cases = append(cases, c)
			}
		}
	}
	return cases
}

func TestC09BatchSizes(t *testing.T) { h.RunList(t, c09FixedCases(), c09CheckBatch) }
