//go:build verif

package ed25519_test

import (
	"testing"

	h "verifh"
)

// Coverage-guided variant of the verification predicate property (thorough
// tier).  The challenge k is a hash output, so coverage cannot steer the
// equation itself; what it does steer is the admission logic (lengths,
// encodings, flags, variants) through the structured generator's choices.
func FuzzC01Verify(f *testing.F) { h.Fuzz(f, h.GenEdCase, c01Check) }
