//go:build verif

package ed25519_test

// C09 — verification with a precomputed (expanded) public key returns the same
// decision as plain verification of the same inputs, under any history of
// verifications that share the ExpandedPublicKey objects (their isSmallOrder /
// isCanonical flags are computed once at expansion and reused under every
// option set).  NewExpandedPublicKey succeeds exactly for 32-byte strings that
// decode to a curve point (reference decoder), and CompressedY returns the
// bytes as given.  Selected steps are additionally decided by the math/big
// reference predicate, which ties the "single verification" oracle of the
// batch and cache checks to an independent implementation.

import (
	"bytes"
	"fmt"
	"testing"

	"github.com/oasisprotocol/curve25519-voi/primitives/ed25519"
	"pgregory.net/rapid"
	h "verifh"
	ref "verifref"
)

type c09ExpStep struct {
	Ent int  `json:"ent"`
	Own bool `json:"own"` // entry's own options (VerifyExpandedWithOptions) or the default API (VerifyExpanded)
	Ref bool `json:"ref"` // also decide by the reference predicate
}

type c09ExpCase struct {
	Pool  h.C09Pool    `json:"pool"`
	Steps []c09ExpStep `json:"steps"`
}

func c09CheckExpanded(c c09ExpCase) h.Result {
	r := h.NewR()
	env := c09NewEnv(&c.Pool)
	nt := false
	checkedKey := map[int]bool{}
	for si, st := range c.Steps {
		if st.Ent < 0 || st.Ent >= len(c.Pool.Ents) {
			continue
		}
		ent := c.Pool.Ents[st.Ent]
		b := env.get(st.Ent)
		key := c.Pool.Keys[ent.Key]
		xk := env.expanded(ent.Key)
		if !checkedKey[ent.Key] {
			checkedKey[ent.Key] = true
			r.Eval(1)
			wantOK := len(b.PK) == 32 && ref.Decode(b.PK).OK
			if (xk != nil) != wantOK {
				return r.Fail("NewExpandedPublicKey:wrong-decision", "key %x: expanded=%v reference decodable=%v", b.PK, xk != nil, wantOK).Result()
			}
			if xk != nil {
				cy := xk.CompressedY()
				if !bytes.Equal(cy[:], b.PK) {
					return r.Fail("ExpandedPublicKey.CompressedY:differs-from-input", "key %x got %x", b.PK, cy[:]).Result()
				}
			}
		}
		plainOK, plainPanic := env.expected(st.Ent, st.Own)
		r.Class("entry:"+c09Major(ent.Cls)+"/"+c09Verdict(plainOK), "key:"+key.Kind, fmt.Sprintf("own-options:%v", st.Own))
		if plainPanic {
			r.Class("plain-panics")
		}
		if !plainOK || key.Kind != "honest" || ent.I != 0 {
			nt = true
		}
		if xk == nil {
			// no expanded form exists: plain verification cannot accept either
			r.Eval(1)
			if plainOK {
				return r.Fail("VerifyWithOptions:accepts-undecodable-key", "step %d key %x", si, b.PK).Result()
			}
			continue
		}
		var expOK bool
		msg, sig := c09Copy(b.Msg), c09Copy(b.Sig)
		expPanic, pv := h.Catch(func() {
			if st.Own {
				expOK = ed25519.VerifyExpandedWithOptions(xk, msg, sig, c09Options(b.Opt))
			} else {
				expOK = ed25519.VerifyExpanded(xk, msg, sig)
			}
		})
		r.Eval(1)
		if expPanic != plainPanic {
			return r.Fail("VerifyExpandedWithOptions:panic-differs-from-plain", "step %d entry %d (%s): expanded panic=%v (%v) plain panic=%v",
				si, st.Ent, ent.Cls, expPanic, pv, plainPanic).Result()
		}
		if !expPanic && expOK != plainOK {
			return r.Fail("VerifyExpandedWithOptions:differs-from-plain", "step %d entry %d (%s) own=%v: expanded %v plain %v pk=%x msg=%x sig=%x opt=%+v",
				si, st.Ent, ent.Cls, st.Own, expOK, plainOK, b.PK, b.Msg, b.Sig, b.Opt).Result()
		}
		if !bytes.Equal(msg, b.Msg) || !bytes.Equal(sig, b.Sig) {
			return r.Fail("VerifyExpandedWithOptions:input-modified", "step %d", si).Result()
		}
		if st.Ref {
			o := b.Opt
			if !st.Own {
				o = h.C09Opt{Preset: 1}
			}
			legal := o.Legal(len(b.Msg))
			r.Eval(1)
			// (that illegal options panic is C01's business; here: legal options
			// never panic, illegal ones never accept)
			if legal && plainPanic {
				return r.Fail("VerifyWithOptions:panic-on-legal-input", "step %d entry %d (%s)", si, st.Ent, ent.Cls).Result()
			}
			if !legal && plainOK {
				return r.Fail("VerifyWithOptions:accepts-under-illegal-options", "step %d entry %d (%s)", si, st.Ent, ent.Cls).Result()
			}
			if legal {
				want := ref.EdVerifyFlags(o.RefFlags(), o.Variant(), []byte(o.Ctx), b.PK, b.Msg, b.Sig)
				if want != plainOK {
					return r.Fail("VerifyWithOptions:differs-from-reference", "step %d entry %d (%s): library %v reference %v pk=%x msg=%x sig=%x opt=%+v",
						si, st.Ent, ent.Cls, plainOK, want, b.PK, b.Msg, b.Sig, b.Opt).Result()
				}
			}
		}
	}
	return r.NT(nt).Result()
}

func c09GenExpanded(t *rapid.T) c09ExpCase {
	kinds := []string{"small", "small-nc", "undecodable", "wronglen", "ncbig", "mixed"}
	var pre []string
	for i, n := 0, rapid.IntRange(0, 3).Draw(t, "prekeys"); i < n; i++ {
		pre = append(pre, rapid.SampledFrom(kinds).Draw(t, "prekind"))
	}
	pool, _ := h.C09GenPool(t, h.C09PoolCfg{ND: rapid.IntRange(1, 3).Draw(t, "nd"), NO: rapid.IntRange(0, 3).Draw(t, "no"),
		NSpec: rapid.IntRange(2, 7).Draw(t, "nspec"), MaxKeys: rapid.IntRange(3, 8).Draw(t, "maxkeys"), Kinds: pre})
	c := c09ExpCase{Pool: pool}
	n := rapid.IntRange(3, 16).Draw(t, "steps")
	for i := 0; i < n; i++ {
		c.Steps = append(c.Steps, c09ExpStep{Ent: rapid.IntRange(0, len(pool.Ents)-1).Draw(t, "ent"),
			Own: rapid.IntRange(0, 4).Draw(t, "own") != 0, Ref: i < 1})
	}
	return c
}

func TestC09Expanded(t *testing.T) { h.Run(t, c09GenExpanded, c09CheckExpanded) }
