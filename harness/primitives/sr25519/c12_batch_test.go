//go:build verif

package sr25519_test

// C12 (d) — batch results equal single results for every batch history over
// {Add, Reset, Verify, VerifyBatchOnly}.
//
// Model: the list of entries added since the last Reset, each with
// expected_i := PublicKey.Verify on the same objects, which must itself equal
// the schnorrkel reference verdict for the entry (zero-value / reset objects:
// false).
//
//	Verify          == (n > 0 && AND expected, expected)   and (false, empty) for n = 0
//	VerifyBatchOnly == n > 0 && AND expected
//
// (batch_verify.go: "returning true if all entries are valid and false if any
// one entry is invalid"; "Abort early on an empty batch"; Verify: "the
// returned bit-vector will provide information about each individual entry".)
// Pool entries are signed by the reference; invalid ones include cancelling
// pairs (s+d, s-d), which satisfy the sum of the verification equations and
// are only caught by the random delinearisation coefficients.

import (
	"fmt"
	"testing"

	"github.com/oasisprotocol/curve25519-voi/primitives/sr25519"
	h "verifh"
)

type c12PoolObj struct {
	pk  *sr25519.PublicKey
	st  *sr25519.SigningTranscript
	sig *sr25519.Signature
	exp bool
	dec bool // sig is a decoded signature (not the reset object a failed decode leaves behind)
}

func c12CheckBatch(c h.C12BatchCase) h.Result {
	r := h.NewR()
	pool := make([]c12PoolObj, len(c.Pool))
	anyBad := false
	ctxs := c12Ctxs{}
	for i, e := range c.Pool {
		b := e.Build()
		exp := b.Expect()
		kind := "honest"
		if e.Mut != nil {
			kind = e.Mut.Kind
		}
		r.Class("entry:" + kind)
		pk, sig, ok := c12Objects(r, b)
		if !ok {
			return r.Result()
		}
		decoded := sig != nil
		if sig == nil {
			// The altered signature does not decode: what a caller can still
			// hand to Add is the object the failed decode left behind.
			sig = new(sr25519.Signature)
			_ = sig.UnmarshalBinary(b.Honest.Bytes)
			if err := sig.UnmarshalBinary(b.Sig); err == nil {
				return r.Fail("sr25519.Signature.UnmarshalBinary:wrong-decision", "sig=%x accepted on the second attempt", b.Sig).Result()
			}
			r.Class("entry:undecodable->reset-object")
		}
		st := ctxs.transcript(b.M)
		r.Eval(1)
		single := pk.Verify(st, sig)
		if single != exp {
			return r.Fail("sr25519.PublicKey.Verify:differs-from-reference", "entry %d (%s): got %v want %v; pub=%x m=%v sig=%x", i, kind, single, exp, b.Pub, b.M, b.Sig).Result()
		}
		if !exp {
			anyBad = true
		}
		pool[i] = c12PoolObj{pk, st, sig, exp, decoded}
	}

	var v *sr25519.BatchVerifier
	if c.Cap < 0 {
		v = sr25519.NewBatchVerifier()
	} else {
		v = sr25519.NewBatchVerifierWithCapacity(c.Cap)
	}
	var model []bool
	maxN, resets, verifies, pairs, hadBad := 0, 0, 0, 0, false
	and := func() bool {
		all := len(model) > 0
		for _, m := range model {
			all = all && m
		}
		return all
	}
	nadd := 0
	add := func(i int) {
		p := pool[i]
		nadd++
		// Every other Add hands over temporary key / signature OBJECTS that the
		// caller re-uses for a different key / signature as soon as Add has
		// returned: an entry is what was added, not what the objects hold later.
		sb, serr := p.sig.MarshalBinary()
		pb, perr := p.pk.MarshalBinary()
		tsig, tpk := new(sr25519.Signature), new(sr25519.PublicKey)
		_, pkInit := sr25519.C12PKState(p.pk)
		_, sigS := sr25519.C12SigState(p.sig)
		if nadd%2 == 0 && p.dec && pkInit && sigS != nil && serr == nil && perr == nil && tsig.UnmarshalBinary(sb) == nil && tpk.UnmarshalBinary(pb) == nil {
			v.Add(tpk, p.st, tsig)
			other := pool[(i+1)%len(pool)]
			if ob, err := other.sig.MarshalBinary(); err == nil {
				_ = tsig.UnmarshalBinary(ob)
			}
			if ob, err := other.pk.MarshalBinary(); err == nil {
				_ = tpk.UnmarshalBinary(ob)
			}
		} else {
			v.Add(p.pk, p.st, p.sig)
		}
		model = append(model, p.exp)
		if !p.exp {
			hadBad = true
		}
	}
	for step, op := range c.Ops {
		switch op.Op {
		case "add":
			for k := 0; k < op.N; k++ {
				add(op.I)
			}
		case "addpair":
			add(op.I)
			add(op.I + 1)
			pairs++
		case "reset":
			if ret := v.Reset(); ret != v {
				return r.Fail("sr25519.BatchVerifier.Reset:wrong-return", "step %d", step).Result()
			}
			model = model[:0]
			resets++
		case "verify":
			r.Eval(1)
			verifies++
			ok, valid := v.Verify(op.Ent.Reader())
			if ok != and() || len(valid) != len(model) || fmt.Sprint(valid) != fmt.Sprint(model) && len(model) > 0 {
				return r.Fail("sr25519.BatchVerifier.Verify:differs-from-single", "step %d: got (%v,%v) want (%v,%v)", step, ok, valid, and(), model).Result()
			}
		case "batchonly":
			r.Eval(1)
			verifies++
			if got := v.VerifyBatchOnly(op.Ent.Reader()); got != and() {
				return r.Fail("sr25519.BatchVerifier.VerifyBatchOnly:differs-from-single", "step %d: got %v want %v (model %v)", step, got, and(), model).Result()
			}
		default:
			panic("c12: op " + op.Op)
		}
		if len(model) > maxN {
			maxN = len(model)
		}
		if n, _ := sr25519.C12BatchState(v); n != len(model) {
			return r.Fail("sr25519.BatchVerifier:entry-count", "step %d (%s): %d entries, model has %d", step, op.Op, n, len(model)).Result()
		}
	}
	switch {
	case maxN == 0:
		r.Class("size:0")
	case maxN == 1:
		r.Class("size:1")
	case maxN < 16:
		r.Class("size:2-15")
	case maxN < 93:
		r.Class("size:16-92")
	case maxN <= 97:
		r.Class("size:93-97")
	default:
		r.Class("size:98-200")
	}
	if resets > 0 {
		r.Class("with-reset")
	}
	if pairs > 0 {
		r.Class("with-cancelling-pair")
	}
	_ = verifies
	if hadBad {
		r.Class("batch-with-invalid")
	} else if anyBad {
		r.Class("invalid-in-pool-only")
	}
	// non-trivial: a batch that contained an invalid entry, or was reused after Reset, or the empty batch
	r.NT(hadBad || resets > 0 || maxN == 0)
	return r.Result()
}

func TestC12Batch(t *testing.T) { h.Run(t, h.C12GenBatchCase, c12CheckBatch) }
