//go:build verif

package sr25519_test

// C12 — key GENERATION and the default entropy source.
//
// (1) GenerateMiniSecretKey / GenerateSecretKey / GenerateKeyPair on generated
// entropy streams equal schnorrkel's MiniSecretKey::generate_with (32 bytes
// as they come) and SecretKey::generate_with (64 bytes reduced mod L as a
// little-endian integer, then a 32-byte nonce), for every chunking of the
// reader incl. data delivered together with io.EOF; a stream that is one byte
// short gives an error and no key.  The generated key pair then signs, and
// the signature is the reference's.
//
// (2) rng == nil: "crypto/rand.Reader will be used" - metamorphic: two calls
// give different, valid results (values come from the operating system and
// are not a function of the seed; the assertions hold for all values except
// with probability ~2^-125).

import (
	"bytes"
	"io"
	"testing"

	"github.com/oasisprotocol/curve25519-voi/primitives/sr25519"
	"pgregory.net/rapid"
	h "verifh"
	ref "verifref"
)

type c12KeyGenCase struct {
	Stream h.Hex // 96 bytes
	Chunk  int
	EOF    bool
	Short  int // > 0: the stream is cut that many bytes short
	Ent    h.C12Entropy
	Msg    h.Hex
}

func c12GenKeyGen(t *rapid.T) c12KeyGenCase {
	c := c12KeyGenCase{Chunk: rapid.SampledFrom([]int{0, 0, 1, 7, 31, 32, 33, 63, 64, 65, 95}).Draw(t, "chunk"),
		EOF: rapid.Bool().Draw(t, "eof"), Ent: h.C12GenEntropy(t, "ent"), Msg: h.UniformBytes(t, rapid.IntRange(0, 40).Draw(t, "ml"), "msg")}
	switch rapid.IntRange(0, 5).Draw(t, "kind") {
	case 0: // the wide reduction's interesting inputs: all ones, multiples of L nearby
		c.Stream = bytes.Repeat([]byte{0xff}, 96)
	case 1:
		c.Stream = make([]byte, 96)
		copy(c.Stream, ref.ToLE(ref.L, 32)) // exactly L -> key 0
	case 2:
		c.Stream = make([]byte, 96)
		c.Stream[63] = 0x80 // 2^511
	default:
		c.Stream = h.UniformBytes(t, 96, "stream")
	}
	if rapid.IntRange(0, 7).Draw(t, "short") == 0 {
		c.Short = rapid.SampledFrom([]int{1, 1, 32, 33, 64, 95, 96}).Draw(t, "shortby")
	}
	return c
}

func c12CheckKeyGen(c c12KeyGenCase) h.Result {
	r := h.NewR().NT(true)
	if len(c.Stream) != 96 {
		return r.Class("malformed-case").Result()
	}
	rd := func(n int) io.Reader {
		return h.C12Entropy{Bytes: c.Stream[:n], Chunk: c.Chunk, EOFData: c.EOF}.Reader()
	}
	// mini secret key: 32 bytes as they come
	r.Eval(1)
	if c.Short > 0 && c.Short <= 32 {
		r.Class("short-stream")
		if m, err := sr25519.GenerateMiniSecretKey(rd(32 - c.Short)); err == nil || m != nil {
			r.Fail("sr25519.GenerateMiniSecretKey:key-from-short-entropy", "%d bytes", 32-c.Short)
		}
	} else {
		m, err := sr25519.GenerateMiniSecretKey(rd(32))
		if err != nil || m == nil || !bytes.Equal(m[:], c.Stream[:32]) {
			r.Fail("sr25519.GenerateMiniSecretKey:not-schnorrkel", "stream=%x err=%v", []byte(c.Stream[:32]), err)
		}
	}
	// secret key: 64 bytes reduced, 32 bytes nonce
	want := ref.SrSecret{Key: ref.SMod(ref.FromLE(c.Stream[:64])), Nonce: append([]byte(nil), c.Stream[64:96]...)}
	if c.Short > 0 {
		r.Class("short-stream").Eval(2)
		if sk, err := sr25519.GenerateSecretKey(rd(96 - c.Short)); err == nil || sk != nil {
			r.Fail("sr25519.GenerateSecretKey:key-from-short-entropy", "%d bytes", 96-c.Short)
		}
		if kp, err := sr25519.GenerateKeyPair(rd(96 - c.Short)); err == nil || kp != nil {
			r.Fail("sr25519.GenerateKeyPair:key-from-short-entropy", "%d bytes", 96-c.Short)
		}
		return r.Result()
	}
	r.Eval(4)
	sk, err := sr25519.GenerateSecretKey(rd(96))
	if err != nil || sk == nil {
		return r.Fail("sr25519.GenerateSecretKey:error", "chunk=%d eof=%v err=%v", c.Chunk, c.EOF, err).Result()
	}
	if got, w := c12MustMarshal(sk), want.Bytes(); !bytes.Equal(got, w) {
		return r.Fail("sr25519.GenerateSecretKey:not-schnorrkel", "stream=%x got=%x want=%x", []byte(c.Stream), got, w).Result()
	}
	kp, err := sr25519.GenerateKeyPair(rd(96))
	if err != nil || kp == nil {
		return r.Fail("sr25519.GenerateKeyPair:error", "chunk=%d eof=%v err=%v", c.Chunk, c.EOF, err).Result()
	}
	pub := want.PublicKey()
	if got, w := c12MustMarshal(kp), append(want.Bytes(), pub...); !bytes.Equal(got, w) {
		return r.Fail("sr25519.GenerateKeyPair:not-schnorrkel", "stream=%x got=%x want=%x", []byte(c.Stream), got, w).Result()
	}
	// the generated pair signs like the reference
	sc := sr25519.NewSigningContext([]byte("c12-keygen"))
	sig, err := kp.Sign(c.Ent.Reader(), sc.NewTranscriptBytes(c.Msg))
	if err != nil || sig == nil {
		return r.Fail("sr25519.KeyPair.Sign:error", "generated key; err=%v", err).Result()
	}
	ws := ref.SrSign(want, pub, ref.SrTranscript([]byte("c12-keygen"), ref.SrLabelBytes, c.Msg), c.Ent.Bytes)
	if got := c12MustMarshal(sig); !bytes.Equal(got, ws.Bytes) {
		r.Fail("sr25519.KeyPair.Sign:not-schnorrkel", "generated key %x: got=%x want=%x", want.Bytes(), got, ws.Bytes)
	}
	if want.Key.Sign() != 0 && !kp.PublicKey().Verify(sc.NewTranscriptBytes(c.Msg), sig) {
		r.Fail("sr25519.PublicKey.Verify:rejected-own-signature", "generated key %x", want.Bytes())
	}
	return r.Result()
}

func TestC12KeyGen(t *testing.T) { h.Run(t, c12GenKeyGen, c12CheckKeyGen) }

type c12NilCase struct{ V int }

func c12CheckNil(c c12NilCase) h.Result {
	r := h.NewR().NT(true).Class([]string{"Generate*(nil)", "KeyPair.Sign(nil)", "BatchVerifier.Verify(nil)"}[c.V])
	ctx := []byte("c12-nil")
	sc := sr25519.NewSigningContext(ctx)
	msg := []byte("nil entropy")
	switch c.V {
	case 0:
		r.Eval(4)
		m1, e1 := sr25519.GenerateMiniSecretKey(nil)
		m2, e2 := sr25519.GenerateMiniSecretKey(nil)
		if e1 != nil || e2 != nil || m1 == nil || m2 == nil || bytes.Equal(m1[:], m2[:]) || bytes.Equal(m1[:], make([]byte, 32)) {
			r.Fail("sr25519.GenerateMiniSecretKey(nil):not-random", "%v %v", e1, e2)
		}
		s1, e1 := sr25519.GenerateSecretKey(nil)
		s2, e2 := sr25519.GenerateSecretKey(nil)
		if e1 != nil || e2 != nil || s1 == nil || s2 == nil {
			return r.Fail("sr25519.GenerateSecretKey(nil):error", "%v %v", e1, e2).Result()
		}
		b1, b2 := c12MustMarshal(s1), c12MustMarshal(s2)
		if bytes.Equal(b1[:32], b2[:32]) || bytes.Equal(b1[32:], b2[32:]) || bytes.Equal(b1, make([]byte, 64)) {
			r.Fail("sr25519.GenerateSecretKey(nil):not-random", "%x %x", b1, b2)
		}
		for _, b := range [][]byte{b1, b2} {
			if ref.FromLE(b[:32]).Cmp(ref.L) >= 0 {
				r.Fail("sr25519.GenerateSecretKey(nil):key-not-canonical", "%x", b[:32])
			}
		}
		kp, err := sr25519.GenerateKeyPair(nil)
		if err != nil || kp == nil {
			return r.Fail("sr25519.GenerateKeyPair(nil):error", "%v", err).Result()
		}
		kb := c12MustMarshal(kp)
		rs, ok := ref.SrSecretFromBytes(kb[:64])
		if !ok || !bytes.Equal(kb[64:], rs.PublicKey()) {
			r.Fail("sr25519.GenerateKeyPair(nil):inconsistent-pair", "%x", kb)
		}
	case 1:
		r.Eval(4)
		sk := ref.SrExpandUniform(h.Expand(0xc12, 32))
		lsk, err := sr25519.NewSecretKeyFromBytes(sk.Bytes())
		if err != nil {
			panic(err)
		}
		kp := lsk.KeyPair()
		g1, e1 := kp.Sign(nil, sc.NewTranscriptBytes(msg))
		g2, e2 := kp.Sign(nil, sc.NewTranscriptBytes(msg))
		if e1 != nil || e2 != nil || g1 == nil || g2 == nil {
			return r.Fail("sr25519.KeyPair.Sign(nil):error", "%v %v", e1, e2).Result()
		}
		b1, b2 := c12MustMarshal(g1), c12MustMarshal(g2)
		zero := ref.SrSign(sk, sk.PublicKey(), ref.SrTranscript(ctx, ref.SrLabelBytes, msg), make([]byte, 32))
		if bytes.Equal(b1[:32], b2[:32]) || bytes.Equal(b1, zero.Bytes) || bytes.Equal(b2, zero.Bytes) {
			r.Fail("sr25519.KeyPair.Sign(nil):not-random", "R1=%x R2=%x (zero-entropy R=%x)", b1[:32], b2[:32], zero.Bytes[:32])
		}
		for _, b := range [][]byte{b1, b2} {
			if !ref.SrVerify(sk.PublicKey(), ref.SrTranscript(ctx, ref.SrLabelBytes, msg), b) {
				r.Fail("sr25519.KeyPair.Sign(nil):invalid-signature", "%x", b)
			}
		}
	case 2:
		r.Eval(4)
		for _, spoil := range []bool{false, true} {
			bv := sr25519.NewBatchVerifier()
			var want []bool
			for i := 0; i < 4; i++ {
				sk := ref.SrExpandUniform(h.Expand(uint64(0xd00+i), 32))
				lsk, err := sr25519.NewSecretKeyFromBytes(sk.Bytes())
				if err != nil {
					panic(err)
				}
				kp := lsk.KeyPair()
				m := h.Expand(uint64(0xe00+i), 5+i)
				sig, err := kp.Sign(h.C12Entropy{Bytes: h.Expand(uint64(0xf00+i), 32)}.Reader(), sc.NewTranscriptBytes(m))
				if err != nil {
					panic(err)
				}
				ok := true
				if spoil && i == 2 {
					m = append(m, 7)
					ok = false
				}
				bv.Add(kp.PublicKey(), sc.NewTranscriptBytes(m), sig)
				want = append(want, ok)
			}
			if got := bv.VerifyBatchOnly(nil); got != !spoil {
				r.Fail("sr25519.BatchVerifier.VerifyBatchOnly(nil):wrong-decision", "spoiled=%v got=%v", spoil, got)
			}
			all, each := bv.Verify(nil)
			if all != !spoil || len(each) != len(want) {
				r.Fail("sr25519.BatchVerifier.Verify(nil):wrong-summary", "spoiled=%v all=%v each=%v", spoil, all, each)
				continue
			}
			for i := range want {
				if each[i] != want[i] {
					r.Fail("sr25519.BatchVerifier.Verify(nil):wrong-entry", "spoiled=%v entry %d", spoil, i)
				}
			}
		}
	}
	return r.Result()
}

func TestC12NilEntropy(t *testing.T) {
	h.RunList(t, []c12NilCase{{0}, {1}, {2}}, c12CheckNil)
}
