//go:build verif

package sr25519

// C12 — in-package observers for the external C12 harness (package
// sr25519_test): the unexported state that the property speaks about (the
// "reset state" of Signature / PublicKey / KeyPair after a failed decode, the
// challenge scalar, the batch verifier's bookkeeping).  Read-only.

// C12Challenge is the verification challenge scalar k for (pk, transcript, sig).
func C12Challenge(pk *PublicKey, st *SigningTranscript, sig *Signature) []byte {
	k := deriveVerifyChallengeScalar(pk, st, sig)
	out := make([]byte, 32)
	if err := k.ToBytes(out); err != nil {
		panic(err)
	}
	return out
}

// C12SigState returns the compressed R and the scalar (nil if unset).
func C12SigState(sig *Signature) (r []byte, s []byte) {
	r = append([]byte(nil), sig.rCompressed[:]...)
	if sig.s != nil {
		s = make([]byte, 32)
		if err := sig.s.ToBytes(s); err != nil {
			panic(err)
		}
	}
	return r, s
}

// C12PKState returns the compressed form and whether the decompressed point is set.
func C12PKState(pk *PublicKey) (compressed []byte, hasPoint bool) {
	return append([]byte(nil), pk.compressed[:]...), pk.point != nil
}

// C12PKConsistent reports whether the decompressed point re-compresses to the stored bytes.
func C12PKConsistent(pk *PublicKey) bool {
	if pk.point == nil {
		return false
	}
	var c [32]byte
	b, err := pk.point.MarshalBinary()
	if err != nil {
		return false
	}
	copy(c[:], b)
	return c == pk.compressed
}

// C12KPState reports which halves of a key pair are set.
func C12KPState(kp *KeyPair) (hasSK, hasPK bool) { return kp.sk != nil, kp.pk != nil }

// C12SKState returns the scalar (nil if unset) and the nonce.
func C12SKState(sk *SecretKey) (key []byte, nonce []byte) {
	if sk.key != nil {
		key = make([]byte, 32)
		if err := sk.key.ToBytes(key); err != nil {
			panic(err)
		}
	}
	return key, append([]byte(nil), sk.nonce[:]...)
}

// C12BatchState returns the number of entries and the any-invalid flag.
func C12BatchState(v *BatchVerifier) (n int, anyInvalid bool) { return len(v.entries), v.anyInvalid }
