//go:build verif

package sr25519_test

// C12 (a)(b)(c) — key derivation, signing and the verification challenge are
// byte-exact schnorrkel; an honest signature verifies singly and in a batch;
// any alteration of context, message, source, public key or signature is
// rejected exactly when the schnorrkel reference rejects it.
//
// Oracle: verifref.Sr* (written from the schnorrkel definition over the
// reference Merlin/STROBE/Keccak and the RFC 9496 reference; validated
// against the in-tree schnorrkel vectors by verifref's own tests).  Prehashes
// are computed with stdlib / x/crypto one-shot functions.

import (
	"bytes"
	"crypto/sha256"
	"crypto/sha512"
	"fmt"
	"hash"
	"strings"
	"testing"

	"github.com/oasisprotocol/curve25519-voi/primitives/sr25519"
	"golang.org/x/crypto/blake2b"
	"golang.org/x/crypto/sha3"
	"pgregory.net/rapid"
	h "verifh"
	ref "verifref"
)

// c12LibSecret obtains the library secret key for a key description through
// the API the description names.
func c12LibSecret(k h.C12Key) (*sr25519.SecretKey, error) {
	switch k.Kind {
	case "uniform", "ed25519":
		msk, err := sr25519.NewMiniSecretKeyFromBytes(k.Data)
		if err != nil {
			return nil, err
		}
		if k.Kind == "uniform" {
			return msk.ExpandUniform(), nil
		}
		return msk.ExpandEd25519(), nil
	case "raw":
		return sr25519.NewSecretKeyFromBytes(k.Data)
	case "edbytes":
		return sr25519.NewSecretKeyFromEd25519Bytes(k.Data)
	}
	panic("c12: key kind " + k.Kind)
}

func c12WriteSplit(w interface{ Write([]byte) (int, error) }, msg []byte) {
	// two writes: the hash object is handed over mid-stream, as a caller would
	n := len(msg) / 3
	_, _ = w.Write(msg[:n])
	_, _ = w.Write(msg[n:])
}

// c12Ctxs shares SigningContext objects between the transcripts of one case:
// a context is documented as reusable ("initializes a new signing transcript"
// each time), so deriving several transcripts from one context object must
// give the same result as deriving each from a fresh one.
type c12Ctxs map[string]*sr25519.SigningContext

func (cs c12Ctxs) transcript(m h.C12Msg) *sr25519.SigningTranscript {
	sc := cs[string(m.Ctx)]
	if sc == nil {
		sc = sr25519.NewSigningContext(m.Ctx)
		cs[string(m.Ctx)] = sc
	}
	return c12TranscriptIn(sc, m)
}

// c12LibTranscript builds the library transcript for a (context, message,
// source) triple from a fresh context.
func c12LibTranscript(m h.C12Msg) *sr25519.SigningTranscript {
	return c12TranscriptIn(sr25519.NewSigningContext(m.Ctx), m)
}

// c12TranscriptIn builds the transcript through the constructor the source names.
func c12TranscriptIn(sc *sr25519.SigningContext, m h.C12Msg) *sr25519.SigningTranscript {
	var hs hash.Hash
	switch m.Src {
	case "bytes":
		return sc.NewTranscriptBytes(m.Msg)
	case "sha256":
		hs = sha256.New()
	case "sha512/256":
		hs = sha512.New512_256()
	case "sha512":
		hs = sha512.New()
	case "blake2b-256":
		hs, _ = blake2b.New256(nil)
	case "blake2b-512":
		hs, _ = blake2b.New512(nil)
	case "shake128", "shake256":
		x := sha3.NewShake128()
		if m.Src == "shake256" {
			x = sha3.NewShake256()
		}
		c12WriteSplit(x, m.Msg)
		return sc.NewTranscriptXOF(x)
	default:
		panic("c12: source " + m.Src)
	}
	c12WriteSplit(hs, m.Msg)
	return sc.NewTranscriptHash(hs)
}

func c12MustMarshal(m interface{ MarshalBinary() ([]byte, error) }) []byte {
	b, err := m.MarshalBinary()
	if err != nil {
		panic(fmt.Sprintf("c12: MarshalBinary: %v", err))
	}
	return b
}

// c12Objects materialises what Build produced as library objects.  sigOK /
// pkOK report whether decoding succeeded; for the zero/failed kinds the
// objects are in the state the kind names.
func c12Objects(r *h.R, b h.C12Built) (pk *sr25519.PublicKey, sig *sr25519.Signature, ok bool) {
	pk, sig = new(sr25519.PublicKey), new(sr25519.Signature)
	if !b.ZeroPK {
		if err := pk.UnmarshalBinary(b.Pub); err != nil {
			r.Fail("sr25519.PublicKey.UnmarshalBinary:rejected-valid-key", "pub=%x err=%v", b.Pub, err)
			return nil, nil, false
		}
	}
	if b.FailPK {
		if err := pk.UnmarshalBinary(b.Bad); err == nil {
			r.Fail("sr25519.PublicKey.UnmarshalBinary:accepted-invalid", "in=%x", b.Bad)
			return nil, nil, false
		}
	}
	if !b.ZeroSig {
		_, _, want := ref.SrSigDecode(b.Sig)
		err := sig.UnmarshalBinary(b.Sig)
		if (err == nil) != want {
			r.Fail("sr25519.Signature.UnmarshalBinary:wrong-decision", "sig=%x err=%v reference accepts=%v", b.Sig, err, want)
			return nil, nil, false
		}
		if err != nil {
			return pk, nil, true // not decodable: rejected at the decoder
		}
	}
	if b.FailSig {
		if err := sig.UnmarshalBinary(b.Bad); err == nil {
			r.Fail("sr25519.Signature.UnmarshalBinary:accepted-invalid", "in=%x", b.Bad)
			return nil, nil, false
		}
	}
	return pk, sig, true
}

func c12MutGroup(kind string) string {
	switch {
	case strings.HasPrefix(kind, "ctx-"):
		return "context"
	case strings.HasPrefix(kind, "msg-"):
		return "message"
	case strings.HasPrefix(kind, "src"):
		return "source"
	case strings.HasPrefix(kind, "pk-"), kind == "zero-pk", kind == "failed-pk":
		return "public-key"
	default:
		return "signature"
	}
}

type c12SignCase struct {
	E      h.C12Entry
	KeyCls string
	Muts   []h.C12Mut
	Plain  bool // also run the plain (table-free) reference on this case
	BatchE h.C09Entropy
}

func c12GenSign(t *rapid.T) c12SignCase {
	e, cls := h.C12GenEntry(t, "e")
	c := c12SignCase{E: e, KeyCls: cls, Plain: rapid.IntRange(0, 23).Draw(t, "plain") == 0, BatchE: h.C09GenEntropy(t, "be")}
	n := rapid.IntRange(0, 4).Draw(t, "nmut")
	for i := 0; i < n; i++ {
		c.Muts = append(c.Muts, h.C12GenMut(t, fmt.Sprintf("m%d", i), false))
	}
	return c
}

func c12CheckSign(c c12SignCase) h.Result {
	r := h.NewR().Class(c.KeyCls, "src:"+c.E.M.Src)
	r.NT(c.E.Key.Kind != "uniform" || c.E.M.Src != "bytes" || len(c.Muts) > 0)
	e := c.E
	e.Mut = nil
	hon := e.Build()
	if hon.Secret.Key.Sign() == 0 {
		r.Class("zero-key")
	}

	// (a) key derivation
	sk, err := c12LibSecret(e.Key)
	if err != nil {
		return r.Fail("sr25519.SecretKey:rejected-valid-"+e.Key.Kind, "key=%v err=%v", e.Key, err).Result()
	}
	r.Eval(3)
	if got, want := c12MustMarshal(sk), hon.Secret.Bytes(); !bytes.Equal(got, want) {
		return r.Fail("sr25519.SecretKey:"+e.Key.Kind+"-not-schnorrkel", "key=%v got=%x want=%x", e.Key, got, want).Result()
	}
	pk := sk.PublicKey()
	if got := c12MustMarshal(pk); !bytes.Equal(got, hon.Pub) {
		return r.Fail("sr25519.SecretKey.PublicKey:not-schnorrkel", "key=%v got=%x want=%x", e.Key, got, hon.Pub).Result()
	}
	kp := sk.KeyPair()
	if got, want := c12MustMarshal(kp), append(hon.Secret.Bytes(), hon.Pub...); !bytes.Equal(got, want) || !kp.PublicKey().Equal(pk) || !kp.SecretKey().Equal(sk) {
		return r.Fail("sr25519.SecretKey.KeyPair:inconsistent", "key=%v got=%x want=%x", e.Key, got, want).Result()
	}
	if c.Plain {
		r.Class("plain-crosscheck")
		if p := hon.Secret.PublicKey(); !bytes.Equal(p, hon.Pub) {
			return r.Fail("harness:oracle-fastpath-mismatch", "public key: plain %x fast %x", p, hon.Pub).Result()
		}
		if s := ref.SrSign(hon.Secret, hon.Pub, e.M.Transcript(), e.Ent.Bytes); !bytes.Equal(s.Bytes, hon.Sig) {
			return r.Fail("harness:oracle-fastpath-mismatch", "signature: plain %x fast %x", s.Bytes, hon.Sig).Result()
		}
		if !ref.SrVerify(hon.Pub, e.M.Transcript(), hon.Sig) {
			return r.Fail("harness:oracle-inconsistent", "plain reference rejects the reference signature %x", hon.Sig).Result()
		}
	}
	if !hon.Expect() {
		return r.Fail("harness:oracle-inconsistent", "reference rejects its own signature %x", hon.Sig).Result()
	}

	// (a) signature bytes under the same entropy; the transcript object is reusable
	ctxs := c12Ctxs{}
	st := ctxs.transcript(e.M)
	if len(e.Ent.Bytes) > 1 && e.Ent.Bytes[1]&1 == 1 {
		// a signing attempt whose entropy source dries up first: whatever it
		// returns, it must leave no trace in the key pair or the transcript (the
		// signatures below are still compared with the reference)
		r.Class("failed-sign-attempt-first")
		short := h.C12Entropy{Bytes: e.Ent.Bytes[:int(e.Ent.Bytes[1]>>1)%32], Chunk: e.Ent.Chunk, EOFData: e.Ent.EOFData}
		var (
			fsig *sr25519.Signature
			ferr error
		)
		if pn, v := h.Catch(func() { fsig, ferr = kp.Sign(short.Reader(), st) }); pn {
			return r.Fail("sr25519.KeyPair.Sign:panic-on-short-entropy", "%v", v).Result()
		}
		if ferr == nil || fsig != nil {
			return r.Fail("sr25519.KeyPair.Sign:signature-from-short-entropy", "entropy source held %d bytes; err=%v", len(short.Bytes), ferr).Result()
		}
	}
	sig, err := kp.Sign(e.Ent.Reader(), st)
	if err != nil || sig == nil {
		return r.Fail("sr25519.KeyPair.Sign:error", "err=%v", err).Result()
	}
	r.Eval(2)
	sigBytes := c12MustMarshal(sig)
	if !bytes.Equal(sigBytes, hon.Sig) {
		return r.Fail("sr25519.KeyPair.Sign:not-schnorrkel", "key=%v m=%v ent=%x got=%x want=%x", e.Key, e.M, []byte(e.Ent.Bytes), sigBytes, hon.Sig).Result()
	}
	if again, err := kp.Sign(e.Ent.Reader(), st); err != nil || !bytes.Equal(c12MustMarshal(again), hon.Sig) {
		return r.Fail("sr25519.KeyPair.Sign:transcript-consumed", "second signature on the same transcript object differs (err=%v)", err).Result()
	}
	// (a) challenge scalar
	r.Eval(1)
	if k := sr25519.C12Challenge(pk, st, sig); !bytes.Equal(k, ref.SEncode(hon.Honest.K)) {
		return r.Fail("sr25519.deriveVerifyChallengeScalar:not-schnorrkel", "got=%x want=%x", k, ref.SEncode(hon.Honest.K)).Result()
	}

	// (b) completeness: the objects at hand, and re-decoded ones on a fresh transcript
	r.Eval(2)
	if !pk.Verify(st, sig) {
		return r.Fail("sr25519.PublicKey.Verify:rejected-valid", "key=%v m=%v sig=%x", e.Key, e.M, sigBytes).Result()
	}
	pk2, sig2, ok := c12Objects(r, hon)
	if !ok {
		return r.Result()
	}
	if sig2 == nil || !pk2.Verify(ctxs.transcript(e.M), sig2) || !pk2.Verify(c12LibTranscript(e.M), sig2) || !pk2.Equal(pk) {
		return r.Fail("sr25519.PublicKey.Verify:rejected-valid", "after re-decoding; pub=%x m=%v sig=%x", hon.Pub, e.M, sigBytes).Result()
	}
	// in a batch of one
	r.Eval(2)
	v := sr25519.NewBatchVerifier()
	v.Add(pk2, st, sig2)
	if okb, valid := v.Verify(c.BatchE.Reader()); !okb || len(valid) != 1 || !valid[0] {
		return r.Fail("sr25519.BatchVerifier.Verify:rejected-valid", "batch of one: pub=%x m=%v sig=%x", hon.Pub, e.M, sigBytes).Result()
	}
	if !v.VerifyBatchOnly(c.BatchE.Reader()) {
		return r.Fail("sr25519.BatchVerifier.VerifyBatchOnly:rejected-valid", "batch of one: pub=%x m=%v sig=%x", hon.Pub, e.M, sigBytes).Result()
	}

	// (c) alterations
	want := []bool{true}
	for i := range c.Muts {
		m := c.Muts[i]
		e.Mut = &m
		b := e.Build()
		exp := b.Expect()
		grp := c12MutGroup(m.Kind)
		r.Class("mut:" + m.Kind)
		switch {
		case !b.Altered:
			r.Class("mut:no-change")
			if !exp {
				return r.Fail("harness:oracle-inconsistent", "unaltered triple rejected by the reference (%s)", m.Kind).Result()
			}
		case exp:
			// e.g. the zero key: A is the identity and the equation no longer depends on the transcript
			r.Class("mut:vacuous")
			if hon.Secret.Key.Sign() != 0 {
				return r.Fail("harness:oracle-inconsistent", "reference accepts an altered triple under a non-zero key (%s)", m.Kind).Result()
			}
		}
		mpk, msig, ok := c12Objects(r, b)
		if !ok {
			return r.Result()
		}
		r.Eval(1)
		if msig == nil { // rejected by the signature decoder, as the reference does
			r.Class("mut:undecodable")
			if exp {
				return r.Fail("harness:oracle-inconsistent", "reference accepts an undecodable signature").Result()
			}
			continue
		}
		mst := ctxs.transcript(b.M)
		got := mpk.Verify(mst, msig)
		if got != exp {
			if exp {
				return r.Fail("sr25519.PublicKey.Verify:rejected-valid", "mutation %s leaves the triple valid; pub=%x m=%v sig=%x", m.Kind, b.Pub, b.M, b.Sig).Result()
			}
			return r.Fail("sr25519.PublicKey.Verify:accepted-altered-"+grp, "mutation %+v; pub=%x m=%v sig=%x (honest pub=%x m=%v sig=%x)", m, b.Pub, b.M, b.Sig, hon.Pub, e.M, hon.Sig).Result()
		}
		r.Eval(1)
		if k, kw := sr25519.C12Challenge(mpk, mst, msig), ref.SEncode(ref.SrChallenge(b.M.Transcript(), b.Pub, b.Sig[:32])); !bytes.Equal(k, kw) {
			return r.Fail("sr25519.deriveVerifyChallengeScalar:not-schnorrkel", "mutation %s: got=%x want=%x", m.Kind, k, kw).Result()
		}
		if c.Plain && i == 0 {
			if p := ref.SrVerify(b.Pub, b.M.Transcript(), b.Sig); p != exp {
				return r.Fail("harness:oracle-fastpath-mismatch", "verify: plain %v fast %v (mutation %s)", p, exp, m.Kind).Result()
			}
		}
		v.Add(mpk, mst, msig)
		want = append(want, exp)
	}
	// (b)/(d) the honest entry together with the altered ones
	if len(want) > 1 {
		r.Eval(2)
		all := true
		for _, w := range want {
			all = all && w
		}
		okb, valid := v.Verify(c.BatchE.Reader())
		if okb != all || fmt.Sprint(valid) != fmt.Sprint(want) {
			return r.Fail("sr25519.BatchVerifier.Verify:differs-from-single", "got (%v,%v) want (%v,%v); muts=%+v", okb, valid, all, want, c.Muts).Result()
		}
		if got := v.VerifyBatchOnly(c.BatchE.Reader()); got != all {
			return r.Fail("sr25519.BatchVerifier.VerifyBatchOnly:differs-from-single", "got %v want %v; muts=%+v", got, all, c.Muts).Result()
		}
	}
	return r.Result()
}

func TestC12Sign(t *testing.T) { h.Run(t, c12GenSign, c12CheckSign) }

// ---------------------------------------------------------------- every signature bit

// TestC12SigBits: for a fixed set of honest signatures (one per key kind,
// sources rotating) every one of the 512 single-bit alterations of the
// signature is rejected (by the decoder or by Verify), exactly as the
// reference decides.
type c12BitsCase struct {
	E   h.C12Entry
	Bit int
}

func c12CheckBits(c c12BitsCase) h.Result {
	r := h.NewR().Class("key:"+c.E.Key.Kind, "src:"+c.E.M.Src).NT(true)
	e := c.E
	e.Mut = &h.C12Mut{Kind: "sig-flip", N: c.Bit}
	b := e.Build()
	exp := b.Expect()
	if exp {
		return r.Fail("harness:oracle-inconsistent", "reference accepts signature with bit %d flipped", c.Bit).Result()
	}
	pk, sig, ok := c12Objects(r, b)
	if !ok {
		return r.Result()
	}
	r.Eval(1)
	if sig == nil {
		return r.Class("undecodable").Result()
	}
	if pk.Verify(c12LibTranscript(b.M), sig) {
		r.Fail("sr25519.PublicKey.Verify:accepted-altered-signature", "bit %d; pub=%x m=%v sig=%x", c.Bit, b.Pub, b.M, b.Sig)
	}
	return r.Class("verify-false").Result()
}

func TestC12SigBits(t *testing.T) {
	ff := bytes.Repeat([]byte{0xff}, 32)
	edb := append(bytes.Repeat([]byte{0xa8}, 31), 0x68)
	edb = append(edb, bytes.Repeat([]byte{3}, 32)...)
	raw := append(ref.ToLE(ref.SSub(ref.L, ref.FromLE([]byte{1})), 32), make([]byte, 32)...)
	entries := []h.C12Entry{
		{Key: h.C12Key{Kind: "uniform", Data: make([]byte, 32)}, M: h.C12Msg{Ctx: []byte("substrate"), Msg: []byte("this is a message"), Src: "bytes"}},
		{Key: h.C12Key{Kind: "ed25519", Data: ff}, M: h.C12Msg{Ctx: nil, Msg: nil, Src: "sha512"}},
		{Key: h.C12Key{Kind: "raw", Data: raw}, M: h.C12Msg{Ctx: bytes.Repeat([]byte{7}, 166), Msg: bytes.Repeat([]byte{9}, 333), Src: "shake128"}},
		{Key: h.C12Key{Kind: "edbytes", Data: edb}, M: h.C12Msg{Ctx: []byte("c"), Msg: []byte("m"), Src: "blake2b-256"}},
	}
	var cases []c12BitsCase
	for i, e := range entries {
		e.Ent = h.C12Entropy{Bytes: bytes.Repeat([]byte{byte(i)}, 32)}
		for bit := 0; bit < 512; bit++ {
			cases = append(cases, c12BitsCase{E: e, Bit: bit})
		}
	}
	h.RunList(t, cases, c12CheckBits)
}
