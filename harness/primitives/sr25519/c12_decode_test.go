//go:build verif

package sr25519_test

// C12 (e) — canonical encodings.  For each decoder
//
//	Signature.UnmarshalBinary / NewSignatureFromBytes        64 bytes
//	PublicKey.UnmarshalBinary / NewPublicKeyFromBytes        32 bytes
//	SecretKey.UnmarshalBinary / NewSecretKeyFromBytes        64 bytes
//	KeyPair.UnmarshalBinary / NewKeyPairFromBytes            96 bytes
//	MiniSecretKey.UnmarshalBinary / NewMiniSecretKeyFromBytes 32 bytes
//	NewSecretKeyFromEd25519Bytes                              64 bytes
//
// accept <=> reference predicate (length; marker bit and s < L; valid canonical
// ristretto255 encoding; key < L; key*B == public half; clamped Ed25519
// scalar), Marshal(Unmarshal(b)) == b for every accepted b, and a failed
// decode leaves Signature / PublicKey / KeyPair in their reset state (as
// their UnmarshalBinary methods reset the receiver before parsing) and
// SecretKey / MiniSecretKey unchanged.  Every receiver starts out holding a
// valid value, so that "reset" and "unchanged" are observable.
//
// Signature.UnmarshalBinary deliberately does not decompress R ("Copy (but do
// not decompress) the point"): an undecodable R is accepted by the decoder
// and must make Verify return false.

import (
	"bytes"
	"math/big"
	"sync"
	"testing"

	"github.com/oasisprotocol/curve25519-voi/primitives/sr25519"
	h "verifh"
	ref "verifref"
)

// fixture: a valid key, transcript and signature, made by the reference
var (
	c12FixOnce sync.Once
	c12Fix     struct {
		entry h.C12Entry
		b     h.C12Built
		kp    []byte
	}
)

func c12Fixture() {
	c12FixOnce.Do(func() {
		c12Fix.entry = h.C12Entry{
			Key: h.C12Key{Kind: "uniform", Data: bytes.Repeat([]byte{0x11}, 32)},
			M:   h.C12Msg{Ctx: []byte("c12 fixture"), Msg: []byte("pre-state"), Src: "bytes"},
			Ent: h.C12Entropy{Bytes: bytes.Repeat([]byte{0x22}, 32)},
		}
		c12Fix.b = c12Fix.entry.Build()
		c12Fix.kp = append(c12Fix.b.Secret.Bytes(), c12Fix.b.Pub...)
	})
}

func c12Zero(b []byte) bool {
	for _, x := range b {
		if x != 0 {
			return false
		}
	}
	return true
}

func c12CheckDec(c h.C12DecCase) h.Result {
	r := h.NewR().Class(c.Dec+":"+c.Cls, "dec:"+c.Dec)
	in := append([]byte(nil), c.In...)
	c12DecInner(r, c, in) // records into r
	if !bytes.Equal(in, c.In) {
		r.Fail("sr25519."+c.Dec+"-decoder:input-modified", "in=%x", []byte(c.In))
	}
	return r.Result()
}

func c12DecInner(r *h.R, c h.C12DecCase, in []byte) h.Result {
	c12Fixture()
	fix := c12Fix.b
	verdict := func(accept bool) {
		if accept {
			r.Class(c.Dec + ":accept")
		} else {
			r.Class(c.Dec + ":reject").NT(true)
		}
	}
	fixST := c12LibTranscript(fix.M)

	switch c.Dec {
	case "sig":
		_, s, want := ref.SrSigDecode(in)
		verdict(want)
		sig := new(sr25519.Signature)
		if err := sig.UnmarshalBinary(fix.Sig); err != nil {
			return r.Fail("sr25519.Signature.UnmarshalBinary:rejected-valid", "fixture %x: %v", fix.Sig, err).Result()
		}
		r.Eval(3)
		err := sig.UnmarshalBinary(in)
		if (err == nil) != want {
			return r.Fail("sr25519.Signature.UnmarshalBinary:wrong-decision", "in=%x err=%v reference accepts=%v", in, err, want).Result()
		}
		n, nerr := sr25519.NewSignatureFromBytes(in)
		if (nerr == nil) != want || (n == nil) == want {
			return r.Fail("sr25519.NewSignatureFromBytes:wrong-decision", "in=%x err=%v nil=%v reference accepts=%v", in, nerr, n == nil, want).Result()
		}
		pk, perr := sr25519.NewPublicKeyFromBytes(fix.Pub)
		if perr != nil {
			return r.Fail("sr25519.PublicKey.UnmarshalBinary:rejected-valid-key", "fixture %x: %v", fix.Pub, perr).Result()
		}
		sr, ss := sr25519.C12SigState(sig)
		if want {
			if got := c12MustMarshal(sig); !bytes.Equal(got, in) {
				return r.Fail("sr25519.Signature.MarshalBinary:roundtrip", "in=%x out=%x", in, got).Result()
			}
			if got := c12MustMarshal(n); !bytes.Equal(got, in) {
				return r.Fail("sr25519.Signature.MarshalBinary:roundtrip", "NewSignatureFromBytes: in=%x out=%x", in, got).Result()
			}
			if !bytes.Equal(sr, in[:32]) || !bytes.Equal(ss, ref.ToLE(s, 32)) {
				return r.Fail("sr25519.Signature.UnmarshalBinary:wrong-state", "in=%x R=%x s=%x", in, sr, ss).Result()
			}
			// the decoded object verifies exactly as the reference says (R is only decoded here)
			exp := ref.SrVerifyKnownLog(fix.PubLog, fix.Pub, fix.M.Transcript(), in)
			if _, ok := ref.RistDecode(in[:32]); !ok {
				r.Class("sig:R-undecodable").NT(true)
				if exp {
					return r.Fail("harness:oracle-inconsistent", "reference accepts undecodable R %x", in[:32]).Result()
				}
			}
			if got := pk.Verify(fixST, sig); got != exp {
				return r.Fail("sr25519.PublicKey.Verify:differs-from-reference", "decoded sig=%x: got %v want %v", in, got, exp).Result()
			}
		} else if got := c12MustMarshal(sig); bytes.Equal(got, fix.Sig) {
			// Nothing documents the receiver after a refusal.  Untouched (still the
			// fixture signature it held) ...
			r.Class("sig:receiver-untouched-on-error")
		} else {
			// ... or reset, which is what the code does; never a mixture of the
			// old value and the refused input.
			if !c12Zero(sr) || ss != nil {
				return r.Fail("sr25519.Signature.UnmarshalBinary:not-reset-on-error", "in=%x left R=%x s=%x", in, sr, ss).Result()
			}
			if len(got) != 64 || !c12Zero(got[:63]) || got[63] != 0x80 {
				return r.Fail("sr25519.Signature.UnmarshalBinary:not-reset-on-error", "in=%x marshals to %x", in, got).Result()
			}
			if pk.Verify(fixST, sig) {
				return r.Fail("sr25519.PublicKey.Verify:accepted-reset-signature", "after failed decode of %x", in).Result()
			}
		}

	case "pk":
		_, want := ref.RistDecode(in)
		if cls, _ := h.C11RistDecodeMath(in); (cls == h.C11OK) != want {
			return r.Fail("harness:oracle-inconsistent", "the two reference decoders disagree on %x (%s)", in, cls).Result()
		}
		verdict(want)
		pk := new(sr25519.PublicKey)
		if err := pk.UnmarshalBinary(fix.Pub); err != nil {
			return r.Fail("sr25519.PublicKey.UnmarshalBinary:rejected-valid-key", "fixture %x: %v", fix.Pub, err).Result()
		}
		r.Eval(3)
		err := pk.UnmarshalBinary(in)
		if (err == nil) != want {
			return r.Fail("sr25519.PublicKey.UnmarshalBinary:wrong-decision", "in=%x err=%v reference accepts=%v", in, err, want).Result()
		}
		n, nerr := sr25519.NewPublicKeyFromBytes(in)
		if (nerr == nil) != want || (n == nil) == want {
			return r.Fail("sr25519.NewPublicKeyFromBytes:wrong-decision", "in=%x err=%v nil=%v reference accepts=%v", in, nerr, n == nil, want).Result()
		}
		comp, hasPoint := sr25519.C12PKState(pk)
		sig, serr := sr25519.NewSignatureFromBytes(fix.Sig)
		if serr != nil {
			return r.Fail("sr25519.Signature.UnmarshalBinary:rejected-valid", "fixture: %v", serr).Result()
		}
		if want {
			if got := c12MustMarshal(pk); !bytes.Equal(got, in) {
				return r.Fail("sr25519.PublicKey.MarshalBinary:roundtrip", "in=%x out=%x", in, got).Result()
			}
			if got := c12MustMarshal(n); !bytes.Equal(got, in) {
				return r.Fail("sr25519.PublicKey.MarshalBinary:roundtrip", "NewPublicKeyFromBytes: in=%x out=%x", in, got).Result()
			}
			if !bytes.Equal(comp, in) || !hasPoint || !sr25519.C12PKConsistent(pk) || !pk.Equal(n) {
				return r.Fail("sr25519.PublicKey.UnmarshalBinary:wrong-state", "in=%x compressed=%x point=%v", in, comp, hasPoint).Result()
			}
			// usable: decides the fixture signature like the reference (true only for the fixture's own key)
			if got, exp := pk.Verify(fixST, sig), bytes.Equal(in, fix.Pub); got != exp {
				return r.Fail("sr25519.PublicKey.Verify:differs-from-reference", "decoded key %x on the fixture signature: got %v", in, got).Result()
			}
		} else if got := c12MustMarshal(pk); bytes.Equal(got, fix.Pub) && hasPoint && sr25519.C12PKConsistent(pk) {
			r.Class("pk:receiver-untouched-on-error") // see "sig"
		} else {
			if !c12Zero(comp) || hasPoint {
				return r.Fail("sr25519.PublicKey.UnmarshalBinary:not-reset-on-error", "in=%x left compressed=%x point=%v", in, comp, hasPoint).Result()
			}
			if len(got) != 32 || !c12Zero(got) {
				return r.Fail("sr25519.PublicKey.UnmarshalBinary:not-reset-on-error", "in=%x marshals to %x", in, got).Result()
			}
			if pk.Verify(fixST, sig) {
				return r.Fail("sr25519.PublicKey.Verify:accepted-reset-key", "after failed decode of %x", in).Result()
			}
		}

	case "sk":
		rsk, want := ref.SrSecretFromBytes(in)
		verdict(want)
		sk := new(sr25519.SecretKey)
		pre := fix.Secret.Bytes()
		if err := sk.UnmarshalBinary(pre); err != nil {
			return r.Fail("sr25519.SecretKey.UnmarshalBinary:rejected-valid", "fixture: %v", err).Result()
		}
		// the receiver is USED before it is re-used for the next decode: nothing
		// derived from the first key may survive into the second one
		_ = sk.PublicKey()
		_ = sk.KeyPair()
		r.Eval(3)
		err := sk.UnmarshalBinary(in)
		if (err == nil) != want {
			return r.Fail("sr25519.SecretKey.UnmarshalBinary:wrong-decision", "in=%x err=%v reference accepts=%v", in, err, want).Result()
		}
		n, nerr := sr25519.NewSecretKeyFromBytes(in)
		if (nerr == nil) != want || (n == nil) == want {
			return r.Fail("sr25519.NewSecretKeyFromBytes:wrong-decision", "in=%x err=%v nil=%v reference accepts=%v", in, nerr, n == nil, want).Result()
		}
		key, nonce := sr25519.C12SKState(sk)
		if want {
			if got := c12MustMarshal(sk); !bytes.Equal(got, in) {
				return r.Fail("sr25519.SecretKey.MarshalBinary:roundtrip", "in=%x out=%x", in, got).Result()
			}
			if got := c12MustMarshal(n); !bytes.Equal(got, in) || !n.Equal(sk) {
				return r.Fail("sr25519.SecretKey.MarshalBinary:roundtrip", "NewSecretKeyFromBytes: in=%x out=%x", in, got).Result()
			}
			if !bytes.Equal(key, in[:32]) || !bytes.Equal(nonce, in[32:]) {
				return r.Fail("sr25519.SecretKey.UnmarshalBinary:wrong-state", "in=%x key=%x nonce=%x", in, key, nonce).Result()
			}
			if got, exp := c12MustMarshal(sk.PublicKey()), rsk.SrPublicKeyFast(); !bytes.Equal(got, exp) {
				return r.Fail("sr25519.SecretKey.PublicKey:not-schnorrkel", "sk=%x got=%x want=%x", in, got, exp).Result()
			}
			if got, exp := c12MustMarshal(sk.KeyPair()), append(append([]byte(nil), in...), rsk.SrPublicKeyFast()...); !bytes.Equal(got, exp) {
				return r.Fail("sr25519.SecretKey.KeyPair:not-schnorrkel", "sk=%x got=%x want=%x", in, got, exp).Result()
			}
			// Equal "checks both the scalar and the nonce": a key with the same
			// scalar and another nonce, and one with the same nonce and another
			// scalar, are both different keys
			r.Eval(2)
			otherNonce := append([]byte(nil), in...)
			otherNonce[32+int(in[0])%32] ^= 1 << (in[1] % 8)
			otherScalar := append(ref.ToLE(ref.SAdd(ref.FromLE(in[:32]), big.NewInt(1)), 32), in[32:]...)
			for _, v := range []struct {
				what string
				b    []byte
			}{{"same scalar, other nonce", otherNonce}, {"other scalar, same nonce", otherScalar}} {
				o, err := sr25519.NewSecretKeyFromBytes(v.b)
				if err != nil {
					return r.Fail("sr25519.NewSecretKeyFromBytes:wrong-decision", "in=%x err=%v", v.b, err).Result()
				}
				if sk.Equal(o) || o.Equal(sk) {
					return r.Fail("sr25519.SecretKey.Equal:different-keys-equal", "%s: %x vs %x", v.what, in, v.b).Result()
				}
			}
		} else {
			// nothing documents the receiver after a refusal: untouched or zero, never partly written
			got := c12MustMarshal(sk)
			if untouched := bytes.Equal(got, pre) && bytes.Equal(key, pre[:32]) && bytes.Equal(nonce, pre[32:]); !untouched && !bytes.Equal(got, make([]byte, 64)) {
				return r.Fail("sr25519.SecretKey.UnmarshalBinary:modified-on-error", "in=%x: receiver now %x (was %x)", in, got, pre).Result()
			}
		}

	case "kp":
		want := false
		var rsk ref.SrSecret
		if len(in) == 96 {
			var ok bool
			if rsk, ok = ref.SrSecretFromBytes(in[:64]); ok {
				if _, ok := ref.RistDecode(in[64:]); ok {
					want = bytes.Equal(rsk.SrPublicKeyFast(), in[64:])
					if !want {
						r.Class("kp:mismatched-halves")
					}
				}
			}
		}
		verdict(want)
		kp := new(sr25519.KeyPair)
		if err := kp.UnmarshalBinary(c12Fix.kp); err != nil {
			return r.Fail("sr25519.KeyPair.UnmarshalBinary:rejected-valid", "fixture %x: %v", c12Fix.kp, err).Result()
		}
		r.Eval(3)
		err := kp.UnmarshalBinary(in)
		if (err == nil) != want {
			return r.Fail("sr25519.KeyPair.UnmarshalBinary:wrong-decision", "in=%x err=%v reference accepts=%v", in, err, want).Result()
		}
		n, nerr := sr25519.NewKeyPairFromBytes(in)
		if (nerr == nil) != want || (n == nil) == want {
			return r.Fail("sr25519.NewKeyPairFromBytes:wrong-decision", "in=%x err=%v nil=%v reference accepts=%v", in, nerr, n == nil, want).Result()
		}
		hasSK, hasPK := sr25519.C12KPState(kp)
		if want {
			if got := c12MustMarshal(kp); !bytes.Equal(got, in) {
				return r.Fail("sr25519.KeyPair.MarshalBinary:roundtrip", "in=%x out=%x", in, got).Result()
			}
			if got := c12MustMarshal(n); !bytes.Equal(got, in) {
				return r.Fail("sr25519.KeyPair.MarshalBinary:roundtrip", "NewKeyPairFromBytes: in=%x out=%x", in, got).Result()
			}
			if !hasSK || !hasPK || !bytes.Equal(c12MustMarshal(kp.SecretKey()), in[:64]) || !bytes.Equal(c12MustMarshal(kp.PublicKey()), in[64:]) ||
				!sr25519.C12PKConsistent(kp.PublicKey()) {
				return r.Fail("sr25519.KeyPair.UnmarshalBinary:wrong-state", "in=%x", in).Result()
			}
			// usable: signs like the reference
			r.Eval(1)
			ent := c12Fix.entry.Ent
			sig, serr := kp.Sign(ent.Reader(), fixST)
			if serr != nil {
				return r.Fail("sr25519.KeyPair.Sign:error", "decoded key pair %x: %v", in, serr).Result()
			}
			if got, exp := c12MustMarshal(sig), ref.SrSignFast(rsk, in[64:], fix.M.Transcript(), ent.Bytes).Bytes; !bytes.Equal(got, exp) {
				return r.Fail("sr25519.KeyPair.Sign:not-schnorrkel", "decoded key pair %x: got %x want %x", in, got, exp).Result()
			}
		} else if got := c12MustMarshal(kp); bytes.Equal(got, c12Fix.kp) && hasSK && hasPK {
			r.Class("kp:receiver-untouched-on-error") // see "sig"
		} else {
			if hasSK || hasPK || kp.SecretKey() != nil || kp.PublicKey() != nil {
				return r.Fail("sr25519.KeyPair.UnmarshalBinary:not-reset-on-error", "in=%x left sk=%v pk=%v", in, hasSK, hasPK).Result()
			}
			if len(got) != 96 || !c12Zero(got) {
				return r.Fail("sr25519.KeyPair.UnmarshalBinary:not-reset-on-error", "in=%x marshals to %x", in, got).Result()
			}
		}

	case "mini":
		want := len(in) == 32
		verdict(want)
		pre := bytes.Repeat([]byte{0x5a}, 32)
		var msk sr25519.MiniSecretKey
		copy(msk[:], pre)
		r.Eval(2)
		err := msk.UnmarshalBinary(in)
		if (err == nil) != want {
			return r.Fail("sr25519.MiniSecretKey.UnmarshalBinary:wrong-decision", "len=%d err=%v", len(in), err).Result()
		}
		n, nerr := sr25519.NewMiniSecretKeyFromBytes(in)
		if (nerr == nil) != want || (n == nil) == want {
			return r.Fail("sr25519.NewMiniSecretKeyFromBytes:wrong-decision", "len=%d err=%v", len(in), nerr).Result()
		}
		if want {
			if got := c12MustMarshal(&msk); !bytes.Equal(got, in) || !bytes.Equal(c12MustMarshal(n), in) || !n.Equal(&msk) {
				return r.Fail("sr25519.MiniSecretKey.MarshalBinary:roundtrip", "in=%x out=%x", in, got).Result()
			}
			var other sr25519.MiniSecretKey
			copy(other[:], in)
			other[int(in[0])%32] ^= 1 << (in[1] % 8)
			if n.Equal(&other) || other.Equal(n) {
				return r.Fail("sr25519.MiniSecretKey.Equal:different-keys-equal", "%x vs %x", in, other[:]).Result()
			}
		} else if !bytes.Equal(msk[:], pre) && !bytes.Equal(msk[:], make([]byte, 32)) {
			return r.Fail("sr25519.MiniSecretKey.UnmarshalBinary:modified-on-error", "len=%d: receiver now %x", len(in), msk[:]).Result()
		}

	case "edbytes":
		want := ref.SrEd25519BytesClamped(in)
		verdict(want)
		r.Eval(1)
		sk, err := sr25519.NewSecretKeyFromEd25519Bytes(in)
		if (err == nil) != want || (sk == nil) == want {
			return r.Fail("sr25519.NewSecretKeyFromEd25519Bytes:wrong-decision", "in=%x err=%v clamped=%v", in, err, want).Result()
		}
		if want {
			if got, exp := c12MustMarshal(sk), ref.SrFromEd25519Bytes(in).Bytes(); !bytes.Equal(got, exp) {
				return r.Fail("sr25519.NewSecretKeyFromEd25519Bytes:not-schnorrkel", "in=%x got=%x want=%x", in, got, exp).Result()
			}
		}

	default:
		panic("c12: decoder " + c.Dec)
	}
	return r.Result()
}

func TestC12Decode(t *testing.T) { h.Run(t, h.C12GenDecCase, c12CheckDec) }

// TestC12DecodeList: the finite special inputs, every run: the in-tree
// vectors (key pairs, the published signature, the Ed25519 example), all
// lengths 0..130 for every decoder, the neighbourhood of L in the scalar
// slots with and without the marker bit, zero-value objects.
func TestC12DecodeList(t *testing.T) {
	unhex := func(s string) []byte {
		var hx h.Hex
		if err := hx.UnmarshalJSON([]byte(`"` + s + `"`)); err != nil {
			panic(err)
		}
		return hx
	}
	var cases []h.C12DecCase
	add := func(dec, cls string, in []byte) {
		cases = append(cases, h.C12DecCase{Dec: dec, In: in, Cls: cls})
	}
	// in-tree vectors
	add("kp", "vector:ExpandUniform", unhex("04f0557e7f35e00df0824f458868915368bd5e41fd91f85b177f5907383ac50bdd0660b091e0ec47ecaf1f6ce73e7168fef267770f5030d5c524a49615163471063b66cc8b77aa24f694d073ad72c21a9f296be0fd4ee953d8e58d5d627d435b"))
	add("kp", "vector:ExpandEd25519", unhex("caa835781b15c7706f65b71f7a58c807ab360faed6440fb23e0f4c52e930de0a0a6a85eaa642dac835424b5d7c8d637c00408c7a73da672b7f498521420b6dd3def12e42f3e487e9b14095aa8d5cc16a33491f1b50dadcf8811d1480f3fa8627"))
	add("pk", "vector:go-schnorrkel", unhex("46ebddef8cd9bb167dc30878d7113b7e168e6f0646beffd77d69d39bad76b47a"))
	add("sig", "vector:go-schnorrkel", unhex("4e172314444b8f820bb54c22e95076f220ed25373e5c178234aa6c211d29271244b947e3ff3418ff6b45fd1df1140c8cbff69fc58ee6dc96df70936a2bb74b82"))
	add("edbytes", "vector:schnorrkel-doc", unhex("28b0ae221c6bb06856b287f60d7ea0d98552ea5a16db16956849aa371db3eb51fd190cce74df356432b410bd64682309d6dedb27c76845daf388557cbac3ca34"))
	// the zero key pair: key 0, public key = identity (all-zero encoding) -- well-formed
	add("kp", "zero", make([]byte, 96))
	add("sk", "zero", make([]byte, 64))
	add("pk", "identity", make([]byte, 32))
	// what zero-value objects marshal to
	add("sig", "zero-value-marshal", append(make([]byte, 63), 0x80))
	// lengths
	for _, d := range []string{"sig", "pk", "sk", "kp", "mini", "edbytes"} {
		for n := 0; n <= 130; n++ {
			// fills chosen so that a 64/32/64/96-byte prefix (or zero-padded
			// extension) would be acceptable to the respective decoder:
			// 0x00: zero key / identity point; 0x80: marked signature with a
			// small scalar; 0x40: clamped Ed25519 scalar
			for _, fill := range []byte{0x00, 0x80, 0x40} {
				add(d, "length-sweep", bytes.Repeat([]byte{fill}, n))
			}
		}
	}
	// neighbourhood of L and of 2^252 .. 2^255 in every scalar slot, marked and unmarked
	var vals []*big.Int
	for _, sh := range []uint{252, 253, 254, 255} {
		for e := int64(-1); e <= 1; e++ {
			vals = append(vals, new(big.Int).Add(new(big.Int).Lsh(big.NewInt(1), sh), big.NewInt(e)))
		}
	}
	for e := int64(-3); e <= 3; e++ {
		vals = append(vals, new(big.Int).Add(ref.L, big.NewInt(e)))
		vals = append(vals, new(big.Int).Add(new(big.Int).Lsh(ref.L, 1), big.NewInt(e)))
	}
	vals = append(vals, new(big.Int).Sub(new(big.Int).Lsh(big.NewInt(1), 256), big.NewInt(1)))
	for _, v := range vals {
		s := ref.ToLE(v, 32)
		nonce := bytes.Repeat([]byte{0xee}, 32)
		add("sk", "boundary", append(append([]byte(nil), s...), nonce...))
		pub := ref.RistEncode(ref.C03MulBase(ref.SMod(v)))
		add("kp", "boundary", append(append(append([]byte(nil), s...), nonce...), pub...))
		for _, mark := range []bool{true, false} {
			in := append(append([]byte(nil), c12FixtureR()...), s...)
			if mark {
				in[63] |= 0x80
			} else {
				in[63] &= 0x7f
			}
			add("sig", "boundary", in)
		}
	}
	h.RunList(t, cases, c12CheckDec)
}

func c12FixtureR() []byte {
	c12Fixture()
	return c12Fix.b.Sig[:32]
}
