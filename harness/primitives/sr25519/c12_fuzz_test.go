//go:build verif

package sr25519_test

import (
	"testing"

	h "verifh"
)

// Coverage-guided variant of the decoder property (thorough tier).
func FuzzC12Decode(f *testing.F) { h.Fuzz(f, h.C12GenDecCase, c12CheckDec) }
