//go:build verif

package sr25519_test

// C06 — all arithmetic backends are observationally identical:
// primitives/sr25519 (key (de)serialisation and expansion, all transcript
// kinds, signing with generated entropy, verification, batch verification).

import (
	"crypto/sha1"
	"crypto/sha256"
	"crypto/sha512"
	"encoding/binary"
	"testing"

	"github.com/oasisprotocol/curve25519-voi/primitives/sr25519"
	"golang.org/x/crypto/sha3"
	"pgregory.net/rapid"
	h "verifh"
)

var c06TranscriptKinds = []string{"bytes", "sha256", "sha512", "sha512_256", "shake128", "shake256", "reader"}

func c06Marshal(o *h.DiffOut, tag string, m interface{ MarshalBinary() ([]byte, error) }) {
	b, err := m.MarshalBinary()
	o.Err(tag, err)
	o.Bytes(tag, b)
}

// c06Transcript builds a signing transcript of the given kind over msg.
func c06Transcript(sc *sr25519.SigningContext, kind int, msg []byte) *sr25519.SigningTranscript {
	if kind < 0 || kind >= len(c06TranscriptKinds) {
		kind = 0
	}
	switch c06TranscriptKinds[kind] {
	case "sha256":
		hh := sha256.New()
		hh.Write(msg)
		return sc.NewTranscriptHash(hh)
	case "sha512":
		hh := sha512.New()
		hh.Write(msg)
		return sc.NewTranscriptHash(hh)
	case "sha512_256":
		hh := sha512.New512_256()
		hh.Write(msg)
		return sc.NewTranscriptHash(hh)
	case "shake128":
		x := sha3.NewShake128()
		x.Write(msg)
		return sc.NewTranscriptXOF(x)
	case "shake256":
		x := sha3.NewShake256()
		x.Write(msg)
		return sc.NewTranscriptXOF(x)
	case "reader":
		return sc.NewTranscriptXOF(h.NewDiffReader(msg))
	}
	return sc.NewTranscriptBytes(msg)
}

func c06KeyPair(seed []byte, uniform bool) *sr25519.KeyPair {
	var b [32]byte
	copy(b[:], seed)
	msk, err := sr25519.NewMiniSecretKeyFromBytes(b[:])
	if err != nil {
		panic(err)
	}
	if uniform {
		return msk.ExpandUniform().KeyPair()
	}
	return msk.ExpandEd25519().KeyPair()
}

func c06Sr25519Ops() []h.DiffOp {
	return []h.DiffOp{
		{Name: "minisecret", Weight: 4,
			Covers: []string{"NewMiniSecretKeyFromBytes", "MiniSecretKey.MarshalBinary", "MiniSecretKey.UnmarshalBinary", "MiniSecretKey.Equal",
				"MiniSecretKey.ExpandUniform", "MiniSecretKey.ExpandEd25519", "SecretKey.MarshalBinary", "SecretKey.PublicKey", "SecretKey.KeyPair", "SecretKey.Equal",
				"PublicKey.MarshalBinary", "KeyPair.MarshalBinary", "KeyPair.SecretKey", "KeyPair.PublicKey", "PublicKey.Equal"},
			Gen: func(t *rapid.T, c *h.DiffCase) {
				if rapid.IntRange(0, 7).Draw(t, "hostile") == 0 {
					h.DiffSized(t, c, 32, "msk")
				} else {
					h.DiffEntropy(t, c, 32, "msk")
				}
			},
			Exec: func(a *h.DiffArgs, o *h.DiffOut) {
				in := a.B()
				msk, err := sr25519.NewMiniSecretKeyFromBytes(in)
				o.Err("new", err)
				var m2 sr25519.MiniSecretKey
				o.Err("unmarshal", m2.UnmarshalBinary(in))
				c06Marshal(o, "unmarshal", &m2)
				if msk == nil {
					return
				}
				c06Marshal(o, "msk", msk)
				o.Bool("equal", msk.Equal(&m2))
				for i, sk := range []*sr25519.SecretKey{msk.ExpandUniform(), msk.ExpandEd25519()} {
					tag := []string{"uniform", "ed25519"}[i]
					c06Marshal(o, tag+".sk", sk)
					c06Marshal(o, tag+".pk", sk.PublicKey())
					kp := sk.KeyPair()
					c06Marshal(o, tag+".kp", kp)
					c06Marshal(o, tag+".kp.sk", kp.SecretKey())
					c06Marshal(o, tag+".kp.pk", kp.PublicKey())
					o.Bool(tag+".sk.equal", sk.Equal(kp.SecretKey()))
					o.Bool(tag+".pk.equal", sk.PublicKey().Equal(kp.PublicKey()))
				}
				o.Bool("sk.cross.equal", msk.ExpandUniform().Equal(msk.ExpandEd25519()))
			}},
		{Name: "decode", Weight: 5,
			Covers: []string{"NewSecretKeyFromBytes", "NewSecretKeyFromEd25519Bytes", "SecretKey.UnmarshalBinary", "NewPublicKeyFromBytes", "PublicKey.UnmarshalBinary",
				"PublicKey.MarshalBinary", "PublicKey.Equal", "NewKeyPairFromBytes", "KeyPair.UnmarshalBinary", "KeyPair.MarshalBinary", "SecretKey.MarshalBinary", "SecretKey.PublicKey"},
			Gen: func(t *rapid.T, c *h.DiffCase) {
				// secret key: scalar (catalogue: canonical or not) || nonce
				if rapid.IntRange(0, 7).Draw(t, "hostile") == 0 {
					h.DiffSized(t, c, 64, "sk")
				} else {
					s, _ := h.Bytes256(t, "sk_scalar")
					c.PutB(append(s, h.UniformBytes(t, 32, "sk_nonce")...))
				}
				// public key: ristretto string
				if rapid.IntRange(0, 7).Draw(t, "hostilepk") == 0 {
					h.DiffSized(t, c, 32, "pk")
				} else {
					b, _ := h.C11GenRistString(t, "pk")
					c.PutB(b)
				}
				c.PutN(rapid.IntRange(0, 3).Draw(t, "kpmode"))
			},
			Exec: func(a *h.DiffArgs, o *h.DiffOut) {
				skb, pkb, mode := a.B(), a.B(), a.N()
				sk, err := sr25519.NewSecretKeyFromBytes(skb)
				o.Err("sk", err)
				if sk != nil {
					c06Marshal(o, "sk", sk)
					c06Marshal(o, "sk.pk", sk.PublicKey())
				}
				var sk2 sr25519.SecretKey
				o.Err("sk.unmarshal", sk2.UnmarshalBinary(skb))
				esk, err := sr25519.NewSecretKeyFromEd25519Bytes(skb)
				o.Err("edsk", err)
				if esk != nil {
					c06Marshal(o, "edsk", esk)
					c06Marshal(o, "edsk.pk", esk.PublicKey())
				}
				pk, err := sr25519.NewPublicKeyFromBytes(pkb)
				o.Err("pk", err)
				var pk2 sr25519.PublicKey
				o.Err("pk.unmarshal", pk2.UnmarshalBinary(pkb))
				if pk != nil {
					c06Marshal(o, "pk", pk)
					o.Bool("pk.equal", pk.Equal(&pk2))
				}
				// key pair: sk || pk with the right or a wrong public key
				var kpb []byte
				switch {
				case mode == 0 && sk != nil:
					right, _ := sk.PublicKey().MarshalBinary()
					kpb = append(append([]byte{}, skb...), right...)
				case mode == 1:
					kpb = append(append([]byte{}, skb...), pkb...)
				case mode == 2 && len(skb) > 0:
					kpb = append(append([]byte{}, skb[1:]...), pkb...)
				default:
					kpb = append([]byte{}, skb...)
				}
				kp, err := sr25519.NewKeyPairFromBytes(kpb)
				o.Err("kp", err)
				if kp != nil {
					c06Marshal(o, "kp", kp)
				}
				var kp2 sr25519.KeyPair
				o.Err("kp.unmarshal", kp2.UnmarshalBinary(kpb))
			}},
		{Name: "generate", Weight: 2,
			Covers: []string{"GenerateMiniSecretKey", "GenerateSecretKey", "GenerateKeyPair"},
			Gen: func(t *rapid.T, c *h.DiffCase) {
				h.DiffEntropy(t, c, rapid.SampledFrom([]int{32, 64, 96, 0, 1}).Draw(t, "n"), "rng")
			},
			Exec: func(a *h.DiffArgs, o *h.DiffOut) {
				rnd := a.B()
				msk, err := sr25519.GenerateMiniSecretKey(h.NewDiffReader(rnd))
				o.Err("msk", err)
				if msk != nil {
					c06Marshal(o, "msk", msk)
				}
				sk, err := sr25519.GenerateSecretKey(h.NewDiffReader(rnd))
				o.Err("sk", err)
				if sk != nil {
					c06Marshal(o, "sk", sk)
				}
				kp, err := sr25519.GenerateKeyPair(h.NewDiffReader(rnd))
				o.Err("kp", err)
				if kp != nil {
					c06Marshal(o, "kp", kp)
				}
			}},
		{Name: "sign", Weight: 8,
			Covers: []string{"NewSigningContext", "SigningContext.NewTranscriptBytes", "SigningContext.NewTranscriptHash", "SigningContext.NewTranscriptXOF",
				"KeyPair.Sign", "PublicKey.Verify", "Signature.MarshalBinary", "NewSignatureFromBytes", "Signature.UnmarshalBinary"},
			Gen: func(t *rapid.T, c *h.DiffCase) {
				h.DiffEntropy(t, c, 32, "msk")
				c.PutN(rapid.IntRange(0, 1).Draw(t, "uniform"))
				h.DiffMsg(t, c, 200, "ctx")
				c.PutN(rapid.IntRange(0, len(c06TranscriptKinds)-1).Draw(t, "kind"))
				h.DiffMsg(t, c, 500, "msg")
				h.DiffEntropy(t, c, rapid.SampledFrom([]int{32, 64, 0, 1}).Draw(t, "rlen"), "rng")
				c.PutN(rapid.IntRange(0, 511).Draw(t, "flipbit"))
			},
			Exec: func(a *h.DiffArgs, o *h.DiffOut) {
				kp := c06KeyPair(a.B(), a.N() == 1)
				ctx, kind, msg, rnd, flip := a.B(), a.N(), a.B(), a.B(), a.N()
				sc := sr25519.NewSigningContext(ctx)
				sig, err := kp.Sign(h.NewDiffReader(rnd), c06Transcript(sc, kind, msg))
				o.Err("sign", err)
				if sig == nil {
					return
				}
				sb, err := sig.MarshalBinary()
				o.Err("sig", err)
				o.Bytes("sig", sb)
				o.Bool("verify", kp.PublicKey().Verify(c06Transcript(sc, kind, msg), sig))
				sig2, err := sr25519.NewSignatureFromBytes(sb)
				o.Err("reparse", err)
				if sig2 != nil {
					o.Bool("verify.reparsed", kp.PublicKey().Verify(c06Transcript(sc, kind, msg), sig2))
				}
				o.Bool("verify.othermsg", kp.PublicKey().Verify(c06Transcript(sc, kind, append(msg, 1)), sig))
				o.Bool("verify.otherkind", kp.PublicKey().Verify(c06Transcript(sc, (kind+1)%len(c06TranscriptKinds), msg), sig))
				bad := append([]byte{}, sb...)
				if len(bad) == 64 {
					bad[(flip/8)%64] ^= 1 << uint(flip%8)
					var s3 sr25519.Signature
					err = s3.UnmarshalBinary(bad)
					o.Err("tampered.parse", err)
					o.Bool("tampered.verify", kp.PublicKey().Verify(c06Transcript(sc, kind, msg), &s3))
				}
				// documented: a digest size other than 256/512 bits panics
				o.Panics("badhash", func() { sc.NewTranscriptHash(sha1.New()) })
			}},
		{Name: "signature", Weight: 4,
			Covers: []string{"NewSignatureFromBytes", "Signature.UnmarshalBinary", "Signature.MarshalBinary", "PublicKey.Verify"},
			Gen: func(t *rapid.T, c *h.DiffCase) {
				if rapid.IntRange(0, 7).Draw(t, "hostile") == 0 {
					h.DiffSized(t, c, 64, "sig")
				} else {
					r, _ := h.C11GenRistString(t, "R")
					s, _ := h.Bytes256(t, "s")
					if rapid.IntRange(0, 3).Draw(t, "mark") != 0 {
						s[31] |= 0x80
					}
					c.PutB(append(r, s...))
				}
				b, _ := h.C11GenRistString(t, "pk")
				c.PutB(b)
				h.DiffMsg(t, c, 100, "msg")
			},
			Exec: func(a *h.DiffArgs, o *h.DiffOut) {
				sb, pkb, msg := a.B(), a.B(), a.B()
				sig, err := sr25519.NewSignatureFromBytes(sb)
				o.Err("new", err)
				var s2 sr25519.Signature
				o.Err("unmarshal", s2.UnmarshalBinary(sb))
				c06Marshal(o, "unmarshal", &s2) // a failed parse leaves a marked all-zero signature
				if sig != nil {
					c06Marshal(o, "sig", sig)
				}
				pk, err := sr25519.NewPublicKeyFromBytes(pkb)
				o.Err("pk", err)
				if pk != nil {
					tr := sr25519.NewSigningContext([]byte("c06")).NewTranscriptBytes(msg)
					o.Bool("verify", pk.Verify(tr, &s2))
					var empty sr25519.PublicKey
					o.Bool("verify.emptykey", empty.Verify(tr, &s2))
				}
			}},
		{Name: "batch", Weight: 3,
			Covers: []string{"NewBatchVerifier", "NewBatchVerifierWithCapacity", "BatchVerifier.Add", "BatchVerifier.Verify", "BatchVerifier.VerifyBatchOnly", "BatchVerifier.Reset"},
			Gen: func(t *rapid.T, c *h.DiffCase) {
				k := rapid.IntRange(0, 49).Draw(t, "sizeclass")
				n := 0
				switch {
				case k < 30:
					n = rapid.IntRange(0, 6).Draw(t, "n")
				case k < 46:
					n = rapid.IntRange(7, 40).Draw(t, "n")
				default: // 2n+1 terms crosses the Straus/Pippenger switch of the multiscalar multiplication at n = 95
					n = rapid.SampledFrom([]int{94, 95, 96}).Draw(t, "n")
				}
				c.PutN(n)
				c.PutB(h.UniformBytes(t, 8, "seed"))
				c.PutN(rapid.IntRange(-1, n).Draw(t, "corrupt"))
				c.PutN(rapid.IntRange(0, 1).Draw(t, "capacity"))
				h.DiffEntropy(t, c, 32, "rand")
			},
			Exec: func(a *h.DiffArgs, o *h.DiffOut) {
				n := a.N()
				if n < 0 || n > 500 {
					n = 0
				}
				seedB := a.B()
				var seed uint64
				if len(seedB) >= 8 {
					seed = binary.LittleEndian.Uint64(seedB)
				}
				corrupt, capacity, rnd := a.N(), a.N(), a.B()
				var v *sr25519.BatchVerifier
				if capacity == 1 {
					v = sr25519.NewBatchVerifierWithCapacity(n)
				} else {
					v = sr25519.NewBatchVerifier()
				}
				sc := sr25519.NewSigningContext([]byte("c06 batch"))
				for i := 0; i < n; i++ {
					kp := c06KeyPair(h.Expand(seed+uint64(i/3), 32), i%2 == 0)
					msg := h.Expand(seed^uint64(i), i%90)
					kind := i % len(c06TranscriptKinds)
					sig, err := kp.Sign(h.NewDiffReader(h.Expand(seed+uint64(i), 16)), c06Transcript(sc, kind, msg))
					if err != nil {
						o.Err("sign", err)
						continue
					}
					if i == corrupt {
						msg = append(msg, 0xff)
					}
					v.Add(kp.PublicKey(), c06Transcript(sc, kind, msg), sig)
				}
				o.Bool("batchonly", v.VerifyBatchOnly(h.NewDiffReader(rnd)))
				ok, valid := v.Verify(h.NewDiffReader(rnd))
				o.Bool("verify", ok)
				vb := make([]byte, len(valid))
				for i, b := range valid {
					if b {
						vb[i] = 1
					}
				}
				o.Bytes("valid", vb)
				v.Reset()
				ok, valid = v.Verify(h.NewDiffReader(rnd))
				o.Bool("reset.verify", ok)
				o.Int("reset.valid", int64(len(valid)))
			}},
	}
}

func TestC06Sr25519(t *testing.T) {
	h.RunDiffOps(t, "primitives/sr25519", h.DiffBackend(""), c06Sr25519Ops())
}
