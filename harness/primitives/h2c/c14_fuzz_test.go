//go:build verif

package h2c

import (
	"testing"

	h "verifh"
)

// Coverage-guided variant of the expander property (thorough tier).
func FuzzC14ExpandXMD(f *testing.F) { h.Fuzz(f, c14GenXMD, c14CheckXMD) }
