//go:build verif

package h2c

// C14 — the suites.  Expected points come from the reference: hash_to_field
// (naive expand_message, OS2IP mod p), the GENERIC Elligator 2 of RFC 9380
// section 6.7.1 on curve25519, the rational map of appendix D.1 ((0,1) on the
// exceptional set), affine addition and three doublings; for ristretto255 the
// RFC 9496 MAP on 64 expanded bytes.  Every returned Edwards point is decoded
// by the reference and multiplied by L in reference arithmetic.

import (
	"bytes"
	"fmt"
	"math/big"
	"testing"

	"golang.org/x/crypto/sha3"

	"github.com/oasisprotocol/curve25519-voi/curve"

	"pgregory.net/rapid"
	h "verifh"
	ref "verifref"
)

func c14Enc(p *curve.EdwardsPoint) []byte {
	var c curve.CompressedEdwardsY
	c.SetEdwardsPoint(p)
	return append([]byte(nil), c[:]...)
}

// c14Operand checks that a returned point also works as an OPERAND: the
// encoding reads X, Y, Z only, the next addition reads the extended coordinate
// T as well.  p + B must be want + B.
func c14Operand(r *h.R, sig string, p *curve.EdwardsPoint, want ref.Point) {
	r.Eval(1)
	var sum curve.EdwardsPoint
	sum.Add(p, curve.ED25519_BASEPOINT_POINT)
	if g, w := c14Enc(&sum), ref.Add(want, ref.Base).Encode(); !bytes.Equal(g, w) {
		r.Fail(sig+":result-unusable-as-operand", "the point encodes as %x but point + B = %x, want %x (inconsistent T coordinate)", c14Enc(p), g, w)
	}
}

func c14RistEnc(p *curve.RistrettoPoint) []byte {
	var c curve.CompressedRistretto
	c.SetRistrettoPoint(p)
	return append([]byte(nil), c[:]...)
}

// c14PrimeOrder decides, in reference arithmetic only, that enc is the
// canonical encoding of a point P with [L]P = identity.
func c14PrimeOrder(enc []byte) (onCurve, canonical, torsionFree bool) {
	di := ref.Decode(enc)
	if !di.OK {
		return false, false, false
	}
	return true, di.Canonical, ref.Mul(ref.L, di.P).IsIdentity()
}

type c14SuiteCase struct {
	Kind string // SHA512_RO, SHA512_NU, XMD_RO, XMD_NU, XOF_RO, XOF_NU, R255_XMD, R255_XOF
	Hash string // for XMD kinds
	X    c14XOFSpec
	DST  h.Hex
	Msg  h.Hex
}

var c14SuiteKinds = []string{"SHA512_RO", "SHA512_NU", "XMD_RO", "XMD_NU", "XOF_RO", "XOF_NU", "R255_XMD", "R255_XOF"}

func c14GenSuite(t *rapid.T) c14SuiteCase {
	c := c14SuiteCase{Kind: rapid.SampledFrom(c14SuiteKinds).Draw(t, "kind")}
	switch c.Kind {
	case "SHA512_RO", "SHA512_NU":
		c.Hash = "SHA-512"
	case "XMD_RO", "XMD_NU", "R255_XMD":
		c.Hash = c14GenHash(t)
	default:
		c.X = c14GenXOFSpec(t)
	}
	c.DST = h.C14DST(t, "dst")
	c.Msg = h.Msg(t, 600, "msg")
	return c
}

func c14CheckSuite(c c14SuiteCase) h.Result {
	r := h.NewR().Class("suite:"+c.Kind, "dst:"+c14DSTClass(len(c.DST)))
	var exp ref.H2cExpander
	isXOF := false
	switch c.Kind {
	case "XOF_RO", "XOF_NU", "R255_XOF":
		isXOF = true
		exp = ref.H2cXOFExpander(c.X.refNew(), ref.H2cK)
		r.Class(c.X.cls()...)
	default:
		rh, ok := ref.H2cHashes[c.Hash]
		if !ok {
			panic("unknown hash " + c.Hash)
		}
		exp = ref.H2cXMD(rh, ref.H2cK)
		r.Class("hash:" + c.Hash)
	}
	dst := append([]byte(nil), c.DST...)
	msg := append([]byte(nil), c.Msg...)
	var x sha3.ShakeHash
	if isXOF {
		x = c.X.used()
	}

	var (
		ep      *curve.EdwardsPoint
		rp      *curve.RistrettoPoint
		err     error
		want    ref.Point
		rerr    error
		isRist  bool
		sigName string
	)
	switch c.Kind {
	case "SHA512_RO":
		sigName = "h2c.Edwards25519_XMD_SHA512_ELL2_RO"
		ep, err = Edwards25519_XMD_SHA512_ELL2_RO(dst, msg)
		want, _, rerr = ref.H2cEdwards25519XMDSHA512RO(c.Msg, c.DST)
	case "SHA512_NU":
		sigName = "h2c.Edwards25519_XMD_SHA512_ELL2_NU"
		ep, err = Edwards25519_XMD_SHA512_ELL2_NU(dst, msg)
		want, _, rerr = ref.H2cEdwards25519XMDSHA512NU(c.Msg, c.DST)
	case "XMD_RO":
		sigName = "h2c.Edwards25519_XMD_ELL2_RO"
		ep, err = Edwards25519_XMD_ELL2_RO(c14CryptoHash[c.Hash], dst, msg)
		want, _, rerr = ref.H2cHashToCurve(exp, c.Msg, c.DST)
	case "XMD_NU":
		sigName = "h2c.Edwards25519_XMD_ELL2_NU"
		ep, err = Edwards25519_XMD_ELL2_NU(c14CryptoHash[c.Hash], dst, msg)
		want, _, rerr = ref.H2cEncodeToCurve(exp, c.Msg, c.DST)
	case "XOF_RO":
		sigName = "h2c.Edwards25519_XOF_ELL2_RO"
		ep, err = Edwards25519_XOF_ELL2_RO(x, dst, msg)
		want, _, rerr = ref.H2cHashToCurve(exp, c.Msg, c.DST)
	case "XOF_NU":
		sigName = "h2c.Edwards25519_XOF_ELL2_NU"
		ep, err = Edwards25519_XOF_ELL2_NU(x, dst, msg)
		want, _, rerr = ref.H2cEncodeToCurve(exp, c.Msg, c.DST)
	case "R255_XMD":
		isRist = true
		sigName = "h2c.Ristretto255_XMD_R255MAP_RO"
		rp, err = Ristretto255_XMD_R255MAP_RO(c14CryptoHash[c.Hash], dst, msg)
		want, _, rerr = ref.H2cHashToRistretto255(exp, c.Msg, c.DST)
	case "R255_XOF":
		isRist = true
		sigName = "h2c.Ristretto255_XOF_R255MAP_RO"
		rp, err = Ristretto255_XOF_R255MAP_RO(x, dst, msg)
		want, _, rerr = ref.H2cHashToRistretto255(exp, c.Msg, c.DST)
	default:
		panic("unknown kind " + c.Kind)
	}
	r.NT(len(c.DST) > 255 || rerr != nil || (c.Hash != "SHA-512" && !isXOF) || (isXOF && (len(c.X.PreWrite) > 0 || c.X.PreRead > 0)) || isRist)
	r.Eval(1)
	if !bytes.Equal(dst, c.DST) || !bytes.Equal(msg, c.Msg) {
		r.Fail(sigName+":input-modified", "")
	}
	if isXOF && !c14CallerXOFUntouched(c.X, x) {
		r.Fail(sigName+":caller-xof-modified", "xof=%s", c.X.Name)
	}
	if rerr != nil {
		r.Class("abort")
		if err == nil {
			r.Fail(sigName+":missing-abort", "hash=%s: reference refuses (%v), library returned a point", c.Hash, rerr)
		}
		if ep != nil || rp != nil {
			r.Fail(sigName+":point-with-error", "hash=%s", c.Hash)
		}
		return r.Result()
	}
	if err != nil {
		return r.Fail(sigName+":spurious-error", "hash=%s xof=%s dstlen=%d: %v", c.Hash, c.X.Name, len(c.DST), err).Result()
	}
	if isRist {
		got, wantEnc := c14RistEnc(rp), ref.RistEncode(want)
		if !bytes.Equal(got, wantEnc) {
			r.Fail(sigName+":wrong-point", "hash=%s xof=%s dst=%x msg=%x got=%x want=%x", c.Hash, c.X.Name, []byte(c.DST), []byte(c.Msg), got, wantEnc)
		}
		return r.Result()
	}
	got := c14Enc(ep)
	if !bytes.Equal(got, want.Encode()) {
		r.Fail(sigName+":wrong-point", "hash=%s xof=%s dst=%x msg=%x got=%x want=%x", c.Hash, c.X.Name, []byte(c.DST), []byte(c.Msg), got, want.Encode())
	}
	r.Eval(1)
	if on, canon, tf := c14PrimeOrder(got); !on || !canon || !tf {
		r.Fail(sigName+":not-in-prime-order-subgroup", "dst=%x msg=%x got=%x oncurve=%v canonical=%v [L]P=O:%v", []byte(c.DST), []byte(c.Msg), got, on, canon, tf)
	}
	if !r.Failed() {
		c14Operand(r, sigName, ep, want)
	}
	return r.Result()
}

func TestC14Suites(t *testing.T) { h.Run(t, c14GenSuite, c14CheckSuite) }

// ------------------------------------------------ uniform bytes -> point
//
// SHA-512 preimages of interesting field elements are not available, so the
// steps after expand_message are driven directly (in-package) on hostile
// "uniform" bytes: every multiple-of-p boundary of the 384-bit reduction and
// the special inputs of the map (0 = the exceptional case, +-1, sqrt(-1), the
// u sent to 4-torsion, equal / opposite u0,u1).

type c14UniCase struct {
	U0, U1 h.Hex // 48-byte big-endian chunks
	C0, C1 string
}

func c14GenUni(t *rapid.T) c14UniCase {
	u0, c0 := h.C14Wide48(t, "u0")
	u1, c1 := h.C14Wide48(t, "u1")
	switch rapid.IntRange(0, 9).Draw(t, "rel") {
	case 0:
		u1, c1 = append([]byte(nil), u0...), "same"
	case 1: // u1 = -u0 mod p (so Q1 = Q0 as well: the map is even)
		v := ref.FNeg(ref.H2cFieldFromUniform(u0))
		u1 = make([]byte, 48)
		v.FillBytes(u1)
		c1 = "negated"
	}
	return c14UniCase{U0: u0, U1: u1, C0: c0, C1: c1}
}

func c14FeBytes(b []byte) []byte {
	fe := uniformToField25519(b)
	var out [32]byte
	_ = fe.ToBytes(out[:])
	return out[:]
}

func c14CheckUni(c c14UniCase) h.Result {
	r := h.NewR().Class("u0:"+c.C0, "u1:"+c.C1)
	r.NT(c.C0 != "uniform" || c.C1 != "uniform")
	if len(c.U0) != 48 || len(c.U1) != 48 {
		panic("bad case")
	}
	u0, u1 := ref.H2cFieldFromUniform(c.U0), ref.H2cFieldFromUniform(c.U1)
	// hash_to_field step 7: OS2IP(tv) mod p
	for i, p := range []struct {
		b []byte
		v *big.Int
	}{{c.U0, u0}, {c.U1, u1}} {
		r.Eval(1)
		in := append([]byte(nil), p.b...)
		if got := c14FeBytes(in); !bytes.Equal(got, ref.FEncode(p.v)) {
			r.Fail("h2c.uniformToField25519:wrong-value", "chunk %d in=%x got=%x want=%x", i, p.b, got, ref.FEncode(p.v))
		}
		if !bytes.Equal(in, p.b) {
			r.Fail("h2c.uniformToField25519:input-modified", "in=%x", p.b)
		}
	}
	q0, q1 := ref.H2cMapToEdwards(u0), ref.H2cMapToEdwards(u1)
	if q0.IsIdentity() || q1.IsIdentity() {
		r.Class("exceptional").NT(true)
	}
	// encode_to_curve on each chunk
	for i, p := range []struct {
		b []byte
		q ref.Point
	}{{c.U0, q0}, {c.U1, q1}} {
		var ub [encodeToCurveSize]byte
		copy(ub[:], p.b)
		want := ref.H2cClearCofactor(p.q)
		if want.IsIdentity() {
			r.Class("nu:identity").NT(true)
		}
		r.Eval(2)
		gp := encodeToCurve(&ub)
		got := c14Enc(gp)
		if !bytes.Equal(got, want.Encode()) {
			r.Fail("h2c.encodeToCurve:wrong-point", "chunk %d uniform=%x got=%x want=%x", i, p.b, got, want.Encode())
		} else {
			c14Operand(r, "h2c.encodeToCurve", gp, want)
		}
		if on, canon, tf := c14PrimeOrder(got); !on || !canon || !tf {
			r.Fail("h2c.encodeToCurve:not-in-prime-order-subgroup", "uniform=%x got=%x", p.b, got)
		}
		if !bytes.Equal(ub[:], p.b) {
			r.Fail("h2c.encodeToCurve:input-modified", "")
		}
	}
	// hash_to_curve on both
	var ub [hashToCurveSize]byte
	copy(ub[:48], c.U0)
	copy(ub[48:], c.U1)
	want := ref.H2cClearCofactor(ref.AddAffine(q0, q1))
	if want.IsIdentity() {
		r.Class("ro:identity").NT(true)
	}
	r.Eval(2)
	gp := hashToCurve(&ub)
	got := c14Enc(gp)
	if !bytes.Equal(got, want.Encode()) {
		r.Fail("h2c.hashToCurve:wrong-point", "uniform=%x got=%x want=%x", ub[:], got, want.Encode())
	} else {
		c14Operand(r, "h2c.hashToCurve", gp, want)
	}
	if on, canon, tf := c14PrimeOrder(got); !on || !canon || !tf {
		r.Fail("h2c.hashToCurve:not-in-prime-order-subgroup", "uniform=%x got=%x", ub[:], got)
	}
	return r.Result()
}

func TestC14UniformToPoint(t *testing.T) { h.Run(t, c14GenUni, c14CheckUni) }

// The published-vector anchor inside the harness run: the suite functions on
// the RFC's own (DST, msg) pairs are compared with the reference as one more
// list (the reference itself replays the JSON files in its self-test).
func TestC14RFCInputs(t *testing.T) {
	var cases []c14SuiteCase
	msgs := []string{"", "abc", "abcdef0123456789",
		"q128_" + string(bytes.Repeat([]byte{'q'}, 128)),
		"a512_" + string(bytes.Repeat([]byte{'a'}, 512))}
	for _, k := range c14SuiteKinds {
		for _, m := range msgs {
			c := c14SuiteCase{Kind: k, Hash: "SHA-512", X: c14XOFSpec{Name: "SHAKE128"}, Msg: h.Hex(m)}
			suite := map[string]string{"SHA512_RO": "edwards25519_XMD:SHA-512_ELL2_RO_", "SHA512_NU": "edwards25519_XMD:SHA-512_ELL2_NU_"}[k]
			if suite == "" {
				suite = fmt.Sprintf("verif-%s", k)
			}
			c.DST = h.Hex("QUUX-V01-CS02-with-" + suite)
			cases = append(cases, c)
		}
	}
	h.RunList(t, cases, c14CheckSuite)
}
