//go:build verif

package h2c

// C14 — hash-to-curve suites implement RFC 9380 for every input.
// This file: expand_message_xmd / expand_message_xof against the naive
// reference (verifref.H2cExpand*), including oversize DSTs, every abort
// condition, the documented refusals (zero-length output; digest shorter than
// 2k = 256 bits) and XOF instances that were already used by the caller.

import (
	"bytes"
	"crypto"
	_ "crypto/md5"
	_ "crypto/sha1"
	_ "crypto/sha256"
	_ "crypto/sha512"
	"fmt"
	"io"
	"testing"

	_ "golang.org/x/crypto/blake2b"
	"golang.org/x/crypto/sha3"

	"pgregory.net/rapid"
	h "verifh"
	ref "verifref"
)

// name (key of ref.H2cHashes) -> crypto.Hash handed to the library.
var c14CryptoHash = map[string]crypto.Hash{
	"SHA-256":     crypto.SHA256,
	"SHA-224":     crypto.SHA224,
	"SHA-384":     crypto.SHA384,
	"SHA-512":     crypto.SHA512,
	"SHA-512/256": crypto.SHA512_256,
	"SHA-512/224": crypto.SHA512_224,
	"SHA-1":       crypto.SHA1,
	"MD5":         crypto.MD5,
	"SHA3-224":    crypto.SHA3_224,
	"SHA3-256":    crypto.SHA3_256,
	"SHA3-384":    crypto.SHA3_384,
	"SHA3-512":    crypto.SHA3_512,
	"BLAKE2b-256": crypto.BLAKE2b_256,
	"BLAKE2b-384": crypto.BLAKE2b_384,
	"BLAKE2b-512": crypto.BLAKE2b_512,
}

// weighted towards the DESIGN.md list; the rest are extra digest/block sizes.
var c14HashNames = []string{
	"SHA-512", "SHA-512", "SHA-512", "SHA-256", "SHA-256", "SHA-384", "SHA-512/256", "SHA3-256", "BLAKE2b-512",
	"SHA-224", "SHA-1", "MD5",
	"SHA3-384", "SHA3-512", "SHA3-224", "SHA-512/224", "BLAKE2b-256", "BLAKE2b-384",
}

func c14GenHash(t *rapid.T) string { return rapid.SampledFrom(c14HashNames).Draw(t, "hash") }

// ------------------------------------------------------------------- XMD

type c14XMDCase struct {
	Hash   string
	DST    h.Hex
	Msg    h.Hex
	Len    int
	LenCls string
}

func c14GenXMD(t *rapid.T) c14XMDCase {
	hn := c14GenHash(t)
	n, lc := h.C14OutLen(t, ref.H2cHashes[hn].B, "len")
	return c14XMDCase{Hash: hn, DST: h.C14DST(t, "dst"), Msg: h.Msg(t, 600, "msg"), Len: n, LenCls: lc}
}

const c14Guard = 16

// c14Buf returns an n-byte output slice filled with a sentinel, backed by an
// array with c14Guard more sentinel bytes behind it.
func c14Buf(n int) (out, backing []byte) {
	backing = bytes.Repeat([]byte{0xa5}, n+c14Guard)
	return backing[: n : n+c14Guard], backing
}

func c14GuardIntact(backing []byte, n int) bool {
	return bytes.Equal(backing[n:], bytes.Repeat([]byte{0xa5}, c14Guard))
}

func c14CheckXMD(c c14XMDCase) h.Result {
	rh, ok := ref.H2cHashes[c.Hash]
	ch, ok2 := c14CryptoHash[c.Hash]
	if !ok || !ok2 {
		panic("unknown hash " + c.Hash)
	}
	r := h.NewR().Class("hash:"+c.Hash, "len:"+c.LenCls, fmt.Sprintf("dst:%s", c14DSTClass(len(c.DST))))
	want, _, rerr := ref.H2cExpandXMD(rh, ref.H2cK, c.Msg, c.DST, c.Len)
	// documented refusal on top of the RFC's aborts: zero-length output
	wantErr := rerr != nil || c.Len == 0
	switch {
	case rerr == ref.H2cErrHash:
		r.Class("abort:b<2k")
	case rerr == ref.H2cErrLen:
		r.Class("abort:len>65535")
	case rerr == ref.H2cErrEll:
		r.Class("abort:ell>255")
	case c.Len == 0:
		r.Class("refuse:len=0")
	default:
		r.Class("ok")
	}
	r.NT(len(c.DST) > 255 || wantErr || c.Hash != "SHA-512" || c.Len%rh.B != 0)

	dst := append([]byte(nil), c.DST...)
	msg := append([]byte(nil), c.Msg...)
	out, backing := c14Buf(c.Len)
	r.Eval(1)
	err := ExpandMessageXMD(out, ch, dst, msg)
	if !bytes.Equal(dst, c.DST) || !bytes.Equal(msg, c.Msg) {
		r.Fail("h2c.ExpandMessageXMD:input-modified", "hash=%s len=%d", c.Hash, c.Len)
	}
	if !c14GuardIntact(backing, c.Len) {
		r.Fail("h2c.ExpandMessageXMD:wrote-past-out", "hash=%s len=%d", c.Hash, c.Len)
	}
	if wantErr {
		if err == nil {
			r.Fail("h2c.ExpandMessageXMD:missing-abort", "hash=%s len=%d dstlen=%d: reference aborts (%v / len=0) but library returned nil", c.Hash, c.Len, len(c.DST), rerr)
		}
		return r.Result()
	}
	if err != nil {
		return r.Fail("h2c.ExpandMessageXMD:spurious-error", "hash=%s len=%d dstlen=%d msglen=%d: %v", c.Hash, c.Len, len(c.DST), len(c.Msg), err).Result()
	}
	if !bytes.Equal(out, want) {
		i := 0
		for i < len(out) && out[i] == want[i] {
			i++
		}
		r.Fail("h2c.ExpandMessageXMD:wrong-output", "hash=%s len=%d dstlen=%d msglen=%d first difference at byte %d: got %x want %x",
			c.Hash, c.Len, len(c.DST), len(c.Msg), i, c14Window(out, i), c14Window(want, i))
	}
	// The same call with DST and message handed over as windows of ONE buffer
	// (DST || msg || trailer): both arguments then have spare capacity that
	// belongs to the caller.  Same output, buffer untouched.
	wire := append(append(append([]byte(nil), c.DST...), c.Msg...), bytes.Repeat([]byte{0xc5}, 24)...)
	orig := append([]byte(nil), wire...)
	out2 := make([]byte, c.Len)
	r.Eval(1)
	if err := ExpandMessageXMD(out2, ch, wire[:len(c.DST)], wire[len(c.DST):len(c.DST)+len(c.Msg)]); err != nil || !bytes.Equal(out2, want) {
		r.Fail("h2c.ExpandMessageXMD:wrong-output-on-shared-buffer", "hash=%s len=%d dstlen=%d msglen=%d err=%v", c.Hash, c.Len, len(c.DST), len(c.Msg), err)
	}
	if !bytes.Equal(wire, orig) {
		r.Fail("h2c.ExpandMessageXMD:wrote-to-caller-buffer", "hash=%s len=%d dstlen=%d msglen=%d: the DST||msg buffer was modified", c.Hash, c.Len, len(c.DST), len(c.Msg))
	}
	return r.Result()
}

func c14Window(b []byte, i int) []byte {
	j := i + 16
	if j > len(b) {
		j = len(b)
	}
	return b[i:j]
}

func c14DSTClass(n int) string {
	switch {
	case n == 0:
		return "0"
	case n < 255:
		return "<255"
	case n == 255:
		return "255"
	case n == 256:
		return "256"
	default:
		return ">256"
	}
}

func TestC14ExpandXMD(t *testing.T) { h.Run(t, c14GenXMD, c14CheckXMD) }

// ------------------------------------------------------------------- XOF

// c14XOFSpec names an XOF and the state the caller's instance is in when it
// is handed to the library: PreWrite bytes absorbed, then PreRead bytes
// squeezed.  ExpandMessageXOF documents that it instantiates a new instance
// through Clone(); the function (newXOF) resets the clone.
type c14XOFSpec struct {
	Name     string // SHAKE128, SHAKE256, cSHAKE128, cSHAKE256
	N, S     h.Hex  // cSHAKE function-name / customisation strings
	PreWrite h.Hex
	PreRead  int
}

func (s c14XOFSpec) fresh() sha3.ShakeHash {
	switch s.Name {
	case "SHAKE128":
		return sha3.NewShake128()
	case "SHAKE256":
		return sha3.NewShake256()
	case "cSHAKE128":
		return sha3.NewCShake128(s.N, s.S)
	case "cSHAKE256":
		return sha3.NewCShake256(s.N, s.S)
	}
	panic("unknown XOF " + s.Name)
}

func (s c14XOFSpec) rate() int {
	if s.Name == "SHAKE128" || s.Name == "cSHAKE128" {
		return 168
	}
	return 136
}

// used returns an instance in the described caller state.
func (s c14XOFSpec) used() sha3.ShakeHash {
	x := s.fresh()
	if len(s.PreWrite) > 0 {
		_, _ = x.Write(s.PreWrite)
	}
	if s.PreRead > 0 {
		_, _ = io.ReadFull(x, make([]byte, s.PreRead))
	}
	return x
}

func (s c14XOFSpec) cls() []string {
	out := []string{"xof:" + s.Name}
	if len(s.PreWrite) > 0 {
		out = append(out, "xof-prewritten")
	}
	if s.PreRead > 0 {
		out = append(out, "xof-preread")
	}
	return out
}

func (s c14XOFSpec) refNew() func() ref.H2cXOF {
	return func() ref.H2cXOF { return s.fresh() }
}

func c14GenXOFSpec(t *rapid.T) c14XOFSpec {
	var s c14XOFSpec
	s.Name = rapid.SampledFrom([]string{"SHAKE128", "SHAKE128", "SHAKE128", "SHAKE256", "SHAKE256", "SHAKE256", "cSHAKE128", "cSHAKE256"}).Draw(t, "xof")
	if s.Name[0] == 'c' {
		s.N = h.UniformBytes(t, rapid.IntRange(0, 10).Draw(t, "nl"), "N")
		s.S = h.UniformBytes(t, rapid.IntRange(1, 40).Draw(t, "sl"), "S")
	}
	if rapid.IntRange(0, 2).Draw(t, "pre") != 0 {
		s.PreWrite = h.Msg(t, 400, "prewrite")
		// PreRead stays 0: in the x/crypto version pinned by the module
		// (2022-03), sha3's own Clone() panics on an instance that has been
		// read from (slice bounds in state.clone), before the library gets
		// to Reset it.  That is a defect of the trusted primitive, not of
		// the code under test, so squeezed instances are not generated.
	}
	return s
}

type c14XOFCase struct {
	X      c14XOFSpec
	DST    h.Hex
	Msg    h.Hex
	Len    int
	LenCls string
}

func c14GenXOF(t *rapid.T) c14XOFCase {
	x := c14GenXOFSpec(t)
	n, lc := h.C14OutLen(t, x.rate(), "len")
	return c14XOFCase{X: x, DST: h.C14DST(t, "dst"), Msg: h.Msg(t, 600, "msg"), Len: n, LenCls: lc}
}

// c14CallerXOFUntouched: after the call the caller's instance must continue
// exactly like a twin that was never handed to the library.
func c14CallerXOFUntouched(s c14XOFSpec, x sha3.ShakeHash) bool {
	twin := s.used()
	a, b := make([]byte, 40), make([]byte, 40)
	_, _ = io.ReadFull(x, a)
	_, _ = io.ReadFull(twin, b)
	return bytes.Equal(a, b)
}

func c14CheckXOF(c c14XOFCase) h.Result {
	r := h.NewR().Class(c.X.cls()...).Class("len:"+c.LenCls, "dst:"+c14DSTClass(len(c.DST)))
	want, _, rerr := ref.H2cExpandXOF(c.X.refNew(), ref.H2cK, c.Msg, c.DST, c.Len)
	wantErr := rerr != nil || c.Len == 0
	switch {
	case rerr == ref.H2cErrLen:
		r.Class("abort:len>65535")
	case c.Len == 0:
		r.Class("refuse:len=0")
	default:
		r.Class("ok")
	}
	r.NT(len(c.DST) > 255 || wantErr || len(c.X.PreWrite) > 0 || c.X.PreRead > 0 || c.Len%c.X.rate() != 0)

	dst := append([]byte(nil), c.DST...)
	msg := append([]byte(nil), c.Msg...)
	out, backing := c14Buf(c.Len)
	x := c.X.used()
	r.Eval(2)
	err := ExpandMessageXOF(out, x, dst, msg)
	if !bytes.Equal(dst, c.DST) || !bytes.Equal(msg, c.Msg) {
		r.Fail("h2c.ExpandMessageXOF:input-modified", "xof=%s len=%d", c.X.Name, c.Len)
	}
	if !c14GuardIntact(backing, c.Len) {
		r.Fail("h2c.ExpandMessageXOF:wrote-past-out", "xof=%s len=%d", c.X.Name, c.Len)
	}
	if !c14CallerXOFUntouched(c.X, x) {
		r.Fail("h2c.ExpandMessageXOF:caller-xof-modified", "xof=%s prewrite=%d preread=%d len=%d", c.X.Name, len(c.X.PreWrite), c.X.PreRead, c.Len)
	}
	if wantErr {
		if err == nil {
			r.Fail("h2c.ExpandMessageXOF:missing-abort", "xof=%s len=%d dstlen=%d", c.X.Name, c.Len, len(c.DST))
		}
		return r.Result()
	}
	if err != nil {
		return r.Fail("h2c.ExpandMessageXOF:spurious-error", "xof=%s len=%d dstlen=%d: %v", c.X.Name, c.Len, len(c.DST), err).Result()
	}
	if !bytes.Equal(out, want) {
		i := 0
		for i < len(out) && out[i] == want[i] {
			i++
		}
		r.Fail("h2c.ExpandMessageXOF:wrong-output", "xof=%s prewrite=%d preread=%d len=%d dstlen=%d msglen=%d first difference at byte %d: got %x want %x",
			c.X.Name, len(c.X.PreWrite), c.X.PreRead, c.Len, len(c.DST), len(c.Msg), i, c14Window(out, i), c14Window(want, i))
	}
	return r.Result()
}

func TestC14ExpandXOF(t *testing.T) { h.Run(t, c14GenXOF, c14CheckXOF) }

// ---------------------------------------------- the abort boundary, exactly

// For every catalogued hash, every length in {0, 1, 255b-1, 255b, 255b+1,
// 65535, 65536} and both sides of the 255/256-byte DST boundary: exhaustive
// list, so the abort thresholds are decided on every run, not sampled.
func TestC14AbortBoundaries(t *testing.T) {
	var cases []c14XMDCase
	seen := map[string]bool{}
	for _, hn := range c14HashNames {
		if seen[hn] {
			continue
		}
		seen[hn] = true
		b := ref.H2cHashes[hn].B
		for _, n := range []int{0, 1, b - 1, b, b + 1, 254*b + 1, 255*b - 1, 255 * b, 255*b + 1, 256 * b, 65535, 65536} {
			for _, dl := range []int{0, 255, 256} {
				cases = append(cases, c14XMDCase{Hash: hn, DST: bytes.Repeat([]byte{'D'}, dl), Msg: h.Hex("abc"), Len: n, LenCls: "boundary"})
			}
		}
	}
	h.RunList(t, cases, c14CheckXMD)
}
