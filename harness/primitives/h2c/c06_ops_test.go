//go:build verif

package h2c_test

// C06 — all arithmetic backends are observationally identical: primitives/h2c
// (all suites, XMD and XOF expanders).

import (
	"crypto"
	_ "crypto/sha256"
	_ "crypto/sha512"
	"testing"

	"github.com/oasisprotocol/curve25519-voi/curve"
	"github.com/oasisprotocol/curve25519-voi/primitives/h2c"
	"golang.org/x/crypto/sha3"
	"pgregory.net/rapid"
	h "verifh"
)

var c06Hashes = []crypto.Hash{crypto.SHA512, crypto.SHA256, crypto.SHA384, crypto.SHA512_256, crypto.SHA224}

func c06Xof(k int) sha3.ShakeHash {
	if k&1 == 0 {
		return sha3.NewShake128()
	}
	return sha3.NewShake256()
}

func c06EdOut(o *h.DiffOut, tag string, p *curve.EdwardsPoint, err error) {
	o.Err(tag, err)
	if p != nil {
		b, _ := p.MarshalBinary()
		o.Bytes(tag, b)
		o.Bool(tag+".torsionfree", p.IsTorsionFree())
	}
}

func c06RsOut(o *h.DiffOut, tag string, p *curve.RistrettoPoint, err error) {
	o.Err(tag, err)
	if p != nil {
		b, _ := p.MarshalBinary()
		o.Bytes(tag, b)
	}
}

func c06GenDstMsg(t *rapid.T, c *h.DiffCase) {
	c.PutB(h.C14DST(t, "dst"))
	h.DiffMsg(t, c, 400, "msg")
}

func c06H2cOps() []h.DiffOp {
	return []h.DiffOp{
		{Name: "edwards", Weight: 6,
			Covers: []string{"Edwards25519_XMD_SHA512_ELL2_RO", "Edwards25519_XMD_SHA512_ELL2_NU", "Edwards25519_XMD_ELL2_RO", "Edwards25519_XMD_ELL2_NU",
				"Edwards25519_XOF_ELL2_RO", "Edwards25519_XOF_ELL2_NU"},
			Gen: func(t *rapid.T, c *h.DiffCase) {
				c06GenDstMsg(t, c)
				c.PutN(rapid.IntRange(0, len(c06Hashes)-1).Draw(t, "hash"))
				c.PutN(rapid.IntRange(0, 1).Draw(t, "xof"))
			},
			Exec: func(a *h.DiffArgs, o *h.DiffOut) {
				dst, msg := a.B(), a.B()
				hk, xk := a.N(), a.N()
				if hk < 0 || hk >= len(c06Hashes) {
					hk = 0
				}
				p, err := h2c.Edwards25519_XMD_SHA512_ELL2_RO(dst, msg)
				c06EdOut(o, "sha512.ro", p, err)
				p, err = h2c.Edwards25519_XMD_SHA512_ELL2_NU(dst, msg)
				c06EdOut(o, "sha512.nu", p, err)
				p, err = h2c.Edwards25519_XMD_ELL2_RO(c06Hashes[hk], dst, msg)
				c06EdOut(o, "xmd.ro", p, err)
				p, err = h2c.Edwards25519_XMD_ELL2_NU(c06Hashes[hk], dst, msg)
				c06EdOut(o, "xmd.nu", p, err)
				p, err = h2c.Edwards25519_XOF_ELL2_RO(c06Xof(xk), dst, msg)
				c06EdOut(o, "xof.ro", p, err)
				p, err = h2c.Edwards25519_XOF_ELL2_NU(c06Xof(xk), dst, msg)
				c06EdOut(o, "xof.nu", p, err)
			}},
		{Name: "ristretto", Weight: 3,
			Covers: []string{"Ristretto255_XMD_R255MAP_RO", "Ristretto255_XOF_R255MAP_RO"},
			Gen: func(t *rapid.T, c *h.DiffCase) {
				c06GenDstMsg(t, c)
				c.PutN(rapid.IntRange(0, len(c06Hashes)-1).Draw(t, "hash"))
				c.PutN(rapid.IntRange(0, 1).Draw(t, "xof"))
			},
			Exec: func(a *h.DiffArgs, o *h.DiffOut) {
				dst, msg := a.B(), a.B()
				hk, xk := a.N(), a.N()
				if hk < 0 || hk >= len(c06Hashes) {
					hk = 0
				}
				p, err := h2c.Ristretto255_XMD_R255MAP_RO(c06Hashes[hk], dst, msg)
				c06RsOut(o, "xmd", p, err)
				p, err = h2c.Ristretto255_XOF_R255MAP_RO(c06Xof(xk), dst, msg)
				c06RsOut(o, "xof", p, err)
			}},
		{Name: "expand", Weight: 3,
			Covers: []string{"ExpandMessageXMD", "ExpandMessageXOF"},
			Gen: func(t *rapid.T, c *h.DiffCase) {
				c06GenDstMsg(t, c)
				c.PutN(rapid.IntRange(0, len(c06Hashes)-1).Draw(t, "hash"))
				c.PutN(rapid.IntRange(0, 1).Draw(t, "xof"))
				n, _ := h.C14OutLen(t, 64, "outlen")
				if n > 70000 {
					n = 70000
				}
				c.PutN(n)
			},
			Exec: func(a *h.DiffArgs, o *h.DiffOut) {
				dst, msg := a.B(), a.B()
				hk, xk, n := a.N(), a.N(), a.N()
				if hk < 0 || hk >= len(c06Hashes) {
					hk = 0
				}
				if n < 0 || n > 70000 {
					n = 32
				}
				out := make([]byte, n)
				o.Err("xmd", h2c.ExpandMessageXMD(out, c06Hashes[hk], dst, msg))
				o.Bytes("xmd", out)
				out = make([]byte, n)
				o.Err("xof", h2c.ExpandMessageXOF(out, c06Xof(xk), dst, msg))
				o.Bytes("xof", out)
			}},
	}
}

func TestC06H2c(t *testing.T) {
	h.RunDiffOps(t, "primitives/h2c", h.DiffBackend(""), c06H2cOps())
}
