//go:build verif

package merlin_test

// C13 — TranscriptRngBuilder.Finalize(nil): "If rng is nil, crypto/rand.Reader
// will be used".  Metamorphic oracle: two builders with identical histories
// finalized with the default source give different streams, and neither is
// the stream the specification defines for 32 zero bytes of entropy (a nil
// reader must not silently become a zero reader).

import (
	"bytes"
	"testing"

	"github.com/oasisprotocol/curve25519-voi/primitives/merlin"
	h "verifh"
	ref "verifref"
)

type c13NilCase struct{ V int }

func c13CheckNil(c c13NilCase) h.Result {
	r := h.NewR().NT(true).Class("Finalize(nil)").Eval(3)
	mk := func() *merlin.TranscriptRngBuilder {
		t := merlin.NewTranscript("c13-nil")
		t.AppendMessage("m", []byte("message"))
		return t.BuildRng().RekeyWithWitnessBytes("w", []byte("witness"))
	}
	read := func(b *merlin.TranscriptRngBuilder) ([]byte, error) {
		rng, err := b.Finalize(nil)
		if err != nil {
			return nil, err
		}
		out := make([]byte, 32)
		_, err = rng.Read(out)
		return out, err
	}
	a, e1 := read(mk())
	b, e2 := read(mk())
	if e1 != nil || e2 != nil {
		return r.Fail("TranscriptRngBuilder.Finalize(nil):error", "%v %v", e1, e2).Result()
	}
	rt := ref.NewMerlin([]byte("c13-nil"))
	rt.AppendMessage([]byte("m"), []byte("message"))
	zero := rt.BuildRNG().RekeyWithWitnessBytes([]byte("w"), []byte("witness")).Finalize(make([]byte, 32)).FillBytes(32)
	if bytes.Equal(a, b) || bytes.Equal(a, zero) || bytes.Equal(b, zero) {
		r.Fail("TranscriptRngBuilder.Finalize(nil):not-random", "a=%x b=%x zero-entropy=%x", a, b, zero)
	}
	return r.Result()
}

func TestC13NilEntropy(t *testing.T) { h.RunList(t, []c13NilCase{{0}}, c13CheckNil) }
