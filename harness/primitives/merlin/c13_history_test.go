//go:build verif

package merlin_test

// C13 - Merlin/STROBE transcripts follow the spec for every operation history.
//
// A case is a history ([]c13Op) over a forest of transcripts, RNG builders and
// finalized RNGs.  The check function interprets it simultaneously on the
// library (public API only) and on the reference model verifref.Merlin
// (byte-at-a-time STROBE over a textbook Keccak-f[1600]) and compares every
// byte string the library produces.  At the end every live object is asked
// for 32 more bytes, so a branch that was silently disturbed by operations on
// its siblings (clone dependence) is caught even if the history itself never
// read from it again.

import (
	"bytes"
	"fmt"
	"io"
	"strings"
	"testing"

	"github.com/oasisprotocol/curve25519-voi/primitives/merlin"
	"pgregory.net/rapid"
	h "verifh"
	ref "verifref"
)

// c13Op is one step of a history.  Object selectors are taken modulo the
// number of live objects of the required kind, so every value of the type is
// an executable history (shrinking never produces an invalid one); a step
// whose kind of object does not exist is skipped.
type c13Op struct {
	K string    `json:"k"`           // new app ext clone rng rekey fin read
	I int       `json:"i,omitempty"` // object selector
	L h.C13Data `json:"l"`           // label (new: application label)
	D h.C13Data `json:"d"`           // message / witness / entropy
	N int       `json:"n,omitempty"` // output length (ext, read)
	G int       `json:"g,omitempty"` // garbage byte pre-filled into the destination; fin: reader chunking
}

type c13Case struct {
	Ops []c13Op `json:"ops"`
}

// ---------------------------------------------------------------- generator

const c13MaxObjs = 6

// c13GenLens draws a label and a data length for an operation that starts at
// cursor p: either from the catalogue or aimed so that a rate boundary falls
// at a chosen place of the operation's byte stream
// (2 framing | label | 4 length | 2 framing | data).
func c13GenLens(t *rapid.T, p h.C13Pos, forced bool, huge *int) (int, int) {
	var ll, dl int
	if rapid.IntRange(0, 99).Draw(t, "laim") < 35 {
		// boundary k bytes after the end of the label: 0 label ends the block,
		// 1..3 inside the length prefix, 4 prefix ends the block, 5 between the
		// two framing bytes, 6 framing ends the block, 7 after one data byte.
		k := rapid.IntRange(0, 7).Draw(t, "lk")
		ll = h.C13AimLen(t, "l", p.P+2, -k)
	} else {
		ll, _ = h.C13Len(t, "l", false)
	}
	q := p
	q.Begin(false)
	q.Absorb(ll + 4)
	q.Begin(forced)
	if rapid.IntRange(0, 99).Draw(t, "daim") < 35 {
		e := rapid.IntRange(-3, 2).Draw(t, "dk") // data ends 3..1 before, on, 1..2 after the boundary
		dl = h.C13AimLen(t, "d", q.P, e)
	} else {
		var cls string
		dl, cls = h.C13Len(t, "d", *huge > 0)
		if cls == "huge" {
			*huge--
		}
	}
	return ll, dl
}

func c13Track(p *h.C13Pos, ll, dl int, forced bool) {
	p.Begin(false)
	p.Absorb(ll + 4)
	p.Begin(forced)
	p.Absorb(dl)
}

func c13GenHistory(t *rapid.T, maxOps int) c13Case {
	var ops []c13Op
	var tp, bp, rp []h.C13Pos
	// at most one length >= 65536 per history, and only in 1 history out of 8
	// (each costs ~400 permutations on the slow reference)
	huge := 0
	if rapid.IntRange(0, 7).Draw(t, "hugeok") == 0 {
		huge = 1
	}
	newT := func() {
		n, _ := h.C13Len(t, "app", false)
		ops = append(ops, c13Op{K: "new", L: h.C13Content(t, "app", n)})
		var p h.C13Pos
		p.Begin(false)
		p.Absorb(len("Merlin v1.0"))
		c13Track(&p, len("dom-sep"), n, false)
		tp = append(tp, p)
	}
	newT()
	nops := rapid.IntRange(1, maxOps).Draw(t, "nops")
	for len(ops) < nops+1 {
		type choice struct {
			k string
			w int
		}
		cs := []choice{{"app", 35}, {"ext", 25}}
		if len(tp) < c13MaxObjs {
			cs = append(cs, choice{"clone", 12}, choice{"new", 2})
		}
		if len(bp) < c13MaxObjs {
			cs = append(cs, choice{"rng", 10})
		}
		if len(bp) > 0 {
			cs = append(cs, choice{"rekey", 14})
			if len(rp) < c13MaxObjs {
				cs = append(cs, choice{"fin", 9})
			}
		}
		if len(rp) > 0 {
			cs = append(cs, choice{"read", 16})
		}
		tot := 0
		for _, c := range cs {
			tot += c.w
		}
		x := rapid.IntRange(0, tot-1).Draw(t, "op")
		k := ""
		for _, c := range cs {
			if x < c.w {
				k = c.k
				break
			}
			x -= c.w
		}
		g := rapid.SampledFrom([]int{0, 0xff, 0xa5, 0x01}).Draw(t, "g")
		switch k {
		case "new":
			newT()
		case "app":
			i := rapid.IntRange(0, len(tp)-1).Draw(t, "i")
			ll, dl := c13GenLens(t, tp[i], false, &huge)
			ops = append(ops, c13Op{K: k, I: i, L: h.C13Content(t, "l", ll), D: h.C13Content(t, "d", dl), G: g})
			c13Track(&tp[i], ll, dl, false)
		case "ext":
			i := rapid.IntRange(0, len(tp)-1).Draw(t, "i")
			ll, dl := c13GenLens(t, tp[i], true, &huge)
			ops = append(ops, c13Op{K: k, I: i, L: h.C13Content(t, "l", ll), N: dl, G: g})
			c13Track(&tp[i], ll, dl, true)
		case "clone":
			i := rapid.IntRange(0, len(tp)-1).Draw(t, "i")
			ops = append(ops, c13Op{K: k, I: i})
			tp = append(tp, tp[i])
		case "rng":
			i := rapid.IntRange(0, len(tp)-1).Draw(t, "i")
			ops = append(ops, c13Op{K: k, I: i})
			bp = append(bp, tp[i])
		case "rekey":
			i := rapid.IntRange(0, len(bp)-1).Draw(t, "i")
			ll, dl := c13GenLens(t, bp[i], true, &huge)
			ops = append(ops, c13Op{K: k, I: i, L: h.C13Content(t, "l", ll), D: h.C13Content(t, "d", dl), G: g})
			c13Track(&bp[i], ll, dl, true)
		case "fin":
			i := rapid.IntRange(0, len(bp)-1).Draw(t, "i")
			n := 32
			switch e := rapid.IntRange(0, 19).Draw(t, "elen"); {
			case e == 0:
				n = rapid.IntRange(0, 31).Draw(t, "eshort")
			case e < 4:
				n = rapid.IntRange(33, 80).Draw(t, "elong")
			}
			ops = append(ops, c13Op{K: k, I: i, D: h.C13Content(t, "e", n), G: rapid.IntRange(0, 2).Draw(t, "chunk")})
			p := bp[i]
			bp = append(bp[:i:i], bp[i+1:]...)
			if n >= 32 {
				p.Begin(false)
				p.Absorb(3)
				p.Begin(true)
				p.Absorb(32)
				rp = append(rp, p)
			}
		case "read":
			i := rapid.IntRange(0, len(rp)-1).Draw(t, "i")
			var dl int
			if rapid.IntRange(0, 99).Draw(t, "daim") < 35 {
				dl = h.C13AimLen(t, "d", 0, rapid.IntRange(-3, 2).Draw(t, "dk"))
			} else {
				var cls string
				dl, cls = h.C13Len(t, "d", huge > 0)
				if cls == "huge" {
					huge--
				}
			}
			ops = append(ops, c13Op{K: k, I: i, N: dl, G: g})
			rp[i].Begin(false)
			rp[i].Absorb(4)
			rp[i].Begin(true)
			rp[i].Absorb(dl)
		}
	}
	return c13Case{Ops: ops}
}

func c13GenCase(t *rapid.T) c13Case { return c13GenHistory(t, 24) }

// ------------------------------------------------------------------ checker

// c13Reader hands out a fixed byte string in chunks (mode 0: as much as asked,
// 1: one byte per call, 2: at most 7 bytes per call) and then io.EOF.
type c13Reader struct {
	b    []byte
	mode int
	read int
	// eofWithData: the read that delivers the last byte returns io.EOF together
	// with the data (allowed by the io.Reader contract; io.ReadFull copes)
	eofWithData bool
}

func (r *c13Reader) Read(p []byte) (int, error) {
	if len(r.b) == 0 {
		return 0, io.EOF
	}
	n := len(p)
	switch r.mode {
	case 1:
		if n > 1 {
			n = 1
		}
	case 2:
		if n > 7 {
			n = 7
		}
	}
	if n > len(r.b) {
		n = len(r.b)
	}
	copy(p, r.b[:n])
	r.b = r.b[n:]
	r.read += n
	if r.eofWithData && len(r.b) == 0 {
		return n, io.EOF
	}
	return n, nil
}

// c13World holds the library objects and, index by index, their models.
type c13World struct {
	lt []*merlin.Transcript
	lb []*merlin.TranscriptRngBuilder
	lr []io.Reader
}

type c13Model struct {
	rt []*ref.Merlin
	rb []*ref.MerlinRNGBuilder
	rr []*ref.MerlinRNG
}

func c13Sel(i, n int) int {
	if i < 0 {
		i = -i
	}
	return i % n
}

// c13NilIfEmpty turns an empty string into a nil slice for odd g: nil and
// empty inputs are the same zero-length data.
func c13NilIfEmpty(b []byte, g int) []byte {
	if len(b) == 0 && g&1 == 1 {
		return nil
	}
	return b
}

func c13Garbage(n, g int) []byte {
	if n == 0 && g&1 == 1 {
		return nil
	}
	b := make([]byte, n)
	for i := range b {
		b[i] = byte(g)
	}
	return b
}

var c13FinalEntropy = []byte("c13 final entropy, 32 bytes long")

// c13Lib interprets a history on the library, one step at a time.  Every
// produced byte string is passed to out (with the index of the step, -1 for
// the final sweep) in a fixed order; fail reports API-level contract
// violations.  gx is XORed into the garbage pre-filled into destination
// buffers and chunkx added to the entropy-reader chunking mode: neither may
// influence any output.
type c13Lib struct {
	w      c13World
	gx     int
	chunkx int
	out    func(step int, what string, b []byte)
	retired *merlin.TranscriptRngBuilder // the builder of the current "fin" step
	fail   func(sig, format string, a ...interface{})
	dead   bool
}

func (x *c13Lib) step(si int, op c13Op) {
	if x.dead {
		return
	}
	w := &x.w
	switch op.K {
	case "new":
		w.lt = append(w.lt, merlin.NewTranscript(string(op.L.Bytes())))
	case "app":
		if len(w.lt) == 0 {
			return
		}
		i := c13Sel(op.I, len(w.lt))
		msg := c13NilIfEmpty(op.D.Bytes(), op.G)
		w.lt[i].AppendMessage(string(op.L.Bytes()), msg)
		if !bytes.Equal(msg, op.D.Bytes()) {
			x.fail("Transcript.AppendMessage:modified-message", "step %d", si)
		}
		// the message buffer is the caller's and is reused after the call: the
		// transcript has absorbed the bytes, it must not look at them again
		for j := range msg {
			msg[j] ^= 0x5a
		}
	case "ext":
		if len(w.lt) == 0 {
			return
		}
		i := c13Sel(op.I, len(w.lt))
		dest := c13Garbage(op.N, op.G^x.gx)
		w.lt[i].ExtractBytes(dest, string(op.L.Bytes()))
		x.out(si, "Transcript.ExtractBytes", dest)
	case "clone":
		if len(w.lt) == 0 {
			return
		}
		w.lt = append(w.lt, w.lt[c13Sel(op.I, len(w.lt))].Clone())
	case "rng":
		if len(w.lt) == 0 {
			return
		}
		w.lb = append(w.lb, w.lt[c13Sel(op.I, len(w.lt))].BuildRng())
	case "rekey":
		if len(w.lb) == 0 {
			return
		}
		i := c13Sel(op.I, len(w.lb))
		wit := c13NilIfEmpty(op.D.Bytes(), op.G)
		// Both calling styles are in use: chaining on the returned builder (the
		// in-tree test) and statement style on the builder one already holds
		// (sr25519's witnessRng): "rekeys the transcript" must hold for both.
		if (si+len(op.D.Bytes()))%2 == 0 {
			w.lb[i] = w.lb[i].RekeyWithWitnessBytes(string(op.L.Bytes()), wit)
		} else if ret := w.lb[i].RekeyWithWitnessBytes(string(op.L.Bytes()), wit); ret == nil {
			w.lb[i] = nil
		}
		if w.lb[i] == nil {
			x.fail("TranscriptRngBuilder.RekeyWithWitnessBytes:returned-nil", "step %d", si)
			x.dead = true
			return
		}
		if !bytes.Equal(wit, op.D.Bytes()) {
			x.fail("TranscriptRngBuilder.RekeyWithWitnessBytes:modified-witness", "step %d", si)
		}
		for j := range wit {
			wit[j] ^= 0x5a
		}
	case "fin":
		if len(w.lb) == 0 {
			return
		}
		i := c13Sel(op.I, len(w.lb))
		ent := op.D.Bytes()
		rd := &c13Reader{b: ent, mode: (op.G + x.chunkx) % 3, eofWithData: (op.G+x.chunkx)/3%2 == 1}
		x.retired = w.lb[i]
		r, err := w.lb[i].Finalize(rd)
		w.lb = append(w.lb[:i:i], w.lb[i+1:]...)
		if len(ent) < 32 {
			// documented: an error is returned when the entropy source fails
			if err == nil {
				x.fail("TranscriptRngBuilder.Finalize:short-entropy-accepted", "step %d entropy %d bytes", si, len(ent))
				return
			}
			// A Finalize that failed produced nothing and is no part of the Merlin
			// history.  "Finalize invalidates the builder": a second attempt on the
			// same builder may therefore refuse to work (panic or error), but if it
			// does hand out an RNG, that RNG is the one the specification defines for
			// (transcript, witnesses, entropy) - never silently another stream.
			lb := x.retired
			var (
				r2   io.Reader
				err2 error
				buf  = c13Garbage(32, op.G^x.gx)
			)
			pn, _ := h.Catch(func() {
				r2, err2 = lb.Finalize(&c13Reader{b: append([]byte(nil), c13FinalEntropy...), mode: (op.G + x.chunkx) % 3})
				if err2 == nil && r2 != nil {
					_, err2 = io.ReadFull(r2, buf)
				}
			})
			if pn || err2 != nil || r2 == nil {
				x.out(si, "TranscriptRngBuilder.Finalize(retry-after-failed-entropy):invalidated", nil)
			} else {
				x.out(si, "TranscriptRngBuilder.Finalize(retry-after-failed-entropy)", buf)
			}
			return
		}
		if err != nil || r == nil {
			x.fail("TranscriptRngBuilder.Finalize:unexpected-error", "step %d err=%v", si, err)
			x.dead = true
			return
		}
		w.lr = append(w.lr, r)
	case "read":
		if len(w.lr) == 0 {
			return
		}
		i := c13Sel(op.I, len(w.lr))
		dest := c13Garbage(op.N, op.G^x.gx)
		n, err := w.lr[i].Read(dest)
		if n != len(dest) || err != nil {
			x.fail("transcriptRng.Read:short-or-error", "step %d n=%d err=%v want %d", si, n, err, len(dest))
		}
		x.out(si, "transcriptRng.Read", dest)
	}
}

// final sweep: every live object must still be where the model says.
func (x *c13Lib) final() {
	if x.dead {
		return
	}
	for _, t := range x.w.lt {
		dest := c13Garbage(32, 0x5a^x.gx)
		t.ExtractBytes(dest, "c13-final")
		x.out(-1, "final:Transcript.ExtractBytes", dest)
	}
	for _, b := range x.w.lb {
		r, err := b.Finalize(&c13Reader{b: append([]byte(nil), c13FinalEntropy...), mode: x.chunkx % 3, eofWithData: x.chunkx/3%2 == 1})
		if err != nil || r == nil {
			x.fail("TranscriptRngBuilder.Finalize:unexpected-error", "final sweep err=%v", err)
			return
		}
		dest := c13Garbage(32, 0x5a^x.gx)
		if n, err := r.Read(dest); n != 32 || err != nil {
			x.fail("transcriptRng.Read:short-or-error", "final sweep n=%d err=%v", n, err)
		}
		x.out(-1, "final:builder.Finalize.Read", dest)
	}
	for _, r := range x.w.lr {
		dest := c13Garbage(32, 0x5a^x.gx)
		if n, err := r.Read(dest); n != 32 || err != nil {
			x.fail("transcriptRng.Read:short-or-error", "final sweep n=%d err=%v", n, err)
		}
		x.out(-1, "final:transcriptRng.Read", dest)
	}
}

func c13Exec(c c13Case, gx int, chunkx int, out func(step int, what string, b []byte), fail func(sig, format string, a ...interface{})) {
	x := &c13Lib{gx: gx, chunkx: chunkx, out: out, fail: fail}
	for si, op := range c.Ops {
		x.step(si, op)
	}
	x.final()
}

// c13Model interprets the same history on the reference; returns the outputs
// in the same order plus coverage information.
type c13Cov struct {
	ev                        ref.StrobeEvents
	clones, rngs, huge, skips int
	zeroLabel, zeroData       int
	outs                      int
}

func c13AddEv(a *ref.StrobeEvents, b ref.StrobeEvents) {
	// objects cloned from each other share a prefix; max is a faithful
	// "did it happen somewhere" indicator without double counting
	mx := func(x *int, y int) {
		if y > *x {
			*x = y
		}
	}
	mx(&a.Perms, b.Perms)
	mx(&a.FrameStraddle, b.FrameStraddle)
	mx(&a.FrameEndsBlock, b.FrameEndsBlock)
	mx(&a.ForcedF, b.ForcedF)
	mx(&a.ForcedFSkipped, b.ForcedFSkipped)
	mx(&a.DataStraddle, b.DataStraddle)
	mx(&a.DataEndsBlock, b.DataEndsBlock)
	mx(&a.ZeroLenData, b.ZeroLenData)
}

func c13RunModel(c c13Case) ([][]byte, c13Cov) {
	var m c13Model
	var outs [][]byte
	var cov c13Cov
	for _, op := range c.Ops {
		if op.L.N == 0 && (op.K == "app" || op.K == "ext" || op.K == "rekey" || op.K == "new") {
			cov.zeroLabel++
		}
		if (op.D.N == 0 && (op.K == "app" || op.K == "rekey")) || (op.N == 0 && (op.K == "ext" || op.K == "read")) {
			cov.zeroData++
		}
		if op.D.N >= 65536 || op.N >= 65536 {
			cov.huge++
		}
		switch op.K {
		case "new":
			m.rt = append(m.rt, ref.NewMerlin(op.L.Bytes()))
		case "app":
			if len(m.rt) == 0 {
				cov.skips++
				continue
			}
			m.rt[c13Sel(op.I, len(m.rt))].AppendMessage(op.L.Bytes(), op.D.Bytes())
		case "ext":
			if len(m.rt) == 0 {
				cov.skips++
				continue
			}
			outs = append(outs, m.rt[c13Sel(op.I, len(m.rt))].ChallengeBytes(op.L.Bytes(), op.N))
		case "clone":
			if len(m.rt) == 0 {
				cov.skips++
				continue
			}
			m.rt = append(m.rt, m.rt[c13Sel(op.I, len(m.rt))].Clone())
			cov.clones++
		case "rng":
			if len(m.rt) == 0 {
				cov.skips++
				continue
			}
			m.rb = append(m.rb, m.rt[c13Sel(op.I, len(m.rt))].BuildRNG())
			cov.rngs++
		case "rekey":
			if len(m.rb) == 0 {
				cov.skips++
				continue
			}
			i := c13Sel(op.I, len(m.rb))
			m.rb[i] = m.rb[i].RekeyWithWitnessBytes(op.L.Bytes(), op.D.Bytes())
		case "fin":
			if len(m.rb) == 0 {
				cov.skips++
				continue
			}
			i := c13Sel(op.I, len(m.rb))
			b := m.rb[i]
			m.rb = append(m.rb[:i:i], m.rb[i+1:]...)
			ent := op.D.Bytes()
			if len(ent) < 32 {
				// the failed attempt is not part of the history: a retry (if the
				// library allows one) yields the RNG of the untouched builder
				rr := b.Finalize(c13FinalEntropy)
				outs = append(outs, rr.FillBytes(32))
				c13AddEv(&cov.ev, rr.Events())
				continue
			}
			m.rr = append(m.rr, b.Finalize(ent[:32]))
		case "read":
			if len(m.rr) == 0 {
				cov.skips++
				continue
			}
			outs = append(outs, m.rr[c13Sel(op.I, len(m.rr))].FillBytes(op.N))
		default:
			cov.skips++
		}
	}
	for _, t := range m.rt {
		outs = append(outs, t.ChallengeBytes([]byte("c13-final"), 32))
		c13AddEv(&cov.ev, t.Events())
	}
	for _, b := range m.rb {
		r := b.Finalize(c13FinalEntropy)
		outs = append(outs, r.FillBytes(32))
		c13AddEv(&cov.ev, r.Events())
	}
	for _, r := range m.rr {
		outs = append(outs, r.FillBytes(32))
		c13AddEv(&cov.ev, r.Events())
	}
	cov.outs = len(outs)
	return outs, cov
}

func c13Classify(r *h.R, c c13Case, cov c13Cov) {
	flag := func(b bool, name string) {
		if b {
			r.Class(name)
		}
	}
	e := cov.ev
	flag(e.FrameStraddle > 0, "ev:boundary-between-framing-bytes")
	flag(e.FrameEndsBlock > 0, "ev:framing-ends-block")
	flag(e.ForcedFSkipped > 0, "ev:C-op-framing-ends-block(no forced F)")
	flag(e.DataStraddle > 0, "ev:boundary-inside-data")
	flag(e.DataEndsBlock > 0, "ev:data-ends-block")
	flag(cov.zeroLabel > 0, "has:empty-label")
	flag(cov.zeroData > 0, "has:empty-data")
	flag(cov.clones > 0, "has:clone")
	flag(cov.rngs > 0, "has:rng")
	flag(cov.huge > 0, "has:len>=65536")
	switch n := len(c.Ops); {
	case n <= 4:
		r.Class("ops:1-4")
	case n <= 12:
		r.Class("ops:5-12")
	default:
		r.Class("ops:13+")
	}
	// non-trivial by the DESIGN rule: some operation's bytes straddle or end
	// exactly on a rate boundary, or the history has a clone or an RNG.
	r.NT(e.FrameStraddle+e.FrameEndsBlock+e.DataStraddle+e.DataEndsBlock > 0 || cov.clones > 0 || cov.rngs > 0)
}

func c13CheckHistory(c c13Case) h.Result {
	r := h.NewR()
	want, cov := c13RunModel(c)
	c13Classify(r, c, cov)
	k := 0
	c13Exec(c, 0, 0, func(step int, what string, got []byte) {
		r.Eval(1)
		if k >= len(want) {
			r.Fail("harness:model-output-count", "library produced more outputs than the model")
			return
		}
		if strings.HasSuffix(what, ":invalidated") {
			r.Class("retry-after-failed-Finalize:refused")
		} else if !bytes.Equal(got, want[k]) {
			r.Fail("merlin."+what+":differs-from-spec", "output #%d at step %d (%d bytes): got %s want %s",
				k, step, len(got), c13Short(got), c13Short(want[k]))
		}
		k++
	}, func(sig, format string, a ...interface{}) { r.Fail("merlin."+sig, format, a...) })
	if !r.Failed() && k != len(want) {
		r.Fail("harness:model-output-count", "library produced %d outputs, model %d", k, len(want))
	}
	return r.Result()
}

func c13Short(b []byte) string {
	if len(b) > 48 {
		return fmt.Sprintf("%x...(%d)", b[:48], len(b))
	}
	return fmt.Sprintf("%x", b)
}

func TestC13History(t *testing.T) { h.Run(t, c13GenCase, c13CheckHistory) }

// ------------------------------------------------------------- determinism
//
// Identical histories give identical outputs: the history is executed on two
// independent sets of library objects, interleaved step by step (so that any
// state shared between unrelated transcripts would show), with different
// garbage in the destination buffers and a different chunking of the entropy
// reader, and a third time afterwards.  The outputs must be identical - and,
// being a lock-step run, equal to the model's.

var c13Refused = []byte("\x00retry-after-failed-Finalize:refused")

func c13CheckTwin(c c13Case) h.Result {
	r := h.NewR()
	want, cov := c13RunModel(c)
	c13Classify(r, c, cov)
	fail := func(sig, format string, a ...interface{}) { r.Fail("merlin."+sig, format, a...) }
	var outs [3][][]byte
	keep := func(k int) func(int, string, []byte) {
		return func(_ int, what string, got []byte) {
			if strings.HasSuffix(what, ":invalidated") {
				got = c13Refused
			}
			outs[k] = append(outs[k], append([]byte(nil), got...))
		}
	}
	a := &c13Lib{gx: 0, chunkx: 0, out: keep(0), fail: fail}
	b := &c13Lib{gx: 0xff, chunkx: 1, out: keep(1), fail: fail}
	for si, op := range c.Ops {
		a.step(si, op)
		b.step(si, op)
	}
	b.final()
	a.final()
	c13Exec(c, 0x3c, 2, keep(2), fail)
	if r.Failed() {
		return r.Result()
	}
	cmp := func(name string, x, y [][]byte) {
		if len(x) != len(y) {
			r.Fail("merlin.determinism:output-count", "%s: %d vs %d outputs", name, len(x), len(y))
			return
		}
		for i := range x {
			r.Eval(1)
			if name == "differs-from-spec" && bytes.Equal(x[i], c13Refused) {
				continue // a retry after a failed Finalize may be refused (see step "fin")
			}
			if !bytes.Equal(x[i], y[i]) {
				r.Fail("merlin.determinism:"+name, "output #%d: %s vs %s", i, c13Short(x[i]), c13Short(y[i]))
				return
			}
		}
	}
	cmp("interleaved-twins-differ", outs[0], outs[1])
	cmp("second-run-differs", outs[0], outs[2])
	cmp("differs-from-spec", outs[2], want)
	return r.Result()
}

func TestC13Twin(t *testing.T) {
	h.Run(t, func(t *rapid.T) c13Case { return c13GenHistory(t, 12) }, c13CheckTwin)
}
