//go:build verif

package merlin_test

import (
	"testing"

	h "verifh"
)

// Coverage-guided variant of the history property (thorough tier).
func FuzzC13History(f *testing.F) { h.Fuzz(f, c13GenCase, c13CheckHistory) }
