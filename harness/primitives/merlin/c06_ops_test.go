//go:build verif

package merlin_test

// C06 — all arithmetic backends are observationally identical: primitives/merlin
// (transcripts over STROBE; the Keccak permutation differs between builds).

import (
	"testing"

	"github.com/oasisprotocol/curve25519-voi/primitives/merlin"
	"pgregory.net/rapid"
	h "verifh"
)

var c06MerlinKinds = []string{"append", "extract", "clone", "rng"}

func c06MerlinOps() []h.DiffOp {
	return []h.DiffOp{
		{Name: "transcript", Weight: 1,
			Covers: []string{"NewTranscript", "Transcript.AppendMessage", "Transcript.ExtractBytes", "Transcript.Clone", "Transcript.BuildRng",
				"TranscriptRngBuilder.RekeyWithWitnessBytes", "TranscriptRngBuilder.Finalize", "(unexported)transcriptRng.Read"},
			Gen: func(t *rapid.T, c *h.DiffCase) {
				c.PutB(h.Msg(t, 200, "applabel"))
				n := rapid.IntRange(1, 8).Draw(t, "steps")
				c.PutN(n)
				for i := 0; i < n; i++ {
					k := rapid.IntRange(0, len(c06MerlinKinds)-1).Draw(t, "kind")
					c.PutN(k)
					c.PutB(h.Msg(t, 40, "label"))
					switch c06MerlinKinds[k] {
					case "append":
						c.PutB(h.Msg(t, 500, "msg"))
					case "extract":
						c.PutN(h.MsgLen(t, 500, "outlen"))
					case "rng":
						nw := rapid.IntRange(0, 2).Draw(t, "witnesses")
						c.PutN(nw)
						for j := 0; j < nw; j++ {
							c.PutB(h.Msg(t, 200, "witness"))
						}
						h.DiffEntropy(t, c, rapid.SampledFrom([]int{32, 0, 1, 64}).Draw(t, "rlen"), "rng")
						c.PutN(h.MsgLen(t, 400, "readlen"))
					}
				}
			},
			Exec: func(a *h.DiffArgs, o *h.DiffOut) {
				tr := merlin.NewTranscript(string(a.B()))
				var clones []*merlin.Transcript
				n := a.N()
				for i := 0; i < n && i < 32; i++ {
					k := a.N()
					if k < 0 || k >= len(c06MerlinKinds) {
						k = 0
					}
					label := string(a.B())
					switch c06MerlinKinds[k] {
					case "append":
						tr.AppendMessage(label, a.B())
					case "extract":
						l := a.N()
						if l < 0 || l > 4096 {
							l = 32
						}
						dest := make([]byte, l)
						tr.ExtractBytes(dest, label)
						o.Bytes("extract", dest)
					case "clone":
						clones = append(clones, tr.Clone())
					case "rng":
						rb := tr.BuildRng()
						nw := a.N()
						for j := 0; j < nw && j < 4; j++ {
							rb = rb.RekeyWithWitnessBytes(label, a.B())
						}
						rng, err := rb.Finalize(h.NewDiffReader(a.B()))
						o.Err("finalize", err)
						l := a.N()
						if l < 0 || l > 4096 {
							l = 32
						}
						if rng != nil {
							buf := make([]byte, l)
							nr, err := rng.Read(buf)
							o.Err("read", err)
							o.Int("read.n", int64(nr))
							o.Bytes("read", buf)
							nr, err = rng.Read(buf[:l/2])
							o.Err("read2", err)
							o.Bytes("read2", buf[:l/2])
						}
					}
				}
				var fin [32]byte
				tr.ExtractBytes(fin[:], "final")
				o.Bytes("final", fin[:])
				for _, cl := range clones {
					cl.ExtractBytes(fin[:], "final")
					o.Bytes("clone", fin[:])
				}
			}},
	}
}

func TestC06Merlin(t *testing.T) {
	h.RunDiffOps(t, "primitives/merlin", h.DiffBackend(""), c06MerlinOps())
}
