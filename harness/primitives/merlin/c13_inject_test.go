//go:build verif

package merlin_test

// C13 - injectivity: histories that differ in any label, message, length
// split or ordering give different challenges.
//
// A case is a linear history (one transcript, optionally followed by an RNG
// tail BuildRng -> Rekey* -> Finalize -> Read*) plus the description of one
// structural mutation.  Both histories are materialised to explicit byte
// strings; if the mutation happened to leave the history structurally
// unchanged (checked first) the case is trivial.  Otherwise both are executed
// on the library and the closing 32-byte challenge (and the closing 32 RNG
// bytes) must differ.  Operations on the RNG side must NOT change the
// transcript's challenge (BuildRng works on a copy).
//
// Why a structural difference must change the state (so that equality would
// be a 2^-128 event, not an artefact of the encoding): every Merlin operation
// is meta-AD(label || LE32(len)) followed by AD/PRF/KEY; STROBE's begin-op
// framing (old position marker + flags byte, position marker folded into the
// padding) makes the sequence of (flags, data) pairs uniquely parseable, the
// last four bytes of the meta-AD data are the length, the rest is the label.

import (
	"bytes"
	"testing"

	"github.com/oasisprotocol/curve25519-voi/primitives/merlin"
	"pgregory.net/rapid"
	h "verifh"
)

type c13Mut struct {
	Kind string `json:"kind"`
	At   int    `json:"at"`
	Pos  int    `json:"pos"`
	Bit  int    `json:"bit"`
}

type c13InjCase struct {
	App h.C13Data `json:"app"`
	Ops []c13Op   `json:"ops"` // app / ext on the single transcript
	Rng []c13Op   `json:"rng"` // rekey* fin read* (empty: no RNG tail)
	Mut c13Mut    `json:"mut"`
}

// c13Step is a fully materialised operation.
type c13Step struct {
	K string
	L []byte
	D []byte
	N int
}

var c13MutKinds = []string{"label-bit", "data-bit", "shift-split", "split-op", "swap", "delete", "dup", "trail-zero", "kind", "label-trail-zero"}

func c13GenInj(t *rapid.T) c13InjCase {
	var c c13InjCase
	n, _ := h.C13Len(t, "app", false)
	c.App = h.C13Content(t, "app", n)
	lens := func(lbl string) int {
		if rapid.IntRange(0, 2).Draw(t, lbl+"_sm") > 0 {
			return rapid.IntRange(0, 12).Draw(t, lbl+"_s")
		}
		n, _ := h.C13Len(t, lbl, false)
		return n
	}
	nops := rapid.IntRange(0, 6).Draw(t, "nops")
	for i := 0; i < nops; i++ {
		if rapid.IntRange(0, 3).Draw(t, "k") == 0 {
			c.Ops = append(c.Ops, c13Op{K: "ext", L: h.C13Content(t, "l", lens("l")), N: lens("n")})
		} else {
			c.Ops = append(c.Ops, c13Op{K: "app", L: h.C13Content(t, "l", lens("l")), D: h.C13Content(t, "d", lens("d"))})
		}
	}
	if rapid.IntRange(0, 2).Draw(t, "tail") == 0 {
		for i := rapid.IntRange(0, 3).Draw(t, "nrekey"); i > 0; i-- {
			c.Rng = append(c.Rng, c13Op{K: "rekey", L: h.C13Content(t, "l", lens("l")), D: h.C13Content(t, "d", lens("d"))})
		}
		c.Rng = append(c.Rng, c13Op{K: "fin", D: h.C13Data{N: 32, M: 2, S: rapid.Uint64().Draw(t, "ent")}})
		for i := rapid.IntRange(0, 3).Draw(t, "nread"); i > 0; i-- {
			c.Rng = append(c.Rng, c13Op{K: "read", N: lens("n")})
		}
	}
	// choose among the mutations that are applicable to this history
	// (construction, not rejection); flipping a bit of the application label
	// always is.
	base, tail := c13Materialise(c)
	type cand struct {
		kind string
		at   int
	}
	var cands []cand
	for _, k := range c13MutKinds {
		for at := range base {
			if _, _, _, ok := c13ApplyMut(base, tail, c13Mut{Kind: k, At: at}); ok {
				cands = append(cands, cand{k, at})
			}
		}
	}
	kinds := map[string][]int{}
	var present []string
	for _, k := range c13MutKinds {
		for _, cd := range cands {
			if cd.kind == k {
				kinds[k] = append(kinds[k], cd.at)
			}
		}
		if len(kinds[k]) > 0 {
			present = append(present, k)
		}
	}
	kind := rapid.SampledFrom(present).Draw(t, "mkind")
	c.Mut = c13Mut{
		Kind: kind,
		At:   rapid.SampledFrom(kinds[kind]).Draw(t, "mat"),
		Pos:  rapid.IntRange(0, 699).Draw(t, "mpos"),
		Bit:  rapid.IntRange(0, 7).Draw(t, "mbit"),
	}
	return c
}

// c13Materialise turns the case into explicit steps: [new] (app|ext)* then
// the tail from index tailStart on.  Out-of-shape entries are dropped so that
// every value of the case type is meaningful.
func c13Materialise(c c13InjCase) (steps []c13Step, tailStart int) {
	steps = append(steps, c13Step{K: "new", L: c.App.Bytes()})
	for _, op := range c.Ops {
		switch op.K {
		case "app":
			steps = append(steps, c13Step{K: "app", L: op.L.Bytes(), D: op.D.Bytes()})
		case "ext":
			steps = append(steps, c13Step{K: "ext", L: op.L.Bytes(), N: c13Abs(op.N)})
		}
	}
	tailStart = len(steps)
	var rekeys, reads []c13Step
	var fin *c13Step
	for _, op := range c.Rng {
		switch op.K {
		case "rekey":
			if fin == nil {
				rekeys = append(rekeys, c13Step{K: "rekey", L: op.L.Bytes(), D: op.D.Bytes()})
			}
		case "fin":
			if fin == nil {
				e := make([]byte, 32)
				copy(e, op.D.Bytes())
				fin = &c13Step{K: "fin", D: e}
			}
		case "read":
			if fin != nil {
				reads = append(reads, c13Step{K: "read", N: c13Abs(op.N)})
			}
		}
	}
	if fin != nil {
		steps = append(steps, rekeys...)
		steps = append(steps, *fin)
		steps = append(steps, reads...)
	}
	return steps, tailStart
}

func c13Abs(n int) int {
	if n < 0 {
		return -n
	}
	return n
}

func c13CopySteps(s []c13Step) []c13Step {
	out := make([]c13Step, len(s))
	for i, x := range s {
		out[i] = c13Step{K: x.K, L: append([]byte(nil), x.L...), D: append([]byte(nil), x.D...), N: x.N}
	}
	return out
}

func c13StepsEqual(a, b []c13Step) bool {
	if len(a) != len(b) {
		return false
	}
	for i := range a {
		if a[i].K != b[i].K || a[i].N != b[i].N || !bytes.Equal(a[i].L, b[i].L) || !bytes.Equal(a[i].D, b[i].D) {
			return false
		}
	}
	return true
}

func c13HasLabel(k string) bool { return k == "new" || k == "app" || k == "ext" || k == "rekey" }
func c13HasData(k string) bool  { return k == "app" || k == "rekey" || k == "fin" }
func c13HasN(k string) bool     { return k == "ext" || k == "read" }

// c13ApplyMut returns the mutated history and the new tail start.  at is the
// (first) index that differs.  ok=false: mutation not applicable here.
func c13ApplyMut(base []c13Step, tailStart int, m c13Mut) (mut []c13Step, newTail int, at int, ok bool) {
	mut = c13CopySteps(base)
	newTail = tailStart
	at = c13Abs(m.At) % len(mut)
	s := &mut[at]
	pos, bit := c13Abs(m.Pos), uint(c13Abs(m.Bit)%8)
	insert := func(i int, x c13Step) {
		mut = append(mut, c13Step{})
		copy(mut[i+1:], mut[i:])
		mut[i] = x
		if at < tailStart { // the new step belongs to the transcript section
			newTail++
		}
	}
	switch m.Kind {
	case "label-bit":
		if !c13HasLabel(s.K) {
			return nil, 0, 0, false
		}
		if len(s.L) == 0 {
			s.L = []byte{1 << bit}
		} else {
			s.L[pos%len(s.L)] ^= 1 << bit
		}
	case "data-bit":
		switch {
		case c13HasData(s.K):
			if len(s.D) == 0 {
				s.D = []byte{1 << bit}
			} else {
				s.D[pos%len(s.D)] ^= 1 << bit
			}
		case c13HasN(s.K):
			s.N ^= 1 << (bit % 5)
		default:
			return nil, 0, 0, false
		}
	case "shift-split":
		// the concatenation label||data is unchanged, only the split moves
		if s.K != "app" && s.K != "rekey" {
			return nil, 0, 0, false
		}
		switch {
		case len(s.L) > 0 && (bit&1 == 0 || len(s.D) == 0):
			s.D = append([]byte{s.L[len(s.L)-1]}, s.D...)
			s.L = s.L[:len(s.L)-1]
		case len(s.D) > 0:
			s.L = append(s.L, s.D[0])
			s.D = s.D[1:]
		default:
			return nil, 0, 0, false
		}
	case "split-op":
		// one operation becomes two with the same label and the data cut in two
		switch {
		case s.K == "app" || s.K == "rekey":
			cut := pos % (len(s.D) + 1)
			second := c13Step{K: s.K, L: append([]byte(nil), s.L...), D: append([]byte(nil), s.D[cut:]...)}
			s.D = s.D[:cut]
			insert(at+1, second)
		case c13HasN(s.K):
			cut := pos % (s.N + 1)
			second := c13Step{K: s.K, L: append([]byte(nil), s.L...), N: s.N - cut}
			s.N = cut
			insert(at+1, second)
		default:
			return nil, 0, 0, false
		}
	case "swap":
		if at+1 >= len(mut) {
			return nil, 0, 0, false
		}
		a, b := mut[at], mut[at+1]
		sameSection := (at+1 < tailStart) || (at >= tailStart)
		okKinds := func(k string) bool { return k == "app" || k == "ext" }
		if at >= tailStart {
			okKinds = func(k string) bool { return k == a.K && (k == "rekey" || k == "read") }
		}
		if !sameSection || !okKinds(a.K) || !okKinds(b.K) {
			return nil, 0, 0, false
		}
		mut[at], mut[at+1] = b, a
	case "delete":
		if s.K == "new" || s.K == "fin" {
			return nil, 0, 0, false
		}
		mut = append(mut[:at], mut[at+1:]...)
		if at < tailStart {
			newTail--
		}
	case "dup":
		if s.K == "new" || s.K == "fin" {
			return nil, 0, 0, false
		}
		insert(at+1, c13CopySteps(mut[at : at+1])[0])
	case "trail-zero":
		switch {
		case s.K == "app" || s.K == "rekey":
			s.D = append(s.D, 0)
		case c13HasN(s.K):
			s.N++
		default:
			return nil, 0, 0, false
		}
	case "label-trail-zero":
		if !c13HasLabel(s.K) {
			return nil, 0, 0, false
		}
		s.L = append(s.L, 0)
	case "kind":
		switch s.K {
		case "app":
			s.K, s.N, s.D = "ext", len(s.D), nil
		case "ext":
			s.K, s.D, s.N = "app", make([]byte, s.N), 0
		default:
			return nil, 0, 0, false
		}
	default:
		return nil, 0, 0, false
	}
	return mut, newTail, at, true
}

// c13RunSteps executes a linear history on the library and returns the
// closing transcript challenge and (if there is a tail) the closing RNG bytes.
func c13RunSteps(steps []c13Step, tailStart int) (chal, rng []byte, err error) {
	var tr *merlin.Transcript
	var rb *merlin.TranscriptRngBuilder
	var rd interface {
		Read([]byte) (int, error)
	}
	for i, s := range steps {
		if i == tailStart {
			rb = tr.BuildRng()
		}
		switch s.K {
		case "new":
			tr = merlin.NewTranscript(string(s.L))
		case "app":
			tr.AppendMessage(string(s.L), s.D)
		case "ext":
			tr.ExtractBytes(make([]byte, s.N), string(s.L))
		case "rekey":
			rb = rb.RekeyWithWitnessBytes(string(s.L), s.D)
		case "fin":
			r, e := rb.Finalize(bytes.NewReader(s.D))
			if e != nil {
				return nil, nil, e
			}
			rd = r
		case "read":
			if _, e := rd.Read(make([]byte, s.N)); e != nil {
				return nil, nil, e
			}
		}
	}
	chal = make([]byte, 32)
	tr.ExtractBytes(chal, "c13-inj")
	if rd != nil {
		rng = make([]byte, 32)
		if _, e := rd.Read(rng); e != nil {
			return nil, nil, e
		}
	}
	return chal, rng, nil
}

func c13CheckInj(c c13InjCase) h.Result {
	r := h.NewR()
	base, tail := c13Materialise(c)
	mut, mtail, at, ok := c13ApplyMut(base, tail, c.Mut)
	if !ok {
		return r.Class("mut:not-applicable").Result()
	}
	if c13StepsEqual(base, mut) {
		// structurally the same history (e.g. swapping two equal operations)
		return r.Class("mut:structurally-equal").Result()
	}
	inTail := at >= tail
	r.Class("mut:" + c.Mut.Kind)
	if inTail {
		r.Class("where:rng-tail")
	} else {
		r.Class("where:transcript")
	}
	if tail < len(base) {
		r.Class("has:rng")
	}
	r.NT(true)
	c0, g0, err := c13RunSteps(base, tail)
	if err != nil {
		return r.Fail("merlin.TranscriptRngBuilder.Finalize:unexpected-error", "%v", err).Result()
	}
	c1, g1, err := c13RunSteps(mut, mtail)
	if err != nil {
		return r.Fail("merlin.TranscriptRngBuilder.Finalize:unexpected-error", "%v", err).Result()
	}
	if inTail {
		// RNG-side operations work on a copy of the transcript
		r.Eval(2)
		if !bytes.Equal(c0, c1) {
			r.Fail("merlin.BuildRng:rng-operations-changed-transcript", "mutation %+v at step %d: challenge %x vs %x", c.Mut, at, c0, c1)
		}
		if bytes.Equal(g0, g1) {
			r.Fail("merlin.injectivity:rng-collision", "mutation %+v at step %d (%s): both RNGs gave %x", c.Mut, at, base[at].K, g0)
		}
		return r.Result()
	}
	r.Eval(1)
	if bytes.Equal(c0, c1) {
		r.Fail("merlin.injectivity:challenge-collision", "mutation %+v at step %d (%s): both histories gave %x", c.Mut, at, base[at].K, c0)
	}
	if g0 != nil && g1 != nil {
		r.Eval(1)
		if bytes.Equal(g0, g1) {
			r.Fail("merlin.injectivity:rng-collision", "mutation %+v at step %d (%s): both RNGs gave %x", c.Mut, at, base[at].K, g0)
		}
	}
	return r.Result()
}

func TestC13Injective(t *testing.T) { h.Run(t, c13GenInj, c13CheckInj) }
