//go:build verif

package merlin_test

// C13 — operands whose 32-bit little-endian length framing needs its FOURTH
// byte (>= 2^24 bytes; the documented limit is 2^32-1).  The generated
// histories stop at 2^17 bytes (where the third byte becomes visible); here
// one message, one challenge, one witness and one rng read of 2^24 + a few
// bytes are compared with the reference, together with the operation after
// them (the length is also bound into the state: a challenge of 2^24+32 bytes
// must not start with the bytes of a 32-byte challenge).

import (
	"bytes"
	"testing"

	"github.com/oasisprotocol/curve25519-voi/primitives/merlin"
	h "verifh"
	ref "verifref"
)

type c13Len32Case struct {
	Op string
	N  int
}

func c13BigData(n int) []byte {
	pat := h.Expand(uint64(n), 4093) // prime period: no alignment with the rate
	b := make([]byte, n)
	for i := 0; i < n; i += len(pat) {
		copy(b[i:], pat)
	}
	return b
}

func c13CheckLen32(c c13Len32Case) h.Result {
	r := h.NewR().NT(true).Class(c.Op).Eval(2)
	lt := merlin.NewTranscript("c13-len32")
	rt := ref.NewMerlin([]byte("c13-len32"))
	tail := func(what string) {
		got := make([]byte, 32)
		lt.ExtractBytes(got, "after")
		if want := rt.ChallengeBytes([]byte("after"), 32); !bytes.Equal(got, want) {
			r.Fail("merlin."+what+":state-differs-from-spec-afterwards", "n=%d: next challenge %x want %x", c.N, got, want)
		}
	}
	switch c.Op {
	case "AppendMessage":
		data := c13BigData(c.N)
		lt.AppendMessage("big", data)
		rt.AppendMessage([]byte("big"), data)
		tail("Transcript.AppendMessage")
	case "ExtractBytes":
		got := make([]byte, c.N)
		lt.ExtractBytes(got, "big")
		want := rt.ChallengeBytes([]byte("big"), c.N)
		if !bytes.Equal(got, want) {
			r.Fail("merlin.Transcript.ExtractBytes:differs-from-spec", "n=%d: first bytes %x want %x", c.N, got[:32], want[:32])
		}
		small := make([]byte, 32)
		merlin.NewTranscript("c13-len32").ExtractBytes(small, "big")
		if bytes.Equal(got[:32], small) {
			r.Fail("merlin.Transcript.ExtractBytes:length-not-bound", "a challenge of %d bytes starts with the 32-byte challenge", c.N)
		}
		tail("Transcript.ExtractBytes")
	case "Witness+Read":
		wit := c13BigData(c.N)
		rng, err := lt.BuildRng().RekeyWithWitnessBytes("w", wit).Finalize(bytes.NewReader(bytes.Repeat([]byte{7}, 32)))
		if err != nil {
			return r.Fail("merlin.TranscriptRngBuilder.Finalize:unexpected-error", "%v", err).Result()
		}
		rr := rt.BuildRNG().RekeyWithWitnessBytes([]byte("w"), wit).Finalize(bytes.Repeat([]byte{7}, 32))
		got := make([]byte, c.N+2)
		if n, err := rng.Read(got); err != nil || n != len(got) {
			return r.Fail("merlin.transcriptRng.Read:short-or-error", "n=%d err=%v", n, err).Result()
		}
		if want := rr.FillBytes(c.N + 2); !bytes.Equal(got, want) {
			r.Fail("merlin.transcriptRng.Read:differs-from-spec", "witness and read of 2^24+ bytes: first bytes %x want %x", got[:32], want[:32])
		}
		g2 := make([]byte, 32)
		_, _ = rng.Read(g2)
		if want := rr.FillBytes(32); !bytes.Equal(g2, want) {
			r.Fail("merlin.transcriptRng.Read:state-differs-from-spec-afterwards", "%x want %x", g2, want)
		}
	}
	return r.Result()
}

func TestC13Len32(t *testing.T) {
	h.RunList(t, []c13Len32Case{{"AppendMessage", 1<<24 + 5}, {"ExtractBytes", 1<<24 + 32}, {"Witness+Read", 1<<24 + 1}, {"AppendMessage", 1 << 24}, {"ExtractBytes", 1<<24 - 1}}, c13CheckLen32)
}
