//go:build verif

package x25519

// C20 — the X25519 base point constant equals its definition: the
// u-coordinate (1+y)/(1-y) of the Ed25519 base point (= 9), little-endian.
//
// Coverage of package-level vars/consts of x25519.go:
//   Basepoint (exported slice, set by init), basePoint (backing array) -> both checked by value;
//   ScalarSize, PointSize, PrivateKeySize, PublicKeySize, SharedSecretSize, seedSize -> checked (trivial sizes, all 32).

import (
	"bytes"
	"testing"

	h "verifh"
	ref "verifref"
)

type c20Case struct{ Name string }

func c20Check(c c20Case) h.Result {
	r := h.NewR().Class(c.Name)
	want := ref.FEncode(ref.Base.MontgomeryU())
	r.Eval(1)
	switch c.Name {
	case "Basepoint":
		r.NT(true)
		if !bytes.Equal(Basepoint, want) {
			r.Fail("x25519.Basepoint:wrong-value", "got %x want %x", Basepoint, want)
		}
	case "basePoint":
		r.NT(true)
		if !bytes.Equal(basePoint[:], want) {
			r.Fail("x25519.basePoint:wrong-value", "got %x want %x", basePoint[:], want)
		}
	case "sizes":
		if ScalarSize != 32 || PointSize != 32 || PrivateKeySize != 32 || PublicKeySize != 32 || SharedSecretSize != 32 || seedSize != 32 {
			r.Fail("x25519.sizes:wrong-value", "")
		}
	default:
		r.Fail("harness:unknown-case", "%q", c.Name)
	}
	return r.Result()
}

func TestC20X25519Basepoint(t *testing.T) {
	h.RunList(t, []c20Case{{"Basepoint"}, {"basePoint"}, {"sizes"}}, c20Check)
}
