//go:build verif

package x25519_test

// C07 — GenerateKey(nil) / GeneratePrivateKey(nil): "If rand is nil,
// crypto/rand.Reader will be used".

import (
	"bytes"
	"testing"

	"github.com/oasisprotocol/curve25519-voi/primitives/x25519"
	h "verifh"
	ref "verifref"
)

type c07NilCase struct{ V int }

func c07CheckNil(c c07NilCase) h.Result {
	r := h.NewR().NT(true).Class("GenerateKey(nil)").Eval(4)
	pub1, priv1, err1 := x25519.GenerateKey(nil)
	priv2, err2 := x25519.GeneratePrivateKey(nil)
	if err1 != nil || err2 != nil || pub1 == nil || priv1 == nil || priv2 == nil {
		return r.Fail("x25519.GenerateKey(nil):error", "%v %v", err1, err2).Result()
	}
	if bytes.Equal(priv1[:], priv2[:]) || bytes.Equal(priv1[:], make([]byte, 32)) || bytes.Equal(priv2[:], make([]byte, 32)) {
		r.Fail("x25519.GenerateKey(nil):not-random", "%x %x", priv1[:], priv2[:])
	}
	if w := ref.X25519(priv1[:], c07Nine()); !bytes.Equal(pub1[:], w) {
		r.Fail("x25519.GenerateKey(nil):inconsistent-pair", "priv=%x pub=%x want=%x", priv1[:], pub1[:], w)
	}
	pub2 := priv2.Public()
	if w := ref.X25519(priv2[:], c07Nine()); !bytes.Equal(pub2[:], w) {
		r.Fail("x25519.GeneratePrivateKey(nil):inconsistent-pair", "priv=%x pub=%x want=%x", priv2[:], pub2[:], w)
	}
	s1, s2 := priv1.DiffieHellman(pub2), priv2.DiffieHellman(pub1)
	if !bytes.Equal(s1[:], s2[:]) || !bytes.Equal(s1[:], ref.X25519(priv1[:], pub2[:])) {
		r.Fail("x25519.PrivateKey.DiffieHellman:not-symmetric", "generated keys %x %x", priv1[:], priv2[:])
	}
	return r.Result()
}

func TestC07NilEntropy(t *testing.T) { h.RunList(t, []c07NilCase{{0}}, c07CheckNil) }
