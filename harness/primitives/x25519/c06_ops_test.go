//go:build verif

package x25519_test

// C06 — all arithmetic backends are observationally identical: primitives/x25519.

import (
	"math/big"
	"testing"

	"github.com/oasisprotocol/curve25519-voi/primitives/ed25519"
	"github.com/oasisprotocol/curve25519-voi/primitives/x25519"
	"pgregory.net/rapid"
	h "verifh"
	ref "verifref"
)

// c06GenU appends a u-coordinate string: low-order points (incl. their
// non-canonical spellings), u of curve points, twist points, catalogue values.
func c06GenU(t *rapid.T, c *h.DiffCase, label string) {
	switch rapid.IntRange(0, 7).Draw(t, label+"_uk") {
	case 0: // low order: 0, 1, p-1, p, p+1, the order-8 u's, each optionally + bit 255
		var cands []*big.Int
		for _, tp := range ref.Torsion8() {
			if tp.Y.Cmp(big.NewInt(1)) == 0 {
				cands = append(cands, big.NewInt(0))
				continue
			}
			cands = append(cands, tp.MontgomeryU())
		}
		cands = append(cands, big.NewInt(1), new(big.Int).Sub(ref.P, big.NewInt(1)), new(big.Int).Set(ref.P), new(big.Int).Add(ref.P, big.NewInt(1)))
		b := ref.ToLE(cands[rapid.IntRange(0, len(cands)-1).Draw(t, label+"_lo")], 32)
		if rapid.Bool().Draw(t, label+"_hi") {
			b[31] |= 0x80
		}
		c.PutB(b)
	case 1, 2: // u of a generated curve point (possibly with torsion)
		c.PutB(ref.ToLE(h.DiffRef(h.GenPointSpec(t, label, true)).MontgomeryU(), 32))
	case 3:
		c.PutB([]byte{9, 0, 0, 0, 0, 0, 0, 0, 0, 0, 0, 0, 0, 0, 0, 0, 0, 0, 0, 0, 0, 0, 0, 0, 0, 0, 0, 0, 0, 0, 0, 0})
	default:
		h.DiffBytes32(t, c, label)
	}
}

func c06X25519Ops() []h.DiffOp {
	return []h.DiffOp{
		{Name: "x25519", Weight: 8,
			Covers: []string{"X25519", "ScalarMult", "PrivateKey.DiffieHellman", "SharedSecret.IsZero"},
			Gen: func(t *rapid.T, c *h.DiffCase) {
				if rapid.IntRange(0, 9).Draw(t, "hostile") == 0 {
					h.DiffSized(t, c, 32, "k")
					h.DiffSized(t, c, 32, "u")
				} else {
					h.DiffBytes32(t, c, "k")
					c06GenU(t, c, "u")
				}
			},
			Exec: func(a *h.DiffArgs, o *h.DiffOut) {
				k, u := a.B(), a.B()
				out, err := x25519.X25519(k, u)
				o.Err("x25519", err)
				o.Bytes("x25519", out)
				if len(k) != 32 || len(u) != 32 {
					return
				}
				var dst, kk, uu [32]byte
				copy(kk[:], k)
				copy(uu[:], u)
				x25519.ScalarMult(&dst, &kk, &uu)
				o.Bytes("scalarmult", dst[:])
				priv, pub := x25519.PrivateKey(kk), x25519.PublicKey(uu)
				ss := priv.DiffieHellman(&pub)
				o.Bytes("dh", ss[:])
				o.Bool("dh.zero", ss.IsZero())
				// iterate (RFC 7748 style): the output becomes the next scalar
				for i := 0; i < 3; i++ {
					x25519.ScalarMult(&dst, &kk, &uu)
					uu, kk = kk, dst
				}
				o.Bytes("iterated", kk[:])
			}},
		{Name: "base", Weight: 5,
			Covers: []string{"ScalarBaseMult", "X25519", "Basepoint", "PrivateKey.Public"},
			Gen:    func(t *rapid.T, c *h.DiffCase) { h.DiffBytes32(t, c, "k") },
			Exec: func(a *h.DiffArgs, o *h.DiffOut) {
				k := a.B()
				if len(k) != 32 {
					return
				}
				var dst, kk [32]byte
				copy(kk[:], k)
				x25519.ScalarBaseMult(&dst, &kk)
				o.Bytes("scalarbasemult", dst[:])
				out, err := x25519.X25519(k, x25519.Basepoint) // the pointer-identity fast path
				o.Err("x25519.basepoint", err)
				o.Bytes("x25519.basepoint", out)
				out, err = x25519.X25519(k, append([]byte{}, x25519.Basepoint...)) // same bytes, ladder path
				o.Err("x25519.nine", err)
				o.Bytes("x25519.nine", out)
				priv := x25519.PrivateKey(kk)
				o.Bytes("public", priv.Public()[:])
				o.Bytes("basepoint", x25519.Basepoint)
			}},
		{Name: "keygen", Weight: 2,
			Covers: []string{"GenerateKey", "GeneratePrivateKey"},
			Gen: func(t *rapid.T, c *h.DiffCase) {
				h.DiffEntropy(t, c, rapid.SampledFrom([]int{32, 64, 0, 1}).Draw(t, "n"), "rng")
			},
			Exec: func(a *h.DiffArgs, o *h.DiffOut) {
				rnd := a.B()
				priv, err := x25519.GeneratePrivateKey(h.NewDiffReader(rnd))
				o.Err("genpriv", err)
				if priv != nil {
					o.Bytes("genpriv", priv[:])
				}
				pub, priv2, err := x25519.GenerateKey(h.NewDiffReader(rnd))
				o.Err("genkey", err)
				if pub != nil && priv2 != nil {
					o.Bytes("genkey.pub", pub[:])
					o.Bytes("genkey.priv", priv2[:])
				}
			}},
		{Name: "edconvert", Weight: 4,
			Covers: []string{"EdPrivateKeyToX25519", "EdPublicKeyToX25519"},
			Gen: func(t *rapid.T, c *h.DiffCase) {
				h.DiffEntropy(t, c, 32, "seed")
				if rapid.IntRange(0, 7).Draw(t, "hostile") == 0 {
					h.DiffSized(t, c, 32, "pk")
				} else {
					b, _ := h.GenPointBytes(t, "pk")
					c.PutB(b)
				}
			},
			Exec: func(a *h.DiffArgs, o *h.DiffOut) {
				seed, pk := a.B(), a.B()
				if len(seed) == 32 {
					priv := ed25519.NewKeyFromSeed(seed)
					xs := x25519.EdPrivateKeyToX25519(priv)
					o.Bytes("priv", xs)
					xp, ok := x25519.EdPublicKeyToX25519(priv.Public().(ed25519.PublicKey))
					o.Bool("own.ok", ok)
					o.Bytes("own", xp)
					// both routes to the X25519 public key agree or not: recorded
					if len(xs) == 32 {
						var dst, kk [32]byte
						copy(kk[:], xs)
						x25519.ScalarBaseMult(&dst, &kk)
						o.Bytes("own.viabase", dst[:])
					}
				}
				xp, ok := x25519.EdPublicKeyToX25519(pk)
				o.Bool("pub.ok", ok)
				o.Bytes("pub", xp)
			}},
	}
}

func TestC06X25519(t *testing.T) {
	h.RunDiffOps(t, "primitives/x25519", h.DiffBackend(""), c06X25519Ops())
}
