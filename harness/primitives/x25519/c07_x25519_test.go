//go:build verif

package x25519_test

// C07 — X25519 is the RFC 7748 function on every input and rejects low-order
// results.  Oracles: verifref.X25519 (RFC 7748 section 5 transcribed into
// math/big), crypto/ecdh and golang.org/x/crypto/curve25519 (two further
// independent implementations).  The three oracles must agree with each other
// before the library is judged.

import (
	"bytes"
	"crypto/ecdh"
	stded "crypto/ed25519"
	"crypto/sha512"
	"io"
	"testing"

	"github.com/oasisprotocol/curve25519-voi/primitives/ed25519"
	"github.com/oasisprotocol/curve25519-voi/primitives/x25519"
	xcurve "golang.org/x/crypto/curve25519"
	"pgregory.net/rapid"
	h "verifh"
	ref "verifref"
)

var c07Zero = make([]byte, 32)

func c07Nine() []byte { return ref.X25519BasepointU() }

// c07Oracle computes X25519(k, u) three ways.  ok=false means the oracles
// disagree (a harness problem, never a finding against the library).
func c07Oracle(k, u []byte) (want []byte, ok bool, detail string) {
	want = ref.X25519(k, u)
	isZero := bytes.Equal(want, c07Zero)
	var dst, ka, ua [32]byte
	copy(ka[:], k)
	copy(ua[:], u)
	xcurve.ScalarMult(&dst, &ka, &ua) //nolint:staticcheck
	if !bytes.Equal(dst[:], want) {
		return want, false, "x/crypto ScalarMult differs from verifref"
	}
	if _, err := xcurve.X25519(k, u); (err != nil) != isZero {
		return want, false, "x/crypto X25519 error condition differs from verifref"
	}
	priv, err := ecdh.X25519().NewPrivateKey(k)
	if err != nil {
		return want, false, "crypto/ecdh NewPrivateKey: " + err.Error()
	}
	pub, err := ecdh.X25519().NewPublicKey(u)
	if err != nil {
		return want, false, "crypto/ecdh NewPublicKey: " + err.Error()
	}
	got, err := priv.ECDH(pub)
	if (err != nil) != isZero {
		return want, false, "crypto/ecdh error condition differs from verifref"
	}
	if err == nil && !bytes.Equal(got, want) {
		return want, false, "crypto/ecdh differs from verifref"
	}
	return want, true, ""
}

func c07UInfo(r *h.R, u []byte) (nontrivial bool) {
	raw := append([]byte(nil), u...)
	raw[31] &= 0x7f
	v := ref.FromLE(raw)
	nc := v.Cmp(ref.P) >= 0
	red := ref.FMod(v)
	lo := false
	for _, l := range ref.X25519LowOrderU() {
		if l.Cmp(red) == 0 {
			lo = true
		}
	}
	tw := !ref.X25519OnCurve(red)
	switch {
	case lo:
		r.Class("u:low-order")
	case tw:
		r.Class("u:twist")
	default:
		r.Class("u:curve")
	}
	if nc {
		r.Class("u:non-canonical")
	}
	if u[31]&0x80 != 0 {
		r.Class("u:bit255")
	}
	return lo || tw || nc || u[31]&0x80 != 0
}

// ------------------------------------------------------- variable-base

type c07MulCase struct {
	Scalar, U  h.Hex
	SCls, UCls string
}

func c07GenMul(t *rapid.T) c07MulCase {
	if rapid.IntRange(0, 11).Draw(t, "engineered-output") == 0 {
		if k, u, cls, ok := h.C07EngineeredPair(t, "eo"); ok {
			return c07MulCase{Scalar: k, U: u, SCls: "engineered", UCls: cls}
		}
	}
	k, kc := h.C07Scalar(t, "k")
	u, uc := h.C07U(t, "u")
	return c07MulCase{Scalar: k, U: u, SCls: kc, UCls: uc}
}

func c07CheckMul(c c07MulCase) h.Result {
	r := h.NewR().Class("k:"+c.SCls, "ucls:"+c.UCls)
	if len(c.Scalar) != 32 || len(c.U) != 32 {
		return r.Fail("harness:bad-case", "").Result()
	}
	k, u := append([]byte(nil), c.Scalar...), append([]byte(nil), c.U...)
	nt := c07UInfo(r, u)
	if h.C07ClampedWrongWay(k) {
		r.Class("k:clamp-changes")
		nt = true
	}
	r.NT(nt)
	want, ok, why := c07Oracle(k, u)
	if !ok {
		return r.Fail("harness:oracle-disagreement", "k=%x u=%x: %s", k, u, why).Result()
	}
	isZero := bytes.Equal(want, c07Zero)
	if isZero {
		r.Class("zero-output")
	}

	// deprecated unchecked entry point: always the RFC value, zero included
	r.Eval(1)
	var dst, ka, ua [32]byte
	copy(ka[:], k)
	copy(ua[:], u)
	for i := range dst {
		dst[i] = 0xa5
	}
	x25519.ScalarMult(&dst, &ka, &ua)
	if !bytes.Equal(dst[:], want) {
		r.Fail("x25519.ScalarMult:wrong-output", "k=%x u=%x got=%x want=%x", k, u, dst[:], want)
	}
	if !bytes.Equal(ka[:], k) || !bytes.Equal(ua[:], u) {
		r.Fail("x25519.ScalarMult:input-modified", "k=%x u=%x", k, u)
	}
	// the destination may be the scalar or the point (in-place use, e.g. the
	// RFC 7748 iteration k, u = X25519(k, u), k)
	al := ka
	x25519.ScalarMult(&al, &al, &ua)
	if !bytes.Equal(al[:], want) {
		r.Fail("x25519.ScalarMult(dst-is-the-scalar):wrong-output", "k=%x u=%x got=%x want=%x", k, u, al[:], want)
	}
	al = ua
	x25519.ScalarMult(&al, &ka, &al)
	if !bytes.Equal(al[:], want) {
		r.Fail("x25519.ScalarMult(dst-is-the-point):wrong-output", "k=%x u=%x got=%x want=%x", k, u, al[:], want)
	}
	// scalar and point are one object: X25519(k, k); and all three are
	al = ka
	wantKK := ref.X25519(k, k)
	var d2 [32]byte
	x25519.ScalarMult(&d2, &al, &al)
	if !bytes.Equal(d2[:], wantKK) || !bytes.Equal(al[:], k) {
		r.Fail("x25519.ScalarMult(scalar-is-the-point):wrong-output", "k=u=%x got=%x want=%x", k, d2[:], wantKK)
	}
	x25519.ScalarMult(&al, &al, &al)
	if !bytes.Equal(al[:], wantKK) {
		r.Fail("x25519.ScalarMult(all-three-one-object):wrong-output", "k=u=%x got=%x want=%x", k, al[:], wantKK)
	}
	kk := append([]byte(nil), k...)
	if o2, err := x25519.X25519(kk, kk); (err != nil) != bytes.Equal(wantKK, make([]byte, 32)) || (err == nil && !bytes.Equal(o2, wantKK)) || !bytes.Equal(kk, k) {
		r.Fail("x25519.X25519(scalar-is-the-point):wrong-output", "k=u=%x got=%x err=%v want=%x", k, o2, err, wantKK)
	}

	// checked entry point: error exactly when the result is all zero
	r.Eval(1)
	out, err := x25519.X25519(k, u)
	if isZero {
		if err == nil {
			r.Fail("x25519.X25519:accepted-low-order", "k=%x u=%x out=%x", k, u, out)
		}
	} else if err != nil {
		r.Fail("x25519.X25519:spurious-error", "k=%x u=%x err=%v want=%x", k, u, err, want)
	} else if !bytes.Equal(out, want) {
		r.Fail("x25519.X25519:wrong-output", "k=%x u=%x got=%x want=%x", k, u, out, want)
	}
	if !bytes.Equal(k, c.Scalar) || !bytes.Equal(u, c.U) {
		r.Fail("x25519.X25519:input-modified", "k=%x u=%x", []byte(c.Scalar), []byte(c.U))
	}

	// typed API
	r.Eval(1)
	priv, pub := x25519.PrivateKey(ka), x25519.PublicKey(ua)
	ss := priv.DiffieHellman(&pub)
	if ss == nil || !bytes.Equal(ss[:], want) {
		r.Fail("x25519.PrivateKey.DiffieHellman:wrong-output", "k=%x u=%x want=%x", k, u, want)
	} else if ss.IsZero() != isZero {
		r.Fail("x25519.SharedSecret.IsZero:wrong", "secret=%x got=%v", ss[:], ss.IsZero())
	}
	return r.Result()
}

func TestC07ScalarMult(t *testing.T) { h.Run(t, c07GenMul, c07CheckMul) }

// TestC07SpecialList: every low-order string and every u in [p, 2^255) (both
// values of bit 255), u = 2..18 and their aliases, against scalars covering
// all 32 combinations of the clamping-sensitive bits.
func TestC07SpecialList(t *testing.T) {
	var us [][]byte
	us = append(us, ref.X25519LowOrderStrings()...)
	for _, y := range h.NonCanonicalYs() {
		b := ref.ToLE(y, 32)
		us = append(us, b)
		c := append([]byte(nil), b...)
		c[31] |= 0x80
		us = append(us, c)
	}
	for v := byte(2); v < 19; v++ {
		b := make([]byte, 32)
		b[0] = v
		us = append(us, b)
	}
	var cases []c07MulCase
	for i, u := range us {
		for bits := 0; bits < 32; bits++ {
			if (i+bits)%4 != 0 && i >= 14 { // all 32 combinations on the low-order strings, 8 on the rest
				continue
			}
			k := h.Expand(uint64(1000+i*32+bits), 32)
			k[0] = k[0]&^7 | byte(bits&7)
			k[31] = k[31]&^0xc0 | byte(bits>>3)<<6
			cases = append(cases, c07MulCase{Scalar: k, U: u, SCls: "list", UCls: "list"})
		}
	}
	h.RunList(t, cases, c07CheckMul)
}

// ------------------------------------------------------------ fixed base

type c07BaseCase struct {
	Scalar h.Hex
	SCls   string
}

func c07GenBase(t *rapid.T) c07BaseCase {
	k, kc := h.C07Scalar(t, "k")
	return c07BaseCase{Scalar: k, SCls: kc}
}

func c07CheckBase(c c07BaseCase) h.Result {
	r := h.NewR().Class("k:" + c.SCls)
	if len(c.Scalar) != 32 {
		return r.Fail("harness:bad-case", "").Result()
	}
	k := append([]byte(nil), c.Scalar...)
	r.NT(h.C07ClampedWrongWay(k))
	want, ok, why := c07Oracle(k, c07Nine())
	if !ok {
		return r.Fail("harness:oracle-disagreement", "k=%x: %s", k, why).Result()
	}
	// fourth, mathematical, statement: u([clamp(k)]B) through the Edwards reference
	if m := ref.FEncode(ref.MulBase(ref.X25519DecodeScalar(k)).MontgomeryU()); !bytes.Equal(m, want) {
		return r.Fail("harness:oracle-disagreement", "k=%x: Edwards base multiplication gives %x, ladder %x", k, m, want).Result()
	}
	var ka, dst, nine [32]byte
	copy(ka[:], k)
	copy(nine[:], c07Nine())

	r.Eval(5)
	x25519.ScalarBaseMult(&dst, &ka)
	if !bytes.Equal(dst[:], want) {
		r.Fail("x25519.ScalarBaseMult:wrong-output", "k=%x got=%x want=%x", k, dst[:], want)
	}
	var dst2 [32]byte
	x25519.ScalarMult(&dst2, &ka, &nine)
	if !bytes.Equal(dst2[:], want) {
		r.Fail("x25519.ScalarMult:wrong-output", "k=%x u=9 got=%x want=%x", k, dst2[:], want)
	}
	// same slice => fixed-base path
	out, err := x25519.X25519(k, x25519.Basepoint)
	if err != nil || !bytes.Equal(out, want) {
		r.Fail("x25519.X25519:wrong-output-basepoint", "k=%x got=%x err=%v want=%x", k, out, err, want)
	}
	// equal contents, different slice => ladder path
	out, err = x25519.X25519(k, c07Nine())
	if err != nil || !bytes.Equal(out, want) {
		r.Fail("x25519.X25519:wrong-output", "k=%x u=9(copy) got=%x err=%v want=%x", k, out, err, want)
	}
	priv := x25519.PrivateKey(ka)
	if pub := priv.Public(); pub == nil || !bytes.Equal(pub[:], want) {
		r.Fail("x25519.PrivateKey.Public:wrong-output", "k=%x want=%x", k, want)
	}
	if !bytes.Equal(x25519.Basepoint, c07Nine()) {
		r.Fail("x25519.Basepoint:modified", "now %x", x25519.Basepoint)
	}
	if !bytes.Equal(ka[:], k) || !bytes.Equal(k, c.Scalar) {
		r.Fail("x25519.ScalarBaseMult:input-modified", "k=%x", []byte(c.Scalar))
	}
	return r.Result()
}

func TestC07Base(t *testing.T) { h.Run(t, c07GenBase, c07CheckBase) }

// --------------------------------------------------------------- lengths

type c07LenCase struct {
	NS, NP    int
	BasePoint bool // pass the package's Basepoint slice itself (only when NP == 32)
	// View: 1 = the point is the prefix Basepoint[:NP] of the package's own slice
	// (NP <= 32: same first element, wrong length unless NP == 32); 2 = scalar
	// and point are interior views of larger buffers (spare capacity, valid
	// data beyond the end)
	View int `json:",omitempty"`
}

func c07CheckLen(c c07LenCase) h.Result {
	r := h.NewR().Class("len").NT(c.NS != 32 || c.NP != 32)
	k := bytes.Repeat([]byte{0x5a}, c.NS)
	var p, kb, pb []byte
	if c.View == 1 && c.NP <= 32 {
		p = x25519.Basepoint[:c.NP]
	} else if c.View == 2 {
		kb = bytes.Repeat([]byte{0x5a}, c.NS+40)
		k = kb[5 : 5+c.NS]
		pb = make([]byte, c.NP+40)
		for i := range pb {
			pb[i] = 9 // what lies beyond the view looks like more point bytes
		}
		p = pb[3 : 3+c.NP]
		for i := 1; i < len(p); i++ {
			p[i] = 0
		}
	} else if c.BasePoint {
		p = x25519.Basepoint
	} else {
		p = make([]byte, c.NP)
		if c.NP > 0 {
			p[0] = 9
		}
	}
	wantErr := c.NS != 32 || len(p) != 32
	r.Eval(1)
	var out []byte
	var err error
	if pn, v := h.Catch(func() { out, err = x25519.X25519(k, p) }); pn {
		return r.Fail("x25519.X25519:panic-on-length", "scalar len %d point len %d: %v", c.NS, len(p), v).Result()
	}
	if c.View == 2 {
		if !bytes.Equal(kb, bytes.Repeat([]byte{0x5a}, len(kb))) {
			r.Fail("x25519.X25519:wrote-to-scalar-buffer", "scalar len %d point len %d", c.NS, c.NP)
		}
		for i, b := range pb {
			if (i < 3 || i >= 3+c.NP) && b != 9 {
				r.Fail("x25519.X25519:wrote-outside-point-view", "scalar len %d point len %d offset %d", c.NS, c.NP, i-3)
			}
		}
	}
	if !bytes.Equal(x25519.Basepoint, c07Nine()) {
		r.Fail("x25519.Basepoint:modified", "now %x", x25519.Basepoint)
	}
	if wantErr {
		if err == nil {
			r.Fail("x25519.X25519:accepted-wrong-length", "scalar len %d point len %d out=%x", c.NS, len(p), out)
		}
		return r.Result()
	}
	want := ref.X25519(k, c07Nine())
	if err != nil || !bytes.Equal(out, want) {
		r.Fail("x25519.X25519:wrong-output", "k=%x got=%x err=%v want=%x", k, out, err, want)
	}
	return r.Result()
}

func TestC07Lengths(t *testing.T) {
	var cases []c07LenCase
	for n := 0; n <= 70; n++ {
		cases = append(cases, c07LenCase{NS: n, NP: 32}, c07LenCase{NS: 32, NP: n}, c07LenCase{NS: n, NP: n},
			c07LenCase{NS: n, NP: 32, BasePoint: true})
	}
	for _, n := range []int{96, 128, 255, 256, 1024} {
		cases = append(cases, c07LenCase{NS: n, NP: 32}, c07LenCase{NS: 32, NP: n}, c07LenCase{NS: n, NP: 32, BasePoint: true})
	}
	for n := 0; n <= 32; n++ {
		cases = append(cases, c07LenCase{NS: 32, NP: n, View: 1}, c07LenCase{NS: n, NP: n, View: 1})
	}
	for n := 0; n <= 70; n++ {
		cases = append(cases, c07LenCase{NS: 32, NP: n, View: 2}, c07LenCase{NS: n, NP: 32, View: 2}, c07LenCase{NS: n, NP: n, View: 2})
	}
	h.RunList(t, cases, c07CheckLen)
}

// ------------------------------------------- the exported Basepoint, written to

// x25519.Basepoint is an exported, writable slice.  A caller (or a stray
// write through an alias) that changes its bytes in place and then passes it
// to X25519 hands the function OTHER 32 bytes at the same address.  "The RFC
// 7748 function on every input" leaves two sound outcomes: the library refuses
// (it has a guard that panics: "global Basepoint value was modified") or it
// computes the function of the bytes it was actually given (error exactly when
// the result is all zero).  What can never be right is the silent result for
// u = 9, or an accepted low-order value.  The slice is restored before the
// case ends (the state is global).
type c07ModCase struct {
	K     h.Hex
	U     h.Hex  // what is written over Basepoint
	Index int    // -1: all 32 bytes of U are written; otherwise only byte Index takes U[Index]
	Via   int    // 0: X25519(k, Basepoint); 1: ScalarMult with a copy (control: must be the RFC value of the bytes)
	UCls  string `json:",omitempty"`
}

func c07GenMod(t *rapid.T) c07ModCase {
	k, _ := h.C07Scalar(t, "k")
	u, cls := h.C07U(t, "u")
	return c07ModCase{K: k, U: u, Index: rapid.IntRange(-1, 31).Draw(t, "index"), Via: rapid.IntRange(0, 3).Draw(t, "via") / 3, UCls: cls}
}

func c07CheckMod(c c07ModCase) h.Result {
	r := h.NewR().Class("basepoint-written:" + c.UCls)
	if len(c.K) != 32 || len(c.U) != 32 || c.Index < -1 || c.Index > 31 {
		return r.Result()
	}
	nine := c07Nine()
	if !bytes.Equal(x25519.Basepoint, nine) {
		return r.Fail("x25519.Basepoint:modified", "before the case: %x", x25519.Basepoint).Result()
	}
	given := append([]byte(nil), nine...)
	if c.Index < 0 {
		copy(given, c.U)
	} else {
		given[c.Index] = c.U[c.Index]
	}
	changed := !bytes.Equal(given, nine)
	r.NT(changed)
	want, ok, detail := c07Oracle(c.K, given)
	if !ok {
		return r.Fail("harness:oracle-disagreement", "k=%x u=%x: %s", []byte(c.K), given, detail).Result()
	}
	wantErr := bytes.Equal(want, c07Zero)
	defer copy(x25519.Basepoint, nine)
	copy(x25519.Basepoint, given)
	r.Eval(1)
	var out []byte
	var err error
	if c.Via == 1 {
		var dst, ka, ua [32]byte
		copy(ka[:], c.K)
		copy(ua[:], x25519.Basepoint)
		if pn, v := h.Catch(func() { x25519.ScalarMult(&dst, &ka, &ua) }); pn { //nolint:staticcheck
			return r.Fail("x25519.ScalarMult:panic", "%v", v).Result()
		}
		if !bytes.Equal(dst[:], want) {
			r.Fail("x25519.ScalarMult:wrong-output", "k=%x u=%x got=%x want=%x", []byte(c.K), given, dst, want)
		}
		return r.Result()
	}
	pn, v := h.Catch(func() { out, err = x25519.X25519(c.K, x25519.Basepoint) })
	if !bytes.Equal(x25519.Basepoint, given) {
		r.Fail("x25519.X25519:wrote-to-its-point-argument", "now %x", x25519.Basepoint)
	}
	if pn {
		if !changed {
			r.Fail("x25519.X25519:panic", "Basepoint intact, yet: %v", v)
		}
		return r.Class("refused-by-panic").Result()
	}
	switch {
	case wantErr && err == nil:
		r.Fail("x25519.X25519(modified-Basepoint):accepted-low-order-point", "k=%x u=%x out=%x", []byte(c.K), given, out)
	case !wantErr && err != nil:
		// an error is a refusal too (nothing is handed out)
		r.Class("refused-by-error")
	case !wantErr && !bytes.Equal(out, want):
		r.Fail("x25519.X25519(modified-Basepoint):not-the-function-of-the-bytes-given", "k=%x u=%x got=%x want=%x (for u=9: %x)",
			[]byte(c.K), given, out, want, ref.X25519(c.K, nine))
	default:
		r.Class("computed-on-the-bytes-given")
	}
	return r.Result()
}

func TestC07BasepointWritten(t *testing.T) { h.Run(t, c07GenMod, c07CheckMod) }

// --------------------------------------------------------- Diffie-Hellman

type c07DHCase struct {
	A, B       h.Hex // private scalars (any 32 bytes)
	ACls, BCls string
	Entropy    h.Hex // stream for GenerateKey
	Chunk      int   // the reader hands out at most Chunk bytes per Read
}

type c07Reader struct {
	b     []byte
	chunk int
	eof   bool // the read delivering the last byte also returns io.EOF (legal for an io.Reader)
}

func (r *c07Reader) Read(p []byte) (int, error) {
	if len(r.b) == 0 {
		return 0, io.EOF
	}
	n := len(p)
	if n > r.chunk {
		n = r.chunk
	}
	if n > len(r.b) {
		n = len(r.b)
	}
	copy(p, r.b[:n])
	r.b = r.b[n:]
	if r.eof && len(r.b) == 0 {
		return n, io.EOF
	}
	return n, nil
}

func c07GenDH(t *rapid.T) c07DHCase {
	a, ac := h.C07Scalar(t, "a")
	b, bc := h.C07Scalar(t, "b")
	n := rapid.SampledFrom([]int{0, 1, 31, 32, 32, 32, 33, 64, 64}).Draw(t, "elen")
	return c07DHCase{A: a, B: b, ACls: ac, BCls: bc, Entropy: h.UniformBytes(t, n, "entropy"),
		Chunk: rapid.SampledFrom([]int{1, 7, 32, 64}).Draw(t, "chunk")}
}

func c07CheckDH(c c07DHCase) h.Result {
	r := h.NewR().Class("a:"+c.ACls, "b:"+c.BCls)
	if len(c.A) != 32 || len(c.B) != 32 || c.Chunk < 1 {
		return r.Fail("harness:bad-case", "").Result()
	}
	r.NT(h.C07ClampedWrongWay(c.A) || h.C07ClampedWrongWay(c.B))
	a, b := append([]byte(nil), c.A...), append([]byte(nil), c.B...)
	wantPA, wantPB := ref.X25519(a, c07Nine()), ref.X25519(b, c07Nine())
	wantS := ref.X25519(a, wantPB)
	if w2 := ref.X25519(b, wantPA); !bytes.Equal(wantS, w2) {
		return r.Fail("harness:oracle-disagreement", "reference DH not symmetric a=%x b=%x", a, b).Result()
	}
	r.Eval(4)
	pa, err := x25519.X25519(a, x25519.Basepoint)
	if err != nil || !bytes.Equal(pa, wantPA) {
		return r.Fail("x25519.X25519:wrong-output-basepoint", "k=%x got=%x err=%v want=%x", a, pa, err, wantPA).Result()
	}
	pb, err := x25519.X25519(b, x25519.Basepoint)
	if err != nil || !bytes.Equal(pb, wantPB) {
		return r.Fail("x25519.X25519:wrong-output-basepoint", "k=%x got=%x err=%v want=%x", b, pb, err, wantPB).Result()
	}
	sab, err1 := x25519.X25519(a, pb)
	sba, err2 := x25519.X25519(b, pa)
	if err1 != nil || err2 != nil {
		r.Fail("x25519.X25519:spurious-error", "a=%x b=%x err=%v/%v", a, b, err1, err2)
	} else if !bytes.Equal(sab, sba) {
		r.Fail("x25519.X25519:dh-not-symmetric", "a=%x b=%x ab=%x ba=%x", a, b, sab, sba)
	} else if !bytes.Equal(sab, wantS) {
		r.Fail("x25519.X25519:wrong-output", "a=%x b=%x shared=%x want=%x", a, b, sab, wantS)
	}
	// typed API
	r.Eval(2)
	var ka, kb x25519.PrivateKey
	copy(ka[:], a)
	copy(kb[:], b)
	s1, s2 := ka.DiffieHellman(kb.Public()), kb.DiffieHellman(ka.Public())
	if !bytes.Equal(s1[:], s2[:]) {
		r.Fail("x25519.PrivateKey.DiffieHellman:not-symmetric", "a=%x b=%x", a, b)
	} else if !bytes.Equal(s1[:], wantS) {
		r.Fail("x25519.PrivateKey.DiffieHellman:wrong-output", "a=%x b=%x got=%x want=%x", a, b, s1[:], wantS)
	}

	// GenerateKey: the pair is consistent, entropy exhaustion is an error.
	r.Eval(1)
	pub, priv, err := x25519.GenerateKey(&c07Reader{b: append([]byte(nil), c.Entropy...), chunk: c.Chunk, eof: len(c.Entropy) > 0 && c.Entropy[0]&1 == 1})
	if len(c.Entropy) < 32 {
		r.Class("entropy-short")
		if err == nil {
			r.Fail("x25519.GenerateKey:no-error-on-short-entropy", "entropy len %d", len(c.Entropy))
		}
	} else if err != nil || pub == nil || priv == nil {
		r.Fail("x25519.GenerateKey:spurious-error", "entropy len %d err=%v", len(c.Entropy), err)
	} else {
		if w := ref.X25519(priv[:], c07Nine()); !bytes.Equal(pub[:], w) {
			r.Fail("x25519.GenerateKey:inconsistent-pair", "priv=%x pub=%x want=%x", priv[:], pub[:], w)
		}
		// a generated key interoperates with party a
		s3, s4 := priv.DiffieHellman(ka.Public()), ka.DiffieHellman(pub)
		if !bytes.Equal(s3[:], s4[:]) || !bytes.Equal(s3[:], ref.X25519(a, pub[:])) {
			r.Fail("x25519.PrivateKey.DiffieHellman:not-symmetric", "generated key; a=%x priv=%x", a, priv[:])
		}
	}
	return r.Result()
}

func TestC07DH(t *testing.T) { h.Run(t, c07GenDH, c07CheckDH) }

// ------------------------------------------------- Ed25519 -> X25519 keys

type c07EdCase struct {
	Seed h.Hex
	Cls  string
}

func c07GenEd(t *rapid.T) c07EdCase {
	s, cls := h.Bytes256(t, "seed")
	if rapid.Bool().Draw(t, "uni") {
		s, cls = h.UniformBytes(t, 32, "seed"), "uniform"
	}
	return c07EdCase{Seed: s, Cls: cls}
}

func c07CheckEd(c c07EdCase) h.Result {
	r := h.NewR().Class("seed:" + c.Cls).NT(true)
	if len(c.Seed) != 32 {
		return r.Fail("harness:bad-case", "").Result()
	}
	seed := append([]byte(nil), c.Seed...)
	// oracle: RFC 8032 key generation by the standard library; RFC 7748 clamping
	std := stded.NewKeyFromSeed(seed)
	stdPub := []byte(std.Public().(stded.PublicKey))
	dig := sha512.Sum512(seed)
	wantPriv := append([]byte(nil), dig[:32]...)
	wantPriv[0] &= 248
	wantPriv[31] &= 127
	wantPriv[31] |= 64
	wantPub := ref.X25519(wantPriv, c07Nine())
	di := ref.Decode(stdPub)
	if !di.OK || !bytes.Equal(ref.FEncode(di.P.MontgomeryU()), wantPub) {
		return r.Fail("harness:oracle-disagreement", "seed=%x: birational image of the Ed25519 public key != X25519 public key", seed).Result()
	}

	for _, src := range []string{"stdlib-key", "library-key"} {
		var edPriv ed25519.PrivateKey
		if src == "stdlib-key" {
			edPriv = ed25519.PrivateKey(append([]byte(nil), std...))
		} else {
			edPriv = ed25519.NewKeyFromSeed(seed)
		}
		edPub, okPub := edPriv.Public().(ed25519.PublicKey)
		if !okPub || len(edPriv) != 64 {
			return r.Fail("harness:bad-case", "unexpected key types").Result()
		}
		r.Eval(3)
		xpriv := x25519.EdPrivateKeyToX25519(edPriv)
		if !bytes.Equal(xpriv, wantPriv) {
			r.Fail("x25519.EdPrivateKeyToX25519:wrong-output", "%s seed=%x got=%x want=%x", src, seed, xpriv, wantPriv)
		}
		xpub, ok := x25519.EdPublicKeyToX25519(edPub)
		if !ok {
			r.Fail("x25519.EdPublicKeyToX25519:rejected-valid-key", "%s seed=%x pub=%x", src, seed, []byte(edPub))
			continue
		}
		if !bytes.Equal(xpub, wantPub) {
			r.Fail("x25519.EdPublicKeyToX25519:wrong-output", "%s seed=%x pub=%x got=%x want=%x", src, seed, []byte(edPub), xpub, wantPub)
		}
		// the converted pair is an X25519 pair under the library's own X25519
		pk, err := x25519.X25519(xpriv, x25519.Basepoint)
		if err != nil || !bytes.Equal(pk, xpub) {
			r.Fail("x25519.EdKeyConversion:pair-mismatch", "%s seed=%x X25519(priv,9)=%x pub=%x err=%v", src, seed, pk, xpub, err)
		}
		// results are the caller's: converting OTHER keys afterwards must not
		// change what was returned before
		other := ed25519.NewKeyFromSeed(bytes.Repeat([]byte{0x5c}, 32))
		for i := 0; i < 3; i++ {
			_ = x25519.EdPrivateKeyToX25519(other)
			_, _ = x25519.EdPublicKeyToX25519(other.Public().(ed25519.PublicKey))
			_, _ = x25519.X25519(wantPriv, x25519.Basepoint)
		}
		if !bytes.Equal(xpriv, wantPriv) || !bytes.Equal(xpub, wantPub) || !bytes.Equal(pk, wantPub) {
			r.Fail("x25519.EdKeyConversion:earlier-result-changed-by-later-calls", "%s seed=%x priv now=%x pub now=%x", src, seed, xpriv, xpub)
		}
	}
	return r.Result()
}

func TestC07EdConvert(t *testing.T) { h.Run(t, c07GenEd, c07CheckEd) }

// EdPublicKeyToX25519 on arbitrary strings.
type c07EdPubCase struct {
	In  h.Hex
	Cls string
}

func c07GenEdPub(t *rapid.T) c07EdPubCase {
	if rapid.IntRange(0, 7).Draw(t, "wronglen") == 0 {
		n := h.HostileLen(t, 32, "n")
		b := h.UniformBytes(t, n, "b")
		if n >= 32 && rapid.Bool().Draw(t, "validprefix") {
			copy(b, ref.Base.Encode())
		}
		return c07EdPubCase{In: b, Cls: "hostile-length"}
	}
	b, cls := h.GenPointBytes(t, "in")
	return c07EdPubCase{In: b, Cls: cls}
}

func c07CheckEdPub(c c07EdPubCase) h.Result {
	r := h.NewR().Class(c.Cls)
	in := append([]byte(nil), c.In...)
	var di ref.DecodeInfo
	if len(in) == 32 {
		di = ref.Decode(in)
	}
	r.NT(!di.OK || !di.Canonical || ref.IsSmallOrder(di.P))
	r.Eval(1)
	var out []byte
	var ok bool
	if pn, v := h.Catch(func() { out, ok = x25519.EdPublicKeyToX25519(ed25519.PublicKey(in)) }); pn {
		return r.Fail("x25519.EdPublicKeyToX25519:panic", "in=%x: %v", in, v).Result()
	}
	if ok != di.OK {
		return r.Fail("x25519.EdPublicKeyToX25519:wrong-decision", "in=%x (len %d) got ok=%v, reference decodable=%v", in, len(in), ok, di.OK).Result()
	}
	if !di.OK {
		r.Class("undecodable")
		return r.Result()
	}
	want := ref.FEncode(di.P.MontgomeryU()) // (1+y)/(1-y), identity -> 0
	if !bytes.Equal(out, want) {
		r.Fail("x25519.EdPublicKeyToX25519:wrong-output", "in=%x got=%x want=%x", in, out, want)
	}
	if !bytes.Equal(in, c.In) {
		r.Fail("x25519.EdPublicKeyToX25519:input-modified", "in=%x", []byte(c.In))
	}
	return r.Result()
}

func TestC07EdPublicAny(t *testing.T) { h.Run(t, c07GenEdPub, c07CheckEdPub) }
