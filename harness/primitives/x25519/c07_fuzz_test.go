//go:build verif

package x25519_test

import (
	"testing"

	h "verifh"
)

// Coverage-guided variants (thorough tier).
func FuzzC07ScalarMult(f *testing.F)  { h.Fuzz(f, c07GenMul, c07CheckMul) }
func FuzzC07EdPublicAny(f *testing.F) { h.Fuzz(f, c07GenEdPub, c07CheckEdPub) }
