//go:build verif

package curve_test

// C10 — the identity constructors and setters: "set to the identity element".
// The neutral element is what failed decodes leave behind and what every sum
// starts from; its spelling (01 00 .. 00, and (0, 1, 1, 0) in every
// coordinate that later arithmetic reads) is compared with the reference,
// not only across backends.

import (
	"bytes"
	"testing"

	"github.com/oasisprotocol/curve25519-voi/curve"
	h "verifh"
	ref "verifref"
)

type c10IdentCase struct{ V int }

func c10CheckIdent(c c10IdentCase) h.Result {
	r := h.NewR().NT(true).Eval(6)
	want := ref.Identity().Encode()
	if got := curve.NewCompressedEdwardsY(); got == nil || !bytes.Equal(got[:], want) {
		r.Fail("curve.NewCompressedEdwardsY:not-the-identity", "%x", got)
	}
	dirty := curve.NewCompressedEdwardsY()
	copy(dirty[:], bytes.Repeat([]byte{0xa5}, 32))
	if ret := dirty.Identity(); ret != dirty || !bytes.Equal(dirty[:], want) {
		r.Fail("CompressedEdwardsY.Identity:not-the-identity", "%x", dirty[:])
	}
	usable := func(name string, p *curve.EdwardsPoint) {
		if p == nil {
			r.Fail(name+":nil", "")
			return
		}
		if got := c10Marshal(p); !bytes.Equal(got, want) || p.IsIdentity() != true || !p.IsSmallOrder() || !p.IsTorsionFree() {
			r.Fail(name+":not-the-identity", "encodes as %x", got)
			return
		}
		// neutral in arithmetic that reads every coordinate: O + B = B, B - O = B, [8]O = O
		sum := curve.NewEdwardsPoint().Add(p, curve.ED25519_BASEPOINT_POINT)
		dif := curve.NewEdwardsPoint().Sub(curve.ED25519_BASEPOINT_POINT, p)
		if b := ref.Base.Encode(); !bytes.Equal(c10Marshal(sum), b) || !bytes.Equal(c10Marshal(dif), b) {
			r.Fail(name+":not-neutral", "O+B=%x B-O=%x", c10Marshal(sum), c10Marshal(dif))
		}
	}
	usable("curve.NewEdwardsPoint", curve.NewEdwardsPoint())
	q := curve.NewEdwardsPoint().Set(curve.ED25519_BASEPOINT_POINT)
	if ret := q.Identity(); ret != q {
		r.Fail("EdwardsPoint.Identity:wrong-return", "")
	}
	usable("EdwardsPoint.Identity", q)
	var zero curve.EdwardsPoint
	usable("EdwardsPoint.Identity(on the zero value)", zero.Identity())
	return r.Result()
}

func TestC10Identity(t *testing.T) { h.RunList(t, []c10IdentCase{{0}}, c10CheckIdent) }
