//go:build verif && amd64 && !purego && !force32bit

package curve

// C04, fourth backend: the AVX2 vector lanes (four field elements in
// radix-2^25.5 lanes, edwards_vector_amd64.{go,s}).
//
// The vector code documents no input bounds of its own, so lane inputs are
// only (a) what newFieldElement2625x4 produces from serial elements in the
// weakly-reduced range every EdwardsPoint coordinate lives in (outputs of
// reduce()/feMul: l0 < 2^51+19*2^13, l1..4 < 2^51+2^13) and outputs of the
// lane operations themselves (TestC04LaneOps), and (b) the library's own lane
// compositions on genuine curve points, one coordinate of which carries
// arbitrary extreme limbs of that range (TestC04LanePoints).
//
// Oracle: Split() limbs -> big.Int by the radix-2^51 formula, compared mod p
// with verifref (field values, affine reference points).

import (
	"fmt"
	"math/big"
	"testing"

	"pgregory.net/rapid"
	h "verifh"
	ref "verifref"

	"github.com/oasisprotocol/curve25519-voi/internal/field"
)

var (
	// the range of EdwardsPoint coordinates (documented bounds of reduce()/feMul outputs)
	c04LaneShape = h.C04Shape51Max([5]uint64{1<<51 - 1 + 19*8191, 1<<51 - 1 + 8191, 1<<51 - 1 + 8191, 1<<51 - 1 + 8191, 1<<51 - 1 + 8191})
	// what the serial code documents for limbs it is handed (Mul/Square/Sub/Neg inputs < 2^54)
	c04LaneSerialMax = uint64(1<<54 - 1)
)

func c04LaneFe(l []uint64) field.Element { return field.NewElement51(l[0], l[1], l[2], l[3], l[4]) }

func c04LaneLimbs(e *field.Element) []uint64 { return append([]uint64(nil), e.UnsafeInner()[:]...) }

func c04LaneVal(e *field.Element) *big.Int { return ref.FMod(c04LaneShape.Value(c04LaneLimbs(e))) }

func c04LaneNTLimbs(l []uint64) bool {
	for _, v := range l {
		if v >= 1<<51 || v == 0 {
			return true
		}
	}
	return c04LaneShape.Value(l).Cmp(ref.P) >= 0
}

func c04LaneSkip(t *testing.T) bool {
	if supportsVectorizedEdwards {
		h.SetExtra(t, "avx2", "present: vector lanes executed")
		return false
	}
	h.SetExtra(t, "avx2", "ABSENT or disabled (GODEBUG=cpu.avx2=off): vector-lane checks skipped, nothing decided")
	return true
}

// -------------------------------------------------------------- lane ops

type c04LaneOp struct {
	Op string `json:"op"`
	D  int    `json:"d"`
	A  int    `json:"a"`
	B  int    `json:"b"`
	C  int    `json:"c,omitempty"`
}

type c04LaneCase struct {
	A, B [][]uint64 // two vectors of four serial elements each
	ACls []string
	BCls []string
	Ops  []c04LaneOp
}

var c04LaneOpNames = []string{"mul", "mul", "mul", "mul", "sqnd", "sqnd", "neg", "neg", "reduce", "select", "assign", "set", "resplit"}

func c04GenLane(t *rapid.T) c04LaneCase {
	var c c04LaneCase
	for i := 0; i < 4; i++ {
		a, ac := h.C04GenLimbs(t, "a", c04LaneShape)
		b, bc := h.C04GenLimbs(t, "b", c04LaneShape)
		c.A, c.ACls = append(c.A, a), append(c.ACls, ac)
		c.B, c.BCls = append(c.B, b), append(c.BCls, bc)
	}
	n := rapid.IntRange(0, 12).Draw(t, "nops")
	for i := 0; i < n; i++ {
		c.Ops = append(c.Ops, c04LaneOp{Op: rapid.SampledFrom(c04LaneOpNames).Draw(t, "op"),
			D: rapid.IntRange(0, 3).Draw(t, "d"), A: rapid.IntRange(0, 3).Draw(t, "a"), B: rapid.IntRange(0, 3).Draw(t, "b"),
			C: rapid.IntRange(0, 1).Draw(t, "c")})
	}
	return c
}

func c04CheckLaneSkipped(c c04LaneCase) h.Result { return h.NewR().Class("skipped-no-avx2").Result() }

func c04CheckLane(c c04LaneCase) h.Result {
	r := h.NewR()
	if len(c.A) != 4 || len(c.B) != 4 {
		panic("c04: malformed case")
	}
	nt := false
	var fa, fb [4]field.Element
	var va, vb [4]*big.Int
	for i := 0; i < 4; i++ {
		if !c04LaneShape.InRange(c.A[i]) || !c04LaneShape.InRange(c.B[i]) {
			panic("c04: malformed case: serial limbs outside the weakly-reduced range")
		}
		fa[i], fb[i] = c04LaneFe(c.A[i]), c04LaneFe(c.B[i])
		va[i], vb[i] = ref.FMod(c04LaneShape.Value(c.A[i])), ref.FMod(c04LaneShape.Value(c.B[i]))
		nt = nt || c04LaneNTLimbs(c.A[i]) || c04LaneNTLimbs(c.B[i])
	}
	if len(c.ACls) == 4 && len(c.BCls) == 4 {
		r.Class("a0:"+c.ACls[0], "b0:"+c.BCls[0])
	}
	r.NT(nt)

	// register file of four lane vectors with their expected lane values
	var regs [4]fieldElement2625x4
	var exp [4][4]*big.Int
	regs[0] = newFieldElement2625x4(&fa[0], &fa[1], &fa[2], &fa[3])
	regs[1] = newFieldElement2625x4(&fb[0], &fb[1], &fb[2], &fb[3])
	regs[2] = newFieldElement2625x4(&fb[3], &fa[2], &fb[1], &fa[0])
	regs[3] = regs[0]
	exp[0], exp[1], exp[2], exp[3] = va, vb, [4]*big.Int{vb[3], va[2], vb[1], va[0]}, va
	for i := 0; i < 4; i++ {
		if !c04LaneFeSame(&fa[i], c.A[i]) || !c04LaneFeSame(&fb[i], c.B[i]) {
			r.Fail("curve.newFieldElement2625x4:modified-operand", "a=%v b=%v", c.A, c.B)
		}
	}
	verify := func(what string, pc int, d int) {
		var s [4]field.Element
		regs[d].Split(&s[0], &s[1], &s[2], &s[3])
		for lane := 0; lane < 4; lane++ {
			r.Eval(1)
			if gv := c04LaneVal(&s[lane]); gv.Cmp(exp[d][lane]) != 0 {
				r.Fail("curve.vec."+what+":wrong-value", "a=%v b=%v ops=%+v pc=%d reg=%d lane %d: vector %v split limbs %v = %v, want %v",
					c.A, c.B, c.Ops, pc, d, lane, regs[d].inner, c04LaneLimbs(&s[lane]), gv, exp[d][lane])
			}
			for _, v := range c04LaneLimbs(&s[lane]) {
				if v > c04LaneSerialMax {
					r.Fail("curve.vec."+what+":split-bound", "a=%v b=%v ops=%+v pc=%d reg=%d lane %d: split limbs %v leave the serial headroom",
						c.A, c.B, c.Ops, pc, d, lane, c04LaneLimbs(&s[lane]))
				}
			}
		}
	}
	for d := 0; d < 3; d++ {
		verify("newFieldElement2625x4/Split", -1, d)
	}
	for pc, op := range c.Ops {
		if op.D < 0 || op.D > 3 || op.A < 0 || op.A > 3 || op.B < 0 || op.B > 3 || (op.C != 0 && op.C != 1) {
			panic("c04: malformed case")
		}
		d, a, b := op.D, op.A, op.B
		before := regs
		switch op.Op {
		case "mul":
			ea, eb := exp[a], exp[b]
			regs[d].Mul(&regs[a], &regs[b])
			for l := 0; l < 4; l++ {
				exp[d][l] = ref.FMul(ea[l], eb[l])
			}
		case "sqnd":
			regs[d].SquareAndNegateD()
			for l := 0; l < 4; l++ {
				exp[d][l] = ref.FSqr(exp[d][l])
			}
			exp[d][3] = ref.FNeg(exp[d][3])
		case "neg":
			regs[d].Neg()
			for l := 0; l < 4; l++ {
				exp[d][l] = ref.FNeg(exp[d][l])
			}
		case "reduce":
			regs[d].Reduce()
		case "select":
			regs[d].ConditionalSelect(&regs[a], &regs[b], op.C)
			src := a
			if op.C == 1 {
				src = b
			}
			if regs[d].inner != before[src].inner {
				r.Fail("curve.vec.ConditionalSelect:wrong-lanes", "choice=%d got %v want %v", op.C, regs[d].inner, before[src].inner)
			}
			exp[d] = exp[src]
		case "assign":
			regs[d].ConditionalAssign(&regs[a], op.C)
			if op.C == 1 {
				exp[d] = exp[a]
				if regs[d].inner != before[a].inner {
					r.Fail("curve.vec.ConditionalAssign:wrong-lanes", "choice=1 got %v want %v", regs[d].inner, before[a].inner)
				}
			} else if regs[d].inner != before[d].inner {
				r.Fail("curve.vec.ConditionalAssign:wrong-lanes", "choice=0 changed the lanes")
			}
		case "set":
			regs[d] = regs[a]
			exp[d] = exp[a]
		case "resplit": // Split then rebuild: the path every scalar multiplication takes between vector and serial code
			var s [4]field.Element
			regs[a].Split(&s[0], &s[1], &s[2], &s[3])
			regs[d] = newFieldElement2625x4(&s[0], &s[1], &s[2], &s[3])
			exp[d] = exp[a]
		default:
			panic("c04: malformed case (op " + op.Op + ")")
		}
		r.Class(op.Op)
		for i := range regs {
			if i != d && regs[i].inner != before[i].inner {
				r.Fail("curve.vec."+op.Op+":modified-operand", "pc=%d register %d changed", pc, i)
			}
		}
		verify(op.Op, pc, d)
		if r.Failed() {
			return r.NT(true).Result()
		}
	}
	return r.Result()
}

func c04LaneFeSame(e *field.Element, l []uint64) bool {
	g := e.UnsafeInner()
	for i := range g {
		if g[i] != l[i] {
			return false
		}
	}
	return true
}

func TestC04LaneOps(t *testing.T) {
	if c04LaneSkip(t) {
		h.Run(t, c04GenLane, c04CheckLaneSkipped)
		return
	}
	h.Run(t, c04GenLane, c04CheckLane)
}

// ------------------------------------- the library's own lane compositions

type c04LanePtCase struct {
	P, Q   h.PointSpec
	WP, WQ []uint64 // extreme-limb value carried by one coordinate of P / Q
	IP, IQ int      // which coordinate (0=X 1=Y 2=Z 3=T); falls back to Z where impossible
	K      uint     // MulByPow2 exponent
	Choice int
	Rel    string // relation forced between P and Q ("", "same", "neg")
}

func c04GenLanePt(t *rapid.T) c04LanePtCase {
	c := c04LanePtCase{P: h.GenPointSpec(t, "p", true), Q: h.GenPointSpec(t, "q", true)}
	switch rapid.IntRange(0, 9).Draw(t, "rel") {
	case 0:
		c.Rel = "same"
	case 1:
		c.Rel = "neg"
	}
	c.WP, _ = h.C04GenLimbs(t, "wp", c04LaneShape)
	c.WQ, _ = h.C04GenLimbs(t, "wq", c04LaneShape)
	c.IP, c.IQ = rapid.IntRange(0, 3).Draw(t, "ip"), rapid.IntRange(0, 3).Draw(t, "iq")
	c.K = uint(rapid.IntRange(1, 8).Draw(t, "k"))
	c.Choice = rapid.IntRange(0, 1).Draw(t, "choice")
	return c
}

// c04LanePoint builds (X:Y:Z:T) = (l*x : l*y : l : l*x*y) for the affine
// reference point pt, with the scaling l chosen such that coordinate `which`
// has exactly the limbs w (when that is possible: the affine value and w both
// non-zero mod p; otherwise Z carries w, or the scaling is 1).
func c04LanePoint(pt ref.Point, w []uint64, which int) (ep EdwardsPoint, used string) {
	aff := [4]*big.Int{pt.X, pt.Y, big.NewInt(1), ref.FMul(pt.X, pt.Y)}
	wv := ref.FMod(c04LaneShape.Value(w))
	if aff[which].Sign() == 0 {
		which = 2
	}
	lam := big.NewInt(1)
	if wv.Sign() != 0 {
		lam = ref.FDiv(wv, aff[which])
	} else {
		which = -1
	}
	var limbs [4][]uint64
	for i := range aff {
		limbs[i] = c04LaneShape.Canonical(ref.FMul(lam, aff[i]))
	}
	used = "none"
	if which >= 0 {
		limbs[which] = w
		used = "XYZT"[which : which+1]
	}
	ep.inner.X, ep.inner.Y, ep.inner.Z, ep.inner.T = c04LaneFe(limbs[0]), c04LaneFe(limbs[1]), c04LaneFe(limbs[2]), c04LaneFe(limbs[3])
	return ep, used
}

func c04CheckLanePtSkipped(c c04LanePtCase) h.Result {
	return h.NewR().Class("skipped-no-avx2").Result()
}

func c04CheckLanePt(c c04LanePtCase) h.Result {
	r := h.NewR()
	if !c04LaneShape.InRange(c.WP) || !c04LaneShape.InRange(c.WQ) || c.IP < 0 || c.IP > 3 || c.IQ < 0 || c.IQ > 3 || c.K < 1 || c.K > 16 || (c.Choice != 0 && c.Choice != 1) {
		panic("c04: malformed case")
	}
	P, Q := c.P.Ref(), c.Q.Ref()
	switch c.Rel {
	case "same":
		Q = P
	case "neg":
		Q = ref.Neg(P)
	}
	if !P.OnCurve() || !Q.OnCurve() {
		panic("c04: reference point not on the curve")
	}
	eP, usedP := c04LanePoint(P, c.WP, c.IP)
	eQ, usedQ := c04LanePoint(Q, c.WQ, c.IQ)
	r.Class("P:"+c.P.Cls, "Q:"+c.Q.Cls, "extreme-P:"+usedP, "extreme-Q:"+usedQ)
	if c.Rel != "" {
		r.Class("Q=" + c.Rel + "(P)")
	}
	r.NT((usedP != "none" && c04LaneNTLimbs(c.WP)) || (usedQ != "none" && c04LaneNTLimbs(c.WQ)) || c.Rel != "" || P.IsIdentity() || Q.IsIdentity() || c.P.IsSmallOrder() || c.Q.IsSmallOrder())

	expect := func(name string, got *extendedPoint, want ref.Point) {
		r.Eval(1)
		var out EdwardsPoint
		out.setExtended(got)
		X, Y, Z, T := c04LaneVal(&out.inner.X), c04LaneVal(&out.inner.Y), c04LaneVal(&out.inner.Z), c04LaneVal(&out.inner.T)
		detail := func() string {
			return fmt.Sprintf("P=%+v Q=%+v rel=%q WP=%v IP=%d WQ=%v IQ=%d K=%d choice=%d: got (X:Y:Z:T)=(%v:%v:%v:%v) want affine (%v,%v)",
				c.P, c.Q, c.Rel, c.WP, c.IP, c.WQ, c.IQ, c.K, c.Choice, X, Y, Z, T, want.X, want.Y)
		}
		if Z.Sign() == 0 {
			r.Fail("curve.vec."+name+":wrong-point", "Z = 0; %s", detail())
			return
		}
		if ref.FMul(want.X, Z).Cmp(X) != 0 || ref.FMul(want.Y, Z).Cmp(Y) != 0 || ref.FMul(T, Z).Cmp(ref.FMul(X, Y)) != 0 {
			r.Fail("curve.vec."+name+":wrong-point", "%s", detail())
		}
		for _, e := range []*field.Element{&out.inner.X, &out.inner.Y, &out.inner.Z, &out.inner.T} {
			for _, v := range c04LaneLimbs(e) {
				if v > c04LaneSerialMax {
					r.Fail("curve.vec."+name+":split-bound", "limbs %v leave the serial headroom; %s", c04LaneLimbs(e), detail())
				}
			}
		}
	}

	var xP, xQ, o extendedPoint
	xP.SetEdwards(&eP)
	xQ.SetEdwards(&eQ)
	expect("SetEdwards", &xP, P)
	expect("SetEdwards", &xQ, Q)
	expect("Double", o.Double(&xP), ref.Double(P))
	pk := P
	for i := uint(0); i < c.K; i++ {
		pk = ref.Double(pk)
	}
	expect("MulByPow2", o.MulByPow2(&xP, c.K), pk)
	o = xP
	expect("MulByPow2(alias)", o.MulByPow2(&o, c.K), pk)

	var cP, cQ cachedPoint
	cP.SetExtended(&xP)
	cQ.SetExtended(&xQ)
	sum, diff := ref.Add(P, Q), ref.Sub(P, Q)
	expect("AddExtendedCached", o.AddExtendedCached(&xP, &cQ), sum)
	expect("SubExtendedCached", o.SubExtendedCached(&xP, &cQ), diff)
	expect("AddExtendedCached", o.AddExtendedCached(&xQ, &cP), sum)
	expect("SubExtendedCached", o.SubExtendedCached(&xQ, &cP), ref.Neg(diff))
	o = xP
	expect("AddExtendedCached(alias)", o.AddExtendedCached(&o, &cQ), sum)
	var id extendedPoint
	id.Identity()
	expect("AddExtendedCached(identity)", o.AddExtendedCached(&id, &cQ), Q)
	expect("SubExtendedCached(identity)", o.SubExtendedCached(&id, &cQ), ref.Neg(Q))

	// cachedPoint.ConditionalNegate / ConditionalSelect / ConditionalAssign
	cN := cQ
	cN.ConditionalNegate(c.Choice)
	want := sum
	if c.Choice == 1 {
		want = diff
	}
	expect("cachedPoint.ConditionalNegate", o.AddExtendedCached(&xP, &cN), want)
	cN.ConditionalNegate(c.Choice) // and back
	expect("cachedPoint.ConditionalNegate(twice)", o.AddExtendedCached(&xP, &cN), sum)
	var cS cachedPoint
	cS.ConditionalSelect(&cP, &cQ, c.Choice)
	want = ref.Double(P)
	if c.Choice == 1 {
		want = sum
	}
	expect("cachedPoint.ConditionalSelect", o.AddExtendedCached(&xP, &cS), want)

	// a longer composition staying in lane form: 2^K*(P+Q) - Q + P
	o.AddExtendedCached(&xP, &cQ)
	o.MulByPow2(&o, c.K)
	o.SubExtendedCached(&o, &cQ)
	o.AddExtendedCached(&o, &cP)
	w := sum
	for i := uint(0); i < c.K; i++ {
		w = ref.Double(w)
	}
	expect("composition", &o, ref.Add(ref.Sub(w, Q), P))
	// and a cached point derived from a lane result (not from serial input)
	var cO cachedPoint
	cO.SetExtended(&o)
	expect("cachedPoint.SetExtended(lane-result)", o.AddExtendedCached(&xQ, &cO), ref.Add(Q, ref.Add(ref.Sub(w, Q), P)))
	return r.Result()
}

func TestC04LanePoints(t *testing.T) {
	if c04LaneSkip(t) {
		h.Run(t, c04GenLanePt, c04CheckLanePtSkipped)
		return
	}
	h.Run(t, c04GenLanePt, c04CheckLanePt)
}
