//go:build verif

package curve

// C03 — in-package half: every implementation is called explicitly, whatever
// the dispatchers would choose.
//
//   * the serial ("Generic") code always, the AVX2 ("Vector") code whenever
//     supportsVectorizedEdwards is true;
//   * Straus (constant time, variable time, with precomputed tables) AND
//     Pippenger at every term count; the Pippenger window w is a function of
//     the length only (w=6 below 500 terms, 7 below 800, 8 from 800), so the
//     wider windows are reached for short sums by appending filler terms (whose
//     contribution the oracle accounts for) up to 500..799 resp. >= 800 terms;
//   * the point models (P1xP1, P2, P3, Niels, cached), the window lookup
//     tables and the doubling helpers directly.
//
// Operands are re-represented with a non-trivial Z by scaling (X:Y:Z:T) with a
// generated non-zero field element.  Oracle: verifref, as in c03_api_test.go.

import (
	"bytes"
	"fmt"
	"math/big"
	"testing"

	"github.com/oasisprotocol/curve25519-voi/curve/scalar"
	"github.com/oasisprotocol/curve25519-voi/internal/field"
	"pgregory.net/rapid"
	h "verifh"
	ref "verifref"
)

// ------------------------------------------------------------------ helpers

func c03iEnc(p *EdwardsPoint) []byte {
	var cp CompressedEdwardsY
	cp.SetEdwardsPoint(p)
	return append([]byte(nil), cp[:]...)
}

// c03iLambda derives the scaling factor: seed 0 = none (Z stays 1), 1 = -1,
// 2 = 2, otherwise a uniformly distributed non-zero element.
func c03iLambda(seed uint64) (field.Element, bool) {
	var lam field.Element
	switch seed {
	case 0:
		lam.One()
		return lam, false
	case 1:
		lam.MinusOne()
		return lam, true
	case 2:
		lam.One()
		lam.Add(&lam, &lam)
		return lam, true
	}
	b := h.Expand(seed, 32)
	b[31] &= 0x7f
	if _, err := lam.SetBytes(b); err != nil {
		panic(err)
	}
	if lam.IsZero() == 1 {
		lam.One()
	}
	return lam, true
}

func c03iScale(p *EdwardsPoint, seed uint64) *EdwardsPoint {
	var q EdwardsPoint
	lam, scaled := c03iLambda(seed)
	if !scaled {
		return q.Set(p)
	}
	q.inner.X.Mul(&p.inner.X, &lam)
	q.inner.Y.Mul(&p.inner.Y, &lam)
	q.inner.Z.Mul(&p.inner.Z, &lam)
	q.inner.T.Mul(&p.inner.T, &lam)
	return &q
}

// c03iLoad decodes the reference's canonical encoding and rescales.
func c03iLoad(r *h.R, rp ref.Point, lamSeed uint64) (*EdwardsPoint, bool) {
	enc := rp.Encode()
	var cp CompressedEdwardsY
	copy(cp[:], enc)
	var p EdwardsPoint
	if _, err := p.SetCompressedY(&cp); err != nil {
		r.Fail("EdwardsPoint.SetCompressedY:rejected-valid-point", "enc=%x err=%v", enc, err)
		return nil, false
	}
	q := c03iScale(&p, lamSeed)
	r.Eval(1)
	if got := c03iEnc(q); !bytes.Equal(got, enc) {
		r.Fail("CompressedEdwardsY.SetEdwardsPoint:representation-dependent", "lam-seed=%d enc=%x got=%x", lamSeed, enc, got)
		return nil, false
	}
	return q, true
}

func c03iScalar(b []byte) *scalar.Scalar {
	s, err := scalar.NewFromBits(b)
	if err != nil {
		panic(err)
	}
	return s
}

func c03iExpect(r *h.R, op string, got *EdwardsPoint, want []byte) {
	r.Eval(2)
	if g := c03iEnc(got); !bytes.Equal(g, want) {
		r.Fail(op+":wrong-result", "got=%x want=%x", g, want)
		return
	}
	// the encoding reads X, Y, Z only: the extended coordinate must satisfy
	// T*Z = X*Y (decided on the integers, not with the library's field code)
	fv := func(e *field.Element) *big.Int {
		var b [32]byte
		_ = e.ToBytes(b[:])
		return ref.FromLE(b[:])
	}
	x, y, z, t := fv(&got.inner.X), fv(&got.inner.Y), fv(&got.inner.Z), fv(&got.inner.T)
	if ref.FMul(t, z).Cmp(ref.FMul(x, y)) != 0 {
		r.Fail(op+":inconsistent-T", "the result encodes correctly (%x) but T*Z != X*Y: X=%x Y=%x Z=%x T=%x", want, x, y, z, t)
	}
}

// c03iOut returns a fresh receiver holding a stale, unrelated value (the
// basepoint): a routine that forgets to (re)initialise its output, e.g. for an
// empty sum, is caught.
func c03iOut() *EdwardsPoint {
	var p EdwardsPoint
	return p.Set(ED25519_BASEPOINT_POINT)
}

func c03iFromPNiels(pn *projectiveNielsPoint) *EdwardsPoint {
	var (
		id  EdwardsPoint
		sum completedPoint
	)
	id.Identity()
	return c03iOut().setCompleted(sum.AddEdwardsProjectiveNiels(&id, pn))
}

func c03iFromANiels(an *affineNielsPoint) *EdwardsPoint {
	var out EdwardsPoint
	return out.setAffineNiels(an)
}

func c03iFromCached(c *cachedPoint) *EdwardsPoint {
	var out EdwardsPoint
	return out.setCached(c)
}

func c03iFromExt(e *extendedPoint) *EdwardsPoint {
	var out EdwardsPoint
	return out.setExtended(e)
}

// c03iExpand builds an expanded point carrying BOTH precomputed tables
// (SetEdwardsPoint only fills the one the dispatcher would use).
func c03iExpand(p *EdwardsPoint) *ExpandedEdwardsPoint {
	var ep ExpandedEdwardsPoint
	ep.point.Set(p)
	tg := newProjectiveNielsPointNafLookupTable(p)
	ep.inner = &tg
	if supportsVectorizedEdwards {
		tv := newCachedPointNafLookupTable(p)
		ep.innerVector = &tv
	}
	return &ep
}

func c03iSpecCls(ps h.PointSpec) string {
	switch {
	case ps.IsIdentity():
		return "identity"
	case ps.IsSmallOrder():
		return "torsion"
	case ps.J%8 != 0:
		return "mixed-order"
	}
	return "prime-order"
}

func c03iBackend(t *testing.T) {
	h.SetExtra(t, "vector", fmt.Sprint(supportsVectorizedEdwards))
}

// ------------------------------------------- models, doubling, lookup tables

type c03iModelCase struct {
	P, Q       h.PointSpec
	LamP, LamQ uint64
	K          uint // exponent for mulByPow2 / MulByPow2
}

func c03iGenModel(t *rapid.T) c03iModelCase {
	var c c03iModelCase
	c.P = h.C03GenPoint(t, "p", false, false)
	switch rapid.IntRange(0, 7).Draw(t, "rel") {
	case 0:
		c.Q = c.P
	case 1:
		c.Q = h.PointSpec{A: h.Hex(ref.SEncode(ref.SNeg(ref.FromLE(c.P.A)))), J: (8 - c.P.J%8) % 8, Cls: "neg-of-p"}
	case 3: // -p + T[4] = (x, -y)
		c.Q = h.PointSpec{A: h.Hex(ref.SEncode(ref.SNeg(ref.FromLE(c.P.A)))), J: (12 - c.P.J%8) % 8, Cls: "mirror-of-p"}
	case 2:
		c.Q = h.PointSpec{A: c.P.A, J: rapid.IntRange(0, 7).Draw(t, "qj"), Cls: "p+torsion"}
	default:
		c.Q = h.C03GenPoint(t, "q", false, false)
	}
	c.LamP = rapid.Uint64().Draw(t, "lamp")
	c.LamQ = rapid.Uint64().Draw(t, "lamq")
	c.K = uint(rapid.IntRange(1, 12).Draw(t, "k"))
	return c
}

func c03iCheckModel(c c03iModelCase) h.Result {
	r := h.NewR().Class("p:"+c03iSpecCls(c.P), "q:"+c03iSpecCls(c.Q))
	if c.LamP != 0 || c.LamQ != 0 {
		r.Class("scaled")
	}
	r.NT(h.C03PointNonTrivial(c.P) || h.C03PointNonTrivial(c.Q))
	if c.K == 0 || c.K > 64 {
		c.K = 1
	}
	pr, qr := h.C03SpecPoint(c.P), h.C03SpecPoint(c.Q)
	p, ok := c03iLoad(r, pr, c.LamP)
	if !ok {
		return r.Result()
	}
	q, ok := c03iLoad(r, qr, c.LamQ)
	if !ok {
		return r.Result()
	}
	sum, diff, dbl := ref.Add(pr, qr).Encode(), ref.Sub(pr, qr).Encode(), ref.AddAffine(pr, pr).Encode()
	pow := pr
	for i := uint(0); i < c.K; i++ {
		pow = ref.Double(pow)
	}
	powE := pow.Encode()

	// public operations on rescaled operands
	c03iExpect(r, "EdwardsPoint.Add", c03iOut().Add(p, q), sum)
	c03iExpect(r, "EdwardsPoint.Sub", c03iOut().Sub(p, q), diff)
	c03iExpect(r, "EdwardsPoint.Neg", c03iOut().Neg(p), ref.Neg(pr).Encode())
	c03iExpect(r, "EdwardsPoint.Add(p,p)", c03iOut().Add(p, p), dbl)
	c03iExpect(r, "EdwardsPoint.MulByCofactor", c03iOut().MulByCofactor(p), ref.MulByCofactor(pr).Encode())
	c03iExpect(r, "EdwardsPoint.Sum", c03iOut().Sum([]*EdwardsPoint{p, q, p}), ref.Add(ref.Add(pr, qr), pr).Encode())
	c03iExpect(r, "EdwardsPoint.double", c03iOut().double(p), dbl)
	c03iExpect(r, "EdwardsPoint.mulByPow2", c03iOut().mulByPow2(p, c.K), powE)
	x := c03iScale(p, 0)
	c03iExpect(r, "EdwardsPoint.mulByPow2(alias)", x.mulByPow2(x, c.K), powE)
	r.Eval(3)
	same := pr.Equal(qr)
	if got := p.Equal(q); (got == 1) != same {
		r.Fail("EdwardsPoint.Equal:wrong", "got=%d want-equal=%v", got, same)
	}
	if got := p.Equal(c03iScale(p, c.LamQ^0x5555)); got != 1 {
		r.Fail("EdwardsPoint.Equal:representation-dependent", "lam=%d", c.LamQ^0x5555)
	}
	if got := p.IsIdentity(); got != c.P.IsIdentity() {
		r.Fail("EdwardsPoint.IsIdentity:wrong", "got=%v", got)
	}

	// point models
	var (
		cp completedPoint
		pp projectivePoint
		pn projectiveNielsPoint
		an affineNielsPoint
	)
	c03iExpect(r, "EdwardsPoint.setProjective", c03iOut().setProjective(pp.SetEdwards(p)), pr.Encode())
	c03iExpect(r, "completedPoint.Double", c03iOut().setCompleted(cp.Double(pp.SetEdwards(p))), dbl)
	c03iExpect(r, "projectivePoint.SetCompleted", c03iOut().setProjective(pp.SetCompleted(cp.Double(pp.SetEdwards(p)))), dbl)
	pn.SetEdwards(q)
	an.SetEdwards(q)
	c03iExpect(r, "projectiveNielsPoint.SetEdwards", c03iFromPNiels(&pn), qr.Encode())
	c03iExpect(r, "affineNielsPoint.SetEdwards", c03iFromANiels(&an), qr.Encode())
	c03iExpect(r, "completedPoint.AddEdwardsProjectiveNiels", c03iOut().setCompleted(cp.AddEdwardsProjectiveNiels(p, &pn)), sum)
	c03iExpect(r, "completedPoint.SubEdwardsProjectiveNiels", c03iOut().setCompleted(cp.SubEdwardsProjectiveNiels(p, &pn)), diff)
	c03iExpect(r, "completedPoint.AddEdwardsAffineNiels", c03iOut().setCompleted(cp.AddEdwardsAffineNiels(p, &an)), sum)
	c03iExpect(r, "completedPoint.SubEdwardsAffineNiels", c03iOut().setCompleted(cp.SubEdwardsAffineNiels(p, &an)), diff)
	// completed + Niels forms: 2p +- q
	dblsum, dbldiff := ref.Add(ref.Double(pr), qr).Encode(), ref.Sub(ref.Double(pr), qr).Encode()
	var cp2 completedPoint
	c03iExpect(r, "completedPoint.AddCompletedAffineNiels", c03iOut().setCompleted(cp2.AddCompletedAffineNiels(cp.Double(pp.SetEdwards(p)), &an)), dblsum)
	c03iExpect(r, "completedPoint.SubCompletedAffineNiels", c03iOut().setCompleted(cp2.SubCompletedAffineNiels(cp.Double(pp.SetEdwards(p)), &an)), dbldiff)
	pnNeg, anNeg := pn, an
	pnNeg.ConditionalNegate(1)
	anNeg.ConditionalNegate(1)
	c03iExpect(r, "projectiveNielsPoint.ConditionalNegate(1)", c03iFromPNiels(&pnNeg), ref.Neg(qr).Encode())
	c03iExpect(r, "affineNielsPoint.ConditionalNegate(1)", c03iFromANiels(&anNeg), ref.Neg(qr).Encode())
	pnNeg.ConditionalNegate(0)
	c03iExpect(r, "projectiveNielsPoint.ConditionalNegate(0)", c03iFromPNiels(&pnNeg), ref.Neg(qr).Encode())

	// multiples -8..15 of q for the lookup tables
	mult := make(map[int][]byte, 24)
	acc := ref.Identity()
	for i := 0; i <= 15; i++ {
		mult[i] = acc.Encode()
		if i <= 8 {
			mult[-i] = ref.Neg(acc).Encode()
		}
		acc = ref.Add(acc, qr)
	}
	tp := newProjectiveNielsPointLookupTable(q)
	ta := newAffineNielsPointLookupTable(q)
	c03iExpect(r, "affineNielsPointLookupTable.Basepoint", ta.Basepoint(), mult[1])
	for xd := -8; xd <= 8; xd++ {
		lp := tp.Lookup(int8(xd))
		c03iExpect(r, "projectiveNielsPointLookupTable.Lookup", c03iFromPNiels(&lp), mult[xd])
		la := ta.Lookup(int8(xd))
		c03iExpect(r, "affineNielsPointLookupTable.Lookup", c03iFromANiels(&la), mult[xd])
	}
	tn := newProjectiveNielsPointNafLookupTable(q)
	for xd := 1; xd <= 15; xd += 2 {
		c03iExpect(r, "projectiveNielsPointNafLookupTable.Lookup", c03iFromPNiels(tn.Lookup(uint8(xd))), mult[xd])
	}

	if supportsVectorizedEdwards {
		var ep, eq, eo extendedPoint
		var cq cachedPoint
		ep.SetEdwards(p)
		eq.SetEdwards(q)
		cq.SetExtended(&eq)
		c03iExpect(r, "extendedPoint.SetEdwards", c03iFromExt(&ep), pr.Encode())
		c03iExpect(r, "cachedPoint.SetExtended", c03iFromCached(&cq), qr.Encode())
		c03iExpect(r, "extendedPoint.Double", c03iFromExt(eo.Double(&ep)), dbl)
		c03iExpect(r, "extendedPoint.MulByPow2", c03iFromExt(eo.MulByPow2(&ep, c.K)), powE)
		eo = ep
		c03iExpect(r, "extendedPoint.MulByPow2(alias)", c03iFromExt(eo.MulByPow2(&eo, c.K)), powE)
		c03iExpect(r, "extendedPoint.AddExtendedCached", c03iFromExt(eo.AddExtendedCached(&ep, &cq)), sum)
		c03iExpect(r, "extendedPoint.SubExtendedCached", c03iFromExt(eo.SubExtendedCached(&ep, &cq)), diff)
		eo = ep
		c03iExpect(r, "extendedPoint.AddExtendedCached(alias)", c03iFromExt(eo.AddExtendedCached(&eo, &cq)), sum)
		eo = ep
		c03iExpect(r, "extendedPoint.SubExtendedCached(alias)", c03iFromExt(eo.SubExtendedCached(&eo, &cq)), diff)
		cn := cq
		cn.ConditionalNegate(1)
		c03iExpect(r, "cachedPoint.ConditionalNegate(1)", c03iFromCached(&cn), ref.Neg(qr).Encode())
		cn.ConditionalNegate(0)
		c03iExpect(r, "cachedPoint.ConditionalNegate(0)", c03iFromCached(&cn), ref.Neg(qr).Encode())
		tc := newCachedPointLookupTable(q)
		c03iExpect(r, "cachedPointLookupTable.Basepoint", tc.Basepoint(), mult[1])
		for xd := -8; xd <= 8; xd++ {
			lc := tc.Lookup(int8(xd))
			c03iExpect(r, "cachedPointLookupTable.Lookup", c03iFromCached(&lc), mult[xd])
		}
		tcn := newCachedPointNafLookupTable(q)
		c03iExpect(r, "cachedPointNafLookupTable.Basepoint", tcn.Basepoint(), mult[1])
		for xd := 1; xd <= 15; xd += 2 {
			c03iExpect(r, "cachedPointNafLookupTable.Lookup", c03iFromCached(tcn.Lookup(uint8(xd))), mult[xd])
		}
	}
	r.Eval(1)
	if !bytes.Equal(c03iEnc(p), pr.Encode()) || !bytes.Equal(c03iEnc(q), qr.Encode()) {
		r.Fail("curve-models:operand-modified", "")
	}
	return r.Result()
}

func TestC03ImplModels(t *testing.T) {
	c03iBackend(t)
	h.Run(t, c03iGenModel, c03iCheckModel)
}

// ------------------------------------------------- single / double scalar mul

type c03iMulCase struct {
	P       h.PointSpec
	LamP    uint64
	S, S2   h.Hex
	SC, S2C string
	Direct  bool
}

func c03iGenMul(t *rapid.T) c03iMulCase {
	var c c03iMulCase
	c.P = h.C03GenPoint(t, "p", false, false)
	c.LamP = rapid.Uint64().Draw(t, "lam")
	c.S, c.SC = h.C03GenScalar(t, "s")
	c.S2, c.S2C = h.C03GenScalar(t, "s2")
	c.Direct = rapid.IntRange(0, 7).Draw(t, "direct") == 0
	return c
}

var (
	c03iSpecB        = h.PointSpec{A: h.Hex{1}, J: 0, Cls: "B"}
	c03iStockGeneric *edwardsBasepointTableGeneric // the packed serial table (dropped at init on AVX2 machines)
)

func c03iCheckMul(c c03iMulCase) h.Result {
	r := h.NewR().Class("p:"+c03iSpecCls(c.P), "s:"+c.SC, "s2:"+c.S2C)
	r.NT(h.C03PointNonTrivial(c.P) || h.C03ScalarNonTrivial(c.S, c.SC) || h.C03ScalarNonTrivial(c.S2, c.S2C))
	if ref.FromLE(c.S).Cmp(ref.L) >= 0 || ref.FromLE(c.S2).Cmp(ref.L) >= 0 {
		r.Class("unreduced")
	}
	pr := h.C03SpecPoint(c.P)
	p, ok := c03iLoad(r, pr, c.LamP)
	if !ok {
		return r.Result()
	}
	s, s2 := c03iScalar(c.S), c03iScalar(c.S2)
	sP := h.C03Expected([]h.C03Term{{P: c.P, S: c.S}}, c.Direct).Encode()
	sB := h.C03Expected([]h.C03Term{{P: c03iSpecB, S: c.S}}, false).Encode()
	sPs2B := h.C03Expected([]h.C03Term{{P: c.P, S: c.S}, {P: c03iSpecB, S: c.S2}}, c.Direct).Encode()
	ep := c03iExpand(p)
	if c03iStockGeneric == nil {
		c03iStockGeneric = unpackEdwardsBasepointTable()
	}

	c03iExpect(r, "edwardsMulGeneric", edwardsMulGeneric(c03iOut(), p, s), sP)
	x := c03iScale(p, 0)
	c03iExpect(r, "edwardsMulGeneric(alias)", edwardsMulGeneric(x, x, s), sP)
	tg := newEdwardsBasepointTableGeneric(p)
	c03iExpect(r, "edwardsBasepointTableGeneric.Basepoint", tg.Basepoint(), pr.Encode())
	c03iExpect(r, "edwardsBasepointTableGeneric.Mul", tg.Mul(c03iOut(), s), sP)
	c03iExpect(r, "edwardsBasepointTableGeneric.Mul(packed-table)", c03iStockGeneric.Mul(c03iOut(), s), sB)
	c03iExpect(r, "edwardsDoubleScalarMulBasepointVartimeGeneric", edwardsDoubleScalarMulBasepointVartimeGeneric(c03iOut(), s, p, s2), sPs2B)
	c03iExpect(r, "edwardsDoubleScalarMulBasepointVartimeGenericInner", edwardsDoubleScalarMulBasepointVartimeGenericInner(c03iOut(), s, ep.inner, s2), sPs2B)
	if supportsVectorizedEdwards {
		c03iExpect(r, "edwardsMulVector", edwardsMulVector(c03iOut(), p, s), sP)
		x = c03iScale(p, 0)
		c03iExpect(r, "edwardsMulVector(alias)", edwardsMulVector(x, x, s), sP)
		tv := newEdwardsBasepointTableVector(p)
		c03iExpect(r, "edwardsBasepointTableVector.Basepoint", tv.Basepoint(), pr.Encode())
		c03iExpect(r, "edwardsBasepointTableVector.Mul", tv.Mul(c03iOut(), s), sP)
		c03iExpect(r, "edwardsBasepointTableVector.Mul(ED25519_BASEPOINT_TABLE)", ED25519_BASEPOINT_TABLE.innerVector.Mul(c03iOut(), s), sB)
		c03iExpect(r, "edwardsDoubleScalarMulBasepointVartimeVector", edwardsDoubleScalarMulBasepointVartimeVector(c03iOut(), s, p, s2), sPs2B)
		c03iExpect(r, "edwardsDoubleScalarMulBasepointVartimeVectorInner", edwardsDoubleScalarMulBasepointVartimeVectorInner(c03iOut(), s, ep.innerVector, s2), sPs2B)
	}
	// the dispatchers
	c03iExpect(r, "edwardsMul", edwardsMul(c03iOut(), p, s), sP)
	c03iExpect(r, "edwardsBasepointTableMul", edwardsBasepointTableMul(c03iOut(), ED25519_BASEPOINT_TABLE, s), sB)
	c03iExpect(r, "edwardsDoubleScalarMulBasepointVartime", edwardsDoubleScalarMulBasepointVartime(c03iOut(), s, p, s2), sPs2B)
	r.Eval(1)
	if !bytes.Equal(c03iEnc(p), pr.Encode()) {
		r.Fail("scalar-mul:operand-modified", "")
	}
	return r.Result()
}

func TestC03ImplScalarMul(t *testing.T) {
	c03iBackend(t)
	h.Run(t, c03iGenMul, c03iCheckMul)
}

// --------------------------------------------------------- multiscalar mul

type c03iMSMCase struct {
	Terms   []h.C03Term
	Static  int
	LamSeed uint64
	Direct  bool
	// Filler terms that extend the sum to Pad7 (500..799) and Pad8 (>= 800)
	// terms so that the Pippenger windows 7 and 8 run for this sum as well.
	// 0 = skip.  Filler i re-uses the point of term i mod n; its scalar is
	// chosen by PadKind.
	Pad7, Pad8 int
	PadKind    int
	PadSeed    uint64
}

func c03iGenMSM(t *rapid.T, large bool) c03iMSMCase {
	var c c03iMSMCase
	var n int
	switch {
	case large:
		n = h.C03LargeN[h.C03UniformIndex(t, len(h.C03LargeN), "n")]
	case rapid.IntRange(0, 9).Draw(t, "nk") < 6:
		n = rapid.SampledFrom(h.C03SmallN).Draw(t, "n")
	default:
		n = rapid.IntRange(0, 64).Draw(t, "n")
	}
	c.Terms = h.C03GenTerms(t, n, large || n > 20, false)
	switch rapid.IntRange(0, 4).Draw(t, "sk") {
	case 0:
		c.Static = 0
	case 1:
		c.Static = n
	case 2:
		c.Static = n / 2
	case 3:
		c.Static = 1
	default:
		c.Static = rapid.IntRange(0, n).Draw(t, "static")
	}
	if c.Static > n {
		c.Static = n
	}
	c.LamSeed = rapid.Uint64().Draw(t, "lam")
	c.Direct = n <= 20 && rapid.IntRange(0, 7).Draw(t, "direct") == 0
	if n < 500 {
		c.Pad7 = rapid.SampledFrom([]int{500, 799, 501, 640}).Draw(t, "pad7")
	}
	if n < 800 {
		c.Pad8 = rapid.SampledFrom([]int{800, 801, 850}).Draw(t, "pad8")
	}
	c.PadKind = rapid.IntRange(0, 7).Draw(t, "padkind")
	c.PadSeed = rapid.Uint64().Draw(t, "padseed")
	return c
}

var c03iPadPool = []h.PointSpec{
	{A: h.Hex{1}, J: 0}, {A: h.Hex{0}, J: 1}, {A: h.Hex{0}, J: 0}, {A: h.Hex{7}, J: 3}, {A: h.Hex{2}, J: 4},
}

// c03iFillerScalar: kinds 0..2 = zero (the cheap default: the wide window then
// runs over exactly the real terms), 3 = L (zero mod L but not for the torsion
// part), 4 = small, 5 = uniform 255-bit, 6 = top of the range, 7 = 2^(w-1)
// windows.
func c03iFillerScalar(kind int, seed uint64, i int) h.Hex {
	switch kind & 7 {
	case 0, 1, 2:
		return make(h.Hex, 32)
	case 3:
		return h.Hex(ref.ToLE(ref.L, 32))
	case 4:
		return h.Hex(ref.ToLE(big.NewInt(int64(i%200+1)), 32))
	case 5:
		b := h.Expand(seed+uint64(i)*0x9e37, 32)
		b[31] &= 0x7f
		return b
	case 6:
		v := new(big.Int).Lsh(big.NewInt(1), 255)
		v.Sub(v, big.NewInt(int64(i%300+1)))
		return h.Hex(ref.ToLE(v, 32))
	default:
		b := bytes.Repeat([]byte{0x80}, 32)
		b[31] = byte(0x40 | i&0x3f)
		b[0] = byte(i)
		return b
	}
}

type c03iOperands struct {
	scs []*scalar.Scalar
	pts []*EdwardsPoint
	eps []*ExpandedEdwardsPoint
}

func c03iCheckMSM(c c03iMSMCase) h.Result {
	n := len(c.Terms)
	r := h.NewR().Class(fmt.Sprintf("n=%s", c03iNClass(n))).Class(h.C03TermClasses(c.Terms)...)
	r.NT(h.C03TermsNonTrivial(c.Terms))
	if c.Static < 0 || c.Static > n {
		c.Static = n
	}
	rps := h.C03Points(c.Terms)
	lams := h.Expand(c.LamSeed, 8*n)
	var op c03iOperands
	for i := range c.Terms {
		var seed uint64
		for k := 0; k < 8; k++ {
			seed |= uint64(lams[8*i+k]) << (8 * uint(k))
		}
		if lams[8*i]&3 == 0 {
			seed = uint64(lams[8*i] >> 2 & 3) // 0: unscaled, 1: -1, 2: 2, 3: small seed
		}
		p, ok := c03iLoad(r, rps[i], seed)
		if !ok {
			return r.Result()
		}
		op.pts = append(op.pts, p)
		op.scs = append(op.scs, c03iScalar(c.Terms[i].S))
	}
	for i := 0; i < c.Static; i++ {
		op.eps = append(op.eps, c03iExpand(op.pts[i]))
	}
	want := h.C03Expected(c.Terms, c.Direct).Encode()
	k := c.Static
	S, P, E := op.scs, op.pts, op.eps

	// Straus
	c03iExpect(r, "edwardsMultiscalarMulStrausGeneric", edwardsMultiscalarMulStrausGeneric(c03iOut(), S, P), want)
	c03iExpect(r, "edwardsMultiscalarMulStrausVartimeGeneric", edwardsMultiscalarMulStrausVartimeGeneric(c03iOut(), S, P), want)
	c03iExpect(r, "expandedEdwardsMultiscalarMulStrausVartimeGeneric", expandedEdwardsMultiscalarMulStrausVartimeGeneric(c03iOut(), S[:k], E, S[k:], P[k:]), want)
	// Pippenger at the natural window of this length
	c03iExpect(r, "edwardsMultiscalarMulPippengerVartimeGeneric", edwardsMultiscalarMulPippengerVartimeGeneric(c03iOut(), nil, nil, S, P), want)
	c03iExpect(r, "edwardsMultiscalarMulPippengerVartimeGeneric(static)", edwardsMultiscalarMulPippengerVartimeGeneric(c03iOut(), S[:k], P[:k], S[k:], P[k:]), want)
	if supportsVectorizedEdwards {
		c03iExpect(r, "edwardsMultiscalarMulStrausVector", edwardsMultiscalarMulStrausVector(c03iOut(), S, P), want)
		c03iExpect(r, "edwardsMultiscalarMulStrausVartimeVector", edwardsMultiscalarMulStrausVartimeVector(c03iOut(), S, P), want)
		c03iExpect(r, "expandedEdwardsMultiscalarMulStrausVartimeVector", expandedEdwardsMultiscalarMulStrausVartimeVector(c03iOut(), S[:k], E, S[k:], P[k:]), want)
		c03iExpect(r, "edwardsMultiscalarMulPippengerVartimeVector", edwardsMultiscalarMulPippengerVartimeVector(c03iOut(), nil, nil, S, P), want)
		c03iExpect(r, "edwardsMultiscalarMulPippengerVartimeVector(static)", edwardsMultiscalarMulPippengerVartimeVector(c03iOut(), S[:k], P[:k], S[k:], P[k:]), want)
	}
	// dispatchers that the public API only reaches on one side of a threshold
	c03iExpect(r, "edwardsMultiscalarMulPippengerVartime", edwardsMultiscalarMulPippengerVartime(c03iOut(), S, P), want)
	c03iExpect(r, "expandedEdwardsMultiscalarMulPippengerVartime", expandedEdwardsMultiscalarMulPippengerVartime(c03iOut(), S[:k], E, S[k:], P[k:]), want)
	c03iExpect(r, "expandedEdwardsMultiscalarMulStrausVartime", expandedEdwardsMultiscalarMulStrausVartime(c03iOut(), S[:k], E, S[k:], P[k:]), want)
	c03iExpect(r, "edwardsMultiscalarMulStrausVartime", edwardsMultiscalarMulStrausVartime(c03iOut(), S, P), want)

	// wider Pippenger windows through filler terms
	for _, target := range []int{c.Pad7, c.Pad8} {
		if target <= n || target > 1200 {
			continue
		}
		terms := append([]h.C03Term(nil), c.Terms...)
		xs := append([]*scalar.Scalar(nil), S...)
		xp := append([]*EdwardsPoint(nil), P...)
		var pool []*EdwardsPoint
		if n == 0 {
			for _, ps := range c03iPadPool {
				p, ok := c03iLoad(r, h.C03SpecPoint(ps), c.PadSeed)
				if !ok {
					return r.Result()
				}
				pool = append(pool, p)
			}
		}
		for i := 0; len(terms) < target; i++ {
			var tm h.C03Term
			var p *EdwardsPoint
			if n == 0 {
				tm.P, p = c03iPadPool[i%len(c03iPadPool)], pool[i%len(c03iPadPool)]
			} else {
				tm.P, p = c.Terms[i%n].P, P[i%n]
			}
			tm.S = c03iFillerScalar(c.PadKind, c.PadSeed, i)
			terms = append(terms, tm)
			xs = append(xs, c03iScalar(tm.S))
			xp = append(xp, p)
		}
		w := 7
		if target >= 800 {
			w = 8
		}
		wantPad := h.C03Expected(terms, false).Encode()
		r.Class(fmt.Sprintf("pippenger-w%d-padded", w))
		c03iExpect(r, fmt.Sprintf("edwardsMultiscalarMulPippengerVartimeGeneric(w=%d,padded)", w), edwardsMultiscalarMulPippengerVartimeGeneric(c03iOut(), xs[:k], xp[:k], xs[k:], xp[k:]), wantPad)
		if supportsVectorizedEdwards {
			c03iExpect(r, fmt.Sprintf("edwardsMultiscalarMulPippengerVartimeVector(w=%d,padded)", w), edwardsMultiscalarMulPippengerVartimeVector(c03iOut(), xs[:k], xp[:k], xs[k:], xp[k:]), wantPad)
		}
	}

	r.Eval(1)
	step := 1
	if n > 64 {
		step = n / 16
	}
	for i := 0; i < n; i += step {
		if !bytes.Equal(c03iEnc(P[i]), rps[i].Encode()) {
			r.Fail("multiscalar-mul:operand-modified", "i=%d", i)
		}
	}
	return r.Result()
}

func c03iNClass(n int) string {
	switch {
	case h.C03IsThresholdN(n) || n <= 3 || n == 8 || n == 20:
		return fmt.Sprint(n)
	case n <= 64:
		return "4..64"
	}
	return "other"
}

func TestC03ImplMSMSmall(t *testing.T) {
	c03iBackend(t)
	h.Run(t, func(t *rapid.T) c03iMSMCase { return c03iGenMSM(t, false) }, c03iCheckMSM)
}

func TestC03ImplMSMLarge(t *testing.T) {
	c03iBackend(t)
	h.Run(t, func(t *rapid.T) c03iMSMCase { return c03iGenMSM(t, true) }, c03iCheckMSM)
}

// ----------------------------------------- ristretto with coset representatives

type c03iRistCase struct {
	P, Q       h.PointSpec // torsion component in E[4]
	LamP, LamQ uint64
	S, S2      h.Hex
	SC, S2C    string
}

func c03iGenRist(t *rapid.T) c03iRistCase {
	var c c03iRistCase
	c.P = h.C03GenPoint(t, "p", false, true)
	if rapid.IntRange(0, 3).Draw(t, "rel") == 0 {
		c.Q = h.PointSpec{A: c.P.A, J: (c.P.J + 2*rapid.IntRange(0, 3).Draw(t, "qj")) % 8, Cls: "same-coset"}
	} else {
		c.Q = h.C03GenPoint(t, "q", false, true)
	}
	c.LamP = rapid.Uint64().Draw(t, "lamp")
	c.LamQ = rapid.Uint64().Draw(t, "lamq")
	c.S, c.SC = h.C03GenScalar(t, "s")
	c.S2, c.S2C = h.C03GenScalar(t, "s2")
	return c
}

// The RistrettoPoint wrappers must give the same element whichever of the four
// Edwards representatives (and whichever projective scaling) is stored inside.
func c03iCheckRist(c c03iRistCase) h.Result {
	r := h.NewR().Class("p:"+c03iSpecCls(c.P), "q:"+c03iSpecCls(c.Q), "s:"+c.SC)
	r.NT(c.P.J != 0 || c.Q.J != 0 || c.LamP != 0 || c.LamQ != 0 || h.C03PointNonTrivial(c.P) || h.C03PointNonTrivial(c.Q) ||
		h.C03ScalarNonTrivial(c.S, c.SC) || h.C03ScalarNonTrivial(c.S2, c.S2C))
	if c.P.J%2 != 0 || c.Q.J%2 != 0 {
		return r.Class("skipped:odd-torsion").Result()
	}
	pr, qr := h.C03SpecPoint(c.P), h.C03SpecPoint(c.Q)
	pe, ok := c03iLoad(r, pr, c.LamP)
	if !ok {
		return r.Result()
	}
	qe, ok := c03iLoad(r, qr, c.LamQ)
	if !ok {
		return r.Result()
	}
	p, q := &RistrettoPoint{inner: *pe}, &RistrettoPoint{inner: *qe}
	enc := func(x *RistrettoPoint) []byte {
		var cp CompressedRistretto
		cp.SetRistrettoPoint(x)
		return append([]byte(nil), cp[:]...)
	}
	expect := func(op string, got *RistrettoPoint, want ref.Point) {
		r.Eval(1)
		if g, w := enc(got), ref.RistEncode(want); !bytes.Equal(g, w) {
			r.Fail("RistrettoPoint."+op+":wrong-result", "got=%x want=%x", g, w)
		}
	}
	s, s2 := c03iScalar(c.S), c03iScalar(c.S2)
	ro := func() *RistrettoPoint { return &RistrettoPoint{inner: *c03iOut()} } // stale receiver
	expect("MarshalBinary(coset-representative)", p, pr)
	expect("Add", ro().Add(p, q), ref.Add(pr, qr))
	expect("Sub", ro().Sub(p, q), ref.Sub(pr, qr))
	expect("Neg", ro().Neg(p), ref.Neg(pr))
	expect("Sum", ro().Sum([]*RistrettoPoint{p, q, q}), ref.Add(ref.Add(pr, qr), qr))
	sP := h.C03Expected([]h.C03Term{{P: c.P, S: c.S}}, false)
	expect("Mul", ro().Mul(p, s), sP)
	expect("MulBasepoint(NewRistrettoBasepointTable)", ro().MulBasepoint(NewRistrettoBasepointTable(p), s), sP)
	two := []h.C03Term{{P: c.P, S: c.S}, {P: c03iSpecB, S: c.S2}}
	expect("DoubleScalarMulBasepointVartime", ro().DoubleScalarMulBasepointVartime(s, p, s2), h.C03Expected(two, false))
	pq := []h.C03Term{{P: c.P, S: c.S}, {P: c.Q, S: c.S2}}
	wantPQ := h.C03Expected(pq, false)
	expect("MultiscalarMul", ro().MultiscalarMul([]*scalar.Scalar{s, s2}, []*RistrettoPoint{p, q}), wantPQ)
	expect("MultiscalarMulVartime", ro().MultiscalarMulVartime([]*scalar.Scalar{s, s2}, []*RistrettoPoint{p, q}), wantPQ)
	expect("ExpandedMultiscalarMulVartime", ro().ExpandedMultiscalarMulVartime([]*scalar.Scalar{s}, []*ExpandedRistrettoPoint{NewExpandedRistrettoPoint(p)}, []*scalar.Scalar{s2}, []*RistrettoPoint{q}), wantPQ)
	r.Eval(2)
	same := ref.RistEqual(pr, qr)
	if got := p.Equal(q); (got == 1) != same {
		r.Fail("RistrettoPoint.Equal:wrong", "got=%d want-equal=%v", got, same)
	}
	if got := p.IsIdentity(); got != c.P.IsSmallOrder() {
		r.Fail("RistrettoPoint.IsIdentity:wrong", "got=%v", got)
	}
	return r.Result()
}

func TestC03ImplRistretto(t *testing.T) {
	c03iBackend(t)
	h.Run(t, c03iGenRist, c03iCheckRist)
}

// The scalar-multiplication implementations with four cases at a time, one
// goroutine each (h.RunPar): the window tables, recodings and bucket arrays
// are per call (stack or heap), never package-level scratch.
func TestC03ParImplScalarMul(t *testing.T) { h.RunPar(t, 4, c03iGenMul, c03iCheckMul) }
func TestC03ParImplMSMSmall(t *testing.T) {
	h.RunPar(t, 4, func(t *rapid.T) c03iMSMCase { return c03iGenMSM(t, false) }, c03iCheckMSM)
}
