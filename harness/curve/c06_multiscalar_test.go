//go:build verif

package curve

import (
	"encoding/binary"
	"fmt"
	"testing"

	"github.com/oasisprotocol/curve25519-voi/curve/scalar"
	"pgregory.net/rapid"
	h "verifh"
	ref "verifref"
)

const c06MsmDistinct = 12 // distinct generated points / catalogue scalars per case; further terms cycle / expand a seed

// c06GenMsmSize draws the number of terms: mostly small, regularly at the
// Straus/Pippenger switch (190 for the plain, 191 for the expanded entry
// point) and occasionally at the Pippenger window switches (500, 800).
func c06GenMsmSize(t *rapid.T) int {
	k := rapid.IntRange(0, 99).Draw(t, "sizeclass")
	switch {
	case k < 45:
		return rapid.IntRange(0, 4).Draw(t, "n")
	case k < 75:
		return rapid.IntRange(5, 24).Draw(t, "n")
	case k < 86:
		return rapid.IntRange(25, 120).Draw(t, "n")
	case k < 95:
		return rapid.SampledFrom([]int{188, 189, 190, 191, 192}).Draw(t, "n")
	case k < 98:
		return rapid.SampledFrom([]int{499, 500, 501}).Draw(t, "n")
	default:
		return rapid.SampledFrom([]int{799, 800, 801}).Draw(t, "n")
	}
}

// c06GenMsm appends: N = [n, split], then min(n,12) point arguments, then
// min(n,12) catalogue scalars, then an 8-byte seed for the remaining scalars.
func c06GenMsm(rist bool) func(t *rapid.T, c *h.DiffCase) {
	return func(t *rapid.T, c *h.DiffCase) {
		n := c06GenMsmSize(t)
		c.PutN(n)
		c.PutN(rapid.IntRange(0, n).Draw(t, "split"))
		m := n
		if m > c06MsmDistinct {
			m = c06MsmDistinct
		}
		for i := 0; i < m; i++ {
			label := fmt.Sprintf("P%d", i)
			if rist {
				ps := h.GenPointSpec(t, label, n > 4)
				ps.J = 0
				c.PutB(ref.RistEncode(h.DiffRef(ps)))
				c.PutN(rapid.IntRange(0, 3).Draw(t, label+"_rerep"))
			} else {
				h.DiffValidPoint(t, c, label, n > 4)
			}
		}
		for i := 0; i < m; i++ {
			c06GenSc(t, c, fmt.Sprintf("s%d", i))
		}
		c.PutB(h.UniformBytes(t, 8, "seed"))
	}
}

type c06Msm struct {
	n, split int
	scalars  []*scalar.Scalar
	ed       []*EdwardsPoint
	rs       []*RistrettoPoint
}

func c06MsmArgs(a *h.DiffArgs, o *h.DiffOut, rist bool) *c06Msm {
	m := &c06Msm{n: a.N(), split: a.N()}
	if m.n < 0 || m.n > 2000 {
		m.n = 0
	}
	if m.split < 0 || m.split > m.n {
		m.split = 0
	}
	switch {
	case m.n < 5:
		o.Class("terms<5")
	case m.n < 25:
		o.Class("terms<25")
	case m.n < 188:
		o.Class("terms<188")
	case m.n < 193:
		o.Class(fmt.Sprintf("terms=%d(straus/pippenger switch)", m.n))
	case m.n < 700:
		o.Class("terms~500(pippenger w=6/7)")
	default:
		o.Class("terms~800(pippenger w=7/8)")
	}
	d := m.n
	if d > c06MsmDistinct {
		d = c06MsmDistinct
	}
	var edBase []*EdwardsPoint
	var rsBase []*RistrettoPoint
	for i := 0; i < d; i++ {
		if rist {
			rsBase = append(rsBase, c06RPt(a, o))
		} else {
			edBase = append(edBase, c06Pt(a, o))
		}
	}
	var cat []*scalar.Scalar
	for i := 0; i < d; i++ {
		cat = append(cat, c06Sc(a))
	}
	seedB := a.B()
	var seed uint64
	if len(seedB) >= 8 {
		seed = binary.LittleEndian.Uint64(seedB)
	}
	for i := 0; i < m.n; i++ {
		if i < d {
			m.scalars = append(m.scalars, cat[i])
		} else {
			b := h.Expand(seed+uint64(i), 32)
			switch i % 7 {
			case 0:
				b[31] &= 0x0f // reduced
			case 1:
				for j := 16; j < 32; j++ { // 128-bit (batch verification randomisers)
					b[j] = 0
				}
			default:
				b[31] &= 0x7f
			}
			s, _ := scalar.NewFromBits(b)
			m.scalars = append(m.scalars, s)
		}
		if rist {
			m.rs = append(m.rs, rsBase[i%d])
		} else {
			m.ed = append(m.ed, edBase[i%d])
		}
	}
	return m
}

func c06MultiscalarOps() []h.DiffOp {
	return []h.DiffOp{
		{Name: "ed.msm", Weight: 5,
			Covers: []string{"EdwardsPoint.MultiscalarMul", "EdwardsPoint.MultiscalarMulVartime"},
			Gen:    c06GenMsm(false),
			Exec: func(a *h.DiffArgs, o *h.DiffOut) {
				m := c06MsmArgs(a, o, false)
				c06PtOut(o, "ct", NewEdwardsPoint().MultiscalarMul(m.scalars, m.ed))
				c06PtOut(o, "vartime", NewEdwardsPoint().MultiscalarMulVartime(m.scalars, m.ed))
				if n := len(m.ed); n > 0 {
					// receiver is one of the input points
					al := append([]*EdwardsPoint(nil), m.ed...)
					al[n/2] = NewEdwardsPoint().Set(m.ed[n/2])
					c06PtOut(o, "ct.alias", al[n/2].MultiscalarMul(m.scalars, al))
					al[n/2] = NewEdwardsPoint().Set(m.ed[n/2])
					c06PtOut(o, "vartime.alias", al[n/2].MultiscalarMulVartime(m.scalars, al))
				}
			}},
		{Name: "ed.msm.expanded", Weight: 5,
			Covers: []string{"EdwardsPoint.ExpandedMultiscalarMulVartime", "NewExpandedEdwardsPoint"},
			Gen:    c06GenMsm(false),
			Exec: func(a *h.DiffArgs, o *h.DiffOut) {
				m := c06MsmArgs(a, o, false)
				var static []*ExpandedEdwardsPoint
				for _, p := range m.ed[:m.split] {
					static = append(static, NewExpandedEdwardsPoint(p))
				}
				c06PtOut(o, "expanded", NewEdwardsPoint().ExpandedMultiscalarMulVartime(m.scalars[:m.split], static, m.scalars[m.split:], m.ed[m.split:]))
			}},
		{Name: "rs.msm", Weight: 4,
			Covers: []string{"RistrettoPoint.MultiscalarMul", "RistrettoPoint.MultiscalarMulVartime"},
			Gen:    c06GenMsm(true),
			Exec: func(a *h.DiffArgs, o *h.DiffOut) {
				m := c06MsmArgs(a, o, true)
				c06RPtOut(o, "ct", NewRistrettoPoint().MultiscalarMul(m.scalars, m.rs))
				c06RPtOut(o, "vartime", NewRistrettoPoint().MultiscalarMulVartime(m.scalars, m.rs))
			}},
		{Name: "rs.msm.expanded", Weight: 4,
			Covers: []string{"RistrettoPoint.ExpandedMultiscalarMulVartime", "NewExpandedRistrettoPoint"},
			Gen:    c06GenMsm(true),
			Exec: func(a *h.DiffArgs, o *h.DiffOut) {
				m := c06MsmArgs(a, o, true)
				var static []*ExpandedRistrettoPoint
				for _, p := range m.rs[:m.split] {
					static = append(static, NewExpandedRistrettoPoint(p))
				}
				c06RPtOut(o, "expanded", NewRistrettoPoint().ExpandedMultiscalarMulVartime(m.scalars[:m.split], static, m.scalars[m.split:], m.rs[m.split:]))
			}},
		{Name: "mismatch", Weight: 1,
			// documented: "WARNING: This function will panic if len(scalars) != len(points)"
			Covers: []string{"EdwardsPoint.MultiscalarMul", "EdwardsPoint.MultiscalarMulVartime", "EdwardsPoint.ExpandedMultiscalarMulVartime",
				"RistrettoPoint.MultiscalarMul", "RistrettoPoint.MultiscalarMulVartime", "RistrettoPoint.ExpandedMultiscalarMulVartime"},
			Gen: func(t *rapid.T, c *h.DiffCase) {
				c.PutN(rapid.IntRange(0, 3).Draw(t, "ns"))
				c.PutN(rapid.IntRange(0, 3).Draw(t, "np"))
				c06GenSc(t, c, "s")
			},
			Exec: func(a *h.DiffArgs, o *h.DiffOut) {
				ns, np := a.N()&3, a.N()&3
				s := c06Sc(a)
				var ss []*scalar.Scalar
				var ep []*EdwardsPoint
				var rp []*RistrettoPoint
				var xep []*ExpandedEdwardsPoint
				var xrp []*ExpandedRistrettoPoint
				for i := 0; i < ns; i++ {
					ss = append(ss, s)
				}
				for i := 0; i < np; i++ {
					ep = append(ep, ED25519_BASEPOINT_POINT)
					rp = append(rp, RISTRETTO_BASEPOINT_POINT)
					xep = append(xep, NewExpandedEdwardsPoint(ED25519_BASEPOINT_POINT))
					xrp = append(xrp, NewExpandedRistrettoPoint(RISTRETTO_BASEPOINT_POINT))
				}
				o.Panics("ed.ct", func() { c06PtOut(o, "r", NewEdwardsPoint().MultiscalarMul(ss, ep)) })
				o.Panics("ed.vartime", func() { c06PtOut(o, "r", NewEdwardsPoint().MultiscalarMulVartime(ss, ep)) })
				o.Panics("ed.exp.static", func() { c06PtOut(o, "r", NewEdwardsPoint().ExpandedMultiscalarMulVartime(ss, xep, nil, nil)) })
				o.Panics("ed.exp.dynamic", func() { c06PtOut(o, "r", NewEdwardsPoint().ExpandedMultiscalarMulVartime(nil, nil, ss, ep)) })
				o.Panics("rs.ct", func() { c06RPtOut(o, "r", NewRistrettoPoint().MultiscalarMul(ss, rp)) })
				o.Panics("rs.vartime", func() { c06RPtOut(o, "r", NewRistrettoPoint().MultiscalarMulVartime(ss, rp)) })
				o.Panics("rs.exp.static", func() { c06RPtOut(o, "r", NewRistrettoPoint().ExpandedMultiscalarMulVartime(ss, xrp, nil, nil)) })
				o.Panics("rs.exp.dynamic", func() { c06RPtOut(o, "r", NewRistrettoPoint().ExpandedMultiscalarMulVartime(nil, nil, ss, rp)) })
			}},
	}
}

func TestC06Multiscalar(t *testing.T) { h.RunDiffOps(t, "curve", c06Backend(), c06MultiscalarOps()) }
